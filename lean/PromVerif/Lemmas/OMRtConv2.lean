/-
C04, the converse at line level, inversion lemmas: what an ACCEPTED sample line gives — its timestamp came out of
`_parse_timestamp`, its exemplar's labels out of `parse_labels` (valid names, no duplicates, within the 128-character limit),
the exemplar's timestamp out of `_parse_timestamp`; every `Timestamp` among them satisfies the class invariant.
-/
import PromVerif.Lemmas.OMRtConv

set_option autoImplicit false

namespace PromVerif.Lemmas.OMRt
open PromVerif.Py PromVerif.Model PromVerif.Model.Escape PromVerif.Model.ParseCore PromVerif.Model.Validation
open PromVerif.Model.OMParse PromVerif.Spec.OMRoundtrip PromVerif.Lemmas.TextParse

-- timestamps out of `_parse_timestamp` ---------------------------------------------------------------------------------------------

/-- the class invariant of `samples.Timestamp` -/
def StampInv : OTs → Prop
  | .stamp s n => (0 ≤ s → 0 ≤ n ∧ n < 1000000000) ∧ (s < 0 → -1000000000 < n ∧ n ≤ 0)
  | .flt _ => True

theorem mkTimestamp_inv (a b : Int) (o : OTs) (h : mkTimestamp a b = .ok o) : StampInv o := by
  cases o with
  | flt f => trivial
  | stamp s n => exact mkTimestamp_range a b s n h

theorem parseTimestampFrac_inv (P : Params) (t : Str) (o : OTs) (h : parseTimestampFrac P t = .ok o) : StampInv o := by
  unfold parseTimestampFrac at h
  dsimp only at h
  repeat' split at h
  all_goals first
    | (cases h; done)
    | exact mkTimestamp_inv _ _ _ h

theorem parseTimestampFloat_inv (P : Params) (t : Str) (o : OTs) (h : parseTimestampFloat P t = .ok o) : StampInv o := by
  unfold parseTimestampFloat at h
  simp only [bind, Except.bind, pure, Except.pure] at h
  repeat' split at h
  all_goals first
    | (cases h; done)
    | (cases h; trivial)

/-- every timestamp `_parse_timestamp` returns satisfies the class invariant -/
theorem parseTimestamp_inv (P : Params) (t : Str) (o : OTs) (h : parseTimestamp P t = .ok (some o)) : StampInv o := by
  unfold parseTimestamp at h
  split at h
  · cases h
  · split at h
    · cases h
    · cases hx : (catchValueError (do let n ← P.intE t; mkTimestamp n 0) fun _ =>
          catchValueError (parseTimestampFrac P t) fun _ => parseTimestampFloat P t) with
      | error e => rw [hx] at h; cases h
      | ok o' =>
        rw [hx] at h
        have : o' = o := by
          have := Except.ok.inj h
          exact Option.some.inj this
        subst this
        -- which of the three forms produced it
        cases h1 : (do let n ← P.intE t; mkTimestamp n 0 : PyM OTs) with
        | ok o1 =>
          rw [h1] at hx
          cases hx
          simp only [bind, Except.bind] at h1
          cases hi : P.intE t with
          | error e => rw [hi] at h1; cases h1
          | ok n => rw [hi] at h1; exact mkTimestamp_inv _ _ _ h1
        | error e1 =>
          rw [h1] at hx
          cases e1 <;> try (cases hx; done)
          -- valueError: second form
          simp only [catchValueError] at hx
          cases h2 : parseTimestampFrac P t with
          | ok o2 => rw [h2] at hx; cases hx; exact parseTimestampFrac_inv P t _ h2
          | error e2 =>
            rw [h2] at hx
            cases e2 <;> try (cases hx; done)
            exact parseTimestampFloat_inv P t _ hx

def StampInvOpt : Option OTs → Prop
  | none => True
  | some o => StampInv o

theorem parseTimestamp_inv_opt (P : Params) (t : Str) (o : Option OTs) (h : parseTimestamp P t = .ok o) : StampInvOpt o := by
  cases o with
  | none => trivial
  | some x => exact parseTimestamp_inv P t x h

-- the exemplar's labels --------------------------------------------------------------------------------------------------------------

/-- the machine's exemplar labels, once set, are what `parse_labels` made of a piece of the text -/
def ExInv (P : Params) (a : RAcc) : Prop := ∀ ls, a.exLabels = some ls → ∃ s, parseLabels P.legacy s true = .ok ls

theorem remStep_exInv (P : Params) (text : Str) (a a' : RAcc) (c : Char) (hi : ExInv P a) (h : remStep P text a c = .ok a') :
    ExInv P a' := by
  unfold remStep at h
  dsimp only at h
  repeat' split at h
  all_goals first
    | (cases h; done)
    | (cases h; exact hi)
    | (cases h
       rename_i ls hl
       intro ls' hls'
       simp only at hls'
       cases hls'
       unfold exemplarLabels at hl
       exact ⟨_, hl⟩)

theorem remLoop_exInv (P : Params) (text : Str) : ∀ (s : Str) (a a' : RAcc), ExInv P a → remLoop P text a s = .ok a' → ExInv P a' := by
  intro s
  induction s with
  | nil => intro a a' hi h; cases h; exact hi
  | cons c cs ih =>
    intro a a' hi h
    rw [remLoop] at h
    cases hs : remStep P text a c with
    | error e => rw [hs] at h; cases h
    | ok a1 => rw [hs] at h; exact ih a1 a' (remStep_exInv P text a a1 c hi hs) h

/-- what `remFinish` returns: the value it was given, a timestamp out of `_parse_timestamp`, and for an exemplar the machine's
labels (within the limit), a value out of `_parse_value`, a timestamp out of `_parse_timestamp` -/
theorem remFinish_inv (P : Params) (val : Num) (a : RAcc) (v : Num) (ts : Option OTs) (ex : Option OExemplar)
    (h : remFinish P val a = .ok (v, ts, ex)) :
    v = val ∧ StampInvOpt ts ∧
      (∀ e, ex = some e → a.exLabels = some e.labels ∧ labelsLen e.labels ≤ 128 ∧ StampInvOpt e.ts) := by
  unfold remFinish at h
  cases hc : runChecks _ with
  | error e => rw [hc] at h; cases h
  | ok u =>
    rw [hc] at h
    dsimp only at h
    cases ht : parseTimestamp P a.timestamp.reverse with
    | error e => rw [ht] at h; cases h
    | ok ts0 =>
      rw [ht] at h
      dsimp only at h
      have hts := parseTimestamp_inv_opt P _ _ ht
      cases hl : a.exLabels with
      | none =>
        rw [hl] at h
        cases h
        exact ⟨rfl, hts, fun e he => by cases he⟩
      | some ls =>
        rw [hl] at h
        dsimp only at h
        cases hx : remExemplar P a ls with
        | error e => rw [hx] at h; cases h
        | ok e0 =>
          rw [hx] at h
          cases h
          refine ⟨rfl, hts, ?_⟩
          intro e he
          cases he
          unfold remExemplar at hx
          dsimp only at hx
          split at hx
          · cases hx
          · rename_i hlen
            cases hv : P.parseValue a.exValue.reverse with
            | error e => rw [hv] at hx; cases hx
            | ok ev =>
              rw [hv] at hx
              dsimp only at hx
              cases hte : parseTimestamp P a.exTs.reverse with
              | error e => rw [hte] at hx; cases hx
              | ok ets =>
                rw [hte] at hx
                cases hx
                refine ⟨rfl, ?_, parseTimestamp_inv_opt P _ _ hte⟩
                have : ¬ (labelsLen ls > 128) := by
                  simpa [natCmp, Generated.OMParse.exemplarLenCmp, Generated.OMParse.exemplarMaxLen, labelsLen] using hlen
                show labelsLen ls ≤ 128
                omega

/-- the same for `_parse_remaining_text` -/
theorem parseRemainingText_inv (P : Params) (text : Str) (v : Num) (ts : Option OTs) (ex : Option OExemplar)
    (h : parseRemainingText P text = .ok (v, ts, ex)) :
    StampInvOpt ts ∧ (∀ e, ex = some e → (∃ s, parseLabels P.legacy s true = .ok e.labels) ∧ labelsLen e.labels ≤ 128 ∧
      StampInvOpt e.ts) := by
  unfold parseRemainingText at h
  simp only [bind, Except.bind, pure, Except.pure] at h
  cases hv : P.parseValue (splitFirst ' ' text).1 with
  | error e => rw [hv] at h; cases h
  | ok val =>
    rw [hv] at h
    dsimp only at h
    cases hr : (splitFirst ' ' text).2 with
    | none =>
      rw [hr] at h
      cases h
      exact ⟨trivial, fun e he => by cases he⟩
    | some rest =>
      rw [hr] at h
      dsimp only at h
      cases hl : remLoop P rest {} rest with
      | error e => rw [hl] at h; cases h
      | ok a =>
        rw [hl] at h
        dsimp only at h
        have hinv : ExInv P a := remLoop_exInv P rest rest {} a (fun ls hls => by cases hls) hl
        obtain ⟨_, h2, h3⟩ := remFinish_inv P val a v ts ex h
        refine ⟨h2, fun e he => ?_⟩
        obtain ⟨h4, h5, h6⟩ := h3 e he
        exact ⟨hinv _ h4, h5, h6⟩

end PromVerif.Lemmas.OMRt
