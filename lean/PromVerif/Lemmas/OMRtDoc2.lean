/-
C04, document level (2): the family state machine on the tokenised lines of one rendered family, from an arbitrary
state whose current family has another name: the metadata lines open the family with exactly the written name, help,
type and unit; every sample line goes through the rule layer (`sampleChecks`) of that family and nothing else.
-/
import PromVerif.Lemmas.OMRtDoc
import PromVerif.Lemmas.OMRun

set_option autoImplicit false

namespace PromVerif.Lemmas.OMRt
open PromVerif.Py PromVerif.Model PromVerif.Model.Escape PromVerif.Model.ParseCore PromVerif.Model.Validation
open PromVerif.Model.OMParse PromVerif.Spec.OMRoundtrip PromVerif.Lemmas.Escape PromVerif.Lemmas.Scanner
open PromVerif.Lemmas.TextParse PromVerif.Model.TextExpo PromVerif.Generated.OMParse

/-- the header variables after the metadata lines of a family -/
def famHdr (fam : Family) : Hdr :=
  ⟨some fam.name, some fam.doc, some fam.typ, if fam.unit.isEmpty then none else some fam.unit, allowedNames fam.name fam.typ⟩

/-- the rule layer of the parser on the parsed samples of one family, in order -/
def foldChecks (P : Params) (h : Hdr) : Grp → List OSample → PyM Grp
  | gr, [] => .ok gr
  | gr, o :: os =>
    match sampleChecks P h gr o false with
    | .ok gr' => foldChecks P h gr' os
    | .error e => .error e

/-- the tokenised metadata lines of a family -/
def metaLines (fam : Family) : List Line :=
  [.metadata Generated.OMParse.kwHelp fam.name (escape fam.doc), .metadata Generated.OMParse.kwType fam.name fam.typ] ++
    (if fam.unit.isEmpty then [] else [.metadata Generated.OMParse.kwUnit fam.name fam.unit])

theorem kw_ne : (Generated.OMParse.kwType == Generated.OMParse.kwHelp) = false ∧ (Generated.OMParse.kwUnit == Generated.OMParse.kwHelp) = false ∧ (Generated.OMParse.kwUnit == Generated.OMParse.kwType) = false := by decide

/-- the metadata lines open the family (the previous one is flushed first) -/
theorem run_metaLines (P : Params) (st : St) (fam : Family) (heof : st.eof = false) (hname : st.hdr.name ≠ some fam.name)
    (htyp : fam.typ ≠ untypedName) (rest : List Line) :
    OMParse.run P st (metaLines fam ++ rest) =
      (match flush P st.glob st.hdr st.grp.samples with
       | .ok g => OMParse.run P ⟨famHdr fam, {}, g, false⟩ rest
       | .error e => .error e) := by
  have hn1 : (st.hdr.name == some fam.name) = false := by simpa using hname
  have hn2 : (st.hdr.name != some fam.name) = true := by simpa using hname
  have hty : (fam.typ == untypedName) = false := by simpa using htyp
  unfold metaLines
  simp only [List.cons_append, List.nil_append, List.append_assoc]
  rw [OMParse.run]
  simp only [stepLine, heof, Bool.false_eq_true, ↓reduceIte, stepMeta, hn1, Bool.false_and, hn2]
  cases flush P st.glob st.hdr st.grp.samples with
  | error e => rfl
  | ok g =>
    simp only [applyMeta, beq_self_eq_true, ↓reduceIte, Option.isSome_none, Bool.false_eq_true, unescapeHelp_escape]
    rw [OMParse.run]
    simp only [stepLine, Bool.false_eq_true, ↓reduceIte, stepMeta, beq_self_eq_true, List.isEmpty_nil, Bool.not_true, Bool.and_false,
      bne_self_eq_false, applyMeta, kw_ne.1, Option.isSome_none, hty]
    by_cases hu : fam.unit.isEmpty = true
    · simp only [hu, ↓reduceIte, List.nil_append, famHdr]
    · have hu' : fam.unit.isEmpty = false := by simpa using hu
      simp only [hu', Bool.false_eq_true, ↓reduceIte, List.cons_append, List.nil_append]
      rw [OMParse.run]
      simp only [stepLine, Bool.false_eq_true, ↓reduceIte, stepMeta, beq_self_eq_true, List.isEmpty_nil, Bool.not_true, Bool.and_false,
        bne_self_eq_false, applyMeta, kw_ne.2.1, kw_ne.2.2, Option.isSome_none, famHdr, hu']

/-- the sample lines of the family go through its rule layer -/
theorem run_sampleLines (P : Params) (h : Hdr) (g : Glob) : ∀ (os : List OSample) (gr : Grp) (rest : List Line),
    h.typ ≠ none → (∀ o ∈ os, h.allowed.contains o.name = true) →
    OMParse.run P ⟨h, gr, g, false⟩ (os.map (fun o => Line.sample (.ok none) (.ok o)) ++ rest) =
      (match foldChecks P h gr os with
       | .ok gr' => OMParse.run P ⟨h, gr', g, false⟩ rest
       | .error e => .error e) := by
  intro os
  induction os with
  | nil => intro gr rest _ _; rfl
  | cons o os ih =>
    intro gr rest ht hal
    have hpick : pickSample h.typ (.ok none) (.ok o) = .ok (o, false) := by
      unfold pickSample
      by_cases c : h.typ == some tHistogram <;> simp [c] <;> rfl
    have hc : h.allowed.contains o.name = true := hal o (by simp)
    simp only [List.map_cons, List.cons_append]
    rw [OMParse.run]
    simp only [stepLine, Bool.false_eq_true, ↓reduceIte, hpick, stepSample, hc, Bool.not_true, Bool.false_and, foldChecks]
    cases sampleChecks P h gr o false with
    | error e => rfl
    | ok gr' =>
      simp only []
      exact ih gr' rest ht (fun x hx => hal x (by simp [hx]))

/-- the end of the document: `# EOF`, then the last family is built -/
theorem run_eof (P : Params) (h : Hdr) (gr : Grp) (g : Glob) :
    (match OMParse.run P ⟨h, gr, g, false⟩ [Line.eof] with
     | .ok st => finish P st
     | .error e => .error e) =
      (match flush P g h gr.samples with
       | .ok g' => .ok g'.out
       | .error e => .error e) := by
  simp only [OMParse.run, stepLine, Bool.false_eq_true, ↓reduceIte, finish, Bool.not_true]
  cases flush P g h gr.samples <;> rfl

end PromVerif.Lemmas.OMRt
