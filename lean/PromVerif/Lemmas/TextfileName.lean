/-
The temporary name `write_to_textfile` builds (C18).  The lemmas here are about fixed part lists (`canonParts`,
`cachedParts`) and about any list of the form `path :: lit s :: …`; that the GENERATED list is one of them is decided in
`Props/C18.lean`, so a source change to the name shows up there, at the theorem that states what the name guarantees.
-/
import PromVerif.Model.Textfile

namespace PromVerif.Model.Textfile
open PromVerif.Generated.Textfile

theorem natDigits_eq (n : Nat) : natDigits n = Nat.toDigits 10 n := by
  simp [natDigits, Nat.toList_repr]

theorem natDigits_inj {a b : Nat} (h : natDigits a = natDigits b) : a = b := by
  rw [natDigits_eq, natDigits_eq] at h
  have ha := @Nat.ofDigitChars_ten_toDigits a
  have hb := @Nat.ofDigitChars_ten_toDigits b
  rw [h] at ha
  omega

theorem dot_not_mem_natDigits (n : Nat) : '.' ∉ natDigits n := by
  intro h
  rw [natDigits_eq] at h
  have := Nat.isDigit_of_mem_toDigits (b := 10) (by decide) (by decide) h
  exact absurd this (by decide)

/-- a list is split in only one way at the first occurrence of `c` -/
theorem split_unique {c : Char} : ∀ (a a' b b' : List Char), c ∉ a → c ∉ a' → a ++ c :: b = a' ++ c :: b' →
    a = a' ∧ b = b' := by
  intro a
  induction a with
  | nil =>
    intro a' b b' _ h' h
    cases a' with
    | nil => simp at h; exact ⟨rfl, h⟩
    | cons x r => simp at h; exact absurd (h.1 ▸ List.mem_cons_self) h'
  | cons x r ih =>
    intro a' b b' h0 h' h
    cases a' with
    | nil => simp at h; exact absurd (h.1 ▸ List.mem_cons_self) h0
    | cons y s =>
      simp at h
      obtain ⟨h1, h2⟩ := ih s b b' (fun m => h0 (List.mem_cons_of_mem _ m)) (fun m => h' (List.mem_cons_of_mem _ m)) h.2
      exact ⟨by rw [h.1, h1], h2⟩

/-- the shape the property's anchor names: `path.<pid>.<thread id>` with the LIVE pid -/
def canonParts : List TmpPart := [.path, .lit ['.'], .pid, .lit ['.'], .threadIdent]

/-- the variant with the pid cached in a module-level constant at import -/
def cachedParts : List TmpPart := [.path, .lit ['.'], .cachedPid, .lit ['.'], .threadIdent]

theorem tmpName_canon (path : Path) (pid ip tid : Nat) :
    tmpName canonParts path pid ip tid = path ++ '.' :: (natDigits pid ++ '.' :: natDigits tid) := by
  simp [tmpName, canonParts]

theorem tmpName_cached (path : Path) (pid ip tid : Nat) :
    tmpName cachedParts path pid ip tid = path ++ '.' :: (natDigits ip ++ '.' :: natDigits tid) := by
  simp [tmpName, cachedParts]

/-- any name that starts `path ++ <literal> ++ …` -/
theorem tmpName_head (s : List Char) (rest : List TmpPart) (path : Path) (pid ip tid : Nat) :
    tmpName (.path :: .lit s :: rest) path pid ip tid = path ++ (s ++ tmpName rest path pid ip tid) := by
  simp [tmpName]

end PromVerif.Model.Textfile
