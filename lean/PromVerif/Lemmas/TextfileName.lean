/-
The temporary name `write_to_textfile` builds from the GENERATED parts list (C18): it differs from the target, and it
is injective in (pid, thread ident) — so two concurrently running writers, whose (pid, thread ident) pairs differ,
never share a temporary file.
-/
import PromVerif.Model.Textfile

namespace PromVerif.Model.Textfile
open PromVerif.Generated.Textfile

theorem natDigits_eq (n : Nat) : natDigits n = Nat.toDigits 10 n := by
  simp [natDigits, Nat.toList_repr]

theorem natDigits_inj {a b : Nat} (h : natDigits a = natDigits b) : a = b := by
  rw [natDigits_eq, natDigits_eq] at h
  have ha := @Nat.ofDigitChars_ten_toDigits a
  have hb := @Nat.ofDigitChars_ten_toDigits b
  rw [h] at ha
  omega

theorem dot_not_mem_natDigits (n : Nat) : '.' ∉ natDigits n := by
  intro h
  rw [natDigits_eq] at h
  have := Nat.isDigit_of_mem_toDigits (b := 10) (by decide) (by decide) h
  exact absurd this (by decide)

/-- a list is split in only one way at the first occurrence of `c` -/
theorem split_unique {c : Char} : ∀ (a a' b b' : List Char), c ∉ a → c ∉ a' → a ++ c :: b = a' ++ c :: b' →
    a = a' ∧ b = b' := by
  intro a
  induction a with
  | nil =>
    intro a' b b' _ h' h
    cases a' with
    | nil => simp at h; exact ⟨rfl, h⟩
    | cons x r => simp at h; exact absurd (h.1 ▸ List.mem_cons_self) h'
  | cons x r ih =>
    intro a' b b' h0 h' h
    cases a' with
    | nil => simp at h; exact absurd (h.1 ▸ List.mem_cons_self) h0
    | cons y s =>
      simp at h
      obtain ⟨h1, h2⟩ := ih s b b' (fun m => h0 (List.mem_cons_of_mem _ m)) (fun m => h' (List.mem_cons_of_mem _ m)) h.2
      exact ⟨by rw [h.1, h1], h2⟩

theorem tmpName_eq (path : Path) (pid tid : Nat) :
    tmpName tmpPathParts path pid tid = path ++ '.' :: (natDigits pid ++ '.' :: natDigits tid) := by
  simp [tmpName, tmpPathParts]

end PromVerif.Model.Textfile
