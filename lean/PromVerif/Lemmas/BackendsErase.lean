/-
C12 with remove/clear: the file-backed run of a history and of the history with every remove()/clear() ERASED leave
the same directory.  (In multiprocess mode `remove` / `clear` only drop the child objects; no value-object call is
made.  A later `labels()` constructs NEW value objects on the existing keys — they re-read the entries — and updates
go through them.)

Part 1: the metric objects of the two runs.  Those of the run with removals have, metric by metric, a SUBSET of the
children of the erased run; whether a call is accepted does not depend on which children exist.
-/
import PromVerif.Lemmas.BackendsDisk
import PromVerif.Lemmas.BackendsRun

namespace PromVerif.Lemmas.Backends
open PromVerif.Py
open PromVerif.Model.Metrics (Val Decl Kind Child Action Addr Reg Metric Out callMethod tlookup treplace terase stepCall
  stepRemove stepClear getChild resolveLabels)
open PromVerif.Model.Backends
open PromVerif.Lemmas.Metrics (upd)
set_option autoImplicit false
set_option linter.unusedSectionVars false

variable {V : Type} [Val V]

/-! ### child tables -/

theorem tlookup_append_isSome {β : Type} (k key : List Str) (c : β) (t : List (List Str × β)) :
    (tlookup k (t ++ [(key, c)])).isSome = ((tlookup k t).isSome || decide (key = k)) := by
  induction t with
  | nil => simp only [List.nil_append, tlookup]; by_cases e : key = k <;> simp [e]
  | cons x xs ih =>
    simp only [List.cons_append, tlookup]
    by_cases e : x.1 = k
    · simp [e]
    · simp only [e, if_false]; exact ih

theorem tlookup_treplace_isSome {β : Type} (k key : List Str) (c : β) (t : List (List Str × β)) :
    (tlookup k (treplace key c t)).isSome = (tlookup k t).isSome := by
  induction t with
  | nil => rfl
  | cons x xs ih =>
    simp only [treplace]
    by_cases e : x.1 = key
    · simp only [e, if_true, tlookup]
      by_cases e2 : key = k <;> simp [e2]
    · simp only [e, if_false, tlookup]
      by_cases e2 : x.1 = k
      · simp [e2]
      · simp only [e2, if_false]; exact ih

theorem getChild_children_isSome (m : Metric V) (key k : List Str) :
    (tlookup k (getChild m key).1.children).isSome = ((tlookup k m.children).isSome || decide (key = k)) := by
  unfold getChild
  cases h : tlookup key m.children with
  | some c =>
    simp only
    by_cases e : key = k
    · subst e; simp [h]
    · simp [e]
  | none => simp only; exact tlookup_append_isSome k key _ _

/-! ### one call on one metric object -/

theorem stepCall_decl (m : Metric V) (addr : Addr) (act : Action V) : (stepCall m addr act).1.decl = m.decl := by
  cases addr with
  | none => rfl
  | labels a kw =>
    cases hres : resolveLabels m.decl.labelnames a kw with
    | error e => rw [Lemmas.Metrics.stepCall_labels_err m a kw e act hres]
    | ok key =>
      rw [Lemmas.Metrics.stepCall_labels_ok m a kw key act hres]
      exact Lemmas.Metrics.getChild_decl m key

theorem stepCall_single (m : Metric V) (addr : Addr) (act : Action V) :
    (stepCall m addr act).1.single.isSome = m.single.isSome := by
  cases addr with
  | none =>
    simp only [stepCall]
    cases hs : m.single with
    | none => rw [Lemmas.Metrics.callMethod_none]
    | some c =>
      -- the state after a method call on an existing cell is a cell
      have : ∀ (d : Decl V) (obs : Bool) (a : Action V) (c : Child V), (callMethod d obs a (some c)).1.isSome = true := by
        intro d obs a c
        obtain ⟨name, kind, ln⟩ := d
        cases kind <;> cases a <;> simp only [callMethod] <;> (try (repeat' split)) <;> (try simp_all)
      rw [this]; rfl
  | labels a kw =>
    cases hres : resolveLabels m.decl.labelnames a kw with
    | error e => rw [Lemmas.Metrics.stepCall_labels_err m a kw e act hres]
    | ok key =>
      rw [Lemmas.Metrics.stepCall_labels_ok m a kw key act hres]
      simp only
      rw [Lemmas.Metrics.getChild_single]

/-- the children after a call: those before, plus the addressed one when `labels()` returned -/
theorem stepCall_children (m : Metric V) (addr : Addr) (act : Action V) (k : List Str) :
    (tlookup k (stepCall m addr act).1.children).isSome =
      ((tlookup k m.children).isSome ||
        (match addr with
          | .none => false
          | .labels a kw => match resolveLabels m.decl.labelnames a kw with
            | .ok key => decide (key = k)
            | .error _ => false)) := by
  cases addr with
  | none => simp [stepCall]
  | labels a kw =>
    cases hres : resolveLabels m.decl.labelnames a kw with
    | error e => rw [Lemmas.Metrics.stepCall_labels_err m a kw e act hres]; simp [hres]
    | ok key =>
      rw [Lemmas.Metrics.stepCall_labels_ok m a kw key act hres]
      simp only [hres]
      rw [tlookup_treplace_isSome, getChild_children_isSome]

/-- the run with removals has, in each metric, a subset of the children of the erased run -/
structure MetricSub (mh me : Metric V) : Prop where
  decl : mh.decl = me.decl
  single : mh.single.isSome = me.single.isSome
  wf : me.single.isSome = me.decl.labelnames.isEmpty
  keys : ∀ k, (tlookup k mh.children).isSome = true → (tlookup k me.children).isSome = true

/-- whether a call returns does not depend on which children exist -/
theorem stepCall_out_sub (mh me : Metric V) (h : MetricSub mh me) (addr : Addr) (act : Action V) :
    (stepCall mh addr act).2 = (stepCall me addr act).2 := by
  cases addr with
  | none =>
    simp only [stepCall, h.decl]
    have hs := h.single
    cases hh : mh.single with
    | none =>
      rw [hh] at hs
      have : me.single = none := by cases hm : me.single <;> simp_all
      rw [this]
    | some c =>
      rw [hh] at hs
      cases hm : me.single with
      | none => rw [hm] at hs; cases hs
      | some c' =>
        have hobs : me.decl.labelnames.isEmpty = true := by rw [← h.wf, hm]; rfl
        rw [hobs]
        exact Lemmas.Metrics.callMethod_out_indep _ _ _ _
  | labels a kw =>
    cases hres : resolveLabels me.decl.labelnames a kw with
    | error e =>
      rw [Lemmas.Metrics.stepCall_labels_err me a kw e act hres,
        Lemmas.Metrics.stepCall_labels_err mh a kw e act (by rw [h.decl]; exact hres)]
    | ok key =>
      rw [Lemmas.Metrics.stepCall_labels_ok me a kw key act hres,
        Lemmas.Metrics.stepCall_labels_ok mh a kw key act (by rw [h.decl]; exact hres), h.decl]
      exact Lemmas.Metrics.callMethod_out_indep _ _ _ _

/-- … and the relation survives the call -/
theorem stepCall_sub (mh me : Metric V) (h : MetricSub mh me) (addr : Addr) (act : Action V) :
    MetricSub (stepCall mh addr act).1 (stepCall me addr act).1 := by
  refine ⟨by rw [stepCall_decl, stepCall_decl, h.decl], by rw [stepCall_single, stepCall_single, h.single],
    by rw [stepCall_single, stepCall_decl, h.wf], ?_⟩
  intro k hk
  rw [stepCall_children] at hk ⊢
  rw [h.decl] at hk
  rcases Bool.or_eq_true_iff.mp hk with hk | hk
  · rw [h.keys k hk]; rfl
  · rw [hk]; simp

theorem stepRemove_sub (mh me : Metric V) (h : MetricSub mh me) (vs : List Model.Metrics.PyVal) :
    MetricSub (stepRemove mh vs).1 me := by
  unfold stepRemove
  split
  · exact h
  · split
    · exact h
    · refine ⟨h.decl, h.single, h.wf, ?_⟩
      intro k hk
      simp only at hk
      rw [PromVerif.Lemmas.Metrics.tlookup_terase] at hk
      split at hk
      · cases hk
      · exact h.keys k hk

theorem stepClear_sub (mh me : Metric V) (h : MetricSub mh me) : MetricSub (stepClear mh).1 me := by
  unfold stepClear
  split
  · exact ⟨h.decl, h.single, h.wf, fun k hk => by simp [tlookup] at hk⟩
  · exact h

/-! ### registries -/

structure RegSub (rh re : Reg V) : Prop where
  len : rh.length = re.length
  sub : ∀ (i : Nat) (mh me : Metric V), rh[i]? = some mh → re[i]? = some me → MetricSub mh me

theorem regSub_refl_of (r : Reg V) (hwf : ∀ m ∈ r, m.single.isSome = m.decl.labelnames.isEmpty) : RegSub r r :=
  ⟨rfl, fun i mh me h1 h2 => by
    rw [h1] at h2; cases h2
    exact ⟨rfl, rfl, hwf mh (List.mem_of_getElem? h1), fun _ hk => hk⟩⟩

theorem regSub_getElem? (rh re : Reg V) (h : RegSub rh re) (i : Nat) :
    (rh[i]? = none ∧ re[i]? = none) ∨ (∃ mh me, rh[i]? = some mh ∧ re[i]? = some me ∧ MetricSub mh me) := by
  by_cases hi : i < rh.length
  · right
    have hi' : i < re.length := h.len ▸ hi
    exact ⟨rh[i], re[i], List.getElem?_eq_getElem hi, List.getElem?_eq_getElem hi',
      h.sub i _ _ (List.getElem?_eq_getElem hi) (List.getElem?_eq_getElem hi')⟩
  · left
    exact ⟨List.getElem?_eq_none_iff.mpr (by omega), List.getElem?_eq_none_iff.mpr (by have := h.len; omega)⟩

/-- a call on both registries -/
theorem step_call_sub (rh re : Reg V) (h : RegSub rh re) (i : Nat) (addr : Addr) (act : Action V) :
    RegSub (Model.Metrics.step rh (.call i addr act)).1 (Model.Metrics.step re (.call i addr act)).1 ∧
      (Model.Metrics.step rh (.call i addr act)).2 = (Model.Metrics.step re (.call i addr act)).2 := by
  rw [Lemmas.Metrics.step_eq, Lemmas.Metrics.step_eq]
  simp only [Model.Metrics.Op.metric]
  rcases regSub_getElem? rh re h i with ⟨h1, h2⟩ | ⟨mh, me, h1, h2, hs⟩
  · rw [h1, h2]; exact ⟨h, rfl⟩
  · rw [h1, h2]
    simp only [Model.Metrics.stepM]
    refine ⟨⟨by simp [h.len], ?_⟩, stepCall_out_sub mh me hs addr act⟩
    intro j mh' me' hj1 hj2
    rw [List.getElem?_set] at hj1 hj2
    by_cases e : i = j
    · subst e
      simp only [if_true] at hj1 hj2
      split at hj1
      · split at hj2
        · cases hj1; cases hj2
          exact stepCall_sub mh me hs addr act
        · cases hj2
      · cases hj1
    · simp only [e, if_false] at hj1 hj2
      exact h.sub j _ _ hj1 hj2

/-- a remove / clear on the registry with removals only -/
theorem step_removal_sub (rh re : Reg V) (h : RegSub rh re) (op : Model.Metrics.Op V)
    (hop : ∀ i addr act, op ≠ .call i addr act) : RegSub (Model.Metrics.step rh op).1 re := by
  rw [Lemmas.Metrics.step_eq]
  cases hr : rh[op.metric]? with
  | none => exact h
  | some mh =>
    simp only
    refine ⟨by simp [h.len], ?_⟩
    intro j mh' me' hj1 hj2
    rw [List.getElem?_set] at hj1
    by_cases e : op.metric = j
    · subst e
      simp only [if_true] at hj1
      split at hj1
      · cases hj1
        have hs := h.sub _ mh me' hr hj2
        cases op with
        | call i addr act => exact absurd rfl (hop i addr act)
        | remove i vs => exact stepRemove_sub mh me' hs vs
        | clear i => exact stepClear_sub mh me' hs
      · cases hj1
    · simp only [e, if_false] at hj1
      exact h.sub j _ _ hj1 hj2

end PromVerif.Lemmas.Backends
