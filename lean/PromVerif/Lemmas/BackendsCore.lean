/-
C12, the coupling invariant between the reference histories of the accepted calls (C01's abstraction of the in-memory
registry) and the file-backed state: `Core`.

  for every metric, the value objects of that metric were constructed child by child in creation order (`order`), the
  entry of every cell holds the in-memory value of that cell (`cells`), and for a mostrecent gauge the set-time is zero
  iff the child was never `set` (`tsok`).

`core_create`: `labels()` creating a child.   `core_update`: the value-object calls of one accepted method call.
-/
import PromVerif.Lemmas.BackendsWrites
import PromVerif.Lemmas.MetricsRun
import PromVerif.Lemmas.MetricsCollect
import PromVerif.Lemmas.MetricsFrame
import PromVerif.Lemmas.MetricsNodup
import PromVerif.Lemmas.MetricsConstruct
import PromVerif.Lemmas.MetricsHist
import PromVerif.Spec.Backends

namespace PromVerif.Lemmas.Backends
open PromVerif.Py PromVerif.Generated.Multiprocess
open PromVerif.Model.Metrics (Val Decl Kind Child Action)
open PromVerif.Model.Multiprocess
open PromVerif.Model.Values
open PromVerif.Model.Backends
open PromVerif.Spec.Metrics (Hist appendAt modifyNth)
open PromVerif.Spec.Backends (hasSet)
open PromVerif.Lemmas.Metrics (childOf)
set_option autoImplicit false
set_option linter.unusedSectionVars false

variable {V : Type} [Val V]

/-- the children of a metric with the calls accepted on each: the metric itself when it has no labels -/
def childList (d : MDecl V) (h : Hist V) : List (List Str × List (Action V)) :=
  if d.decl.labelnames.isEmpty then [([], h.single)] else h.table

/-- set-time of a mostrecent gauge cell: zero iff never set, else a positive clock reading -/
def TsOK (acts : List (Action V)) (ts : V) : Prop :=
  (hasSet acts = false → ts = Val.zero) ∧
    (hasSet acts = true → (voOf V).truthy ts = true ∧ Val.lt (Val.zero : V) ts = true)

structure WFAll (ds : List (MDecl V)) : Prop where
  names : (ds.map (fun d => d.decl.name)).Nodup
  decls : ∀ d ∈ ds, WFDecl d

structure Core (ds : List (MDecl V)) (pid : Str) (hs : List (Hist V)) (ps : List Params) (st : St V) : Prop where
  vinv : VInv (voOf V) pid st
  psEq : st.values.map (·.params) = ps
  known : ∀ p ∈ ps, ∃ d ∈ ds, p.metric = d.decl.name
  order : ∀ (i : Nat) (d : MDecl V) (h : Hist V), ds[i]? = some d → hs[i]? = some h →
    ps.filter (fun p => decide (p.metric = d.decl.name)) = (childList d h).flatMap (fun ka => cellParams d ka.1)
  keylen : ∀ (i : Nat) (d : MDecl V) (h : Hist V), ds[i]? = some d → hs[i]? = some h → ∀ ka ∈ childList d h, ka.1.length = d.decl.labelnames.length
  keysNodup : ∀ (i : Nat) (d : MDecl V) (h : Hist V), ds[i]? = some d → hs[i]? = some h → ((childList d h).map (·.1)).Nodup
  cells : ∀ (i : Nat) (d : MDecl V) (h : Hist V), ds[i]? = some d → hs[i]? = some h → ∀ ka ∈ childList d h, ∀ (pos : Nat) (p : Params) (v : V),
    (cellParams d ka.1)[pos]? = some p → (cellValues d (childOf d.decl ka.2))[pos]? = some v →
    (cellVal (voOf V) st.disk (fileOf pid p) (mmapKey p)).1 = v
  tsok : ∀ (i : Nat) (d : MDecl V) (h : Hist V), ds[i]? = some d → hs[i]? = some h → isMostRecent d = true → ∀ ka ∈ childList d h,
    ∀ p ∈ cellParams d ka.1, TsOK ka.2 (cellVal (voOf V) st.disk (fileOf pid p) (mmapKey p)).2

/-! ### small list facts -/

theorem getElem?_modifyNth {α : Type} (f : α → α) : ∀ (i : Nat) (l : List α) (j : Nat),
    (modifyNth f i l)[j]? = if j = i then l[j]?.map f else l[j]?
  | _, [], j => by simp [modifyNth]
  | 0, x :: xs, j => by cases j <;> simp [modifyNth]
  | i + 1, x :: xs, j => by
    cases j with
    | zero => simp [modifyNth]
    | succ j => simp [modifyNth, getElem?_modifyNth f i xs j]

theorem names_ne {ds : List (MDecl V)} (hn : (ds.map (fun d => d.decl.name)).Nodup) (i j : Nat) (d d' : MDecl V)
    (hi : ds[i]? = some d) (hj : ds[j]? = some d') (hne : i ≠ j) : d.decl.name ≠ d'.decl.name := by
  apply nodup_getElem?_ne _ hn i j
  · rw [List.getElem?_map, hi]; rfl
  · rw [List.getElem?_map, hj]; rfl
  · exact hne

theorem filter_eq_self_of {α : Type} (q : α → Bool) (l : List α) (h : ∀ x ∈ l, q x = true) : l.filter q = l :=
  List.filter_eq_self.mpr h

theorem filter_eq_nil_of {α : Type} (q : α → Bool) (l : List α) (h : ∀ x ∈ l, q x = false) : l.filter q = [] := by
  rw [List.filter_eq_nil_iff]
  intro x hx; simp [h x hx]

theorem hasSet_append (acts : List (Action V)) (a : Action V) :
    hasSet (acts ++ [a]) = (hasSet acts || hasSet [a]) := by
  induction acts with
  | nil => simp [hasSet]
  | cons x xs ih => cases x <;> simp [hasSet, ih]

theorem cellValues_init (d : MDecl V) (pos : Nat) (v : V)
    (h : (cellValues d (childOf d.decl ([] : List (Action V))))[pos]? = some v) : v = Val.zero := by
  unfold cellValues childOf at h
  simp only [List.foldl_nil, Model.Metrics.metricInit] at h
  cases hk : d.decl.kind <;> simp only [hk] at h
  · cases pos <;> simp at h; exact h.symm
  · cases pos <;> simp at h; exact h.symm
  · rcases pos with _ | _ | pos <;> simp at h <;> exact h.symm
  · cases pos with
    | zero => simp at h; exact h.symm
    | succ pos =>
      simp only [List.getElem?_cons_succ, List.getElem?_map] at h
      simp at h
      exact h.2.symm
  · simp at h
  · simp at h

/-- as many in-memory cells as value objects -/
theorem cells_length (d : MDecl V) (key : List Str) (acts : List (Action V)) :
    (cellValues d (childOf d.decl acts)).length = (cellParams d key).length := by
  rw [cellParams_eq]
  unfold cellValues leTexts
  cases hk : d.decl.kind with
  | histogram bs =>
    simp only [List.length_cons, List.length_map]
    rw [PromVerif.Lemmas.Metrics.reachable_buckets_length d.decl bs hk acts]
  | _ => rfl

/-- the (prefix, key) identities of cells with pairwise different keys are pairwise different -/
theorem ids_nodup_of_keys (qs : List Params) (h : (qs.map mmapKey).Nodup) : (qs.map idOf).Nodup := by
  apply nodup_of_nodup_map (fun x : Str × Key => x.2)
  rw [List.map_map]
  exact h

/-! ### `labels()` creates a child -/

theorem core_create (ds : List (MDecl V)) (hwf : WFAll ds) (pid : Str) (hs : List (Hist V)) (ps : List Params) (st : St V)
    (hc : Core ds pid hs ps st) (i : Nat) (d : MDecl V) (h : Hist V) (hd : ds[i]? = some d) (hh : hs[i]? = some h)
    (hlab : d.decl.labelnames.isEmpty = false) (key : List Str) (hkey : key ∉ h.table.map (·.1))
    (hlen : key.length = d.decl.labelnames.length) :
    Core ds pid (modifyNth (fun h => { h with table := h.table ++ [(key, [])] }) i hs) (ps ++ cellParams d key)
      (run (voOf V) st ((cellParams d key).map Op.construct)) := by
  have hdm : d ∈ ds := List.mem_of_getElem? hd
  have hwd := hwf.decls d hdm
  have hcl : childList d h = h.table := by simp [childList, hlab]
  -- the new cells are new (prefix, key)s
  have hnew : ∀ q ∈ cellParams d key, idOf q ∉ st.values.map (fun v => idOf v.params) := by
    intro q hq hm
    obtain ⟨v, hv, e⟩ := List.mem_map.mp hm
    have hvp : v.params ∈ ps := by rw [← hc.psEq]; exact List.mem_map.mpr ⟨v, hv, rfl⟩
    have ek : mmapKey v.params = mmapKey q := congrArg Prod.snd e
    have em : v.params.metric = d.decl.name := by
      have := congrArg Key.metric ek
      simp only [mmapKey] at this
      rw [this, (cellParams_metric d key q hq).1]
    have hin : v.params ∈ ps.filter (fun p => decide (p.metric = d.decl.name)) :=
      List.mem_filter.mpr ⟨hvp, by simpa using em⟩
    rw [hc.order i d h hd hh, hcl] at hin
    obtain ⟨ka, hka, hin'⟩ := List.mem_flatMap.mp hin
    have hne : ka.1 ≠ key := fun e' => hkey (e' ▸ List.mem_map.mpr ⟨ka, hka, rfl⟩)
    exact cellKeys_disjoint d hwd ka.1 key (hc.keylen i d h hd hh ka (hcl ▸ hka)) hlen hne _ _ hin' hq ek
  obtain ⟨r1, r2, r3, r4⟩ := run_constructs (voOf V) pid (cellParams d key) st hc.vinv
    (ids_nodup_of_keys _ (cellKeys_nodup d hwd key hlen)) hnew
  -- histories after the step
  have hget : ∀ j h', (modifyNth (fun h => { h with table := h.table ++ [(key, [])] }) i hs)[j]? = some h' →
      (j = i ∧ h' = { h with table := h.table ++ [(key, [])] }) ∨ (j ≠ i ∧ hs[j]? = some h') := by
    intro j h' hj
    rw [getElem?_modifyNth] at hj
    by_cases e : j = i
    · subst e
      simp only [if_true, hh, Option.map_some, Option.some.injEq] at hj
      exact Or.inl ⟨rfl, hj.symm⟩
    · simp only [e, if_false] at hj
      exact Or.inr ⟨e, hj⟩
  have hcl' : childList d { h with table := h.table ++ [(key, [])] } = h.table ++ [(key, [])] := by
    simp [childList, hlab]
  refine ⟨r1, by rw [r2, hc.psEq], ?_, ?_, ?_, ?_, ?_, ?_⟩
  · intro p hp
    rcases List.mem_append.mp hp with hp | hp
    · exact hc.known p hp
    · exact ⟨d, hdm, (cellParams_metric d key p hp).1⟩
  · intro j d' h' hd' hj
    rw [List.filter_append]
    rcases hget j h' hj with ⟨e, e'⟩ | ⟨e, e'⟩
    · subst e; subst e'
      rw [hd] at hd'; cases hd'
      rw [hc.order j d h hd hh, hcl, hcl', List.flatMap_append]
      congr 1
      simp only [List.flatMap_cons, List.flatMap_nil, List.append_nil]
      exact filter_eq_self_of _ _ (fun x hx => by simpa using (cellParams_metric d key x hx).1)
    · rw [hc.order j d' h' hd' e']
      have hne := names_ne hwf.names i j d d' hd hd' (Ne.symm e)
      rw [filter_eq_nil_of _ (cellParams d key) (fun x hx => by
        simp only [decide_eq_false_iff_not]
        rw [(cellParams_metric d key x hx).1]; exact hne)]
      simp
  · intro j d' h' hd' hj ka hka
    rcases hget j h' hj with ⟨e, e'⟩ | ⟨e, e'⟩
    · subst e; subst e'
      rw [hd] at hd'; cases hd'
      rw [hcl'] at hka
      rcases List.mem_append.mp hka with hka | hka
      · exact hc.keylen j d h hd hh ka (hcl ▸ hka)
      · simp only [List.mem_singleton] at hka; subst hka; exact hlen
    · exact hc.keylen j d' h' hd' e' ka hka
  · intro j d' h' hd' hj
    rcases hget j h' hj with ⟨e, e'⟩ | ⟨e, e'⟩
    · subst e; subst e'
      rw [hd] at hd'; cases hd'
      rw [hcl', List.map_append, List.nodup_append]
      have := hc.keysNodup j d h hd hh
      rw [hcl] at this
      refine ⟨this, by simp, ?_⟩
      intro a ha b hb e
      simp only [List.map_cons, List.map_nil, List.mem_singleton] at hb
      subst hb; subst e
      exact hkey ha
    · exact hc.keysNodup j d' h' hd' e'
  · intro j d' h' hd' hj ka hka pos p v hp hv
    rw [r3]
    rcases hget j h' hj with ⟨e, e'⟩ | ⟨e, e'⟩
    · subst e; subst e'
      rw [hd] at hd'; cases hd'
      rw [hcl'] at hka
      rcases List.mem_append.mp hka with hka | hka
      · exact hc.cells j d h hd hh ka (hcl ▸ hka) pos p v hp hv
      · simp only [List.mem_singleton] at hka; subst hka
        rw [r4 p (List.mem_of_getElem? hp)]
        exact (cellValues_init d pos v hv).symm
    · exact hc.cells j d' h' hd' e' ka hka pos p v hp hv
  · intro j d' h' hd' hj hmr ka hka p hp
    rw [r3]
    rcases hget j h' hj with ⟨e, e'⟩ | ⟨e, e'⟩
    · subst e; subst e'
      rw [hd] at hd'; cases hd'
      rw [hcl'] at hka
      rcases List.mem_append.mp hka with hka | hka
      · exact hc.tsok j d h hd hh hmr ka (hcl ▸ hka) p hp
      · simp only [List.mem_singleton] at hka; subst hka
        rw [r4 p hp]
        exact ⟨fun _ => rfl, fun hs' => by simp [hasSet] at hs'⟩
    · exact hc.tsok j d' h' hd' e' hmr ka hka p hp

/-! ### the value-object calls of one accepted method call -/

/-- the history of the metric after one more accepted call on the child `key` -/
def hsAct (d : MDecl V) (key : List Str) (a : Action V) (h : Hist V) : Hist V :=
  if d.decl.labelnames.isEmpty then { h with single := h.single ++ [a] } else { h with table := appendAt key a h.table }

def actOn (key : List Str) (a : Action V) (ka : List Str × List (Action V)) : List Str × List (Action V) :=
  if ka.1 = key then (ka.1, ka.2 ++ [a]) else ka

theorem actOn_fst (key : List Str) (a : Action V) (ka : List Str × List (Action V)) : (actOn key a ka).1 = ka.1 := by
  unfold actOn; split <;> rfl

theorem map_actOn_of_not_mem (key : List Str) (a : Action V) (t : List (List Str × List (Action V)))
    (h : key ∉ t.map (·.1)) : t.map (actOn key a) = t := by
  induction t with
  | nil => rfl
  | cons x xs ih =>
    simp only [List.map_cons, List.mem_cons, not_or] at h
    simp only [List.map_cons, ih h.2]
    congr 1
    unfold actOn
    rw [if_neg (fun e => h.1 e.symm)]

theorem appendAt_map (key : List Str) (a : Action V) : ∀ (t : List (List Str × List (Action V))),
    (t.map (·.1)).Nodup → key ∈ t.map (·.1) → appendAt key a t = t.map (actOn key a)
  | [], _, h => by cases h
  | kh :: t, hnd, hk => by
    simp only [List.map_cons, List.nodup_cons] at hnd
    by_cases e : kh.1 = key
    · have : key ∉ t.map (·.1) := e ▸ hnd.1
      simp [appendAt, e, map_actOn_of_not_mem key a t this, actOn]
    · have hk' : key ∈ t.map (·.1) := by
        simp only [List.map_cons, List.mem_cons] at hk
        rcases hk with hk | hk
        · exact absurd hk.symm e
        · exact hk
      simp [appendAt, e, appendAt_map key a t hnd.2 hk', actOn]

theorem childList_hsAct (d : MDecl V) (h : Hist V) (key : List Str) (a : Action V)
    (hnd : ((childList d h).map (·.1)).Nodup) (hk : key ∈ (childList d h).map (·.1)) :
    childList d (hsAct d key a h) = (childList d h).map (actOn key a) := by
  unfold childList hsAct at *
  cases hl : d.decl.labelnames.isEmpty with
  | true =>
    simp only [hl, if_true, List.map_cons, List.map_nil, List.mem_singleton] at hk ⊢
    subst hk
    simp [actOn]
  | false =>
    simp only [hl, Bool.false_eq_true, if_false] at hnd hk ⊢
    exact appendAt_map key a h.table hnd hk

theorem mem_of_key_nodup (l : List (List Str × List (Action V))) (hnd : (l.map (·.1)).Nodup)
    (x y : List Str × List (Action V)) (hx : x ∈ l) (hy : y ∈ l) (e : x.1 = y.1) : x = y := by
  induction l with
  | nil => cases hx
  | cons z zs ih =>
    simp only [List.map_cons, List.nodup_cons] at hnd
    rcases List.mem_cons.mp hx with hx1 | hx1 <;> rcases List.mem_cons.mp hy with hy1 | hy1
    · rw [hx1, hy1]
    · subst hx1; exact absurd (show x.1 ∈ zs.map (·.1) from List.mem_map.mpr ⟨y, hy1, e.symm⟩) hnd.1
    · subst hy1; exact absurd (show y.1 ∈ zs.map (·.1) from List.mem_map.mpr ⟨x, hx1, e⟩) hnd.1
    · exact ih hnd.2 hx1 hy1

theorem core_update (ds : List (MDecl V)) (hwf : WFAll ds) (pid : Str) (hs : List (Hist V)) (ps : List Params) (st : St V)
    (hc : Core ds pid hs ps st) (i : Nat) (d : MDecl V) (h : Hist V) (hd : ds[i]? = some d) (hh : hs[i]? = some h)
    (key : List Str) (acts : List (Action V)) (hka : (key, acts) ∈ childList d h) (a : Action V) (us : List (CellUpd V))
    (hval : cellValues d (childOf d.decl (acts ++ [a])) = applyUpds (cellValues d (childOf d.decl acts)) us)
    (hts : isMostRecent d = true → (us = [] ∧ hasSet [a] = false) ∨
      (∃ x t, us = [CellUpd.set 0 x (some t)] ∧ (voOf V).truthy t = true ∧ Val.lt (Val.zero : V) t = true ∧ hasSet [a] = true)) :
    Core ds pid (modifyNth (hsAct d key a) i hs) ps
      (run (voOf V) st (us.flatMap (toVop ps (cellParams d key)))) := by
  have hdm : d ∈ ds := List.mem_of_getElem? hd
  have hwd := hwf.decls d hdm
  have hklen := hc.keylen i d h hd hh (key, acts) hka
  have hknd := hc.keysNodup i d h hd hh
  have hkmem : key ∈ (childList d h).map (·.1) := List.mem_map.mpr ⟨(key, acts), hka, rfl⟩
  have hcells : ∀ p ∈ cellParams d key, p ∈ ps := by
    intro p hp
    have : p ∈ (childList d h).flatMap (fun ka => cellParams d ka.1) := List.mem_flatMap.mpr ⟨(key, acts), hka, hp⟩
    rw [← hc.order i d h hd hh] at this
    exact (List.mem_filter.mp this).1
  obtain ⟨r1, r2, r3, r4⟩ := run_updates (voOf V) pid ps (cellParams d key) hcells (cellKeys_nodup d hwd key hklen) us st
    (fun j => match (cellParams d key)[j]? with
      | some q => cellVal (voOf V) st.disk (fileOf pid q) (mmapKey q)
      | none => (Val.zero, Val.zero)) hc.vinv hc.psEq (fun j p hj => by simp [hj])
  have hget : ∀ j h', (modifyNth (hsAct d key a) i hs)[j]? = some h' →
      (j = i ∧ h' = hsAct d key a h) ∨ (j ≠ i ∧ hs[j]? = some h') := by
    intro j h' hj
    rw [getElem?_modifyNth] at hj
    by_cases e : j = i
    · subst e
      simp only [if_true, hh, Option.map_some, Option.some.injEq] at hj
      exact Or.inl ⟨rfl, hj.symm⟩
    · simp only [e, if_false] at hj
      exact Or.inr ⟨e, hj⟩
  have hcl' := childList_hsAct d h key a hknd hkmem
  -- cells outside the child keep their entries
  have frame_other : ∀ j d' h', ds[j]? = some d' → hs[j]? = some h' → ∀ ka ∈ childList d' h', (j ≠ i ∨ ka.1 ≠ key) →
      ∀ q ∈ cellParams d' ka.1,
        cellVal (voOf V) (run (voOf V) st (us.flatMap (toVop ps (cellParams d key)))).disk (fileOf pid q) (mmapKey q)
          = cellVal (voOf V) st.disk (fileOf pid q) (mmapKey q) := by
    intro j d' h' hd' hh' ka hka' hne q hq
    apply r3
    intro p hp ⟨_, ek⟩
    by_cases e : j = i
    · subst e
      rw [hd] at hd'; cases hd'
      rw [hh] at hh'; cases hh'
      rcases hne with hne | hne
      · exact hne rfl
      · exact cellKeys_disjoint d hwd key ka.1 hklen (hc.keylen j d h hd hh ka hka') (Ne.symm hne) p q hp hq ek
    · have hn := names_ne hwf.names i j d d' hd hd' (Ne.symm e)
      have := congrArg Key.metric ek
      simp only [mmapKey] at this
      rw [(cellParams_metric d key p hp).1, (cellParams_metric d' ka.1 q hq).1] at this
      exact hn this
  refine ⟨r1, r2, hc.known, ?_, ?_, ?_, ?_, ?_⟩
  · intro j d' h' hd' hj
    rcases hget j h' hj with ⟨e, e'⟩ | ⟨e, e'⟩
    · subst e; subst e'
      rw [hd] at hd'; cases hd'
      rw [hc.order j d h hd hh, hcl', List.flatMap_map]
      simp only [actOn_fst]
    · exact hc.order j d' h' hd' e'
  · intro j d' h' hd' hj ka hka'
    rcases hget j h' hj with ⟨e, e'⟩ | ⟨e, e'⟩
    · subst e; subst e'
      rw [hd] at hd'; cases hd'
      rw [hcl'] at hka'
      obtain ⟨ka0, hka0, rfl⟩ := List.mem_map.mp hka'
      rw [actOn_fst]
      exact hc.keylen j d h hd hh ka0 hka0
    · exact hc.keylen j d' h' hd' e' ka hka'
  · intro j d' h' hd' hj
    rcases hget j h' hj with ⟨e, e'⟩ | ⟨e, e'⟩
    · subst e; subst e'
      rw [hd] at hd'; cases hd'
      rw [hcl', List.map_map]
      have : ((fun x : List Str × List (Action V) => x.1) ∘ actOn key a) = (fun x => x.1) := by
        funext x; exact actOn_fst key a x
      rw [this]
      exact hknd
    · exact hc.keysNodup j d' h' hd' e'
  · intro j d' h' hd' hj ka hka' pos p v hp hv
    rcases hget j h' hj with ⟨e, e'⟩ | ⟨e, e'⟩
    · subst e; subst e'
      rw [hd] at hd'; cases hd'
      rw [hcl'] at hka'
      obtain ⟨ka0, hka0, rfl⟩ := List.mem_map.mp hka'
      by_cases ek : ka0.1 = key
      · have : ka0 = (key, acts) := mem_of_key_nodup _ hknd ka0 (key, acts) hka0 hka ek
        subst this
        simp only [actOn, if_true] at hp hv ⊢
        rw [r4 pos p hp]
        rw [hval] at hv
        apply pairs_fst us _ (cellValues d (childOf d.decl acts)) _ pos v hv
        intro j' v' hv'
        cases hq : (cellParams d key)[j']? with
        | none =>
          -- every in-memory cell has a value object (same number of cells on both sides is not needed: no cell, no claim)
          exfalso
          have h1 := (List.getElem?_eq_none_iff.mp hq)
          have h2 := (List.getElem?_eq_some_iff.mp hv').1
          rw [cells_length d key acts] at h2
          omega
        | some q =>
          simp only
          exact hc.cells j d h hd hh (key, acts) hka j' q v' hq hv'
      · have hsame : actOn key a ka0 = ka0 := by unfold actOn; rw [if_neg ek]
        rw [hsame] at hp hv
        rw [frame_other j d h hd hh ka0 hka0 (Or.inr ek) p (List.mem_of_getElem? hp)]
        exact hc.cells j d h hd hh ka0 hka0 pos p v hp hv
    · rw [frame_other j d' h' hd' e' ka hka' (Or.inl e) p (List.mem_of_getElem? hp)]
      exact hc.cells j d' h' hd' e' ka hka' pos p v hp hv
  · intro j d' h' hd' hj hmr ka hka' p hp
    rcases hget j h' hj with ⟨e, e'⟩ | ⟨e, e'⟩
    · subst e; subst e'
      rw [hd] at hd'; cases hd'
      rw [hcl'] at hka'
      obtain ⟨ka0, hka0, rfl⟩ := List.mem_map.mp hka'
      by_cases ek : ka0.1 = key
      · have : ka0 = (key, acts) := mem_of_key_nodup _ hknd ka0 (key, acts) hka0 hka ek
        subst this
        simp only [actOn, if_true] at hp ⊢
        -- a gauge has one cell
        have hone : (cellParams d key)[0]? = some p := by
          have hg : isGauge d = true := by
            simp only [isMostRecent, Bool.and_eq_true] at hmr; exact hmr.1
          unfold isGauge at hg
          rw [cellParams_eq] at hp ⊢
          cases hk : d.decl.kind <;> simp only [hk] at hg hp ⊢ <;> try cases hg
          simp only [List.mem_singleton] at hp
          subst hp; rfl
        rw [r4 0 p hone]
        have hold := hc.tsok j d h hd hh hmr (key, acts) hka p hp
        rcases hts hmr with ⟨e1, e2⟩ | ⟨x, t, e1, e2, e3, e4⟩
        · subst e1
          simp only [pairsAfter, List.foldl_nil, hone]
          refine ⟨fun hf => hold.1 (by rw [hasSet_append, e2] at hf; simpa using hf),
            fun ht => hold.2 (by rw [hasSet_append, e2] at ht; simpa using ht)⟩
        · subst e1
          simp only [pairsAfter, List.foldl_cons, List.foldl_nil, pairUpd, if_true, tsOr0, e2]
          refine ⟨fun hf => by rw [hasSet_append, e4] at hf; simp at hf, fun _ => ⟨e2, e3⟩⟩
      · have hsame : actOn key a ka0 = ka0 := by unfold actOn; rw [if_neg ek]
        rw [hsame] at hp ⊢
        rw [frame_other j d h hd hh ka0 hka0 (Or.inr ek) p hp]
        exact hc.tsok j d h hd hh hmr ka0 hka0 p hp
    · rw [frame_other j d' h' hd' e' ka hka' (Or.inl e) p hp]
      exact hc.tsok j d' h' hd' e' hmr ka hka' p hp

end PromVerif.Lemmas.Backends
