/-
`parse_labels` (shared `ParseCore` model): every accepted term appends a label whose name was not yet present, so
the parsed dict never holds a name twice — the "duplicate label names" rule of C15.
-/
import PromVerif.Model.OMParse

namespace PromVerif.Lemmas.OM
open PromVerif.Py PromVerif.Model.ParseCore PromVerif.Model.OMParse

/-- an accepted term leaves the labels as they are or appends one whose name was absent -/
def Fresh (labels : List (Str × Str)) (r : PyM (List (Str × Str) × Str)) : Prop :=
  ∀ l' rest, r = .ok (l', rest) →
    (l' = labels ∨ ∃ k v, l' = labels ++ [(k, v)] ∧ labels.any (fun kv => kv.1 == k) = false)

theorem fresh_bind {α : Type} {labels : List (Str × Str)} (x : PyM α) (f : α → PyM (List (Str × Str) × Str))
    (h : ∀ a, Fresh labels (f a)) : Fresh labels (x >>= f) := by
  intro l' rest hr
  cases x with
  | error e => cases hr
  | ok a => exact h a l' rest hr

theorem fresh_throw {labels : List (Str × Str)} (e : PyErr) : Fresh labels (throw e) := by
  intro l' rest hr; cases hr

theorem fresh_throw_bind {α : Type} {labels : List (Str × Str)} (e : PyErr) (f : α → PyM (List (Str × Str) × Str)) :
    Fresh labels ((throw e : PyM α) >>= f) := by
  intro l' rest hr; cases hr

/-- the body of the `while sub_labels:` loop: `if label_name in labels: raise ValueError` guards the only append -/
theorem parseOneLabel_fresh (legacy om : Bool) (sub : Str) (labels : List (Str × Str)) :
    Fresh labels (parseOneLabel legacy om sub labels) := by
  unfold parseOneLabel
  apply fresh_bind; rintro ⟨term, rest⟩
  dsimp only
  split
  · split
    · exact fresh_throw _
    · intro l' r h; left; cases h; rfl
  · apply fresh_bind; rintro ⟨labelName, quotedName, term1⟩
    dsimp only
    split
    · exact fresh_throw_bind _ _
    · split
      · split
        · exact fresh_throw _
        · split
          · exact fresh_throw_bind _ _
          · apply fresh_bind; rintro ⟨labelValue, x⟩
            dsimp only
            split
            · apply fresh_bind; intro u
              split
              · exact fresh_throw_bind _ _
              · rename_i hany
                intro l' r h; right; cases h
                exact ⟨labelName, labelValue, rfl, (Bool.not_eq_true _).mp hany⟩
            · apply fresh_bind; intro u
              split
              · exact fresh_throw_bind _ _
              · rename_i hany
                intro l' r h; right; cases h
                exact ⟨labelName, labelValue, rfl, (Bool.not_eq_true _).mp hany⟩
      · exact fresh_throw _

def keys (l : List (Str × Str)) : List Str := l.map (·.1)

theorem nodup_append_fresh (labels : List (Str × Str)) (k v : Str) (hn : (keys labels).Nodup)
    (hf : labels.any (fun kv => kv.1 == k) = false) : (keys (labels ++ [(k, v)])).Nodup := by
  unfold keys at *
  rw [List.map_append, List.nodup_append]
  refine ⟨hn, by simp, ?_⟩
  intro a ha b hb
  simp only [List.map_cons, List.map_nil, List.mem_singleton] at hb
  subst hb
  obtain ⟨kv, hkv, rfl⟩ := List.mem_map.mp ha
  intro e
  rw [List.any_eq_false] at hf
  exact hf kv hkv (by simpa using e)

theorem parseLabelsLoop_nodup (legacy om : Bool) : ∀ (fuel : Nat) (sub : Str) (acc ls : List (Str × Str)),
    (keys acc).Nodup → parseLabelsLoop legacy om fuel sub acc = .ok ls → (keys ls).Nodup := by
  intro fuel
  induction fuel with
  | zero =>
    intro sub acc ls hn h
    unfold parseLabelsLoop at h
    split at h
    · cases h; exact hn
    · cases h
  | succ fuel ih =>
    intro sub acc ls hn h
    unfold parseLabelsLoop at h
    split at h
    · cases h; exact hn
    · cases hp : parseOneLabel legacy om sub acc with
      | error e => rw [hp] at h; cases h
      | ok p =>
        obtain ⟨labels', rest⟩ := p
        rw [hp] at h
        have hfr := parseOneLabel_fresh legacy om sub acc labels' rest hp
        refine ih rest labels' ls ?_ h
        rcases hfr with rfl | ⟨k, v, rfl, hf⟩
        · exact hn
        · exact nodup_append_fresh acc k v hn hf

/-- `parse_labels` never returns a dict-with-duplicates: a label block naming a label twice is not accepted -/
theorem parseLabels_nodup (legacy om : Bool) (s : Str) (ls : List (Str × Str)) (h : parseLabels legacy s om = .ok ls) :
    (keys ls).Nodup := by
  unfold parseLabels at h
  dsimp only at h
  split at h
  · cases h
  · exact parseLabelsLoop_nodup legacy om _ _ [] ls (by simp [keys]) h

end PromVerif.Lemmas.OM
