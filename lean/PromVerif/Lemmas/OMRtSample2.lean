/-
C04: the bare-name sample line through `_parse_sample`, and the native-histogram detector on every rendered line.
-/
import PromVerif.Lemmas.OMRtSample

set_option autoImplicit false

namespace PromVerif.Lemmas.OMRt
open PromVerif.Py PromVerif.Model PromVerif.Model.Escape PromVerif.Model.ParseCore PromVerif.Model.Validation
open PromVerif.Model.OMParse PromVerif.Spec.OMRoundtrip PromVerif.Lemmas.Escape PromVerif.Lemmas.Scanner
open PromVerif.Lemmas.TextParse PromVerif.Model.TextExpo

/-- the tokens of a remainder are number tokens -/
structure RemTok (vtok : Str) (ts : Option Str) (ex : Option (List (Str × Str) × Str × Option Str)) : Prop where
  v : NumTok vtok
  ts : ∀ t, ts = some t → NumTok t
  ev : ∀ x, ex = some x → NumTok x.2.1
  ets : ∀ x, ex = some x → ∀ t, x.2.2 = some t → NumTok t

/-- `value[ ts]` is plain text for a wanted set without number characters and blank -/
theorem plainFor_valts {chs : Char → Bool} (hsp : chs ' ' = false) (hn : ∀ c, Lemmas.TextParse.isNumChar c = true → chs c = false)
    {vtok : Str} (hv : NumTok vtok) (ts : Option Str) (hts : ∀ t, ts = some t → NumTok t) : PlainFor chs (vtok ++ optTok ts) := by
  have hnum : ∀ t, NumTok t → PlainFor chs t := fun t ht => plainFor_tschars ht hn
  cases ts with
  | none => simpa [optTok] using hnum vtok hv
  | some t =>
    refine plainFor_append (hnum vtok hv) ?_
    intro c hc
    simp only [optTok, List.mem_cons] at hc
    rcases hc with h | h
    · subst h; exact ⟨by decide, by decide, hsp⟩
    · exact hnum t (hts t rfl) c h

theorem remText_none (vtok : Str) (ts : Option Str) : remText vtok ts none = vtok ++ optTok ts := by
  simp [remText]

theorem remText_some (vtok : Str) (ts : Option Str) (L : List (Str × Str)) (etok : Str) (ets : Option Str) :
    remText vtok ts (some (L, etok, ets)) =
      (vtok ++ optTok ts ++ [' ']) ++ '#' :: ' ' :: '{' :: (exBlock L ++ '}' :: ' ' :: (etok ++ optTok ets)) := by
  simp [remText, exTail]

def hashChs : Char → Bool := (· == '#')

theorem numChar_ne_hash {c : Char} (h : Lemmas.TextParse.isNumChar c = true) : hashChs c = false := by
  have : c ≠ '#' := numChar_ne h (by decide)
  simpa [hashChs] using this

/-- with an exemplar: the first unquoted '#' and '{' of `[ ]remainder`, and the '#' comes first -/
theorem scan_rem_some (sp : Bool) {vtok : Str} (hv : NumTok vtok) (ts : Option Str) (hts : ∀ t, ts = some t → NumTok t)
    (L : List (Str × Str)) (etok : Str) (ets : Option Str) :
    scan hashChs ((if sp then [' '] else []) ++ remText vtok ts (some (L, etok, ets))) false false =
      some ((if sp then [' '] else []) ++ (vtok ++ optTok ts ++ [' '])).length ∧
    scan lbChs ((if sp then [' '] else []) ++ remText vtok ts (some (L, etok, ets))) false false =
      some (((if sp then [' '] else []) ++ (vtok ++ optTok ts ++ [' '])).length + 2) := by
  have hsp1 : ∀ chs : Char → Bool, chs ' ' = false → PlainFor chs (if sp then [' '] else []) := by
    intro chs h c hc
    cases sp
    · simp at hc
    · simp at hc; subst hc; exact ⟨by decide, by decide, h⟩
  have hone : ∀ chs : Char → Bool, chs ' ' = false → PlainFor chs [' '] := by
    intro chs h c hc; simp at hc; subst hc; exact ⟨by decide, by decide, h⟩
  rw [remText_some]
  refine ⟨?_, ?_⟩
  · have hp : Pass hashChs ((if sp then [' '] else []) ++ (vtok ++ optTok ts ++ [' '])) :=
      pass_plain (plainFor_append (hsp1 _ (by decide))
        (plainFor_append (plainFor_valts (by decide) (fun c h => numChar_ne_hash h) hv ts hts) (hone _ (by decide))))
    rw [← List.append_assoc, scan_append_of_noHit _ _ _ _ _ hp.1, hp.2, scan_hit hashChs '#' _ false (by decide) (by decide)]
    simp
  · have hp : Pass lbChs ((if sp then [' '] else []) ++ (vtok ++ optTok ts ++ [' ']) ++ ['#', ' ']) := by
      refine pass_plain (plainFor_append (plainFor_append (hsp1 _ (by decide))
        (plainFor_append (plainFor_valts (by decide) (fun c h => numChar_ne_lb h) hv ts hts) (hone _ (by decide)))) ?_)
      intro c hc; simp at hc; rcases hc with rfl | rfl <;> exact ⟨by decide, by decide, by decide⟩
    rw [show (if sp then [' '] else []) ++ ((vtok ++ optTok ts ++ [' ']) ++ '#' :: ' ' :: '{' :: (exBlock L ++ '}' :: ' ' :: (etok ++ optTok ets)))
      = ((if sp then [' '] else []) ++ (vtok ++ optTok ts ++ [' ']) ++ ['#', ' ']) ++ '{' :: (exBlock L ++ '}' :: ' ' :: (etok ++ optTok ets)) by simp]
    rw [scan_append_of_noHit _ _ _ _ _ hp.1, hp.2, scan_hit lbChs '{' _ false (by decide) (by decide)]
    simp; omega

/-- without an exemplar there is no unquoted '{' in `[ ]remainder` -/
theorem scan_rem_none (sp : Bool) {vtok : Str} (hv : NumTok vtok) (ts : Option Str) (hts : ∀ t, ts = some t → NumTok t) :
    scan lbChs ((if sp then [' '] else []) ++ remText vtok ts none) false false = none := by
  rw [remText_none]
  have hsp1 : PlainFor lbChs (if sp then [' '] else []) := by
    intro c hc
    cases sp
    · simp at hc
    · simp at hc; subst hc; exact ⟨by decide, by decide, by decide⟩
  exact scan_none_of_noHit _ _ _ _
    (pass_plain (plainFor_append hsp1 (plainFor_valts (by decide) (fun c h => numChar_ne_lb h) hv ts hts))).1

theorem isInfix_suffix (sub a : Str) (hne : sub ≠ []) : isInfix sub (a ++ sub) = true := by
  induction a with
  | nil =>
    cases sub with
    | nil => exact absurd rfl hne
    | cons c cs =>
      simp only [List.nil_append, isInfix, Bool.or_eq_true]
      left
      exact List.isPrefixOf_iff_prefix.mpr (List.prefix_refl _)
  | cons x xs ih =>
    simp only [List.cons_append, isInfix, Bool.or_eq_true]
    right; exact ih

def spChs : Char → Bool := (· == ' ')

/-- bare legacy name, no label block: the remainder starts after the first blank; an exemplar's '{' is not taken for a
label block because ` # ` precedes it -/
theorem parseSample_bare (P : Params) {n : Str} (hv : isValidLegacyMetricName n = true) {vtok : Str} {ts : Option Str}
    {ex : Option (List (Str × Str) × Str × Option Str)} (ht : RemTok vtok ts ex) :
    parseSample P (n ++ ' ' :: remText vtok ts ex) = sampleOf P n [] (remText vtok ts ex) := by
  obtain ⟨hne, hc⟩ := legacyName_chars hv (legacyMetric_no_newline hv)
  have hn_lb : Pass lbChs n := pass_plain (plainFor_legacy (fun c h => legacyChar_eq_false h (by decide)) hc)
  have hn_sp : Pass spChs n := pass_plain (plainFor_legacy (fun c h => legacyChar_eq_false h (by decide)) hc)
  have hend : nextUnquotedChar (n ++ ' ' :: remText vtok ts ex) (· == ' ') = some n.length :=
    scan_pass_hit hn_sp ' ' _ (by decide) (by decide)
  have hlen1 : n.length ≤ (n ++ ' ' :: remText vtok ts ex).length := by simp
  have hname : pySlice (n ++ ' ' :: remText vtok ts ex) 0 (n.length : Int) = n := by
    rw [pySlice_zero_nat _ _ hlen1, List.take_left]
  have hrem : pyFrom (n ++ ' ' :: remText vtok ts ex) ((n.length : Int) + 1) = remText vtok ts ex := by
    have := pyFrom_nat (n ++ ' ' :: remText vtok ts ex) n.length 1
    rw [show ((1 : Nat) : Int) = 1 from rfl] at this
    rw [this, show n ++ ' ' :: remText vtok ts ex = (n ++ [' ']) ++ remText vtok ts ex by simp,
      show n.length + 1 = (n ++ [' ']).length by simp]
    exact List.drop_left
  have hfin : ∀ (hl : Option Nat), nextUnquotedChar (n ++ ' ' :: remText vtok ts ex) (· == '{') = hl →
      (∀ k, hl = some k → isInfix OMParse.sepHash ((n ++ ' ' :: remText vtok ts ex).take k) = true) →
      parseSample P (n ++ ' ' :: remText vtok ts ex) = sampleOf P n [] (remText vtok ts ex) := by
    intro hl hls hinf
    unfold parseSample sampleOf
    cases hl with
    | none =>
      simp only [hls, ↓reduceIte, hend, optIdx, Int.ofNat_eq_natCast, hname, hv, Bool.not_true, Bool.false_eq_true, hrem,
        bind, Except.bind, pure, Except.pure]
      cases parseRemainingText P (remText vtok ts ex) with
      | error e => rfl
      | ok x => obtain ⟨v, ts, ex⟩ := x; rfl
    | some k =>
      simp only [hls, hinf k rfl, ↓reduceIte, hend, optIdx, Int.ofNat_eq_natCast, hname, hv, Bool.not_true, Bool.false_eq_true, hrem,
        bind, Except.bind, pure, Except.pure]
      cases parseRemainingText P (remText vtok ts ex) with
      | error e => rfl
      | ok x => obtain ⟨v, ts, ex⟩ := x; rfl
  cases ex with
  | none =>
    have : nextUnquotedChar (n ++ ' ' :: remText vtok ts none) (· == '{') = none := by
      rw [nextUnquotedChar_zero]
      have h := scan_rem_none true ht.v ts ht.ts
      simp only [↓reduceIte, List.cons_append, List.nil_append] at h
      show scan lbChs _ false false = none
      rw [scan_append_of_noHit _ _ _ _ _ hn_lb.1, hn_lb.2, h]; rfl
    exact hfin none this (fun k hk => by cases hk)
  | some x =>
    obtain ⟨L, etok, ets⟩ := x
    have h := (scan_rem_some true ht.v ts ht.ts L etok ets).2
    simp only [↓reduceIte, List.cons_append, List.nil_append] at h
    have hls : nextUnquotedChar (n ++ ' ' :: remText vtok ts (some (L, etok, ets))) (· == '{') =
        some (n ++ ' ' :: (vtok ++ optTok ts) ++ [' ', '#', ' ']).length := by
      rw [nextUnquotedChar_zero]
      show scan lbChs _ false false = _
      rw [scan_append_of_noHit _ _ _ _ _ hn_lb.1, hn_lb.2, h]
      simp; omega
    refine hfin _ hls ?_
    intro k hk
    cases hk
    rw [show n ++ ' ' :: remText vtok ts (some (L, etok, ets)) =
      (n ++ ' ' :: (vtok ++ optTok ts) ++ [' ', '#', ' ']) ++ '{' :: (exBlock L ++ '}' :: ' ' :: (etok ++ optTok ets)) by
        simp [remText_some]]
    rw [List.take_left]
    exact isInfix_suffix OMParse.sepHash _ (by decide)

end PromVerif.Lemmas.OMRt
