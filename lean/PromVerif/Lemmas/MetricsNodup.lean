/-
C01 helper lemmas, part 9: the child table of every reachable metric has pairwise distinct keys (it is a dict).
-/
import PromVerif.Lemmas.MetricsCollect

namespace PromVerif.Lemmas.Metrics
open PromVerif.Py PromVerif.Model.Metrics
open PromVerif.Spec.Metrics

variable {V : Type} [Val V]

def KeysNodup (h : Hist V) : Prop := (h.table.map (·.1)).Nodup

omit [Val V] in
theorem appendAt_keys (k : List Str) (a : Action V) :
    ∀ t : List (List Str × List (Action V)),
      (appendAt k a t).map (·.1) = if k ∈ t.map (·.1) then t.map (·.1) else t.map (·.1) ++ [k]
  | [] => by simp [appendAt]
  | kh :: t => by
    simp only [appendAt]
    by_cases hk : kh.1 = k
    · simp [hk]
    · have hk' : ¬ k = kh.1 := fun e => hk e.symm
      simp only [hk, if_false, List.map, appendAt_keys k a t, List.mem_cons, hk', false_or]
      split <;> simp

omit [Val V] in
theorem recordOn_keysNodup (ln : List Str) (h : Hist V) (o : Op V) (hn : KeysNodup h) : KeysNodup (recordOn ln h o) := by
  unfold KeysNodup at *
  cases o with
  | call i addr act =>
    simp only [recordOn]
    split
    · exact hn
    · next k _ =>
      simp only [appendAt_keys]
      split
      · exact hn
      · next hk =>
        rw [List.nodup_append]
        exact ⟨hn, by simp, fun x hx y hy => by simp at hy; subst hy; intro e; exact hk (e ▸ hx)⟩
  | remove i vs =>
    simp only [recordOn]
    exact hn.sublist ((List.filter_sublist).map _)
  | clear i => simp [recordOn]

omit [Val V] in
theorem record_keysNodup (ds : List (Decl V)) (hs : List (Hist V)) (o : Op V) (hn : ∀ h ∈ hs, KeysNodup h) :
    ∀ h ∈ record ds hs o, KeysNodup h := by
  intro h hm
  unfold record at hm
  split at hm
  · exact hn h hm
  · rcases mem_modifyNth _ _ _ _ hm with hm | ⟨y, hy, hx⟩
    · exact hn h hm
    · subst hx; exact recordOn_keysNodup _ y o (hn y hy)

omit [Val V] in
theorem history_keysNodup (ds : List (Decl V)) (ops : List (Op V)) : ∀ h ∈ history ds ops, KeysNodup h := by
  unfold history
  have : ∀ (ops : List (Op V)) (hs : List (Hist V)), (∀ h ∈ hs, KeysNodup h) →
      ∀ h ∈ ops.foldl (record ds) hs, KeysNodup h := by
    intro ops
    induction ops with
    | nil => intro hs hn; simpa using hn
    | cons o ops ih => intro hs hn; exact ih _ (record_keysNodup ds hs o hn)
  apply this
  intro h hm
  simp at hm
  obtain ⟨_, _, rfl⟩ := hm
  simp [KeysNodup, Hist.empty]

theorem zipWith_metricOf_keys : ∀ (ds : List (Decl V)) (hs : List (Hist V)), (∀ h ∈ hs, KeysNodup h) →
    ∀ m ∈ List.zipWith metricOf ds hs, (m.children.map (·.1)).Nodup
  | [], _, _, m, hm => by simp at hm
  | _ :: _, [], _, m, hm => by simp at hm
  | d :: ds, h :: hs, hn, m, hm => by
    simp only [List.zipWith, List.mem_cons] at hm
    rcases hm with hm | hm
    · subst hm
      have := hn h (by simp)
      simpa [metricOf, KeysNodup, List.map_map, Function.comp_def] using this
    · exact zipWith_metricOf_keys ds hs (fun h' hh' => hn h' (by simp [hh'])) m hm

end PromVerif.Lemmas.Metrics
