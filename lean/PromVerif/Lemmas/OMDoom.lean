/-
Flushing a family (`build_metric`): what it records in `seen_names`, when it must fail, and the doomed headers the
metadata / unit / clash rules of C15 reduce to.
-/
import PromVerif.Lemmas.OMChecks

namespace PromVerif.Lemmas.OM
open PromVerif.Py PromVerif.Model.ParseCore PromVerif.Model.OMParse PromVerif.Generated.OMParse
open PromVerif.Spec.OMRules

theorem nil_mem_familySuffixes (t : Str) : ([] : Str) ∈ familySuffixes t := by
  unfold familySuffixes
  rw [List.mem_eraseDups]
  simp

theorem mem_familySuffixes (t : Str) (suf : Str) (h : suf ∈ (lookupTable t typeSuffixes).getD []) : suf ∈ familySuffixes t := by
  unfold familySuffixes
  rw [List.mem_eraseDups]
  exact List.mem_append_left _ h

/-- a successful flush of a named header records the name and the name with every suffix of its type -/
theorem flush_ok (P : Params) (g g' : Glob) (h : Hdr) (samples : List OSample) (n : Str) (hn : h.name = some n)
    (hf : flush P g h samples = .ok g') :
    g'.seenNames = g.seenNames ++ (familySuffixes (h.typ.getD tUnknown)).map (n ++ ·) := by
  unfold flush at hf
  rw [hn] at hf
  simp only [buildMetric] at hf
  cases hc : runChecks (buildChecks P g.seenNames n (h.typ.getD tUnknown) (h.unit.getD []) samples) with
  | error e => rw [hc] at hf; cases hf
  | ok u => rw [hc] at hf; cases hf; rfl

theorem flush_none (P : Params) (g : Glob) (h : Hdr) (samples : List OSample) (hn : h.name = none) :
    flush P g h samples = .ok g := by
  unfold flush; rw [hn]

/-- `seen_names` only grows -/
theorem flush_mono (P : Params) (g g' : Glob) (h : Hdr) (samples : List OSample) (hf : flush P g h samples = .ok g')
    (x : Str) (hx : x ∈ g.seenNames) : x ∈ g'.seenNames := by
  cases hn : h.name with
  | none => rw [flush_none P g h samples hn] at hf; cases hf; exact hx
  | some n => rw [flush_ok P g g' h samples n hn hf]; exact List.mem_append_left _ hx

theorem flush_records (P : Params) (g g' : Glob) (h : Hdr) (samples : List OSample) (n : Str) (hn : h.name = some n)
    (hf : flush P g h samples = .ok g') (suf : Str) (hs : suf ∈ familySuffixes (h.typ.getD tUnknown)) :
    n ++ suf ∈ g'.seenNames := by
  rw [flush_ok P g g' h samples n hn hf]
  exact List.mem_append_right _ (List.mem_map.mpr ⟨suf, hs, rfl⟩)

theorem flush_records_name (P : Params) (g g' : Glob) (h : Hdr) (samples : List OSample) (n : Str) (hn : h.name = some n)
    (hf : flush P g h samples = .ok g') : n ∈ g'.seenNames := by
  have := flush_records P g g' h samples n hn hf [] (nil_mem_familySuffixes _)
  simpa using this

/-- a failing test of `build_metric` makes the flush fail -/
theorem flush_fails (P : Params) (g : Glob) (h : Hdr) (samples : List OSample) (n : Str) (hn : h.name = some n)
    (c : PyM Unit) (hc : c ∈ buildChecks P g.seenNames n (h.typ.getD tUnknown) (h.unit.getD []) samples)
    (he : isError c = true) : isError (flush P g h samples) = true := by
  unfold flush
  rw [hn]
  simp only [buildMetric]
  have := runChecks_isError_of_mem _ c hc he
  cases hr : runChecks (buildChecks P g.seenNames n (h.typ.getD tUnknown) (h.unit.getD []) samples) with
  | error e => rfl
  | ok u => rw [hr] at this; cases this

/-- a family one of whose names is already taken cannot be flushed -/
theorem flush_clash (P : Params) (g : Glob) (h : Hdr) (samples : List OSample) (n suf : Str) (hn : h.name = some n)
    (hs : suf ∈ familySuffixes (h.typ.getD tUnknown)) (hseen : n ++ suf ∈ g.seenNames) :
    isError (flush P g h samples) = true := by
  refine flush_fails P g h samples n hn _ (List.mem_cons_self ..) ?_
  have : (((familySuffixes (h.typ.getD tUnknown)).map (n ++ ·)).any (g.seenNames.contains ·)) = true := by
    rw [List.any_eq_true]
    exact ⟨n ++ suf, List.mem_map.mpr ⟨suf, hs, rfl⟩, contains_of_mem hseen⟩
  rw [this]; rfl

/-! ## what a metadata line does to the header -/

/-- is the header field a metadata keyword sets already set -/
def metaField (k : Str) (h : Hdr) : Bool :=
  if k == kwHelp then h.doc.isSome else if k == kwType then h.typ.isSome else if k == kwUnit then h.unit.isSome else false

theorem applyMeta_name (h h' : Hdr) (kind c rest : Str) (hm : applyMeta h kind c rest = .ok h') : h'.name = h.name := by
  rw [applyMeta_eq] at hm
  by_cases c1 : (kind == kwHelp) = true
  · rw [if_pos c1] at hm
    by_cases c2 : h.doc.isSome = true
    · rw [if_pos c2] at hm; cases hm
    · rw [if_neg c2] at hm; obtain rfl := Except.ok.inj hm; rfl
  · rw [if_neg c1] at hm
    by_cases c3 : (kind == kwType) = true
    · rw [if_pos c3] at hm
      by_cases c4 : h.typ.isSome = true
      · rw [if_pos c4] at hm; cases hm
      · rw [if_neg c4] at hm
        by_cases c5 : (rest == untypedName) = true
        · rw [if_pos c5] at hm; cases hm
        · rw [if_neg c5] at hm; obtain rfl := Except.ok.inj hm; rfl
    · rw [if_neg c3] at hm
      by_cases c6 : (kind == kwUnit) = true
      · rw [if_pos c6] at hm
        by_cases c7 : h.unit.isSome = true
        · rw [if_pos c7] at hm; cases hm
        · rw [if_neg c7] at hm; obtain rfl := Except.ok.inj hm; rfl
      · rw [if_neg c6] at hm; cases hm

/-- a metadata line never unsets or overwrites a field: each of doc / typ / unit that is set stays as it is -/
theorem applyMeta_keeps_set (h h' : Hdr) (kind c rest : Str) (hm : applyMeta h kind c rest = .ok h') :
    (h.doc.isSome = true → h'.doc = h.doc) ∧ (h.typ.isSome = true → h'.typ = h.typ) ∧ (h.unit.isSome = true → h'.unit = h.unit) := by
  rw [applyMeta_eq] at hm
  by_cases c1 : (kind == kwHelp) = true
  · rw [if_pos c1] at hm
    by_cases c2 : h.doc.isSome = true
    · rw [if_pos c2] at hm; cases hm
    · rw [if_neg c2] at hm; obtain rfl := Except.ok.inj hm
      exact ⟨fun x => absurd x c2, fun _ => rfl, fun _ => rfl⟩
  · rw [if_neg c1] at hm
    by_cases c3 : (kind == kwType) = true
    · rw [if_pos c3] at hm
      by_cases c4 : h.typ.isSome = true
      · rw [if_pos c4] at hm; cases hm
      · rw [if_neg c4] at hm
        by_cases c5 : (rest == untypedName) = true
        · rw [if_pos c5] at hm; cases hm
        · rw [if_neg c5] at hm; obtain rfl := Except.ok.inj hm
          exact ⟨fun _ => rfl, fun x => absurd x c4, fun _ => rfl⟩
    · rw [if_neg c3] at hm
      by_cases c6 : (kind == kwUnit) = true
      · rw [if_pos c6] at hm
        by_cases c7 : h.unit.isSome = true
        · rw [if_pos c7] at hm; cases hm
        · rw [if_neg c7] at hm; obtain rfl := Except.ok.inj hm
          exact ⟨fun _ => rfl, fun _ => rfl, fun x => absurd x c7⟩
      · rw [if_neg c6] at hm; cases hm

/-- a successful metadata line of kind `k` leaves the field of `k` set; one that finds it set fails -/
theorem applyMeta_sets (h h' : Hdr) (k c rest : Str) (hm : applyMeta h k c rest = .ok h') :
    metaField k h = false ∧ metaField k h' = true := by
  rw [applyMeta_eq] at hm
  unfold metaField
  by_cases c1 : (k == kwHelp) = true
  · rw [if_pos c1] at hm
    rw [if_pos c1, if_pos c1]
    by_cases c2 : h.doc.isSome = true
    · rw [if_pos c2] at hm; cases hm
    · rw [if_neg c2] at hm; obtain rfl := Except.ok.inj hm
      exact ⟨by simpa using c2, rfl⟩
  · rw [if_neg c1] at hm
    rw [if_neg c1, if_neg c1]
    by_cases c3 : (k == kwType) = true
    · rw [if_pos c3] at hm
      rw [if_pos c3, if_pos c3]
      by_cases c4 : h.typ.isSome = true
      · rw [if_pos c4] at hm; cases hm
      · rw [if_neg c4] at hm
        by_cases c5 : (rest == untypedName) = true
        · rw [if_pos c5] at hm; cases hm
        · rw [if_neg c5] at hm; obtain rfl := Except.ok.inj hm
          exact ⟨by simpa using c4, rfl⟩
    · rw [if_neg c3] at hm
      rw [if_neg c3, if_neg c3]
      by_cases c6 : (k == kwUnit) = true
      · rw [if_pos c6] at hm
        rw [if_pos c6, if_pos c6]
        by_cases c7 : h.unit.isSome = true
        · rw [if_pos c7] at hm; cases hm
        · rw [if_neg c7] at hm; obtain rfl := Except.ok.inj hm
          exact ⟨by simpa using c7, rfl⟩
      · rw [if_neg c6] at hm; cases hm

/-- a set field stays set under any metadata line -/
theorem applyMeta_field_mono (h h' : Hdr) (k kind c rest : Str) (hm : applyMeta h kind c rest = .ok h')
    (hk : metaField k h = true) : metaField k h' = true := by
  obtain ⟨d, t, u⟩ := applyMeta_keeps_set h h' kind c rest hm
  unfold metaField at hk ⊢
  by_cases c1 : (k == kwHelp) = true
  · rw [if_pos c1] at hk ⊢; rw [d hk]; exact hk
  · rw [if_neg c1] at hk ⊢
    by_cases c3 : (k == kwType) = true
    · rw [if_pos c3] at hk ⊢; rw [t hk]; exact hk
    · rw [if_neg c3] at hk ⊢
      by_cases c6 : (k == kwUnit) = true
      · rw [if_pos c6] at hk ⊢; rw [u hk]; exact hk
      · rw [if_neg c6] at hk; cases hk

theorem applyMeta_unit (h h' : Hdr) (c u : Str) (hm : applyMeta h kwUnit c u = .ok h') : h'.unit = some u := by
  rw [applyMeta_eq] at hm
  have c1 : ¬ (kwUnit == kwHelp) = true := by decide
  have c2 : ¬ (kwUnit == kwType) = true := by decide
  rw [if_neg c1, if_neg c2, if_pos (beq_self_eq_true _)] at hm
  by_cases c7 : h.unit.isSome = true
  · rw [if_pos c7] at hm; cases hm
  · rw [if_neg c7] at hm; obtain rfl := Except.ok.inj hm; rfl

theorem applyMeta_typ (h h' : Hdr) (c t : Str) (hm : applyMeta h kwType c t = .ok h') : h'.typ = some t := by
  rw [applyMeta_eq] at hm
  have c1 : ¬ (kwType == kwHelp) = true := by decide
  rw [if_neg c1, if_pos (beq_self_eq_true _)] at hm
  by_cases c4 : h.typ.isSome = true
  · rw [if_pos c4] at hm; cases hm
  · rw [if_neg c4] at hm
    by_cases c5 : (t == untypedName) = true
    · rw [if_pos c5] at hm; cases hm
    · rw [if_neg c5] at hm; obtain rfl := Except.ok.inj hm; rfl

/-- after a successful metadata line for `n` the current family is `n` -/
theorem stepLine_meta_name (P : Params) (st st' : St) (k n r : Str) (h : stepLine P st (.metadata k n r) = .ok st') :
    st'.hdr.name = some n ∧ metaField k st'.hdr = true ∧
    (∀ x ∈ st.glob.seenNames, x ∈ st'.glob.seenNames) ∧
    ∃ h0, applyMeta h0 k n r = .ok st'.hdr := by
  obtain ⟨_, hc⟩ := stepLine_ok P st st' _ h
  rcases hc with ⟨h0, _⟩ | ⟨kind, cand, rest, hl, hm⟩ | ⟨_, _, _, _, hl, _⟩
  · cases h0
  · cases hl
    rcases stepMeta_ok P st st' _ _ _ hm with ⟨_, g, hd, hf, ha, rfl⟩ | ⟨hn, hd, ha, rfl⟩
    · exact ⟨by rw [applyMeta_name _ _ _ _ _ ha], (applyMeta_sets _ _ _ _ _ ha).2, fun x hx => flush_mono P _ _ _ _ hf x hx, _, ha⟩
    · exact ⟨by rw [applyMeta_name _ _ _ _ _ ha]; exact hn, (applyMeta_sets _ _ _ _ _ ha).2, fun x hx => hx, _, ha⟩
  · cases hl

/-! ## the doomed headers -/

/-- family `n` is current although the name `n` is already taken -/
theorem doom_seen (P : Params) (n : Str) (ls : List Line) (st : St) (h1 : st.hdr.name = some n) (h2 : n ∈ st.glob.seenNames) :
    isError (finishRun P st ls) = true := by
  refine doom P (fun h g => h.name = some n ∧ n ∈ g.seenNames) ?_ ?_ ls st ⟨h1, h2⟩
  · intro h g ⟨hn, hs⟩ samples
    exact flush_clash P g h samples n [] hn (nil_mem_familySuffixes _) (by simpa using hs)
  · intro h g h' kind c rest ⟨hn, hs⟩ _ hm
    exact ⟨by rw [applyMeta_name _ _ _ _ _ hm]; exact hn, hs⟩

/-- family `n` of declared type `t` is current although one of its sample names is already taken -/
theorem doom_clash (P : Params) (n t suf : Str) (ls : List Line) (st : St) (h1 : st.hdr.name = some n) (ht : st.hdr.typ = some t)
    (hs : suf ∈ familySuffixes t) (h2 : n ++ suf ∈ st.glob.seenNames) : isError (finishRun P st ls) = true := by
  refine doom P (fun h g => h.name = some n ∧ h.typ = some t ∧ n ++ suf ∈ g.seenNames) ?_ ?_ ls st ⟨h1, ht, h2⟩
  · intro h g ⟨hn, hty, hseen⟩ samples
    exact flush_clash P g h samples n suf hn (by rw [hty]; exact hs) hseen
  · intro h g h' kind c rest ⟨hn, hty, hseen⟩ _ hm
    refine ⟨by rw [applyMeta_name _ _ _ _ _ hm]; exact hn, ?_, hseen⟩
    rw [(applyMeta_keeps_set _ _ _ _ _ hm).2.1 (by rw [hty]; rfl)]; exact hty

/-- family `n` carries a non-empty unit it does not end with -/
theorem doom_unit_suffix (P : Params) (n u : Str) (hu : u ≠ []) (hsuf : endsWith ('_' :: u) n = false)
    (ls : List Line) (st : St) (h1 : st.hdr.name = some n) (h2 : st.hdr.unit = some u) : isError (finishRun P st ls) = true := by
  refine doom P (fun h _ => h.name = some n ∧ h.unit = some u) ?_ ?_ ls st ⟨h1, h2⟩
  · intro h g ⟨hn, hun⟩ samples
    refine flush_fails P g h samples n hn (raiseIf (!(h.unit.getD []).isEmpty && !endsWith ('_' :: h.unit.getD []) n)) ?_ ?_
    · simp [buildChecks]
    · rw [hun]
      have : (u.isEmpty) = false := by cases u with | nil => exact absurd rfl hu | cons a b => rfl
      simp [this, hsuf, raiseIf, isError]
  · intro h g h' kind c rest ⟨hn, hun⟩ _ hm
    refine ⟨by rw [applyMeta_name _ _ _ _ _ hm]; exact hn, ?_⟩
    rw [(applyMeta_keeps_set _ _ _ _ _ hm).2.2 (by rw [hun]; rfl)]; exact hun

/-- family `n` carries a non-empty unit and a type that admits none -/
theorem doom_unit_forbidden (P : Params) (n u t : Str) (hu : u ≠ []) (ht : unitForbidden.contains t = true)
    (ls : List Line) (st : St) (h1 : st.hdr.name = some n) (h2 : st.hdr.unit = some u) (h3 : st.hdr.typ = some t) :
    isError (finishRun P st ls) = true := by
  refine doom P (fun h _ => h.name = some n ∧ h.unit = some u ∧ h.typ = some t) ?_ ?_ ls st ⟨h1, h2, h3⟩
  · intro h g ⟨hn, hun, hty⟩ samples
    refine flush_fails P g h samples n hn (raiseIf (!(h.unit.getD []).isEmpty && unitForbidden.contains (h.typ.getD tUnknown))) ?_ ?_
    · simp [buildChecks]
    · rw [hun, hty]
      have : (u.isEmpty) = false := by cases u with | nil => exact absurd rfl hu | cons a b => rfl
      show isError (raiseIf (!(u.isEmpty) && unitForbidden.contains t)) = true
      rw [this, ht]; rfl
  · intro h g h' kind c rest ⟨hn, hun, hty⟩ _ hm
    obtain ⟨_, kt, ku⟩ := applyMeta_keeps_set _ _ _ _ _ hm
    exact ⟨by rw [applyMeta_name _ _ _ _ _ hm]; exact hn, by rw [ku (by rw [hun]; rfl)]; exact hun,
           by rw [kt (by rw [hty]; rfl)]; exact hty⟩

/-! ## "family `n` was seen": stable under every line -/

/-- `n` is the current family (with the header property `A`), or the name `x` is already recorded -/
def Seen (A : Hdr → Prop) (n x : Str) (st : St) : Prop := (st.hdr.name = some n ∧ A st.hdr) ∨ x ∈ st.glob.seenNames

/-- every line keeps `Seen`, provided `A` is stable under the family's own metadata lines and flushing a header
with `A` records `x` -/
theorem seen_step (P : Params) (A : Hdr → Prop) (n x : Str)
    (hA : ∀ h h' kind rest, A h → applyMeta h kind n rest = .ok h' → A h')
    (hrec : ∀ h g g' samples, h.name = some n → A h → flush P g h samples = .ok g' → x ∈ g'.seenNames)
    (st st' : St) (l : Line) (hs : Seen A n x st) (h : stepLine P st l = .ok st') : Seen A n x st' := by
  obtain ⟨_, hc⟩ := stepLine_ok P st st' _ h
  rcases hc with ⟨_, rfl⟩ | ⟨kind, cand, rest, _, hm⟩ | ⟨nh, plain, s, isNh, _, _, hss⟩
  · exact hs
  · rcases stepMeta_ok P st st' _ _ _ hm with ⟨_, g, hd, hf, _, rfl⟩ | ⟨hn, hd, ha, rfl⟩
    · right
      rcases hs with ⟨hn, ha⟩ | hs
      · exact hrec _ _ _ _ hn ha hf
      · exact flush_mono P _ _ _ _ hf x hs
    · rcases hs with ⟨hn', ha'⟩ | hs
      · left
        have : cand = n := by rw [hn] at hn'; exact Option.some.inj hn'
        subst this
        exact ⟨by rw [applyMeta_name _ _ _ _ _ ha]; exact hn, hA _ _ _ _ ha' ha⟩
      · right; exact hs
  · rcases stepSample_ok P st st' s isNh hss with ⟨_, g, hd, gr, hf, _, _, rfl⟩ | ⟨_, gr, _, rfl⟩
    · right
      rcases hs with ⟨hn, ha⟩ | hs
      · exact hrec _ _ _ _ hn ha hf
      · exact flush_mono P _ _ _ _ hf x hs
    · exact hs

theorem seen_run (P : Params) (A : Hdr → Prop) (n x : Str)
    (hA : ∀ h h' kind rest, A h → applyMeta h kind n rest = .ok h' → A h')
    (hrec : ∀ h g g' samples, h.name = some n → A h → flush P g h samples = .ok g' → x ∈ g'.seenNames)
    (ls : List Line) (st st' : St) (hs : Seen A n x st) (h : run P st ls = .ok st') : Seen A n x st' :=
  run_invariant P (Seen A n x) (fun _ => True) (fun s l s' hq _ hst => seen_step P A n x hA hrec s s' l hq hst) ls
    (fun _ _ => trivial) st hs st' h

/-- flushing family `n` records the name `n` -/
theorem rec_name (P : Params) (A : Hdr → Prop) (n : Str) :
    ∀ h g g' samples, h.name = some n → A h → flush P g h samples = .ok g' → n ∈ g'.seenNames :=
  fun h g g' samples hn _ hf => flush_records_name P g g' h samples n hn hf

/-- recorded names stay recorded -/
theorem recorded_step (P : Params) (x : Str) (st st' : St) (l : Line) (hx : x ∈ st.glob.seenNames)
    (h : stepLine P st l = .ok st') : x ∈ st'.glob.seenNames := by
  obtain ⟨_, hc⟩ := stepLine_ok P st st' _ h
  rcases hc with ⟨_, rfl⟩ | ⟨kind, cand, rest, _, hm⟩ | ⟨nh, plain, s, isNh, _, _, hss⟩
  · exact hx
  · rcases stepMeta_ok P st st' _ _ _ hm with ⟨_, g, hd, hf, _, rfl⟩ | ⟨hn, hd, ha, rfl⟩
    · exact flush_mono P _ _ _ _ hf x hx
    · exact hx
  · rcases stepSample_ok P st st' s isNh hss with ⟨_, g, hd, gr, hf, _, _, rfl⟩ | ⟨_, gr, _, rfl⟩
    · exact flush_mono P _ _ _ _ hf x hx
    · exact hx

theorem recorded_run (P : Params) (x : Str) (ls : List Line) (st st' : St) (hx : x ∈ st.glob.seenNames)
    (h : run P st ls = .ok st') : x ∈ st'.glob.seenNames :=
  run_invariant P (fun s => x ∈ s.glob.seenNames) (fun _ => True) (fun s l s' hq _ hst => recorded_step P x s s' l hq hst) ls
    (fun _ _ => trivial) st hx st' h

/-- a metadata line for a family whose name is already recorded (and which is not current) dooms the document -/
theorem meta_after_seen (P : Params) (n k r : Str) (post : List Line) (st : St) (hseen : n ∈ st.glob.seenNames) :
    isError (finishRun P st (.metadata k n r :: post)) = true := by
  rw [finishRun_cons]
  cases hs : stepLine P st (.metadata k n r) with
  | error e => rfl
  | ok st1 =>
    simp only
    obtain ⟨hn, _, hmono, _⟩ := stepLine_meta_name P st st1 k n r hs
    exact doom_seen P n post st1 hn (hmono n hseen)

end PromVerif.Lemmas.OM
