/-
C04, the converse at document level: the families `omParse` returns, rendered again by the exposition, parse to the same
families — by composing `omParse_wf` + `reparse_line` with the forward document theorem `doc_parse`.
-/
import PromVerif.Lemmas.OMRtFam

set_option autoImplicit false

namespace PromVerif.Lemmas.OMRt
open PromVerif.Py PromVerif.Model PromVerif.Model.ParseCore PromVerif.Model.Validation
open PromVerif.Model.OMParse PromVerif.Spec.OMRoundtrip PromVerif.Lemmas.TextParse PromVerif.Generated.OMParse

/-- what is asked of the parsed families beyond acceptance (see `om_reparse_document_partial` for which of these are true of
every accepted document and which are findings) -/
structure BackOK (P : Params) (R : Rerender) (fs : List OFamily) : Prop where
  /-- no native-histogram sample (excepted by the property) -/
  noNH : ∀ f ∈ fs, ∀ o ∈ f.samples, o.nh = none
  /-- the number laws for every value and float timestamp; no exemplar label in the metric-name slot -/
  laws : ∀ f ∈ fs, ∀ o ∈ f.samples, BackLaws P R o
  /-- no line feed in a unit -/
  unit : ∀ f ∈ fs, '\n' ∉ f.unit
  /-- every sample name within the suffix set of its family's type -/
  regular : ∀ f ∈ fs, ∀ o ∈ f.samples, (allowedNames f.name f.typ).contains o.name = true
  /-- an exemplar only where the exposition accepts one -/
  eligible : ∀ f ∈ fs, ∀ o ∈ f.samples, o.exemplar.isSome = true → OMExpo.isValidExemplarMetric f.typ f.name o.name = true
  /-- consecutive families carry different names -/
  adj : AdjDiffer (fs.map (famBack R))

theorem famBack_ok (P : Params) (R : Rerender) (fs : List OFamily) (hwf : ∀ f ∈ fs, FamWf P f) (hb : BackOK P R fs) :
    ∀ fam ∈ fs.map (famBack R), FamOK P fam := by
  intro fam hfam
  obtain ⟨f, hf, rfl⟩ := List.mem_map.mp hfam
  have hw := hwf f hf
  refine ⟨?_, hw.typ, hb.unit f hf, ?_⟩
  · show isOk (validateMetricName P.legacy f.name) = true
    rw [hw.name]; rfl
  · intro s hs
    simp only [famBack] at hs
    obtain ⟨o, ho, rfl⟩ := List.mem_map.mp hs
    have hnh := hb.noNH f hf o ho
    rcases hw.samples o ho with h1 | ⟨line, hacc⟩
    · rw [hnh] at h1; cases h1
    · refine ⟨sampleBack_ok P R line o hacc (hb.laws f hf o ho), ?_, ?_⟩
      · intro he
        have : o.exemplar.isSome = true := by
          simp only [sampleBack] at he
          cases hx : o.exemplar with
          | none => rw [hx] at he; cases he
          | some _ => rfl
        exact hb.eligible f hf o ho this
      · exact hb.regular f hf o ho

/-- a parsed family and what its re-rendering parses to -/
def FamSame (P : Params) (R : Rerender) (f f' : OFamily) : Prop :=
  f'.name = f.name ∧ f'.doc = f.doc ∧ f'.typ = f.typ ∧ f'.unit = f.unit ∧ Forall2 (SampleSame P R) f.samples f'.samples

theorem forall2_map_map {α β γ : Type} {R : α → γ → Prop} (f : α → β) (g : β → γ) : ∀ (l : List α), (∀ a ∈ l, R a (g (f a))) →
    Forall2 R l ((l.map f).map g) := by
  intro l
  induction l with
  | nil => intro _; exact .nil
  | cons a as ih => intro h; exact .cons (h a (by simp)) (ih (fun b hb => h b (by simp [hb])))

/-- what the re-rendered line of a parsed sample parses to is the same sample -/
theorem parsedOf_back (P : Params) (hI : IntLaw P.pyInt) (R : Rerender) (line : Str) (o : OSample)
    (hacc : parseSample P line = .ok o) (hl : BackLaws P R o) : SampleSame P R o (parsedOf P (sampleBack R o)) := by
  obtain ⟨o', hp, hs⟩ := reparse_line P hI R line o hacc hl
  unfold parsedOf
  rw [hp]
  exact hs

/-- **the converse at document level, up to the rule layer**: exposing the parsed families and parsing again is the parser's
rule layer on the re-rendered values, and the families that layer is run on are the parsed ones (`FamSame`) -/
theorem reparse_document (P : Params) (hI : IntLaw P.pyInt) (R : Rerender) (d : Str) (fs : List OFamily)
    (hacc : omParse P d = .ok fs) (hb : BackOK P R fs) :
    ∃ text, OMExpo.generateLatest (fs.map (famBack R)) = .ok text ∧
      omParse P text = rulesOnly P ((fs.map (famBack R)).map (fun fam => (fam, fam.samples.map (parsedOf P)))) ∧
      Forall2 (FamSame P R) fs ((fs.map (famBack R)).map (fun fam => ⟨fam.name, fam.doc, fam.typ, fam.unit, fam.samples.map (parsedOf P)⟩)) := by
  have hwf := omParse_wf P d fs hacc
  have hok := famBack_ok P R fs hwf hb
  obtain ⟨text, h1, _, h2⟩ := doc_parse P hI (fs.map (famBack R)) hok hb.adj
  refine ⟨text, h1, h2, ?_⟩
  apply forall2_map_map
  intro f hf
  refine ⟨rfl, rfl, rfl, rfl, ?_⟩
  simp only [famBack]
  apply forall2_map_map
  intro o ho
  rcases (hwf f hf).samples o ho with h3 | ⟨line, hl⟩
  · rw [hb.noNH f hf o ho] at h3; cases h3
  · exact parsedOf_back P hI R line o hl (hb.laws f hf o ho)

end PromVerif.Lemmas.OMRt
