/-
Lemmas/ConcStep — the step function of Model/Conc as a relation (one constructor per micro-step), so that invariant
proofs are a `cases` away; generic facts about `run`, `List.set` and the thread table.
-/
import PromVerif.Model.Conc

namespace PromVerif.Model.Conc
open PromVerif.Generated.Locks

section
variable {L X U V : Type} [DecidableEq L] [DecidableEq X]

/-- the effect of executing micro-step `m` (continuation `r`) by thread `i` whose record is `t` -/
inductive Eff (ap : U → V → V → V) (s : St L X U V) (i : Tid) (t : Thread L X U V) :
    Micro L X U → List (Micro L X U) → St L X U V → Prop
  | acquire (l r) (h : s.owner l = none) :
      Eff ap s i t (.acquire l) r
        { s with owner := upd s.owner l (some i),
                 threads := s.threads.set i { t with pc := r, held := l :: t.held } }
  | release (l r) (h : s.owner l = some i) :
      Eff ap s i t (.release l) r
        { s with owner := upd s.owner l none,
                 threads := s.threads.set i { t with pc := r, held := t.held.erase l } }
  | load (x r) :
      Eff ap s i t (.load x) r
        { s with threads := s.threads.set i { t with pc := r, reg := upd t.reg x (s.cell x) },
                 log := upd s.log x (.rd i (s.cell x) :: s.log x) }
  | store (x u r) :
      Eff ap s i t (.store x u) r
        { s with cell := upd s.cell x (ap u (t.reg x) (s.cell x)),
                 threads := s.threads.set i { t with pc := r, reg := upd t.reg x (ap u (t.reg x) (s.cell x)) },
                 err := upd s.err x (s.err x || (s.iters x).any (fun j => decide (j ≠ i))),
                 log := upd s.log x (.wr i u (ap u (t.reg x) (s.cell x)) :: s.log x) }
  | iterBegin (x r) :
      Eff ap s i t (.iterBegin x) r
        { s with iters := upd s.iters x (i :: s.iters x), threads := s.threads.set i { t with pc := r } }
  | iterEnd (x r) :
      Eff ap s i t (.iterEnd x) r
        { s with iters := upd s.iters x ((s.iters x).erase i), threads := s.threads.set i { t with pc := r } }
  | call (b c r) : Eff ap s i t (.call b c) r { s with threads := s.threads.set i { t with pc := r } }
  | yield (r) : Eff ap s i t .yield r { s with threads := s.threads.set i { t with pc := r } }

theorem step_some {ap : U → V → V → V} {s s' : St L X U V} {i : Tid} (h : step ap s i = some s') :
    ∃ t m r, s.threads[i]? = some t ∧ t.pc = m :: r ∧ Eff ap s i t m r s' := by
  unfold step at h
  split at h
  · cases h
  · next t ht =>
    split at h
    · cases h
    · next l r hpc =>
      split at h
      · next ho => cases h; exact ⟨t, _, _, ht, hpc, .acquire l r ho⟩
      · cases h
    · next l r hpc =>
      split at h
      · next ho => cases h; exact ⟨t, _, _, ht, hpc, .release l r ho⟩
      · cases h
    · next x r hpc => cases h; exact ⟨t, _, _, ht, hpc, .load x r⟩
    · next x u r hpc => cases h; exact ⟨t, _, _, ht, hpc, .store x u r⟩
    · next x r hpc => cases h; exact ⟨t, _, _, ht, hpc, .iterBegin x r⟩
    · next x r hpc => cases h; exact ⟨t, _, _, ht, hpc, .iterEnd x r⟩
    · next b c r hpc => cases h; exact ⟨t, _, _, ht, hpc, .call b c r⟩
    · next r hpc => cases h; exact ⟨t, _, _, ht, hpc, .yield r⟩

/-- a property preserved by every enabled step holds along every schedule -/
theorem run_induction {ap : U → V → V → V} (P : St L X U V → Prop)
    (hstep : ∀ s i s', P s → step ap s i = some s' → P s') :
    ∀ (sched : List Tid) (s : St L X U V), P s → P (run ap s sched) := by
  intro sched
  induction sched with
  | nil => intro s h; exact h
  | cons i rest ih =>
    intro s h
    unfold run
    split
    · next s' hs => exact ih s' (hstep s i s' h hs)
    · exact ih s h

/-- looking up thread `j` after thread `i`'s record was replaced -/
theorem getElem?_set_cases {α : Type} {ts : List α} {i j : Nat} {t' tj : α}
    (h : (ts.set i t')[j]? = some tj) :
    (j = i ∧ tj = t' ∧ i < ts.length) ∨ (j ≠ i ∧ ts[j]? = some tj) := by
  by_cases hji : j = i
  · subst hji
    rw [List.getElem?_set_self'] at h
    cases hts : ts[j]? with
    | none => simp [hts] at h
    | some a =>
      simp [hts] at h
      have := List.getElem?_eq_some_iff.mp hts
      exact Or.inl ⟨rfl, h.symm, this.1⟩
  · right
    refine ⟨hji, ?_⟩
    rwa [List.getElem?_set_ne (Ne.symm hji)] at h

theorem getElem?_set_self_of {α : Type} {ts : List α} {i : Nat} {t t' : α} (h : ts[i]? = some t) :
    (ts.set i t')[i]? = some t' := by
  have := (List.getElem?_eq_some_iff.mp h).1
  simp [List.getElem?_set_self', h]

end
end PromVerif.Model.Conc
