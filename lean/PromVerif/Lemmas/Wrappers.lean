/-
Lemmas for C16, protocol part: what one wrapper, a stack of wrappers, a sequence of nested calls and a
recursion do to outcome, observations, counters and gauges, as a function of what the wrapped piece does.
Every lemma about `timerExit` / `inprogressExit` / `excExit` unfolds the flags extracted from the current
source, so an edit of context_managers.py that changes one of them breaks the corresponding lemma.
-/
import PromVerif.Model.Wrappers
import PromVerif.Spec.Wrappers

namespace PromVerif.Lemmas.Wrappers
open PromVerif.Model.Wrappers PromVerif.Spec.Wrappers PromVerif.Generated.Wrappers

/-- observations on `(m, k)` in a log -/
def countObs (m : Nat) (k : TimeKind) (l : List Obs) : Nat :=
  l.countP (fun x => decide (x.metric = m ∧ x.kind = k))

/-- what a piece of program does, whatever state it starts in: outcome `o`; counter `c` up by `E c`;
`T m k` new observations on `(m, k)`, all non-negative; gauges not in `S` back at their value -/
def Sound (f : St → Outcome × St) (o : Outcome) (T : Nat → TimeKind → Nat) (E : Nat → Nat) (S : Nat → Bool) : Prop :=
  ∀ s, (f s).1 = o ∧
    (∀ c, (f s).2.counter c = s.counter c + E c) ∧
    (∃ new, (f s).2.obs = new ++ s.obs ∧ (∀ x ∈ new, 0 ≤ x.dur) ∧ ∀ m k, countObs m k new = T m k) ∧
    (∀ g, S g = false → (f s).2.gauge g = s.gauge g)

theorem Sound.mono {f o T E S T' E' S'} (h : Sound f o T E S) (hT : ∀ m k, T m k = T' m k)
    (hE : ∀ c, E c = E' c) (hS : ∀ g, S' g = false → S g = false) : Sound f o T' E' S' := by
  intro s
  obtain ⟨h1, h2, ⟨new, h3, h4, h5⟩, h6⟩ := h s
  exact ⟨h1, fun c => by rw [h2 c, hE c], ⟨new, h3, h4, fun m k => by rw [h5 m k, hT m k]⟩,
    fun g hg => h6 g (hS g hg)⟩

theorem sound_pure (o : Outcome) : Sound (fun s => (o, s)) o (fun _ _ => 0) (fun _ => 0) (fun _ => false) := by
  intro s
  exact ⟨rfl, fun _ => rfl, ⟨[], rfl, by simp, fun _ _ => rfl⟩, fun _ _ => rfl⟩

/-! ### the clamp -/

theorem duration_nonneg (now start : Int) : 0 ≤ duration now start := by
  simp only [duration, timerClampFn, timerClampLit]
  omega

theorem duration_eq_ideal (now start : Int) : duration now start = idealDuration start now := by
  simp [duration, timerClampFn, timerClampLit, timerNowMinusStart, idealDuration]

/-! ### one wrapper -/

@[simp] theorem timerEnter_obs (mode s) : (timerEnter mode s).obs = s.obs := by
  unfold timerEnter; split <;> rfl
@[simp] theorem timerEnter_counter (mode s) : (timerEnter mode s).counter = s.counter := by
  unfold timerEnter; split <;> rfl
@[simp] theorem timerEnter_gauge (mode s) : (timerEnter mode s).gauge = s.gauge := by
  unfold timerEnter; split <;> rfl

theorem timerExit_eq (m k mode s0) (r : Outcome × St) :
    timerExit m k mode s0 r =
      (r.1, callback { r.2 with clock := r.2.clock.tick.2 } m k (duration r.2.clock.tick.1 (timerStart mode s0 r.2))) := by
  simp [timerExit, suppress, timerExitSuppresses, whenHolds, timerCallbackWhen]

theorem callback_obs (s m k d) : (callback s m k d).obs = ⟨m, k, d⟩ :: s.obs := by
  cases k <;> rfl
theorem callback_counter (s m k d) : (callback s m k d).counter = s.counter := by
  cases k <;> rfl
theorem callback_gauge (s m k d g) (h : ¬ (k = .set ∧ m = g)) : (callback s m k d).gauge g = s.gauge g := by
  cases k
  · have : g ≠ m := fun e => h ⟨rfl, e.symm⟩
    simp [callback, upd, this]
  · rfl

theorem inprogressExit_eq (g) (r : Outcome × St) :
    inprogressExit g r = (r.1, { r.2 with gauge := upd r.2.gauge g (r.2.gauge g - 1) }) := by
  simp [inprogressExit, suppress, inprogressExitSuppresses, whenHolds, inprogressDecWhen]

theorem inprogressEnter_eq (g s) :
    inprogressEnter g s = { s with gauge := upd s.gauge g (s.gauge g + 1) } := by
  simp [inprogressEnter, whenHolds, inprogressIncWhen]

@[simp] theorem inprogressEnter_obs (g s) : (inprogressEnter g s).obs = s.obs := by
  rw [inprogressEnter_eq]
@[simp] theorem inprogressEnter_counter (g s) : (inprogressEnter g s).counter = s.counter := by
  rw [inprogressEnter_eq]
theorem inprogressEnter_gauge (g s) : (inprogressEnter g s).gauge = upd s.gauge g (s.gauge g + 1) := by
  rw [inprogressEnter_eq]

theorem counts_eq (classes o) : counts classes o = escapes classes o := by
  cases o <;> rfl

theorem excExit_eq (c classes) (r : Outcome × St) :
    excExit c classes r =
      (r.1, if escapes classes r.1 then { r.2 with counter := upd r.2.counter c (r.2.counter c + 1) } else r.2) := by
  simp [excExit, suppress, excSuppressWhenCounted, excSuppressOtherwise, counts_eq]

theorem wrapOne_sound {body o T E S} (w : Wrapper) (h : Sound body o T E S) :
    Sound (wrapOne w body) o (fun m k => timeOn m k [w] + T m k) (fun c => escOn c o [w] + E c)
      (fun g => setsOn g [w] || S g) := by
  intro s
  cases w with
  | time m k mode =>
    obtain ⟨h1, h2, ⟨new, h3, h4, h5⟩, h6⟩ := h (timerEnter mode s)
    simp only [wrapOne, timerExit_eq]
    refine ⟨h1, ?_, ?_, ?_⟩
    · intro c
      simp [callback_counter, h2 c, escOn]
    · refine ⟨⟨m, k, duration (body (timerEnter mode s)).2.clock.tick.1 (timerStart mode s (body (timerEnter mode s)).2)⟩ :: new, ?_, ?_, ?_⟩
      · simp [callback_obs, h3]
      · intro x hx
        rcases List.mem_cons.mp hx with hx | hx
        · subst hx; exact duration_nonneg _ _
        · exact h4 x hx
      · intro m' k'
        simp only [countObs, List.countP_cons, timeOn] at *
        rw [h5 m' k']
        by_cases hm : m = m' ∧ k = k' <;> simp [hm] <;> omega
    · intro g hg
      simp only [Bool.or_eq_false_iff] at hg
      have hne : ¬ (k = .set ∧ m = g) := by
        intro ⟨hk, hm⟩
        subst hk; subst hm
        simp [setsOn] at hg
      rw [callback_gauge _ _ _ _ _ hne]
      simpa using h6 g hg.2
  | inprogress g' =>
    obtain ⟨h1, h2, ⟨new, h3, h4, h5⟩, h6⟩ := h (inprogressEnter g' s)
    simp only [wrapOne, inprogressExit_eq]
    refine ⟨h1, ?_, ?_, ?_⟩
    · intro c
      simp [h2 c, escOn]
    · refine ⟨new, ?_, h4, ?_⟩
      · simp [h3]
      · intro m k; simp [h5 m k, timeOn]
    · intro g hg
      simp only [setsOn, Bool.false_or] at hg
      have := h6 g hg
      simp only [inprogressEnter_gauge] at this
      by_cases e : g = g'
      · subst e
        simp [upd] at this ⊢
        omega
      · simp [upd, e] at this ⊢
        exact this
  | countExc c' classes =>
    obtain ⟨h1, h2, ⟨new, h3, h4, h5⟩, h6⟩ := h s
    simp only [wrapOne, excExit_eq]
    refine ⟨h1, ?_, ?_, ?_⟩
    · intro c
      rw [h1]
      by_cases he : escapes classes o = true
      · by_cases hc : c = c'
        · subst hc; simp [he, upd, h2, escOn]; omega
        · have : ¬ c' = c := fun e => hc e.symm
          simp [he, upd, hc, this, h2, escOn]
      · simp [he, h2, escOn]
    · refine ⟨new, ?_, h4, ?_⟩
      · split <;> simp [h3]
      · intro m k; simp [h5 m k, timeOn]
    · intro g hg
      simp only [setsOn, Bool.false_or] at hg
      split <;> simp [h6 g hg]

/-! ### a stack of wrappers -/

theorem timeOn_cons (m k w ws) : timeOn m k (w :: ws) = timeOn m k [w] + timeOn m k ws := by
  cases w <;> simp [timeOn]
theorem escOn_cons (c o w ws) : escOn c o (w :: ws) = escOn c o [w] + escOn c o ws := by
  cases w <;> simp [escOn]
theorem setsOn_cons (g w ws) : setsOn g (w :: ws) = (setsOn g [w] || setsOn g ws) := by
  cases w with
  | time m k mode => cases k <;> simp [setsOn]
  | inprogress _ => simp [setsOn]
  | countExc _ _ => simp [setsOn]

theorem wrapAll_sound {body o T E S} (ws : List Wrapper) (h : Sound body o T E S) :
    Sound (wrapAll ws body) o (fun m k => timeOn m k ws + T m k) (fun c => escOn c o ws + E c)
      (fun g => setsOn g ws || S g) := by
  induction ws with
  | nil => exact h.mono (by simp [timeOn]) (by simp [escOn]) (by simp [setsOn])
  | cons w ws ih =>
    refine (wrapOne_sound w ih).mono ?_ ?_ ?_
    · intro m k; rw [timeOn_cons m k w ws]; omega
    · intro c; rw [escOn_cons c o w ws]; omega
    · intro g; rw [setsOn_cons g w ws]; simp [Bool.or_assoc]

/-! ### sequencing and recursion -/

theorem seq_sound {f g o1 o2 T1 T2 E1 E2 S1 S2} (sw : Bool) (hf : Sound f o1 T1 E1 S1) (hg : Sound g o2 T2 E2 S2) :
    Sound (fun s => if continues (f s).1 sw then g (f s).2 else f s)
      (if continues o1 sw then o2 else o1)
      (fun m k => T1 m k + (if continues o1 sw then T2 m k else 0))
      (fun c => E1 c + (if continues o1 sw then E2 c else 0))
      (fun x => S1 x || S2 x) := by
  intro s
  obtain ⟨h1, h2, ⟨new, h3, h4, h5⟩, h6⟩ := hf s
  simp only [h1]
  by_cases hc : continues o1 sw = true
  · simp only [hc, if_true]
    obtain ⟨k1, k2, ⟨new', k3, k4, k5⟩, k6⟩ := hg (f s).2
    refine ⟨k1, fun c => by rw [k2 c, h2 c]; omega, ⟨new' ++ new, by rw [k3, h3]; simp, ?_, ?_⟩, ?_⟩
    · intro x hx
      rcases List.mem_append.mp hx with hx | hx
      · exact k4 x hx
      · exact h4 x hx
    · intro m k
      simp only [countObs, List.countP_append] at *
      rw [k5 m k, h5 m k]; omega
    · intro x hx
      simp only [Bool.or_eq_false_iff] at hx
      rw [k6 x hx.2, h6 x hx.1]
  · simp only [hc, if_false, Bool.false_eq_true]
    refine ⟨h1, fun c => by rw [h2 c]; omega, ⟨new, h3, h4, fun m k => by rw [h5 m k]; omega⟩, ?_⟩
    intro x hx
    simp only [Bool.or_eq_false_iff] at hx
    exact h6 x hx.1

theorem recN_sound (ws : List Wrapper) (o : Outcome) (n : Nat) :
    Sound (recN ws o n) o (fun m k => n * timeOn m k ws) (fun c => n * escOn c o ws) (fun g => decide (0 < n) && setsOn g ws) := by
  induction n with
  | zero => exact (sound_pure o).mono (by simp) (by simp) (by simp)
  | succ n ih =>
    refine (wrapAll_sound ws ih).mono ?_ ?_ ?_
    · intro m k; simp [Nat.succ_mul]; omega
    · intro c; simp [Nat.succ_mul]; omega
    · intro g; simp; intro h; simp [h]

/-! ### the whole tree -/

mutual
  theorem call_sound : ∀ c : Call, Sound (execCall c) (outcomeCall c) (fun m k => timedCall m k c)
      (fun k => escCall k c) (fun g => setsCall g c)
    | .mk ws b => by
      have hb := body_sound ws b
      simp only [execCall, outcomeCall, timedCall, escCall, setsCall]
      exact (wrapAll_sound ws hb).mono (fun _ _ => rfl) (fun _ => rfl) (by
        intro g hg
        simp only [Bool.or_eq_false_iff] at hg ⊢
        exact ⟨hg.1, by rw [hg.1]; simpa using hg.2⟩)
  /-- inside a body whose own stack is `ws`; a gauge set by `ws` is excluded only when the body recurses -/
  theorem body_sound : ∀ (ws : List Wrapper) (b : Body), Sound (execBody ws b) (outcomeBody b)
      (fun m k => timedBody m k ws b) (fun k => escBody k ws b) (fun g => setsOn g ws || setsBody g b)
    | ws, .out o => by
      simp only [execBody, outcomeBody, timedBody, escBody, setsBody]
      exact (sound_pure o).mono (fun _ _ => rfl) (fun _ => rfl) (by simp)
    | ws, .nest cs sw o => by
      simp only [execBody, outcomeBody, timedBody, escBody, setsBody]
      exact (seq_sound' cs sw o).mono (fun _ _ => rfl) (fun _ => rfl) (by
        intro g hg; simp only [Bool.or_eq_false_iff] at hg; exact hg.2)
    | ws, .recurse n o => by
      simp only [execBody, outcomeBody, timedBody, escBody, setsBody]
      exact (recN_sound ws o n).mono (fun _ _ => rfl) (fun _ => rfl) (by
        intro g hg; simp only [Bool.or_false] at hg; simp [hg])
  theorem seq_sound' : ∀ (cs : Calls) (sw : Bool) (o : Outcome), Sound (execSeq cs sw o) (outcomeSeq cs sw o)
      (fun m k => timedSeq m k cs sw) (fun k => escSeq k cs sw) (fun g => setsSeq g cs)
    | .nil, sw, o => by
      simp only [execSeq, outcomeSeq, timedSeq, escSeq, setsSeq]
      exact (sound_pure o).mono (fun _ _ => rfl) (fun _ => rfl) (by simp)
    | .cons c cs, sw, o => by
      have h1 := call_sound c
      have h2 := seq_sound' cs sw o
      simp only [execSeq, outcomeSeq, timedSeq, escSeq, setsSeq]
      exact (seq_sound sw h1 h2).mono (fun _ _ => rfl) (fun _ => rfl) (fun _ h => h)
end

end PromVerif.Lemmas.Wrappers
