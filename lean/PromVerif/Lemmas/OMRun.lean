/-
Lemmas about the OpenMetrics line/family state machine (`Model/OMParse.lean`): how `run`/`finish` compose, the
"family block" invariant (after `# TYPE n t` and lines of that family the header is (n, t, allowed names)), and the
"doom" principle (a header that can no longer be flushed makes every continuation fail).
-/
import PromVerif.Model.OMParse
import PromVerif.Spec.OMRules

namespace PromVerif.Lemmas.OM
open PromVerif.Py PromVerif.Model.ParseCore PromVerif.Model.OMParse PromVerif.Generated.OMParse
open PromVerif.Spec.OMRules (isError smp)

@[simp] theorem isError_error {α : Type} (e : PyErr) : isError (.error e : PyM α) = true := rfl
@[simp] theorem isError_ok {α : Type} (a : α) : isError (.ok a : PyM α) = false := rfl

/-- run the loop from `st` over `ls`, then the tail of the parser -/
def finishRun (P : Params) (st : St) (ls : List Line) : PyM (List OFamily) :=
  match run P st ls with
  | .ok st' => finish P st'
  | .error e => .error e

theorem assemble_eq (P : Params) (ls : List Line) : assemble P ls = finishRun P {} ls := rfl

theorem finishRun_nil (P : Params) (st : St) : finishRun P st [] = finish P st := rfl

theorem finishRun_cons (P : Params) (st : St) (l : Line) (ls : List Line) :
    finishRun P st (l :: ls) = match stepLine P st l with
      | .ok st' => finishRun P st' ls
      | .error e => .error e := by
  simp only [finishRun, run]
  cases stepLine P st l <;> rfl

theorem run_append (P : Params) (st : St) (a b : List Line) :
    run P st (a ++ b) = match run P st a with
      | .ok st' => run P st' b
      | .error e => .error e := by
  induction a generalizing st with
  | nil => rfl
  | cons l a ih =>
    simp only [List.cons_append, run]
    cases stepLine P st l with
    | error e => rfl
    | ok st' => exact ih st'

theorem finishRun_append (P : Params) (st : St) (a b : List Line) :
    finishRun P st (a ++ b) = match run P st a with
      | .ok st' => finishRun P st' b
      | .error e => .error e := by
  simp only [finishRun, run_append]
  cases run P st a <;> rfl

/-- whatever precedes: if the rest fails from every state, the document fails -/
theorem isError_of_suffix (P : Params) (pre suf : List Line) (h : ∀ st, isError (finishRun P st suf) = true) :
    isError (assemble P (pre ++ suf)) = true := by
  rw [assemble_eq, finishRun_append]
  cases run P {} pre with
  | error e => rfl
  | ok st => exact h st

/-- a line that fails in every state -/
theorem isError_of_bad_line (P : Params) (l : Line) (post : List Line) (h : ∀ st, isError (stepLine P st l) = true) (st : St) :
    isError (finishRun P st (l :: post)) = true := by
  rw [finishRun_cons]
  have := h st
  cases hs : stepLine P st l with
  | error e => rfl
  | ok st' => rw [hs] at this; cases this

/-- a list of lines processed from `st`: either some line fails, or the final state satisfies `Q` — given that
each line keeps `Q` -/
theorem run_invariant (P : Params) (Q : St → Prop) (ok : Line → Prop)
    (step : ∀ st l st', Q st → ok l → stepLine P st l = .ok st' → Q st')
    (ls : List Line) (hls : ∀ l ∈ ls, ok l) (st : St) (hst : Q st) :
    ∀ st', run P st ls = .ok st' → Q st' := by
  induction ls generalizing st with
  | nil => intro st' h; simp only [run] at h; cases h; exact hst
  | cons l ls ih =>
    intro st' h
    simp only [run] at h
    cases hs : stepLine P st l with
    | error e => rw [hs] at h; cases h
    | ok st1 =>
      rw [hs] at h
      exact ih (fun l' hl' => hls l' (List.mem_cons_of_mem _ hl')) st1 (step st l st1 hst (hls l (List.mem_cons_self ..)) hs) st' h

/-! ## checks run in sequence -/

theorem runChecks_isError_of_mem (cs : List (PyM Unit)) (c : PyM Unit) (hc : c ∈ cs) (he : isError c = true) :
    isError (runChecks cs) = true := by
  induction cs with
  | nil => cases hc
  | cons d cs ih =>
    simp only [runChecks]
    cases hd : d with
    | error e => rfl
    | ok u =>
      rcases List.mem_cons.mp hc with h | h
      · subst h; rw [hd] at he; cases he
      · exact ih h

theorem raiseIf_true : isError (raiseIf true) = true := rfl

theorem raiseIfM_ok_true : isError (raiseIfM (.ok true)) = true := rfl

theorem raiseIfM_error (e : PyErr) : isError (raiseIfM (.error e)) = true := rfl

/-! ## the sample branch -/

theorem pickSample_smp (typ : Option Str) (s : OSample) : pickSample typ (.ok none) (.ok s) = .ok (s, false) := by
  unfold pickSample
  split <;> rfl

theorem stepLine_smp (P : Params) (st : St) (s : OSample) (h : st.eof = false) :
    stepLine P st (smp s) = stepSample P st s false := by
  simp only [stepLine, smp, h, pickSample_smp]
  rfl

/-- a sample whose name the current family allows goes through `sampleChecks` with the current header -/
theorem stepSample_allowed (P : Params) (st : St) (s : OSample) (isNh : Bool) (h : st.hdr.allowed.contains s.name = true) :
    stepSample P st s isNh = match sampleChecks P st.hdr st.grp s isNh with
      | .error e => .error e
      | .ok gr => .ok { st with grp := gr } := by
  simp only [stepSample, h, Bool.not_true, Bool.false_and]
  rfl

/-- on a plain sample (not read as a native histogram) `sampleChecks` is: name, label checks, grouping, value checks -/
theorem sampleChecks_false (P : Params) (h : Hdr) (gr : Grp) (s : OSample) :
    sampleChecks P h gr s false = match h.name with
      | none => .error .typeError
      | some name =>
        match preChecks P name h.typ s with
        | .error e => .error e
        | .ok _ =>
          match groupStep P gr name (h.typ.getD []) s with
          | .error e => .error e
          | .ok gr' =>
            match postChecks P name h.typ s with
            | .error e => .error e
            | .ok _ => .ok gr' := by
  unfold sampleChecks
  simp only [Bool.false_and, Bool.false_eq_true, if_false, Bool.not_false, if_true]
  rfl

theorem sampleChecks_pre (P : Params) (h : Hdr) (gr : Grp) (s : OSample) (n : Str) (hn : h.name = some n)
    (he : isError (preChecks P n h.typ s) = true) : isError (sampleChecks P h gr s false) = true := by
  rw [sampleChecks_false, hn]
  dsimp only
  cases hp : preChecks P n h.typ s with
  | error e => rfl
  | ok u => rw [hp] at he; cases he

theorem sampleChecks_post (P : Params) (h : Hdr) (gr : Grp) (s : OSample) (n : Str) (hn : h.name = some n)
    (he : isError (postChecks P n h.typ s) = true) : isError (sampleChecks P h gr s false) = true := by
  rw [sampleChecks_false, hn]
  dsimp only
  cases preChecks P n h.typ s with
  | error e => rfl
  | ok u =>
    dsimp only
    cases groupStep P gr n (h.typ.getD []) s with
    | error e => rfl
    | ok gr' =>
      dsimp only
      cases hp : postChecks P n h.typ s with
      | error e => rfl
      | ok u => rw [hp] at he; cases he

/-! ## the family block invariant -/

/-- the header after `# TYPE n t` -/
def HdrIs (n t : Str) (h : Hdr) : Prop := h.name = some n ∧ h.typ = some t ∧ h.allowed = allowedNames n t

/-- a line that belongs to family `n` of type `t`: one of its metadata lines, or a sample line whose plain reading
(if it parses) carries one of the family's sample names -/
def InFamM (n t : Str) : Line → Prop
  | .metadata _ name _ => name = n
  | .sample _ plain => ∀ s, plain = .ok s → (allowedNames n t).contains s.name = true
  | _ => False

/-- in the checked-out source the "More than one UNIT" test is `unit is not None` (`unitDupByNone`): every metadata
field that has been set, even to the empty string, makes a second line of its kind fail -/
theorem applyMeta_eq (h : Hdr) (kind cand rest : Str) : applyMeta h kind cand rest =
    (if kind == kwHelp then
      if h.doc.isSome then .error .valueError else .ok { h with doc := some (unescapeHelp rest) }
    else if kind == kwType then
      if h.typ.isSome then .error .valueError
      else if rest == untypedName then .error .valueError
      else .ok { h with typ := some rest, allowed := allowedNames cand rest }
    else if kind == kwUnit then
      if h.unit.isSome then .error .valueError else .ok { h with unit := some rest }
    else .error .valueError) := by
  have hf : unitDupByNone = true := by decide
  unfold applyMeta
  cases hu : h.unit <;> simp [hf]

theorem kw_distinct : (kwType == kwHelp) = false ∧ (kwUnit == kwHelp) = false ∧ (kwUnit == kwType) = false := by decide

theorem applyMeta_keeps (h h' : Hdr) (n t kind rest : Str) (hh : HdrIs n t h) (hm : applyMeta h kind n rest = .ok h') :
    HdrIs n t h' := by
  obtain ⟨h1, h2, h3⟩ := hh
  rw [applyMeta_eq] at hm
  by_cases c1 : (kind == kwHelp) = true
  · rw [if_pos c1] at hm
    by_cases c2 : h.doc.isSome = true
    · rw [if_pos c2] at hm; cases hm
    · rw [if_neg c2] at hm; obtain rfl := Except.ok.inj hm; exact ⟨h1, h2, h3⟩
  · rw [if_neg c1] at hm
    by_cases c3 : (kind == kwType) = true
    · rw [if_pos c3] at hm
      have : h.typ.isSome = true := by rw [h2]; rfl
      rw [if_pos this] at hm; cases hm
    · rw [if_neg c3] at hm
      by_cases c4 : (kind == kwUnit) = true
      · rw [if_pos c4] at hm
        by_cases c5 : h.unit.isSome = true
        · rw [if_pos c5] at hm; cases hm
        · rw [if_neg c5] at hm; obtain rfl := Except.ok.inj hm; exact ⟨h1, h2, h3⟩
      · rw [if_neg c4] at hm; cases hm

theorem applyMeta_type (h h' : Hdr) (n t : Str) (hn : h.name = some n) (hm : applyMeta h kwType n t = .ok h') :
    HdrIs n t h' := by
  rw [applyMeta_eq] at hm
  have c1 : ¬ (kwType == kwHelp) = true := by decide
  rw [if_neg c1, if_pos (beq_self_eq_true _)] at hm
  by_cases c2 : h.typ.isSome = true
  · rw [if_pos c2] at hm; cases hm
  · rw [if_neg c2] at hm
    by_cases c3 : (t == untypedName) = true
    · rw [if_pos c3] at hm; cases hm
    · rw [if_neg c3] at hm; obtain rfl := Except.ok.inj hm; exact ⟨hn, rfl, rfl⟩

/-- how `stepMeta` decomposes when it succeeds -/
theorem stepMeta_ok (P : Params) (st st' : St) (kind cand rest : Str) (h : stepMeta P st kind cand rest = .ok st') :
    (st.hdr.name ≠ some cand ∧ ∃ g hd, flush P st.glob st.hdr st.grp.samples = .ok g ∧
        applyMeta { name := some cand, allowed := [cand] } kind cand rest = .ok hd ∧ st' = { st with hdr := hd, grp := {}, glob := g })
    ∨ (st.hdr.name = some cand ∧ ∃ hd, applyMeta st.hdr kind cand rest = .ok hd ∧ st' = { st with hdr := hd }) := by
  unfold stepMeta at h
  by_cases c1 : (st.hdr.name == some cand && !st.grp.samples.isEmpty) = true
  · rw [if_pos c1] at h; cases h
  · rw [if_neg c1] at h
    by_cases c2 : (st.hdr.name != some cand) = true
    · rw [if_pos c2] at h
      left
      refine ⟨by simpa using c2, ?_⟩
      cases hf : flush P st.glob st.hdr st.grp.samples with
      | error e => rw [hf] at h; dsimp only at h; cases h
      | ok g =>
        rw [hf] at h; dsimp only at h
        cases hm : applyMeta { name := some cand, allowed := [cand] } kind cand rest with
        | error e => rw [hm] at h; dsimp only at h; cases h
        | ok hd => rw [hm] at h; dsimp only at h; exact ⟨g, hd, rfl, rfl, (Except.ok.inj h).symm⟩
    · rw [if_neg c2] at h
      right
      refine ⟨by simpa using c2, ?_⟩
      cases hm : applyMeta st.hdr kind cand rest with
      | error e => rw [hm] at h; dsimp only at h; cases h
      | ok hd => rw [hm] at h; dsimp only at h; exact ⟨hd, rfl, (Except.ok.inj h).symm⟩

/-- metadata for the current family after one of its samples fails -/
theorem stepMeta_late (P : Params) (st : St) (kind cand rest : Str) (hn : st.hdr.name = some cand) (hs : st.grp.samples ≠ []) :
    stepMeta P st kind cand rest = .error .valueError := by
  unfold stepMeta
  have : (st.hdr.name == some cand && !st.grp.samples.isEmpty) = true := by
    rw [hn]
    cases hl : st.grp.samples with
    | nil => exact absurd hl hs
    | cons a b => simp
  rw [if_pos this]

/-- how `stepSample` decomposes when it succeeds -/
theorem stepSample_ok (P : Params) (st st' : St) (s : OSample) (isNh : Bool) (h : stepSample P st s isNh = .ok st') :
    ((!st.hdr.allowed.contains s.name && !isNh) = true ∧ ∃ g hd gr, flush P st.glob st.hdr st.grp.samples = .ok g ∧
        unknownHdr s = .ok hd ∧ sampleChecks P hd {} s isNh = .ok gr ∧ st' = { st with hdr := hd, grp := gr, glob := g })
    ∨ ((!st.hdr.allowed.contains s.name && !isNh) = false ∧ ∃ gr, sampleChecks P st.hdr st.grp s isNh = .ok gr ∧
        st' = { st with grp := gr }) := by
  unfold stepSample at h
  by_cases c1 : (!st.hdr.allowed.contains s.name && !isNh) = true
  · rw [if_pos c1] at h
    left
    refine ⟨c1, ?_⟩
    cases hf : flush P st.glob st.hdr st.grp.samples with
    | error e => rw [hf] at h; dsimp only at h; cases h
    | ok g =>
      rw [hf] at h; dsimp only at h
      cases hu : unknownHdr s with
      | error e => rw [hu] at h; dsimp only at h; cases h
      | ok hd =>
        rw [hu] at h; dsimp only at h
        cases hc : sampleChecks P hd {} s isNh with
        | error e => rw [hc] at h; dsimp only at h; cases h
        | ok gr => rw [hc] at h; dsimp only at h; exact ⟨g, hd, gr, rfl, rfl, hc, (Except.ok.inj h).symm⟩
  · rw [if_neg c1] at h
    right
    refine ⟨by simpa using c1, ?_⟩
    cases hc : sampleChecks P st.hdr st.grp s isNh with
    | error e => rw [hc] at h; dsimp only at h; cases h
    | ok gr => rw [hc] at h; dsimp only at h; exact ⟨gr, rfl, (Except.ok.inj h).symm⟩

/-- how `stepLine` decomposes when it succeeds -/
theorem stepLine_ok (P : Params) (st st' : St) (l : Line) (h : stepLine P st l = .ok st') :
    st.eof = false ∧
    ((l = .eof ∧ st' = { st with eof := true })
     ∨ (∃ kind cand rest, l = .metadata kind cand rest ∧ stepMeta P st kind cand rest = .ok st')
     ∨ (∃ nh plain s isNh, l = .sample nh plain ∧ pickSample st.hdr.typ nh plain = .ok (s, isNh) ∧ stepSample P st s isNh = .ok st')) := by
  unfold stepLine at h
  by_cases c : st.eof = true
  · rw [if_pos c] at h; cases h
  · rw [if_neg c] at h
    refine ⟨by simpa using c, ?_⟩
    cases l with
    | blank => cases h
    | eof => left; exact ⟨rfl, (Except.ok.inj h).symm⟩
    | bad e => cases h
    | metadata kind cand rest => right; left; exact ⟨kind, cand, rest, rfl, h⟩
    | sample nh plain =>
      right; right
      simp only at h
      cases hp : pickSample st.hdr.typ nh plain with
      | error e => rw [hp] at h; dsimp only at h; cases h
      | ok p =>
        obtain ⟨s, isNh⟩ := p
        rw [hp] at h; dsimp only at h
        exact ⟨nh, plain, s, isNh, rfl, hp, h⟩

/-- the picked reading is the native-histogram one, or the plain one -/
theorem pickSample_ok (typ : Option Str) (nh : PyM (Option OSample)) (plain : PyM OSample) (s : OSample) (isNh : Bool)
    (h : pickSample typ nh plain = .ok (s, isNh)) : isNh = true ∨ (isNh = false ∧ plain = .ok s) := by
  unfold pickSample at h
  have hplain : ∀ {x : PyM (OSample × Bool)}, x = plain.map (·, false) → x = .ok (s, isNh) → isNh = false ∧ plain = .ok s := by
    intro x hx hx'
    cases hpl : plain with
    | error e => rw [hpl] at hx; rw [hx] at hx'; cases hx'
    | ok s' =>
      rw [hpl] at hx; rw [hx] at hx'
      simp only [Except.map] at hx'
      obtain ⟨rfl, rfl⟩ := Prod.mk.inj (Except.ok.inj hx')
      exact ⟨rfl, rfl⟩
  by_cases c : (typ == some tHistogram) = true
  · rw [if_pos c] at h
    cases nh with
    | error e => cases h
    | ok o =>
      cases o with
      | some s' => left; simp only at h; exact (Prod.mk.inj (Except.ok.inj h)).2.symm
      | none => right; exact hplain rfl h
  · rw [if_neg c] at h
    right; exact hplain rfl h

/-- after a successful `# TYPE n t` line the header is (n, t, allowed names of t) -/
theorem stepLine_type (P : Params) (st st' : St) (n t : Str) (h : stepLine P st (.metadata kwType n t) = .ok st') :
    HdrIs n t st'.hdr ∧ st'.eof = false := by
  obtain ⟨heof, hc⟩ := stepLine_ok P st st' _ h
  rcases hc with ⟨h0, _⟩ | ⟨kind, cand, rest, hl, hm⟩ | ⟨_, _, _, _, hl, _⟩
  · cases h0
  · cases hl
    rcases stepMeta_ok P st st' _ _ _ hm with ⟨_, g, hd, _, ha, rfl⟩ | ⟨hn, hd, ha, rfl⟩
    · exact ⟨applyMeta_type _ _ n t rfl ha, heof⟩
    · exact ⟨applyMeta_type _ _ n t hn ha, heof⟩
  · cases hl

/-- a line of the family keeps the header -/
theorem stepLine_inFam (P : Params) (st st' : St) (n t : Str) (l : Line) (hh : HdrIs n t st.hdr ∧ st.eof = false)
    (hl : InFamM n t l) (h : stepLine P st l = .ok st') : HdrIs n t st'.hdr ∧ st'.eof = false := by
  obtain ⟨hh, heof⟩ := hh
  obtain ⟨_, hc⟩ := stepLine_ok P st st' _ h
  rcases hc with ⟨h0, _⟩ | ⟨kind, cand, rest, hl', hm⟩ | ⟨nh, plain, s, isNh, hl', hp, hs⟩
  · subst h0; cases hl
  · subst hl'
    simp only [InFamM] at hl
    subst hl
    rcases stepMeta_ok P st st' _ _ _ hm with ⟨hne, _⟩ | ⟨hn, hd, ha, rfl⟩
    · exact absurd hh.1 hne
    · exact ⟨applyMeta_keeps _ _ cand t kind rest hh ha, heof⟩
  · subst hl'
    simp only [InFamM] at hl
    have hno : (!st.hdr.allowed.contains s.name && !isNh) = false := by
      rcases pickSample_ok _ _ _ _ _ hp with hnh | ⟨_, hpl⟩
      · simp [hnh]
      · have := hl s hpl
        rw [hh.2.2, this]; rfl
    rcases stepSample_ok P st st' s isNh hs with ⟨c, _⟩ | ⟨_, gr, _, rfl⟩
    · rw [hno] at c; cases c
    · exact ⟨hh, heof⟩

/-- `# TYPE n t`, lines of the family, then a line that fails whenever the header is (n, t): the document fails -/
theorem block_rule (P : Params) (n t : Str) (mid post : List Line) (bad : Line) (st : St)
    (hmid : ∀ l ∈ mid, InFamM n t l)
    (hbad : ∀ st, HdrIs n t st.hdr → st.eof = false → isError (stepLine P st bad) = true) :
    isError (finishRun P st (.metadata kwType n t :: (mid ++ bad :: post))) = true := by
  rw [finishRun_cons]
  cases h1 : stepLine P st (.metadata kwType n t) with
  | error e => rfl
  | ok st1 =>
    simp only
    have hh := stepLine_type P st st1 n t h1
    rw [finishRun_append]
    cases h2 : run P st1 mid with
    | error e => rfl
    | ok st2 =>
      simp only
      have hh2 := run_invariant P (fun s => HdrIs n t s.hdr ∧ s.eof = false) (InFamM n t)
        (fun s l s' hq hl hs => stepLine_inFam P s s' n t l hq hl hs) mid hmid st1 hh st2 h2
      exact isError_of_bad_line' hh2
where
  isError_of_bad_line' {st2 : St} (hh2 : HdrIs n t st2.hdr ∧ st2.eof = false) :
      isError (finishRun P st2 (bad :: post)) = true := by
    rw [finishRun_cons]
    have := hbad st2 hh2.1 hh2.2
    cases hs : stepLine P st2 bad with
    | error e => rfl
    | ok st' => rw [hs] at this; cases this

/-- the same with two consecutive offending lines, the second failing in the state the first leaves -/
theorem block_rule2 (P : Params) (n t : Str) (mid post : List Line) (l1 l2 : Line) (st : St)
    (hmid : ∀ l ∈ mid, InFamM n t l)
    (hbad : ∀ st st', HdrIs n t st.hdr → st.eof = false → stepLine P st l1 = .ok st' → isError (stepLine P st' l2) = true) :
    isError (finishRun P st (.metadata kwType n t :: (mid ++ l1 :: l2 :: post))) = true := by
  rw [finishRun_cons]
  cases h1 : stepLine P st (.metadata kwType n t) with
  | error e => rfl
  | ok st1 =>
    simp only
    have hh := stepLine_type P st st1 n t h1
    rw [finishRun_append]
    cases h2 : run P st1 mid with
    | error e => rfl
    | ok st2 =>
      simp only
      have hh2 := run_invariant P (fun s => HdrIs n t s.hdr ∧ s.eof = false) (InFamM n t)
        (fun s l s' hq hl hs => stepLine_inFam P s s' n t l hq hl hs) mid hmid st1 hh st2 h2
      rw [finishRun_cons]
      cases h3 : stepLine P st2 l1 with
      | error e => rfl
      | ok st3 =>
        simp only
        rw [finishRun_cons]
        have := hbad st2 st3 hh2.1 hh2.2 h3
        cases hs : stepLine P st3 l2 with
        | error e => rfl
        | ok st' => rw [hs] at this; cases this

/-! ## doom: a header that cannot be flushed -/

/-- `Doomed P h g`: flushing header `h` with globals `g` fails whatever the samples -/
def Doomed (P : Params) (h : Hdr) (g : Glob) : Prop := ∀ samples, isError (flush P g h samples) = true

/-- if a doomed header stays doomed under its own metadata lines, every continuation of the document fails -/
theorem doom (P : Params) (D : Hdr → Glob → Prop)
    (hflush : ∀ h g, D h g → Doomed P h g)
    (hmeta : ∀ h g h' kind c rest, D h g → h.name = some c → applyMeta h kind c rest = .ok h' → D h' g)
    (ls : List Line) (st : St) (hd : D st.hdr st.glob) : isError (finishRun P st ls) = true := by
  induction ls generalizing st with
  | nil =>
    rw [finishRun_nil]
    unfold finish
    have := hflush _ _ hd st.grp.samples
    cases hf : flush P st.glob st.hdr st.grp.samples with
    | error e => rfl
    | ok g => rw [hf] at this; cases this
  | cons l ls ih =>
    rw [finishRun_cons]
    cases hs : stepLine P st l with
    | error e => rfl
    | ok st' =>
      simp only
      apply ih
      have hfl := hflush _ _ hd st.grp.samples
      obtain ⟨_, hc⟩ := stepLine_ok P st st' _ hs
      rcases hc with ⟨_, rfl⟩ | ⟨kind, cand, rest, _, hm⟩ | ⟨nh, plain, s, isNh, _, _, hss⟩
      · exact hd
      · rcases stepMeta_ok P st st' _ _ _ hm with ⟨_, g, _, hf, _, _⟩ | ⟨hn, hd', ha, rfl⟩
        · rw [hf] at hfl; cases hfl
        · exact hmeta _ _ _ kind cand rest hd hn ha
      · rcases stepSample_ok P st st' s isNh hss with ⟨_, g, _, _, hf, _, _, _⟩ | ⟨_, gr, _, rfl⟩
        · rw [hf] at hfl; cases hfl
        · exact hd

end PromVerif.Lemmas.OM
