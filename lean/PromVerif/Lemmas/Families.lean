/-
Lemmas about `Model/Families.lean` and the bridge to the registry model: a list of family objects built through the
`*MetricFamily` constructors seen as what a collector's `collect()` returns.
-/
import PromVerif.Model.Families
import PromVerif.Lemmas.RegistryMetrics

namespace PromVerif.Model.Families
open PromVerif.Py
open PromVerif.Model.Registry (Name MType dSet dHas)
open PromVerif.Generated.Families

variable {α : Type}

/-! ### the literals of every class against the registry's claim table (pure computation on extracted data) -/

/-- every suffix `add_metric` of the class uses is empty or in `type_suffixes[<type of the class>]` -/
def clsOk (cls : Cls) : Bool :=
  match resolveType cls.typeLit with
  | none => true
  | some t => cls.suffixes.all fun suf => suf == [] || (Registry.suffixesOf t).contains suf

theorem clsOk_all (cls : Cls) : clsOk cls = true := by cases cls <;> decide

/-- the `MType` each class is expected to have -/
def Cls.mtype : Cls → MType
  | .unknown => .unknown | .counter => .counter | .gauge => .gauge | .summary => .summary
  | .histogram => .histogram | .gaugehistogram => .gaugehistogram | .info => .info | .stateset => .stateset

theorem resolveType_cls (cls : Cls) : resolveType cls.typeLit = some cls.mtype := by cases cls <;> decide

/-! ### per class: the names `add_metric` emits -/

/-- every sample is named `self.name ++ suf` for a suffix of the class -/
def NamesFrom (cls : Cls) (name : Name) (ss : List (Sample α)) : Prop :=
  ∀ s, s ∈ ss → ∃ suf, suf ∈ cls.suffixes ∧ s.name = name ++ suf

theorem unknown_names (self : Fam α) (l : List Name) (v : α) (t : Option α) :
    NamesFrom .unknown self.name (UnknownMetricFamily.addMetric self l v t).1 := by
  intro s hs
  simp only [UnknownMetricFamily.addMetric, List.mem_singleton] at hs
  subst hs
  exact ⟨_, by simp [Cls.suffixes], rfl⟩

theorem counter_names (self : Fam α) (l : List Name) (v : α) (c t e : Option α) :
    NamesFrom .counter self.name (CounterMetricFamily.addMetric self l v c t e).1 := by
  intro s hs
  simp only [CounterMetricFamily.addMetric, List.mem_cons] at hs
  rcases hs with rfl | hs
  · exact ⟨_, by simp [Cls.suffixes], rfl⟩
  · cases c with
    | none => simp at hs
    | some c =>
      simp only [List.mem_singleton] at hs
      subst hs
      exact ⟨_, by simp [Cls.suffixes], rfl⟩

theorem gauge_names (self : Fam α) (l : List Name) (v : α) (t : Option α) :
    NamesFrom .gauge self.name (GaugeMetricFamily.addMetric self l v t).1 := by
  intro s hs
  simp only [GaugeMetricFamily.addMetric, List.mem_singleton] at hs
  subst hs
  exact ⟨_, by simp [Cls.suffixes], rfl⟩

theorem summary_names (self : Fam α) (l : List Name) (c sv : α) (t : Option α) :
    NamesFrom .summary self.name (SummaryMetricFamily.addMetric self l c sv t).1 := by
  intro s hs
  simp only [SummaryMetricFamily.addMetric, List.mem_cons, List.not_mem_nil, or_false] at hs
  rcases hs with rfl | rfl
  · exact ⟨_, by simp [Cls.suffixes], rfl⟩
  · exact ⟨_, by simp [Cls.suffixes], rfl⟩

/-- the samples `HistogramMetricFamily.add_metric` appends: the bucket samples, then possibly `_count` and `_sum` -/
theorem histogram_shape (env : Env) (self : Fam α) (l : List Name) (bs : List (Bucket α)) (sv t : Option α) :
    (HistogramMetricFamily.addMetric env self l bs sv t).1
      = (bs.map fun b => (⟨self.name ++ histogramBucket, mkDict (self.labelnames.zip l ++ [(histogramLe, b.le)]),
            .obj b.value, t, b.exemplar⟩ : Sample α)) ∨
    ∃ bl sv', bs.getLast? = some bl ∧ sv = some sv' ∧ (∃ b0, bs.head? = some b0 ∧ env.floatGe0 b0.le = some true) ∧
      (HistogramMetricFamily.addMetric env self l bs sv t).2 = none ∧
      (HistogramMetricFamily.addMetric env self l bs sv t).1
        = (bs.map fun b => (⟨self.name ++ histogramBucket, mkDict (self.labelnames.zip l ++ [(histogramLe, b.le)]),
            .obj b.value, t, b.exemplar⟩ : Sample α)) ++
          [⟨self.name ++ histogramCount, zipDict self.labelnames l, .obj bl.value, t, none⟩,
           ⟨self.name ++ histogramSum, zipDict self.labelnames l, .obj sv', t, none⟩] := by
  unfold HistogramMetricFamily.addMetric
  cases hh : bs.head? with
  | none => left; rfl
  | some b0 =>
    cases hl : bs.getLast? with
    | none => left; rfl
    | some bl =>
      cases hf : env.floatGe0 b0.le with
      | none => left; simp [hf]
      | some ge =>
        cases ge with
        | false => left; simp [hf]
        | true =>
          cases sv with
          | none => left; simp [hf]
          | some sv' =>
            right
            exact ⟨bl, sv', rfl, rfl, ⟨b0, rfl, hf⟩, by simp [hf], by simp [hf]⟩

theorem histogram_names (env : Env) (self : Fam α) (l : List Name) (bs : List (Bucket α)) (sv t : Option α) :
    NamesFrom .histogram self.name (HistogramMetricFamily.addMetric env self l bs sv t).1 := by
  intro s hs
  rcases histogram_shape env self l bs sv t with h | ⟨bl, sv', _, _, _, _, h⟩
  · rw [h] at hs
    obtain ⟨b, _, rfl⟩ := List.mem_map.1 hs
    exact ⟨_, by simp [Cls.suffixes], rfl⟩
  · rw [h] at hs
    simp only [List.mem_append, List.mem_map, List.mem_cons, List.not_mem_nil, or_false] at hs
    rcases hs with ⟨b, _, rfl⟩ | rfl | rfl
    · exact ⟨_, by simp [Cls.suffixes], rfl⟩
    · exact ⟨_, by simp [Cls.suffixes], rfl⟩
    · exact ⟨_, by simp [Cls.suffixes], rfl⟩

theorem gaugehistogram_names (self : Fam α) (l : List Name) (bs : List (Name × α)) (sv t : Option α) :
    NamesFrom .gaugehistogram self.name (GaugeHistogramMetricFamily.addMetric self l bs sv t).1 := by
  intro s hs
  unfold GaugeHistogramMetricFamily.addMetric at hs
  cases hl : bs.getLast? with
  | none =>
    simp only [hl] at hs
    obtain ⟨b, _, rfl⟩ := List.mem_map.1 hs
    exact ⟨_, by simp [Cls.suffixes], rfl⟩
  | some bl =>
    simp only [hl, List.mem_append, List.mem_map, List.mem_cons, List.not_mem_nil, or_false] at hs
    rcases hs with ⟨b, _, rfl⟩ | rfl | rfl
    · exact ⟨_, by simp [Cls.suffixes], rfl⟩
    · exact ⟨_, by simp [Cls.suffixes], rfl⟩
    · exact ⟨_, by simp [Cls.suffixes], rfl⟩

theorem info_names (self : Fam α) (l : List Name) (v : List (Name × Name)) (t : Option α) :
    NamesFrom .info self.name (InfoMetricFamily.addMetric self l v t).1 := by
  intro s hs
  simp only [InfoMetricFamily.addMetric, List.mem_singleton] at hs
  subst hs
  exact ⟨_, by simp [Cls.suffixes], rfl⟩

theorem stateset_names (self : Fam α) (l : List Name) (v : List (Name × Bool)) (t : Option α) :
    NamesFrom .stateset self.name (StateSetMetricFamily.addMetric self l v t).1 := by
  intro s hs
  simp only [StateSetMetricFamily.addMetric] at hs
  obtain ⟨st, _, rfl⟩ := List.mem_map.1 hs
  exact ⟨_, by simp [Cls.suffixes], rfl⟩

theorem namesFrom_nil (cls : Cls) (name : Name) : NamesFrom cls name ([] : List (Sample α)) := by
  intro s hs; simp at hs

/-- whatever the class and the arguments, an `add_metric` call appends only samples named after the family -/
theorem newSamples_names (env : Env) (self : Fam α) (c : AddCall α) :
    NamesFrom self.cls self.name (newSamples env self c).1 := by
  cases c with
  | unknown l v t =>
    simp only [newSamples]; split
    · next h => rw [h]; exact unknown_names _ _ _ _
    · exact namesFrom_nil _ _
  | counter l v c t e =>
    simp only [newSamples]; split
    · next h => rw [h]; exact counter_names _ _ _ _ _ _
    · exact namesFrom_nil _ _
  | gauge l v t =>
    simp only [newSamples]; split
    · next h => rw [h]; exact gauge_names _ _ _ _
    · exact namesFrom_nil _ _
  | summary l c s t =>
    simp only [newSamples]; split
    · next h => rw [h]; exact summary_names _ _ _ _ _
    · exact namesFrom_nil _ _
  | histogram l b s t =>
    simp only [newSamples]; split
    · next h => rw [h]; exact histogram_names _ _ _ _ _ _
    · exact namesFrom_nil _ _
  | gaugehistogram l b s t =>
    simp only [newSamples]; split
    · next h => rw [h]; exact gaugehistogram_names _ _ _ _ _
    · exact namesFrom_nil _ _
  | info l v t =>
    simp only [newSamples]; split
    · next h => rw [h]; exact info_names _ _ _ _
    · exact namesFrom_nil _ _
  | stateset l v t =>
    simp only [newSamples]; split
    · next h => rw [h]; exact stateset_names _ _ _ _
    · exact namesFrom_nil _ _

/-! ### the invariant of a family object -/

/-- the type is the one of the class, every sample is named after the family with a suffix of the class -/
structure WF (f : Fam α) : Prop where
  typ : resolveType f.cls.typeLit = some f.typ
  names : NamesFrom f.cls f.name f.samples

theorem extend_samples (f : Fam α) (r : List (Sample α) × Option PyErr) :
    (f.extend r).1.samples = f.samples ++ r.1 ∧ (f.extend r).1.name = f.name ∧ (f.extend r).1.cls = f.cls ∧
    (f.extend r).1.typ = f.typ ∧ (f.extend r).1.labelnames = f.labelnames ∧ (f.extend r).1.unit = f.unit ∧
    (f.extend r).1.documentation = f.documentation :=
  ⟨rfl, rfl, rfl, rfl, rfl, rfl, rfl⟩

theorem addMetric_wf (env : Env) {f : Fam α} (h : WF f) (c : AddCall α) : WF (addMetric env f c).1 := by
  refine ⟨h.typ, ?_⟩
  intro s hs
  have : s ∈ f.samples ++ (newSamples env f c).1 := hs
  rcases List.mem_append.1 this with h1 | h1
  · exact h.names s h1
  · exact newSamples_names env f c s h1

theorem runAdds_wf (env : Env) (cs : List (AddCall α)) : ∀ {f : Fam α}, WF f → WF (runAdds env f cs).1 := by
  induction cs with
  | nil => intro f h; exact h
  | cons c cs ih => intro f h; exact ih (addMetric_wf env h c)

/-- `add_metric` never touches the samples already there, nor the name, type, help, unit or label names -/
theorem runAdds_prefix (env : Env) (cs : List (AddCall α)) : ∀ f : Fam α,
    (∃ new, (runAdds env f cs).1.samples = f.samples ++ new) ∧ (runAdds env f cs).1.name = f.name ∧
    (runAdds env f cs).1.typ = f.typ ∧ (runAdds env f cs).1.cls = f.cls ∧
    (runAdds env f cs).1.labelnames = f.labelnames ∧ (runAdds env f cs).1.unit = f.unit ∧
    (runAdds env f cs).1.documentation = f.documentation := by
  induction cs with
  | nil => intro f; exact ⟨⟨[], by simp [runAdds]⟩, rfl, rfl, rfl, rfl, rfl, rfl⟩
  | cons c cs ih =>
    intro f
    obtain ⟨⟨new, h1⟩, h2, h3, h4, h5, h6, h7⟩ := ih (addMetric env f c).1
    refine ⟨⟨(newSamples env f c).1 ++ new, ?_⟩, h2, h3, h4, h5, h6, h7⟩
    show (runAdds env (addMetric env f c).1 cs).1.samples = _
    rw [h1]
    show (f.samples ++ (newSamples env f c).1) ++ new = _
    rw [List.append_assoc]

/-! ### constructors -/

theorem metricInit_ok {env : Env} {cls : Cls} {n d typ u : List Char} {f : Fam α}
    (h : Metric.init env cls n d typ u = .ok f) :
    f.cls = cls ∧ resolveType typ = some f.typ ∧ f.samples = [] ∧ f.documentation = d ∧ f.unit = u ∧
    f.name = (if !u.isEmpty && !pyEndsWith n ('_' :: u) then n ++ '_' :: u else n) ∧
    Validation.validateMetricName env.legacy f.name = .ok () := by
  unfold Metric.init at h
  simp only at h
  split at h
  · cases h
  · next hv =>
    split at h
    · cases h
    · next t ht =>
      cases h
      exact ⟨rfl, ht, rfl, rfl, rfl, rfl, hv⟩

theorem familyInit_wf {env : Env} {cls : Cls} {n d u : List Char} {bad : Bool} {labels : Option (List Name)}
    {first : Fam α → Option (List (Sample α) × Option PyErr)} {f : Fam α}
    (h : familyInit env cls n d cls.typeLit u bad labels first = .ok f)
    (hf : ∀ self r, self.cls = cls → first self = some r → NamesFrom cls self.name r.1) : WF f := by
  unfold familyInit at h
  split at h
  · cases h
  · next self hs =>
    obtain ⟨h1, h2, h3, _⟩ := metricInit_ok hs
    split at h
    · cases h
    · simp only at h
      split at h
      · cases h
        exact ⟨by rw [show ({ self with labelnames := labels.getD [] } : Fam α).cls = cls from h1]; exact h2,
               by intro s hs'; rw [show ({ self with labelnames := labels.getD [] } : Fam α).samples = [] from h3] at hs';
                  simp at hs'⟩
      · next r hr =>
        split at h
        · cases h
        · cases h
          refine ⟨by rw [show (Fam.extend { self with labelnames := labels.getD [] } r).1.cls = cls from h1]; exact h2, ?_⟩
          intro s hs'
          have hs2 : s ∈ self.samples ++ r.1 := hs'
          rw [h3, List.nil_append] at hs2
          have := hf { self with labelnames := labels.getD [] } r h1 hr s hs2
          rw [show (Fam.extend { self with labelnames := labels.getD [] } r).1.cls = cls from h1]
          exact this

/-- every constructor that returns, returns a well-formed family -/
theorem ctor_wf {env : Env} {ctor : Ctor α} {f : Fam α} (h : ctor.run env = .ok f) : WF f := by
  cases ctor with
  | unknown n d v l u =>
    simp only [Ctor.run, UnknownMetricFamily.init] at h
    refine familyInit_wf (cls := .unknown) h ?_
    intro self r _ hr
    cases v with
    | none => simp at hr
    | some v => simp only [Option.map_some, Option.some.injEq] at hr; subst hr; exact unknown_names _ _ _ _
  | counter n d v l c u e =>
    simp only [Ctor.run, CounterMetricFamily.init] at h
    refine familyInit_wf (cls := .counter) h ?_
    intro self r _ hr
    cases v with
    | none => simp at hr
    | some v => simp only [Option.map_some, Option.some.injEq] at hr; subst hr; exact counter_names _ _ _ _ _ _
  | gauge n d v l u =>
    simp only [Ctor.run, GaugeMetricFamily.init] at h
    refine familyInit_wf (cls := .gauge) h ?_
    intro self r _ hr
    cases v with
    | none => simp at hr
    | some v => simp only [Option.map_some, Option.some.injEq] at hr; subst hr; exact gauge_names _ _ _ _
  | summary n d c s l u =>
    simp only [Ctor.run, SummaryMetricFamily.init] at h
    refine familyInit_wf (cls := .summary) h ?_
    intro self r _ hr
    cases c with
    | none => simp at hr
    | some c =>
      cases s with
      | none => simp at hr
      | some s => simp only [Option.some.injEq] at hr; subst hr; exact summary_names _ _ _ _ _
  | histogram n d b s l u =>
    simp only [Ctor.run, HistogramMetricFamily.init] at h
    refine familyInit_wf (cls := .histogram) h ?_
    intro self r _ hr
    cases b with
    | none => simp at hr
    | some b => simp only [Option.map_some, Option.some.injEq] at hr; subst hr; exact histogram_names _ _ _ _ _ _
  | gaugehistogram n d b s l u =>
    simp only [Ctor.run, GaugeHistogramMetricFamily.init] at h
    refine familyInit_wf (cls := .gaugehistogram) h ?_
    intro self r _ hr
    cases b with
    | none => simp at hr
    | some b => simp only [Option.map_some, Option.some.injEq] at hr; subst hr; exact gaugehistogram_names _ _ _ _ _
  | info n d v l =>
    simp only [Ctor.run, InfoMetricFamily.init] at h
    refine familyInit_wf (cls := .info) h ?_
    intro self r _ hr
    cases v with
    | none => simp at hr
    | some v => simp only [Option.map_some, Option.some.injEq] at hr; subst hr; exact info_names _ _ _ _
  | stateset n d v l =>
    simp only [Ctor.run, StateSetMetricFamily.init] at h
    refine familyInit_wf (cls := .stateset) h ?_
    intro self r _ hr
    cases v with
    | none => simp at hr
    | some v => simp only [Option.map_some, Option.some.injEq] at hr; subst hr; exact stateset_names _ _ _ _

theorem built_wf {env : Env} {f : Fam α} (h : Built env f) : WF f := by
  obtain ⟨ctor, f0, adds, h0, rfl⟩ := h
  exact runAdds_wf env adds (ctor_wf h0)

/-! ### well-formed families emit only claimed names -/

/-- every sample name of a well-formed family is among `[name + suffix for suffix in [''] + type_suffixes[type]]` -/
theorem wf_claimed {f : Fam α} (h : WF f) (s : Sample α) (hs : s ∈ f.samples) :
    s.name ∈ Registry.familyNames (f.name, f.typ) := by
  obtain ⟨suf, hsuf, hn⟩ := h.names s hs
  have hc := clsOk_all f.cls
  unfold clsOk at hc
  rw [h.typ] at hc
  simp only [List.all_eq_true, Bool.or_eq_true, beq_iff_eq, List.contains_iff_mem] at hc
  rw [hn]
  simp only [Registry.familyNames, List.map_cons, List.mem_cons, List.mem_map]
  rcases hc suf hsuf with rfl | h2
  · left; simp
  · right; exact ⟨suf, h2, rfl⟩

/-! ### the bridge to the registry model -/

/-- a family object as the registry sees it (payloads opaque, numbered) -/
def toFamily (f : Fam α) : Registry.Family :=
  { name := f.name, typ := f.typ, help := f.documentation, unit := f.unit
    samples := f.samples.zipIdx.map fun si => ⟨si.1.name, .idx si.2⟩ }

theorem toFamily_sample {f : Fam α} {smp : Registry.Sample} (h : smp ∈ (toFamily f).samples) :
    ∃ s, s ∈ f.samples ∧ smp.name = s.name := by
  simp only [toFamily, List.mem_map] at h
  obtain ⟨⟨s, i⟩, hsi, rfl⟩ := h
  have := List.mem_zipIdx hsi
  exact ⟨s, by rw [this.2.2]; exact List.getElem_mem _, rfl⟩

/-- a collector whose `collect()` returns well-formed families and whose claims are computed from them (auto-describe)
or from a `describe()` listing at least the same (name, type) pairs, is covered -/
theorem wf_families_covered (ad : Bool) (c : Registry.Collector) (fams : List (Fam α))
    (hw : ∀ f, f ∈ fams → WF f) (hc : c.families = fams.map toFamily)
    (hd : (c.describe = none ∧ ad = true) ∨
          (∃ d, c.describe = some d ∧ ∀ f, f ∈ fams → (f.name, f.typ) ∈ d)) :
    Registry.SamplesCovered ad c := by
  intro rf hrf smp hs
  rw [hc] at hrf
  obtain ⟨f, hf, rfl⟩ := List.mem_map.1 hrf
  obtain ⟨s, hs1, hs2⟩ := toFamily_sample hs
  have hcl := wf_claimed (hw f hf) s hs1
  rw [Registry.familyNames_eq] at hcl
  rw [Registry.mem_getNames_iff, hs2]
  unfold PromVerif.Spec.Registry.claims Registry.described
  rcases hd with ⟨hn, rfl⟩ | ⟨d, hdd, hall⟩
  · simp only [hn, if_true, List.mem_flatMap]
    refine ⟨(f.name, f.typ), ?_, hcl⟩
    rw [hc]
    simp only [List.map_map, List.mem_map]
    exact ⟨f, hf, rfl⟩
  · simp only [hdd, List.mem_flatMap]
    exact ⟨(f.name, f.typ), hall f hf, hcl⟩

/-! ### dict facts -/

theorem dHas_iff_mem_keys (k : Name) (d : List (Name × Name)) : dHas k d = true ↔ k ∈ d.map Prod.fst := by
  simp [dHas, List.any_eq_true]

theorem foldl_dSet_nodup (ps : List (Name × Name)) : ∀ acc : List (Name × Name),
    ((acc ++ ps).map Prod.fst).Nodup → ps.foldl (fun d p => dSet p.1 p.2 d) acc = acc ++ ps := by
  induction ps with
  | nil => intro acc _; simp
  | cons p ps ih =>
    intro acc h
    simp only [List.foldl_cons]
    have hnot : dHas p.1 acc = false := by
      cases hh : dHas p.1 acc with
      | false => rfl
      | true =>
        exfalso
        rw [dHas_iff_mem_keys] at hh
        simp only [List.map_append, List.map_cons] at h
        rw [List.nodup_append] at h
        exact h.2.2 _ hh _ (List.mem_cons_self) rfl
    have hset : dSet p.1 p.2 acc = acc ++ [p] := by simp [dSet, hnot]
    rw [hset, ih]
    · simp
    · simpa using h

/-- `dict(pairs)` of pairs with distinct keys is the pairs, in order -/
theorem mkDict_of_nodup (ps : List (Name × Name)) (h : (ps.map Prod.fst).Nodup) : mkDict ps = ps := by
  have := foldl_dSet_nodup ps [] (by simpa using h)
  simpa [mkDict] using this

/-! ### `sorted(value.items())` is a rearrangement -/

theorem mem_insertItem (x y : Name × Bool) (l : List (Name × Bool)) : y ∈ insertItem x l ↔ y = x ∨ y ∈ l := by
  induction l with
  | nil => simp [insertItem]
  | cons z zs ih =>
    simp only [insertItem]
    split
    · simp
    · simp only [List.mem_cons, ih]
      constructor
      · rintro (h | h | h)
        · exact Or.inr (Or.inl h)
        · exact Or.inl h
        · exact Or.inr (Or.inr h)
      · rintro (h | h | h)
        · exact Or.inr (Or.inl h)
        · exact Or.inl h
        · exact Or.inr (Or.inr h)

theorem mem_sortedItems (y : Name × Bool) (l : List (Name × Bool)) : y ∈ sortedItems l ↔ y ∈ l := by
  induction l with
  | nil => simp [sortedItems]
  | cons z zs ih =>
    have : sortedItems (z :: zs) = insertItem z (sortedItems zs) := rfl
    rw [this, mem_insertItem, ih]
    simp

/-! ### labels -/

/-- the `labels` argument of an `add_metric` call -/
def AddCall.labels : AddCall α → List Name
  | .unknown l _ _ => l | .counter l _ _ _ _ => l | .gauge l _ _ => l | .summary l _ _ _ => l
  | .histogram l _ _ _ => l | .gaugehistogram l _ _ _ => l | .info l _ _ => l | .stateset l _ _ => l

/-- what a sample of the call may carry after the zipped labels: nothing; `le` = a bucket bound (the two histogram
classes); the whole `value` dict (info); `<family name>` = a state (state set) -/
def extraLabelChoices (f : Fam α) : AddCall α → List (List (Name × Name))
  | .histogram _ bs _ _ => [] :: bs.map fun b => [(histogramLe, b.le)]
  | .gaugehistogram _ bs _ _ => [] :: bs.map fun b => [(gaugehistogramLe, b.1)]
  | .info _ v _ => [v]
  | .stateset _ v _ => v.map fun st => [(f.name, st.1)]
  | _ => [[]]

def AddCall.isStateset : AddCall α → Bool
  | .stateset _ _ _ => true
  | _ => false

theorem newSamples_labels (env : Env) (f : Fam α) (c : AddCall α)
    (hlen : c.isStateset = true → c.labels.length = f.labelnames.length) (s : Sample α)
    (hs : s ∈ (newSamples env f c).1) :
    ∃ extra, extra ∈ extraLabelChoices f c ∧ s.labels = mkDict (f.labelnames.zip c.labels ++ extra) := by
  cases c with
  | unknown l v t =>
    simp only [newSamples] at hs; split at hs
    · simp only [UnknownMetricFamily.addMetric, List.mem_singleton] at hs; subst hs
      exact ⟨[], by simp [extraLabelChoices], by simp [zipDict, AddCall.labels]⟩
    · simp at hs
  | counter l v c t e =>
    simp only [newSamples] at hs; split at hs
    · simp only [CounterMetricFamily.addMetric, List.mem_cons] at hs
      rcases hs with rfl | hs
      · exact ⟨[], by simp [extraLabelChoices], by simp [zipDict, AddCall.labels]⟩
      · cases c with
        | none => simp at hs
        | some c =>
          simp only [List.mem_singleton] at hs; subst hs
          exact ⟨[], by simp [extraLabelChoices], by simp [zipDict, AddCall.labels]⟩
    · simp at hs
  | gauge l v t =>
    simp only [newSamples] at hs; split at hs
    · simp only [GaugeMetricFamily.addMetric, List.mem_singleton] at hs; subst hs
      exact ⟨[], by simp [extraLabelChoices], by simp [zipDict, AddCall.labels]⟩
    · simp at hs
  | summary l c sv t =>
    simp only [newSamples] at hs; split at hs
    · simp only [SummaryMetricFamily.addMetric, List.mem_cons, List.not_mem_nil, or_false] at hs
      rcases hs with rfl | rfl
      · exact ⟨[], by simp [extraLabelChoices], by simp [zipDict, AddCall.labels]⟩
      · exact ⟨[], by simp [extraLabelChoices], by simp [zipDict, AddCall.labels]⟩
    · simp at hs
  | histogram l bs sv t =>
    simp only [newSamples] at hs; split at hs
    · rcases histogram_shape env f l bs sv t with h | ⟨bl, sv', _, _, _, _, h⟩
      · rw [h] at hs
        obtain ⟨b, hb, rfl⟩ := List.mem_map.1 hs
        exact ⟨[(histogramLe, b.le)], by simp only [extraLabelChoices, List.mem_cons, List.mem_map]; exact Or.inr ⟨b, hb, rfl⟩,
          by simp [AddCall.labels]⟩
      · rw [h] at hs
        simp only [List.mem_append, List.mem_map, List.mem_cons, List.not_mem_nil, or_false] at hs
        rcases hs with ⟨b, hb, rfl⟩ | rfl | rfl
        · exact ⟨[(histogramLe, b.le)], by simp only [extraLabelChoices, List.mem_cons, List.mem_map]; exact Or.inr ⟨b, hb, rfl⟩,
            by simp [AddCall.labels]⟩
        · exact ⟨[], by simp [extraLabelChoices], by simp [zipDict, AddCall.labels]⟩
        · exact ⟨[], by simp [extraLabelChoices], by simp [zipDict, AddCall.labels]⟩
    · simp at hs
  | gaugehistogram l bs sv t =>
    simp only [newSamples] at hs; split at hs
    · unfold GaugeHistogramMetricFamily.addMetric at hs
      cases hl : bs.getLast? with
      | none =>
        simp only [hl] at hs
        obtain ⟨b, hb, rfl⟩ := List.mem_map.1 hs
        exact ⟨[(gaugehistogramLe, b.1)], by simp only [extraLabelChoices, List.mem_cons, List.mem_map]; exact Or.inr ⟨b, hb, rfl⟩,
          by simp [AddCall.labels]⟩
      | some bl =>
        simp only [hl, List.mem_append, List.mem_map, List.mem_cons, List.not_mem_nil, or_false] at hs
        rcases hs with ⟨b, hb, rfl⟩ | rfl | rfl
        · exact ⟨[(gaugehistogramLe, b.1)], by simp only [extraLabelChoices, List.mem_cons, List.mem_map]; exact Or.inr ⟨b, hb, rfl⟩,
            by simp [AddCall.labels]⟩
        · exact ⟨[], by simp [extraLabelChoices], by simp [zipDict, AddCall.labels]⟩
        · exact ⟨[], by simp [extraLabelChoices], by simp [zipDict, AddCall.labels]⟩
    · simp at hs
  | info l v t =>
    simp only [newSamples] at hs; split at hs
    · simp only [InfoMetricFamily.addMetric, List.mem_singleton] at hs; subst hs
      exact ⟨v, by simp [extraLabelChoices], by simp [AddCall.labels]⟩
    · simp at hs
  | stateset l v t =>
    simp only [newSamples] at hs; split at hs
    · simp only [StateSetMetricFamily.addMetric] at hs
      obtain ⟨st, hst, rfl⟩ := List.mem_map.1 hs
      rw [mem_sortedItems] at hst
      have hl : f.labelnames.length = l.length := (hlen rfl).symm
      refine ⟨[(f.name, st.1)], by simp only [extraLabelChoices, List.mem_map]; exact ⟨st, hst, rfl⟩, ?_⟩
      simp only [AddCall.labels]
      rw [List.zip_append hl]
      rfl
    · simp at hs

/-- the `_count` sample of one `HistogramMetricFamily.add_metric` call -/
theorem histogram_count_sample (env : Env) (f : Fam α) (l : List Name) (bs : List (Bucket α)) (sv t : Option α)
    (s : Sample α) (hs : s ∈ (HistogramMetricFamily.addMetric env f l bs sv t).1)
    (hn : s.name = f.name ++ histogramCount) :
    ∃ bl, bs.getLast? = some bl ∧ s.value = .obj bl.value ∧ s.labels = zipDict f.labelnames l ∧ s.timestamp = t ∧
      s.exemplar = none ∧ sv.isSome = true ∧ ∃ b0, bs.head? = some b0 ∧ env.floatGe0 b0.le = some true := by
  have hbc : histogramBucket ≠ histogramCount := by decide
  have hsc : histogramSum ≠ histogramCount := by decide
  rcases histogram_shape env f l bs sv t with h | ⟨bl, sv', h1, h2, h3, _, h⟩
  · rw [h] at hs
    obtain ⟨b, _, rfl⟩ := List.mem_map.1 hs
    exact absurd (List.append_cancel_left hn) hbc
  · rw [h] at hs
    simp only [List.mem_append, List.mem_map, List.mem_cons, List.not_mem_nil, or_false] at hs
    rcases hs with ⟨b, _, rfl⟩ | rfl | rfl
    · exact absurd (List.append_cancel_left hn) hbc
    · exact ⟨bl, h1, rfl, rfl, rfl, rfl, by simp [h2], h3⟩
    · exact absurd (List.append_cancel_left hn) hsc

end PromVerif.Model.Families
