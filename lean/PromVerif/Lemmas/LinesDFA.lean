/-
C05 lemmas, part 3: the sample-line automaton and the metadata-name scanner of the grammar — structural facts
(LF kills every state; whatever is recognised is LF-free) and how they run over the building blocks the
expositions emit (bare names, quoted names, label lists, number tokens).
-/
import PromVerif.Lemmas.LinesEscape
import PromVerif.Lemmas.LinesSplit
import PromVerif.Lemmas.Str

namespace PromVerif.Lemmas.Lines
open PromVerif.Py PromVerif.Model.Escape PromVerif.Model.Validation
open PromVerif.Generated.Expo PromVerif.Generated.Validation
open PromVerif.Spec.LineGrammar hiding Str

theorem run_append (om : Bool) (st : St) (a b : Str) : run om st (a ++ b) = run om (run om st a) b := by
  simp [run, List.foldl_append]

theorem run_cons (om : Bool) (st : St) (c : Char) (r : Str) : run om st (c :: r) = run om (step om st c) r := rfl

@[simp] theorem run_nil (om : Bool) (st : St) : run om st [] = st := rfl

@[simp] theorem run_dead (om : Bool) (s : Str) : run om .dead s = .dead := by
  induction s with
  | nil => rfl
  | cons c cs ih => simpa [run_cons, step] using ih

-- LF kills the automaton ------------------------------------------------------------------------------------
theorem step_lf (om : Bool) (st : St) : step om st '\n' = .dead := by
  cases om <;> cases st <;> first
    | rfl
    | decide
    | (rename_i k e; cases k <;> cases e <;> decide)
    | (rename_i k; cases k <;> decide)
    | (rename_i a b; cases a <;> cases b <;> decide)
    | (rename_i a; cases a <;> decide)

theorem run_of_mem_lf (om : Bool) (st : St) (s : Str) (h : '\n' ∈ s) : run om st s = .dead := by
  induction s generalizing st with
  | nil => simp at h
  | cons c cs ih =>
    rw [run_cons]
    by_cases hc : c = '\n'
    · subst hc; rw [step_lf]; exact run_dead _ _
    · exact ih _ (by simpa [Ne.symm hc] using h)

theorem sampleLine_noLF (om : Bool) (l : Str) (h : sampleLine om l = true) : '\n' ∉ l := by
  intro hm
  simp [sampleLine, run_of_mem_lf om _ l hm, accepting] at h

-- metadata scanner ------------------------------------------------------------------------------------------
theorem stripPrefix_append (p x : Str) : stripPrefix p (p ++ x) = some x := by
  induction p with
  | nil => rfl
  | cons a p ih => simp [stripPrefix, ih]

theorem stripPrefix_eq (p l r : Str) (h : stripPrefix p l = some r) : l = p ++ r := by
  induction p generalizing l with
  | nil => simp [stripPrefix] at h; simp [h]
  | cons a p ih =>
    cases l with
    | nil => simp [stripPrefix] at h
    | cons b l =>
      simp only [stripPrefix] at h
      split at h
      · next e => subst e; simp [ih l h]
      · simp at h

theorem stripPrefix_hash_none (p l : Str) (c : Char) (h : c ≠ '#') : stripPrefix ('#' :: p) (c :: l) = none := by
  simp [stripPrefix, Ne.symm h]

theorem nameRest_ne_lf (c : Char) (h : nameRest c = true) : c ≠ '\n' := by
  intro e; subst e; revert h; decide

theorem qscan_lf (e : Bool) (r t : Str) (h : qscan e r = some t) (hm : '\n' ∈ r) : '\n' ∈ t := by
  induction r generalizing e with
  | nil => simp at hm
  | cons c cs ih =>
    unfold qscan at h
    cases e with
    | true =>
      simp only [if_true] at h
      split at h
      · next hc =>
        have : c ≠ '\n' := by rcases hc with rfl | rfl | rfl <;> decide
        exact ih _ h (by simpa [Ne.symm this] using hm)
      · simp at h
    | false =>
      simp only [Bool.false_eq_true, if_false] at h
      split at h
      · next hc => subst hc; exact ih _ h (by simpa using hm)
      split at h
      · next hc => subst hc; simp at h; subst h; simpa using hm
      split at h
      · simp at h
      · next h1 h2 h3 => exact ih _ h (by simpa [Ne.symm h3] using hm)

theorem bareTail_lf (r t : Str) (h : bareTail r = some t) (hm : '\n' ∈ r) : '\n' ∈ t := by
  induction r with
  | nil => simp at hm
  | cons c cs ih =>
    unfold bareTail at h
    split at h
    · next hc => exact ih h (by simpa [Ne.symm (nameRest_ne_lf c hc)] using hm)
    split at h
    · next _ hc => subst hc; simp at h; subst h; simpa using hm
    · simp at h

theorem metaName_lf (r t : Str) (h : metaName r = some t) (hm : '\n' ∈ r) : '\n' ∈ t := by
  cases r with
  | nil => simp at hm
  | cons c cs =>
    simp only [metaName] at h
    by_cases hc : nameFirst c = true
    · simp only [hc, if_true] at h
      have : c ≠ '\n' := by intro e; subst e; revert hc; decide
      exact bareTail_lf cs t h (by simpa [Ne.symm this] using hm)
    · simp only [hc, Bool.false_eq_true, if_false] at h
      by_cases hq : c = '"'
      · subst hq
        have hm' : '\n' ∈ cs := by simpa using hm
        simp only [if_true] at h
        cases hs : qscan false cs with
        | none => simp [hs] at h
        | some r' =>
          have hr' := qscan_lf false cs r' hs hm'
          cases r' with
          | nil => simp at hr'
          | cons d r'' =>
            by_cases hd : d = ' '
            · subst hd; simp [hs] at h; subst h; simpa using hr'
            · simp [hs, hd] at h
      · simp [hq] at h

theorem hscan_lf (e : Bool) (t : Str) (h : hscan e t = true) : '\n' ∉ t := by
  induction t generalizing e with
  | nil => simp
  | cons c cs ih =>
    unfold hscan at h
    intro hm
    cases e with
    | true =>
      simp only [if_true] at h
      split at h
      · next hc =>
        have : c ≠ '\n' := by rcases hc with rfl | rfl <;> decide
        exact ih _ h (by simpa [Ne.symm this] using hm)
      · simp at h
    | false =>
      simp only [Bool.false_eq_true, if_false] at h
      split at h
      · next hc => subst hc; exact ih _ h (by simpa using hm)
      split at h
      · simp at h
      · next h1 h2 => exact ih _ h (by simpa [Ne.symm h2] using hm)

theorem helpText_lf (om : Bool) (t : Str) (h : helpText om t = true) : '\n' ∉ t := by
  unfold helpText at h
  cases om
  · simp only [Bool.false_eq_true, if_false] at h; exact hscan_lf false t h
  · simp only [if_true, beq_iff_eq] at h
    intro hm
    have := qscan_lf false (t ++ ['"']) [] h (by simp [hm])
    simp at this

theorem lit_noLF_help : '\n' ∉ "# HELP ".toList := by decide
theorem lit_noLF_type : '\n' ∉ "# TYPE ".toList := by decide
theorem lit_noLF_unit : '\n' ∉ "# UNIT ".toList := by decide

theorem mem_of_stripPrefix (p l r : Str) (hp : stripPrefix p l = some r) (hlit : '\n' ∉ p) (hm : '\n' ∈ l) :
    '\n' ∈ r := by
  rw [stripPrefix_eq _ _ _ hp] at hm
  rcases List.mem_append.mp hm with h1 | h1
  · exact absurd h1 hlit
  · exact h1

/-- whatever the grammar recognises as a line contains no LF -/
theorem classify_noLF (om : Bool) (l : Str) (k : Kind) (h : classify om l = some k) : '\n' ∉ l := by
  intro hm
  unfold classify at h
  cases h1 : stripPrefix "# HELP ".toList l with
  | some r =>
    have hr := mem_of_stripPrefix _ _ _ h1 lit_noLF_help hm
    simp only [h1] at h
    cases h2 : metaName r with
    | none => simp [h2] at h
    | some t =>
      have hlf := metaName_lf r t h2 hr
      by_cases hh : helpText om t = true
      · exact helpText_lf om t hh hlf
      · simp [h2, hh] at h
  | none =>
    simp only [h1] at h
    cases h2 : stripPrefix "# TYPE ".toList l with
    | some r =>
      have hr := mem_of_stripPrefix _ _ _ h2 lit_noLF_type hm
      simp only [h2] at h
      cases h3 : metaName r with
      | none => simp [h3] at h
      | some t =>
        have hlf := metaName_lf r t h3 hr
        have h4 : ∀ w ∈ typesText, '\n' ∉ w := by decide
        have h5 : ∀ w ∈ typesOM, '\n' ∉ w := by decide
        cases om
        · simp [h3] at h; exact h4 t h.1 hlf
        · simp [h3] at h; exact h5 t h.1 hlf
    | none =>
      simp only [h2] at h
      cases om
      · simp at h
        exact sampleLine_noLF false l h.1 hm
      · simp only [if_true, Bool.true_and] at h
        cases h3 : stripPrefix "# UNIT ".toList l with
        | some r =>
          have hr := mem_of_stripPrefix _ _ _ h3 lit_noLF_unit hm
          simp only [h3] at h
          cases h4 : metaName r with
          | none => simp [h4] at h
          | some u =>
            have hlf := metaName_lf r u h4 hr
            simp [h4, unitTok] at h
            have := h.1.2 _ hlf
            simp at this
        | none =>
          simp only [h3] at h
          by_cases he : l = "# EOF".toList
          · rw [he] at hm
            revert hm; decide
          · have he' : (l == "# EOF".toList) = false := by simpa using he
            simp only [he', Bool.false_eq_true, if_false] at h
            by_cases hs : sampleLine true l = true
            · exact sampleLine_noLF true l hs hm
            · simp [hs] at h

/-- a line the automaton accepts is classified as a sample line -/
theorem classify_sample (om : Bool) (l : Str) (h : sampleLine om l = true) : classify om l = some .sample := by
  cases l with
  | nil => simp [sampleLine, accepting] at h
  | cons c r =>
    have hc : c ≠ '#' := by
      intro e; subst e
      simp [sampleLine, run_cons, step, accepting] at h
      revert h
      have : nameFirst '#' = false := by decide
      simp [this]
    have h1 : stripPrefix "# HELP ".toList (c :: r) = none := stripPrefix_hash_none _ _ _ hc
    have h2 : stripPrefix "# TYPE ".toList (c :: r) = none := stripPrefix_hash_none _ _ _ hc
    have h3 : stripPrefix "# UNIT ".toList (c :: r) = none := stripPrefix_hash_none _ _ _ hc
    have h4 : ((c :: r) == "# EOF".toList) = false := by
      simp only [beq_eq_false_iff_ne, ne_eq]
      intro e
      have : c = '#' := by
        have := congrArg List.head? e
        simpa using this
      exact hc this
    unfold classify
    simp only [h1, h2, h3, h4, h]
    cases om <;> simp

end PromVerif.Lemmas.Lines
