/-
Writer meets reader: the directory a world history leaves (`DiskOK`) is a listing of well-formed files in the sense of
the collector proofs (`WFInput`), each contribution being one cell of one identity's file.
-/
import PromVerif.Lemmas.MultiprocessCompose
import PromVerif.Lemmas.MultiprocessPresence

namespace PromVerif.Props.C08
open PromVerif.Py PromVerif.Generated.Multiprocess
open PromVerif.Model.Multiprocess PromVerif.Spec.Multiprocess PromVerif.Model.Values
set_option autoImplicit false

variable {V B : Type}

/-- the metric types whose values live in multiprocess files -/
def workerTypes : List Str := ["counter".toList, "gauge".toList, "summary".toList, "histogram".toList]

/-- parameters a metric class passes to its value objects -/
structure GoodParams (q : Params) : Prop where
  typ : q.typ ∈ workerTypes
  mode : q.typ = gaugeType → q.mode ∈ gaugeModes

theorem workerTypes_facts : ∀ t ∈ workerTypes, metricTypes.contains t = true ∧ '_' ∉ t := by decide
theorem gaugeModes_no_sep : ∀ m ∈ gaugeModes, '_' ∉ m := by decide

/-- type, mode and pid as the file name spells them (the reader's view) -/
def parseName (fn : Str) : Str × Str × Str :=
  let parts := splitChar splitSep fn
  let typ := parts.headD []
  if typ = gaugeType then (typ, (parts[1]?).getD [], dropLastN extLen ((parts[2]?).getD []))
  else (typ, [], dropLastN extLen ((parts[1]?).getD []))

def sfileOf (f : Str × Store V) : SFile V := ⟨(parseName f.1).1, (parseName f.1).2.1, (parseName f.1).2.2, f.2⟩

/-- the directory as the spec sees it -/
def sfiles (disk : List (Str × Store V)) : List (SFile V) := disk.map sfileOf

/-- the directory as `glob` lists it for the collector -/
def listing (disk : List (Str × Store V)) : List (MpFile V) := disk.map (fun f => ⟨f.1, f.2⟩)

theorem fileName_baseName (q : Params) (pid : Str) : fileName (filePrefix q) pid = baseName q.typ q.mode pid := rfl

theorem parseName_fileName (q : Params) (hq : GoodParams q) (pid : Str) (hp : '_' ∉ pid) :
    parseName (fileName (filePrefix q) pid) = (q.typ, if q.typ = gaugeType then q.mode else [], pid) := by
  rw [fileName_baseName]
  unfold parseName
  by_cases hg : q.typ = gaugeType
  · rw [hg, split_gauge q.mode pid (gaugeModes_no_sep _ (hq.mode hg)) hp]
    simp [dropLastN_ext]
  · rw [split_other q.typ q.mode pid hg (workerTypes_facts _ hq.typ).2 hp]
    simp [hg, dropLastN_ext]

theorem baseName_mode_irrelevant (typ m m' pid : Str) (h : typ ≠ gaugeType) : baseName typ m pid = baseName typ m' pid := by
  simp [baseName, h]

theorem toFile_sfileOf (PS : List Params) (hPS : ∀ q ∈ PS, GoodParams q) (disk : List (Str × Store V))
    (h : DiskOK PS disk) (f : Str × Store V) (hf : f ∈ disk) : toFile (sfileOf f) = ⟨f.1, f.2⟩ := by
  obtain ⟨q, hq, pid, hp, hn, _⟩ := h.files f hf
  unfold toFile sfileOf
  simp only
  rw [hn, parseName_fileName q (hPS q hq) pid hp]
  simp only
  congr 1
  rw [fileName_baseName]
  by_cases hg : q.typ = gaugeType
  · simp [hg]
  · simp only [hg, if_false]; exact baseName_mode_irrelevant _ _ _ _ hg

theorem listing_eq (PS : List Params) (hPS : ∀ q ∈ PS, GoodParams q) (disk : List (Str × Store V))
    (h : DiskOK PS disk) : listing disk = (sfiles disk).map toFile := by
  unfold listing sfiles
  rw [List.map_map]
  apply List.map_congr_left
  intro f hf
  exact (toFile_sfileOf PS hPS disk h f hf).symm

/-- file prefixes of well-formed parameters determine type and gauge mode -/
theorem filePrefix_inj (q q' : Params) (hq : GoodParams q) (hq' : GoodParams q') (h : filePrefix q' = filePrefix q) :
    q'.typ = q.typ ∧ (q.typ = gaugeType → q'.mode = q.mode) := by
  unfold filePrefix at h
  have hsep : gaugePrefixSep = ['_'] := by decide
  by_cases hg : q.typ = gaugeType
  · by_cases hg' : q'.typ = gaugeType
    · simp only [hg, hg', if_true] at h
      exact ⟨hg'.trans hg.symm, fun _ => List.append_cancel_left h⟩
    · simp only [hg, hg', if_true, if_false, hsep] at h
      have : '_' ∈ q'.typ := by rw [h]; simp
      exact absurd this (workerTypes_facts _ hq'.typ).2
  · by_cases hg' : q'.typ = gaugeType
    · simp only [hg, hg', if_true, if_false, hsep] at h
      have : '_' ∈ q.typ := by rw [← h]; simp
      exact absurd this (workerTypes_facts _ hq.typ).2
    · simp only [hg, hg', if_false] at h
      exact ⟨h, fun e => absurd e hg⟩

/-- **every contribution the collector reads is one cell of one identity's file** -/
theorem contrib_char (PS : List Params) (hPS : ∀ q ∈ PS, GoodParams q) (disk : List (Str × Store V))
    (h : DiskOK PS disk) (c : Contrib V) (hc : c ∈ allContribs (sfiles disk)) :
    ∃ q ∈ PS, c.typ = q.typ ∧ (c.typ = gaugeType → c.mode = q.mode) ∧ c.key = mmapKey q ∧ '_' ∉ c.pid ∧
      cellGet disk (fileName (filePrefix q) c.pid) c.key = some (c.value, c.ts) := by
  unfold allContribs sfiles at hc
  obtain ⟨sf, hsf, hcs⟩ := List.mem_flatMap.mp hc
  obtain ⟨f, hf, rfl⟩ := List.mem_map.mp hsf
  unfold contribsOf at hcs
  obtain ⟨e, he, rfl⟩ := List.mem_map.mp hcs
  obtain ⟨q, hq, pid, hp, hn, hs⟩ := h.files f hf
  obtain ⟨q', hq', hk, hpre⟩ := hs.2 e he
  have hinj := filePrefix_inj q q' (hPS q hq) (hPS q' hq') hpre
  have hparse := parseName_fileName q (hPS q hq) pid hp
  refine ⟨q', hq', ?_, ?_, hk, ?_, ?_⟩
  · simp only [sfileOf, hn, hparse]; exact hinj.1.symm
  · simp only [sfileOf, hn, hparse]
    intro hg
    rw [if_pos hg]; exact (hinj.2 hg).symm
  · simp only [sfileOf, hn, hparse]; exact hp
  · simp only [sfileOf, hn, hparse]
    rw [hpre, ← hn]
    unfold cellGet
    have hd := AL.get?_of_mem disk h.names f.1 f.2 hf
    rw [AL.getD_eq, hd, Option.getD_some]
    exact AL.get?_of_mem f.2 hs.1 e.1 e.2 he

/-- conversely, every existing entry of a well-formed file is a contribution the collector reads -/
theorem contrib_of_cell (PS : List Params) (hPS : ∀ q ∈ PS, GoodParams q) (disk : List (Str × Store V))
    (h : DiskOK PS disk) (q : Params) (hq : q ∈ PS) (p : Str) (hp : '_' ∉ p)
    (hs : has disk (fileName (filePrefix q) p) (mmapKey q) = true) :
    ∃ c ∈ allContribs (sfiles disk), c.key = mmapKey q ∧ c.pid = p ∧ c.typ = q.typ ∧ (q.typ = gaugeType → c.mode = q.mode) := by
  unfold has cellGet at hs
  cases hg : AL.get? disk (fileName (filePrefix q) p) with
  | none => rw [AL.getD_eq, hg] at hs; simp at hs
  | some store =>
    rw [AL.getD_eq, hg, Option.getD_some] at hs
    obtain ⟨vt, hvt⟩ := Option.isSome_iff_exists.mp hs
    have hf := AL.mem_of_get? _ _ _ hg
    have he := AL.mem_of_get? _ _ _ hvt
    have hparse := parseName_fileName q (hPS q hq) p hp
    refine ⟨⟨q.typ, if q.typ = gaugeType then q.mode else [], p, mmapKey q, vt.1, vt.2⟩, ?_, rfl, rfl, rfl, ?_⟩
    · unfold allContribs sfiles
      apply List.mem_flatMap.mpr
      refine ⟨sfileOf (fileName (filePrefix q) p, store), List.mem_map.mpr ⟨_, hf, rfl⟩, ?_⟩
      unfold contribsOf
      apply List.mem_map.mpr
      refine ⟨(mmapKey q, vt), he, ?_⟩
      simp only [sfileOf, hparse]
    · intro hg'; simp [hg']

/-- what the worker side must guarantee about the parameters of the value objects it constructs -/
structure GoodPS (bo : BOps B) (PS : List Params) : Prop where
  good : ∀ q ∈ PS, GoodParams q
  /-- one metric name, one type, one gauge mode -/
  consistent : ∀ q1 ∈ PS, ∀ q2 ∈ PS, q1.metric = q2.metric → q2.typ = q1.typ ∧ (q1.typ = gaugeType → q2.mode = q1.mode)
  /-- no gauge label NAMED `pid` (known finding F24) -/
  no_pid_label : ∀ q ∈ PS, q.typ = gaugeType → ∀ l ∈ (mmapKey q).labels, l.1 ≠ pidLabel
  le_parse : ∀ q ∈ PS, q.typ = histogramType → ∀ l ∈ (mmapKey q).labels, l.1 = leLabel → (bo.parse l.2).isSome = true

theorem wfinput_sfiles (bo : BOps B) (PS : List Params) (hPS : GoodPS bo PS) (disk : List (Str × Store V))
    (h : DiskOK PS disk) : WFInput bo (sfiles disk) := by
  have hch := contrib_char PS hPS.good disk h
  refine ⟨?_, ?_, ?_, ?_, ?_, ?_, ?_⟩
  rotate_right
  · intro c hc
    obtain ⟨q, _, _, _, k1, _, _⟩ := hch c hc
    rw [k1]; exact mmapKey_labels_nodup q
  · intro sf hsf
    obtain ⟨f, hf, rfl⟩ := List.mem_map.mp hsf
    obtain ⟨q, hq, pid, hp, hn, _⟩ := h.files f hf
    have hg := hPS.good q hq
    have hparse := parseName_fileName q hg pid hp
    refine ⟨?_, ?_, ?_, ?_⟩ <;> simp only [sfileOf, hn, hparse]
    · exact (workerTypes_facts _ hg.typ).1
    · exact (workerTypes_facts _ hg.typ).2
    · split
      · next e => exact gaugeModes_no_sep _ (hg.mode e)
      · simp
    · exact hp
  · intro c hc c' hc' hm
    obtain ⟨q, hq, e1, _, k1, _, _⟩ := hch c hc
    obtain ⟨q', hq', e1', _, k1', _, _⟩ := hch c' hc'
    have : q.metric = q'.metric := by
      have := congrArg Key.metric k1; have := congrArg Key.metric k1'; simp_all [mmapKey]
    rw [e1, e1']; exact (hPS.consistent q hq q' hq' this).1
  · intro c hc c' hc' hm hg
    obtain ⟨q, hq, e1, e2, k1, _, _⟩ := hch c hc
    obtain ⟨q', hq', e1', e2', k1', _, _⟩ := hch c' hc'
    have hmm : q.metric = q'.metric := by
      have := congrArg Key.metric k1; have := congrArg Key.metric k1'; simp_all [mmapKey]
    have hc := hPS.consistent q hq q' hq' hmm
    have hg' : c'.typ = gaugeType := by rw [e1', hc.1, ← e1]; exact hg
    rw [e2 hg, e2' hg']; exact hc.2 (e1 ▸ hg)
  · intro c hc hg
    obtain ⟨q, hq, e1, e2, _, _, _⟩ := hch c hc
    rw [e2 hg]; exact (hPS.good q hq).mode (e1 ▸ hg)
  · intro c hc hg l hl
    obtain ⟨q, hq, e1, _, k1, _, _⟩ := hch c hc
    rw [k1] at hl
    exact hPS.no_pid_label q hq (e1 ▸ hg) l hl
  · intro c hc hh t ht
    obtain ⟨q, hq, e1, _, k1, _, _⟩ := hch c hc
    unfold leText at ht
    cases hf : c.key.labels.find? (fun l => l.1 = "le".toList) with
    | none => rw [hf] at ht; cases ht
    | some l =>
      rw [hf] at ht
      simp only [Option.map_some, Option.some.injEq] at ht
      have hmem := List.mem_of_find?_eq_some hf
      have hp := List.find?_some hf
      rw [k1] at hmem
      rw [← ht]
      exact hPS.le_parse q hq (e1 ▸ hh) l hmem (by simpa [leLabel_eq] using hp)

end PromVerif.Props.C08
