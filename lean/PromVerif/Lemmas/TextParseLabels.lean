/-
The label block: `parse_labels` applied to what `sample_line` renders for a label dict gives the dict back
(sorted by key), for every label value, bare or quoted label names and any number of labels.
-/
import PromVerif.Lemmas.TextParseBase
import PromVerif.Model.TextExpo

namespace PromVerif.Lemmas.TextParse
open PromVerif.Py PromVerif.Model.Escape PromVerif.Model.ParseCore PromVerif.Model.Validation PromVerif.Model.TextExpo
open PromVerif.Generated.Validation PromVerif.Lemmas.Escape PromVerif.Lemmas.Scanner

def isOk {α : Type} : PyM α → Bool
  | .ok _ => true
  | .error _ => false

theorem isOk_unit {r : PyM Unit} (h : isOk r = true) : r = .ok () := by
  cases r with
  | ok u => rfl
  | error e => simp [isOk] at h

/-- a label name accepted by the library's own `_validate_labelname` -/
def labelNameOK (legacy : Bool) (k : Str) : Bool := isOk (validateLabelname legacy k)

/-- the label dicts the round trip is stated for: every name accepted by `_validate_labelname` (which excludes
`__name__` and all `__…` names), keys unique (a dict) -/
def LabelsOK (legacy : Bool) (ls : List (Str × Str)) : Prop :=
  (∀ kv ∈ ls, labelNameOK legacy kv.1 = true) ∧ (ls.map (·.1)).Nodup

instance (legacy : Bool) (ls : List (Str × Str)) : Decidable (LabelsOK legacy ls) := by
  unfold LabelsOK; infer_instance

/-- wanted sets that contain neither the quote nor a legacy name character -/
structure NameSafe (chs : Char → Bool) : Prop where
  quote : chs '"' = false
  legacy : ∀ c, isLegacyChar c = true → chs c = false

theorem nameSafe_eq (d : Char) (hq : d ≠ '"') (hl : isLegacyChar d = false) : NameSafe (· == d) :=
  ⟨by simpa using Ne.symm hq, fun c hc => by simpa using legacyChar_ne hc hl⟩

theorem nameSafe_or (d e : Char) (hq : d ≠ '"') (hl : isLegacyChar d = false) (hq' : e ≠ '"') (hl' : isLegacyChar e = false) :
    NameSafe (fun ch => ch == d || ch == e) :=
  ⟨by simp [Ne.symm hq, Ne.symm hq'], fun c hc => by simp [legacyChar_ne hc hl, legacyChar_ne hc hl']⟩

/-- the two shapes of a rendered label name -/
theorem nameTok_cases {legacy : Bool} {k : Str} (h : labelNameOK legacy k = true) :
    (escapeLabelName k = k ∧ k ≠ [] ∧ (∀ c ∈ k, isLegacyChar c = true) ∧ matchExact labelNameRe k = true) ∨
    (escapeLabelName k = '"' :: (escape k ++ ['"'])) := by
  unfold escapeLabelName
  by_cases hv : isValidLegacyLabelname k = true
  · left
    simp only [hv, ↓reduceIte, true_and]
    have hn : k.getLast? ≠ some '\n' := legacyLabel_no_newline hv
    unfold isValidLegacyLabelname at hv
    simp only [Bool.and_eq_true] at hv
    have hm := matchName_exact hv.1 hn
    have hc := matchExact_metric_chars (matchExact_label_metric hm)
    exact ⟨hc.1, hc.2, hm⟩
  · right
    simp [hv]

theorem validateLabelname_not_name (legacy : Bool) : isOk (validateLabelname legacy "__name__".toList) = false := by
  cases legacy <;> decide

theorem labelNameOK_ne_name {legacy : Bool} {k : Str} (h : labelNameOK legacy k = true) : k ≠ "__name__".toList := by
  intro e
  subst e
  unfold labelNameOK at h
  rw [validateLabelname_not_name] at h
  simp at h

theorem labelNameOK_validate {legacy : Bool} {k : Str} (h : labelNameOK legacy k = true) :
    validateLabelname legacy k = .ok () := by
  exact isOk_unit h

/-- the scanner passes a rendered label name -/
theorem nameTok_pass {chs : Char → Bool} (hs : NameSafe chs) {legacy : Bool} {k : Str} (h : labelNameOK legacy k = true) :
    noHit chs (escapeLabelName k) false false = true ∧ run (escapeLabelName k) false false = (false, false) := by
  rcases nameTok_cases h with ⟨e, _, hc, _⟩ | e
  · rw [e]
    exact plain_pass chs k (fun c hm => ⟨legacyChar_ne (hc c hm) (by decide), legacyChar_ne (hc c hm) (by decide), hs.legacy c (hc c hm)⟩)
  · rw [e]
    exact quoted_pass chs hs.quote k

theorem labelItem_eq (kv : Str × Str) :
    labelItem kv = escapeLabelName kv.1 ++ ('=' :: ('"' :: (escape kv.2 ++ ['"']))) := by
  simp [labelItem]

/-- the scanner passes a whole `name="value"` item -/
theorem item_pass {chs : Char → Bool} (hs : NameSafe chs) (he : chs '=' = false) {legacy : Bool} {kv : Str × Str}
    (h : labelNameOK legacy kv.1 = true) :
    noHit chs (labelItem kv) false false = true ∧ run (labelItem kv) false false = (false, false) := by
  have hn := nameTok_pass hs h
  have hq := quoted_pass chs hs.quote kv.2
  rw [labelItem_eq]
  refine ⟨?_, ?_⟩
  · rw [noHit_append, hn.1, hn.2, noHit]
    have : qStep false false '=' = false := rfl
    have : bsStep false '=' = false := rfl
    simp only [*, Bool.and_false, Bool.not_false, Bool.true_and]
  · rw [run_append, hn.2, run]
    exact hq.2

/-- `,item,item…` -/
def tailStr (l : List (Str × Str)) : Str := l.flatMap (fun kv => ',' :: labelItem kv)

theorem tailStr_cons (kv : Str × Str) (l : List (Str × Str)) : tailStr (kv :: l) = ',' :: (labelItem kv ++ tailStr l) := by
  simp [tailStr]

theorem joinStr_comma (x : Str) (xs : List Str) : joinStr [','] (x :: xs) = x ++ xs.flatMap (fun y => ',' :: y) := by
  induction xs generalizing x with
  | nil => simp [joinStr]
  | cons y ys ih => rw [joinStr, ih]; simp; simp

theorem labelStr_of_sorted {ls : List (Str × Str)} {kv : Str × Str} {r : List (Str × Str)} (h : sortByKey ls = kv :: r) :
    labelStr ls = labelItem kv ++ tailStr r := by
  unfold labelStr
  rw [h, List.map_cons, joinStr_comma]
  simp [tailStr, List.flatMap_map]

theorem labelStr_of_sorted_nil {ls : List (Str × Str)} (h : sortByKey ls = []) : labelStr ls = [] := by
  unfold labelStr; rw [h]; rfl

theorem tail_pass {chs : Char → Bool} (hs : NameSafe chs) (he : chs '=' = false) (hc : chs ',' = false) {legacy : Bool}
    (l : List (Str × Str)) (h : ∀ kv ∈ l, labelNameOK legacy kv.1 = true) :
    noHit chs (tailStr l) false false = true ∧ run (tailStr l) false false = (false, false) := by
  induction l with
  | nil => exact ⟨rfl, rfl⟩
  | cons kv r ih =>
    have hi := item_pass hs he (h kv (by simp))
    have ih' := ih (fun x hx => h x (by simp [hx]))
    rw [tailStr_cons]
    have q1 : qStep false false ',' = false := rfl
    have q2 : bsStep false ',' = false := rfl
    refine ⟨?_, ?_⟩
    · rw [noHit, q1, q2, noHit_append, hi.1, hi.2]
      simp [hc, ih'.1]
    · rw [run, q1, q2, run_append, hi.2]
      exact ih'.2

theorem comma_not_space : isPySpace ',' = false := by decide

theorem item_last (kv : Str × Str) : (labelItem kv).getLast? = some '"' := by
  rw [labelItem_eq, List.getLast?_eq_some_iff]
  exact ⟨escapeLabelName kv.1 ++ ('=' :: '"' :: escape kv.2), by simp⟩

theorem item_head {legacy : Bool} {kv : Str × Str} (h : labelNameOK legacy kv.1 = true) :
    ∃ a t, labelItem kv = a :: t ∧ a ≠ ',' ∧ isPySpace a = false := by
  rw [labelItem_eq]
  rcases nameTok_cases h with ⟨e, hne, hc, _⟩ | e
  · rw [e]
    cases hk : kv.1 with
    | nil => exact absurd hk hne
    | cons c cs =>
      have hl := hc c (by rw [hk]; simp)
      exact ⟨c, _, rfl, legacyChar_ne hl (by decide), legacyChar_not_space hl⟩
  · rw [e]
    exact ⟨'"', _, rfl, by decide, by decide⟩

theorem strip_item {legacy : Bool} {kv : Str × Str} (h : labelNameOK legacy kv.1 = true) : strip (labelItem kv) = labelItem kv := by
  obtain ⟨a, t, e, _, hs⟩ := item_head h
  exact strip_eq_self (a := a) (b := '"') (by rw [e]; rfl) hs (item_last kv) (by decide)

theorem tail_last (l : List (Str × Str)) (h : l ≠ []) : (tailStr l).getLast? = some '"' := by
  induction l with
  | nil => exact absurd rfl h
  | cons kv r ih =>
    rw [tailStr_cons, ← List.cons_append, List.getLast?_append]
    by_cases hr : r = []
    · subst hr
      simp only [tailStr, List.flatMap_nil, List.getLast?_nil, Option.none_or]
      obtain ⟨ys, hys⟩ := List.getLast?_eq_some_iff.mp (item_last kv)
      rw [List.getLast?_eq_some_iff]
      exact ⟨',' :: ys, by rw [hys]; rfl⟩
    · rw [ih hr]; rfl

theorem strip_tail (l : List (Str × Str)) : strip (tailStr l) = tailStr l := by
  cases l with
  | nil => rfl
  | cons kv r =>
    exact strip_eq_self (a := ',') (b := '"') (by rw [tailStr_cons]; rfl) comma_not_space (tail_last _ (by simp)) (by decide)

def termChs : Char → Bool := fun ch => ch == ',' || ch == '}'

theorem termChs_safe : NameSafe termChs := nameSafe_or ',' '}' (by decide) (by decide) (by decide) (by decide)

/-- scanning `item ++ tail` for the next unquoted ',' or '}' stops right after the item -/
theorem scan_term_tail {tm : Str} (hp : noHit termChs tm false false = true ∧ run tm false false = (false, false))
    (r : List (Str × Str)) :
    nextUnquotedChar (tm ++ tailStr r) termChs 0 = if r = [] then none else some tm.length := by
  rw [nextUnquotedChar_zero]
  rw [scan_append_of_noHit _ _ _ _ _ hp.1, hp.2]
  cases r with
  | nil => simp [tailStr, scan_nil]
  | cons kv' r' =>
    rw [tailStr_cons, scan_hit termChs ',' _ false (by decide) (by decide)]
    simp

/-- `_next_term` on `term,item,…` or `,term,item,…` for a term the scanner passes -/
theorem nextTerm_term {tm : Str} (hp : noHit termChs tm false false = true ∧ run tm false false = (false, false))
    (hhead : ∃ a t, tm = a :: t ∧ a ≠ ',' ∧ isPySpace a = false) (hstrip : strip tm = tm) (r : List (Str × Str))
    (lead : Bool) :
    nextTerm ((if lead then [','] else []) ++ (tm ++ tailStr r)) false = .ok (tm, tailStr r) := by
  obtain ⟨a, t, e, hne, _⟩ := hhead
  have hc : (a == ',') = false := by simpa using hne
  have hsplit : (match nextUnquotedChar (tm ++ tailStr r) (fun ch => ch == ',' || ch == '}') with
      | some p => p
      | none => (tm ++ tailStr r).length) = if r = [] then (tm ++ tailStr r).length else (tm).length := by
    have := scan_term_tail hp r
    unfold termChs at this
    rw [this]
    by_cases hr : r = [] <;> simp [hr]
  have hfin : ∀ (t0 : Str), t0 = tm ++ tailStr r →
      (let splitpos := match nextUnquotedChar t0 (fun ch => ch == ',' || ch == '}') with
        | some p => p
        | none => t0.length
       let term := t0.take splitpos
       if term.isEmpty && false then (.error .valueError : PyM (Str × Str))
       else .ok (strip term, strip (t0.drop splitpos))) = .ok (tm, tailStr r) := by
    intro t0 ht0
    subst ht0
    simp only [hsplit, Bool.and_false, Bool.false_eq_true, ↓reduceIte]
    by_cases hr : r = []
    · subst hr; simp [tailStr, hstrip, strip_nil]
    · simp only [hr, ↓reduceIte, List.take_left, List.drop_left, hstrip, strip_tail]
  cases lead with
  | false =>
    simp only [Bool.false_eq_true, ↓reduceIte, List.nil_append]
    unfold nextTerm
    rw [e] at hfin ⊢
    simp only [List.cons_append, hc, Bool.false_eq_true, ↓reduceIte]
    exact hfin _ rfl
  | true =>
    simp only [↓reduceIte, List.cons_append, List.nil_append]
    unfold nextTerm
    rw [e] at hfin ⊢
    simp only [List.cons_append, beq_self_eq_true, ↓reduceIte]
    split
    · rename_i e1
      split at e1
      · rename_i e'; simp at e'
      · rename_i e'; simp at e'; exact absurd e'.1 hne
      · simp at e1
    · rename_i e1
      split at e1
      · rename_i e'; simp at e'
      · simp at e1
      · simp at e1
    · rename_i t1 e1
      split at e1
      · rename_i e'; simp at e'
      · simp at e1
      · simp only [Except.ok.injEq, Option.some.injEq] at e1
        subst e1
        exact hfin _ rfl


/-- `_next_term` on `item,item,…` or `,item,item,…` -/
theorem nextTerm_item {legacy : Bool} {kv : Str × Str} (h : labelNameOK legacy kv.1 = true) (r : List (Str × Str))
    (lead : Bool) :
    nextTerm ((if lead then [','] else []) ++ (labelItem kv ++ tailStr r)) false = .ok (labelItem kv, tailStr r) :=
  nextTerm_term (item_pass termChs_safe (by decide) h) (item_head h) (strip_item h) r lead

def eqChs : Char → Bool := (· == '=')
theorem eqChs_safe : NameSafe eqChs := nameSafe_eq '=' (by decide) (by decide)

/-- the unquoted '=' of an item is the one after the name -/
theorem scan_item_eq {legacy : Bool} {kv : Str × Str} (h : labelNameOK legacy kv.1 = true) :
    nextUnquotedChar (labelItem kv) (· == '=') 0 = some (escapeLabelName kv.1).length := by
  rw [nextUnquotedChar_zero, labelItem_eq]
  have hp := nameTok_pass eqChs_safe h
  show scan eqChs _ false false = _
  rw [scan_append_of_noHit _ _ _ _ _ hp.1, hp.2, scan_hit eqChs '=' _ false (by decide) (by decide)]
  simp

theorem item_nonempty (kv : Str × Str) : (labelItem kv).isEmpty = false := by
  rw [labelItem_eq]; cases escapeLabelName kv.1 <;> rfl

theorem unquote_nameTok {legacy : Bool} {k : Str} (h : labelNameOK legacy k = true) :
    ∃ q, unquoteUnescape (escapeLabelName k) = .ok (k, q) ∧ (!q && !isValidLegacyMetricName k) = false := by
  rcases nameTok_cases h with ⟨e, hne, hc, hm⟩ | e
  · refine ⟨false, by rw [e]; exact unquoteUnescape_bare hne hc, ?_⟩
    have : isValidLegacyMetricName k = true := matchExact_matchName (matchExact_label_metric hm)
    simp [this]
  · exact ⟨true, by rw [e]; exact unquoteUnescape_quoted k, rfl⟩

theorem findClosingQuote_quoted (v : Str) :
    findClosingQuote ('"' :: (escape v ++ ['"'])) (('"' :: (escape v ++ ['"'])).length + 1) 1 = some ((escape v).length + 1) := by
  have hq := quotesEscaped_escape v
  have hb : bsStep false '"' = false := rfl
  have := findClosingQuote_spec [] (('"' :: (escape v ++ ['"'])).length + 1) ['"'] (escape v)
    (by simpa [trailOdd, hb] using hq.1) (by rw [trailOdd_append]; simpa [trailOdd, hb] using hq.2) (by simp; omega)
  simp only [List.length_singleton] at this
  rw [show ['"'] ++ escape v ++ ['"'] = '"' :: (escape v ++ ['"']) by simp] at this
  rw [this]; congr 1; omega

theorem parseOneLabel_item {legacy : Bool} {kv : Str × Str} (h : labelNameOK legacy kv.1 = true) (r : List (Str × Str))
    (lead : Bool) (acc : List (Str × Str)) (hfresh : acc.any (fun x => x.1 == kv.1) = false) :
    parseOneLabel legacy false ((if lead then [','] else []) ++ (labelItem kv ++ tailStr r)) acc =
      .ok (acc ++ [kv], tailStr r) := by
  unfold parseOneLabel
  rw [nextTerm_item h r lead]
  obtain ⟨q, hq1, hq2⟩ := unquote_nameTok h
  have htake : List.take (escapeLabelName kv.1).length (labelItem kv) = escapeLabelName kv.1 := by
    rw [labelItem_eq]; exact List.take_left
  have hdrop : List.drop ((escapeLabelName kv.1).length + 1) (labelItem kv) = '"' :: (escape kv.2 ++ ['"']) := by
    rw [labelItem_eq, ← List.drop_drop, List.drop_left]; rfl
  have hname : (kv.1 == "__name__".toList) = false := by simpa using labelNameOK_ne_name h
  have hlen : ((escape kv.2).length + 1 + 1 != ('"' :: (escape kv.2 ++ ['"'])).length) = false := by simp
  have htk : List.take ((escape kv.2).length + 1 + 1) ('"' :: (escape kv.2 ++ ['"'])) = '"' :: (escape kv.2 ++ ['"']) := by
    apply List.take_of_length_le; simp
  simp only [bind, Except.bind, pure, Except.pure, item_nonempty, Bool.false_eq_true, ↓reduceIte, scan_item_eq h, htake, hq1,
    hdrop, hq2, strip_quoted, findClosingQuote_quoted, hlen, htk, unquoteUnescape_quoted, hname,
    labelNameOK_validate h, hfresh]


theorem loop_nil (legacy : Bool) (fuel : Nat) (acc : List (Str × Str)) :
    parseLabelsLoop legacy false fuel [] acc = .ok acc := by
  cases fuel <;> simp [parseLabelsLoop]

theorem any_key_false {acc : List (Str × Str)} {k : Str} (h : k ∉ acc.map (·.1)) :
    acc.any (fun x => x.1 == k) = false := by
  apply Bool.eq_false_iff.mpr
  intro ha
  obtain ⟨x, hx, hk⟩ := List.any_eq_true.mp ha
  exact h (List.mem_map.mpr ⟨x, hx, by simpa using hk⟩)

theorem loop_tail {legacy : Bool} : ∀ (r acc : List (Str × Str)) (fuel : Nat), r.length ≤ fuel →
    (∀ kv ∈ r, labelNameOK legacy kv.1 = true) → ((acc ++ r).map (·.1)).Nodup →
    parseLabelsLoop legacy false fuel (tailStr r) acc = .ok (acc ++ r) := by
  intro r
  induction r with
  | nil => intro acc fuel _ _ _; simp [tailStr, loop_nil]
  | cons kv r ih =>
    intro acc fuel hf hok hnd
    cases fuel with
    | zero => simp at hf
    | succ f =>
      have hfresh : acc.any (fun x => x.1 == kv.1) = false := by
        apply any_key_false
        rw [List.map_append, List.map_cons] at hnd
        have := (List.nodup_append.mp hnd).2.2
        intro hm
        exact this _ hm _ (by simp) rfl
      have hstep := parseOneLabel_item (hok kv (by simp)) r true acc hfresh
      simp only [↓reduceIte, List.cons_append, List.nil_append] at hstep
      rw [tailStr_cons, parseLabelsLoop]
      simp only [List.isEmpty_cons, Bool.false_eq_true, ↓reduceIte, bind, Except.bind, hstep]
      rw [ih (acc ++ [kv]) f (by simp at hf; omega) (fun x hx => hok x (by simp [hx])) (by simpa using hnd)]
      simp

theorem tailStr_length (r : List (Str × Str)) : r.length ≤ (tailStr r).length := by
  induction r with
  | nil => simp
  | cons kv r ih => rw [tailStr_cons]; simp; omega

/-- the rendered block of an (already ordered) non-empty item list parses back to the list -/
theorem parseLabels_items {legacy : Bool} (kv : Str × Str) (r : List (Str × Str))
    (hok : ∀ x ∈ kv :: r, labelNameOK legacy x.1 = true) (hnd : ((kv :: r).map (·.1)).Nodup) :
    parseLabels legacy (labelItem kv ++ tailStr r) false = .ok (kv :: r) := by
  have hkv := hok kv (by simp)
  obtain ⟨a, t, e, _, hs⟩ := item_head hkv
  have hlast : (labelItem kv ++ tailStr r).getLast? = some '"' := by
    rw [List.getLast?_append]
    by_cases hr : r = []
    · subst hr; simp [tailStr, item_last]
    · rw [tail_last r hr]; rfl
  have hstrip : strip (labelItem kv ++ tailStr r) = labelItem kv ++ tailStr r :=
    strip_eq_self (a := a) (b := '"') (by rw [e]; rfl) hs hlast (by decide)
  unfold parseLabels
  simp only [hstrip, Bool.false_and, Bool.false_eq_true, ↓reduceIte]
  rw [parseLabelsLoop]
  have hne : (labelItem kv ++ tailStr r).isEmpty = false := by rw [e]; rfl
  have hstep := parseOneLabel_item hkv r false [] rfl
  simp only [Bool.false_eq_true, ↓reduceIte, List.nil_append] at hstep
  simp only [hne, Bool.false_eq_true, ↓reduceIte, bind, Except.bind, hstep]
  rw [loop_tail r [kv] _ (by have := tailStr_length r; simp; omega) (fun x hx => hok x (by simp [hx])) (by simpa using hnd)]
  rfl

-- sortByKey is a permutation ---------------------------------------------------------------------------------------

theorem insertByKey_perm {β : Type} (kv : Str × β) (l : List (Str × β)) : (insertByKey kv l).Perm (kv :: l) := by
  induction l with
  | nil => exact List.Perm.refl _
  | cons x xs ih =>
    unfold insertByKey
    split
    · exact List.Perm.refl _
    · exact (List.Perm.cons x ih).trans (List.Perm.swap kv x xs)

theorem sortByKey_perm {β : Type} (l : List (Str × β)) : (sortByKey l).Perm l := by
  unfold sortByKey
  suffices h : ∀ (acc : List (Str × β)), (l.foldl (fun acc kv => insertByKey kv acc) acc).Perm (l ++ acc) by
    simpa using h []
  induction l with
  | nil => intro acc; exact List.Perm.refl _
  | cons x xs ih =>
    intro acc
    rw [List.foldl_cons]
    refine (ih _).trans ?_
    refine (List.Perm.append_left xs (insertByKey_perm x acc)).trans ?_
    exact List.perm_middle

/-- **`parse_labels` inverts the label rendering of `sample_line`** — every label value (all characters, all
adjacencies, empty), bare or quoted label names, any number of labels -/
theorem parse_labels_render {legacy : Bool} {ls : List (Str × Str)} (h : LabelsOK legacy ls) :
    parseLabels legacy (labelStr ls) false = .ok (sortByKey ls) := by
  have hp := sortByKey_perm ls
  have hok : ∀ x ∈ sortByKey ls, labelNameOK legacy x.1 = true := fun x hx => h.1 x (hp.mem_iff.mp hx)
  have hnd : ((sortByKey ls).map (·.1)).Nodup := (hp.map _).nodup_iff.mpr h.2
  cases hs : sortByKey ls with
  | nil => rw [labelStr_of_sorted_nil hs]; rfl
  | cons kv r =>
    rw [labelStr_of_sorted hs]
    rw [hs] at hok hnd
    exact parseLabels_items kv r hok hnd

end PromVerif.Lemmas.TextParse
