/-
The label block: `parse_labels` applied to what `sample_line` renders for a label dict gives the dict back
(sorted by key), for every label value, bare or quoted label names and any number of labels.
-/
import PromVerif.Lemmas.TextParseBase
import PromVerif.Model.TextExpo

namespace PromVerif.Lemmas.TextParse
open PromVerif.Py PromVerif.Model.Escape PromVerif.Model.ParseCore PromVerif.Model.Validation PromVerif.Model.TextExpo
open PromVerif.Generated.Validation PromVerif.Lemmas.Escape PromVerif.Lemmas.Scanner

def isOk {α : Type} : PyM α → Bool
  | .ok _ => true
  | .error _ => false

theorem isOk_unit {r : PyM Unit} (h : isOk r = true) : r = .ok () := by
  cases r with
  | ok u => rfl
  | error e => simp [isOk] at h

/-- a label name accepted by the library's own `_validate_labelname`, minus the F2 point (a name the legacy pattern
accepts although it ends in a line feed, because `$` also matches before a final '\n') -/
def labelNameOK (legacy : Bool) (k : Str) : Bool :=
  isOk (validateLabelname legacy k) && !(isValidLegacyLabelname k && k.getLast? == some '\n')

/-- the label dicts the round trip is stated for: every name accepted by `_validate_labelname` (which excludes
`__name__` and all `__…` names), no F2 name, keys unique (a dict) -/
def LabelsOK (legacy : Bool) (ls : List (Str × Str)) : Prop :=
  (∀ kv ∈ ls, labelNameOK legacy kv.1 = true) ∧ (ls.map (·.1)).Nodup

instance (legacy : Bool) (ls : List (Str × Str)) : Decidable (LabelsOK legacy ls) := by
  unfold LabelsOK; infer_instance

/-- wanted sets that contain neither the quote nor a legacy name character -/
structure NameSafe (chs : Char → Bool) : Prop where
  quote : chs '"' = false
  legacy : ∀ c, isLegacyChar c = true → chs c = false

theorem nameSafe_eq (d : Char) (hq : d ≠ '"') (hl : isLegacyChar d = false) : NameSafe (· == d) :=
  ⟨by simpa using Ne.symm hq, fun c hc => by simpa using legacyChar_ne hc hl⟩

theorem nameSafe_or (d e : Char) (hq : d ≠ '"') (hl : isLegacyChar d = false) (hq' : e ≠ '"') (hl' : isLegacyChar e = false) :
    NameSafe (fun ch => ch == d || ch == e) :=
  ⟨by simp [Ne.symm hq, Ne.symm hq'], fun c hc => by simp [legacyChar_ne hc hl, legacyChar_ne hc hl']⟩

/-- the two shapes of a rendered label name -/
theorem nameTok_cases {legacy : Bool} {k : Str} (h : labelNameOK legacy k = true) :
    (escapeLabelName k = k ∧ k ≠ [] ∧ (∀ c ∈ k, isLegacyChar c = true) ∧ matchExact labelNameRe k = true) ∨
    (escapeLabelName k = '"' :: (escape k ++ ['"'])) := by
  unfold labelNameOK at h
  simp only [Bool.and_eq_true, Bool.not_eq_true', Bool.and_eq_false_iff] at h
  unfold escapeLabelName
  by_cases hv : isValidLegacyLabelname k = true
  · left
    simp only [hv, ↓reduceIte, true_and]
    have hn : k.getLast? ≠ some '\n' := by
      rcases h.2 with h2 | h2
      · rw [hv] at h2; exact absurd h2 (by decide)
      · simpa using h2
    unfold isValidLegacyLabelname at hv
    simp only [Bool.and_eq_true] at hv
    have hm := matchName_exact hv.1 hn
    have hc := matchExact_metric_chars (matchExact_label_metric hm)
    exact ⟨hc.1, hc.2, hm⟩
  · right
    simp [hv]

theorem validateLabelname_not_name (legacy : Bool) : isOk (validateLabelname legacy "__name__".toList) = false := by
  cases legacy <;> decide

theorem labelNameOK_ne_name {legacy : Bool} {k : Str} (h : labelNameOK legacy k = true) : k ≠ "__name__".toList := by
  intro e
  subst e
  unfold labelNameOK at h
  rw [validateLabelname_not_name] at h
  simp at h

theorem labelNameOK_validate {legacy : Bool} {k : Str} (h : labelNameOK legacy k = true) :
    validateLabelname legacy k = .ok () := by
  unfold labelNameOK at h
  simp only [Bool.and_eq_true] at h
  exact isOk_unit h.1

/-- the scanner passes a rendered label name -/
theorem nameTok_pass {chs : Char → Bool} (hs : NameSafe chs) {legacy : Bool} {k : Str} (h : labelNameOK legacy k = true) :
    noHit chs (escapeLabelName k) false false = true ∧ run (escapeLabelName k) false false = (false, false) := by
  rcases nameTok_cases h with ⟨e, _, hc, _⟩ | e
  · rw [e]
    exact plain_pass chs k (fun c hm => ⟨legacyChar_ne (hc c hm) (by decide), legacyChar_ne (hc c hm) (by decide), hs.legacy c (hc c hm)⟩)
  · rw [e]
    exact quoted_pass chs hs.quote k

theorem labelItem_eq (kv : Str × Str) :
    labelItem kv = escapeLabelName kv.1 ++ ('=' :: ('"' :: (escape kv.2 ++ ['"']))) := by
  simp [labelItem]

/-- the scanner passes a whole `name="value"` item -/
theorem item_pass {chs : Char → Bool} (hs : NameSafe chs) (he : chs '=' = false) {legacy : Bool} {kv : Str × Str}
    (h : labelNameOK legacy kv.1 = true) :
    noHit chs (labelItem kv) false false = true ∧ run (labelItem kv) false false = (false, false) := by
  have hn := nameTok_pass hs h
  have hq := quoted_pass chs hs.quote kv.2
  rw [labelItem_eq]
  refine ⟨?_, ?_⟩
  · rw [noHit_append, hn.1, hn.2, noHit]
    have : qStep false false '=' = false := rfl
    have : bsStep false '=' = false := rfl
    simp only [*, Bool.and_false, Bool.not_false, Bool.true_and]
  · rw [run_append, hn.2, run]
    exact hq.2

/-- `,item,item…` -/
def tailStr (l : List (Str × Str)) : Str := l.flatMap (fun kv => ',' :: labelItem kv)

theorem tailStr_cons (kv : Str × Str) (l : List (Str × Str)) : tailStr (kv :: l) = ',' :: (labelItem kv ++ tailStr l) := by
  simp [tailStr]

theorem joinStr_comma (x : Str) (xs : List Str) : joinStr [','] (x :: xs) = x ++ xs.flatMap (fun y => ',' :: y) := by
  induction xs generalizing x with
  | nil => simp [joinStr]
  | cons y ys ih => rw [joinStr, ih]; simp; simp

theorem labelStr_of_sorted {ls : List (Str × Str)} {kv : Str × Str} {r : List (Str × Str)} (h : sortByKey ls = kv :: r) :
    labelStr ls = labelItem kv ++ tailStr r := by
  unfold labelStr
  rw [h, List.map_cons, joinStr_comma]
  simp [tailStr, List.flatMap_map]

theorem labelStr_of_sorted_nil {ls : List (Str × Str)} (h : sortByKey ls = []) : labelStr ls = [] := by
  unfold labelStr; rw [h]; rfl

theorem tail_pass {chs : Char → Bool} (hs : NameSafe chs) (he : chs '=' = false) (hc : chs ',' = false) {legacy : Bool}
    (l : List (Str × Str)) (h : ∀ kv ∈ l, labelNameOK legacy kv.1 = true) :
    noHit chs (tailStr l) false false = true ∧ run (tailStr l) false false = (false, false) := by
  induction l with
  | nil => exact ⟨rfl, rfl⟩
  | cons kv r ih =>
    have hi := item_pass hs he (h kv (by simp))
    have ih' := ih (fun x hx => h x (by simp [hx]))
    rw [tailStr_cons]
    have q1 : qStep false false ',' = false := rfl
    have q2 : bsStep false ',' = false := rfl
    refine ⟨?_, ?_⟩
    · rw [noHit, q1, q2, noHit_append, hi.1, hi.2]
      simp [hc, ih'.1]
    · rw [run, q1, q2, run_append, hi.2]
      exact ih'.2

end PromVerif.Lemmas.TextParse
