/-
C12: after `normalise`, the series the collector reports for one child (`mpChild`) and the in-process samples of that
child are the same set — kind by kind: label dicts sort to the same list, `0.0 + x` is `x`, the `pid` label goes,
the cumulated buckets and `_count` agree, a never-set mostrecent gauge is absent on both sides.
-/
import PromVerif.Lemmas.BackendsInput

namespace PromVerif.Lemmas.Backends
open PromVerif.Py PromVerif.Generated.Multiprocess
open PromVerif.Model.Metrics (Val Decl Kind Child Action Sample childSamples)
open PromVerif.Model.Multiprocess
open PromVerif.Model.Values
open PromVerif.Model.Backends
open PromVerif.Spec.Metrics (Hist)
open PromVerif.Spec.Multiprocess (SFile Contrib normTs)
open PromVerif.Spec.Backends
open PromVerif.Lemmas.Metrics (childOf)
set_option autoImplicit false
set_option linter.unusedSectionVars false

variable {V : Type} [Val V] {B : Type} [DecidableEq B]

/-! ### the declaration of a family, the never-set predicate -/

theorem declOf_self : ∀ (ds : List (MDecl V)) (d : MDecl V), (ds.map (fun d => d.decl.name)).Nodup → d ∈ ds →
    declOf ds d.decl.name = some d
  | [], _, _, h => by cases h
  | x :: xs, d, hn, h => by
    simp only [List.map_cons, List.nodup_cons] at hn
    unfold declOf
    rcases List.mem_cons.mp h with e | e
    · subst e; simp [List.find?]
    · have hne : x.decl.name ≠ d.decl.name := fun e' => hn.1 (e' ▸ List.mem_map.mpr ⟨d, e, rfl⟩)
      simp only [List.find?, hne, decide_false]
      exact declOf_self xs d hn.2 e

theorem zip_getElem_mem {α β : Type} : ∀ (a : List α) (b : List β) (i : Nat) (x : α) (y : β), a[i]? = some x → b[i]? = some y →
    (x, y) ∈ a.zip b
  | [], _, _, _, _, h, _ => by simp at h
  | _ :: _, [], _, _, _, _, h => by simp at h
  | p :: ps, q :: qs, 0, x, y, h1, h2 => by simp at h1 h2; subst h1; subst h2; simp
  | p :: ps, q :: qs, i + 1, x, y, h1, h2 => by
    simp at h1 h2
    exact List.mem_cons_of_mem _ (zip_getElem_mem ps qs i x y h1 h2)

theorem zip_mem_index {α β : Type} : ∀ (a : List α) (b : List β) (x : α) (y : β), (x, y) ∈ a.zip b →
    ∃ i : Nat, a[i]? = some x ∧ b[i]? = some y
  | [], _, _, _, h => by simp at h
  | _ :: _, [], _, _, h => by simp at h
  | p :: ps, q :: qs, x, y, h => by
    simp only [List.zip_cons_cons, List.mem_cons, Prod.mk.injEq] at h
    rcases h with ⟨rfl, rfl⟩ | h
    · exact ⟨0, by simp, by simp⟩
    · obtain ⟨i, h1, h2⟩ := zip_mem_index ps qs x y h
      exact ⟨i + 1, by simpa using h1, by simpa using h2⟩

theorem plainLabels_nil (d : MDecl V) : plainLabels d [] = [] := by
  unfold plainLabels
  rw [List.zip_nil_right]
  rfl

/-- "this series' child was never set", read off the reference histories: for a live child it is `not hasSet` -/
theorem neverSet_eq (ds : List (MDecl V)) (hs : List (Hist V)) (hn : (ds.map (fun d => d.decl.name)).Nodup)
    (i : Nat) (d : MDecl V) (h : Hist V) (hd : ds[i]? = some d) (hh : hs[i]? = some h) (hln : d.decl.labelnames.Nodup)
    (hnd : ((childList d h).map (·.1)).Nodup) (hlen : ∀ ka ∈ childList d h, ka.1.length = d.decl.labelnames.length)
    (ka : List Str × List (Action V)) (hka : ka ∈ childList d h) :
    neverSet ds hs d.decl.name (plainLabels d ka.1) = !hasSet ka.2 := by
  have hmem : (d, h) ∈ ds.zip hs := zip_getElem_mem ds hs i d h hd hh
  -- the inner test on (d, h)
  have hinner : (if d.decl.labelnames.isEmpty then (decide (plainLabels d ka.1 = []) && !hasSet h.single)
      else h.table.any (fun kh => decide (sortByKey (d.decl.labelnames.zip kh.1) = plainLabels d ka.1) && !hasSet kh.2))
      = !hasSet ka.2 := by
    unfold childList at hka hnd hlen
    cases hl : d.decl.labelnames.isEmpty with
    | true =>
      simp only [hl, if_true, List.mem_singleton] at hka ⊢
      subst hka
      simp [plainLabels_nil]
    | false =>
      simp only [hl, Bool.false_eq_true, if_false] at hka hnd hlen ⊢
      cases hset : hasSet ka.2 with
      | false =>
        simp only [Bool.not_false]
        rw [List.any_eq_true]
        exact ⟨ka, hka, by simp [plainLabels, hset]⟩
      | true =>
        simp only [Bool.not_true]
        rw [List.any_eq_false]
        intro kh hkh
        simp only [Bool.and_eq_true, decide_eq_true_eq, Bool.not_eq_eq_eq_not, Bool.not_true, not_and,
          Bool.not_eq_false]
        intro e
        have hk := sorted_zip_inj _ _ _ hln (hlen kh hkh) (hlen ka hka) e
        have := mem_of_key_nodup _ hnd kh ka hkh hka hk
        rw [this]; exact hset
  unfold neverSet
  cases hv : hasSet ka.2 with
  | false =>
    simp only [Bool.not_false]
    rw [List.any_eq_true]
    refine ⟨(d, h), hmem, ?_⟩
    simp only [decide_true, Bool.true_and]
    rw [hinner, hv]; rfl
  | true =>
    simp only [Bool.not_true]
    rw [List.any_eq_false]
    intro dh hdh
    obtain ⟨j, hj1, hj2⟩ := zip_mem_index ds hs dh.1 dh.2 hdh
    by_cases hij : j = i
    · subst hij
      rw [hd] at hj1; rw [hh] at hj2
      cases hj1; cases hj2
      simp only [decide_true, Bool.true_and]
      rw [hinner, hv]; simp
    · have := names_ne hn j i dh.1 d hj1 hd hij
      simp [this]

/-! ### normalising the labels of one child's series -/

/-- the label part of `normOne` for a known declaration -/
def normLabels (d : MDecl V) (labels : Labels) : Labels :=
  sortByKey (if pidMode d then labels.filter (fun l => l.1 ≠ "pid".toList) else labels)

/-- `normOne` for a sample of a known family -/
def normD (d : MDecl V) (ns : Str → Labels → Bool) (name : Str) (labels : Labels) (value : V) : Option (SKey × V) :=
  if hasCreated d.decl.kind && decide (name = d.decl.name ++ "_created".toList) then none
  else if isMostRecent d && ns d.decl.name (normLabels d labels) then none
  else some ((name, normLabels d labels), value)

theorem normOne_known (ds : List (MDecl V)) (ns : Str → Labels → Bool) (d : MDecl V) (x : Flat V)
    (hfam : x.fam = d.decl.name) (hdecl : declOf ds d.decl.name = some d) :
    normOne ds ns x = normD d ns x.name x.labels x.value := by
  unfold normOne normD normLabels
  rw [hfam, hdecl]

theorem keys_plainLabels (d : MDecl V) (key : List Str) (l : Str × Str) (hl : l ∈ plainLabels d key) :
    l.1 ∈ d.decl.labelnames :=
  zip_keys_mem _ _ l ((PromVerif.Lemmas.GatewaySort.mem_sortByKey _ l).mp hl)

theorem plainLabels_nodupKeys (d : MDecl V) (hln : d.decl.labelnames.Nodup) (key : List Str) :
    ((plainLabels d key).map (·.1)).Nodup :=
  sortByKey_nodupKeys _ (zip_nodupKeys _ _ hln)

theorem filter_ne_self (l : Labels) (nm : Str) (h : nm ∉ l.map (·.1)) : l.filter (fun x => x.1 ≠ nm) = l :=
  filter_eq_self_of _ _ (fun x hx => by
    simp only [ne_eq, decide_not, Bool.not_eq_eq_eq_not, Bool.not_true, decide_eq_false_iff_not]
    intro e; exact h (e ▸ List.mem_map.mpr ⟨x, hx, rfl⟩))

theorem snoc_nodupKeys (l : Labels) (hl : (l.map (·.1)).Nodup) (nm v : Str) (h : nm ∉ l.map (·.1)) :
    ((l ++ [(nm, v)]).map (·.1)).Nodup := by
  rw [List.map_append, List.nodup_append]
  exact ⟨hl, by simp, by intro a ha b hb e; simp at hb; subst hb; subst e; exact h ha⟩

section labels
variable (d : MDecl V) (hln : d.decl.labelnames.Nodup) (hpid : pidMode d = true → "pid".toList ∉ d.decl.labelnames) (key : List Str)
include hln hpid

/-- a plain series, multiprocess side: `dict(labels)` of the sorted key labels -/
theorem normLabels_mp_plain : normLabels d (pyDict (plainLabels d key)) = plainLabels d key := by
  unfold normLabels
  rw [pyDict_of_nodup _ (plainLabels_nodupKeys d hln key)]
  have hs : sortByKey (plainLabels d key) = plainLabels d key := sortByKey_idem _ (zip_nodupKeys _ _ hln)
  cases hp : pidMode d with
  | false => simpa using hs
  | true =>
    simp only [if_true]
    rw [filter_ne_self _ _ (fun hm => by
      obtain ⟨l, hl, e⟩ := List.mem_map.mp hm
      exact hpid hp (e ▸ keys_plainLabels d key l hl))]
    exact hs

/-- a plain series, in-process side: `dict(zip(labelnames, labelvalues) + {})` -/
theorem normLabels_in_plain : normLabels d (d.decl.labelnames.zip key ++ []) = plainLabels d key := by
  unfold normLabels plainLabels
  rw [List.append_nil]
  cases hp : pidMode d with
  | false => simp
  | true =>
    simp only [if_true]
    rw [filter_ne_self _ _ (fun hm => by
      obtain ⟨l, hl, e⟩ := List.mem_map.mp hm
      exact hpid hp (e ▸ zip_keys_mem _ _ l hl))]

/-- an all / liveall gauge series, multiprocess side: the `pid` label goes -/
theorem normLabels_mp_pid (hp : pidMode d = true) (p : Str) :
    normLabels d (pyDict (plainLabels d key ++ [("pid".toList, p)])) = plainLabels d key := by
  have hno : "pid".toList ∉ (plainLabels d key).map (·.1) := fun hm => by
    obtain ⟨l, hl, e⟩ := List.mem_map.mp hm
    exact hpid hp (e ▸ keys_plainLabels d key l hl)
  unfold normLabels
  rw [pyDict_of_nodup _ (snoc_nodupKeys _ (plainLabels_nodupKeys d hln key) _ _ hno)]
  simp only [hp, if_true]
  rw [List.filter_append, filter_ne_self _ _ hno]
  simp only [ne_eq, decide_not, List.filter_cons, decide_true, Bool.not_true, Bool.false_eq_true, if_false,
    List.filter_nil, List.append_nil]
  exact sortByKey_idem _ (zip_nodupKeys _ _ hln)

/-- a bucket series: both sides sort to the same label list -/
theorem normLabels_bucket (hp : pidMode d = false) (hle : leName ∉ d.decl.labelnames) (t : Str) :
    normLabels d (pyDict (plainLabels d key ++ [(leName, t)]))
      = normLabels d (d.decl.labelnames.zip key ++ [(leName, t)]) := by
  have hno : leName ∉ (plainLabels d key).map (·.1) := fun hm => by
    obtain ⟨l, hl, e⟩ := List.mem_map.mp hm
    exact hle (e ▸ keys_plainLabels d key l hl)
  unfold normLabels
  rw [pyDict_of_nodup _ (snoc_nodupKeys _ (plainLabels_nodupKeys d hln key) _ _ hno)]
  simp only [hp, Bool.false_eq_true, if_false]
  apply sortByKey_eq_of_perm
  · exact List.Perm.append_right _ (PromVerif.Lemmas.GatewaySort.sortByKey_perm _)
  · exact snoc_nodupKeys _ (plainLabels_nodupKeys d hln key) _ _ hno

end labels

/-! ### one child, both collections -/

/-- a series of the multiprocess collection as a flat sample (`Sample(name, dict(labels), value)`) -/
def mpFlat (d : MDecl V) (kv : SKey × V) : Flat V := ⟨d.decl.name, kv.1.1, pyDict kv.1.2, kv.2⟩

/-- the in-process samples of one child (`_multi_samples` / `_samples`, then `collect`'s name prefix) -/
def inChild (d : MDecl V) (ka : List Str × List (Action V)) : List (Flat V) :=
  (childSamples d.decl (childOf d.decl ka.2)).map (fun s =>
    ⟨d.decl.name, d.decl.name ++ s.name, d.decl.labelnames.zip ka.1 ++ s.labels, s.value⟩)

theorem normD_eval (d : MDecl V) (ns : Str → Labels → Bool) (name : Str) (labels : Labels) (v : V)
    (hc : (hasCreated d.decl.kind && decide (name = d.decl.name ++ "_created".toList)) = false)
    (hm : (isMostRecent d && ns d.decl.name (normLabels d labels)) = false) :
    normD d ns name labels v = some ((name, normLabels d labels), v) := by
  unfold normD
  rw [hc]
  simp only [Bool.false_eq_true, if_false]
  rw [hm]
  simp only [Bool.false_eq_true, if_false]

theorem not_created (d : MDecl V) (sfx : Str) (h : sfx ≠ "_created".toList) :
    (hasCreated d.decl.kind && decide (d.decl.name ++ sfx = d.decl.name ++ "_created".toList)) = false := by
  have : ¬ (d.decl.name ++ sfx = d.decl.name ++ "_created".toList) := fun e => h (List.append_cancel_left e)
  rw [decide_eq_false this, Bool.and_false]

theorem pidLabel_eq : pidLabel = "pid".toList := by decide

theorem cumulate_zip (Bs : List B) : ∀ (a : V) (vs : List V),
    Spec.Multiprocess.cumulate (voOf V) a (Bs.zip vs) = Bs.zip (Model.Metrics.cumulate a vs) := by
  induction Bs with
  | nil => intro a vs; simp [Spec.Multiprocess.cumulate]
  | cons b bs ih =>
    intro a vs
    cases vs with
    | nil => simp [Spec.Multiprocess.cumulate, Model.Metrics.cumulate]
    | cons v vs =>
      simp only [List.zip_cons_cons, Spec.Multiprocess.cumulate, Model.Metrics.cumulate]
      rw [ih]
      rfl

theorem cumulate_last_fold : ∀ (vs : List V) (a : V),
    ((Model.Metrics.cumulate a vs).getLast?).getD a = vs.foldl Val.add a
  | [], a => rfl
  | v :: vs, a => by
    simp only [Model.Metrics.cumulate, List.foldl_cons]
    have ih := cumulate_last_fold vs (Val.add a v)
    cases hc : Model.Metrics.cumulate (Val.add a v) vs with
    | nil => rw [hc] at ih; simpa using ih
    | cons x xs =>
      rw [hc] at ih
      rw [List.getLast?_cons_cons]
      exact ih

theorem map_zero_add (hz : ∀ a : V, Val.add Val.zero a = a) (Bs : List B) (vs : List V) :
    (Bs.zip vs).map (fun p => (p.1, (voOf V).add (voOf V).zero p.2)) = Bs.zip vs := by
  have : (fun p : B × V => (p.1, (voOf V).add (voOf V).zero p.2)) = id := by
    funext p; simp [voOf, hz]
  rw [this, List.map_id]

end PromVerif.Lemmas.Backends
