/-
C12: blocks of value-object calls on the single-identity directory.
* constructing the cells of a new child (`run_constructs`): objects appended, no cell value moves, the new cells read zero;
* the value-object calls of one accepted method call (`run_updates`): exactly the cells of that child move, each as
  `MmapedValue.inc` / `.set` prescribe — the same function of the old cell as `MutexValue.inc` / `.set` (`pairs_fst`).
-/
import PromVerif.Lemmas.BackendsValues
import PromVerif.Lemmas.BackendsStatic

namespace PromVerif.Lemmas.Backends
open PromVerif.Py PromVerif.Generated.Multiprocess
open PromVerif.Model.Metrics (Val)
open PromVerif.Model.Multiprocess
open PromVerif.Model.Values
open PromVerif.Model.Backends
set_option autoImplicit false

variable {V : Type}

/-! ### positions -/

theorem pidx_spec (p : Params) : ∀ (ps : List Params), p ∈ ps → ps[pidx p ps]? = some p
  | [], h => by cases h
  | q :: r, h => by
    unfold pidx
    by_cases e : p ∈ r
    · simp only [e, if_true, List.getElem?_cons_succ]
      exact pidx_spec p r e
    · simp only [e, if_false, List.getElem?_cons_zero, Option.some.injEq]
      rcases List.mem_cons.mp h with e' | e'
      · exact e'.symm
      · exact absurd e' e

/-- no later object has the same parameters -/
theorem pidx_last (p : Params) : ∀ (ps : List Params) (j : Nat), pidx p ps < j → ps[j]? ≠ some p
  | [], j, _ => by simp
  | q :: r, j, hj => by
    unfold pidx at hj
    by_cases e : p ∈ r
    · simp only [e, if_true] at hj
      cases j with
      | zero => omega
      | succ j =>
        rw [List.getElem?_cons_succ]
        exact pidx_last p r j (by omega)
    · cases j with
      | zero => simp [e] at hj
      | succ j =>
        rw [List.getElem?_cons_succ]
        intro hget
        exact e (List.mem_of_getElem? hget)

theorem value_at_pidx (st : St V) (ps : List Params) (hps : st.values.map (·.params) = ps) (p : Params) (hp : p ∈ ps) :
    ∃ v, st.values[pidx p ps]? = some v ∧ v.params = p := by
  have := pidx_spec p ps hp
  rw [← hps, List.getElem?_map] at this
  cases hv : st.values[pidx p (st.values.map (·.params))]? with
  | none => rw [hv] at this; cases this
  | some v =>
    rw [hv] at this
    refine ⟨v, by rw [← hps]; exact hv, by simpa using this⟩

/-! ### constructing a block of new objects -/

theorem cellGet_none_of_new (vo : VOps V) (pid : Str) (st : St V) (h : VInv vo pid st) (p : Params)
    (hnew : idOf p ∉ st.values.map (fun v => idOf v.params)) : cellGet st.disk (fileOf pid p) (mmapKey p) = none := by
  unfold cellGet
  rw [AL.get?_eq_none_iff]
  have hk := h.keys (fileOf pid p)
  unfold storeOf at hk
  rw [hk]
  intro hm
  obtain ⟨q, hq, e⟩ := List.mem_map.mp hm
  have hq' := List.mem_filter.mp hq
  obtain ⟨v, hv, e2⟩ := List.mem_map.mp hq'.1
  apply hnew
  refine List.mem_map.mpr ⟨v, hv, ?_⟩
  rw [e2]
  unfold idOf
  have e3 : fileOf pid q = fileOf pid p := by simpa using hq'.2
  rw [fileName_inj_prefix _ _ _ e3, e]

theorem run_append (vo : VOps V) (st : St V) (a b : List (Op V)) : run vo st (a ++ b) = run vo (run vo st a) b := by
  simp [run, List.foldl_append]

/-- constructing objects on pairwise different NEW (prefix, key)s: appended in order, every cell value as before (the new
cells read zero: they did not exist) -/
theorem run_constructs (vo : VOps V) (pid : Str) : ∀ (qs : List Params) (st : St V), VInv vo pid st →
    (qs.map idOf).Nodup → (∀ q ∈ qs, idOf q ∉ st.values.map (fun v => idOf v.params)) →
    VInv vo pid (run vo st (qs.map Op.construct)) ∧
      (run vo st (qs.map Op.construct)).values.map (·.params) = st.values.map (·.params) ++ qs ∧
      (∀ fn k, cellVal vo (run vo st (qs.map Op.construct)).disk fn k = cellVal vo st.disk fn k) ∧
      (∀ q ∈ qs, cellVal vo st.disk (fileOf pid q) (mmapKey q) = (vo.zero, vo.zero))
  | [], st, h, _, _ => ⟨h, by simp [run], fun _ _ => rfl, fun q hq => by cases hq⟩
  | q :: qs, st, h, hnd, hnew => by
    simp only [List.map_cons, List.nodup_cons] at hnd
    obtain ⟨h1, hp1, hc1⟩ := vinv_construct vo pid st h q (hnew q List.mem_cons_self)
    have hnew' : ∀ q' ∈ qs, idOf q' ∉ (step vo st (.construct q)).1.values.map (fun v => idOf v.params) := by
      intro q' hq' hm
      have e : (step vo st (.construct q)).1.values.map (fun v => idOf v.params)
          = st.values.map (fun v => idOf v.params) ++ [idOf q] := by
        have := congrArg (List.map idOf) hp1
        simpa [List.map_map, Function.comp_def] using this
      rw [e] at hm
      rcases List.mem_append.mp hm with hm | hm
      · exact hnew q' (List.mem_cons_of_mem _ hq') hm
      · simp only [List.mem_singleton] at hm
        exact hnd.1 (hm ▸ List.mem_map.mpr ⟨q', hq', rfl⟩)
    obtain ⟨h2, hp2, hc2, hz2⟩ := run_constructs vo pid qs _ h1 hnd.2 hnew'
    simp only [List.map_cons, run_cons]
    refine ⟨h2, by rw [hp2, hp1]; simp, fun fn k => by rw [hc2, hc1], ?_⟩
    intro q' hq'
    rcases List.mem_cons.mp hq' with e | e
    · subst e
      unfold cellVal
      rw [cellGet_none_of_new vo pid st h q' (hnew q' List.mem_cons_self)]
      rfl
    · rw [← hc1]; exact hz2 q' e

/-! ### the value-object calls of one method call -/

/-- `MmapedValue.inc` / `.set` on the (value, timestamp) pair at a position -/
def pairUpd (vo : VOps V) (f : Nat → V × V) : CellUpd V → Nat → V × V
  | .inc pos a => fun j => if j = pos then (vo.add (f pos).1 a, vo.zero) else f j
  | .set pos x t => fun j => if j = pos then (x, tsOr0 vo t) else f j

def pairsAfter (vo : VOps V) (f : Nat → V × V) (us : List (CellUpd V)) : Nat → V × V := us.foldl (pairUpd vo) f

/-- the value components follow `MutexValue`'s arithmetic -/
theorem pairs_fst [Val V] : ∀ (us : List (CellUpd V)) (f : Nat → V × V) (vals : List V),
    (∀ j v, vals[j]? = some v → (f j).1 = v) →
    ∀ j v, (applyUpds vals us)[j]? = some v → (pairsAfter (voOf V) f us j).1 = v
  | [], f, vals, h => fun j v hv => h j v hv
  | u :: us, f, vals, h => by
    simp only [applyUpds, pairsAfter, List.foldl_cons]
    apply pairs_fst us
    intro j v hv
    cases u with
    | inc pos a =>
      simp only [applyUpd] at hv
      simp only [pairUpd]
      cases hp : vals[pos]? with
      | none =>
        rw [hp] at hv
        have : j ≠ pos := by intro e; subst e; rw [hp] at hv; cases hv
        simp [this, h j v hv]
      | some w =>
        rw [hp] at hv
        simp only [List.getElem?_set] at hv
        by_cases e : pos = j
        · subst e
          simp only [if_true] at hv
          split at hv
          · simp only [Option.some.injEq] at hv
            simp [← hv, h pos w hp, voOf]
          · cases hv
        · simp only [e, if_false] at hv
          simp [Ne.symm e, h j v hv]
    | set pos x t =>
      simp only [applyUpd, List.getElem?_set] at hv
      simp only [pairUpd]
      by_cases e : pos = j
      · subst e
        simp only [if_true] at hv
        split at hv
        · simp only [Option.some.injEq] at hv
          simp [← hv]
        · cases hv
      · simp only [e, if_false] at hv
        simp [Ne.symm e, h j v hv]

theorem applyUpds_length [Val V] : ∀ (us : List (CellUpd V)) (vals : List V), (applyUpds vals us).length = vals.length
  | [], _ => rfl
  | u :: us, vals => by
    simp only [applyUpds, List.foldl_cons]
    have := applyUpds_length us (applyUpd vals u)
    unfold applyUpds at this
    rw [this]
    cases u with
    | inc pos a => simp only [applyUpd]; cases vals[pos]? <;> simp
    | set pos x t => simp [applyUpd]

/-- running the calls of one method call: only the cells of the child move, as `pairsAfter` says -/
theorem run_updates (vo : VOps V) (pid : Str) (ps cells : List Params) (hcells : ∀ p ∈ cells, p ∈ ps)
    (hnd : (cells.map mmapKey).Nodup) : ∀ (us : List (CellUpd V)) (st : St V) (f : Nat → V × V), VInv vo pid st →
    st.values.map (·.params) = ps →
    (∀ j p, cells[j]? = some p → cellVal vo st.disk (fileOf pid p) (mmapKey p) = f j) →
    VInv vo pid (run vo st (us.flatMap (toVop ps cells))) ∧
      (run vo st (us.flatMap (toVop ps cells))).values.map (·.params) = ps ∧
      (∀ fn k, (∀ p ∈ cells, ¬ (fileOf pid p = fn ∧ mmapKey p = k)) →
        cellVal vo (run vo st (us.flatMap (toVop ps cells))).disk fn k = cellVal vo st.disk fn k) ∧
      (∀ j p, cells[j]? = some p →
        cellVal vo (run vo st (us.flatMap (toVop ps cells))).disk (fileOf pid p) (mmapKey p) = pairsAfter vo f us j)
  | [], st, f, h, hps, hf => by
    refine ⟨h, hps, fun _ _ _ => rfl, ?_⟩
    intro j p hj
    exact hf j p hj
  | u :: us, st, f, h, hps, hf => by
    -- the first call
    have key : ∃ st1, run vo st (toVop ps cells u) = st1 ∧ VInv vo pid st1 ∧ st1.values.map (·.params) = ps ∧
        (∀ fn k, (∀ p ∈ cells, ¬ (fileOf pid p = fn ∧ mmapKey p = k)) → cellVal vo st1.disk fn k = cellVal vo st.disk fn k) ∧
        (∀ j p, cells[j]? = some p → cellVal vo st1.disk (fileOf pid p) (mmapKey p) = pairUpd vo f u j) := by
      have hshape : (∃ pos : Nat, cells[pos]? = none ∧ toVop ps cells u = [] ∧
            (∀ j p, cells[j]? = some p → pairUpd vo f u j = f j)) ∨
          (∃ (pos : Nat) (p : Params) (op : Op V), cells[pos]? = some p ∧ toVop ps cells u = [op] ∧
            ((∃ a, u = .inc pos a ∧ op = .inc (pidx p ps) a) ∨ (∃ x t, u = .set pos x t ∧ op = .set (pidx p ps) x t))) := by
        cases u with
        | inc pos a =>
          cases hc : cells[pos]? with
          | none =>
            left
            refine ⟨pos, hc, by simp [toVop, hc], ?_⟩
            intro j p hj
            have : j ≠ pos := by intro e; subst e; rw [hc] at hj; cases hj
            simp [pairUpd, this]
          | some p => right; exact ⟨pos, p, _, hc, by simp [toVop, hc], Or.inl ⟨a, rfl, rfl⟩⟩
        | set pos x t =>
          cases hc : cells[pos]? with
          | none =>
            left
            refine ⟨pos, hc, by simp [toVop, hc], ?_⟩
            intro j p hj
            have : j ≠ pos := by intro e; subst e; rw [hc] at hj; cases hj
            simp [pairUpd, this]
          | some p => right; exact ⟨pos, p, _, hc, by simp [toVop, hc], Or.inr ⟨x, t, rfl, rfl⟩⟩
      rcases hshape with ⟨pos, _, hnil, hsame⟩ | ⟨pos, p, op, hc, hone, hop⟩
      · refine ⟨st, by rw [hnil]; rfl, h, hps, fun _ _ _ => rfl, ?_⟩
        intro j p hj
        rw [hsame j p hj]; exact hf j p hj
      · have hpm : p ∈ cells := List.mem_of_getElem? hc
        obtain ⟨v, hv, hvp⟩ := value_at_pidx st ps hps p (hcells p hpm)
        have hw := vinv_write vo pid st h op (by
          rcases hop with ⟨a, _, e⟩ | ⟨x, t, _, e⟩
          · exact Or.inl ⟨_, _, e⟩
          · exact Or.inr ⟨_, _, _, e⟩)
        have hcell := step_cell vo st op h.inv (opOK_of_nodup _ h.uniq op)
        have hact : st.actual = pid := h.hactual
        refine ⟨(step vo st op).1, by rw [hone]; rfl, hw.1, by rw [hw.2, hps], ?_, ?_⟩
        · intro fn k hno
          have hne : ¬ (fileName (filePrefix v.params) st.actual = fn ∧ mmapKey v.params = k) := by
            rw [hvp, hact]; exact hno p hpm
          rcases hop with ⟨a, _, e⟩ | ⟨x, t, _, e⟩ <;> subst e
          · have := hcell fn k
            simp only [hv, if_neg hne] at this
            exact this
          · have := hcell fn k
            simp only [hv, if_neg hne] at this
            exact this
        · intro j q hj
          have hmatch : (fileName (filePrefix v.params) st.actual = fileOf pid q ∧ mmapKey v.params = mmapKey q) ↔ j = pos := by
            rw [hvp, hact]
            constructor
            · rintro ⟨_, e2⟩
              apply Decidable.byContradiction
              intro hne
              have e1 : (cells.map mmapKey)[j]? = some (mmapKey q) := by rw [List.getElem?_map, hj]; rfl
              have e3 : (cells.map mmapKey)[pos]? = some (mmapKey p) := by rw [List.getElem?_map, hc]; rfl
              exact nodup_getElem?_ne _ hnd j pos _ _ e1 e3 hne e2.symm
            · intro e
              subst e
              rw [hc] at hj
              cases hj
              exact ⟨rfl, rfl⟩
          rcases hop with ⟨a, eu, e⟩ | ⟨x, t, eu, e⟩ <;> subst e <;> subst eu
          · have := hcell (fileOf pid q) (mmapKey q)
            simp only [hv] at this
            rw [this]
            simp only [pairUpd]
            by_cases e : j = pos
            · subst e
              rw [if_pos (hmatch.mpr rfl), hf j q hj]
              simp
            · have hn : ¬ (fileName (filePrefix v.params) st.actual = fileOf pid q ∧ mmapKey v.params = mmapKey q) :=
                fun hh => e (hmatch.mp hh)
              rw [if_neg hn, hf j q hj]
              simp [e]
          · have := hcell (fileOf pid q) (mmapKey q)
            simp only [hv] at this
            rw [this]
            simp only [pairUpd]
            by_cases e : j = pos
            · subst e
              rw [if_pos (hmatch.mpr rfl)]
              simp
            · have hn : ¬ (fileName (filePrefix v.params) st.actual = fileOf pid q ∧ mmapKey v.params = mmapKey q) :=
                fun hh => e (hmatch.mp hh)
              rw [if_neg hn, hf j q hj]
              simp [e]
    obtain ⟨st1, hst1, hv1, hp1, hf1, hc1⟩ := key
    have ih := run_updates vo pid ps cells hcells hnd us st1 (pairUpd vo f u) hv1 hp1 hc1
    have hst' : run vo st ((u :: us).flatMap (toVop ps cells)) = run vo st1 (us.flatMap (toVop ps cells)) := by
      rw [List.flatMap_cons, run_append, hst1]
    rw [hst']
    obtain ⟨i1, i2, i3, i4⟩ := ih
    refine ⟨i1, i2, fun fn k hno => by rw [i3 fn k hno, hf1 fn k hno], ?_⟩
    intro j p hj
    rw [i4 j p hj]
    simp [pairsAfter]

end PromVerif.Lemmas.Backends
