/-
C05 lemmas, part 5: number tokens — `floatToGoString` keeps a number token a number token; timestamps.
-/
import PromVerif.Lemmas.LinesBlocks

namespace PromVerif.Lemmas.Lines
open PromVerif.Py PromVerif.Model PromVerif.Model.Escape PromVerif.Model.Validation
open PromVerif.Generated.Expo PromVerif.Generated.Validation
open PromVerif.Spec.LineGrammar hiding Str

theorem floatTok_iff (s : Str) : floatTok s = true ↔ s ≠ [] ∧ ∀ c ∈ s, numCh c = true := by
  cases s <;> simp [floatTok]

theorem fmtExp_num (n : Nat) : ∀ c ∈ Utils.fmtExp n, numCh c = true := by
  intro c hc
  simp only [Utils.fmtExp, zpad, List.mem_append, List.mem_replicate] at hc
  rcases hc with ⟨_, rfl⟩ | hc
  · decide
  · have := all_numCh_of_isDig _ (decDigits_isDig n)
    simp only [List.all_eq_true] at this
    exact this c hc

theorem goFinite_numTok (pos : Bool) (s : Str) (h : floatTok s = true) :
    floatTok (Utils.goFinite pos s) = true := by
  rw [floatTok_iff] at h ⊢
  unfold Utils.goFinite
  split
  · next dot _ =>
    split
    · constructor
      · have : PromVerif.Generated.Utils.expLit ≠ [] := by decide
        simp [this]
      · intro c hc
        simp only [List.mem_append] at hc
        rcases hc with (hc | hc) | hc
        · have hall : (s.take 1 ++ ['.'] ++ (s.drop 1).take (dot - 1) ++ s.drop (dot + 1)).all numCh = true := by
            simp only [List.all_eq_true, List.mem_append]
            intro x hx
            rcases hx with ((hx | hx) | hx) | hx
            · exact h.2 x (List.mem_of_mem_take hx)
            · simp at hx; subst hx; decide
            · exact h.2 x (List.mem_of_mem_drop (List.mem_of_mem_take hx))
            · exact h.2 x (List.mem_of_mem_drop hx)
          have := rstripSet_all (fun c => PromVerif.Generated.Utils.stripChars.contains c) numCh _ hall
          simp only [List.all_eq_true] at this
          exact this c hc
        · have : ∀ x ∈ PromVerif.Generated.Utils.expLit, numCh x = true := by decide
          exact this c hc
        · exact fmtExp_num _ c hc
    · exact h
  · exact h

theorem go_numTok (s : Str) (h : floatTok s = true) : floatTok (Utils.floatToGoString s) = true := by
  unfold Utils.floatToGoString
  split
  · decide
  split
  · decide
  split
  · decide
  · exact goFinite_numTok _ s h

/-- what is assumed of a float timestamp's repr text (an `int` or `Timestamp` needs nothing) -/
def tsOK : Ts → Bool
  | .flt r => floatTok r
  | _ => true

theorem zpad_num (w : Nat) (s : Str) (h : ∀ c ∈ s, numCh c = true) : ∀ c ∈ zpad w s, numCh c = true := by
  intro c hc
  simp only [zpad, List.mem_append, List.mem_replicate] at hc
  rcases hc with ⟨_, rfl⟩ | hc
  · decide
  · exact h c hc

theorem decDigits_num (n : Nat) : ∀ c ∈ decDigits n, numCh c = true := by
  have := all_numCh_of_isDig _ (decDigits_isDig n)
  simpa only [List.all_eq_true] using this

theorem tsStr_numTok (t : Ts) (h : tsOK t = true) : floatTok (OMExpo.tsStr t) = true := by
  cases t with
  | int n => exact intStr_numTok n
  | flt r => exact h
  | stamp sec nsec =>
    rw [floatTok_iff]
    have hs := (floatTok_iff _).mp (intStr_numTok sec)
    constructor
    · simp [OMExpo.tsStr, OMExpo.stampStr]
    · intro c hc
      simp only [OMExpo.tsStr, OMExpo.stampStr, List.mem_append, List.mem_singleton] at hc
      rcases hc with (hc | hc) | hc
      · exact hs.2 c hc
      · subst hc; decide
      · cases nsec with
        | ofNat k => exact zpad_num 9 _ (decDigits_num k) c hc
        | negSucc k =>
          simp only [] at hc
          split at hc
          · exact zpad_num 9 _ (decDigits_num (k + 1)) c hc
          · simp only [List.mem_cons] at hc
            rcases hc with rfl | hc
            · decide
            · exact zpad_num 8 _ (decDigits_num (k + 1)) c hc

/-- the text format's millisecond timestamp, from the state after the value -/
theorem run_text_ts (m : Int) : run false .v (' ' :: intStr m) = .t := by
  have hsp : numCh ' ' = false := by decide
  have hmin : isDig '-' = false := by decide
  rw [run_cons]
  have : step false .v ' ' = .t0 := by simp [step, hsp]
  rw [this]
  cases m with
  | ofNat k =>
    exact run_tok false .t0 .t isDig (fun c hc => by simp [step, hc]) (fun c hc => by simp [step, hc])
      _ (decDigits_ne_nil k) (decDigits_isDig k)
  | negSucc k =>
    simp only [intStr, run_cons]
    have : step false .t0 '-' = .tm := by simp [step, hmin]
    rw [this]
    exact run_tok false .tm .t isDig (fun c hc => by simp [step, hc]) (fun c hc => by simp [step, hc])
      _ (decDigits_ne_nil (k + 1)) (decDigits_isDig (k + 1))

/-- a number token from the state that expects one -/
theorem run_value (om : Bool) (s : Str) (h : floatTok s = true) : run om .v0 s = .v := by
  rw [floatTok_iff] at h
  exact run_tok om .v0 .v numCh (fun c hc => by simp [step, hc]) (fun c hc => by simp [step, hc]) s h.1
    (by simpa only [List.all_eq_true] using h.2)

end PromVerif.Lemmas.Lines
