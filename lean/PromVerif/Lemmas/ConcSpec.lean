/-
Lemmas/ConcSpec — from the decidable check on a skeleton's CANONICAL code (`wellLockedB`) to the three disciplines of the
code of calls on arbitrary objects, and of whole thread programs.
-/
import PromVerif.Spec.Conc

set_option linter.unusedSectionVars false

namespace PromVerif.Spec.Conc
open PromVerif.Generated.Locks PromVerif.Model.Conc

section
variable {U : Type}

theorem wl_var {bk : Backend} {bl : CLabel → Bool} {code : List CMicro} (h : wellLockedCode bk bl code = true) (x : Var) :
    closedB (isL (guard bk x)) (isV x) bl code = true := by
  simp only [wellLockedCode, Bool.and_eq_true, List.all_eq_true] at h
  exact h.1.1 x (mem_allVars x)

theorem wl_lock {bk : Backend} {bl : CLabel → Bool} {code : List CMicro} (h : wellLockedCode bk bl code = true) (g : LockId) :
    closedB (isL g) never bl code = true := by
  simp only [wellLockedCode, Bool.and_eq_true, List.all_eq_true] at h
  exact h.1.2 g (mem_allLocks g)

theorem wl_wf {bk : Backend} {bl : CLabel → Bool} {code : List CMicro} (h : wellLockedCode bk bl code = true) :
    wfRun (rankOrder rank) code [] = some [] := by
  simp only [wellLockedCode, Bool.and_eq_true, beq_iff_eq] at h
  exact h.2

theorem closedB_spec {isG : LockId → Bool} {isX : Var → Bool} {bl : CLabel → Bool} {code : List CMicro}
    (h : closedB isG isX bl code = true) : ClosedP isG isX bl code ∧ ClosedItP isG isX code := by
  simp only [closedB, Bool.and_eq_true, beq_iff_eq] at h
  exact ⟨⟨h.1.1.1, h.1.1.2⟩, ⟨h.1.2, h.2⟩⟩

theorem closed_never (bl : CLabel → Bool) (code : List CMicro) :
    ClosedP (never : LockId → Bool) (never : Var → Bool) bl code ∧
    ClosedItP (never : LockId → Bool) (never : Var → Bool) code := by
  have a := discP_untouched (L := LockId) (X := Var) bl code .out
  have b := discItP_untouched (L := LockId) (X := Var) (U := CLabel) code false false
  exact ⟨⟨a.1, a.2⟩, ⟨b.1, b.2⟩⟩

/-- the guard / cell predicates of a concrete target, pulled back along a call's binding -/
theorem pullback_cases (bk : Backend) (c : Call U) (hr : c.Respects bk) (X0 : ICell) :
    let pG : LockId → Bool := (fun l : ILock => decide (l = guardOf bk X0)) ∘ (fun l => (l, c.lobj l))
    let pX : Var → Bool := (fun y : ICell => decide (y = X0)) ∘ (fun x => (x, c.vobj x))
    (pG = isL (guard bk X0.1) ∧ pX = isV X0.1) ∨ (pG = isL (guard bk X0.1) ∧ pX = never) ∨
    (pG = never ∧ pX = never) := by
  obtain ⟨xa, n⟩ := X0
  intro pG pX
  have hpX : ∀ (hv : c.vobj xa = n), pX = isV xa := by
    intro hv; funext x
    by_cases hx : x = xa
    · subst hx; simp [pX, isV, hv]
    · simp [pX, isV, hx]
  have hpXn : ∀ (hv : c.vobj xa ≠ n), pX = never := by
    intro hv; funext x
    by_cases hx : x = xa
    · subst hx; simp [pX, never, hv]
    · simp [pX, never, hx]
  have hpG : ∀ (hl : c.lobj (guard bk xa) = (guardOf bk (xa, n)).2), pG = isL (guard bk xa) := by
    intro hl; funext l
    by_cases hx : l = guard bk xa
    · subst hx
      simp only [pG, isL, Function.comp, decide_true, decide_eq_true_eq]
      exact Prod.ext rfl hl
    · simp [pG, isL, hx, guardOf]
  have hpGn : ∀ (hl : c.lobj (guard bk xa) ≠ (guardOf bk (xa, n)).2), pG = never := by
    intro hl; funext l
    by_cases hx : l = guard bk xa
    · subst hx
      simp only [pG, never, Function.comp, decide_eq_false_iff_not]
      intro e
      exact hl (congrArg Prod.snd e)
    · simp [pG, never, hx, guardOf]
  by_cases hv : c.vobj xa = n
  · left
    refine ⟨hpG ?_, hpX hv⟩
    have := hr xa
    rw [hv] at this
    exact this
  · right
    by_cases hl : c.lobj (guard bk xa) = (guardOf bk (xa, n)).2
    · exact Or.inl ⟨hpG hl, hpXn hv⟩
    · exact Or.inr ⟨hpGn hl, hpXn hv⟩

/-- the code of a well-locked call is closed for every concrete cell and its guard -/
theorem call_closed (bk : Backend) (blind : U → Bool) (c : Call U) (hwl : wellLockedCode bk c.bl0 c.code0 = true)
    (hr : c.Respects bk) (hb : c.BlindOk blind) (X0 : ICell) :
    ClosedP (fun l : ILock => decide (l = guardOf bk X0)) (fun y : ICell => decide (y = X0)) blind c.code ∧
    ClosedItP (fun l : ILock => decide (l = guardOf bk X0)) (fun y : ICell => decide (y = X0)) c.code := by
  unfold Call.code ClosedP ClosedItP
  rw [discP_map, endModeP_map, discItP_map, endItP_map]
  have key : ∀ (pG : LockId → Bool) (pX : Var → Bool),
      closedB pG pX (c.bl0) (c.code0) = true →
      (discP pG pX (blind ∘ c.lab) (c.code0) .out = true ∧ endModeP pG pX (c.code0) .out = .out) ∧
      (discItP pG pX (c.code0) false false = true ∧ endItP pG pX (c.code0) false false = (false, false)) := by
    intro pG pX h
    obtain ⟨a, b⟩ := closedB_spec h
    exact ⟨⟨discP_mono pG pX _ _ (fun x hx => hb x hx) _ _ a.1, a.2⟩, b⟩
  rcases pullback_cases bk c hr X0 with ⟨hG, hX⟩ | ⟨hG, hX⟩ | ⟨hG, hX⟩
  · rw [hG, hX]
    exact key _ _ (wl_var hwl X0.1)
  · rw [hG, hX]
    exact key _ _ (wl_lock hwl _)
  · rw [hG, hX]
    have a := discP_untouched (L := LockId) (X := Var) (blind ∘ c.lab) (c.code0) .out
    have b := discItP_untouched (L := LockId) (X := Var) (U := CLabel) (c.code0) false false
    exact ⟨⟨a.1, a.2⟩, ⟨b.1, b.2⟩⟩

/-- rank-ordered bracketing of a well-locked call -/
theorem call_wf (bk : Backend) (c : Call U) (hwl : wellLockedCode bk c.bl0 c.code0 = true) :
    wfRun (rankOrder irank) c.code [] = some [] := by
  unfold Call.code
  have h := wfRun_map (fun l : LockId => ((l, c.lobj l) : ILock)) (fun x : Var => ((x, c.vobj x) : ICell)) c.lab
    (fun a b e => congrArg Prod.fst e) (rankOrder rank) (rankOrder irank)
    (by intro hs l; simp [rankOrder, irank, List.all_map, Function.comp_def]; rfl) (c.code0) []
  simp only [List.map_nil] at h
  rw [h, wl_wf hwl]
  rfl

/-- the three disciplines hold of every thread program made of well-locked calls -/
theorem prog_ok (bk : Backend) (blind : U → Bool) (calls : List (Call U))
    (h : ∀ c ∈ calls, wellLockedCode bk c.bl0 c.code0 = true ∧ c.Respects bk ∧ c.BlindOk blind) (X0 : ICell) :
    disc (guardOf bk X0) X0 blind (progOf calls) .out = true ∧
    discIt (guardOf bk X0) X0 (progOf calls) false false = true ∧
    wf (rankOrder irank) (progOf calls) [] = true := by
  refine ⟨?_, ?_, ?_⟩
  · rw [disc_eq_discP]
    refine (closedP_flatten _ _ _ _ ?_).1
    intro p hp
    obtain ⟨c, hc, rfl⟩ := List.mem_map.mp hp
    exact (call_closed bk blind c (h c hc).1 (h c hc).2.1 (h c hc).2.2 X0).1
  · rw [discIt_eq_discItP]
    refine (closedItP_flatten _ _ _ ?_).1
    intro p hp
    obtain ⟨c, hc, rfl⟩ := List.mem_map.mp hp
    exact (call_closed bk blind c (h c hc).1 (h c hc).2.1 (h c hc).2.2 X0).2
  · refine wf_flatten _ _ ?_
    intro p hp
    obtain ⟨c, hc, rfl⟩ := List.mem_map.mp hp
    exact call_wf bk c (h c hc).1

end
end PromVerif.Spec.Conc
