/-
From "every contribution is one identity's own entry" to "the collected sum is the sum of all increments ever issued":
the summation argument (commutative monoid) over the files of a directory left by a world history.
-/
import PromVerif.Lemmas.MultiprocessCollect
import PromVerif.Lemmas.MultiprocessFresh

namespace PromVerif.Props.C08
open PromVerif.Py PromVerif.Generated.Multiprocess
open PromVerif.Model.Multiprocess PromVerif.Spec.Multiprocess PromVerif.Model.Values
set_option autoImplicit false

variable {V B : Type}

/-! ### sums over duplicate-free lists -/

theorem aggSum_filter_zero {α : Type} (vo : VOps V) (hzero : ∀ a, vo.add a vo.zero = a) (l : List α) (f : α → V)
    (p : α → Bool) (h : ∀ x ∈ l, p x = false → f x = vo.zero) (z : V) :
    (l.map f).foldl vo.add z = ((l.filter p).map f).foldl vo.add z := by
  induction l generalizing z with
  | nil => rfl
  | cons x r ih =>
    have ih' := ih (fun y hy => h y (List.mem_cons_of_mem _ hy))
    cases hp : p x with
    | true => simp only [List.map_cons, List.foldl_cons, List.filter_cons, hp, if_true]; exact ih' _
    | false =>
      simp only [List.map_cons, List.foldl_cons, List.filter_cons, hp, Bool.false_eq_true, if_false]
      rw [h x List.mem_cons_self hp, hzero]; exact ih' _

/-- two duplicate-free index lists give the same sum when the summand vanishes outside their intersection -/
theorem aggSum_support (vo : VOps V) (hcomm : ∀ a b, vo.add a b = vo.add b a)
    (hassoc : ∀ a b c, vo.add (vo.add a b) c = vo.add a (vo.add b c)) (hzero : ∀ a, vo.add vo.zero a = a)
    (A C : List Str) (hA : A.Nodup) (hC : C.Nodup) (f : Str → V)
    (h1 : ∀ x ∈ A, x ∉ C → f x = vo.zero) (h2 : ∀ x ∈ C, x ∉ A → f x = vo.zero) :
    aggSum vo (A.map f) = aggSum vo (C.map f) := by
  have hz : ∀ a, vo.add a vo.zero = a := fun a => by rw [hcomm]; exact hzero a
  unfold aggSum
  rw [aggSum_filter_zero vo hz A f (fun x => decide (x ∈ C)) (fun x hx hp => h1 x hx (by simpa using hp)),
      aggSum_filter_zero vo hz C f (fun x => decide (x ∈ A)) (fun x hx hp => h2 x hx (by simpa using hp))]
  have hperm : (A.filter (fun x => decide (x ∈ C))).Perm (C.filter (fun x => decide (x ∈ A))) := by
    rw [List.perm_ext_iff_of_nodup (hA.sublist List.filter_sublist) (hC.sublist List.filter_sublist)]
    intro a
    simp only [List.mem_filter, decide_eq_true_eq]
    exact ⟨fun h => ⟨h.2, h.1⟩, fun h => ⟨h.2, h.1⟩⟩
  apply List.Perm.foldl_eq' (hperm.map f)
  intro x _ y _ z
  rw [hassoc, hassoc, hcomm x y]

theorem foldl_add_flatMap {α : Type} (vo : VOps V) (l : List α) (h : α → List V) (z : V) :
    (l.flatMap h).foldl vo.add z = l.foldl (fun acc a => (h a).foldl vo.add acc) z := by
  induction l generalizing z with
  | nil => rfl
  | cons x r ih => simp only [List.flatMap_cons, List.foldl_append, List.foldl_cons]; exact ih _

/-- the entries of a duplicate-free store selected by a predicate that singles out one key -/
theorem filter_single_key (s : Store V) (hs : (AL.keys s).Nodup) (sel : Key → Bool) (K : Key)
    (hsel : ∀ e ∈ s, sel e.1 = true → e.1 = K) (hK : sel K = true) :
    (s.filter (fun e => sel e.1)).map (·.2.1) = match AL.get? s K with | some vt => [vt.1] | none => [] := by
  induction s with
  | nil => rfl
  | cons x r ih =>
    obtain ⟨k', vt⟩ := x
    simp only [AL.keys, List.map_cons, List.nodup_cons] at hs
    have ih' := ih hs.2 (fun e he => hsel e (List.mem_cons_of_mem _ he))
    by_cases hk : k' = K
    · subst hk
      have hnone : r.filter (fun e => sel e.1) = [] := by
        rw [List.filter_eq_nil_iff]
        intro e he hse
        have := hsel e (List.mem_cons_of_mem _ he) hse
        exact hs.1 (List.mem_map.mpr ⟨e, he, this⟩)
      simp [List.filter_cons, hK, hnone, AL.get?_cons]
    · have : sel k' = false := by
        cases h : sel k' with
        | false => rfl
        | true => exact absurd (hsel (k', vt) List.mem_cons_self h) hk
      simp only [List.filter_cons, this, Bool.false_eq_true, if_false, AL.get?_cons, hk]
      exact ih'

/-! ### the selected contributions of a directory -/

theorem allContribs_sfiles (disk : List (Str × Store V)) :
    allContribs (sfiles disk) = disk.flatMap (fun f => contribsOf (sfileOf f)) := by
  unfold allContribs sfiles
  rw [List.flatMap_map]

/-- summing the selected contributions file by file -/
theorem selected_values (vo : VOps V) (hcomm : ∀ a b, vo.add a b = vo.add b a) (hzero : ∀ a, vo.add vo.zero a = a)
    (disk : List (Str × Store V)) (hnames : (AL.keys disk).Nodup) (hstores : ∀ f ∈ disk, (AL.keys f.2).Nodup)
    (sel : Key → Bool) (K : Key) (hK : sel K = true) (hsel : ∀ f ∈ disk, ∀ e ∈ f.2, sel e.1 = true → e.1 = K) :
    aggSum vo (((allContribs (sfiles disk)).filter (fun c => sel c.key)).map (·.value))
      = aggSum vo ((AL.keys disk).map (fun fn => (cellVal vo disk fn K).1)) := by
  have hz : ∀ a, vo.add a vo.zero = a := fun a => by rw [hcomm]; exact hzero a
  rw [allContribs_sfiles, List.filter_flatMap, List.map_flatMap]
  unfold aggSum
  rw [foldl_add_flatMap]
  -- per file
  have hfile : ∀ f ∈ disk, ((contribsOf (sfileOf f)).filter (fun c => sel c.key)).map (·.value)
      = match AL.get? f.2 K with | some vt => [vt.1] | none => [] := by
    intro f hf
    have : ((contribsOf (sfileOf f)).filter (fun c => sel c.key)).map (·.value)
        = (f.2.filter (fun e => sel e.1)).map (·.2.1) := by
      unfold contribsOf sfileOf
      simp only [List.filter_map, List.map_map]
      rfl
    rw [this]
    exact filter_single_key f.2 (hstores f hf) sel K (hsel f hf) hK
  have hcell : ∀ f ∈ disk, cellVal vo disk f.1 K = (AL.get? f.2 K).getD (vo.zero, vo.zero) := by
    intro f hf
    unfold cellVal cellGet
    rw [AL.getD_eq, AL.get?_of_mem disk hnames f.1 f.2 hf]; rfl
  suffices ∀ (l : List (Str × Store V)) (z : V), (∀ f ∈ l, f ∈ disk) →
      l.foldl (fun acc a => (((contribsOf (sfileOf a)).filter (fun c => sel c.key)).map (·.value)).foldl vo.add acc) z
        = ((AL.keys l).map (fun fn => (cellVal vo disk fn K).1)).foldl vo.add z from this disk vo.zero (fun _ h => h)
  intro l
  induction l with
  | nil => intro z _; rfl
  | cons f r ih =>
    intro z hl
    have hf := hl f List.mem_cons_self
    simp only [List.foldl_cons, AL.keys, List.map_cons]
    rw [hfile f hf, hcell f hf]
    have := ih (match AL.get? f.2 K with | some vt => vo.add z vt.1 | none => z)
      (fun g hg => hl g (List.mem_cons_of_mem _ hg))
    cases hg : AL.get? f.2 K with
    | some vt =>
      rw [hg] at this
      simp only [List.foldl_cons, List.foldl_nil, Option.getD_some]
      exact this
    | none =>
      rw [hg] at this
      simp only [List.foldl_nil, Option.getD_none, hz]
      exact this

/-! ### cells of non-live files -/

/-- a file whose prefix is a non-gauge type is never a live-gauge file -/
theorem nonlive_prefix (t : Str) (ht : t ∈ workerTypes) (q p : Str) (hq : '_' ∉ q) (hp : '_' ∉ p) :
    isLiveFileOf q (fileName t p) = false := by
  cases h : isLiveFileOf q (fileName t p) with
  | false => rfl
  | true =>
    unfold isLiveFileOf at h
    rw [List.any_eq_true] at h
    obtain ⟨m, _, hm⟩ := h
    have := of_decide_eq_true hm
    rw [deadName_fileName] at this
    have e := (fileName_inj _ _ _ _ hp hq this).1
    have : '_' ∈ t := by rw [e]; simp [gaugePrefixSep]
    exact absurd this (workerTypes_facts t ht).2

theorem foldl_ownStep_foreign (vo : VOps V) (p : Str) (us : List (Upd V)) (pids : List Str) (hp : p ∉ pids)
    (hinc : ∀ u ∈ us, ∃ q a, u = Upd.inc q a ∧ q ∈ pids) (cell : V × V) : us.foldl (ownStep vo p) cell = cell := by
  induction us generalizing cell with
  | nil => rfl
  | cons u r ih =>
    obtain ⟨q, a, rfl, hq⟩ := hinc u List.mem_cons_self
    have : q ≠ p := fun e => hp (e ▸ hq)
    simp only [List.foldl_cons, ownStep, this, if_false]
    exact ih (fun u' hu' => hinc u' (List.mem_cons_of_mem _ hu')) _

/-- conservation over a world history for a non-live series (`C09.conservation_world_partial`, restated here for use in
    the composition) -/
theorem world_sum (vo : VOps V) (hcomm : ∀ a b, vo.add a b = vo.add b a)
    (hassoc : ∀ a b c, vo.add (vo.add a b) c = vo.add a (vo.add b c)) (hzero : ∀ a, vo.add vo.zero a = a)
    (p0 : Str) (hp0 : '_' ∉ p0) (evs : List (Ev V)) (hev : evsIdOK evs)
    (hu : wFresh vo (St.init p0) (fun _ => true) evs = true)
    (pre : Str) (k : Key) (pids : List Str) (hnd : pids.Nodup) (hpids : ∀ p ∈ pids, '_' ∉ p)
    (hlive : ∀ p ∈ pids, isLiveFileOf p (fileName pre p) = false)
    (hinc : ∀ u ∈ wUpds (wLog vo pre k p0 p0 [] evs), ∃ q a, u = Upd.inc q a ∧ q ∈ pids) :
    aggSum vo (pids.map (fun p => (cellVal vo (wrun vo (St.init p0) evs).disk (fileName pre p) k).1))
      = incTotal vo (wUpds (wLog vo pre k p0 p0 [] evs)) := by
  have hcell : pids.map (fun p => (cellVal vo (wrun vo (St.init p0) evs).disk (fileName pre p) k).1)
      = pids.map (fun p => ((wUpds (wLog vo pre k p0 p0 [] evs)).foldl (ownStep vo p) (vo.zero, vo.zero)).1) := by
    apply List.map_congr_left
    intro p hp
    rw [wrun_cell_fresh vo pre k p (hpids p hp) evs (St.init p0) _ (bound_init p0) (freshInv_init vo p0 _) ⟨hp0, hp0⟩ hev hu,
      hlive p hp,
      foldl_wOwn_nonlive]
    rfl
  rw [hcell]
  have := sum_ownCells vo hcomm hassoc pids hnd _ hinc (fun _ => (vo.zero, vo.zero))
  unfold aggSum
  rw [this]
  have hz : (pids.map (fun _ => vo.zero)).foldl vo.add vo.zero = vo.zero := by
    clear this hcell hinc hlive hpids hnd
    induction pids with
    | nil => rfl
    | cons x r ih => simp only [List.map_cons, List.foldl_cons, hzero]; exact ih
  rw [hz]
  rfl

end PromVerif.Props.C08
