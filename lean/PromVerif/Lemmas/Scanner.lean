/-
The quote-aware scanner `_next_unquoted_char` as an automaton over (in-quotes, odd-backslash-run), and its behaviour
on escaped text: scanning `escape v` from inside quotes never reports a position and ends inside quotes with even
parity; hence in `"escape(v)"rest` the first unquoted occurrence of a character of `chs` (with '"' ∉ chs) lies in rest.
-/
import PromVerif.Lemmas.Escape

namespace PromVerif.Lemmas.Scanner
open PromVerif.Py PromVerif.Model.Escape PromVerif.Model.ParseCore PromVerif.Lemmas.Escape

/-- in-quotes flag after looking at `c` -/
def qStep (inQ odd : Bool) (c : Char) : Bool := if c == '"' && !odd then !inQ else inQ

/-- scanner state after passing over a string -/
def run : Str → Bool → Bool → Bool × Bool
  | [], q, o => (q, o)
  | c :: cs, q, o => run cs (qStep q o c) (bsStep o c)

/-- the scanner reports no position inside the string -/
def noHit (chs : Char → Bool) : Str → Bool → Bool → Bool
  | [], _, _ => true
  | c :: cs, q, o => !(!(qStep q o c) && chs c) && noHit chs cs (qStep q o c) (bsStep o c)

/-- `_next_unquoted_char` relative to the current position, from an arbitrary scanner state -/
def scan (chs : Char → Bool) (t : Str) (inQ odd : Bool) : Option Nat := nextUnquotedAux chs 0 t 0 inQ odd

theorem aux_cons (chs : Char → Bool) (start : Nat) (c : Char) (cs : Str) (i : Nat) (inQ odd : Bool) :
    nextUnquotedAux chs start (c :: cs) i inQ odd =
      if i < start then nextUnquotedAux chs start cs (i + 1) inQ (bsStep odd c)
      else if !(qStep inQ odd c) && chs c then some i
      else nextUnquotedAux chs start cs (i + 1) (qStep inQ odd c) (bsStep odd c) := by
  rw [nextUnquotedAux]; rfl

theorem aux_shift (chs : Char → Bool) (t : Str) : ∀ (start i : Nat) (inQ odd : Bool), start ≤ i →
    nextUnquotedAux chs start t i inQ odd = (scan chs t inQ odd).map (· + i) := by
  induction t with
  | nil => intro start i inQ odd _; simp [scan, nextUnquotedAux]
  | cons c cs ih =>
    intro start i inQ odd h
    unfold scan
    rw [aux_cons, aux_cons]
    have h1 : ¬ i < start := by omega
    simp only [h1, ↓reduceIte, Nat.not_lt_zero]
    by_cases hh : (!(qStep inQ odd c) && chs c) = true
    · simp [hh]
    · simp only [hh, ↓reduceIte]
      rw [ih start (i + 1) _ _ (by omega), ih 0 (0 + 1) _ _ (by omega)]
      simp only [Bool.false_eq_true, ↓reduceIte, Option.map_map]
      congr 1
      funext n
      simp only [Function.comp]
      omega

theorem aux_skip (chs : Char → Bool) (start : Nat) (t : Str) (pre : Str) : ∀ (i : Nat) (inQ odd : Bool),
    i + pre.length ≤ start →
    nextUnquotedAux chs start (pre ++ t) i inQ odd =
      nextUnquotedAux chs start t (i + pre.length) inQ (pre.foldl bsStep odd) := by
  induction pre with
  | nil => intro i inQ odd _; simp
  | cons c cs ih =>
    intro i inQ odd h
    simp only [List.length_cons] at h
    rw [List.cons_append, aux_cons]
    have h1 : i < start := by omega
    simp only [h1, ↓reduceIte]
    rw [ih (i + 1) _ _ (by omega)]
    simp only [List.length_cons, List.foldl_cons]
    congr 1
    omega

theorem nextUnquotedChar_zero (text : Str) (chs : Char → Bool) : nextUnquotedChar text chs 0 = scan chs text false false := rfl

/-- scanning from `start = len(pre)` only tracks the backslash parity over `pre` -/
theorem nextUnquotedChar_from (pre t : Str) (chs : Char → Bool) :
    nextUnquotedChar (pre ++ t) chs pre.length = (scan chs t false (pre.foldl bsStep false)).map (· + pre.length) := by
  unfold nextUnquotedChar
  rw [aux_skip chs pre.length t pre 0 false false (by omega)]
  rw [aux_shift chs t pre.length (0 + pre.length) false _ (by omega)]
  simp

theorem scan_nil (chs : Char → Bool) (q o : Bool) : scan chs [] q o = none := by simp [scan, nextUnquotedAux]

theorem scan_cons (chs : Char → Bool) (c : Char) (cs : Str) (q o : Bool) :
    scan chs (c :: cs) q o =
      if !(qStep q o c) && chs c then some 0 else (scan chs cs (qStep q o c) (bsStep o c)).map (· + 1) := by
  unfold scan
  rw [aux_cons]
  simp only [Nat.not_lt_zero, ↓reduceIte]
  by_cases hh : (!(qStep q o c) && chs c) = true
  · simp [hh]
  · simp only [hh, ↓reduceIte]
    rw [aux_shift chs cs 0 (0 + 1) _ _ (by omega)]; rfl

theorem run_append (a b : Str) : ∀ q o, run (a ++ b) q o = run b (run a q o).1 (run a q o).2 := by
  induction a with
  | nil => intro q o; rfl
  | cons c cs ih => intro q o; simp only [List.cons_append, run]; exact ih _ _

theorem noHit_append (chs : Char → Bool) (a b : Str) : ∀ q o,
    noHit chs (a ++ b) q o = (noHit chs a q o && noHit chs b (run a q o).1 (run a q o).2) := by
  induction a with
  | nil => intro q o; simp [noHit, run]
  | cons c cs ih => intro q o; simp only [List.cons_append, noHit, run, ih, Bool.and_assoc]

/-- a prefix the scanner passes without reporting: continue after it in the state it leaves -/
theorem scan_append_of_noHit (chs : Char → Bool) (p t : Str) : ∀ q o, noHit chs p q o = true →
    scan chs (p ++ t) q o = (scan chs t (run p q o).1 (run p q o).2).map (· + p.length) := by
  induction p with
  | nil => intro q o _; simp [run]
  | cons c cs ih =>
    intro q o h
    simp only [noHit, Bool.and_eq_true, Bool.not_eq_true'] at h
    rw [List.cons_append, scan_cons]
    simp only [h.1, Bool.false_eq_true, ↓reduceIte]
    rw [ih _ _ h.2]
    simp only [run, Option.map_map, List.length_cons]
    congr 1

theorem scan_none_of_noHit (chs : Char → Bool) (p : Str) (q o : Bool) (h : noHit chs p q o = true) :
    scan chs p q o = none := by
  have := scan_append_of_noHit chs p [] q o h
  simpa [scan_nil] using this

/-- an unquoted occurrence at the current position -/
theorem scan_hit (chs : Char → Bool) (c : Char) (t : Str) (o : Bool) (hq : c ≠ '"') (hc : chs c = true) :
    scan chs (c :: t) false o = some 0 := by
  rw [scan_cons]
  have : (c == '"') = false := by simpa using hq
  simp [qStep, this, hc]

-- plain text ---------------------------------------------------------------------------------------------------

/-- passing over text without quote, backslash or a wanted character changes nothing -/
theorem plain_pass (chs : Char → Bool) (p : Str) (h : ∀ c ∈ p, c ≠ '"' ∧ c ≠ '\\' ∧ chs c = false) :
    noHit chs p false false = true ∧ run p false false = (false, false) := by
  induction p with
  | nil => exact ⟨rfl, rfl⟩
  | cons c cs ih =>
    obtain ⟨h1, h2, h3⟩ := h c (by simp)
    have e1 : (c == '"') = false := by simpa using h1
    have e2 : (c == '\\') = false := by simpa using h2
    have ih' := ih (fun d hd => h d (by simp [hd]))
    simp only [noHit, run, qStep, bsStep, e1, e2, h3, Bool.false_and, Bool.and_false, Bool.false_eq_true, ↓reduceIte,
      Bool.not_false, Bool.true_and]
    exact ih'

-- escaped text inside quotes -------------------------------------------------------------------------------------

theorem escChar_pass (chs : Char → Bool) (c : Char) :
    noHit chs (escChar c) true false = true ∧ run (escChar c) true false = (true, false) := by
  unfold escChar
  by_cases h1 : c = '\\'
  · subst h1; simp only [↓reduceIte]; exact ⟨by simp [noHit, qStep, bsStep], by simp [run, qStep, bsStep]⟩
  · by_cases h2 : c = '\n'
    · subst h2; simp only [h1, ↓reduceIte]; exact ⟨by simp [noHit, qStep, bsStep], by simp [run, qStep, bsStep]⟩
    · by_cases h3 : c = '"'
      · subst h3; simp only [h1, h2, ↓reduceIte]; exact ⟨by simp [noHit, qStep, bsStep], by simp [run, qStep, bsStep]⟩
      · simp only [h1, h2, h3, ↓reduceIte]
        have e1 : (c == '"') = false := by simpa using h3
        have e2 : (c == '\\') = false := by simpa using h1
        exact ⟨by simp [noHit, qStep, e1], by simp [run, qStep, bsStep, e1, e2]⟩

/-- **scanner invariant**: scanning `escape v` from (in quotes, even parity) never reports a position and ends in
(in quotes, even parity) — for every wanted set `chs` and every string `v` -/
theorem scan_escape (chs : Char → Bool) (v : Str) :
    noHit chs (escape v) true false = true ∧ run (escape v) true false = (true, false) := by
  induction v with
  | nil => rw [escape_nil]; exact ⟨rfl, rfl⟩
  | cons c cs ih =>
    rw [escape_cons, noHit_append, run_append]
    have := escChar_pass chs c
    rw [this.1, this.2]
    simpa using ih

/-- a whole quoted string `"escape(v)"` is passed from the unquoted state back to the unquoted state -/
theorem quoted_pass (chs : Char → Bool) (hq : chs '"' = false) (v : Str) :
    noHit chs ('"' :: (escape v ++ ['"'])) false false = true ∧
      run ('"' :: (escape v ++ ['"'])) false false = (false, false) := by
  have h := scan_escape chs v
  have a1 : qStep false false '"' = true := rfl
  have a2 : bsStep false '"' = false := rfl
  refine ⟨?_, ?_⟩
  · rw [noHit, a1, a2, noHit_append, h.1, h.2]
    simp [noHit, qStep, hq]
  · rw [run, a1, a2, run_append, h.2]
    simp [run, qStep, bsStep]

/-- **the first unquoted occurrence of a character of `chs` (with '"' ∉ chs) in `"escape(v)"rest` lies in rest** -/
theorem nextUnquoted_skips_quoted (chs : Char → Bool) (hq : chs '"' = false) (v rest : Str) :
    nextUnquotedChar ('"' :: (escape v ++ ['"']) ++ rest) chs 0 =
      (nextUnquotedChar rest chs 0).map (· + ((escape v).length + 2)) := by
  rw [nextUnquotedChar_zero, nextUnquotedChar_zero]
  have h := quoted_pass chs hq v
  rw [scan_append_of_noHit chs _ rest false false h.1, h.2]
  simp

end PromVerif.Lemmas.Scanner
