/-
C04, the converse at family level: what `omParse` returns.  Every family it yields went through `build_metric` (name accepted by
`Metric()`, type among METRIC_TYPES, unit suffixing the name) and every float-valued sample in it is what `_parse_sample` made of
some line — so the line-level converse (`reparse_line`) applies to each of them.
-/
import PromVerif.Lemmas.OMRtConv3
import PromVerif.Lemmas.OMRtDoc3
import PromVerif.Lemmas.OMGroup
import PromVerif.Lemmas.OMDoom

set_option autoImplicit false

namespace PromVerif.Lemmas.OMRt
open PromVerif.Py PromVerif.Model PromVerif.Model.ParseCore PromVerif.Model.Validation
open PromVerif.Model.OMParse PromVerif.Spec.OMRoundtrip PromVerif.Lemmas.TextParse PromVerif.Generated.OMParse
open PromVerif.Lemmas.OM

/-- where a sample of a parsed family comes from: `_parse_sample` on some line, or `_parse_nh_sample` (native histogram) -/
def SampleProv (P : Params) (s : OSample) : Prop := s.nh.isSome = true ∨ ∃ line, parseSample P line = .ok s

/-- what `build_metric` guarantees about a family it returned -/
structure FamWf (P : Params) (f : OFamily) : Prop where
  name : validateMetricName P.legacy f.name = .ok ()
  typ : f.typ ∈ metricTypes
  unitSuffix : f.unit.isEmpty = false → endsWith ('_' :: f.unit) f.name = true
  samples : ∀ s ∈ f.samples, SampleProv P s

theorem runChecks_ok_mem : ∀ (cs : List (PyM Unit)), runChecks cs = .ok () → ∀ c ∈ cs, c = .ok () := by
  intro cs
  induction cs with
  | nil => intro _ c hc; cases hc
  | cons x xs ih =>
    intro h c hc
    cases x with
    | error e => simp [runChecks] at h
    | ok u =>
      simp only [runChecks] at h
      rcases List.mem_cons.mp hc with rfl | hm
      · rfl
      · exact ih h c hm

theorem raiseIf_ok {b : Bool} (h : raiseIf b = .ok ()) : b = false := by
  cases b
  · rfl
  · cases h

/-- a successful flush leaves the output as it is (no current family) or appends the current family, which passed the tests of
`build_metric` -/
theorem flush_out (P : Params) (g g' : Glob) (h : Hdr) (samples : List OSample) (hf : flush P g h samples = .ok g') :
    g'.out = g.out ∨ ∃ n, h.name = some n ∧ g'.out = g.out ++ [⟨n, h.doc.getD [], h.typ.getD tUnknown, h.unit.getD [], samples⟩] ∧
      validateMetricName P.legacy n = .ok () ∧ h.typ.getD tUnknown ∈ metricTypes ∧
      ((h.unit.getD []).isEmpty = false → endsWith ('_' :: h.unit.getD []) n = true) := by
  unfold flush at hf
  cases hn : h.name with
  | none => rw [hn] at hf; cases hf; left; rfl
  | some n =>
    rw [hn] at hf
    simp only [buildMetric] at hf
    cases hc : runChecks (buildChecks P g.seenNames n (h.typ.getD tUnknown) (h.unit.getD []) samples) with
    | error e => rw [hc] at hf; cases hf
    | ok u =>
      rw [hc] at hf
      cases hf
      right
      have hall := runChecks_ok_mem _ hc
      refine ⟨n, rfl, rfl, hall _ (by simp [buildChecks]), ?_, ?_⟩
      · have := raiseIf_ok (hall (raiseIf (!metricTypes.contains (h.typ.getD tUnknown))) (by simp [buildChecks]))
        simpa using this
      · intro hu
        have := raiseIf_ok (hall (raiseIf (!(h.unit.getD []).isEmpty && !endsWith ('_' :: h.unit.getD []) n)) (by simp [buildChecks]))
        simpa [hu] using this

theorem parseNhSample_nh (P : Params) (text : Str) (suff : List Str) (s : OSample) (h : parseNhSample P text suff = .ok (some s)) :
    s.nh.isSome = true := by
  unfold parseNhSample at h
  cases hd : nhDetect text with
  | error e => rw [hd] at h; cases h
  | ok o =>
    rw [hd] at h
    cases o with
    | none => cases h
    | some pos =>
      dsimp only at h
      by_cases hm : pos.hasMetricLabels = true
      · rw [if_pos hm] at h
        cases hl : parseLabels P.legacy (pySlice text (pos.labelsStart + 1) pos.labelsEnd) true with
        | error e => rw [hl] at h; cases h
        | ok labels =>
          rw [hl] at h
          dsimp only at h
          cases hn : nhNameLabels suff (pySlice text 0 pos.labelsStart) labels with
          | error e => rw [hn] at h; cases h
          | ok nl =>
            obtain ⟨name, lb⟩ := nl
            rw [hn] at h
            dsimp only at h
            cases hs : parseNhStruct P (text.drop pos.valueStart) with
            | error e => rw [hs] at h; cases h
            | ok nh => rw [hs] at h; cases h; rfl
      · rw [if_neg hm] at h
        by_cases he : endsWithAny suff (pySlice text 0 (Int.ofNat pos.valueStart - 1)) = true
        · rw [if_pos he] at h; cases h
        · rw [if_neg he] at h
          cases hs : parseNhStruct P (text.drop pos.valueStart) with
          | error e => rw [hs] at h; cases h
          | ok nh => rw [hs] at h; cases h; rfl

theorem parseNhLine_nh (P : Params) (text : Str) (s : OSample) (h : parseNhLine P text = .ok (some s)) : s.nh.isSome = true := by
  unfold parseNhLine at h
  split at h
  · cases h
  · exact parseNhSample_nh P text _ s h

/-- the sample the loop picks: the native-histogram reading, or the plain one -/
theorem pickSample_prov (P : Params) (typ : Option Str) (line : Str) (s : OSample) (isNh : Bool)
    (h : pickSample typ (parseNhLine P line) (parseSample P line) = .ok (s, isNh)) : SampleProv P s := by
  unfold pickSample at h
  split at h
  · cases hn : parseNhLine P line with
    | error e => rw [hn] at h; cases h
    | ok o =>
      rw [hn] at h
      cases o with
      | some x => cases h; exact Or.inl (parseNhLine_nh P line _ hn)
      | none =>
        simp only [Except.map] at h
        cases hp : parseSample P line with
        | error e => rw [hp] at h; cases h
        | ok y => rw [hp] at h; cases h; exact Or.inr ⟨line, hp⟩
  · simp only [Except.map] at h
    cases hp : parseSample P line with
    | error e => rw [hp] at h; cases h
    | ok y => rw [hp] at h; cases h; exact Or.inr ⟨line, hp⟩

theorem nhSkips_on : nhSkipsChecks = true := by decide

/-- the samples kept after one more sample: the earlier ones and possibly the new one -/
theorem sampleChecks_subset (P : Params) (h : Hdr) (gr gr' : Grp) (s : OSample) (isNh : Bool)
    (hs : sampleChecks P h gr s isNh = .ok gr') : ∀ x ∈ gr'.samples, x ∈ gr.samples ∨ x = s := by
  cases isNh with
  | true =>
    unfold sampleChecks at hs
    simp only [nhSkips_on, Bool.and_self, ↓reduceIte] at hs
    cases hs
    intro x hx
    simpa using hx
  | false =>
    cases hn : h.name with
    | none => rw [sampleChecks_false, hn] at hs; cases hs
    | some n =>
      obtain ⟨g, ls, _, _, _, _, hsm⟩ := groupStep_ok P gr gr' n _ s (sampleChecks_ok P h gr gr' s n hn hs)
      dsimp only at hsm
      intro x hx
      rw [hsm] at hx
      by_cases c : (!tsEq P s.ts gr.groupTs ||
          !(if gr.group.isSome && gr.group == some g then gr.gtsSamples else []).contains (s.name, sortByKey ls)) = true
      · rw [if_pos c] at hx
        rcases List.mem_append.mp hx with h1 | h1
        · exact Or.inl h1
        · exact Or.inr (by simpa using h1)
      · rw [if_neg c] at hx; exact Or.inl hx

/-- the invariant of the family state machine on the lines of a document -/
def ProvInv (P : Params) (st : St) : Prop :=
  (∀ f ∈ st.glob.out, FamWf P f) ∧ (∀ s ∈ st.grp.samples, SampleProv P s)

theorem flush_inv (P : Params) (st : St) (g : Glob) (hq : ProvInv P st) (hf : flush P st.glob st.hdr st.grp.samples = .ok g) :
    ∀ f ∈ g.out, FamWf P f := by
  rcases flush_out P _ _ _ _ hf with e | ⟨n, _, e, h1, h2, h3⟩
  · rw [e]; exact hq.1
  · rw [e]
    intro f hfm
    rcases List.mem_append.mp hfm with hm | hm
    · exact hq.1 f hm
    · simp only [List.mem_cons, List.not_mem_nil, or_false] at hm
      subst hm
      exact ⟨h1, h2, h3, hq.2⟩

theorem provInv_step (P : Params) (st st' : St) (line : Str) (hq : ProvInv P st) (h : stepLine P st (parseLine P line) = .ok st') :
    ProvInv P st' := by
  obtain ⟨_, hc⟩ := stepLine_ok P st st' _ h
  rcases hc with ⟨_, rfl⟩ | ⟨kind, cand, rest, _, hm⟩ | ⟨nh, plain, s, isNh, hl, hp, hss⟩
  · exact hq
  · rcases stepMeta_ok P st st' _ _ _ hm with ⟨_, g, hd, hf, _, rfl⟩ | ⟨_, hd, _, rfl⟩
    · exact ⟨flush_inv P st g hq hf, fun s hs => by cases hs⟩
    · exact hq
  · -- a sample line: which line it is
    have hprov : SampleProv P s := by
      unfold parseLine at hl
      repeat' split at hl
      all_goals first
        | (cases hl; done)
        | (cases hl; exact pickSample_prov P _ line s isNh hp)
    rcases stepSample_ok P st st' s isNh hss with ⟨_, g, hd, gr, hf, _, hsc, rfl⟩ | ⟨_, gr, hsc, rfl⟩
    · refine ⟨flush_inv P st g hq hf, ?_⟩
      intro x hx
      rcases sampleChecks_subset P hd {} gr s isNh hsc x hx with h1 | h1
      · cases h1
      · rw [h1]; exact hprov
    · refine ⟨hq.1, ?_⟩
      intro x hx
      rcases sampleChecks_subset P st.hdr st.grp gr s isNh hsc x hx with h1 | h1
      · exact hq.2 x h1
      · rw [h1]; exact hprov

theorem provInv_run (P : Params) : ∀ (lines : List Str) (st st' : St), ProvInv P st →
    OMParse.run P st (lines.map (parseLine P)) = .ok st' → ProvInv P st' := by
  intro lines
  induction lines with
  | nil => intro st st' hq h; cases h; exact hq
  | cons l ls ih =>
    intro st st' hq h
    simp only [List.map_cons, OMParse.run] at h
    cases hs : stepLine P st (parseLine P l) with
    | error e => rw [hs] at h; cases h
    | ok st1 => rw [hs] at h; exact ih st1 st' (provInv_step P st st1 l hq hs) h

/-- **every family `omParse` returns went through `build_metric`, and its samples through `_parse_sample` / `_parse_nh_sample`** -/
theorem omParse_wf (P : Params) (d : Str) (fs : List OFamily) (h : omParse P d = .ok fs) : ∀ f ∈ fs, FamWf P f := by
  unfold omParse assemble at h
  cases hr : OMParse.run P {} ((docLines d).map (parseLine P)) with
  | error e => rw [hr] at h; cases h
  | ok st =>
    rw [hr] at h
    dsimp only at h
    have h0 : ProvInv P {} := ⟨fun f hf => absurd hf List.not_mem_nil, fun s hs => absurd hs List.not_mem_nil⟩
    have hq := provInv_run P (docLines d) {} st h0 hr
    unfold finish at h
    cases hf : flush P st.glob st.hdr st.grp.samples with
    | error e => rw [hf] at h; cases h
    | ok g =>
      rw [hf] at h
      dsimp only at h
      split at h
      · cases h
      · cases h
        exact flush_inv P st g hq hf

end PromVerif.Lemmas.OMRt
