/-
Totality of the line/family fold of the OpenMetrics parser model, part 1: the per-sample checks and
`_check_histogram` raise nothing but ValueError on samples as `_parse_sample` produces them.
-/
import PromVerif.Lemmas.OMTotal
import PromVerif.Lemmas.OMRun

namespace PromVerif.Lemmas.OM
open PromVerif.Py PromVerif.Model.ParseCore PromVerif.Model.Validation PromVerif.Model.OMParse PromVerif.Generated.OMParse

/-- a sample as `_parse_sample` returns it: labels and value are set -/
def Plain (s : OSample) : Prop := s.labels.isSome = true ∧ s.value.isSome = true

/-- interpreter fact used by the `le` test: `float("NaN")` is a NaN -/
def NaNLiteral (P : Params) : Prop := ∀ f, P.pyFloat sNaN = some f → P.isNaN f = true

theorem safe_raiseIfM (c : PyM Bool) (h : Safe c) : Safe (raiseIfM c) := by
  intro e he
  unfold raiseIfM at he
  split at he
  · cases he; rfl
  · cases he
  · rename_i e' ; cases he; exact h _ rfl

theorem safe_isUncanonical (P : Params) (s : Str) : Safe (isUncanonicalNumber P s) := by
  unfold isUncanonicalNumber
  apply safe_bind (safe_floatE P s)
  intro f _
  split <;> exact safe_pure _

theorem safe_cmpOpt_some (P : Params) (op : CmpOp) (a b : Num) : Safe (P.cmpOpt op (some a) (some b)) := safe_ok _

/-- comparing two timestamps raises nothing: `Timestamp` coerces a non-Timestamp operand (007bfee) and falls back to
comparing the seconds when the conversion overflows (a186a64) -/
theorem safe_tsGt (P : Params) (a b : OTs) : Safe (tsGt P a b) := by
  have h1 : tsCoerce = true := by decide
  have h2 : tsOverflowFallback = true := by decide
  cases a with
  | stamp s n =>
    cases b with
    | stamp s2 n2 =>
      simp only [tsGt]
      split
      · split <;> exact safe_ok _
      · exact safe_ok _
    | flt f =>
      simp only [tsGt, h1, h2, if_true]
      split <;> exact safe_ok _
  | flt f =>
    cases b with
    | stamp s n =>
      simp only [tsGt, h1, h2, if_true]
      split <;> exact safe_ok _
    | flt g => exact safe_ok _

theorem safe_chkGroupTs (P : Params) (t : Str) (g s : Option OTs) : Safe (chkGroupTs P t g s) := by
  unfold chkGroupTs
  by_cases c : (s.isNone != g.isNone) = true
  · rw [if_pos c]; exact safe_valueError
  · rw [if_neg c]
    cases g with
    | none => exact safe_ok _
    | some a =>
      cases s with
      | none => exact safe_ok _
      | some b =>
        dsimp only
        cases h : tsGt P a b with
        | error e => intro e' he'; cases he'; exact safe_tsGt P a b e h
        | ok gt => exact safe_raiseIf _

/-- the label / value checks before grouping -/
theorem safe_preChecks (P : Params) (n : Str) (typ : Option Str) (s : OSample) (hp : Plain s) (hnan : NaNLiteral P) :
    Safe (preChecks P n typ s) := by
  obtain ⟨hl, hv⟩ := hp
  obtain ⟨l, hl⟩ := Option.isSome_iff_exists.mp hl
  obtain ⟨v, hv⟩ := Option.isSome_iff_exists.mp hv
  unfold preChecks
  apply safe_runChecks
  intro c hc
  simp only [List.mem_cons, List.not_mem_nil, or_false] at hc
  have hni : Safe (raiseIfM (notIntegral P s.value)) := by
    apply safe_raiseIfM
    rw [hv]; cases v <;> exact safe_ok _
  rcases hc with rfl | rfl | rfl | rfl | rfl
  · unfold chkStatesetLabel
    split
    · simp only [labelsOrType, hl]; exact safe_raiseIf _
    · exact safe_ok _
  · unfold chkLe
    split
    · simp only [labelsOrAttr, hl]
      split
      · split
        · cases hf : P.floatE sNaN with
          | error e => intro e' he'; cases he'; exact safe_floatE P _ e hf
          | ok f =>
            dsimp only
            have : P.isNaN f = true := by
              apply hnan
              unfold Params.floatE at hf
              split at hf
              · rename_i b hb; cases hf; exact hb
              · cases hf
            rw [if_pos this]; exact safe_valueError
        · exact safe_valueError
      · rename_i le _
        split
        · cases hf : P.floatE le with
          | error e => intro e' he'; cases he'; exact safe_floatE P _ e hf
          | ok f =>
            dsimp only
            split
            · exact safe_valueError
            · exact safe_raiseIfM _ (safe_isUncanonical P _)
        · split
          · exact safe_valueError
          · exact safe_raiseIfM _ (safe_isUncanonical P _)
    · exact safe_ok _
  · unfold chkBucketIntegral; split
    · exact hni
    · exact safe_ok _
  · unfold chkCountIntegral; split
    · exact hni
    · exact safe_ok _
  · unfold chkQuantile
    split
    · simp only [labelsOrAttr, hl]
      split
      · exact safe_valueError
      · rename_i q _
        cases hf : P.floatE q with
        | error e => intro e' he'; cases he'; exact safe_floatE P q e hf
        | ok f =>
          dsimp only
          split
          · exact safe_valueError
          · exact safe_raiseIfM _ (safe_isUncanonical P _)
    · exact safe_ok _

/-- the value checks after grouping -/
theorem safe_postChecks (P : Params) (n : Str) (typ : Option Str) (s : OSample) (hp : Plain s) :
    Safe (postChecks P n typ s) := by
  obtain ⟨_, hv⟩ := hp
  obtain ⟨v, hv⟩ := Option.isSome_iff_exists.mp hv
  unfold postChecks
  apply safe_runChecks
  intro c hc
  simp only [List.mem_cons, List.not_mem_nil, or_false] at hc
  rcases hc with rfl | rfl | rfl | rfl | rfl | rfl
  · exact safe_raiseIf _
  · unfold chkInfoValue; split
    · rw [hv]; exact safe_raiseIfM _ (safe_cmpOpt_some P _ _ _)
    · exact safe_ok _
  · unfold chkSummaryNeg; split
    · rw [hv]; exact safe_raiseIfM _ (safe_cmpOpt_some P _ _ _)
    · exact safe_ok _
  · unfold chkNaN; split
    · apply safe_raiseIfM
      -- `isinstance(sample.value, float) and math.isnan(…)`: no conversion of an int (afb5815)
      have hflag : nanGuardsFloat = true := by decide
      unfold nanTest
      rw [if_pos hflag]
      split <;> exact safe_ok _
    · exact safe_ok _
  · unfold chkNeg; split
    · rw [hv]; exact safe_raiseIfM _ (safe_cmpOpt_some P _ _ _)
    · exact safe_ok _
  · exact safe_raiseIf _

/-- `_group_for_sample` on a plain sample whose label checks passed returns a dict -/
theorem groupForSample_guarded_some (P : Params) (n : Str) (typ : Option Str) (s : OSample) (l : Labels)
    (hl : s.labels = some l) (hpre : preChecks P n typ s = .ok ()) :
    ∃ d, groupForSample s n (typ.getD []) = .ok (some d) := by
  obtain ⟨g, hg⟩ := groupForSample_guarded P n typ s l hl hpre
  cases g with
  | some d => exact ⟨d, hg⟩
  | none =>
    exfalso
    unfold groupForSample at hg
    split at hg
    · cases hg
    · split at hg
      · simp only [labelsCopy, hl, bind, Except.bind] at hg
        split at hg <;> cases hg
      · split at hg
        · simp only [labelsCopy, hl, bind, Except.bind] at hg
          split at hg <;> cases hg
        · split at hg
          · simp only [labelsCopy, hl, bind, Except.bind] at hg
            split at hg <;> cases hg
          · rw [hl] at hg; cases hg

/-- grouping, timestamps and duplicate suppression -/
theorem safe_groupStep (P : Params) (gr : Grp) (n : Str) (typ : Option Str) (s : OSample) (hp : Plain s)
    (hpre : preChecks P n typ s = .ok ()) : Safe (groupStep P gr n (typ.getD []) s) := by
  obtain ⟨l, hl⟩ := Option.isSome_iff_exists.mp hp.1
  obtain ⟨d, hd⟩ := groupForSample_guarded_some P n typ s l hl hpre
  unfold groupStep
  have : groupOf s n (typ.getD []) = .ok (sortByKey d) := by unfold groupOf; rw [hd]
  rw [this]
  dsimp only
  cases h1 : raiseIf (gr.group.isSome && !(gr.group == some (sortByKey d)) && gr.seenGroups.contains (sortByKey d)) with
  | error e => intro e' he'; cases he'; exact safe_raiseIf _ e h1
  | ok u =>
    dsimp only
    cases h2 : (if gr.group.isSome && gr.group == some (sortByKey d) then chkGroupTs P (typ.getD []) gr.groupTs s.ts else .ok ()) with
    | error e =>
      intro e' he'; cases he'
      split at h2
      · exact safe_chkGroupTs P _ _ _ e h2
      · cases h2
    | ok u2 =>
      dsimp only
      simp only [labelsOrAttr, hl]
      exact safe_ok _

/-- the whole sample branch after the family is settled (plain sample) -/
theorem safe_sampleChecks (P : Params) (h : Hdr) (gr : Grp) (s : OSample) (n : Str) (hn : h.name = some n)
    (hp : Plain s) (hnan : NaNLiteral P) : Safe (sampleChecks P h gr s false) := by
  rw [sampleChecks_false, hn]
  dsimp only
  cases h1 : preChecks P n h.typ s with
  | error e => intro e' he'; cases he'; exact safe_preChecks P n h.typ s hp hnan e h1
  | ok u =>
    dsimp only
    cases h2 : groupStep P gr n (h.typ.getD []) s with
    | error e => intro e' he'; cases he'; exact safe_groupStep P gr n h.typ s hp h1 e h2
    | ok gr' =>
      dsimp only
      cases h3 : postChecks P n h.typ s with
      | error e => intro e' he'; cases he'; exact safe_postChecks P n h.typ s hp e h3
      | ok u3 => exact safe_ok _

end PromVerif.Lemmas.OM
