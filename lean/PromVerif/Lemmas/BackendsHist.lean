/-
C12, the collector on ONE process's files, histogram families.  The bucket contributions come in blocks, one per child
(label set `L x`), each listing the SAME bounds `Bs` in declaration order with that child's NON-cumulative counts `bv x`.
Then, per child: the bounds the collector sorts are `Bs` itself (`sortBounds_sorted`: already increasing), each merged
count is `0.0 + count` (one contribution), and the reported buckets are the running sums — the cumulation the in-process
`_child_samples` does — with `_count` the total.
-/
import PromVerif.Lemmas.BackendsCollect

namespace PromVerif.Lemmas.Backends
open PromVerif.Py PromVerif.Generated.Multiprocess
open PromVerif.Model.Multiprocess
open PromVerif.Spec.Multiprocess
set_option autoImplicit false
set_option linter.unusedSectionVars false

variable {V B X : Type} [DecidableEq B]

theorem distinct_of_nodup {α : Type} [DecidableEq α] (l : List α) (h : l.Nodup) : distinct l = l := by
  unfold distinct
  suffices ∀ acc : List α, (∀ a ∈ l, a ∉ acc) →
      l.foldl (fun acc a => if a ∈ acc then acc else acc ++ [a]) acc = acc ++ l by
    simpa using this [] (by simp)
  induction l with
  | nil => intro acc _; simp
  | cons x xs ih =>
    intro acc hdis
    have hx := List.nodup_cons.mp h
    simp only [List.foldl_cons]
    rw [if_neg (hdis x List.mem_cons_self), ih hx.2]
    · simp
    · intro a ha hm
      rcases List.mem_append.mp hm with hm | hm
      · exact hdis a (List.mem_cons_of_mem _ ha) hm
      · simp only [List.mem_singleton] at hm; subst hm; exact hx.1 ha

/-- a list that is already increasing (no later element is less than an earlier one) is left alone by the sort -/
theorem sortBounds_sorted (lt : B → B → Bool) : ∀ (l : List B), l.Pairwise (fun a b => lt b a = false) → sortBounds lt l = l
  | [], _ => rfl
  | x :: xs, h => by
    have hx := List.pairwise_cons.mp h
    unfold sortBounds
    rw [List.foldr_cons]
    have ih := sortBounds_sorted lt xs hx.2
    unfold sortBounds at ih
    rw [ih]
    cases xs with
    | nil => rfl
    | cons y ys =>
      unfold insertBound
      rw [if_neg (by rw [hx.1 y List.mem_cons_self]; simp)]

/-- the bucket contributions of child `x` -/
def bblock (Bs : List B) (L : X → Labels) (bv : X → List V) (x : X) : List (Labels × B × V) :=
  (Bs.zip (bv x)).map (fun p => (L x, p.1, p.2))

structure HistIn (bo : BOps B) (Bs : List B) (ch : List X) (L : X → Labels) (bv : X → List V) : Prop where
  hL : (ch.map L).Nodup
  hB : Bs.Nodup
  hS : Bs.Pairwise (fun a b => bo.lt b a = false)
  hlen : ∀ x ∈ ch, (bv x).length = Bs.length
  hne : Bs ≠ []

variable (vo : VOps V) (bo : BOps B) (Bs : List B) (ch : List X) (L : X → Labels) (bv : X → List V)

theorem bblock_fst (x : X) (y : Labels × B × V) (hy : y ∈ bblock Bs L bv x) : y.1 = L x := by
  unfold bblock at hy
  obtain ⟨p, _, rfl⟩ := List.mem_map.mp hy
  rfl

theorem filter_bblocks (hL : (ch.map L).Nodup) (x : X) (hx : x ∈ ch) :
    (ch.flatMap (bblock Bs L bv)).filter (fun y => decide (y.1 = L x)) = bblock Bs L bv x := by
  induction ch with
  | nil => cases hx
  | cons c cs ih =>
    simp only [List.map_cons, List.nodup_cons] at hL
    rw [List.flatMap_cons, List.filter_append]
    rcases List.mem_cons.mp hx with e | e
    · subst e
      rw [filter_eq_self_of _ _ (fun y hy => by simpa using bblock_fst Bs L bv x y hy),
        filter_eq_nil_of _ _ (fun y hy => by
          obtain ⟨c', hc', hy'⟩ := List.mem_flatMap.mp hy
          simp only [decide_eq_false_iff_not]
          rw [bblock_fst Bs L bv c' y hy']
          intro e'
          exact hL.1 (e' ▸ List.mem_map.mpr ⟨c', hc', rfl⟩))]
      simp
    · rw [filter_eq_nil_of _ (bblock Bs L bv c) (fun y hy => by
          simp only [decide_eq_false_iff_not]
          rw [bblock_fst Bs L bv c y hy]
          intro e'
          exact hL.1 (e' ▸ List.mem_map.mpr ⟨x, e, rfl⟩)), ih hL.2 e]
      simp

theorem zip_map_fst_of_length {α β : Type} : ∀ (a : List α) (b : List β), b.length = a.length → (a.zip b).map (·.1) = a
  | [], _, _ => by simp
  | _ :: _, [], h => by simp at h
  | x :: xs, y :: ys, h => by simp [zip_map_fst_of_length xs ys (by simpa using h)]

/-- the bounds of child `x`, as the collector lists them before sorting: the declared ones -/
theorem boundsOf_block (h : HistIn bo Bs ch L bv) (x : X) (hx : x ∈ ch) :
    boundsOf (ch.flatMap (bblock Bs L bv)) (L x) = Bs := by
  unfold boundsOf
  rw [filter_bblocks Bs ch L bv h.hL x hx]
  unfold bblock
  rw [List.map_map]
  have : ((fun x : Labels × B × V => x.2.1) ∘ fun p : B × V => (L x, p.1, p.2)) = (·.1) := rfl
  rw [this, zip_map_fst_of_length Bs (bv x) (h.hlen x hx)]
  exact distinct_of_nodup Bs h.hB

/-- the merged (non-cumulative) counts of child `x` in bound order: one contribution each -/
theorem merged_block : ∀ (Bs0 : List B) (vs : List V), Bs0.Nodup → vs.length = Bs0.length →
    ∀ (Lx : Labels), Bs0.map (fun b => (b, aggSum vo ((((Bs0.zip vs).map (fun p => (Lx, p.1, p.2))).filter
        (fun y : Labels × B × V => decide (y.2.1 = b))).map (·.2.2))))
      = (Bs0.zip vs).map (fun p => (p.1, vo.add vo.zero p.2))
  | [], _, _, _, _ => by simp
  | _ :: _, [], _, h, _ => by simp at h
  | b :: bs, v :: vs, hnd, hlen, Lx => by
    have hnd' := List.nodup_cons.mp hnd
    simp only [List.zip_cons_cons, List.map_cons]
    congr 1
    · rw [List.filter_cons_of_pos (by simp)]
      rw [filter_eq_nil_of _ _ (fun y hy => by
        obtain ⟨p, hp, rfl⟩ := List.mem_map.mp hy
        simp only [decide_eq_false_iff_not]
        intro e
        exact hnd'.1 (e ▸ (List.of_mem_zip hp).1))]
      simp [aggSum]
    · have ih := merged_block bs vs hnd'.2 (by simpa using hlen) Lx
      rw [← ih]
      apply List.map_congr_left
      intro b' hb'
      have hne : ¬ b = b' := fun e => hnd'.1 (e ▸ hb')
      rw [List.filter_cons_of_neg (by simpa using hne)]

theorem mergedSorted_block (h : HistIn bo Bs ch L bv) (x : X) (hx : x ∈ ch) :
    mergedSorted vo bo (ch.flatMap (bblock Bs L bv)) (L x) = (Bs.zip (bv x)).map (fun p => (p.1, vo.add vo.zero p.2)) := by
  unfold mergedSorted
  rw [boundsOf_block bo Bs ch L bv h x hx, sortBounds_sorted bo.lt Bs h.hS]
  rw [← merged_block vo Bs (bv x) h.hB (h.hlen x hx) (L x)]
  apply List.map_congr_left
  intro b _
  unfold merged
  congr 2
  have : (fun y : Labels × B × V => decide (y.1 = L x ∧ y.2.1 = b))
      = (fun y => decide (y.2.1 = b) && decide (y.1 = L x)) := by
    funext y
    by_cases h1 : y.1 = L x <;> by_cases h2 : y.2.1 = b <;> simp [h1, h2]
  rw [this, ← List.filter_filter, filter_bblocks Bs ch L bv h.hL x hx]
  rfl

/-- the series the collector reports for child `x` (before conversion): cumulated buckets, then `_count` -/
def childSeries (mn : Str) (x : X) : List (SKey × V) :=
  (cumulate vo vo.zero ((Bs.zip (bv x)).map (fun p => (p.1, vo.add vo.zero p.2)))).map
      (fun bvv => ((mn ++ "_bucket".toList, L x ++ [("le".toList, bo.fmt bvv.1)]), bvv.2))
    ++ [((mn ++ "_count".toList, L x),
        aggSum vo (((Bs.zip (bv x)).map (fun p => (p.1, vo.add vo.zero p.2))).map (·.2)))]

theorem groupSeries_block (h : HistIn bo Bs ch L bv) (mn : Str) (x : X) (hx : x ∈ ch) :
    groupSeries vo bo mn (ch.flatMap (bblock Bs L bv)) (L x) = childSeries vo bo Bs L bv mn x := by
  unfold groupSeries countOf childSeries
  rw [mergedSorted_block vo bo Bs ch L bv h x hx]

theorem mem_groups_blocks (h : HistIn bo Bs ch L bv) (L' : Labels) :
    L' ∈ groups (ch.flatMap (bblock Bs L bv)) ↔ ∃ x ∈ ch, L' = L x := by
  unfold groups
  rw [mem_distinct]
  constructor
  · intro hm
    obtain ⟨y, hy, rfl⟩ := List.mem_map.mp hm
    obtain ⟨x, hx, hy'⟩ := List.mem_flatMap.mp hy
    exact ⟨x, hx, bblock_fst Bs L bv x y hy'⟩
  · rintro ⟨x, hx, rfl⟩
    -- the bblock of `x` is not empty
    cases hb : Bs with
    | nil => exact absurd hb h.hne
    | cons b bs =>
      have hl := h.hlen x hx
      cases hv : bv x with
      | nil => rw [hv, hb] at hl; simp at hl
      | cons v vs =>
        refine List.mem_map.mpr ⟨(L x, b, v), List.mem_flatMap.mpr ⟨x, hx, ?_⟩, rfl⟩
        unfold bblock
        rw [hv]
        simp

/-- **the bucket and `_count` series of a single-process histogram family**: child by child -/
theorem mem_bucketSeries_blocks (h : HistIn bo Bs ch L bv) (mn : Str) (kv : SKey × V) :
    kv ∈ (groups (ch.flatMap (bblock Bs L bv))).flatMap (groupSeries vo bo mn (ch.flatMap (bblock Bs L bv))) ↔
      ∃ x ∈ ch, kv ∈ childSeries vo bo Bs L bv mn x := by
  rw [List.mem_flatMap]
  constructor
  · rintro ⟨L', hL', hkv⟩
    obtain ⟨x, hx, rfl⟩ := (mem_groups_blocks bo Bs ch L bv h L').mp hL'
    rw [groupSeries_block vo bo Bs ch L bv h mn x hx] at hkv
    exact ⟨x, hx, hkv⟩
  · rintro ⟨x, hx, hkv⟩
    refine ⟨L x, (mem_groups_blocks bo Bs ch L bv h _).mpr ⟨x, hx, rfl⟩, ?_⟩
    rw [groupSeries_block vo bo Bs ch L bv h mn x hx]
    exact hkv

end PromVerif.Lemmas.Backends
