/-
C01 helper lemmas, part 5: histogram buckets.  The code stores NON-cumulative counts (the first bound that takes the
observation is incremented) and accumulates at collect time; for bounds sorted by a transitive `<=` the accumulated
value of the bucket `le = b` is the number of observations `o <= b`.  Counting by float increments is exact only
while the counts stay below a bound `B` (2^53 for doubles): `CountExact`.
-/
import PromVerif.Lemmas.MetricsValues

namespace PromVerif.Lemmas.Metrics
open PromVerif.Py PromVerif.Model.Metrics PromVerif.Generated.Metrics
open PromVerif.Spec.Metrics

variable {V : Type} [Val V]

/-- counting in `V` is exact up to `B` -/
structure CountExact (V : Type) [Val V] (B : Nat) : Prop where
  zero_eq : (Val.ofNat 0 : V) = Val.zero
  one_eq : (Val.ofNat 1 : V) = Val.one
  add_eq : ∀ n m : Nat, n + m ≤ B → Val.add (Val.ofNat n : V) (Val.ofNat m) = Val.ofNat (n + m)

/-- `<=` on values is transitive (an IEEE fact, NaN included) -/
def LeTrans (V : Type) [Val V] : Prop :=
  ∀ a b c : V, Val.le a b = true → Val.le b c = true → Val.le a c = true

/-- the bucket test of `Histogram.observe`, as extracted: `amount <= bound` -/
theorem bucketTakes_eq (a b : V) : bucketTakes a b = Val.le a b := by
  simp [bucketTakes, histObserveTest, evalCmp]

/-- the `_sum` test of `Histogram._child_samples`, as extracted: `self._upper_bounds[0] >= 0` -/
theorem sumExposed_eq (bounds : List V) : sumExposed bounds = sumShown bounds := by
  cases bounds <;> simp [sumExposed, sumShown, histSumIndex, histSumTest, evalCmpConst, evalCmp, constV]

theorem addOnes_exact {B : Nat} (hx : CountExact V B) : ∀ n : Nat, n ≤ B → addOnes (Val.zero : V) n = Val.ofNat n
  | 0, _ => by simp [addOnes, hx.zero_eq]
  | n + 1, h => by
    simp only [addOnes]
    rw [addOnes_exact hx n (by omega), ← hx.one_eq, hx.add_eq n 1 h]

theorem addOnes_shift (c : V) : ∀ n : Nat, addOnes (Val.add c Val.one) n = Val.add (addOnes c n) Val.one
  | 0 => rfl
  | n + 1 => by simp only [addOnes]; rw [addOnes_shift c n]

theorem foldl_observe_nil (obs : List V) (cs : List V) :
    obs.foldl (fun cs o => observeBuckets o [] cs) cs = cs := by
  induction obs generalizing cs with
  | nil => rfl
  | cons o os ih =>
    have h0 : observeBuckets o ([] : List V) cs = cs := by cases cs <;> rfl
    simp only [List.foldl, h0]
    exact ih cs

theorem foldl_observe_cons (b : V) (bs : List V) :
    ∀ (obs : List V) (c : V) (cs : List V),
      obs.foldl (fun cs o => observeBuckets o (b :: bs) cs) (c :: cs)
        = addOnes c (obs.countP (fun o => Val.le o b))
            :: (obs.filter (fun o => !Val.le o b)).foldl (fun cs o => observeBuckets o bs cs) cs
  | [], c, cs => by simp [addOnes]
  | o :: os, c, cs => by
    simp only [List.foldl, observeBuckets, bucketTakes_eq]
    by_cases ho : Val.le o b = true
    · simp only [ho, if_true]
      rw [foldl_observe_cons b bs os _ cs, addOnes_shift]
      simp [ho, addOnes]
    · have ho' : Val.le o b = false := by simpa using ho
      simp only [ho', Bool.false_eq_true, if_false]
      rw [foldl_observe_cons b bs os c _]
      simp [ho']

/-- the non-cumulative cells after the observations `obs` -/
def cellsOf (bs : List V) (obs : List V) : List V :=
  obs.foldl (fun cs o => observeBuckets o bs cs) (bs.map (fun _ => Val.zero))

theorem countP_split (p q : V → Bool) (himp : ∀ o, p o = true → q o = true) :
    ∀ obs : List V, obs.countP p + (obs.filter (fun o => !p o)).countP q = obs.countP q
  | [] => rfl
  | o :: os => by
    have ih := countP_split p q himp os
    by_cases hp : p o = true
    · have hq := himp o hp
      simp [hp, hq]
      omega
    · have hp' : p o = false := by simpa using hp
      by_cases hq : q o = true
      · simp [hp', hq]; omega
      · have hq' : q o = false := by simpa using hq
        simp [hp', hq']; omega

theorem countP_add_filter_not (p : V → Bool) :
    ∀ obs : List V, obs.countP p + (obs.filter (fun o => !p o)).length = obs.length
  | [] => rfl
  | o :: os => by
    have ih := countP_add_filter_not p os
    by_cases hp : p o = true
    · simp [hp]; omega
    · have hp' : p o = false := by simpa using hp
      simp [hp']; omega

/-- **Cumulation.**  Accumulating the non-cumulative cells gives, for every bound, the number of observations below
or on it. -/
theorem cumulate_cells {B : Nat} (hx : CountExact V B) (htr : LeTrans V) :
    ∀ (bs : List V) (obs : List V) (a : Nat), bs.Pairwise (fun x y => Val.le x y = true) → a + obs.length ≤ B →
      cumulate (Val.ofNat a : V) (cellsOf bs obs) = bs.map (fun b => Val.ofNat (a + obs.countP (fun o => Val.le o b)))
  | [], obs, a, _, _ => by simp [cellsOf, foldl_observe_nil, cumulate]
  | b :: bs, obs, a, hp, hB => by
    have hp' := List.pairwise_cons.mp hp
    have hlen := countP_add_filter_not (fun o => Val.le o b) obs
    have hcell : cellsOf (b :: bs) obs
        = addOnes Val.zero (obs.countP (fun o => Val.le o b)) :: cellsOf bs (obs.filter (fun o => !Val.le o b)) := by
      simp only [cellsOf, List.map]
      exact foldl_observe_cons b bs obs _ _
    rw [hcell]
    simp only [cumulate, List.map]
    rw [addOnes_exact hx _ (by omega), hx.add_eq _ _ (by omega)]
    rw [cumulate_cells hx htr bs _ _ hp'.2 (by omega)]
    congr 1
    apply List.map_congr_left
    intro b' hb'
    have hle : Val.le b b' = true := hp'.1 b' hb'
    have := countP_split (fun o => Val.le o b) (fun o => Val.le o b') (fun o ho => htr o b b' ho hle) obs
    rw [Nat.add_assoc, this]

/-- more generous bounds hold more observations -/
theorem countP_le_mono (htr : LeTrans V) (obs : List V) (b b' : V) (h : Val.le b b' = true) :
    obs.countP (fun o => Val.le o b) ≤ obs.countP (fun o => Val.le o b') := by
  have := countP_split (fun o => Val.le o b) (fun o => Val.le o b') (fun o ho => htr o b b' ho h) obs
  omega

theorem zip_map_self {α β γ : Type} (f : α → β) (g : α × β → γ) :
    ∀ l : List α, (l.zip (l.map f)).map g = l.map (fun x => g (x, f x))
  | [] => rfl
  | x :: l => by simp [zip_map_self f g l]

theorem cumulate_getLast (acc : V) : ∀ cs : List V, cs ≠ [] →
    ∃ l, (cumulate acc cs).getLast? = some l
  | [], h => absurd rfl h
  | c :: cs, _ => by
    cases cs with
    | nil => exact ⟨Val.add acc c, by simp [cumulate]⟩
    | cons c' cs' =>
      obtain ⟨l, hl⟩ := cumulate_getLast (Val.add acc c) (c' :: cs') (by simp)
      refine ⟨l, ?_⟩
      simp only [cumulate] at hl ⊢
      rw [List.getLast?_cons_cons]
      exact hl

/-- the replayed buckets always have one cell per bound -/
theorem observeBuckets_length (o : V) : ∀ (bs cs : List V), (observeBuckets o bs cs).length = cs.length
  | [], cs => by cases cs <;> rfl
  | _ :: _, [] => rfl
  | b :: bs, c :: cs => by
    simp only [observeBuckets]
    split
    · rfl
    · simp [observeBuckets_length o bs cs]

theorem reachable_buckets_length (d : Decl V) (bs : List (V × Str)) (hk : d.kind = .histogram bs)
    (acts : List (Action V)) : (childOf d acts).buckets.length = bs.length := by
  obtain ⟨_, h2⟩ := histogram_cells d bs hk acts
  rw [h2]
  generalize observations acts = obs
  have : ∀ (cs : List V), cs.length = bs.length →
      (obs.foldl (fun cs o => observeBuckets o (bs.map (·.1)) cs) cs).length = bs.length := by
    induction obs with
    | nil => intro cs h; exact h
    | cons o os ih => intro cs h; exact ih _ (by rw [observeBuckets_length]; exact h)
  exact this _ (by simp)


end PromVerif.Lemmas.Metrics
