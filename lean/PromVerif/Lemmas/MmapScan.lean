/-
C10/C11: reading the fields of an encoded entry, and the scan lemma: the reader loop over `pre ++ encEntries es ++ tail`
returns exactly `es` (any tail: the reader is bounded by the header), and never runs out of fuel.
-/
import PromVerif.Lemmas.MmapLayout
namespace PromVerif.Lemmas.Mmap
open PromVerif.Py PromVerif.Model.MmapDict PromVerif.Generated.Mmap

/-! ## reading the fields of one entry that sits at `pos` -/

section fields
variable {data pre rest : Bytes} {pos : Nat} {e : Entry}

theorem unpackInt_le {data a c : Bytes} {pos n : Nat} (h : data = a ++ (le 4 n ++ c)) (hp : pos = a.length)
    (hn : n < 2147483648) : unpackInt data pos = .ok (n : Int) := by
  have hs : slice data pos 4 = le 4 n := slice_of_eq h hp (by simp)
  have hl : pos + 4 ≤ data.length := by subst h hp; simp <;> omega
  unfold unpackInt
  simp only [intWidth, hl, hs, if_true]
  rw [unle_le_of_lt _ _ (by omega)]
  simp [hn]

theorem unpackInt_entry (h : data = pre ++ (encEntry e ++ rest)) (hp : pos = pre.length)
    (hk : klen e.key < 2147483648) : unpackInt data pos = .ok (klen e.key : Int) :=
  unpackInt_le (c := encodeKey e.key ++ (List.replicate (padLen (klen e.key)) 32 ++ (le64 e.v ++ le64 e.t)) ++ rest)
    (by simp [h, encEntry]) hp hk

theorem slice_key (h : data = pre ++ (encEntry e ++ rest)) (hp : pos = pre.length) :
    slice data (pos + 4) (klen e.key) = encodeKey e.key :=
  slice_of_eq (a := pre ++ le 4 (klen e.key)) (c := List.replicate (padLen (klen e.key)) 32 ++ (le64 e.v ++ le64 e.t) ++ rest)
    (by simp [h, encEntry]) (by simp [hp]) rfl

theorem unpackTwoDoubles_at {data a c : Bytes} {pos : Nat} {v t : UInt64} (h : data = a ++ (le64 v ++ le64 t ++ c))
    (hp : pos = a.length) : unpackTwoDoubles data pos = .ok (v, t) := by
  have h1 : slice data pos 8 = le64 v := slice_of_eq (c := le64 t ++ c) (by simp [h]) hp (by simp)
  have h2 : slice data (pos + 8) 8 = le64 t :=
    slice_of_eq (a := a ++ le64 v) (c := c) (by simp [h]) (by simp [hp]) (by simp)
  have hl : pos + 16 ≤ data.length := by subst h hp; simp <;> omega
  unfold unpackTwoDoubles
  simp [twoDoublesWidth, hl, h1, h2, unle64_le64]

theorem unpackTwoDoubles_entry (h : data = pre ++ (encEntry e ++ rest)) (hp : pos = pre.length) :
    unpackTwoDoubles data (pos + 4 + klen e.key + padLen (klen e.key)) = .ok (e.v, e.t) :=
  unpackTwoDoubles_at (a := pre ++ (le 4 (klen e.key) ++ (encodeKey e.key ++ List.replicate (padLen (klen e.key)) 32)))
    (c := rest) (by simp [h, encEntry]) (by simp [hp, klen]; omega)

end fields

/-! ## the scan -/

theorem readLoopAcc_ok (es : List Entry) : ∀ (pre tail : Bytes) (fuel pos used : Nat) (acc : List Item),
    pos = pre.length → used = pos + (encEntries es).length → used < 2147483648 → es.length ≤ fuel →
    readLoopAcc (pre ++ (encEntries es ++ tail)) used fuel pos acc = .ok (acc.reverse ++ scanOut pos es) := by
  induction es with
  | nil =>
    intro pre tail fuel pos used acc hp hu _ _
    have : ¬ pos < used := by simp at hu; omega
    cases fuel <;> simp [readLoopAcc, this, scanOut]
  | cons e es ih =>
    intro pre tail fuel pos used acc hp hu hlt hf
    obtain ⟨fuel, rfl⟩ : ∃ f, fuel = f + 1 := ⟨fuel - 1, by simp at hf; omega⟩
    have hlen : used = pos + entryLen e.key + (encEntries es).length := by simp at hu; omega
    have hk : klen e.key < 2147483648 := by unfold entryLen at hlen; omega
    have hd : pre ++ (encEntries (e :: es) ++ tail) = pre ++ (encEntry e ++ (encEntries es ++ tail)) := by simp
    have h1 := unpackInt_entry hd hp hk
    have h2 := slice_key hd hp
    have h3 := unpackTwoDoubles_entry hd hp
    have hpos : pos < used := by have := entryLen_pos e.key; omega
    have hin : ¬ (klen e.key + pos > used) := by unfold entryLen at hlen; omega
    have hih := ih (pre ++ encEntry e) tail fuel (pos + entryLen e.key) used
      ((e.key, e.v, e.t, pos + 4 + klen e.key + padLen (klen e.key)) :: acc) (by simp [hp]) (by omega) hlt
      (by simp at hf; omega)
    have hd' : pre ++ encEntry e ++ (encEntries es ++ tail) = pre ++ (encEntries (e :: es) ++ tail) := by simp
    rw [hd'] at hih
    have hnext : pos + 4 + (klen e.key + padLen (klen e.key)) + 16 = pos + entryLen e.key := by
      simp [entryLen]; omega
    have hp2 : pos + 4 + (klen e.key + padLen (klen e.key)) = pos + 4 + klen e.key + padLen (klen e.key) := by
      omega
    have hprog : ¬ (pos + entryLen e.key ≤ pos) := by have := entryLen_pos e.key; omega
    rw [readLoopAcc]
    simp only [hpos, if_true, h1]
    have hneg : ¬ ((klen e.key : Int) < 0) := by omega
    simp only [hneg, if_false, Int.toNat_natCast, hin, paddedLenReader_eq, lenFieldSkip, valueSkip, hnext]
    simp only [hp2, h3, h2, decode_encode, hprog, if_false, hih, scanOut, List.reverse_cons, List.append_assoc,
      List.singleton_append]

theorem readLoop_ok (es : List Entry) (pre tail : Bytes) (fuel pos used : Nat)
    (hp : pos = pre.length) (hu : used = pos + (encEntries es).length) (hl : used < 2147483648) (hf : es.length ≤ fuel) :
    readLoop (pre ++ (encEntries es ++ tail)) used fuel pos = .ok (scanOut pos es) := by
  unfold readLoop
  rw [readLoopAcc_ok es pre tail fuel pos used [] hp hu hl hf]
  simp

end PromVerif.Lemmas.Mmap
