/-
Lemmas for C07: how each call changes the registration list / target info, the collector selection of the
restricted registry, and list facts about `flatMap` under filtering and permutation.
-/
import PromVerif.Lemmas.Registry

namespace PromVerif.Model.Registry
open PromVerif.Py PromVerif.Spec.Registry

/-! ### the registration list and target info after one call -/

theorem setTargetInfo_c2n (s : State) (l : Option Labels) :
    (setTargetInfo s l).1.collectorToNames = s.collectorToNames := by
  rw [setTargetInfo_eq]
  split
  · split <;> rfl
  · split <;> rfl

theorem keys_step (s : State) (op : Op) :
    (step s op).1.collectorToNames.map Prod.fst
      = regStep (s.collectorToNames.map Prod.fst) op (step s op).2.isSome := by
  cases op with
  | register c =>
    simp only [step]
    cases h : clashes s c
    · rw [register_ok h]
      simp only [Option.isSome_none, regStep, keys_dSet]
      by_cases hk : c ∈ s.collectorToNames.map Prod.fst
      · rw [if_pos ((dHas_iff _ _).2 hk), if_pos hk]
      · have : dHas c s.collectorToNames = false := (dHas_false_iff _ _).2 hk
        rw [if_neg hk]; simp [this]
    · rw [register_raise h]; rfl
  | unregister c =>
    simp only [step, unregister_eq, unregisterOf]
    split
    · rfl
    · split
      · simp only [Option.isSome_none, regStep, keys_dDel]
      · rfl
  | setTargetInfo l =>
    simp only [step, setTargetInfo_c2n]
    cases (setTargetInfo s l).2 <;> rfl

theorem ti_step (s : State) (op : Op) :
    (step s op).1.targetInfo = tiStep s.targetInfo op (step s op).2.isSome := by
  cases op with
  | register c =>
    simp only [step, register_eq, registerAtomic]; split <;> rfl
  | unregister c =>
    simp only [step, unregister_eq, unregisterOf]
    split
    · rfl
    · split <;> rfl
  | setTargetInfo l =>
    simp only [step, setTargetInfo_eq]
    split
    · split <;> rfl
    · split <;> rfl

theorem regStep_nodup {regs : List Collector} (h : regs.Nodup) (op : Op) (b : Bool) : (regStep regs op b).Nodup := by
  cases op with
  | register c =>
    cases b
    · simp only [regStep]
      split
      · exact h
      · next hc =>
        rw [List.nodup_append]
        refine ⟨h, by simp, ?_⟩
        intro a ha x hx
        simp at hx; subst hx
        intro e; subst e; exact hc ha
    · exact h
  | unregister c =>
    cases b
    · exact h.sublist List.filter_sublist
    · exact h
  | setTargetInfo l => cases b <;> exact h

theorem init_targetInfo (ad : Bool) (ti : Option Labels) : (init ad ti).targetInfo = ti := by
  simp only [init, setTargetInfo_eq, truthy, dHas, List.any_nil, Bool.and_false]
  split <;> rfl

theorem init_c2n (ad : Bool) (ti : Option Labels) : (init ad ti).collectorToNames = [] :=
  setTargetInfo_c2n _ _

theorem run_regs (ops : List Op) : ∀ s : State,
    (run s ops).1.collectorToNames.map Prod.fst = regsAfter (s.collectorToNames.map Prod.fst) ops (run s ops).2 ∧
    (run s ops).1.targetInfo = tiAfter s.targetInfo ops (run s ops).2 := by
  induction ops with
  | nil => intro s; exact ⟨rfl, rfl⟩
  | cons op ops ih =>
    intro s
    simp only [run, regsAfter, tiAfter]
    rw [← keys_step, ← ti_step]
    exact ih _

theorem regsAfter_nodup (ops : List Op) : ∀ (regs : List Collector) (outs : List (Option PyErr)),
    regs.Nodup → (regsAfter regs ops outs).Nodup := by
  induction ops with
  | nil => intro regs outs h; exact h
  | cons op ops ih =>
    intro regs outs h
    cases outs with
    | nil => exact h
    | cons o outs => exact ih _ _ (regStep_nodup h op _)

/-! ### list facts -/

theorem flatMap_filter_of_nil {α β : Type} (p : α → Bool) (g : α → List β) (l : List α)
    (h : ∀ x ∈ l, p x = false → g x = []) : l.flatMap g = (l.filter p).flatMap g := by
  induction l with
  | nil => rfl
  | cons a r ih =>
    have ih' := ih (fun x hx => h x (List.mem_cons_of_mem _ hx))
    cases hp : p a
    · simp [hp, h a (by simp) hp, ih']
    · simp [hp, ih']

theorem nodup_map_of_inj {α β : Type} (f : α → β) (hf : ∀ a b, f a = f b → a = b) {l : List α} (h : l.Nodup) :
    (l.map f).Nodup :=
  List.Pairwise.map f (fun a b hab e => hab (hf a b e)) h

/-! ### `selectCollectors` -/

theorem setAdd_nodup {o : Owner} {acc : List Owner} (h : acc.Nodup) : (setAdd o acc).Nodup := by
  unfold setAdd
  split
  · exact h
  · next hc =>
    rw [List.nodup_append]
    refine ⟨h, by simp, ?_⟩
    intro a ha x hx
    simp at hx; subst hx
    intro e; subst e; exact hc ha

theorem mem_setAdd (a o : Owner) (acc : List Owner) : a ∈ setAdd o acc ↔ a = o ∨ a ∈ acc := by
  unfold setAdd
  split
  · next h =>
    constructor
    · exact Or.inr
    · rintro (rfl | h') <;> assumption
  · simp [or_comm]

theorem selectCollectors_nodup (n2c : List (Name × Owner)) (names : List Name) :
    ∀ acc : List Owner, acc.Nodup → (selectCollectors n2c names acc).Nodup := by
  induction names with
  | nil => intro acc h; exact h
  | cons n ns ih =>
    intro acc h
    unfold selectCollectors
    split
    · rw [collAdd_eq]; exact ih _ (setAdd_nodup h)
    · exact ih _ h

theorem mem_selectCollectors (n2c : List (Name × Owner)) (names : List Name) (o : Owner) :
    ∀ acc : List Owner, o ∈ selectCollectors n2c names acc ↔
      o ∈ acc ∨ ∃ n, n ∈ names ∧ dGet n n2c = some o := by
  induction names with
  | nil => intro acc; simp [selectCollectors]
  | cons n ns ih =>
    intro acc
    unfold selectCollectors
    cases hg : dGet n n2c with
    | none =>
      simp only
      rw [ih]
      constructor
      · rintro (h | ⟨m, hm, h2⟩)
        · exact Or.inl h
        · exact Or.inr ⟨m, List.mem_cons_of_mem _ hm, h2⟩
      · rintro (h | ⟨m, hm, h2⟩)
        · exact Or.inl h
        · rcases List.mem_cons.1 hm with rfl | hm
          · rw [hg] at h2; cases h2
          · exact Or.inr ⟨m, hm, h2⟩
    | some o' =>
      simp only
      rw [ih, collAdd_eq, mem_setAdd]
      constructor
      · rintro ((rfl | h) | ⟨m, hm, h2⟩)
        · exact Or.inr ⟨n, by simp, hg⟩
        · exact Or.inl h
        · exact Or.inr ⟨m, List.mem_cons_of_mem _ hm, h2⟩
      · rintro (h | ⟨m, hm, h2⟩)
        · exact Or.inl (Or.inr h)
        · rcases List.mem_cons.1 hm with rfl | hm
          · rw [hg] at h2; cases h2; exact Or.inl (Or.inl rfl)
          · exact Or.inr ⟨m, hm, h2⟩

/-- under the invariant a selected owner is a registered collector claiming one of the names, or the
`_EmptyCollector` standing for configured target info when `target_info` is listed -/
theorem selected_is_claimant {s : State} (hi : Inv s) {names : List Name} {o : Owner}
    (h : o ∈ selectCollectors s.namesToCollectors names []) :
    (∃ c ns n, o = Owner.coll c ∧ (c, ns) ∈ s.collectorToNames ∧ n ∈ names ∧ n ∈ ns) ∨
    (o = Owner.empty ∧ tiName ∈ names ∧ truthy s.targetInfo = true) := by
  rcases (mem_selectCollectors _ _ _ _).1 h with h | ⟨n, hn, hg⟩
  · simp at h
  · rcases (hi.graph n o).1 (dGet_mem hg) with ⟨c, ns, ho, hm, hnn⟩ | ⟨ho, h2, ht⟩
    · exact Or.inl ⟨c, ns, n, ho, hm, hn, hnn⟩
    · exact Or.inr ⟨ho, h2 ▸ hn, ht⟩

/-- under the invariant a registered collector claiming a listed name is selected -/
theorem claimant_is_selected {s : State} (hi : Inv s) {names : List Name} {c : Collector} {ns : List Name}
    {n : Name} (hm : (c, ns) ∈ s.collectorToNames) (hn : n ∈ names) (hnn : n ∈ ns) :
    Owner.coll c ∈ selectCollectors s.namesToCollectors names [] := by
  rw [mem_selectCollectors]
  refine Or.inr ⟨n, hn, dGet_of_mem hi.n2cNodup ((hi.graph _ _).2 (Or.inl ⟨c, ns, rfl, hm, hnn⟩))⟩

/-- the selected owners other than the `_EmptyCollector` are, up to order, the registered collectors that are
selected -/
theorem selected_perm {s : State} (hi : Inv s) (names : List Name) :
    ((selectCollectors s.namesToCollectors names []).filter (fun o => decide (o ≠ Owner.empty))).Perm
      ((s.collectorToNames.filter
          (fun e => decide (Owner.coll e.1 ∈ selectCollectors s.namesToCollectors names []))).map
        (fun e => Owner.coll e.1)) := by
  rw [List.perm_ext_iff_of_nodup
    ((selectCollectors_nodup _ _ _ List.nodup_nil).sublist List.filter_sublist)]
  · intro o
    simp only [List.mem_map, List.mem_filter, decide_eq_true_eq]
    constructor
    · rintro ⟨h, hne⟩
      rcases selected_is_claimant hi h with ⟨c, ns, _, ho, hm, _⟩ | ⟨ho, _⟩
      · subst ho
        exact ⟨(c, ns), ⟨hm, h⟩, rfl⟩
      · exact absurd ho hne
    · rintro ⟨e, ⟨_, h⟩, rfl⟩; exact ⟨h, Owner.noConfusion⟩
  · have h1 : ((s.collectorToNames.filter
        (fun e => decide (Owner.coll e.1 ∈ selectCollectors s.namesToCollectors names []))).map Prod.fst).Nodup :=
      hi.c2nNodup.sublist (List.filter_sublist.map Prod.fst)
    have := nodup_map_of_inj Owner.coll (fun a b e => Owner.coll.inj e) h1
    rw [List.map_map] at this
    exact this

end PromVerif.Model.Registry
