/-
Declarative content of the spec's executable aggregates (`Spec/Multiprocess.lean`):
min/max are extremal elements, most-recent has a maximal non-zero set-time, sums do not depend on listing order in a
commutative monoid, `cumulate` is the running total whose last entry is the grand total, and a bound above all others
(`+Inf`) is sorted last.  Each order fact is used as a hypothesis exactly where it is needed; they hold for IEEE `<`
(irreflexive and transitive, NaN included) and for `Int`.
-/
import PromVerif.Spec.Multiprocess

namespace PromVerif.Spec.Multiprocess
open PromVerif.Py PromVerif.Model.Multiprocess
set_option autoImplicit false

variable {V B : Type}

/-! ### min / max -/

theorem pick_fold_inv (better : V → V → Bool)
    (hirr : ∀ a, better a a = false) (htr : ∀ a b c, better a b = true → better b c = true → better a c = true)
    (r : List V) (seen : List V) (c : V) (hc : c ∈ seen) (hmin : ∀ v ∈ seen, better v c = false) :
    let res := r.foldl (fun c x => if better x c then x else c) c
    res ∈ seen ++ r ∧ ∀ v ∈ seen ++ r, better v res = false := by
  induction r generalizing seen c with
  | nil => simpa using ⟨hc, hmin⟩
  | cons x r ih =>
    simp only [List.foldl_cons]
    by_cases hx : better x c = true
    · simp only [hx, if_true]
      have := ih (seen ++ [x]) x (by simp) (by
        intro v hv
        rcases List.mem_append.mp hv with h | h
        · cases hb : better v x with
          | false => rfl
          | true => have := htr v x c hb hx; rw [hmin v h] at this; cases this
        · simp at h; subst h; exact hirr v)
      simpa [List.append_assoc] using this
    · have hx' : better x c = false := by cases h : better x c <;> simp_all
      simp only [hx', Bool.false_eq_true, if_false]
      have := ih (seen ++ [x]) c (by simp [hc]) (by
        intro v hv
        rcases List.mem_append.mp hv with h | h
        · exact hmin v h
        · simp at h; subst h; exact hx')
      simpa [List.append_assoc] using this

/-- `aggPick` returns an element no other element is strictly better than -/
theorem aggPick_extremal (better : V → V → Bool)
    (hirr : ∀ a, better a a = false) (htr : ∀ a b c, better a b = true → better b c = true → better a c = true)
    (vs : List V) (r : V) (h : aggPick better vs = some r) : r ∈ vs ∧ ∀ v ∈ vs, better v r = false := by
  cases vs with
  | nil => cases h
  | cons v rest =>
    simp only [aggPick, Option.some.injEq] at h
    have := pick_fold_inv better hirr htr rest [v] v (by simp) (by intro w hw; simp at hw; subst hw; exact hirr w)
    simp only [h] at this
    simpa using this

theorem aggPick_none (better : V → V → Bool) (vs : List V) : aggPick better vs = none ↔ vs = [] := by
  cases vs <;> simp [aggPick]

/-- min mode: the reported value is a least element of the contributed values -/
theorem aggMin_minimal (vo : VOps V) (hirr : ∀ a, vo.lt a a = false)
    (htr : ∀ a b c, vo.lt a b = true → vo.lt b c = true → vo.lt a c = true)
    (vs : List V) (r : V) (h : aggMin vo vs = some r) : IsMinimal vo.lt vs r :=
  aggPick_extremal vo.lt hirr htr vs r h

/-- max mode: the reported value is a greatest element of the contributed values -/
theorem aggMax_maximal (vo : VOps V) (hirr : ∀ a, vo.lt a a = false)
    (htr : ∀ a b c, vo.lt a b = true → vo.lt b c = true → vo.lt a c = true)
    (vs : List V) (r : V) (h : aggMax vo vs = some r) : IsMaximal vo.lt vs r :=
  aggPick_extremal (fun x c => vo.lt c x) hirr (fun a b c h1 h2 => htr c b a h2 h1) vs r h

/-- under a strict total order on the occurring values the choice is unique, hence independent of the listing order -/
theorem aggPick_perm_total (better : V → V → Bool)
    (hirr : ∀ a, better a a = false) (htr : ∀ a b c, better a b = true → better b c = true → better a c = true)
    (vs vs' : List V) (hp : vs.Perm vs')
    (htot : ∀ a ∈ vs, ∀ b ∈ vs, a ≠ b → better a b = true ∨ better b a = true) :
    aggPick better vs = aggPick better vs' := by
  cases h : aggPick better vs with
  | none =>
    have := (aggPick_none better vs).mp h
    subst this
    have := hp.nil_eq
    subst this
    rfl
  | some r =>
    cases h' : aggPick better vs' with
    | none =>
      have := (aggPick_none better vs').mp h'
      subst this
      have := hp.symm.nil_eq
      subst this
      cases h
    | some r' =>
      have e1 := aggPick_extremal better hirr htr vs r h
      have e2 := aggPick_extremal better hirr htr vs' r' h'
      have hr' : r' ∈ vs := hp.mem_iff.mpr e2.1
      by_cases hne : r = r'
      · rw [hne]
      · rcases htot r e1.1 r' hr' hne with hb | hb
        · have := e2.2 r (hp.mem_iff.mp e1.1); rw [hb] at this; cases this
        · have := e1.2 r' hr'; rw [hb] at this; cases this

/-! ### most recent -/

/-- invariant of the most-recent scan -/
def RecentInv (vo : VOps V) (seen : List (V × V)) (st : Option V × V) : Prop :=
  (st.1 = none ∧ st.2 = vo.zero ∧ ∀ y ∈ seen, vo.lt vo.zero (normTs vo y.2) = false) ∨
  (∃ x ∈ seen, st.1 = some x.1 ∧ st.2 = normTs vo x.2 ∧ vo.lt vo.zero st.2 = true ∧
    ∀ y ∈ seen, vo.lt st.2 (normTs vo y.2) = false)

theorem recent_fold_inv (vo : VOps V) (hirr : ∀ a, vo.lt a a = false)
    (htr : ∀ a b c, vo.lt a b = true → vo.lt b c = true → vo.lt a c = true)
    (r seen : List (V × V)) (st : Option V × V) (h : RecentInv vo seen st) :
    RecentInv vo (seen ++ r) (r.foldl (fun (st : Option V × V) x =>
      let t := normTs vo x.2
      if vo.lt st.2 t then (some x.1, t) else st) st) := by
  induction r generalizing seen st with
  | nil => simpa using h
  | cons x r ih =>
    simp only [List.foldl_cons]
    have key : RecentInv vo (seen ++ [x]) (if vo.lt st.2 (normTs vo x.2) then (some x.1, normTs vo x.2) else st) := by
      by_cases hx : vo.lt st.2 (normTs vo x.2) = true
      · simp only [hx, if_true]
        right
        refine ⟨x, by simp, rfl, rfl, ?_, ?_⟩
        · rcases h with ⟨_, h2, _⟩ | ⟨_, _, _, _, h4, _⟩
          · rw [h2] at hx; exact hx
          · exact htr _ _ _ h4 hx
        · intro y hy
          rcases List.mem_append.mp hy with hy | hy
          · have hle : vo.lt st.2 (normTs vo y.2) = false := by
              rcases h with ⟨_, h2, h3⟩ | ⟨_, _, _, _, _, h5⟩
              · rw [h2]; exact h3 y hy
              · exact h5 y hy
            cases hb : vo.lt (normTs vo x.2) (normTs vo y.2) with
            | false => rfl
            | true => have := htr _ _ _ hx hb; rw [hle] at this; cases this
          · simp at hy; subst hy; exact hirr _
      · have hx' : vo.lt st.2 (normTs vo x.2) = false := by cases hb : vo.lt st.2 (normTs vo x.2) <;> simp_all
        simp only [hx', Bool.false_eq_true, if_false]
        rcases h with ⟨h1, h2, h3⟩ | ⟨z, hz, h1, h2, h4, h5⟩
        · left
          refine ⟨h1, h2, ?_⟩
          intro y hy
          rcases List.mem_append.mp hy with hy | hy
          · exact h3 y hy
          · simp at hy; subst hy; rw [h2] at hx'; exact hx'
        · right
          refine ⟨z, by simp [hz], h1, h2, h4, ?_⟩
          intro y hy
          rcases List.mem_append.mp hy with hy | hy
          · exact h5 y hy
          · simp at hy; subst hy; exact hx'
    have := ih (seen ++ [x]) _ key
    simpa [List.append_assoc] using this

/-- mostrecent mode: a reported value was set at a non-zero time that no other set-time exceeds; nothing is reported
    exactly when no contribution has a positive set-time -/
theorem aggMostRecent_spec (vo : VOps V) (hirr : ∀ a, vo.lt a a = false)
    (htr : ∀ a b c, vo.lt a b = true → vo.lt b c = true → vo.lt a c = true) (xs : List (V × V)) :
    (∀ r, aggMostRecent vo xs = some r → IsMostRecent vo xs r) ∧
    (aggMostRecent vo xs = none → ∀ y ∈ xs, vo.lt vo.zero (normTs vo y.2) = false) := by
  have inv := recent_fold_inv vo hirr htr xs [] (none, vo.zero) (Or.inl ⟨rfl, rfl, by intro y hy; cases hy⟩)
  simp only [List.nil_append] at inv
  unfold aggMostRecent
  constructor
  · intro r hr
    rcases inv with ⟨h1, _, _⟩ | ⟨x, hx, h1, h2, h4, h5⟩
    · rw [h1] at hr; cases hr
    · rw [h1] at hr
      refine ⟨x, hx, Option.some.inj hr, ?_, ?_⟩
      · rw [← h2]; exact h4
      · intro y hy; rw [← h2]; exact h5 y hy
  · intro hn
    rcases inv with ⟨_, _, h3⟩ | ⟨x, _, h1, _, _, _⟩
    · exact h3
    · rw [h1] at hn; cases hn

/-! ### sums do not depend on listing order -/

theorem aggSum_perm (vo : VOps V) (hcomm : ∀ a b, vo.add a b = vo.add b a)
    (hassoc : ∀ a b c, vo.add (vo.add a b) c = vo.add a (vo.add b c))
    (l₁ l₂ : List V) (h : l₁.Perm l₂) : aggSum vo l₁ = aggSum vo l₂ := by
  unfold aggSum
  apply List.Perm.foldl_eq' h
  intro x _ y _ z
  rw [hassoc, hassoc, hcomm x y]

/-! ### cumulation -/

theorem cumulate_fst (vo : VOps V) (a : V) (l : List (B × V)) : (cumulate vo a l).map (·.1) = l.map (·.1) := by
  induction l generalizing a with
  | nil => rfl
  | cons x r ih => obtain ⟨b, v⟩ := x; simp [cumulate, ih]

/-- the i-th cumulative bucket is the sum of the merged buckets up to and including the i-th bound -/
theorem cumulate_get (vo : VOps V) (a : V) (l : List (B × V)) (i : Nat) (hi : i < l.length) :
    ((cumulate vo a l)[i]?).map (·.2) = some (((l.take (i + 1)).map (·.2)).foldl vo.add a) := by
  induction l generalizing a i with
  | nil => cases hi
  | cons x r ih =>
    obtain ⟨b, v⟩ := x
    cases i with
    | zero => simp [cumulate]
    | succ j =>
      simp only [cumulate, List.getElem?_cons_succ, List.take_succ_cons, List.map_cons, List.foldl_cons]
      exact ih (vo.add a v) j (by simpa using hi)

/-- the last cumulative bucket is the grand total -/
theorem cumulate_last (vo : VOps V) (a : V) (l : List (B × V)) (x : B × V) (hx : l.getLast? = some x) :
    (cumulate vo a l).getLast? = some (x.1, (l.map (·.2)).foldl vo.add a) := by
  induction l generalizing a with
  | nil => cases hx
  | cons y r ih =>
    obtain ⟨b, v⟩ := y
    cases r with
    | nil =>
      simp only [List.getLast?_singleton, Option.some.injEq] at hx
      subst hx
      simp [cumulate]
    | cons z r' =>
      rw [List.getLast?_cons_cons] at hx
      have := ih (vo.add a v) hx
      simp only [cumulate, List.map_cons, List.foldl_cons] at this ⊢
      rw [List.getLast?_cons_cons]
      exact this

/-! ### a bound above all others is sorted last -/

theorem mem_insertBound (lt : B → B → Bool) (x y : B) (l : List B) : y ∈ insertBound lt x l ↔ y = x ∨ y ∈ l := by
  induction l with
  | nil => simp [insertBound]
  | cons z r ih =>
    simp only [insertBound]
    split
    · simp only [List.mem_cons, ih]
      constructor
      · rintro (h | h | h); exact Or.inr (Or.inl h); exact Or.inl h; exact Or.inr (Or.inr h)
      · rintro (h | h | h); exact Or.inr (Or.inl h); exact Or.inl h; exact Or.inr (Or.inr h)
    · simp [List.mem_cons]

theorem mem_sortBounds (lt : B → B → Bool) (y : B) (l : List B) : y ∈ sortBounds lt l ↔ y ∈ l := by
  unfold sortBounds
  induction l with
  | nil => simp
  | cons x r ih => simp only [List.foldr_cons, mem_insertBound, ih, List.mem_cons]

theorem insertBound_last (lt : B → B → Bool) (x top : B) (l : List B) (hl : l.getLast? = some top)
    (h : lt top x = false) : (insertBound lt x l).getLast? = some top := by
  induction l with
  | nil => cases hl
  | cons z r ih =>
    simp only [insertBound]
    cases r with
    | nil =>
      simp only [List.getLast?_singleton, Option.some.injEq] at hl
      subst hl
      simp [h, insertBound]
    | cons w r' =>
      rw [List.getLast?_cons_cons] at hl
      split
      · have := ih hl
        cases hins : insertBound lt x (w :: r') with
        | nil => rw [hins] at this; cases this
        | cons a b => rw [List.getLast?_cons_cons, ← hins]; exact this
      · rw [List.getLast?_cons_cons, List.getLast?_cons_cons]; exact hl

theorem insertBound_top (lt : B → B → Bool) (top : B) (l : List B) (h : ∀ y ∈ l, lt y top = true) :
    insertBound lt top l = l ++ [top] := by
  induction l with
  | nil => rfl
  | cons z r ih =>
    simp only [insertBound, h z List.mem_cons_self, if_true, List.cons_append]
    rw [ih (fun y hy => h y (List.mem_cons_of_mem _ hy))]

/-- if `top` occurs once, is above every other bound and below none, it is the last of the sorted bounds
    (so `_count`, the grand total, is the value of the `+Inf` bucket) -/
theorem sortBounds_last (lt : B → B → Bool) (top : B) (l : List B) (hmem : top ∈ l) (hnd : l.Nodup)
    (hbelow : ∀ y ∈ l, y ≠ top → lt y top = true) (habove : ∀ y ∈ l, lt top y = false) :
    (sortBounds lt l).getLast? = some top := by
  unfold sortBounds
  induction l with
  | nil => cases hmem
  | cons x r ih =>
    simp only [List.foldr_cons]
    rw [List.nodup_cons] at hnd
    by_cases hx : x = top
    · subst hx
      have : ∀ y ∈ List.foldr (insertBound lt) [] r, lt y x = true := by
        intro y hy
        have hy' : y ∈ r := (mem_sortBounds lt y r).mp hy
        exact hbelow y (List.mem_cons_of_mem _ hy') (fun e => hnd.1 (e ▸ hy'))
      rw [insertBound_top lt x _ this]
      simp
    · have hr : top ∈ r := by
        rcases List.mem_cons.mp hmem with e | e
        · exact absurd e.symm hx
        · exact e
      have := ih hr hnd.2 (fun y hy => hbelow y (List.mem_cons_of_mem _ hy))
        (fun y hy => habove y (List.mem_cons_of_mem _ hy))
      exact insertBound_last lt x top _ this (habove x List.mem_cons_self)

end PromVerif.Spec.Multiprocess
