/-
C04: `_parse_remaining_text` on the rendered remainder of a sample line, assembled:
value, timestamp (by denoted value) and exemplar come back.
-/
import PromVerif.Lemmas.OMRtRem2

set_option autoImplicit false

namespace PromVerif.Lemmas.OMRt
open PromVerif.Py PromVerif.Model PromVerif.Model.Escape PromVerif.Model.ParseCore PromVerif.Model.Validation
open PromVerif.Model.OMParse PromVerif.Spec.OMRoundtrip PromVerif.Lemmas.Escape PromVerif.Lemmas.Scanner
open PromVerif.Lemmas.TextParse PromVerif.Model.TextExpo

/-- the remainder of a sample line at token level: `value[ ts][ # {labels} value[ ts]]` -/
def remText (vtok : Str) (ts : Option Str) (ex : Option (List (Str × Str) × Str × Option Str)) : Str :=
  vtok ++ optTok ts ++ (match ex with
    | none => []
    | some x => ' ' :: exTail x.1 x.2.1 x.2.2)

theorem space_not_mem_numTok {t : Str} (h : NumTok t) : ' ' ∉ t := numTok_not_mem h (d := ' ') (by decide)

theorem parseRemaining_bare (P : Params) (vtok : Str) (hv : NumTok vtok) :
    parseRemainingText P (remText vtok none none) =
      (match P.parseValue vtok with
       | .ok val => .ok (val, none, none)
       | .error e => .error e) := by
  unfold parseRemainingText remText
  simp only [optTok, List.append_nil, splitFirst_of_not_mem (space_not_mem_numTok hv), bind, Except.bind]
  cases P.parseValue vtok <;> rfl

theorem parseRemaining_ts (P : Params) (vtok t : Str) (hv : NumTok vtok) (ht : NumTok t) :
    parseRemainingText P (remText vtok (some t) none) =
      (match P.parseValue vtok with
       | .ok val => remFinish P val ⟨.timestamp, false, false, t.reverse, [], [], none⟩
       | .error e => .error e) := by
  unfold parseRemainingText remText
  simp only [optTok, List.append_nil, splitFirst_append_of_not_mem (space_not_mem_numTok hv), bind, Except.bind]
  cases P.parseValue vtok with
  | error e => rfl
  | ok val =>
    simp only []
    have := remLoop_timestamp P t t (tsChars_numTok ht) [] [] [] none
    rw [show ({} : RAcc) = ⟨.timestamp, false, false, [], [], [], none⟩ from rfl, this]
    simp

theorem parseRemaining_ex (P : Params) (vtok : Str) (hv : NumTok vtok) (ts : Option Str) (hts : ∀ t, ts = some t → NumTok t)
    (L Lp : List (Str × Str)) (hpass : ExPass (exBlock L)) (etok : Str) (hetok : NumTok etok) (ets : Option Str)
    (hets : ∀ t, ets = some t → NumTok t) (hlab : parseLabels P.legacy (exBlock L) true = .ok Lp) :
    parseRemainingText P (remText vtok ts (some (L, etok, ets))) =
      (match P.parseValue vtok with
       | .ok val => remFinish P val ⟨exState ets, false, false, revOpt ts, etok.reverse, revOpt ets, some Lp⟩
       | .error e => .error e) := by
  have hshape : remText vtok ts (some (L, etok, ets)) = vtok ++ ' ' :: (tsPre ts ++ exTail L etok ets) := by
    cases ts <;> simp [remText, optTok, tsPre]
  unfold parseRemainingText
  rw [hshape]
  simp only [splitFirst_append_of_not_mem (space_not_mem_numTok hv), bind, Except.bind]
  cases P.parseValue vtok with
  | error e => rfl
  | ok val =>
    simp only [remLoop_exemplar P ts hts L Lp hpass etok hetok ets hets hlab]

-- what follows the loop ------------------------------------------------------------------------------------------------------

theorem remFinish_ts (P : Params) (val : Num) (t : Str) (ht : t ≠ []) :
    remFinish P val ⟨.timestamp, false, false, t.reverse, [], [], none⟩ =
      (match parseTimestamp P t with
       | .ok ts => .ok (val, ts, none)
       | .error e => .error e) := by
  have hne : t.reverse.isEmpty = false := by cases t <;> simp at ht ⊢
  unfold remFinish
  simp only [runChecks, raiseIf, hne, Bool.and_false, Bool.false_eq_true, ↓reduceIte, List.reverse_reverse,
    show (RState.timestamp == RState.exemplartimestamp) = false from rfl, Bool.false_and,
    show (RState.timestamp == RState.exemplarhash) = false from rfl, show (RState.timestamp == RState.exemplarspace) = false from rfl,
    show (RState.timestamp == RState.exemplarstartoflabels) = false from rfl,
    show (RState.timestamp == RState.exemplarparsedlabels) = false from rfl, Bool.or_self]
  cases parseTimestamp P t <;> rfl

theorem exState_checks (ets : Option Str) (hets : ∀ t, ets = some t → t ≠ []) :
    (exState ets == RState.timestamp) = false ∧ (exState ets == RState.exemplartimestamp && (revOpt ets).isEmpty) = false ∧
    (exState ets == RState.exemplarhash || exState ets == RState.exemplarspace || exState ets == RState.exemplarstartoflabels
      || exState ets == RState.exemplarparsedlabels) = false := by
  cases ets with
  | none => exact ⟨rfl, rfl, rfl⟩
  | some t =>
    refine ⟨rfl, ?_, rfl⟩
    have := hets t rfl
    cases t with
    | nil => exact absurd rfl this
    | cons c cs => simp [exState, revOpt]

/-- the total length of names and values -/
def labelsLen (ls : List (Str × Str)) : Nat := (ls.map (fun kv => kv.1.length + kv.2.length)).sum

theorem remFinish_ex (P : Params) (val : Num) (ts : Option Str) (etok : Str) (ets : Option Str) (hets : ∀ t, ets = some t → t ≠ [])
    (Lp : List (Str × Str)) (hlen : labelsLen Lp ≤ 128) :
    remFinish P val ⟨exState ets, false, false, revOpt ts, etok.reverse, revOpt ets, some Lp⟩ =
      (match parseTimestamp P (ts.getD []) with
       | .error e => .error e
       | .ok ots =>
         match P.parseValue etok with
         | .error e => .error e
         | .ok ev =>
           match parseTimestamp P (ets.getD []) with
           | .error e => .error e
           | .ok oets => .ok (val, ots, some ⟨Lp, ev, oets⟩)) := by
  obtain ⟨c1, c2, c3⟩ := exState_checks ets hets
  have hcmp : natCmp Generated.OMParse.exemplarLenCmp ((Lp.map (fun kv => kv.1.length + kv.2.length)).sum)
      Generated.OMParse.exemplarMaxLen = false := by
    have : ¬ (labelsLen Lp > 128) := by omega
    simpa [natCmp, Generated.OMParse.exemplarLenCmp, Generated.OMParse.exemplarMaxLen, labelsLen] using this
  unfold remFinish
  simp only [runChecks, raiseIf, c1, c2, c3, Bool.false_and, Bool.false_eq_true, ↓reduceIte]
  simp only [revOpt, List.reverse_reverse]
  cases parseTimestamp P (ts.getD []) with
  | error e => rfl
  | ok ots =>
    simp only [remExemplar, hcmp, Bool.false_eq_true, ↓reduceIte, List.reverse_reverse]
    cases P.parseValue etok with
    | error e => rfl
    | ok ev =>
      cases parseTimestamp P (ets.getD []) <;> rfl

end PromVerif.Lemmas.OMRt
