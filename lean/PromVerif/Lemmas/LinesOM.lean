/-
C05 lemmas, part 8: every line of the OpenMetrics exposition model is `body ++ LF` with `body` classified by the
grammar (sample lines with timestamps and exemplars, HELP / TYPE / UNIT).
-/
import PromVerif.Lemmas.LinesFamily

namespace PromVerif.Lemmas.Lines
open PromVerif.Py PromVerif.Model PromVerif.Model.Escape PromVerif.Model.Validation
open PromVerif.Generated.Expo PromVerif.Generated.Validation
open PromVerif.Spec.LineGrammar hiding Str

/-- preconditions on an exemplar: its value and float timestamp are number tokens.  Nothing is assumed about its
label names (F3 repaired: they go through `escape_label_name`) or label values. -/
def exemplarOK (e : Exemplar) : Bool :=
  floatTok e.value && (match e.ts with | none => true | some t => tsOK t)

/-- preconditions on one sample for OpenMetrics: numbers are number tokens -/
def sampleOKOM (s : Sample) : Bool :=
  sampleOKText s && (match s.ts with | none => true | some t => tsOK t.ts) &&
    (match s.exemplar with | none => true | some e => exemplarOK e)

-- label lists -------------------------------------------------------------------------------------------------
theorem om_labelItem (f : Bool) (kv : Str × Str) :
    run true (.lb false f) (OMExpo.labelItem kv) = .qe .lval := run_labelItem true false f kv.1 kv.2

theorem om_labels_run (f : Bool) (ls : List (Str × Str)) (hne : ls ≠ []) :
    run true (.lb false f) (joinStr [','] ((sortByKey ls).map OMExpo.labelItem)) = .qe .lval :=
  run_sortedLabels true false OMExpo.labelItem om_labelItem ls hne f

theorem om_labels_ne_nil (ls : List (Str × Str)) (hne : ls ≠ []) :
    joinStr [','] ((sortByKey ls).map OMExpo.labelItem) ≠ [] := by
  cases hsl : sortByKey ls with
  | nil => exact absurd hsl (sortByKey_ne_nil ls hne)
  | cons kv l => exact joinStr_ne_nil _ _ _ (by simp [OMExpo.labelItem])

/-- T1 fact (repaired F3): exemplar label names are written through `escape_label_name` -/
theorem exemplar_name_escaped : PromVerif.Generated.Expo.exemplarNameEscaped = true := by decide

/-- one exemplar label item, for EVERY label name and value -/
theorem run_exItem (f : Bool) (kv : Str × Str) :
    run true (.lb true f) (OMExpo.exemplarItem kv) = .qe .exval := by
  unfold OMExpo.exemplarItem
  rw [if_pos exemplar_name_escaped, escapeExemplarValue_eq]
  exact run_labelItem true true f kv.1 kv.2

/-- `{labels}` of an exemplar, possibly empty -/
theorem run_exLabels (ls : List (Str × Str)) (r : Str) :
    run true (.lb true true) (joinStr [','] ((sortByKey ls).map OMExpo.exemplarItem) ++ '}' :: r) = run true .xal r := by
  cases hsl : sortByKey ls with
  | nil => simp [joinStr, run_cons, step]
  | cons kv l =>
    rw [run_append, run_labelList true true true OMExpo.exemplarItem run_exItem kv l]
    simp [run_cons, step]

theorem run_exLabels' (ls : List (Str × Str)) (r : Str) :
    run true (run true (.lb true true) (joinStr [','] ((sortByKey ls).map OMExpo.exemplarItem))) ('}' :: r) =
      run true .xal r := by
  rw [← run_append]; exact run_exLabels ls r

-- edges ---------------------------------------------------------------------------------------------------------
theorem e_v_ex (r : Str) : run true .v (' ' :: '#' :: ' ' :: '{' :: r) = run true (.lb true true) r := by
  have h1 : numCh ' ' = false := by decide
  have h2 : numCh '#' = false := by decide
  simp [run_cons, step, h1, h2]
theorem e_t_ex (r : Str) : run true .t (' ' :: '#' :: ' ' :: '{' :: r) = run true (.lb true true) r := by
  have h1 : numCh ' ' = false := by decide
  simp [run_cons, step, h1]
theorem e_xal_sp (r : Str) : run true .xal (' ' :: r) = run true .xv0 r := by simp [run_cons, step]

theorem run_om_ts (t : Str) (h : floatTok t = true) : run true .v (' ' :: t) = .t := by
  have hsp : numCh ' ' = false := by decide
  rw [run_cons]
  have : step true .v ' ' = .t0 := by simp [step, hsp]
  rw [this]
  rw [floatTok_iff] at h
  exact run_tok true .t0 .t numCh (fun c hc => by simp [step, hc]) (fun c hc => by simp [step, hc]) t h.1
    (by simpa only [List.all_eq_true] using h.2)

theorem run_exvalue (s : Str) (h : floatTok s = true) : run true .xv0 s = .xv := by
  rw [floatTok_iff] at h
  exact run_tok true .xv0 .xv numCh (fun c hc => by simp [step, hc]) (fun c hc => by simp [step, hc]) s h.1
    (by simpa only [List.all_eq_true] using h.2)

theorem run_ex_ts (t : Str) (h : floatTok t = true) : run true .xv (' ' :: t) = .xt := by
  have hsp : numCh ' ' = false := by decide
  rw [run_cons]
  have : step true .xv ' ' = .xt0 := by simp [step, hsp]
  rw [this]
  rw [floatTok_iff] at h
  exact run_tok true .xt0 .xt numCh (fun c hc => by simp [step, hc]) (fun c hc => by simp [step, hc]) t h.1
    (by simpa only [List.all_eq_true] using h.2)

theorem exPrefix : " # ".toList = [' ', '#', ' '] := rfl

/-- the exemplar tail is accepted from the state after the value (`.v`) and from the state after a timestamp (`.t`) -/
theorem run_exemplar (st : St) (hst : st = .v ∨ st = .t) (e : Exemplar) (h : exemplarOK e = true) :
    accepting (run true st (OMExpo.exemplarStr e)) = true := by
  simp only [exemplarOK, Bool.and_eq_true] at h
  obtain ⟨hv, ht⟩ := h
  have hgo := run_exvalue _ (go_numTok _ hv)
  unfold OMExpo.exemplarStr
  dsimp only
  cases hts : e.ts with
  | none =>
    rcases hst with rfl | rfl <;>
      simp only [exPrefix, List.append_assoc, List.cons_append, List.nil_append, e_v_ex, e_t_ex, run_exLabels, run_exLabels',
        e_xal_sp, run_append, hgo, accepting]
  | some t =>
    rw [hts] at ht
    have htt := run_ex_ts _ (tsStr_numTok t ht)
    rcases hst with rfl | rfl <;>
      simp only [exPrefix, List.append_assoc, List.cons_append, List.nil_append, e_v_ex, e_t_ex, run_exLabels, run_exLabels',
        e_xal_sp, run_append, hgo, htt, accepting]

-- the sample line ------------------------------------------------------------------------------------------------
/-- what `sampleLine` returns when it does not raise -/
def omBody (s : Sample) : Str :=
  let legacy := isValidLegacyMetricName s.name
  let l0 := if !legacy then escapeMetricName s.name ++ (if s.labels.isEmpty then [] else [',', ' ']) else []
  let l1 := if s.labels.isEmpty then l0 else l0 ++ joinStr [','] ((sortByKey s.labels).map OMExpo.labelItem)
  let labelstr := if l1.isEmpty then [] else ['{'] ++ l1 ++ ['}']
  let exemplarstr := match s.exemplar with | some e => OMExpo.exemplarStr e | none => []
  let timestamp := match s.ts with | none => [] | some t => ' ' :: OMExpo.tsStr t.ts
  let value := Utils.floatToGoString s.value
  if legacy then s.name ++ labelstr ++ [' '] ++ value ++ timestamp ++ exemplarstr
  else labelstr ++ [' '] ++ value ++ timestamp ++ exemplarstr

theorem om_sampleLine_eq (fam : Family) (s : Sample) (l : Str) (h : OMExpo.sampleLine fam s = .ok l) :
    l = omBody s ++ ['\n'] := by
  unfold OMExpo.sampleLine at h
  unfold omBody
  dsimp only at h ⊢
  cases hex : s.exemplar with
  | none =>
    simp only [hex] at h
    split at h <;> (injection h with h; rw [← h])
    · next hl => simp [hl] <;> (cases s.ts <;> rfl)
    · next hl => simp [hl] <;> (cases s.ts <;> rfl)
  | some e =>
    simp only [hex] at h
    by_cases hv : OMExpo.isValidExemplarMetric fam.typ fam.name s.name = true
    · simp only [hv, Bool.not_true, Bool.false_eq_true, if_false] at h
      split at h <;> (injection h with h; rw [← h])
      · next hl => simp [hl] <;> (cases s.ts <;> rfl)
      · next hl => simp [hl] <;> (cases s.ts <;> rfl)
    · simp [hv] at h

/-- `sampleLine` raises exactly for an exemplar on an ineligible sample -/
theorem om_sampleLine_total (fam : Family) (s : Sample)
    (h : s.exemplar.isNone = true ∨ OMExpo.isValidExemplarMetric fam.typ fam.name s.name = true) :
    ∃ l, OMExpo.sampleLine fam s = .ok l := by
  unfold OMExpo.sampleLine
  dsimp only
  cases hex : s.exemplar with
  | none => simp only; split <;> exact ⟨_, rfl⟩
  | some e =>
    rcases h with h | h
    · simp [hex] at h
    · simp only [h, Bool.not_true, Bool.false_eq_true, if_false]
      split <;> exact ⟨_, rfl⟩

theorem om_body_ok (s : Sample) (h : sampleOKOM s = true) : sampleLine true (omBody s) = true := by
  simp only [sampleOKOM, sampleOKText, Bool.and_eq_true] at h
  obtain ⟨⟨hv, hts⟩, hex⟩ := h
  have hgo := run_value true _ (go_numTok _ hv)
  unfold omBody sampleLine
  dsimp only
  by_cases hleg : isValidLegacyMetricName s.name = true
  · have hname := run_bareMetric true s.name (legacy_metric_bare s.name hleg)
    simp only [hleg, Bool.not_true, Bool.false_eq_true, if_false, if_true]
    cases hls : s.labels with
    | nil =>
      simp only [List.isEmpty_nil, if_true, List.append_nil]
      cases ht : s.ts with
      | none =>
        cases he : s.exemplar with
        | none =>
          simp only [List.append_assoc, List.cons_append, List.nil_append, List.append_nil, run_append, hname, hgo,
            e_name_sp, accepting]
        | some e =>
          rw [he] at hex
          simp only [List.append_assoc, List.cons_append, List.nil_append, List.append_nil, run_append, hname, hgo,
            e_name_sp]
          exact run_exemplar .v (Or.inl rfl) e hex
      | some t =>
        rw [ht] at hts
        have htt := run_om_ts _ (tsStr_numTok t.ts hts)
        have htt' : ∀ r, run true .v (' ' :: (OMExpo.tsStr t.ts ++ r)) = run true .t r := fun r => by
          rw [← List.cons_append, run_append, htt]
        cases he : s.exemplar with
        | none =>
          simp only [List.append_assoc, List.cons_append, List.nil_append, List.append_nil, run_append, hname, hgo,
            e_name_sp, htt, accepting]
        | some e =>
          rw [he] at hex
          simp only [List.append_assoc, List.cons_append, List.nil_append, List.append_nil, run_append, hname, hgo,
            e_name_sp, htt']
          exact run_exemplar .t (Or.inr rfl) e hex
    | cons kv l =>
      have hne := om_labels_ne_nil (kv :: l) (by simp)
      have he1 := isEmpty_false_of_ne_nil _ hne
      have hlab := om_labels_run true (kv :: l) (by simp)
      simp only [List.isEmpty_cons, Bool.false_eq_true, if_false, List.nil_append, he1]
      cases ht : s.ts with
      | none =>
        cases he : s.exemplar with
        | none =>
          simp only [List.append_assoc, List.cons_append, List.nil_append, List.append_nil, run_append, hname, hgo,
            hlab, e_name_brace, e_lval_close, e_al_sp, accepting]
        | some e =>
          rw [he] at hex
          simp only [List.append_assoc, List.cons_append, List.nil_append, List.append_nil, run_append, hname, hgo,
            hlab, e_name_brace, e_lval_close, e_al_sp]
          exact run_exemplar .v (Or.inl rfl) e hex
      | some t =>
        rw [ht] at hts
        have htt := run_om_ts _ (tsStr_numTok t.ts hts)
        have htt' : ∀ r, run true .v (' ' :: (OMExpo.tsStr t.ts ++ r)) = run true .t r := fun r => by
          rw [← List.cons_append, run_append, htt]
        cases he : s.exemplar with
        | none =>
          simp only [List.append_assoc, List.cons_append, List.nil_append, List.append_nil, run_append, hname, hgo,
            hlab, e_name_brace, e_lval_close, e_al_sp, htt, accepting]
        | some e =>
          rw [he] at hex
          simp only [List.append_assoc, List.cons_append, List.nil_append, List.append_nil, run_append, hname, hgo,
            hlab, e_name_brace, e_lval_close, e_al_sp, htt']
          exact run_exemplar .t (Or.inr rfl) e hex
  · have hq : escapeMetricName s.name = ['"'] ++ escape s.name ++ ['"'] := by
      unfold escapeMetricName; simp [hleg]
    simp only [hleg, Bool.not_false, if_true, Bool.false_eq_true, if_false]
    cases hls : s.labels with
    | nil =>
      have he1 : (escapeMetricName s.name ++ ([] : Str)).isEmpty = false := by simp [hq]
      simp only [List.isEmpty_nil, if_true, he1, Bool.false_eq_true, if_false]
      cases ht : s.ts with
      | none =>
        cases he : s.exemplar with
        | none =>
          simp only [hq, List.append_assoc, List.cons_append, List.nil_append, List.append_nil, run_append, hgo,
            e_s0_qname, e_mname_close, e_al_sp, accepting]
        | some e =>
          rw [he] at hex
          simp only [hq, List.append_assoc, List.cons_append, List.nil_append, List.append_nil, run_append, hgo,
            e_s0_qname, e_mname_close, e_al_sp]
          exact run_exemplar .v (Or.inl rfl) e hex
      | some t =>
        rw [ht] at hts
        have htt := run_om_ts _ (tsStr_numTok t.ts hts)
        have htt' : ∀ r, run true .v (' ' :: (OMExpo.tsStr t.ts ++ r)) = run true .t r := fun r => by
          rw [← List.cons_append, run_append, htt]
        cases he : s.exemplar with
        | none =>
          simp only [hq, List.append_assoc, List.cons_append, List.nil_append, List.append_nil, run_append, hgo,
            e_s0_qname, e_mname_close, e_al_sp, htt, accepting]
        | some e =>
          rw [he] at hex
          simp only [hq, List.append_assoc, List.cons_append, List.nil_append, List.append_nil, run_append, hgo,
            e_s0_qname, e_mname_close, e_al_sp, htt']
          exact run_exemplar .t (Or.inr rfl) e hex
    | cons kv l =>
      have hlab := om_labels_run false (kv :: l) (by simp)
      have he1 : (escapeMetricName s.name ++ [',', ' '] ++
          joinStr [','] ((sortByKey (kv :: l)).map OMExpo.labelItem)).isEmpty = false := by simp [hq]
      simp only [List.isEmpty_cons, Bool.false_eq_true, if_false, he1]
      cases ht : s.ts with
      | none =>
        cases he : s.exemplar with
        | none =>
          simp only [hq, List.append_assoc, List.cons_append, List.nil_append, List.append_nil, run_append, hgo,
            hlab, e_s0_qname, e_mname_comma_om, e_lval_close, e_al_sp, accepting]
        | some e =>
          rw [he] at hex
          simp only [hq, List.append_assoc, List.cons_append, List.nil_append, List.append_nil, run_append, hgo,
            hlab, e_s0_qname, e_mname_comma_om, e_lval_close, e_al_sp]
          exact run_exemplar .v (Or.inl rfl) e hex
      | some t =>
        rw [ht] at hts
        have htt := run_om_ts _ (tsStr_numTok t.ts hts)
        have htt' : ∀ r, run true .v (' ' :: (OMExpo.tsStr t.ts ++ r)) = run true .t r := fun r => by
          rw [← List.cons_append, run_append, htt]
        cases he : s.exemplar with
        | none =>
          simp only [hq, List.append_assoc, List.cons_append, List.nil_append, List.append_nil, run_append, hgo,
            hlab, e_s0_qname, e_mname_comma_om, e_lval_close, e_al_sp, htt, accepting]
        | some e =>
          rw [he] at hex
          simp only [hq, List.append_assoc, List.cons_append, List.nil_append, List.append_nil, run_append, hgo,
            hlab, e_s0_qname, e_mname_comma_om, e_lval_close, e_al_sp, htt']
          exact run_exemplar .t (Or.inr rfl) e hex

theorem om_sampleLine_lineOf (fam : Family) (s : Sample) (l : Str) (hok : sampleOKOM s = true)
    (h : OMExpo.sampleLine fam s = .ok l) : LineOf true .sample l :=
  ⟨omBody s, om_sampleLine_eq fam s l h, classify_sample true _ (om_body_ok s hok)⟩

end PromVerif.Lemmas.Lines
