/-
Totality of the text parser model (C14, text part): which exception classes can escape from each function, and that the
fuel of the label loop always suffices.
-/
import PromVerif.Lemmas.TextParseSample
import PromVerif.Model.TextParse

namespace PromVerif.Lemmas.TextTotal
open PromVerif.Py PromVerif.Model.ParseCore PromVerif.Model.Validation PromVerif.Model.TextParse
open PromVerif.Lemmas.Scanner PromVerif.Lemmas.TextParse

/-- the only errors `r` can end in: ValueError, IndexError (then `P` holds), OverflowError (then `Q` holds) -/
def Err3 {α : Type} (P Q : Prop) (r : PyM α) : Prop :=
  ∀ e, r = .error e → e = .valueError ∨ (e = .indexError ∧ P) ∨ (e = .overflowError ∧ Q)

/-- only ValueError -/
def Safe {α : Type} (r : PyM α) : Prop := ∀ e, r = .error e → e = .valueError

theorem Safe.err3 {α : Type} {P Q : Prop} {r : PyM α} (h : Safe r) : Err3 P Q r := fun e he => Or.inl (h e he)

theorem safe_ok {α : Type} (a : α) : Safe (.ok a : PyM α) := fun e he => by cases he
theorem safe_pure {α : Type} (a : α) : Safe (pure a : PyM α) := fun e he => by cases he
theorem safe_valueError {α : Type} : Safe (.error .valueError : PyM α) := fun e he => by cases he; rfl
theorem safe_throw {α : Type} : Safe (throw .valueError : PyM α) := fun e he => by cases he; rfl

theorem err3_bind {α β : Type} {P Q : Prop} {m : PyM α} {f : α → PyM β} (hm : Err3 P Q m)
    (hf : ∀ a, m = .ok a → Err3 P Q (f a)) : Err3 P Q (m >>= f) := by
  intro e he
  cases hm' : m with
  | error e' =>
    rw [hm'] at he
    have : e' = e := by simpa [bind, Except.bind] using he
    subst this
    exact hm _ hm'
  | ok a =>
    rw [hm'] at he
    exact hf a hm' e (by simpa [bind, Except.bind] using he)

theorem safe_bind {α β : Type} {m : PyM α} {f : α → PyM β} (hm : Safe m) (hf : ∀ a, m = .ok a → Safe (f a)) :
    Safe (m >>= f) := by
  intro e he
  cases hm' : m with
  | error e' =>
    rw [hm'] at he
    have : e' = e := by simpa [bind, Except.bind] using he
    subst this
    exact hm _ hm'
  | ok a =>
    rw [hm'] at he
    exact hf a hm' e (by simpa [bind, Except.bind] using he)

-- strip ---------------------------------------------------------------------------------------------------------------

theorem lstrip_head_not_space (s : Str) (a : Char) (h : (lstrip s).head? = some a) : isPySpace a = false := by
  unfold lstrip lstripSet at h
  have := List.head?_dropWhile_not isPySpace s
  rw [h] at this
  simpa using this

theorem rstripSet_head (p : Char → Bool) (s : Str) : (rstripSet p s).head? = some a → s.head? = some a := by
  intro h
  obtain ⟨j, hj, _⟩ := rstripSet_prefix p s
  cases hr : rstripSet p s with
  | nil => rw [hr] at h; simp at h
  | cons x xs => rw [hr] at h hj; rw [hj]; simpa using h

theorem strip_head_not_space (s : Str) (a : Char) (h : (strip s).head? = some a) : isPySpace a = false := by
  unfold strip stripSet at h
  exact lstrip_head_not_space s a (rstripSet_head _ _ h)

/-- a non-empty prefix of a stripped string does not strip to nothing -/
theorem strip_take_ne_nil (s : Str) (n : Nat) (h : (strip s).take n ≠ []) : strip ((strip s).take n) ≠ [] := by
  cases hs : strip s with
  | nil => rw [hs] at h; simp at h
  | cons a t =>
    have ha := strip_head_not_space s a (by rw [hs]; rfl)
    cases n with
    | zero => rw [hs] at h; simp at h
    | succ k =>
      simp only [List.take_succ_cons]
      rw [strip_of_head (a := a) rfl ha]
      intro e
      have := (rstripSet_eq_nil_iff isPySpace (a :: List.take k t)).mp e
      simp [ha] at this

-- _unquote_unescape -------------------------------------------------------------------------------------------------------

/-- `_unquote_unescape` (which strips first and returns on an empty result — the F8 repair) raises only ValueError -/
theorem unquoteUnescape_safe_all (t : Str) : Safe (unquoteUnescape t) := by
  intro e he
  unfold unquoteUnescape at he
  simp only [] at he
  split at he
  · cases he
  · split at he
    · cases he
    · split at he
      · cases he; rfl
      · cases he
    · cases he

theorem unquoteUnescape_safe (t : Str) (_h : t = [] ∨ strip t ≠ []) : Safe (unquoteUnescape t) :=
  unquoteUnescape_safe_all t

-- the scanner: decomposition of a hit ----------------------------------------------------------------------------------

theorem scan_none_noHit (chs : Char → Bool) : ∀ (t : Str) (q o : Bool), scan chs t q o = none → noHit chs t q o = true := by
  intro t
  induction t with
  | nil => intro q o _; rfl
  | cons c cs ih =>
    intro q o h
    rw [scan_cons] at h
    by_cases hh : (!(qStep q o c) && chs c) = true
    · simp [hh] at h
    · simp only [hh, Bool.false_eq_true, ↓reduceIte, Option.map_eq_none_iff] at h
      simp only [noHit, ih _ _ h, Bool.and_true]
      cases hq : qStep q o c <;> simp_all

theorem scan_some_split (chs : Char → Bool) : ∀ (t : Str) (q o : Bool) (p : Nat), scan chs t q o = some p →
    ∃ a c b, t = a ++ c :: b ∧ a.length = p ∧ noHit chs a q o = true ∧
      (!(qStep (run a q o).1 (run a q o).2 c) && chs c) = true := by
  intro t
  induction t with
  | nil => intro q o p h; simp [scan_nil] at h
  | cons c cs ih =>
    intro q o p h
    rw [scan_cons] at h
    by_cases hh : (!(qStep q o c) && chs c) = true
    · simp only [hh, ↓reduceIte, Option.some.injEq] at h
      exact ⟨[], c, cs, rfl, by simpa using h, rfl, by simpa [run] using hh⟩
    · simp only [hh, Bool.false_eq_true, ↓reduceIte, Option.map_eq_some_iff] at h
      obtain ⟨p', hp', hpe⟩ := h
      obtain ⟨a, c', b, e, hl, hn, hc⟩ := ih _ _ _ hp'
      refine ⟨c :: a, c', b, by rw [e]; rfl, by simp [hl, hpe], ?_, by simpa [run] using hc⟩
      simp only [noHit, hn, Bool.and_true]
      cases hq : qStep q o c <;> simp_all

/-- the label-block invariant: no unquoted '}' -/
def NoRB (s : Str) : Prop := noHit rbChs s false false = true

theorem noRB_nil : NoRB [] := rfl

theorem noRB_prefix {a b : Str} (h : NoRB (a ++ b)) : NoRB a := by
  unfold NoRB at h ⊢
  rw [noHit_append] at h
  simp only [Bool.and_eq_true] at h
  exact h.1

theorem noRB_plain_cons {c : Char} {s : Str} (h1 : c ≠ '"') (h2 : c ≠ '\\') (h : NoRB (c :: s)) : NoRB s := by
  unfold NoRB at h ⊢
  have e1 : (c == '"') = false := by simpa using h1
  have e2 : (c == '\\') = false := by simpa using h2
  have := h
  simp only [noHit, qStep, bsStep, e1, e2, Bool.false_and, Bool.false_eq_true, ↓reduceIte, Bool.not_false, Bool.true_and,
    Bool.and_eq_true] at this
  exact this.2

theorem space_not_quote {c : Char} (h : isPySpace c = true) : c ≠ '"' ∧ c ≠ '\\' := by
  constructor <;> (intro e; subst e; revert h; decide)

theorem noRB_lstrip {s : Str} (h : NoRB s) : NoRB (lstrip s) := by
  induction s with
  | nil => exact h
  | cons c cs ih =>
    unfold lstrip lstripSet
    rw [List.dropWhile_cons]
    by_cases hc : isPySpace c = true
    · simp only [hc, ↓reduceIte]
      have := space_not_quote hc
      exact ih (noRB_plain_cons this.1 this.2 h)
    · simp only [hc, Bool.false_eq_true, ↓reduceIte]; exact h

theorem noRB_rstrip {s : Str} (h : NoRB s) : NoRB (rstrip s) := by
  obtain ⟨j, hj, _⟩ := rstripSet_prefix isPySpace s
  rw [hj] at h
  exact noRB_prefix h

theorem noRB_strip {s : Str} (h : NoRB s) : NoRB (strip s) := by
  have := noRB_rstrip (noRB_lstrip h)
  exact this

theorem strip_length_le (s : Str) : (strip s).length ≤ s.length := by
  unfold strip stripSet
  obtain ⟨j, hj, _⟩ := rstripSet_prefix isPySpace (lstripSet isPySpace s)
  have h1 : (rstripSet isPySpace (lstripSet isPySpace s)).length ≤ (lstripSet isPySpace s).length := by
    have := congrArg List.length hj; simp at this; omega
  have h2 : (lstripSet isPySpace s).length ≤ s.length := by
    unfold lstripSet
    exact (List.dropWhile_sublist _).length_le
  omega

/-- the part of `_next_term` after the optional leading comma -/
def nextTermTail (t : Str) : PyM (Str × Str) :=
  let splitpos := match nextUnquotedChar t (fun ch => ch == ',' || ch == '}') with
    | some p => p
    | none => t.length
  let term := t.take splitpos
  if term.isEmpty && false then (.error .valueError : PyM (Str × Str))
  else .ok (strip term, strip (t.drop splitpos))

theorem nextTerm_no_comma (c : Char) (cs : Str) (hc : c ≠ ',') : nextTerm (c :: cs) false = nextTermTail (c :: cs) := by
  have : (c == ',') = false := by simpa using hc
  unfold nextTerm nextTermTail
  simp only [this, Bool.false_eq_true, ↓reduceIte]
  rfl

theorem nextTerm_comma_nil : nextTerm [','] false = .ok ([], []) := rfl
theorem nextTerm_comma_comma (ds : Str) : nextTerm (',' :: ',' :: ds) false = .error .valueError := rfl

theorem nextTerm_comma_cons (d : Char) (ds : Str) (hd : d ≠ ',') :
    nextTerm (',' :: d :: ds) false = nextTermTail (d :: ds) := by
  unfold nextTerm nextTermTail
  simp only [beq_self_eq_true, ↓reduceIte]
  split
  · rename_i e1
    split at e1
    · rename_i e'; simp at e'
    · rename_i e'; simp at e'; exact absurd e'.1 hd
    · simp at e1
  · rename_i e1
    split at e1
    · rename_i e'; simp at e'
    · simp at e1
    · simp at e1
  · rename_i t1 e1
    split at e1
    · rename_i e'; simp at e'
    · simp at e1
    · simp only [Except.ok.injEq, Option.some.injEq] at e1
      subst e1
      rfl

/-- what `_next_term` does to a non-empty text-mode label string without an unquoted '}': only ValueError can be raised,
and the remainder is strictly shorter and still has no unquoted '}' -/
theorem nextTerm_spec (sub : Str) (hne : sub ≠ []) (hI : NoRB sub) :
    Safe (nextTerm sub false) ∧
    ∀ term rest, nextTerm sub false = .ok (term, rest) →
      rest.length < sub.length ∧ NoRB rest ∧ (∀ a, term.head? = some a → isPySpace a = false) := by
  -- the common tail of `_next_term` on the text `t` that remains after an optional leading comma
  have tailSpec : ∀ t : Str, NoRB t → t.length ≤ sub.length → (t.length = sub.length → t.head? ≠ some ',') →
      ∀ term rest,
      nextTermTail t = .ok (term, rest) →
      rest.length < sub.length ∧ NoRB rest ∧ (∀ a, term.head? = some a → isPySpace a = false) := by
    intro t hIt hlen hhead term rest h
    unfold nextTermTail at h
    simp only [Bool.and_false, Bool.false_eq_true, ↓reduceIte, Except.ok.injEq, Prod.mk.injEq] at h
    obtain ⟨h1, h2⟩ := h
    refine ⟨?_, ?_, fun a ha => strip_head_not_space _ a (by rw [h1]; exact ha)⟩
    · rw [← h2]
      cases hs : nextUnquotedChar t (fun ch => ch == ',' || ch == '}') with
      | none =>
        simp only [List.drop_length, strip_nil, List.length_nil]
        exact List.length_pos_iff.mpr hne
      | some p =>
        simp only []
        have hle := strip_length_le (t.drop p)
        rw [List.length_drop] at hle
        rw [nextUnquotedChar_zero] at hs
        obtain ⟨a, c, b, e, hl, hn, hc⟩ := scan_some_split _ _ _ _ _ hs
        by_cases hp : p = 0
        · -- a hit at position 0: the first character is ',' or an unquoted '}'
          subst hp
          have ha : a = [] := List.length_eq_zero_iff.mp hl
          subst ha
          simp only [List.nil_append] at e
          simp only [run, Bool.and_eq_true, Bool.not_eq_true', Bool.or_eq_true, beq_iff_eq] at hc
          have hlt : t.length < sub.length := by
            rcases Nat.lt_or_ge t.length sub.length with h | h
            · exact h
            · exfalso
              have heq : t.length = sub.length := by omega
              rcases hc.2 with hc2 | hc2
              · exact hhead heq (by rw [e, hc2]; rfl)
              · subst hc2
                unfold NoRB at hIt
                rw [e] at hIt
                simp [noHit, rbChs, hc.1] at hIt
          omega
        · have : 0 < t.length := by rw [e]; simp; omega
          omega
    · rw [← h2]
      apply noRB_strip
      cases hs : nextUnquotedChar t (fun ch => ch == ',' || ch == '}') with
      | none => simp only [List.drop_length]; exact noRB_nil
      | some p =>
        simp only []
        rw [nextUnquotedChar_zero] at hs
        obtain ⟨a, c, b, e, hl, hn, hc⟩ := scan_some_split _ _ _ _ _ hs
        have hdrop : t.drop p = c :: b := by rw [e, ← hl]; exact List.drop_left
        rw [hdrop]
        simp only [Bool.and_eq_true, Bool.not_eq_true', Bool.or_eq_true, beq_iff_eq] at hc
        unfold NoRB at hIt ⊢
        rw [e, noHit_append] at hIt
        simp only [Bool.and_eq_true] at hIt
        have hcq : c ≠ '"' := by rcases hc.2 with h | h <;> (rw [h]; decide)
        have e1 : (c == '"') = false := by simpa using hcq
        have hq : (run a false false).1 = false := by
          have := hc.1; simpa [qStep, e1] using this
        have h2' := hIt.2
        rw [hq] at h2'
        simp only [noHit, qStep, e1, Bool.false_and, Bool.false_eq_true, ↓reduceIte, Bool.not_false, Bool.true_and,
          Bool.and_eq_true, Bool.not_eq_true'] at h2' ⊢
        have hcc : c = ',' := by
          rcases hc.2 with h | h
          · exact h
          · subst h; simp [rbChs] at h2'
        subst hcc
        have : bsStep (run a false false).2 ',' = false := rfl
        rw [this] at h2'
        exact ⟨by decide, h2'.2⟩
  cases sub with
  | nil => exact absurd rfl hne
  | cons c rest0 =>
    by_cases hc : (c == ',') = true
    · have hcc : c = ',' := by simpa using hc
      subst hcc
      have hI' : NoRB rest0 := noRB_plain_cons (by decide) (by decide) hI
      cases rest0 with
      | nil =>
        rw [nextTerm_comma_nil]
        exact ⟨safe_ok _, fun term rest h => by
          simp only [Except.ok.injEq, Prod.mk.injEq] at h; rw [← h.1, ← h.2]; exact ⟨by simp, noRB_nil, by simp⟩⟩
      | cons d ds =>
        by_cases hd : d = ','
        · subst hd
          rw [nextTerm_comma_comma]
          exact ⟨safe_valueError, fun term rest h => by simp at h⟩
        · rw [nextTerm_comma_cons d ds hd]
          refine ⟨fun e he => by simp [nextTermTail] at he, ?_⟩
          intro term rest h
          exact tailSpec (d :: ds) hI' (by simp) (fun h => by simp at h) term rest h
    · rw [nextTerm_no_comma c rest0 (by simpa using hc)]
      refine ⟨fun e he => by simp [nextTermTail] at he, ?_⟩
      intro term rest h
      exact tailSpec (c :: rest0) hI (Nat.le_refl _) (fun _ => by simpa using hc) term rest h

-- parse_labels -------------------------------------------------------------------------------------------------------

/-- the body of one iteration of the `while sub_labels:` loop after `_next_term` (text mode) -/
def oneLabelBody (legacy : Bool) (labels : List (Str × Str)) (term rest : Str) : PyM (List (Str × Str) × Str) :=
  if term.isEmpty then pure (labels, rest)
  else do
    let opPos := nextUnquotedChar term (· == '=')
    let (labelName, quotedName, term1) ← (match opPos with
      | none => (pure (("__name__".toList, true, term)) : PyM (Str × Bool × Str))
      | some vs => do
        let (ln, q) ← unquoteUnescape (term.take vs)
        pure (ln, q, term.drop (vs + 1)))
    if !quotedName && !isValidLegacyMetricName labelName then throw .valueError
    let term2 := strip term1
    match term2 with
    | '"' :: _ =>
      match findClosingQuote term2 (term2.length + 1) 1 with
      | none => throw .valueError
      | some i =>
        let quoteEnd := i + 1
        if quoteEnd != term2.length then throw .valueError
        let (labelValue, _) ← unquoteUnescape (term2.take quoteEnd)
        if labelName == "__name__".toList then validateMetricName legacy labelName
        else validateLabelname legacy labelName
        if labels.any (fun kv => kv.1 == labelName) then throw .valueError
        pure (labels ++ [(labelName, labelValue)], rest)
    | _ => throw .valueError

theorem parseOneLabel_eq (legacy : Bool) (sub : Str) (labels : List (Str × Str)) :
    parseOneLabel legacy false sub labels = nextTerm sub false >>= fun tr => oneLabelBody legacy labels tr.1 tr.2 := by
  unfold parseOneLabel oneLabelBody
  cases nextTerm sub false with
  | error e => rfl
  | ok tr => obtain ⟨term, rest⟩ := tr; simp only [bind, Except.bind, Bool.false_eq_true, ↓reduceIte]; rfl

theorem take_safe_of_head {term : Str} (hh : ∀ a, term.head? = some a → isPySpace a = false) (n : Nat) :
    term.take n = [] ∨ strip (term.take n) ≠ [] := by
  cases term with
  | nil => left; simp
  | cons a t =>
    cases n with
    | zero => left; rfl
    | succ k =>
      right
      have ha := hh a rfl
      simp only [List.take_succ_cons]
      rw [strip_of_head (a := a) rfl ha]
      intro e
      have := (rstripSet_eq_nil_iff isPySpace (a :: List.take k t)).mp e
      simp [ha] at this

theorem safe_validateMetricName (legacy : Bool) (n : Str) : Safe (validateMetricName legacy n) := by
  intro e he; unfold validateMetricName at he
  split at he
  · cases he; rfl
  · split at he
    · cases he; rfl
    · cases he

theorem safe_validateLabelname (legacy : Bool) (n : Str) : Safe (validateLabelname legacy n) := by
  intro e he; unfold validateLabelname at he
  split at he
  · split at he
    · cases he; rfl
    · split at he
      · cases he; rfl
      · cases he
  · split at he
    · cases he; rfl
    · cases he

theorem safe_ite {α : Type} {c : Prop} [Decidable c] {a b : PyM α} (ha : Safe a) (hb : Safe b) : Safe (if c then a else b) := by
  split <;> assumption

theorem safe_throw_bind {α β : Type} (f : α → PyM β) : Safe ((throw .valueError : PyM α) >>= f) := by
  intro e he; cases he; rfl

theorem oneLabelBody_safe (legacy : Bool) (labels : List (Str × Str)) (term rest : Str)
    (hh : ∀ a, term.head? = some a → isPySpace a = false) : Safe (oneLabelBody legacy labels term rest) := by
  unfold oneLabelBody
  apply safe_ite (safe_pure _)
  apply safe_bind
  · split
    · exact safe_pure _
    · apply safe_bind (unquoteUnescape_safe _ (take_safe_of_head hh _))
      intro a _; exact safe_pure _
  · intro x _
    obtain ⟨labelName, quotedName, term1⟩ := x
    simp only []
    refine safe_ite (safe_throw_bind _) ?_
    split
    · rename_i tl heq
      split
      · exact safe_throw
      · refine safe_ite (safe_throw_bind _) ?_
        apply safe_bind
        · apply unquoteUnescape_safe
          right
          rw [heq]
          simp only [List.take_succ_cons]
          rw [strip_of_head (a := '"') rfl (by decide)]
          intro e
          have := (rstripSet_eq_nil_iff isPySpace _).mp e
          simp at this
          exact absurd this.1 (by decide)
        · intro y _
          refine safe_ite ?_ ?_
          · apply safe_bind (safe_validateMetricName _ _)
            intro _ _
            exact safe_ite (safe_throw_bind _) (safe_pure _)
          · apply safe_bind (safe_validateLabelname _ _)
            intro _ _
            exact safe_ite (safe_throw_bind _) (safe_pure _)
    · exact safe_throw


/-- a successful result carries the given remainder -/
def RestIs (rest : Str) (r : PyM (List (Str × Str) × Str)) : Prop := ∀ l' r', r = .ok (l', r') → r' = rest

theorem restIs_pure (rest : Str) (l : List (Str × Str)) : RestIs rest (pure (l, rest)) := by
  intro l' r' h; cases h; rfl
theorem restIs_throw (rest : Str) : RestIs rest (throw .valueError) := by
  intro l' r' h; cases h
theorem restIs_bind {α : Type} (rest : Str) (m : PyM α) (f : α → PyM (List (Str × Str) × Str)) (hf : ∀ a, RestIs rest (f a)) :
    RestIs rest (m >>= f) := by
  intro l' r' h
  cases hm : m with
  | error e => rw [hm] at h; cases h
  | ok a => rw [hm] at h; exact hf a l' r' h
theorem restIs_ite {c : Prop} [Decidable c] {rest : Str} {a b : PyM (List (Str × Str) × Str)} (ha : RestIs rest a)
    (hb : RestIs rest b) : RestIs rest (if c then a else b) := by
  split <;> assumption

theorem oneLabelBody_rest (legacy : Bool) (labels : List (Str × Str)) (term rest : Str) :
    RestIs rest (oneLabelBody legacy labels term rest) := by
  unfold oneLabelBody
  apply restIs_ite (restIs_pure _ _)
  apply restIs_bind
  intro x
  obtain ⟨labelName, quotedName, term1⟩ := x
  simp only []
  refine restIs_ite (restIs_bind _ _ _ (fun _ => ?_)) ?_
  all_goals
    split
    · split
      · exact restIs_throw _
      · refine restIs_ite (restIs_bind _ _ _ (fun _ => ?_)) ?_
        all_goals
          apply restIs_bind
          intro y
          refine restIs_ite ?_ ?_
          all_goals
            apply restIs_bind
            intro _
            exact restIs_ite (restIs_bind _ _ _ (fun _ => restIs_pure _ _)) (restIs_pure _ _)
    · exact restIs_throw _

/-- one iteration of the label loop on a non-empty string without unquoted '}': only ValueError, and the remainder is
strictly shorter and still without unquoted '}' -/
theorem parseOneLabel_spec (legacy : Bool) (sub : Str) (hne : sub ≠ []) (hI : NoRB sub) (labels : List (Str × Str)) :
    Safe (parseOneLabel legacy false sub labels) ∧
    ∀ l' rest, parseOneLabel legacy false sub labels = .ok (l', rest) → rest.length < sub.length ∧ NoRB rest := by
  obtain ⟨hs, hr⟩ := nextTerm_spec sub hne hI
  rw [parseOneLabel_eq]
  refine ⟨safe_bind hs (fun tr htr => oneLabelBody_safe _ _ _ _ (hr tr.1 tr.2 htr).2.2), ?_⟩
  intro l' rest h
  cases hnt : nextTerm sub false with
  | error e => rw [hnt] at h; cases h
  | ok tr =>
    rw [hnt] at h
    have h' : oneLabelBody legacy labels tr.1 tr.2 = .ok (l', rest) := h
    have := oneLabelBody_rest legacy labels tr.1 tr.2 l' rest h'
    subst this
    have := hr tr.1 tr.2 hnt
    exact ⟨this.1, this.2.1⟩

/-- **the label loop terminates**: with fuel above the length of a string without unquoted '}', `timeout` is unreachable
and only ValueError can be raised -/
theorem parseLabelsLoop_safe (legacy : Bool) : ∀ (fuel : Nat) (sub : Str) (labels : List (Str × Str)),
    sub.length < fuel → NoRB sub → Safe (parseLabelsLoop legacy false fuel sub labels) := by
  intro fuel
  induction fuel with
  | zero => intro sub labels h; omega
  | succ f ih =>
    intro sub labels hf hI
    rw [parseLabelsLoop]
    by_cases he : sub.isEmpty = true
    · simp only [he, ↓reduceIte]; exact safe_ok _
    · simp only [he, Bool.false_eq_true, ↓reduceIte]
      have hne : sub ≠ [] := by intro e; subst e; simp at he
      obtain ⟨hs, hr⟩ := parseOneLabel_spec legacy sub hne hI labels
      apply safe_bind hs
      intro x hx
      obtain ⟨l', rest⟩ := x
      have := hr l' rest hx
      exact ih rest l' (by omega) this.2

theorem parseLabels_safe (legacy : Bool) (s : Str) (hI : NoRB s) : Safe (parseLabels legacy s false) := by
  unfold parseLabels
  simp only [Bool.false_and, Bool.false_eq_true, ↓reduceIte]
  exact parseLabelsLoop_safe legacy _ _ _ (by omega) (noRB_strip hI)

-- values and timestamps ------------------------------------------------------------------------------------------------

theorem safe_parseValue (pyInt : Str → Option Int) (pyFloat : Str → Option Nat) (v : Str) : Safe (parseValue pyInt pyFloat v) := by
  intro e he; unfold parseValue at he
  split at he
  · cases he; rfl
  · split at he
    · cases he
    · split at he
      · cases he
      · cases he; rfl

theorem parseValue_int (pyInt : Str → Option Int) (pyFloat : Str → Option Nat) (v : Str) (n : Int)
    (h : parseValue pyInt pyFloat v = .ok (.int n)) : pyInt v = some n := by
  unfold parseValue at h
  split at h
  · cases h
  · split at h
    · next m hm => cases h; exact hm
    · split at h <;> cases h

/-- `x / 1000` raises only ValueError: the OverflowError of a huge int is caught and re-raised (this is where the
re-extracted flag `tsOverflowToValueError` is used; without the handler the proof does not go through) -/
theorem safe_divThousand (t : Num) : Safe (divThousand t) := by
  intro e he
  cases t with
  | flt b => cases he
  | int n =>
    by_cases ho : intDivOverflows n = true
    · have hflag : PromVerif.Generated.TextParse.tsOverflowToValueError = true := rfl
      have : divThousand (.int n) = .error .valueError := by simp only [divThousand, ho, hflag, ↓reduceIte]
      rw [this] at he; cases he; rfl
    · have : divThousand (.int n) = .ok ⟨.int n⟩ := by simp only [divThousand, ho, Bool.false_eq_true, ↓reduceIte]
      rw [this] at he; cases he

theorem safe_pvt (pyInt : Str → Option Int) (pyFloat : Str → Option Nat) (s : Str) :
    Safe (parseValueAndTimestamp pyInt pyFloat s) := by
  unfold parseValueAndTimestamp
  simp only []
  split
  · split
    · exact (safe_ok _)
    · exact safe_valueError
  · apply safe_bind (safe_parseValue _ _ _)
    intro value _
    split
    · exact (safe_pure _)
    · next vl _ =>
      apply safe_bind (safe_parseValue _ _ _)
      intro t ht
      apply safe_bind (safe_divThousand t)
      intro _ _
      exact (safe_pure _)


-- _parse_sample -----------------------------------------------------------------------------------------------------------

/-- after the first unquoted '{' the scanner is in the unquoted state with even parity -/
theorem run_after_lbrace (t : Str) (i : Nat) (h : nextUnquotedChar t (· == '{') = some i) :
    run (t.take (i + 1)) false false = (false, false) := by
  rw [nextUnquotedChar_zero] at h
  obtain ⟨a, c, b, e, hl, _, hc⟩ := scan_some_split _ _ _ _ _ h
  simp only [Bool.and_eq_true, Bool.not_eq_true', beq_iff_eq] at hc
  obtain ⟨hq, hcc⟩ := hc
  subst hcc
  have : t.take (i + 1) = a ++ ['{'] := by
    rw [e, ← hl, show a ++ '{' :: b = (a ++ ['{']) ++ b by simp, show a.length + 1 = (a ++ ['{']).length by simp]
    exact List.take_left
  rw [this, run_append]
  have hq' : (run a false false).1 = false := by simpa [qStep] using hq
  simp [run, qStep, bsStep, hq']

theorem noRB_take_of_scan (t : Str) (le : Option Nat) (h : nextUnquotedChar t (· == '}') = le) : NoRB (sliceTo t le) := by
  rw [nextUnquotedChar_zero] at h
  cases le with
  | none =>
    have hn : NoRB t := scan_none_noHit rbChs t false false h
    unfold sliceTo
    cases hl : t.getLast? with
    | none => have : t = [] := List.getLast?_eq_none_iff.mp hl; subst this; exact noRB_nil
    | some b =>
      obtain ⟨ys, hys⟩ := List.getLast?_eq_some_iff.mp hl
      rw [hys] at hn ⊢
      simp only [List.dropLast_concat]
      exact noRB_prefix hn
  | some p =>
    obtain ⟨a, c, b, e, hl, hn, _⟩ := scan_some_split rbChs _ _ _ _ h
    subst hl
    rw [e]
    show NoRB (List.take a.length (a ++ c :: b))
    rw [List.take_left]
    exact hn

theorem sliceTo_eq_take (t : Str) (le : Option Nat) : ∃ m, sliceTo t le = t.take m := by
  cases le with
  | none => exact ⟨t.length - 1, List.dropLast_eq_take⟩
  | some p => exact ⟨p, rfl⟩

theorem noRB_drop {x : Str} (k : Nat) (hx : NoRB x) (hr : run (x.take k) false false = (false, false)) : NoRB (x.drop k) := by
  unfold NoRB at hx ⊢
  rw [← List.take_append_drop k x, noHit_append, hr] at hx
  simp only [Bool.and_eq_true] at hx
  exact hx.2

/-- the label block handed to `parse_labels` never contains an unquoted '}' -/
theorem noRB_label_block (text : Str) (ls : Nat) (h1 : nextUnquotedChar text (· == '{') = some ls) :
    NoRB ((sliceTo text (nextUnquotedChar text (· == '}'))).drop (ls + 1)) := by
  have hX := noRB_take_of_scan text _ rfl
  obtain ⟨m, hm⟩ := sliceTo_eq_take text (nextUnquotedChar text (· == '}'))
  rw [hm] at hX ⊢
  by_cases hle : ls + 1 ≤ m
  · apply noRB_drop _ hX
    rw [List.take_take, Nat.min_eq_left hle]
    exact run_after_lbrace text ls h1
  · have : (text.take m).drop (ls + 1) = [] := by
      apply List.drop_eq_nil_of_le
      rw [List.length_take]; omega
    rw [this]; exact noRB_nil

theorem safe_parseSample (legacy : Bool) (pyInt : Str → Option Int) (pyFloat : Str → Option Nat) (text : Str) :
    Safe (parseSample legacy pyInt pyFloat text) := by
  have hbare : Safe
      (if !isValidLegacyMetricName (strip (sliceTo text (nextUnquotedChar text (fun c => c == ' ' || c == '\t')))) then
        (.error .valueError : PyM PSample)
       else do
        let (value, ts) ← parseValueAndTimestamp pyInt pyFloat (sliceAfter text (nextUnquotedChar text (fun c => c == ' ' || c == '\t')))
        pure ⟨strip (sliceTo text (nextUnquotedChar text (fun c => c == ' ' || c == '\t'))), [], value, ts⟩) := by
    split
    · exact safe_valueError
    · apply safe_bind (safe_pvt _ _ _)
      intro _ _; exact (safe_pure _)
  unfold parseSample
  cases hls : nextUnquotedChar text (· == '{') with
  | none => simp only [↓reduceIte]; exact hbare
  | some ls =>
    simp only [Option.getD_some]
    by_cases hinf : isInfix sepHash (text.take ls) = true
    · simp only [hinf, ↓reduceIte]; exact hbare
    · simp only [hinf, Bool.false_eq_true, ↓reduceIte]
      apply safe_bind (parseLabels_safe legacy _ (noRB_label_block text ls hls))
      intro labels _
      apply safe_bind
      · split
        · split
          · exact safe_throw
          · exact (safe_pure _)
        · split
          · exact safe_throw
          · exact (safe_pure _)
      · intro _ _
        apply safe_bind (safe_pvt _ _ _)
        intro _ _; exact (safe_pure _)


-- the family state machine ---------------------------------------------------------------------------------------------

theorem safe_buildMetric (legacy : Bool) (name doc typ : Str) (samples : List PSample) :
    Safe (buildMetric legacy name doc typ samples) := by
  unfold buildMetric
  simp only []
  apply safe_bind (safe_validateMetricName _ _)
  intro _ _
  exact safe_ite (safe_throw_bind _) (safe_pure _)

theorem safe_flush (legacy : Bool) (st : St) : Safe (flush legacy st) := by
  unfold flush
  apply safe_ite (safe_pure _)
  apply safe_bind (safe_buildMetric _ _ _ _ _)
  intro _ _; exact safe_pure _

theorem safe_stepLine (legacy : Bool) (pyInt : Str → Option Int) (pyFloat : Str → Option Nat) (st : St) (rawLine : Str) :
    Safe (stepLine legacy pyInt pyFloat st rawLine) := by
  unfold stepLine
  simp only []
  by_cases hh : ((strip rawLine).head? == some '#') = true
  · simp only [hh, ↓reduceIte]
    split
    · exact safe_pure _
    · apply safe_bind
      · cases hp : (splitQuoted (strip rawLine) isAsciiSpace 3)[2]? with
        | none => exact safe_pure _
        | some p2 =>
          simp only []
          apply safe_bind (unquoteUnescape_safe_all p2)
          intro x _
          obtain ⟨c, quoted⟩ := x
          simp only []
          exact safe_ite (safe_throw_bind _) (safe_pure _)
      · intro x _
        obtain ⟨candidate, _⟩ := x
        simp only []
        split
        · apply safe_bind
          · split
            · apply safe_bind (safe_flush _ _); intro _ _; exact safe_pure _
            · exact safe_pure _
          · intro _ _; exact safe_pure _
        · split
          · split
            · exact safe_throw
            · apply safe_bind
              · split
                · apply safe_bind (safe_flush _ _); intro _ _; exact safe_pure _
                · exact safe_pure _
              · intro _ _; exact safe_pure _
          · exact safe_pure _
  · simp only [hh, Bool.false_eq_true, ↓reduceIte]
    split
    · exact safe_pure _
    · apply safe_bind (safe_parseSample _ _ _ _)
      intro sample _
      split
      · apply safe_bind (safe_flush _ _)
        intro _ _
        apply safe_bind (safe_buildMetric _ _ _ _ _)
        intro _ _; exact safe_pure _
      · exact safe_pure _

theorem safe_runLines (legacy : Bool) (pyInt : Str → Option Int) (pyFloat : Str → Option Nat) :
    ∀ (ls : List Str) (st : St) (acc : List PFamily), Safe (runLines legacy pyInt pyFloat ls st acc) := by
  intro ls
  induction ls with
  | nil => intro st acc; exact safe_pure _
  | cons l ls ih =>
    intro st acc
    rw [runLines]
    apply safe_bind (safe_stepLine _ _ _ _ _)
    intro x _
    exact ih _ _

/-- **`list(text_string_to_metric_families(text))` ends in families or ValueError** — every input, every `int()`/`float()` -/
theorem safe_textParse (legacy : Bool) (pyInt : Str → Option Int) (pyFloat : Str → Option Nat) (text : Str) :
    Safe (textParse legacy pyInt pyFloat text) := by
  unfold textParse
  apply safe_bind (safe_runLines _ _ _ _ _ _)
  intro x _
  obtain ⟨st, acc⟩ := x
  apply safe_bind (safe_flush _ _)
  intro _ _; exact safe_pure _

end PromVerif.Lemmas.TextTotal
