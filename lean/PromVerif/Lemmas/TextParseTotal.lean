/-
Totality of the text parser model (C14, text part): which exception classes can escape from each function, and that the
fuel of the label loop always suffices.
-/
import PromVerif.Lemmas.TextParseSample
import PromVerif.Model.TextParse

namespace PromVerif.Lemmas.TextTotal
open PromVerif.Py PromVerif.Model.ParseCore PromVerif.Model.Validation PromVerif.Model.TextParse
open PromVerif.Lemmas.Scanner PromVerif.Lemmas.TextParse

/-- the only errors `r` can end in: ValueError, IndexError (then `P` holds), OverflowError (then `Q` holds) -/
def Err3 {α : Type} (P Q : Prop) (r : PyM α) : Prop :=
  ∀ e, r = .error e → e = .valueError ∨ (e = .indexError ∧ P) ∨ (e = .overflowError ∧ Q)

/-- only ValueError -/
def Safe {α : Type} (r : PyM α) : Prop := ∀ e, r = .error e → e = .valueError

theorem Safe.err3 {α : Type} {P Q : Prop} {r : PyM α} (h : Safe r) : Err3 P Q r := fun e he => Or.inl (h e he)

theorem safe_ok {α : Type} (a : α) : Safe (.ok a : PyM α) := fun e he => by cases he
theorem safe_pure {α : Type} (a : α) : Safe (pure a : PyM α) := fun e he => by cases he
theorem safe_valueError {α : Type} : Safe (.error .valueError : PyM α) := fun e he => by cases he; rfl
theorem safe_throw {α : Type} : Safe (throw .valueError : PyM α) := fun e he => by cases he; rfl

theorem err3_bind {α β : Type} {P Q : Prop} {m : PyM α} {f : α → PyM β} (hm : Err3 P Q m)
    (hf : ∀ a, m = .ok a → Err3 P Q (f a)) : Err3 P Q (m >>= f) := by
  intro e he
  cases hm' : m with
  | error e' =>
    rw [hm'] at he
    have : e' = e := by simpa [bind, Except.bind] using he
    subst this
    exact hm _ hm'
  | ok a =>
    rw [hm'] at he
    exact hf a hm' e (by simpa [bind, Except.bind] using he)

theorem safe_bind {α β : Type} {m : PyM α} {f : α → PyM β} (hm : Safe m) (hf : ∀ a, m = .ok a → Safe (f a)) :
    Safe (m >>= f) := by
  intro e he
  cases hm' : m with
  | error e' =>
    rw [hm'] at he
    have : e' = e := by simpa [bind, Except.bind] using he
    subst this
    exact hm _ hm'
  | ok a =>
    rw [hm'] at he
    exact hf a hm' e (by simpa [bind, Except.bind] using he)

-- strip ---------------------------------------------------------------------------------------------------------------

theorem lstrip_head_not_space (s : Str) (a : Char) (h : (lstrip s).head? = some a) : isPySpace a = false := by
  unfold lstrip lstripSet at h
  have := List.head?_dropWhile_not isPySpace s
  rw [h] at this
  simpa using this

theorem rstripSet_head (p : Char → Bool) (s : Str) : (rstripSet p s).head? = some a → s.head? = some a := by
  intro h
  obtain ⟨j, hj, _⟩ := rstripSet_prefix p s
  cases hr : rstripSet p s with
  | nil => rw [hr] at h; simp at h
  | cons x xs => rw [hr] at h hj; rw [hj]; simpa using h

theorem strip_head_not_space (s : Str) (a : Char) (h : (strip s).head? = some a) : isPySpace a = false := by
  unfold strip stripSet at h
  exact lstrip_head_not_space s a (rstripSet_head _ _ h)

/-- a non-empty prefix of a stripped string does not strip to nothing -/
theorem strip_take_ne_nil (s : Str) (n : Nat) (h : (strip s).take n ≠ []) : strip ((strip s).take n) ≠ [] := by
  cases hs : strip s with
  | nil => rw [hs] at h; simp at h
  | cons a t =>
    have ha := strip_head_not_space s a (by rw [hs]; rfl)
    cases n with
    | zero => rw [hs] at h; simp at h
    | succ k =>
      simp only [List.take_succ_cons]
      rw [strip_of_head (a := a) rfl ha]
      intro e
      have := (rstripSet_eq_nil_iff isPySpace (a :: List.take k t)).mp e
      simp [ha] at this

-- _unquote_unescape -------------------------------------------------------------------------------------------------------

/-- `_unquote_unescape` raises IndexError exactly on a non-empty argument that strips to nothing (F8) -/
theorem unquoteUnescape_err (t : Str) : Err3 (t ≠ [] ∧ strip t = []) False (unquoteUnescape t) := by
  intro e he
  unfold unquoteUnescape at he
  by_cases h0 : t.isEmpty = true
  · simp [h0] at he
  · simp only [h0, Bool.false_eq_true, ↓reduceIte] at he
    split at he
    · next hs =>
      cases he
      exact Or.inr (Or.inl ⟨rfl, by intro e; simp [e] at h0, hs⟩)
    · split at he
      · cases he; exact Or.inl rfl
      · cases he
    · cases he

theorem unquoteUnescape_safe (t : Str) (h : t = [] ∨ strip t ≠ []) : Safe (unquoteUnescape t) := by
  intro e he
  rcases unquoteUnescape_err t e he with h1 | ⟨_, h2, h3⟩ | ⟨_, h2⟩
  · exact h1
  · rcases h with h | h
    · exact absurd h h2
    · exact absurd h3 h
  · exact absurd h2 id

-- the scanner: decomposition of a hit ----------------------------------------------------------------------------------

theorem scan_none_noHit (chs : Char → Bool) : ∀ (t : Str) (q o : Bool), scan chs t q o = none → noHit chs t q o = true := by
  intro t
  induction t with
  | nil => intro q o _; rfl
  | cons c cs ih =>
    intro q o h
    rw [scan_cons] at h
    by_cases hh : (!(qStep q o c) && chs c) = true
    · simp [hh] at h
    · simp only [hh, Bool.false_eq_true, ↓reduceIte, Option.map_eq_none_iff] at h
      simp only [noHit, ih _ _ h, Bool.and_true]
      cases hq : qStep q o c <;> simp_all

theorem scan_some_split (chs : Char → Bool) : ∀ (t : Str) (q o : Bool) (p : Nat), scan chs t q o = some p →
    ∃ a c b, t = a ++ c :: b ∧ a.length = p ∧ noHit chs a q o = true ∧
      (!(qStep (run a q o).1 (run a q o).2 c) && chs c) = true := by
  intro t
  induction t with
  | nil => intro q o p h; simp [scan_nil] at h
  | cons c cs ih =>
    intro q o p h
    rw [scan_cons] at h
    by_cases hh : (!(qStep q o c) && chs c) = true
    · simp only [hh, ↓reduceIte, Option.some.injEq] at h
      exact ⟨[], c, cs, rfl, by simpa using h, rfl, by simpa [run] using hh⟩
    · simp only [hh, Bool.false_eq_true, ↓reduceIte, Option.map_eq_some_iff] at h
      obtain ⟨p', hp', hpe⟩ := h
      obtain ⟨a, c', b, e, hl, hn, hc⟩ := ih _ _ _ hp'
      refine ⟨c :: a, c', b, by rw [e]; rfl, by simp [hl, hpe], ?_, by simpa [run] using hc⟩
      simp only [noHit, hn, Bool.and_true]
      cases hq : qStep q o c <;> simp_all

/-- the label-block invariant: no unquoted '}' -/
def NoRB (s : Str) : Prop := noHit rbChs s false false = true

theorem noRB_nil : NoRB [] := rfl

theorem noRB_prefix {a b : Str} (h : NoRB (a ++ b)) : NoRB a := by
  unfold NoRB at h ⊢
  rw [noHit_append] at h
  simp only [Bool.and_eq_true] at h
  exact h.1

theorem noRB_plain_cons {c : Char} {s : Str} (h1 : c ≠ '"') (h2 : c ≠ '\\') (h : NoRB (c :: s)) : NoRB s := by
  unfold NoRB at h ⊢
  have e1 : (c == '"') = false := by simpa using h1
  have e2 : (c == '\\') = false := by simpa using h2
  have := h
  simp only [noHit, qStep, bsStep, e1, e2, Bool.false_and, Bool.false_eq_true, ↓reduceIte, Bool.not_false, Bool.true_and,
    Bool.and_eq_true] at this
  exact this.2

theorem space_not_quote {c : Char} (h : isPySpace c = true) : c ≠ '"' ∧ c ≠ '\\' := by
  constructor <;> (intro e; subst e; revert h; decide)

theorem noRB_lstrip {s : Str} (h : NoRB s) : NoRB (lstrip s) := by
  induction s with
  | nil => exact h
  | cons c cs ih =>
    unfold lstrip lstripSet
    rw [List.dropWhile_cons]
    by_cases hc : isPySpace c = true
    · simp only [hc, ↓reduceIte]
      have := space_not_quote hc
      exact ih (noRB_plain_cons this.1 this.2 h)
    · simp only [hc, Bool.false_eq_true, ↓reduceIte]; exact h

theorem noRB_rstrip {s : Str} (h : NoRB s) : NoRB (rstrip s) := by
  obtain ⟨j, hj, _⟩ := rstripSet_prefix isPySpace s
  rw [hj] at h
  exact noRB_prefix h

theorem noRB_strip {s : Str} (h : NoRB s) : NoRB (strip s) := by
  have := noRB_rstrip (noRB_lstrip h)
  exact this

theorem strip_length_le (s : Str) : (strip s).length ≤ s.length := by
  unfold strip stripSet
  obtain ⟨j, hj, _⟩ := rstripSet_prefix isPySpace (lstripSet isPySpace s)
  have h1 : (rstripSet isPySpace (lstripSet isPySpace s)).length ≤ (lstripSet isPySpace s).length := by
    have := congrArg List.length hj; simp at this; omega
  have h2 : (lstripSet isPySpace s).length ≤ s.length := by
    unfold lstripSet
    exact (List.dropWhile_sublist _).length_le
  omega

/-- the part of `_next_term` after the optional leading comma -/
def nextTermTail (t : Str) : PyM (Str × Str) :=
  let splitpos := match nextUnquotedChar t (fun ch => ch == ',' || ch == '}') with
    | some p => p
    | none => t.length
  let term := t.take splitpos
  if term.isEmpty && false then (.error .valueError : PyM (Str × Str))
  else .ok (strip term, strip (t.drop splitpos))

theorem nextTerm_no_comma (c : Char) (cs : Str) (hc : c ≠ ',') : nextTerm (c :: cs) false = nextTermTail (c :: cs) := by
  have : (c == ',') = false := by simpa using hc
  unfold nextTerm nextTermTail
  simp only [this, Bool.false_eq_true, ↓reduceIte]
  rfl

theorem nextTerm_comma_nil : nextTerm [','] false = .ok ([], []) := rfl
theorem nextTerm_comma_comma (ds : Str) : nextTerm (',' :: ',' :: ds) false = .error .valueError := rfl

theorem nextTerm_comma_cons (d : Char) (ds : Str) (hd : d ≠ ',') :
    nextTerm (',' :: d :: ds) false = nextTermTail (d :: ds) := by
  unfold nextTerm nextTermTail
  simp only [beq_self_eq_true, ↓reduceIte]
  split
  · rename_i e1
    split at e1
    · rename_i e'; simp at e'
    · rename_i e'; simp at e'; exact absurd e'.1 hd
    · simp at e1
  · rename_i e1
    split at e1
    · rename_i e'; simp at e'
    · simp at e1
    · simp at e1
  · rename_i t1 e1
    split at e1
    · rename_i e'; simp at e'
    · simp at e1
    · simp only [Except.ok.injEq, Option.some.injEq] at e1
      subst e1
      rfl

/-- what `_next_term` does to a non-empty text-mode label string without an unquoted '}': only ValueError can be raised,
and the remainder is strictly shorter and still has no unquoted '}' -/
theorem nextTerm_spec (sub : Str) (hne : sub ≠ []) (hI : NoRB sub) :
    Safe (nextTerm sub false) ∧
    ∀ term rest, nextTerm sub false = .ok (term, rest) →
      rest.length < sub.length ∧ NoRB rest ∧ (∀ a, term.head? = some a → isPySpace a = false) := by
  -- the common tail of `_next_term` on the text `t` that remains after an optional leading comma
  have tailSpec : ∀ t : Str, NoRB t → t.length ≤ sub.length → (t.length = sub.length → t.head? ≠ some ',') →
      ∀ term rest,
      nextTermTail t = .ok (term, rest) →
      rest.length < sub.length ∧ NoRB rest ∧ (∀ a, term.head? = some a → isPySpace a = false) := by
    intro t hIt hlen hhead term rest h
    unfold nextTermTail at h
    simp only [Bool.and_false, Bool.false_eq_true, ↓reduceIte, Except.ok.injEq, Prod.mk.injEq] at h
    obtain ⟨h1, h2⟩ := h
    refine ⟨?_, ?_, fun a ha => strip_head_not_space _ a (by rw [h1]; exact ha)⟩
    · rw [← h2]
      cases hs : nextUnquotedChar t (fun ch => ch == ',' || ch == '}') with
      | none =>
        simp only [List.drop_length, strip_nil, List.length_nil]
        exact List.length_pos_iff.mpr hne
      | some p =>
        simp only []
        have hle := strip_length_le (t.drop p)
        rw [List.length_drop] at hle
        rw [nextUnquotedChar_zero] at hs
        obtain ⟨a, c, b, e, hl, hn, hc⟩ := scan_some_split _ _ _ _ _ hs
        by_cases hp : p = 0
        · -- a hit at position 0: the first character is ',' or an unquoted '}'
          subst hp
          have ha : a = [] := List.length_eq_zero_iff.mp hl
          subst ha
          simp only [List.nil_append] at e
          simp only [run, Bool.and_eq_true, Bool.not_eq_true', Bool.or_eq_true, beq_iff_eq] at hc
          have hlt : t.length < sub.length := by
            rcases Nat.lt_or_ge t.length sub.length with h | h
            · exact h
            · exfalso
              have heq : t.length = sub.length := by omega
              rcases hc.2 with hc2 | hc2
              · exact hhead heq (by rw [e, hc2]; rfl)
              · subst hc2
                unfold NoRB at hIt
                rw [e] at hIt
                simp [noHit, rbChs, hc.1] at hIt
          omega
        · have : 0 < t.length := by rw [e]; simp; omega
          omega
    · rw [← h2]
      apply noRB_strip
      cases hs : nextUnquotedChar t (fun ch => ch == ',' || ch == '}') with
      | none => simp only [List.drop_length]; exact noRB_nil
      | some p =>
        simp only []
        rw [nextUnquotedChar_zero] at hs
        obtain ⟨a, c, b, e, hl, hn, hc⟩ := scan_some_split _ _ _ _ _ hs
        have hdrop : t.drop p = c :: b := by rw [e, ← hl]; exact List.drop_left
        rw [hdrop]
        simp only [Bool.and_eq_true, Bool.not_eq_true', Bool.or_eq_true, beq_iff_eq] at hc
        unfold NoRB at hIt ⊢
        rw [e, noHit_append] at hIt
        simp only [Bool.and_eq_true] at hIt
        have hcq : c ≠ '"' := by rcases hc.2 with h | h <;> (rw [h]; decide)
        have e1 : (c == '"') = false := by simpa using hcq
        have hq : (run a false false).1 = false := by
          have := hc.1; simpa [qStep, e1] using this
        have h2' := hIt.2
        rw [hq] at h2'
        simp only [noHit, qStep, e1, Bool.false_and, Bool.false_eq_true, ↓reduceIte, Bool.not_false, Bool.true_and,
          Bool.and_eq_true, Bool.not_eq_true'] at h2' ⊢
        have hcc : c = ',' := by
          rcases hc.2 with h | h
          · exact h
          · subst h; simp [rbChs] at h2'
        subst hcc
        have : bsStep (run a false false).2 ',' = false := rfl
        rw [this] at h2'
        exact ⟨by decide, h2'.2⟩
  cases sub with
  | nil => exact absurd rfl hne
  | cons c rest0 =>
    by_cases hc : (c == ',') = true
    · have hcc : c = ',' := by simpa using hc
      subst hcc
      have hI' : NoRB rest0 := noRB_plain_cons (by decide) (by decide) hI
      cases rest0 with
      | nil =>
        rw [nextTerm_comma_nil]
        exact ⟨safe_ok _, fun term rest h => by
          simp only [Except.ok.injEq, Prod.mk.injEq] at h; rw [← h.1, ← h.2]; exact ⟨by simp, noRB_nil, by simp⟩⟩
      | cons d ds =>
        by_cases hd : d = ','
        · subst hd
          rw [nextTerm_comma_comma]
          exact ⟨safe_valueError, fun term rest h => by simp at h⟩
        · rw [nextTerm_comma_cons d ds hd]
          refine ⟨fun e he => by simp [nextTermTail] at he, ?_⟩
          intro term rest h
          exact tailSpec (d :: ds) hI' (by simp) (fun h => by simp at h) term rest h
    · rw [nextTerm_no_comma c rest0 (by simpa using hc)]
      refine ⟨fun e he => by simp [nextTermTail] at he, ?_⟩
      intro term rest h
      exact tailSpec (c :: rest0) hI (Nat.le_refl _) (fun _ => by simpa using hc) term rest h

end PromVerif.Lemmas.TextTotal
