/-
Path level of C19: split ∘ join, the escaped pair is read back by the Pushgateway decoder, the URL is
base ++ "/metrics/" ++ path, and the gateway-spelling facts.
-/
import PromVerif.Model.Gateway
import PromVerif.Spec.Gateway
import PromVerif.Lemmas.Base64
import PromVerif.Lemmas.Quote
import PromVerif.Lemmas.GatewaySort

namespace PromVerif.Lemmas.Gateway
open PromVerif.Py PromVerif.Model.Gateway PromVerif.Spec.Gateway
open PromVerif.Lemmas.Base64 PromVerif.Lemmas.Quote PromVerif.Lemmas.GatewaySort
open PromVerif.Generated.Gateway (jobLit urlFmt pairFmt slashLit emptyMarker sortsGroupingKey httpPrefix rstripChars
  allowedSchemes spaceAsPlus)

/-! ### split ∘ join -/

theorem splitSlash_of_not_mem (x : Str) (h : '/' ∉ x) : splitSlash x = [x] := by
  induction x with
  | nil => rfl
  | cons c cs ih =>
    have hc : c ≠ '/' := fun e => h (by simp [e])
    have := ih (fun m => h (List.mem_cons_of_mem _ m))
    simp [splitSlash, hc, this]

theorem splitSlash_append (x rest : Str) (h : '/' ∉ x) : splitSlash (x ++ '/' :: rest) = x :: splitSlash rest := by
  induction x with
  | nil => simp [splitSlash]
  | cons c cs ih =>
    have hc : c ≠ '/' := fun e => h (by simp [e])
    have := ih (fun m => h (List.mem_cons_of_mem _ m))
    simp [splitSlash, hc, this]

theorem splitSlash_join : ∀ (segs : List Str), segs ≠ [] → (∀ s ∈ segs, '/' ∉ s) →
    splitSlash (joinStr ['/'] segs) = segs
  | [], h, _ => absurd rfl h
  | [x], _, h => by
    simpa [joinStr] using splitSlash_of_not_mem x (h x (by simp))
  | x :: y :: rest, _, h => by
    have ih := splitSlash_join (y :: rest) (by simp) (fun s hs => h s (List.mem_cons_of_mem _ hs))
    show splitSlash (x ++ ['/'] ++ joinStr ['/'] (y :: rest)) = _
    rw [List.append_assoc, List.singleton_append, splitSlash_append x _ (h x (by simp)), ih]

/-! ### names -/

theorem labelChar_facts {c : Char} (h : isLabelChar c = true) : c ≠ '/' ∧ c ≠ '@' := by
  refine ⟨?_, ?_⟩ <;> (intro e; subst e; revert h; decide)

theorem legacy_name_facts {k : Str} (h : isLegacyLabelName k = true) : '/' ∉ k ∧ '@' ∉ k ∧ k ≠ [] := by
  cases k with
  | nil => simp [isLegacyLabelName] at h
  | cons c cs =>
    simp only [isLegacyLabelName, Bool.and_eq_true, List.all_eq_true] at h
    have hc : isLabelChar c = true := by simp [isLabelChar, h.1]
    have hall : ∀ x ∈ c :: cs, isLabelChar x = true := by
      intro x hx
      rcases List.mem_cons.mp hx with rfl | hx
      · exact hc
      · exact h.2 x hx
    exact ⟨fun m => (labelChar_facts (hall _ m)).1 rfl, fun m => (labelChar_facts (hall _ m)).2 rfl, by simp⟩

theorem stripSuffix_append (suf k : Str) : stripSuffix? suf (k ++ suf) = some k := by
  unfold stripSuffix? endsWith
  simp

theorem stripSuffix_none (k : Str) (h : '@' ∉ k) : stripSuffix? Spec.Gateway.base64Suffix k = none := by
  unfold stripSuffix? endsWith
  split
  · next hp =>
    rw [List.isPrefixOf_iff_prefix, List.reverse_prefix] at hp
    obtain ⟨t, ht⟩ := hp
    exact absurd (by rw [← ht]; simp [Spec.Gateway.base64Suffix]) h
  · rfl

theorem isInfix_singleton (c : Char) (v : Str) : isInfix [c] v = v.contains c := by
  induction v with
  | nil => rfl
  | cons x xs ih =>
    simp only [isInfix, ih, List.contains_cons]
    by_cases h : c = x
    · subst h; simp [List.isPrefixOf]
    · have h'' : (c == x) = false := by simp [h]
      simp [List.isPrefixOf, h'']

/-! ### one escaped pair -/

/-- the three cases of `_escape_grouping_key` (either encoder) -/
theorem escape_cases (q : Bool) (k v : Str) :
    (v = [] ∧ escapeGroupingKeyWith q k v = (k ++ Spec.Gateway.base64Suffix, ['='])) ∨
    (v ≠ [] ∧ '/' ∈ v ∧ escapeGroupingKeyWith q k v = (k ++ Spec.Gateway.base64Suffix, b64encode (utf8 v))) ∨
    (v ≠ [] ∧ '/' ∉ v ∧ escapeGroupingKeyWith q k v = (k, quoteWith q v)) := by
  unfold escapeGroupingKeyWith
  have hs : slashLit = ['/'] := by decide
  have hb : Generated.Gateway.base64Suffix = Spec.Gateway.base64Suffix := by decide
  have he : emptyMarker = ['='] := by decide
  rw [hs, hb, he, isInfix_singleton]
  by_cases hv : v = []
  · left; simp [hv]
  · right
    by_cases hc : '/' ∈ v
    · left; exact ⟨hv, hc, by simp [hv, hc]⟩
    · right; exact ⟨hv, hc, by simp [hv, hc]⟩

theorem b64decode_b64encode (bs : Bytes) : b64decode (b64encode bs) = some bs := by
  unfold b64decode
  rw [rstrip_b64encode, b64rawDecode_b64raw]

theorem b64encode_chars (bs : Bytes) : ∀ c ∈ b64encode bs, c ≠ '/' ∧ c ≠ '+' ∧ c ≠ '%' := by
  intro c hc
  rw [b64encode_eq_raw_pad] at hc
  rcases List.mem_append.mp hc with h | h
  · have := b64raw_chars bs c h
    exact ⟨this.1, this.2.1, this.2.2.1⟩
  · have := List.eq_of_mem_replicate h
    subst this
    decide

theorem utf8_ne_nil {v : Str} (h : v ≠ []) : utf8 v ≠ [] := by
  cases v with
  | nil => exact absurd rfl h
  | cons c cs => simp [utf8]

theorem quoteBytes_ne_nil (q : Bool) {bs : Bytes} (h : bs ≠ []) : quoteBytes q bs ≠ [] := by
  cases bs with
  | nil => exact absurd rfl h
  | cons b bs =>
    have : quoteByte q b ≠ [] := by
      unfold quoteByte
      simp only []
      split
      · simp
      · split <;> simp
    simp [quoteBytes, this]

theorem b64encode_ne_nil {bs : Bytes} (h : bs ≠ []) : b64encode bs ≠ [] := by
  match bs, h with
  | [_], _ => simp [b64encode]
  | [_, _], _ => simp [b64encode]
  | _ :: _ :: _ :: _, _ => simp [b64encode]

/-- neither component of an escaped pair is empty (non-empty name) -/
theorem escape_ne_nil (q : Bool) (k v : Str) (hk : k ≠ []) :
    (escapeGroupingKeyWith q k v).1 ≠ [] ∧ (escapeGroupingKeyWith q k v).2 ≠ [] := by
  rcases escape_cases q k v with ⟨_, he⟩ | ⟨hv, _, he⟩ | ⟨hv, _, he⟩ <;> rw [he]
  · exact ⟨by simp [hk], by simp⟩
  · exact ⟨by simp [hk], b64encode_ne_nil (utf8_ne_nil hv)⟩
  · exact ⟨hk, quoteBytes_ne_nil q (utf8_ne_nil hv)⟩

/-- the Pushgateway reads an escaped pair back as the original pair — under the reading `p` of `+`, for the
encoder `q`, whenever an encoder that writes `+` for a space is read by a decoder that knows it -/
theorem decodePair_escape (q p : Bool) (hqp : q = true → p = true) (k v : Str) (hk : '@' ∉ k) (hne : k ≠ []) :
    decodePairWith p (escapeGroupingKeyWith q k v).1 (escapeGroupingKeyWith q k v).2 = some (k, v) := by
  have hnn := escape_ne_nil q k v hne
  unfold decodePairWith
  rw [if_neg (by simp [hnn.1, hnn.2])]
  rcases escape_cases q k v with ⟨hv, he⟩ | ⟨_, _, he⟩ | ⟨_, hns, he⟩
  · rw [he]; subst hv
    simp only [stripSuffix_append]
    have : b64decode ['='] = some [] := by decide
    simp only [this, Option.bind_some]
    have := utf8Decode_utf8 []
    simp only [utf8, List.flatMap_nil] at this
    rw [this]; rfl
  · rw [he]
    simp only [stripSuffix_append, b64decode_b64encode, Option.bind_some, utf8Decode_utf8, Option.map_some]
  · rw [he]
    simp only [stripSuffix_none k hk, unquoteWith_quoteWith q p hqp]
    simp [hns]

/-- neither component of an escaped pair contains `/` (names without `/`) -/
theorem escape_no_slash (q : Bool) (k v : Str) (hk : '/' ∉ k) :
    '/' ∉ (escapeGroupingKeyWith q k v).1 ∧ '/' ∉ (escapeGroupingKeyWith q k v).2 := by
  have hsuf : '/' ∉ k ++ Spec.Gateway.base64Suffix := by
    intro m
    rcases List.mem_append.mp m with m | m
    · exact hk m
    · revert m; decide
  rcases escape_cases q k v with ⟨_, he⟩ | ⟨_, _, he⟩ | ⟨_, _, he⟩ <;> rw [he]
  · exact ⟨hsuf, by simp⟩
  · exact ⟨hsuf, fun m => (b64encode_chars _ _ m).1 rfl⟩
  · exact ⟨hk, quoteBytes_no_slash q _⟩

/-! ### the whole path -/

theorem decodePairs_segments (p : Bool) (hqp : spaceAsPlus = true → p = true) (l : List (Str × Str))
    (h : ∀ kv ∈ l, '@' ∉ kv.1 ∧ kv.1 ≠ []) :
    decodePairsWith p (segments l) = some l := by
  induction l with
  | nil => rfl
  | cons kv rest ih =>
    have h1 := decodePair_escape spaceAsPlus p hqp kv.1 kv.2 (h kv (by simp)).1 (h kv (by simp)).2
    have h2 := ih (fun x hx => h x (List.mem_cons_of_mem _ hx))
    show decodePairsWith p ((escapeGroupingKeyWith spaceAsPlus kv.1 kv.2).1 ::
      (escapeGroupingKeyWith spaceAsPlus kv.1 kv.2).2 :: segments rest) = _
    simp only [decodePairsWith, h1, h2]

theorem segments_no_slash (l : List (Str × Str)) (h : ∀ kv ∈ l, '/' ∉ kv.1) : ∀ s ∈ segments l, '/' ∉ s := by
  intro s hs
  obtain ⟨kv, hkv, hm⟩ := List.mem_flatMap.mp hs
  have := escape_no_slash spaceAsPlus kv.1 kv.2 (h kv hkv)
  simp only [List.mem_cons, List.not_mem_nil, or_false] at hm
  rcases hm with rfl | rfl
  · exact this.1
  · exact this.2

theorem segments_ne_nil (kv : Str × Str) (l : List (Str × Str)) : segments (kv :: l) ≠ [] := by
  simp [segments]

/-- every label list with `/`- and `@`-free non-empty names survives encode → split → decode, under the reading
`p` of `+` provided `spaceAsPlus → p` -/
theorem decodePath_join (p : Bool) (hqp : spaceAsPlus = true → p = true) (kv : Str × Str) (l : List (Str × Str))
    (h : ∀ x ∈ kv :: l, '/' ∉ x.1 ∧ '@' ∉ x.1 ∧ x.1 ≠ []) :
    decodePathWith p (joinStr ['/'] (segments (kv :: l))) = some (kv :: l) := by
  unfold decodePathWith
  rw [splitSlash_join _ (segments_ne_nil kv l) (segments_no_slash _ (fun x hx => (h x hx).1))]
  exact decodePairs_segments p hqp _ (fun x hx => (h x hx).2)

/-! ### URL = base ++ "/metrics/" ++ path -/

theorem pairPiece_eq (kv : Str × Str) :
    pairPiece kv = '/' :: (escapeGroupingKey kv.1 kv.2).1 ++ '/' :: (escapeGroupingKey kv.1 kv.2).2 := by
  have : pairFmt = [['/'], ['/'], []] := by decide
  simp [pairPiece, this, fmt]

theorem joinStr_cons_cons (sep x y : Str) (l : List Str) :
    joinStr sep (x :: y :: l) = x ++ sep ++ joinStr sep (y :: l) := rfl

theorem joinStr_cons_segments (x : Str) (l : List (Str × Str)) :
    joinStr ['/'] (x :: segments l) = x ++ l.flatMap pairPiece := by
  induction l generalizing x with
  | nil => simp [segments, joinStr]
  | cons kv rest ih =>
    show joinStr ['/'] (x :: (escapeGroupingKey kv.1 kv.2).1 :: (escapeGroupingKey kv.1 kv.2).2 :: segments rest) = _
    rw [joinStr_cons_cons, joinStr_cons_cons, ih, List.flatMap_cons, pairPiece_eq]
    simp

theorem buildUrl_eq (g job : Str) (gk : List (Str × Str)) :
    buildUrl g job gk = gatewayBase g ++ Spec.Gateway.metricsInfix ++ buildPath job gk := by
  have hf : urlFmt = [[], Spec.Gateway.metricsInfix, ['/'], []] := by decide
  unfold buildUrl buildPath
  show _ = _ ++ _ ++ joinStr ['/'] ((escapeGroupingKey jobLit job).1 :: (escapeGroupingKey jobLit job).2 ::
    segments (orderedItems gk))
  rw [joinStr_cons_cons, joinStr_cons_segments, hf]
  simp [fmt]

/-! ### gateway spellings -/

theorem findChar_append_left {c : Char} {u : Str} {i : Nat} (s : Str) (h : findChar c u = some i) :
    findChar c (u ++ s) = some i ∧ i < u.length := by
  induction u generalizing i with
  | nil => simp [findChar] at h
  | cons x xs ih =>
    simp only [findChar, List.cons_append] at h ⊢
    split at h
    · next hx => simp [hx] at h ⊢; omega
    · next hx =>
      simp only [hx, if_false]
      cases hf : findChar c xs with
      | none => simp [hf] at h
      | some j =>
        simp only [hf, Option.map_some, Option.some.injEq] at h
        have := ih hf
        simp only [this.1, Option.map_some, Option.some.injEq, List.length_cons]
        omega

theorem findChar_none_iff {c : Char} {u : Str} : findChar c u = none ↔ c ∉ u := by
  induction u with
  | nil => simp [findChar]
  | cons x xs ih =>
    simp only [findChar, List.mem_cons, not_or]
    by_cases hx : x = c
    · simp [hx]
    · simp [hx, ih, Ne.symm hx]

theorem dropWhile_append_slashes (p : Char → Bool) (g : Str) (n : Nat) (hp : p '/' = false) :
    (g ++ List.replicate n '/').dropWhile p = g.dropWhile p ++ List.replicate n '/' := by
  induction g with
  | nil =>
    cases n with
    | zero => rfl
    | succ k => simp [List.replicate_succ, List.dropWhile, hp]
  | cons x xs ih =>
    by_cases hx : p x = true
    · simp [hx, ih]
    · simp [hx]

/-- trailing slashes do not change the scheme `urlparse` reports -/
theorem urlScheme_append_slashes (g : Str) (n : Nat) : urlScheme (g ++ List.replicate n '/') = urlScheme g := by
  unfold urlScheme
  simp only []
  rw [dropWhile_append_slashes _ _ _ (by decide), List.filter_append]
  have hfil : (List.replicate n '/').filter (fun c => c ≠ '\t' && c ≠ '\r' && c ≠ '\n') = List.replicate n '/' := by
    apply List.filter_eq_self.mpr
    intro a ha
    have := List.eq_of_mem_replicate ha
    subst this; decide
  rw [hfil]
  generalize (List.filter (fun c => c ≠ '\t' && c ≠ '\r' && c ≠ '\n') (List.dropWhile (fun c => decide (c.toNat ≤ 32)) g)) = u
  cases hf : findChar ':' u with
  | none =>
    have : findChar ':' (u ++ List.replicate n '/') = none := by
      rw [findChar_none_iff] at hf ⊢
      intro m
      rcases List.mem_append.mp m with m | m
      · exact hf m
      · have := List.eq_of_mem_replicate m
        exact absurd this (by decide)
    rw [this]
  | some i =>
    obtain ⟨h1, h2⟩ := findChar_append_left (List.replicate n '/') hf
    rw [h1]
    have htake : (u ++ List.replicate n '/').take i = u.take i := by
      rw [List.take_append_of_le_length (by omega)]
    have hhead : (u ++ List.replicate n '/').head? = u.head? := by
      cases u with
      | nil => simp at h2
      | cons x xs => rfl
    simp only [htake, hhead]

theorem needsPrefix_append_slashes (g : Str) (n : Nat) :
    needsPrefix (g ++ List.replicate n '/') = needsPrefix g := by
  unfold needsPrefix
  rw [urlScheme_append_slashes]

theorem rstrip_append_slashes (y : Str) (n : Nat) :
    rstripSet (fun c => rstripChars.contains c) (y ++ List.replicate n '/') =
      rstripSet (fun c => rstripChars.contains c) y :=
  rstripSet_append_of_nil _ _ _ (rstripSet_replicate _ _ _ (by decide))

/-- **trailing slashes are ignored**, for every gateway string -/
theorem gatewayBase_append_slashes (g : Str) (n : Nat) : gatewayBase (g ++ List.replicate n '/') = gatewayBase g := by
  unfold gatewayBase
  rw [needsPrefix_append_slashes]
  split
  · rw [← List.append_assoc, rstrip_append_slashes]
  · rw [rstrip_append_slashes]

/-- a gateway that starts with `http://` has scheme `http` whatever follows -/
theorem urlScheme_http (x : Str) : urlScheme (httpPrefix ++ x) = ['h', 't', 't', 'p'] := by
  have : httpPrefix = ['h', 't', 't', 'p', ':', '/', '/'] := by decide
  rw [this]
  simp [urlScheme, findChar]
  decide

theorem urlScheme_https (x : Str) : urlScheme (['h', 't', 't', 'p', 's', ':', '/', '/'] ++ x) = ['h', 't', 't', 'p', 's'] := by
  simp [urlScheme, findChar]
  decide

theorem needsPrefix_http (x : Str) : needsPrefix (httpPrefix ++ x) = false := by
  unfold needsPrefix
  rw [urlScheme_http]
  decide

theorem needsPrefix_https (x : Str) : needsPrefix (['h', 't', 't', 'p', 's', ':', '/', '/'] ++ x) = false := by
  unfold needsPrefix
  rw [urlScheme_https]
  decide

end PromVerif.Lemmas.Gateway
