/-
C04, the converse at line level, full: for every accepted sample line, rendering the PARSED sample again and parsing the result
gives the same sample (`SampleSame`: name, label dict, value as a double, timestamps — a `Timestamp` exactly, a float as the same
instant — and exemplar).
-/
import PromVerif.Lemmas.OMRtConv2

set_option autoImplicit false

namespace PromVerif.Lemmas.OMRt
open PromVerif.Py PromVerif.Model PromVerif.Model.Escape PromVerif.Model.ParseCore PromVerif.Model.Validation
open PromVerif.Model.OMParse PromVerif.Spec.OMRoundtrip PromVerif.Lemmas.TextParse

/-- what `_parse_sample` returns: a float-valued sample, its timestamps out of `_parse_timestamp`, its exemplar's labels out of
`parse_labels` and within the limit -/
theorem parseSample_inv (P : Params) (text : Str) (o : OSample) (h : parseSample P text = .ok o) :
    o.nh = none ∧ (∃ v, o.value = some v) ∧ StampInvOpt o.ts ∧
      (∀ e, o.exemplar = some e → (∃ s, parseLabels P.legacy s true = .ok e.labels) ∧ labelsLen e.labels ≤ 128 ∧ StampInvOpt e.ts) := by
  unfold parseSample at h
  simp only [bind, Except.bind, pure, Except.pure] at h
  repeat' split at h
  all_goals first
    | (cases h; done)
    | (cases h
       rename_i v hr
       have := parseRemainingText_inv P _ v.1 v.2.1 v.2.2 hr
       exact ⟨rfl, ⟨_, rfl⟩, this.1, this.2⟩)

theorem tsOK_of_inv (P : Params) (s n : Int) (h : StampInv (.stamp s n)) : TsOK P (.stamp s n) := by
  obtain ⟨h1, h2⟩ := h
  exact ⟨fun hs => by have := h1 hs; simp only [nsPerSec]; omega, fun hs => by have := h2 hs; simp only [nsPerSec]; omega⟩

/-- a parsed optional timestamp, rendered again, is in the domain -/
theorem tsBack_ok (P : Params) (R : Rerender) (ots : Option OTs) (hinv : StampInvOpt ots)
    (hf : ∀ b, ots = some (.flt b) → TsOK P (.flt (R.reprFlt b)) ∧ P.pyFloat (R.reprFlt b) = some b) :
    ∀ t, ots.map (tsBack R) = some t → TsOK P t := by
  intro t ht
  cases ots with
  | none => cases ht
  | some o =>
    cases ht
    cases o with
    | stamp s n => exact tsOK_of_inv P s n hinv
    | flt b => exact (hf b rfl).1

/-- what `_parse_timestamp` makes of the re-rendered token of a parsed timestamp -/
theorem tsBack_same (P : Params) (hI : IntLaw P.pyInt) (R : Rerender) (ots : Option OTs) (hinv : StampInvOpt ots) (o' : Option OTs)
    (hp : parseTimestamp P ((ots.map (fun t => OMExpo.tsStr (tsBack R t))).getD []) = .ok o')
    (hm : tsMatches P (ots.map (tsBack R)) o') : otsSame P R ots o' := by
  cases ots with
  | none =>
    simp only [Option.map_none, Option.getD_none, parseTimestamp_nil] at hp
    cases hp; trivial
  | some o =>
    cases o with
    | stamp s n =>
      simp only [Option.map_some, Option.getD_some, tsBack] at hp
      rw [stamp_fixpoint P hI s n hinv.1 hinv.2] at hp
      cases hp; rfl
    | flt b =>
      cases o' with
      | none => exact hm
      | some x => exact hm

/-- the re-rendering of an accepted line's sample is in the domain of the line-level round trip (label names, timestamps,
exemplar labels and their total length: all derived from acceptance; the number laws: `BackLaws`) -/
theorem sampleBack_ok (P : Params) (R : Rerender) (line : Str) (o : OSample)
    (hacc : parseSample P line = .ok o) (hl : BackLaws P R o) : SampleOKom P (sampleBack R o) := by
  obtain ⟨L, hL, hLok⟩ := parseSample_labels_ok P line o hacc
  obtain ⟨hnh, ⟨v, hv⟩, htsinv, hexinv⟩ := parseSample_inv P line o hacc
  refine ⟨by simp only [sampleBack, hL, Option.getD_some]; exact hLok,
    ⟨R.toF v, by simp only [sampleBack, hv, Option.getD_some]; exact hl.value v hv⟩, ?_, ?_⟩
  · intro t ht
    simp only [sampleBack] at ht
    cases hts : o.ts with
    | none => rw [hts] at ht; cases ht
    | some x =>
      rw [hts] at ht; cases ht
      exact tsBack_ok P R (some x) (by rw [← hts]; exact htsinv) (fun b hb => hl.ts b (by rw [hts, hb])) _ rfl
  · intro e he
    simp only [sampleBack] at he
    cases hex : o.exemplar with
    | none => rw [hex] at he; cases he
    | some oe =>
      rw [hex] at he; cases he
      obtain ⟨⟨s, hs⟩, hlen, heinv⟩ := hexinv oe hex
      have hvalid := parseLabels_valid _ _ _ _ hs
      have hnd := OM.parseLabels_nodup _ _ _ _ hs
      refine ⟨⟨?_, hnd⟩, hlen, ⟨R.toF oe.value, hl.exValue oe hex⟩,
        tsBack_ok P R oe.ts heinv (fun b hb => hl.exTs oe b hex hb)⟩
      intro kv hkv
      rcases hvalid kv hkv with e | e
      · exact absurd (by rw [e]; decide) (hl.exName oe hex kv hkv)
      · exact e

/-- **the converse at line level**: an accepted line's sample, rendered again, parses to the same sample -/
theorem reparse_line (P : Params) (hI : IntLaw P.pyInt) (R : Rerender) (line : Str) (o : OSample)
    (hacc : parseSample P line = .ok o) (hl : BackLaws P R o) :
    ∃ o', parseSample P (lineBody (sampleBack R o)) = .ok o' ∧ SampleSame P R o o' := by
  obtain ⟨L, hL, hLok⟩ := parseSample_labels_ok P line o hacc
  obtain ⟨hnh, ⟨v, hv⟩, htsinv, hexinv⟩ := parseSample_inv P line o hacc
  have hok := sampleBack_ok P R line o hacc hl
  obtain ⟨o', hp, hm, hx1, hx2⟩ := line_roundtrip_exact P hI (sampleBack R o) hok
  refine ⟨o', hp, ⟨hm.name, ?_, ?_, ?_, ?_, hm.nh⟩⟩
  · rw [hm.labels, hL]; simp [sampleBack, hL]
  · obtain ⟨b, hb1, hb2⟩ := hm.value
    have := (hl.value v hv).flt
    simp only [sampleBack, hv, Option.getD_some] at hb1
    rw [this] at hb1; cases hb1
    rw [hb2, hv]; rfl
  · have hmap : (sampleBack R o).ts.map (fun t => OMExpo.tsStr t.ts) = o.ts.map (fun t => OMExpo.tsStr (tsBack R t)) := by
      simp only [sampleBack]; cases o.ts <;> rfl
    have hmap2 : (sampleBack R o).ts.map (·.ts) = o.ts.map (tsBack R) := by
      simp only [sampleBack]; cases o.ts <;> rfl
    rw [hmap] at hx1
    have hmt := hm.ts
    rw [hmap2] at hmt
    exact tsBack_same P hI R o.ts htsinv o'.ts hx1 hmt
  · cases hex : o.exemplar with
    | none =>
      have hme := hm.exemplar
      simp only [sampleBack, hex, Option.map_none] at hme
      cases ho' : o'.exemplar with
      | none => trivial
      | some x => rw [ho'] at hme; exact hme
    | some oe =>
      obtain ⟨_, _, heinv⟩ := hexinv oe hex
      have hme := hm.exemplar
      obtain ⟨oe', ho', hpe⟩ := hx2 (exBack R oe) (by simp [sampleBack, hex])
      simp only [sampleBack, hex, Option.map_some, ho', exemplarMatches] at hme
      obtain ⟨hlab, ⟨b, hb1, hb2⟩, hts⟩ := hme
      rw [ho']
      refine ⟨hlab, ?_, ?_⟩
      · have := (hl.exValue oe hex).flt
        simp only [exBack] at hb1
        rw [this] at hb1; cases hb1; exact hb2
      · have hmap : (exBack R oe).ts.map OMExpo.tsStr = oe.ts.map (fun t => OMExpo.tsStr (tsBack R t)) := by
          simp only [exBack]; cases oe.ts <;> rfl
        rw [hmap] at hpe
        exact tsBack_same P hI R oe.ts heinv oe'.ts hpe hts

end PromVerif.Lemmas.OMRt
