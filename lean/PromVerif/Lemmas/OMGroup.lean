/-
`groupStep` (grouping, timestamps within a group, duplicate suppression): what a successful step leaves in the
state, and when it must fail.
-/
import PromVerif.Lemmas.OMDoom

namespace PromVerif.Lemmas.OM
open PromVerif.Py PromVerif.Model.ParseCore PromVerif.Model.OMParse PromVerif.Generated.OMParse
open PromVerif.Spec.OMRules

/-- how `groupStep` decomposes when it succeeds -/
theorem groupStep_ok (P : Params) (gr gr' : Grp) (n t : Str) (s : OSample) (h : groupStep P gr n t s = .ok gr') :
    ∃ g ls, groupOf s n t = .ok g ∧ labelsOrAttr s = .ok ls ∧ gr'.group = some g ∧ gr'.groupTs = s.ts ∧
      (let gts := if gr.group.isSome && gr.group == some g then gr.gtsSamples else []
       gr'.samples = if !tsEq P s.ts gr.groupTs || !gts.contains (s.name, sortByKey ls) then gr.samples ++ [s] else gr.samples) := by
  unfold groupStep at h
  cases hg : groupOf s n t with
  | error e => rw [hg] at h; dsimp only at h; cases h
  | ok g =>
    rw [hg] at h; dsimp only at h
    cases h1 : raiseIf (gr.group.isSome && !(gr.group == some g) && gr.seenGroups.contains g) with
    | error e => rw [h1] at h; dsimp only at h; cases h
    | ok u1 =>
      rw [h1] at h; dsimp only at h
      cases h2 : (if gr.group.isSome && gr.group == some g then chkGroupTs P t gr.groupTs s.ts else .ok ()) with
      | error e => rw [h2] at h; dsimp only at h; cases h
      | ok u2 =>
        rw [h2] at h; dsimp only at h
        cases h3 : labelsOrAttr s with
        | error e => rw [h3] at h; dsimp only at h; cases h
        | ok ls =>
          rw [h3] at h; dsimp only at h
          obtain rfl := Except.ok.inj h
          exact ⟨g, ls, rfl, rfl, rfl, rfl, rfl⟩

/-- in the same group as the previous sample, a failing timestamp test makes `groupStep` fail -/
theorem groupStep_ts_fails (P : Params) (gr : Grp) (n t : Str) (s : OSample) (g : Labels)
    (hg : groupOf s n t = .ok g) (hsame : gr.group = some g)
    (hts : isError (chkGroupTs P t gr.groupTs s.ts) = true) : isError (groupStep P gr n t s) = true := by
  unfold groupStep
  rw [hg]; dsimp only
  have e1 : (gr.group == some g) = true := by rw [hsame]; simp
  have e2 : gr.group.isSome = true := by rw [hsame]; rfl
  rw [e1, e2]
  simp only [Bool.not_true, Bool.and_false, Bool.false_and, Bool.and_self, if_true, raiseIf]
  cases hc : chkGroupTs P t gr.groupTs s.ts with
  | error e => rfl
  | ok u => rw [hc] at hts; cases hts

/-- a successful sample step goes through `groupStep` (plain samples) -/
theorem sampleChecks_ok (P : Params) (h : Hdr) (gr gr' : Grp) (s : OSample) (n : Str) (hn : h.name = some n)
    (hs : sampleChecks P h gr s false = .ok gr') : groupStep P gr n (h.typ.getD []) s = .ok gr' := by
  rw [sampleChecks_false, hn] at hs
  dsimp only at hs
  cases h1 : preChecks P n h.typ s with
  | error e => rw [h1] at hs; dsimp only at hs; cases hs
  | ok u =>
    rw [h1] at hs; dsimp only at hs
    cases h2 : groupStep P gr n (h.typ.getD []) s with
    | error e => rw [h2] at hs; dsimp only at hs; cases hs
    | ok g2 =>
      rw [h2] at hs; dsimp only at hs
      cases h3 : postChecks P n h.typ s with
      | error e => rw [h3] at hs; dsimp only at hs; cases hs
      | ok u3 => rw [h3] at hs; dsimp only at hs; exact hs

theorem sampleChecks_group_fails (P : Params) (h : Hdr) (gr : Grp) (s : OSample) (n : Str) (hn : h.name = some n)
    (he : isError (groupStep P gr n (h.typ.getD []) s) = true) : isError (sampleChecks P h gr s false) = true := by
  rw [sampleChecks_false, hn]
  dsimp only
  cases preChecks P n h.typ s with
  | error e => rfl
  | ok u =>
    dsimp only
    cases h2 : groupStep P gr n (h.typ.getD []) s with
    | error e => rfl
    | ok g2 => rw [h2] at he; cases he

/-- the group the parser computes is the sample's labels without the distinguishing label (the spec's `groupLabels`;
for an info family the empty group) -/
theorem groupOf_spec (s : OSample) (n t : Str) (g : Labels) (h : groupOf s n t = .ok g) :
    g = sortByKey (groupLabels n t s) := by
  unfold groupOf at h
  cases hg : groupForSample s n t with
  | error e => rw [hg] at h; cases h
  | ok o =>
    rw [hg] at h
    cases o with
    | none => cases h
    | some d =>
      dsimp only at h
      obtain rfl := Except.ok.inj h
      congr 1
      by_cases ht : t = cs!"info"
      · subst ht
        unfold groupForSample at hg
        have : (cs!"info" == tInfo) = true := by decide
        rw [if_pos this] at hg
        obtain rfl := Option.some.inj (Except.ok.inj hg)
        unfold groupLabels
        rw [if_pos rfl]
      unfold groupForSample at hg
      have e0 : ¬ (t == tInfo) = true := by simpa [tInfo] using ht
      rw [if_neg e0] at hg
      unfold groupLabels
      rw [if_neg ht]
      by_cases c1 : (t == tSummary && s.name == n) = true
      · rw [if_pos c1] at hg
        have c1' : t = cs!"summary" ∧ s.name = n := by simpa [tSummary] using c1
        rw [if_pos c1']
        cases hl : s.labels with
        | none => simp [labelsCopy, hl] at hg; cases hg
        | some l =>
          simp only [labelsCopy, hl, dictDel, bind, Except.bind] at hg
          split at hg
          · cases hg
          · rename_i v hv
            obtain rfl := Option.some.inj (Except.ok.inj hg)
            split at hv
            · exact (Except.ok.inj hv).symm
            · cases hv
      · rw [if_neg c1] at hg
        have c1' : ¬ (t = cs!"summary" ∧ s.name = n) := by simpa [tSummary] using c1
        rw [if_neg c1']
        by_cases c2 : (t == tStateset) = true
        · rw [if_pos c2] at hg
          have c2' : t = cs!"stateset" := by simpa [tStateset] using c2
          rw [if_pos c2']
          cases hl : s.labels with
          | none => simp [labelsCopy, hl] at hg; cases hg
          | some l =>
            simp only [labelsCopy, hl, dictDel, bind, Except.bind] at hg
            split at hg
            · cases hg
            · rename_i v hv
              obtain rfl := Option.some.inj (Except.ok.inj hg)
              split at hv
              · exact (Except.ok.inj hv).symm
              · cases hv
        · rw [if_neg c2] at hg
          have c2' : ¬ t = cs!"stateset" := by simpa [tStateset] using c2
          rw [if_neg c2']
          by_cases c3 : ((t == tHistogram || t == tGaugeHistogram) && s.name == n ++ sBucket) = true
          · rw [if_pos c3] at hg
            have c3' : (t = cs!"histogram" ∨ t = cs!"gaugehistogram") ∧ s.name = n ++ cs!"_bucket" := by
              simpa [tHistogram, tGaugeHistogram, sBucket] using c3
            rw [if_pos c3']
            cases hl : s.labels with
            | none => simp [labelsCopy, hl] at hg; cases hg
            | some l =>
              simp only [labelsCopy, hl, dictDel, bind, Except.bind] at hg
              split at hg
              · cases hg
              · rename_i v hv
                obtain rfl := Option.some.inj (Except.ok.inj hg)
                split at hv
                · exact (Except.ok.inj hv).symm
                · cases hv
          · rw [if_neg c3] at hg
            have c3' : ¬ ((t = cs!"histogram" ∨ t = cs!"gaugehistogram") ∧ s.name = n ++ cs!"_bucket") := by
              simpa [tHistogram, tGaugeHistogram, sBucket] using c3
            rw [if_neg c3']
            have := Except.ok.inj hg
            rw [this]; rfl

/-! ## "a family that has processed a sample has a sample" -/

/-- duplicates are only suppressed against samples that were kept -/
def KeptInv (gr : Grp) : Prop := gr.gtsSamples ≠ [] → gr.samples ≠ []

theorem groupStep_samples (P : Params) (gr gr' : Grp) (n t : Str) (s : OSample) (hk : KeptInv gr)
    (h : groupStep P gr n t s = .ok gr') : gr'.samples ≠ [] := by
  obtain ⟨g, ls, _, _, _, _, hs⟩ := groupStep_ok P gr gr' n t s h
  dsimp only at hs
  rw [hs]
  by_cases c : (!tsEq P s.ts gr.groupTs ||
      !(if gr.group.isSome && gr.group == some g then gr.gtsSamples else []).contains (s.name, sortByKey ls)) = true
  · rw [if_pos c]; simp
  · rw [if_neg c]
    -- not appended: the series is among the kept series of the current group
    have hc' : (if gr.group.isSome && gr.group == some g then gr.gtsSamples else []).contains (s.name, sortByKey ls) = true := by
      cases hcc : (if gr.group.isSome && gr.group == some g then gr.gtsSamples else []).contains (s.name, sortByKey ls)
      · rw [hcc] at c; simp at c
      · rfl
    by_cases c2 : (gr.group.isSome && gr.group == some g) = true
    · rw [if_pos c2] at hc'
      apply hk
      intro he; rw [he] at hc'; cases hc'
    · rw [if_neg c2] at hc'; cases hc'

theorem sampleChecks_samples (P : Params) (h : Hdr) (gr gr' : Grp) (s : OSample) (isNh : Bool) (hk : KeptInv gr)
    (hs : sampleChecks P h gr s isNh = .ok gr') : gr'.samples ≠ [] ∧ KeptInv gr' := by
  have key : gr'.samples ≠ [] := by
    cases isNh with
    | false =>
      cases hn : h.name with
      | none => rw [sampleChecks_false, hn] at hs; cases hs
      | some n => exact groupStep_samples P gr gr' n _ s hk (sampleChecks_ok P h gr gr' s n hn hs)
    | true =>
      unfold sampleChecks at hs
      by_cases c : (true && nhSkipsChecks) = true
      · rw [if_pos c] at hs
        obtain rfl := Except.ok.inj hs
        simp
      · rw [if_neg c] at hs
        cases hn : h.name with
        | none => rw [hn] at hs; cases hs
        | some n =>
          rw [hn] at hs; dsimp only at hs
          cases h1 : preChecks P n h.typ s with
          | error e => rw [h1] at hs; dsimp only at hs; cases hs
          | ok u =>
            rw [h1] at hs; dsimp only at hs
            simp only [Bool.not_true, Bool.false_eq_true, if_false] at hs
            cases h3 : postChecks P n h.typ s with
            | error e => rw [h3] at hs; dsimp only at hs; cases hs
            | ok u3 =>
              rw [h3] at hs; dsimp only at hs
              obtain rfl := Except.ok.inj hs
              simp
  exact ⟨key, fun _ => key⟩

/-- every line keeps `KeptInv` -/
theorem kept_step (P : Params) (st st' : St) (l : Line) (hk : KeptInv st.grp) (h : stepLine P st l = .ok st') : KeptInv st'.grp := by
  obtain ⟨_, hc⟩ := stepLine_ok P st st' _ h
  rcases hc with ⟨_, rfl⟩ | ⟨kind, cand, rest, _, hm⟩ | ⟨nh, plain, s, isNh, _, _, hss⟩
  · exact hk
  · rcases stepMeta_ok P st st' _ _ _ hm with ⟨_, g, hd, _, _, rfl⟩ | ⟨_, hd, _, rfl⟩
    · intro hne; exact absurd rfl hne
    · exact hk
  · rcases stepSample_ok P st st' s isNh hss with ⟨_, g, hd, gr, _, _, hsc, rfl⟩ | ⟨_, gr, hsc, rfl⟩
    · exact (sampleChecks_samples P hd {} gr s isNh (fun hne => absurd rfl hne) hsc).2
    · exact (sampleChecks_samples P st.hdr st.grp gr s isNh hk hsc).2

theorem kept_run (P : Params) (ls : List Line) (st st' : St) (hk : KeptInv st.grp) (h : run P st ls = .ok st') : KeptInv st'.grp :=
  run_invariant P (fun s => KeptInv s.grp) (fun _ => True) (fun s l s' hq _ hst => kept_step P s s' l hq hst) ls
    (fun _ _ => trivial) st hk st' h

/-- like `isError_of_suffix`, with the invariant `KeptInv` available for the state the prefix leaves -/
theorem isError_of_suffix_kept (P : Params) (pre suf : List Line)
    (h : ∀ st, KeptInv st.grp → isError (finishRun P st suf) = true) : isError (assemble P (pre ++ suf)) = true := by
  rw [assemble_eq, finishRun_append]
  cases hr : run P {} pre with
  | error e => rfl
  | ok st => exact h st (kept_run P pre {} st (fun hne => absurd rfl hne) hr)

/-- "family `n` is current and has a sample, or the name `n` is recorded" -/
def HasSample (n : Str) (st : St) : Prop :=
  KeptInv st.grp ∧ ((st.hdr.name = some n ∧ st.grp.samples ≠ []) ∨ n ∈ st.glob.seenNames)

theorem hasSample_step (P : Params) (n : Str) (st st' : St) (l : Line) (hs : HasSample n st) (h : stepLine P st l = .ok st') :
    HasSample n st' := by
  refine ⟨kept_step P st st' l hs.1 h, ?_⟩
  obtain ⟨hk, hs⟩ := hs
  obtain ⟨_, hc⟩ := stepLine_ok P st st' _ h
  rcases hc with ⟨_, rfl⟩ | ⟨kind, cand, rest, _, hm⟩ | ⟨nh, plain, s, isNh, _, _, hss⟩
  · exact hs
  · rcases stepMeta_ok P st st' _ _ _ hm with ⟨_, g, hd, hf, _, rfl⟩ | ⟨hn, hd, ha, rfl⟩
    · right
      rcases hs with ⟨hn, _⟩ | hs
      · exact flush_records_name P _ _ _ _ n hn hf
      · exact flush_mono P _ _ _ _ hf n hs
    · rcases hs with ⟨hn', hne⟩ | hs
      · have : cand = n := by rw [hn] at hn'; exact Option.some.inj hn'
        subst this
        rw [stepMeta_late P st kind cand rest hn hne] at hm; cases hm
      · right; exact hs
  · rcases stepSample_ok P st st' s isNh hss with ⟨_, g, hd, gr, hf, _, _, rfl⟩ | ⟨_, gr, hsc, rfl⟩
    · right
      rcases hs with ⟨hn, _⟩ | hs
      · exact flush_records_name P _ _ _ _ n hn hf
      · exact flush_mono P _ _ _ _ hf n hs
    · rcases hs with ⟨hn, _⟩ | hs
      · left; exact ⟨hn, (sampleChecks_samples P st.hdr st.grp gr s isNh hk hsc).1⟩
      · right; exact hs

theorem hasSample_run (P : Params) (n : Str) (ls : List Line) (st st' : St) (hs : HasSample n st) (h : run P st ls = .ok st') :
    HasSample n st' :=
  run_invariant P (HasSample n) (fun _ => True) (fun s l s' hq _ hst => hasSample_step P n s s' l hq hst) ls
    (fun _ _ => trivial) st hs st' h

/-- a sample line processed while `n` is current (or recorded) leaves `HasSample` -/
theorem hasSample_of_sample (P : Params) (n : Str) (st st' : St) (nh : PyM (Option OSample)) (plain : PyM OSample)
    (hk : KeptInv st.grp) (hs : Seen (fun _ => True) n n st) (h : stepLine P st (.sample nh plain) = .ok st') : HasSample n st' := by
  refine ⟨kept_step P st st' _ hk h, ?_⟩
  obtain ⟨_, hc⟩ := stepLine_ok P st st' _ h
  rcases hc with ⟨h0, _⟩ | ⟨_, _, _, hl, _⟩ | ⟨nh', plain', s, isNh, _, _, hss⟩
  · cases h0
  · cases hl
  · rcases stepSample_ok P st st' s isNh hss with ⟨_, g, hd, gr, hf, _, _, rfl⟩ | ⟨_, gr, hsc, rfl⟩
    · right
      rcases hs with ⟨hn, _⟩ | hs
      · exact flush_records_name P _ _ _ _ n hn hf
      · exact flush_mono P _ _ _ _ hf n hs
    · rcases hs with ⟨hn, _⟩ | hs
      · left; exact ⟨hn, (sampleChecks_samples P st.hdr st.grp gr s isNh hk hsc).1⟩
      · right; exact hs

end PromVerif.Lemmas.OM
