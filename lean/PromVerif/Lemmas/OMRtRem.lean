/-
C04: `_parse_remaining_text` — the character state machine — on what the exposition writes after the name / label block:
`value[ timestamp][ # {labels} value[ timestamp]]`.

The machine flips its in-quotes flag on EVERY double quote (it does not look at escaping: finding F18), and it skips every
character while the flag is set.  `exSafe`/`exRun` describe a text that the machine passes in state
`exemplarparsedlabels` without meeting a '}' outside quotes and that leaves the flag as it found it; a rendered
exemplar label block is such a text exactly when no label name or value contains a double quote.
-/
import PromVerif.Lemmas.OMRtLabels
import PromVerif.Lemmas.OMRtTs

set_option autoImplicit false

namespace PromVerif.Lemmas.OMRt
open PromVerif.Py PromVerif.Model PromVerif.Model.Escape PromVerif.Model.ParseCore PromVerif.Model.Validation
open PromVerif.Model.OMParse PromVerif.Spec.OMRoundtrip PromVerif.Lemmas.Escape PromVerif.Lemmas.Scanner
open PromVerif.Lemmas.TextParse PromVerif.Model.TextExpo

-- Python slices with non-negative bounds ---------------------------------------------------------------------------------

theorem pyBound_nat (len n : Nat) : pyBound len (n : Int) = min n len := by
  unfold pyBound
  have : ¬ ((n : Int) < 0) := by omega
  simp [this]

theorem pyBound_nat_succ (len n k : Nat) : pyBound len ((n : Int) + (k : Int)) = min (n + k) len := by
  rw [show ((n : Int) + (k : Int)) = ((n + k : Nat) : Int) by simp]
  exact pyBound_nat len (n + k)

theorem pyFrom_nat (s : Str) (n k : Nat) : pyFrom s ((n : Int) + (k : Int)) = s.drop (n + k) := by
  unfold pyFrom
  rw [pyBound_nat_succ]
  by_cases h : n + k ≤ s.length
  · rw [Nat.min_eq_left h]
  · rw [Nat.min_eq_right (by omega), List.drop_of_length_le (by omega), List.drop_of_length_le (by omega)]

theorem pySlice_nat (s : Str) (a k b : Nat) (hb : b ≤ s.length) :
    pySlice s ((a : Int) + (k : Int)) (b : Int) = (s.take b).drop (a + k) := by
  unfold pySlice
  rw [pyBound_nat, pyBound_nat_succ, Nat.min_eq_left hb]
  by_cases h : a + k ≤ s.length
  · rw [Nat.min_eq_left h]
  · rw [Nat.min_eq_right (by omega), List.drop_of_length_le (by simp; omega), List.drop_of_length_le (by simp; omega)]

theorem pySlice_zero_nat (s : Str) (b : Nat) (hb : b ≤ s.length) : pySlice s 0 (b : Int) = s.take b := by
  have := pySlice_nat s 0 0 b hb
  simpa using this

-- `_last_unquoted_char` ----------------------------------------------------------------------------------------------------

theorem escFlags_append (a b : Str) : ∀ (i : Nat) (odd : Bool),
    escFlags (a ++ b) i odd = escFlags a i odd ++ escFlags b (i + a.length) (a.foldl bsStep odd) := by
  induction a with
  | nil => intro i odd; simp [escFlags]
  | cons c cs ih =>
    intro i odd
    simp only [List.cons_append, escFlags, ih, List.length_cons, List.foldl_cons]
    congr 3; omega

theorem escFlags_index (b : Str) : ∀ (i : Nat) (odd : Bool) (x : Nat × Char × Bool), x ∈ escFlags b i odd → i ≤ x.1 ∧ x.2.1 ∈ b := by
  induction b with
  | nil => intro i odd x hx; simp [escFlags] at hx
  | cons c cs ih =>
    intro i odd x hx
    simp only [escFlags, List.mem_cons] at hx
    rcases hx with h | h
    · subst h; simp
    · have := ih (i + 1) _ x h
      exact ⟨by omega, by simp [this.2]⟩

theorem lastGo_skip (chs : Char → Bool) : ∀ (l rest : List (Nat × Char × Bool)),
    (∀ x ∈ l, x.1 ≠ 0 ∧ x.2.1 ≠ '"' ∧ chs x.2.1 = false) →
    lastUnquotedChar.go chs (l ++ rest) false = lastUnquotedChar.go chs rest false := by
  intro l
  induction l with
  | nil => intro rest _; rfl
  | cons x xs ih =>
    intro rest h
    obtain ⟨i, c, esc⟩ := x
    obtain ⟨h1, h2, h3⟩ := h (i, c, esc) (by simp)
    have e1 : (i == 0) = false := by simpa using h1
    have e2 : (c == '"') = false := by simpa using h2
    rw [List.cons_append, lastUnquotedChar.go]
    simp only [e1, Bool.false_eq_true, ↓reduceIte, e2, Bool.false_and, h3, Bool.and_false]
    exact ih rest (fun y hy => h y (by simp [hy]))

/-- scanning from the end: the last `c` with `chs c`, when nothing after it is a quote or wanted -/
theorem lastUnquotedChar_tail (chs : Char → Bool) (a b : Str) (c : Char) (ha : a ≠ []) (hc : chs c = true) (hcq : c ≠ '"')
    (hb : ∀ d ∈ b, d ≠ '"' ∧ chs d = false) :
    lastUnquotedChar (a ++ c :: b) chs = some a.length := by
  unfold lastUnquotedChar
  rw [escFlags_append]
  simp only [escFlags, Nat.zero_add, List.reverse_append, List.reverse_cons, List.append_assoc, List.singleton_append]
  rw [lastGo_skip]
  · rw [lastUnquotedChar.go]
    have e1 : (a.length == 0) = false := by
      have := List.length_pos_iff.mpr ha
      simp; omega
    have e2 : (c == '"') = false := by simpa using hcq
    simp [e1, e2, hc]
  · intro x hx
    have hx' := List.mem_reverse.mp hx
    have := escFlags_index b _ _ x hx'
    refine ⟨by omega, (hb _ this.2).1, (hb _ this.2).2⟩

-- the loop ------------------------------------------------------------------------------------------------------------------

theorem remLoop_append (P : Params) (text : Str) : ∀ (s t : Str) (a : RAcc),
    remLoop P text a (s ++ t) = (match remLoop P text a s with
      | .ok a' => remLoop P text a' t
      | .error e => .error e) := by
  intro s
  induction s with
  | nil => intro t a; rfl
  | cons c cs ih =>
    intro t a
    simp only [List.cons_append, remLoop]
    cases remStep P text a c with
    | error e => rfl
    | ok a' => exact ih t a'

theorem remEscape_on : Generated.OMParse.remEscapeAware = true := by decide

/-- characters of a number token as the machine sees them: no quote, backslash, blank or hash -/
def TsChars (s : Str) : Prop := ∀ c ∈ s, c ≠ '"' ∧ c ≠ ' ' ∧ c ≠ '#' ∧ c ≠ '\\'

theorem tsChars_numTok {t : Str} (h : NumTok t) : TsChars t := fun c hc =>
  ⟨numChar_ne (h.2 c hc) (by decide), numChar_ne (h.2 c hc) (by decide), numChar_ne (h.2 c hc) (by decide),
   numChar_ne (h.2 c hc) (by decide)⟩

theorem remLoop_timestamp (P : Params) (text : Str) : ∀ (s : Str), TsChars s → ∀ (ts ev et : Str) (el : Option Labels),
    remLoop P text ⟨.timestamp, false, false, ts, ev, et, el⟩ s = .ok ⟨.timestamp, false, false, s.reverse ++ ts, ev, et, el⟩ := by
  intro s
  induction s with
  | nil => intro _ ts ev et el; rfl
  | cons c cs ih =>
    intro h ts ev et el
    obtain ⟨h1, h2, h3, h4⟩ := h c (by simp)
    have e1 : (c == '"') = false := by simpa using h1
    have e2 : (c == ' ') = false := by simpa using h2
    have e3 : (c == '#') = false := by simpa using h3
    have e4 : (c == '\\') = false := by simpa using h4
    rw [remLoop]
    simp only [remStep, e1, e2, e3, e4, Bool.false_eq_true, ↓reduceIte, Bool.false_and]
    rw [ih (fun d hd => h d (by simp [hd]))]
    simp

theorem remLoop_exvalue (P : Params) (text : Str) : ∀ (s : Str), TsChars s → ∀ (ts ev et : Str) (el : Option Labels),
    remLoop P text ⟨.exemplarvalue, false, false, ts, ev, et, el⟩ s = .ok ⟨.exemplarvalue, false, false, ts, s.reverse ++ ev, et, el⟩ := by
  intro s
  induction s with
  | nil => intro _ ts ev et el; rfl
  | cons c cs ih =>
    intro h ts ev et el
    obtain ⟨h1, h2, _, h4⟩ := h c (by simp)
    have e1 : (c == '"') = false := by simpa using h1
    have e2 : (c == ' ') = false := by simpa using h2
    have e4 : (c == '\\') = false := by simpa using h4
    rw [remLoop]
    simp only [remStep, e1, e2, e4, Bool.false_eq_true, ↓reduceIte, Bool.false_and]
    rw [ih (fun d hd => h d (by simp [hd]))]
    simp

theorem remLoop_exts (P : Params) (text : Str) : ∀ (s : Str), TsChars s → ∀ (ts ev et : Str) (el : Option Labels),
    remLoop P text ⟨.exemplartimestamp, false, false, ts, ev, et, el⟩ s =
      .ok ⟨.exemplartimestamp, false, false, ts, ev, s.reverse ++ et, el⟩ := by
  intro s
  induction s with
  | nil => intro _ ts ev et el; rfl
  | cons c cs ih =>
    intro h ts ev et el
    obtain ⟨h1, _, _, h4⟩ := h c (by simp)
    have e1 : (c == '"') = false := by simpa using h1
    have e4 : (c == '\\') = false := by simpa using h4
    rw [remLoop]
    simp only [remStep, e1, e4, Bool.false_eq_true, ↓reduceIte, Bool.false_and]
    rw [ih (fun d hd => h d (by simp [hd]))]
    simp

/-- in state `exemplarparsedlabels` the machine (escape-aware since bc8d08a) follows exactly the quote/backslash automaton of
`_next_unquoted_char` (`Scanner.run`) and leaves the state at the first '}' outside quotes: a text without one (`noHit`) is
passed -/
theorem remLoop_parsedlabels (P : Params) (text : Str) : ∀ (s : Str) (q o : Bool), noHit rbChs s q o = true →
    ∀ (ts ev et : Str) (el : Option Labels),
    remLoop P text ⟨.exemplarparsedlabels, q, o, ts, ev, et, el⟩ s =
      .ok ⟨.exemplarparsedlabels, (Scanner.run s q o).1, (Scanner.run s q o).2, ts, ev, et, el⟩ := by
  intro s
  induction s with
  | nil => intro q o _ ts ev et el; rfl
  | cons c cs ih =>
    intro q o h ts ev et el
    simp only [noHit, Bool.and_eq_true, Bool.not_eq_true', Bool.and_eq_false_iff, Bool.not_eq_false'] at h
    rw [remLoop, Scanner.run]
    have hq : (if c == '"' && !(Generated.OMParse.remEscapeAware && o) then !q else q) = qStep q o c := by
      simp [remEscape_on, qStep]
    have ho : (c == '\\' && !o) = bsStep o c := by
      unfold bsStep; by_cases hc : (c == '\\') = true <;> simp [hc]
    cases hqs : qStep q o c with
    | true =>
      simp only [remStep, hq, hqs, ho, ↓reduceIte]
      exact ih true _ (by rw [hqs] at h; exact h.2) ts ev et el
    | false =>
      have hne : (c == '}') = false := by
        rcases h.1 with h1 | h1
        · rw [hqs] at h1; cases h1
        · simpa [rbChs] using h1
      simp only [remStep, hq, hqs, ho, Bool.false_eq_true, ↓reduceIte, hne]
      exact ih false _ (by rw [hqs] at h; exact h.2) ts ev et el

/-- the scanner passes the text without meeting a '}' outside quotes and ends where it started -/
def ExPass (s : Str) : Prop := Pass rbChs s

end PromVerif.Lemmas.OMRt
