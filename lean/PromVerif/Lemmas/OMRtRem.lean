/-
C04: `_parse_remaining_text` — the character state machine — on what the exposition writes after the name / label block:
`value[ timestamp][ # {labels} value[ timestamp]]`.

The machine flips its in-quotes flag on EVERY double quote (it does not look at escaping: finding F18), and it skips every
character while the flag is set.  `exSafe`/`exRun` describe a text that the machine passes in state
`exemplarparsedlabels` without meeting a '}' outside quotes and that leaves the flag as it found it; a rendered
exemplar label block is such a text exactly when no label name or value contains a double quote.
-/
import PromVerif.Lemmas.OMRtLabels
import PromVerif.Lemmas.OMRtTs

set_option autoImplicit false

namespace PromVerif.Lemmas.OMRt
open PromVerif.Py PromVerif.Model PromVerif.Model.Escape PromVerif.Model.ParseCore PromVerif.Model.Validation
open PromVerif.Model.OMParse PromVerif.Spec.OMRoundtrip PromVerif.Lemmas.Escape PromVerif.Lemmas.Scanner
open PromVerif.Lemmas.TextParse PromVerif.Model.TextExpo

-- Python slices with non-negative bounds ---------------------------------------------------------------------------------

theorem pyBound_nat (len n : Nat) : pyBound len (n : Int) = min n len := by
  unfold pyBound
  have : ¬ ((n : Int) < 0) := by omega
  simp [this]

theorem pyBound_nat_succ (len n k : Nat) : pyBound len ((n : Int) + (k : Int)) = min (n + k) len := by
  rw [show ((n : Int) + (k : Int)) = ((n + k : Nat) : Int) by simp]
  exact pyBound_nat len (n + k)

theorem pyFrom_nat (s : Str) (n k : Nat) : pyFrom s ((n : Int) + (k : Int)) = s.drop (n + k) := by
  unfold pyFrom
  rw [pyBound_nat_succ]
  by_cases h : n + k ≤ s.length
  · rw [Nat.min_eq_left h]
  · rw [Nat.min_eq_right (by omega), List.drop_of_length_le (by omega), List.drop_of_length_le (by omega)]

theorem pySlice_nat (s : Str) (a k b : Nat) (hb : b ≤ s.length) :
    pySlice s ((a : Int) + (k : Int)) (b : Int) = (s.take b).drop (a + k) := by
  unfold pySlice
  rw [pyBound_nat, pyBound_nat_succ, Nat.min_eq_left hb]
  by_cases h : a + k ≤ s.length
  · rw [Nat.min_eq_left h]
  · rw [Nat.min_eq_right (by omega), List.drop_of_length_le (by simp; omega), List.drop_of_length_le (by simp; omega)]

theorem pySlice_zero_nat (s : Str) (b : Nat) (hb : b ≤ s.length) : pySlice s 0 (b : Int) = s.take b := by
  have := pySlice_nat s 0 0 b hb
  simpa using this

-- `_last_unquoted_char` ----------------------------------------------------------------------------------------------------

theorem escFlags_append (a b : Str) : ∀ (i : Nat) (odd : Bool),
    escFlags (a ++ b) i odd = escFlags a i odd ++ escFlags b (i + a.length) (a.foldl bsStep odd) := by
  induction a with
  | nil => intro i odd; simp [escFlags]
  | cons c cs ih =>
    intro i odd
    simp only [List.cons_append, escFlags, ih, List.length_cons, List.foldl_cons]
    congr 3; omega

theorem escFlags_index (b : Str) : ∀ (i : Nat) (odd : Bool) (x : Nat × Char × Bool), x ∈ escFlags b i odd → i ≤ x.1 ∧ x.2.1 ∈ b := by
  induction b with
  | nil => intro i odd x hx; simp [escFlags] at hx
  | cons c cs ih =>
    intro i odd x hx
    simp only [escFlags, List.mem_cons] at hx
    rcases hx with h | h
    · subst h; simp
    · have := ih (i + 1) _ x h
      exact ⟨by omega, by simp [this.2]⟩

theorem lastGo_skip (chs : Char → Bool) : ∀ (l rest : List (Nat × Char × Bool)),
    (∀ x ∈ l, x.1 ≠ 0 ∧ x.2.1 ≠ '"' ∧ chs x.2.1 = false) →
    lastUnquotedChar.go chs (l ++ rest) false = lastUnquotedChar.go chs rest false := by
  intro l
  induction l with
  | nil => intro rest _; rfl
  | cons x xs ih =>
    intro rest h
    obtain ⟨i, c, esc⟩ := x
    obtain ⟨h1, h2, h3⟩ := h (i, c, esc) (by simp)
    have e1 : (i == 0) = false := by simpa using h1
    have e2 : (c == '"') = false := by simpa using h2
    rw [List.cons_append, lastUnquotedChar.go]
    simp only [e1, Bool.false_eq_true, ↓reduceIte, e2, Bool.false_and, h3, Bool.and_false]
    exact ih rest (fun y hy => h y (by simp [hy]))

/-- scanning from the end: the last `c` with `chs c`, when nothing after it is a quote or wanted -/
theorem lastUnquotedChar_tail (chs : Char → Bool) (a b : Str) (c : Char) (ha : a ≠ []) (hc : chs c = true) (hcq : c ≠ '"')
    (hb : ∀ d ∈ b, d ≠ '"' ∧ chs d = false) :
    lastUnquotedChar (a ++ c :: b) chs = some a.length := by
  unfold lastUnquotedChar
  rw [escFlags_append]
  simp only [escFlags, Nat.zero_add, List.reverse_append, List.reverse_cons, List.append_assoc, List.singleton_append]
  rw [lastGo_skip]
  · rw [lastUnquotedChar.go]
    have e1 : (a.length == 0) = false := by
      have := List.length_pos_iff.mpr ha
      simp; omega
    have e2 : (c == '"') = false := by simpa using hcq
    simp [e1, e2, hc]
  · intro x hx
    have hx' := List.mem_reverse.mp hx
    have := escFlags_index b _ _ x hx'
    refine ⟨by omega, (hb _ this.2).1, (hb _ this.2).2⟩

-- the loop ------------------------------------------------------------------------------------------------------------------

theorem remLoop_append (P : Params) (text : Str) : ∀ (s t : Str) (a : RAcc),
    remLoop P text a (s ++ t) = (match remLoop P text a s with
      | .ok a' => remLoop P text a' t
      | .error e => .error e) := by
  intro s
  induction s with
  | nil => intro t a; rfl
  | cons c cs ih =>
    intro t a
    simp only [List.cons_append, remLoop]
    cases remStep P text a c with
    | error e => rfl
    | ok a' => exact ih t a'

/-- characters of a number token as the machine sees them: no quote, blank or hash -/
def TsChars (s : Str) : Prop := ∀ c ∈ s, c ≠ '"' ∧ c ≠ ' ' ∧ c ≠ '#'

theorem tsChars_numTok {t : Str} (h : NumTok t) : TsChars t := fun c hc =>
  ⟨numChar_ne (h.2 c hc) (by decide), numChar_ne (h.2 c hc) (by decide), numChar_ne (h.2 c hc) (by decide)⟩

theorem remLoop_timestamp (P : Params) (text : Str) : ∀ (s : Str), TsChars s → ∀ (ts ev et : Str) (el : Option Labels),
    remLoop P text ⟨.timestamp, false, ts, ev, et, el⟩ s = .ok ⟨.timestamp, false, s.reverse ++ ts, ev, et, el⟩ := by
  intro s
  induction s with
  | nil => intro _ ts ev et el; rfl
  | cons c cs ih =>
    intro h ts ev et el
    obtain ⟨h1, h2, h3⟩ := h c (by simp)
    have e1 : (c == '"') = false := by simpa using h1
    have e2 : (c == ' ') = false := by simpa using h2
    have e3 : (c == '#') = false := by simpa using h3
    rw [remLoop]
    simp only [remStep, e1, e2, e3, Bool.false_eq_true, ↓reduceIte, Bool.false_and]
    rw [ih (fun d hd => h d (by simp [hd]))]
    simp

theorem remLoop_exvalue (P : Params) (text : Str) : ∀ (s : Str), TsChars s → ∀ (ts ev et : Str) (el : Option Labels),
    remLoop P text ⟨.exemplarvalue, false, ts, ev, et, el⟩ s = .ok ⟨.exemplarvalue, false, ts, s.reverse ++ ev, et, el⟩ := by
  intro s
  induction s with
  | nil => intro _ ts ev et el; rfl
  | cons c cs ih =>
    intro h ts ev et el
    obtain ⟨h1, h2, _⟩ := h c (by simp)
    have e1 : (c == '"') = false := by simpa using h1
    have e2 : (c == ' ') = false := by simpa using h2
    rw [remLoop]
    simp only [remStep, e1, e2, Bool.false_eq_true, ↓reduceIte, Bool.false_and]
    rw [ih (fun d hd => h d (by simp [hd]))]
    simp

theorem remLoop_exts (P : Params) (text : Str) : ∀ (s : Str), TsChars s → ∀ (ts ev et : Str) (el : Option Labels),
    remLoop P text ⟨.exemplartimestamp, false, ts, ev, et, el⟩ s = .ok ⟨.exemplartimestamp, false, ts, ev, s.reverse ++ et, el⟩ := by
  intro s
  induction s with
  | nil => intro _ ts ev et el; rfl
  | cons c cs ih =>
    intro h ts ev et el
    obtain ⟨h1, _, _⟩ := h c (by simp)
    have e1 : (c == '"') = false := by simpa using h1
    rw [remLoop]
    simp only [remStep, e1, Bool.false_eq_true, ↓reduceIte]
    rw [ih (fun d hd => h d (by simp [hd]))]
    simp

/-- in-quotes flag of the exemplar machine after a text (it flips on every double quote) -/
def exRun : Bool → Str → Bool
  | q, [] => q
  | q, c :: cs => exRun (if c == '"' then !q else q) cs

/-- no '}' is met while the flag is clear -/
def exSafe : Bool → Str → Bool
  | _, [] => true
  | q, c :: cs => ((if c == '"' then !q else q) || c != '}') && exSafe (if c == '"' then !q else q) cs

theorem exRun_append (a b : Str) : ∀ q, exRun q (a ++ b) = exRun (exRun q a) b := by
  induction a with
  | nil => intro q; rfl
  | cons c cs ih => intro q; simp only [List.cons_append, exRun, ih]

theorem exSafe_append (a b : Str) : ∀ q, exSafe q (a ++ b) = (exSafe q a && exSafe (exRun q a) b) := by
  induction a with
  | nil => intro q; simp [exSafe, exRun]
  | cons c cs ih => intro q; simp only [List.cons_append, exSafe, exRun, ih, Bool.and_assoc]

theorem remLoop_parsedlabels (P : Params) (text : Str) : ∀ (s : Str) (q : Bool), exSafe q s = true →
    ∀ (ts ev et : Str) (el : Option Labels),
    remLoop P text ⟨.exemplarparsedlabels, q, ts, ev, et, el⟩ s = .ok ⟨.exemplarparsedlabels, exRun q s, ts, ev, et, el⟩ := by
  intro s
  induction s with
  | nil => intro q _ ts ev et el; rfl
  | cons c cs ih =>
    intro q h ts ev et el
    simp only [exSafe, Bool.and_eq_true, Bool.or_eq_true, bne_iff_ne] at h
    rw [remLoop, exRun]
    cases hq : (if c == '"' then !q else q) with
    | true =>
      simp only [remStep, hq, ↓reduceIte]
      exact ih true (by rw [hq] at h; exact h.2) ts ev et el
    | false =>
      have hne : (c == '}') = false := by
        rcases h.1 with h1 | h1
        · rw [hq] at h1; cases h1
        · simpa using h1
      simp only [remStep, hq, Bool.false_eq_true, ↓reduceIte, hne]
      exact ih false (by rw [hq] at h; exact h.2) ts ev et el

-- what the label block of an exemplar looks like to the machine ---------------------------------------------------------------

theorem ex_plain {p : Str} (h : ∀ c ∈ p, c ≠ '"' ∧ c ≠ '}') : exSafe false p = true ∧ exRun false p = false := by
  induction p with
  | nil => exact ⟨rfl, rfl⟩
  | cons c cs ih =>
    obtain ⟨h1, h2⟩ := h c (by simp)
    have e1 : (c == '"') = false := by simpa using h1
    have ih' := ih (fun d hd => h d (by simp [hd]))
    have e2 : (c != '}') = true := by simpa using h2
    simp only [exSafe, exRun, e1, Bool.false_eq_true, ↓reduceIte, Bool.false_or, e2, Bool.true_and]
    exact ih'

theorem ex_inside {p : Str} (h : '"' ∉ p) : exSafe true p = true ∧ exRun true p = true := by
  induction p with
  | nil => exact ⟨rfl, rfl⟩
  | cons c cs ih =>
    have h1 : c ≠ '"' := fun e => h (by simp [e])
    have e1 : (c == '"') = false := by simpa using h1
    have ih' := ih (fun hm => h (by simp [hm]))
    simp only [exSafe, exRun, e1, Bool.false_eq_true, ↓reduceIte, Bool.true_or, Bool.true_and]
    exact ih'

/-- a quoted piece whose content has no double quote -/
theorem ex_quoted {p : Str} (h : '"' ∉ p) : exSafe false ('"' :: (p ++ ['"'])) = true ∧ exRun false ('"' :: (p ++ ['"'])) = false := by
  have hi := ex_inside h
  refine ⟨?_, ?_⟩
  · simp only [exSafe, beq_self_eq_true, ↓reduceIte, Bool.not_false, Bool.true_or, Bool.true_and]
    rw [exSafe_append, hi.1, hi.2]
    simp [exSafe]
  · simp only [exRun, beq_self_eq_true, ↓reduceIte, Bool.not_false]
    rw [exRun_append, hi.2]
    simp [exRun]

def ExPass (s : Str) : Prop := exSafe false s = true ∧ exRun false s = false

theorem exPass_append {a b : Str} (ha : ExPass a) (hb : ExPass b) : ExPass (a ++ b) := by
  refine ⟨?_, ?_⟩
  · rw [exSafe_append, ha.1, ha.2]; simpa using hb.1
  · rw [exRun_append, ha.2]; exact hb.2

theorem exPass_nil : ExPass [] := ⟨rfl, rfl⟩

theorem quote_not_mem_escChar {c : Char} (h : c ≠ '"') : '"' ∉ escChar c := by
  unfold escChar
  by_cases h1 : c = '\\'
  · subst h1; decide
  · by_cases h2 : c = '\n'
    · subst h2; decide
    · simp only [h1, h2, h, ↓reduceIte, List.mem_cons, List.not_mem_nil, or_false]
      exact fun e => h e.symm

/-- escaping adds no double quote to a text that has none -/
theorem quote_not_mem_escape {s : Str} (h : '"' ∉ s) : '"' ∉ escape s := by
  rw [escape_eq_flatMap]
  intro hm
  obtain ⟨c, hc, hq⟩ := List.mem_flatMap.mp hm
  exact quote_not_mem_escChar (fun e => h (e ▸ hc)) hq

theorem exPass_nameTok {legacy : Bool} {k : Str} (h : labelNameOK legacy k = true) (hq : '"' ∉ k) :
    ExPass (escapeLabelName k) := by
  rcases nameTok_cases h with ⟨e, _, hc, _⟩ | e
  · rw [e]
    exact ex_plain (fun c hm => ⟨legacyChar_ne (hc c hm) (by decide), legacyChar_ne (hc c hm) (by decide)⟩)
  · rw [e]
    exact ex_quoted (quote_not_mem_escape hq)

theorem exPass_item {legacy : Bool} {kv : Str × Str} (h : labelNameOK legacy kv.1 = true) (hk : '"' ∉ kv.1) (hv : '"' ∉ kv.2) :
    ExPass (labelItem kv) := by
  rw [labelItem_eq]
  have h1 := exPass_nameTok h hk
  have h2 : ExPass ['='] := ex_plain (by intro c hc; simp at hc; subst hc; exact ⟨by decide, by decide⟩)
  have h3 : ExPass ('"' :: (escape kv.2 ++ ['"'])) := ex_quoted (quote_not_mem_escape hv)
  have := exPass_append h1 (exPass_append h2 h3)
  simpa using this

theorem exPass_tail {legacy : Bool} (l : List (Str × Str)) (h : ∀ kv ∈ l, labelNameOK legacy kv.1 = true)
    (hq : ∀ kv ∈ l, '"' ∉ kv.1 ∧ '"' ∉ kv.2) : ExPass (tailStr l) := by
  induction l with
  | nil => exact exPass_nil
  | cons kv r ih =>
    rw [tailStr_cons]
    have h1 : ExPass [','] := ex_plain (by intro c hc; simp at hc; subst hc; exact ⟨by decide, by decide⟩)
    have h2 := exPass_item (h kv (by simp)) (hq kv (by simp)).1 (hq kv (by simp)).2
    have h3 := ih (fun x hx => h x (by simp [hx])) (fun x hx => hq x (by simp [hx]))
    have := exPass_append h1 (exPass_append h2 h3)
    simpa using this

end PromVerif.Lemmas.OMRt
