/-
Totality of the line/family fold of the OpenMetrics parser model, part 3: the invariant of the fold and the composition.
-/
import PromVerif.Lemmas.OMFold2
import PromVerif.Lemmas.OMGroup

namespace PromVerif.Lemmas.OM
open PromVerif.Py PromVerif.Model.ParseCore PromVerif.Model.Validation PromVerif.Model.OMParse PromVerif.Generated.OMParse

/-- a native-histogram sample as `_parse_nh_sample` returns it -/
def NhLine (s : OSample) : Prop := s.nh.isSome = true

/-- what the fold needs of a tokenised line: its own parsing raised at most ValueError; both readings of a sample
line raise at most ValueError; the native-histogram reading gives a sample carrying a native histogram, the plain
reading a sample with labels and a value -/
def LineOK (P : Params) : Line → Prop
  | .bad e => e = .valueError
  | .sample nh plain => Safe nh ∧ (∀ s, nh = .ok (some s) → NhLine s) ∧ Safe plain ∧ ∀ s, plain = .ok s → Plain s
  | _ => True

def isHist (h : Hdr) : Bool := histTypes.contains (h.typ.getD tUnknown)

def Prefixed (n : Str) (allowed : List Str) : Prop := ∀ x ∈ allowed, ∃ suf, x = n ++ suf

/-- the invariant of the fold -/
structure Inv (P : Params) (st : St) : Prop where
  plain : ∀ s ∈ st.grp.samples, Plain s ∨ NhLine s
  nameNone : st.hdr.name = none → st.hdr.allowed = []
  hist : ∀ n, st.hdr.name = some n → isHist st.hdr = true → Prefixed n st.hdr.allowed ∧ HistOK n st.grp.samples

theorem inv_init (P : Params) : Inv P {} :=
  ⟨(fun s hs => by cases hs), (fun _ => rfl), (fun n hn => by cases hn)⟩

theorem safe_applyMeta (h : Hdr) (kind c rest : Str) : Safe (applyMeta h kind c rest) := by
  intro e he
  rw [applyMeta_eq] at he
  repeat' split at he
  all_goals first
    | (cases he; done)
    | (cases he; rfl; done)

theorem applyMeta_prefix (h h' : Hdr) (kind c rest : Str) (hm : applyMeta h kind c rest = .ok h')
    (hp : isHist h = true → Prefixed c h.allowed) : isHist h' = true → Prefixed c h'.allowed := by
  rw [applyMeta_eq] at hm
  by_cases c1 : (kind == kwHelp) = true
  · rw [if_pos c1] at hm
    by_cases c2 : h.doc.isSome = true
    · rw [if_pos c2] at hm; cases hm
    · rw [if_neg c2] at hm; obtain rfl := Except.ok.inj hm; exact hp
  · rw [if_neg c1] at hm
    by_cases c3 : (kind == kwType) = true
    · rw [if_pos c3] at hm
      by_cases c4 : h.typ.isSome = true
      · rw [if_pos c4] at hm; cases hm
      · rw [if_neg c4] at hm
        by_cases c5 : (rest == untypedName) = true
        · rw [if_pos c5] at hm; cases hm
        · rw [if_neg c5] at hm; obtain rfl := Except.ok.inj hm
          intro _ x hx
          unfold allowedNames at hx
          obtain ⟨suf, _, rfl⟩ := List.mem_map.mp hx
          exact ⟨suf, rfl⟩
    · rw [if_neg c3] at hm
      by_cases c6 : (kind == kwUnit) = true
      · rw [if_pos c6] at hm
        by_cases c7 : h.unit.isSome = true
        · rw [if_pos c7] at hm; cases hm
        · rw [if_neg c7] at hm; obtain rfl := Except.ok.inj hm; exact hp
      · rw [if_neg c6] at hm; cases hm

theorem unknownHdr_ok (s : OSample) (h : Hdr) (hu : unknownHdr s = .ok h) :
    (∃ c, h.name = some c) ∧ h.typ = some tUnknown ∧ h.allowed = [s.name] := by
  unfold unknownHdr at hu
  split at hu
  · cases hu
  · split at hu
    · cases hu
    · obtain rfl := Except.ok.inj hu; exact ⟨⟨_, rfl⟩, rfl, rfl⟩

theorem safe_unknownHdr (s : OSample) : Safe (unknownHdr s) := by
  intro e he
  unfold unknownHdr at he
  split at he
  · rename_i e' h'; cases he; exact unquoteUnescape_safe' _ _ h'
  · split at he
    · cases he; rfl
    · cases he

theorem unknown_not_hist : histTypes.contains tUnknown = false := by decide

/-- what a successful `sampleChecks` (plain sample) went through -/
theorem sampleChecks_ok2 (P : Params) (h : Hdr) (gr gr' : Grp) (s : OSample) (n : Str) (hn : h.name = some n)
    (hs : sampleChecks P h gr s false = .ok gr') : preChecks P n h.typ s = .ok () ∧ groupStep P gr n (h.typ.getD []) s = .ok gr' := by
  rw [sampleChecks_false, hn] at hs
  dsimp only at hs
  cases h1 : preChecks P n h.typ s with
  | error e => rw [h1] at hs; dsimp only at hs; cases hs
  | ok u =>
    rw [h1] at hs; dsimp only at hs
    cases h2 : groupStep P gr n (h.typ.getD []) s with
    | error e => rw [h2] at hs; dsimp only at hs; cases hs
    | ok g2 =>
      rw [h2] at hs; dsimp only at hs
      cases h3 : postChecks P n h.typ s with
      | error e => rw [h3] at hs; dsimp only at hs; cases hs
      | ok u3 => rw [h3] at hs; dsimp only at hs; exact ⟨rfl, hs⟩

/-- a native-histogram sample is appended without any check (`if is_nh: samples.append(sample); continue`, 74e3eee) -/
theorem sampleChecks_nh (P : Params) (h : Hdr) (gr : Grp) (s : OSample) :
    sampleChecks P h gr s true = .ok { gr with samples := gr.samples ++ [s] } := by
  have hflag : nhSkipsChecks = true := by decide
  unfold sampleChecks
  rw [hflag]
  rfl

theorem groupStep_samples_sub (P : Params) (gr gr' : Grp) (n t : Str) (s : OSample) (h : groupStep P gr n t s = .ok gr') :
    (∀ x ∈ gr'.samples, x ∈ gr.samples ∨ x = s) ∧ gr'.groupTs = s.ts := by
  obtain ⟨g, ls, _, _, _, hts, hs⟩ := groupStep_ok P gr gr' n t s h
  refine ⟨?_, hts⟩
  dsimp only at hs
  intro x hx
  rw [hs] at hx
  by_cases c : (!tsEq P s.ts gr.groupTs ||
      !(if gr.group.isSome && gr.group == some g then gr.gtsSamples else []).contains (s.name, sortByKey ls)) = true
  · rw [if_pos c] at hx
    rcases List.mem_append.mp hx with h1 | h1
    · exact Or.inl h1
    · exact Or.inr (List.mem_singleton.mp h1)
  · rw [if_neg c] at hx; exact Or.inl hx

/-- the `le` test of the main loop leaves an `le` label on every `<name>_bucket` sample it lets through -/
theorem preChecks_le (P : Params) (n : Str) (typ : Option Str) (s : OSample) (l : Labels) (hl : s.labels = some l)
    (hpre : preChecks P n typ s = .ok ()) (hname : s.name = n ++ sBucket) : ∃ le, dictGet l sLe = some le :=
  chkLe_ok_has P n s l hl hname.symm (runChecks_ok_mem _ hpre (chkLe P n s) (by simp))

theorem pickSample_lineOK (typ : Option Str) (nh : PyM (Option OSample)) (plain : PyM OSample)
    (hnh : Safe nh) (hp : Safe plain) :
    Safe (pickSample typ nh plain) ∧ ∀ s isNh, pickSample typ nh plain = .ok (s, isNh) →
      (isNh = true ∧ nh = .ok (some s)) ∨ (isNh = false ∧ plain = .ok s) := by
  have hplain : Safe (plain.map (·, false)) ∧ ∀ s isNh, plain.map (·, false) = .ok (s, isNh) → isNh = false ∧ plain = .ok s := by
    cases plain with
    | error e => exact ⟨fun e' he' => by cases he'; exact hp e rfl, fun s isNh h => by cases h⟩
    | ok s' =>
      refine ⟨safe_ok _, fun s isNh h => ?_⟩
      simp only [Except.map] at h
      obtain ⟨rfl, rfl⟩ := Prod.mk.inj (Except.ok.inj h)
      exact ⟨rfl, rfl⟩
  unfold pickSample
  split
  · cases nh with
    | error e => exact ⟨fun e' he' => by cases he'; exact hnh e rfl, fun s isNh h => by cases h⟩
    | ok o =>
      cases o with
      | none => exact ⟨hplain.1, fun s isNh h => Or.inr (hplain.2 s isNh h)⟩
      | some s' =>
        refine ⟨safe_ok _, fun s isNh h => Or.inl ?_⟩
        obtain ⟨rfl, rfl⟩ := Prod.mk.inj (Except.ok.inj h)
        exact ⟨rfl, rfl⟩
  · exact ⟨hplain.1, fun s isNh h => Or.inr (hplain.2 s isNh h)⟩

/-- one line: nothing but ValueError, and the invariant is kept -/
theorem step_safe (P : Params) (hnan : NaNLiteral P) (st : St) (l : Line) (hi : Inv P st) (hl : LineOK P l) :
    Safe (stepLine P st l) ∧ ∀ st', stepLine P st l = .ok st' → Inv P st' := by
  have hflush : Safe (flush P st.glob st.hdr st.grp.samples) :=
    safe_flush P _ _ _ (fun n hn hh => (hi.hist n hn hh).2)
  constructor
  · -- safety
    intro e he
    unfold stepLine at he
    by_cases ce : st.eof = true
    · rw [if_pos ce] at he; cases he; rfl
    · rw [if_neg ce] at he
      cases l with
      | blank => cases he; rfl
      | eof => cases he
      | bad e' => cases he; exact hl
      | metadata kind cand rest =>
        dsimp only at he
        unfold stepMeta at he
        split at he
        · cases he; rfl
        · split at he
          · cases hf : flush P st.glob st.hdr st.grp.samples with
            | error e' => rw [hf] at he; cases he; exact hflush _ hf
            | ok g =>
              rw [hf] at he; dsimp only at he
              split at he
              · rename_i e' hm; cases he; exact safe_applyMeta _ _ _ _ _ hm
              · cases he
          · split at he
            · rename_i e' hm; cases he; exact safe_applyMeta _ _ _ _ _ hm
            · cases he
      | sample nh plain =>
        obtain ⟨hnh, hnl, hsp, hpl⟩ := hl
        obtain ⟨hps, hpo⟩ := pickSample_lineOK st.hdr.typ nh plain hnh hsp
        dsimp only at he
        cases hp : pickSample st.hdr.typ nh plain with
        | error e' => rw [hp] at he; cases he; exact hps _ hp
        | ok p =>
          obtain ⟨s, isNh⟩ := p
          rw [hp] at he; dsimp only at he
          rcases hpo s isNh hp with ⟨rfl, _⟩ | ⟨rfl, hplain⟩
          · -- read as a native histogram: no family switch, no check
            unfold stepSample at he
            simp only [Bool.not_true, Bool.and_false, Bool.false_eq_true, if_false, sampleChecks_nh] at he
            cases he
          · have hP := hpl s hplain
            unfold stepSample at he
            split at he
            · cases hf : flush P st.glob st.hdr st.grp.samples with
              | error e' => rw [hf] at he; cases he; exact hflush _ hf
              | ok g =>
                rw [hf] at he; dsimp only at he
                cases hu : unknownHdr s with
                | error e' => rw [hu] at he; cases he; exact safe_unknownHdr s _ hu
                | ok hd =>
                  rw [hu] at he; dsimp only at he
                  obtain ⟨⟨c, hc⟩, _, _⟩ := unknownHdr_ok s hd hu
                  cases hsc : sampleChecks P hd {} s false with
                  | error e' =>
                    rw [hsc] at he; cases he
                    exact safe_sampleChecks P hd {} s c hc hP hnan _ hsc
                  | ok gr => rw [hsc] at he; cases he
            · rename_i hno
              have hall : st.hdr.allowed.contains s.name = true := by
                cases hc : st.hdr.allowed.contains s.name
                · rw [hc] at hno; simp at hno
                · rfl
              have hname : ∃ n, st.hdr.name = some n := by
                cases hn : st.hdr.name with
                | some n => exact ⟨n, rfl⟩
                | none => rw [hi.nameNone hn] at hall; cases hall
              obtain ⟨n, hn⟩ := hname
              cases hsc : sampleChecks P st.hdr st.grp s false with
              | error e' =>
                rw [hsc] at he; cases he
                exact safe_sampleChecks P st.hdr st.grp s n hn hP hnan _ hsc
              | ok gr => rw [hsc] at he; cases he
  · -- the invariant
    intro st' hs
    obtain ⟨_, hc⟩ := stepLine_ok P st st' l hs
    rcases hc with ⟨_, rfl⟩ | ⟨kind, cand, rest, rfl, hm⟩ | ⟨nh, plain, s, isNh, rfl, hp, hss⟩
    · exact ⟨hi.plain, hi.nameNone, hi.hist⟩
    · rcases stepMeta_ok P st st' _ _ _ hm with ⟨_, g, hd, _, ha, rfl⟩ | ⟨hn, hd, ha, rfl⟩
      · have hnm : hd.name = some cand := by rw [applyMeta_name _ _ _ _ _ ha]
        refine ⟨(fun s hs => by cases hs), (fun h0 => by rw [hnm] at h0; cases h0), ?_⟩
        intro n hn hh
        have : n = cand := by rw [hnm] at hn; exact (Option.some.inj hn).symm
        subst this
        refine ⟨applyMeta_prefix _ _ _ _ _ ha (fun _ x hx => ?_) hh, (fun s hs => by cases hs)⟩
        simp only [List.mem_singleton] at hx
        exact ⟨[], by rw [hx]; simp⟩
      · have hnm : hd.name = some cand := by rw [applyMeta_name _ _ _ _ _ ha]; exact hn
        have hemp : st.grp.samples = [] := by
          cases hsm : st.grp.samples with
          | nil => rfl
          | cons a b =>
            rw [stepMeta_late P st kind cand rest hn (by rw [hsm]; simp)] at hm; cases hm
        refine ⟨hi.plain, (fun h0 => by rw [hnm] at h0; cases h0), ?_⟩
        intro n hn' hh
        have : n = cand := by rw [hnm] at hn'; exact (Option.some.inj hn').symm
        subst this
        refine ⟨applyMeta_prefix _ _ _ _ _ ha (fun h0 => (hi.hist n hn h0).1) hh, ?_⟩
        show HistOK n st.grp.samples
        rw [hemp]; intro s hs; cases hs
    · obtain ⟨hnh, hnl, hsp, hpl⟩ := hl
      obtain ⟨_, hpo⟩ := pickSample_lineOK st.hdr.typ nh plain hnh hsp
      rcases hpo s isNh hp with ⟨rfl, hnhs⟩ | ⟨rfl, hplain⟩
      · -- native histogram sample appended
        have hN := hnl s hnhs
        rcases stepSample_ok P st st' s true hss with ⟨c, _⟩ | ⟨_, gr, hsc, rfl⟩
        · simp at c
        · rw [sampleChecks_nh] at hsc
          obtain rfl := Except.ok.inj hsc
          refine ⟨?_, hi.nameNone, ?_⟩
          · intro x hx
            rcases List.mem_append.mp hx with h1 | h1
            · exact hi.plain x h1
            · rw [List.mem_singleton.mp h1]; exact Or.inr hN
          · intro n hn hh
            obtain ⟨hpre', hok⟩ := hi.hist n hn hh
            refine ⟨hpre', ?_⟩
            intro x hx
            rcases List.mem_append.mp hx with h1 | h1
            · exact hok x h1
            · rw [List.mem_singleton.mp h1]; exact Or.inr hN
      · have hP := hpl s hplain
        rcases stepSample_ok P st st' s false hss with ⟨_, g, hd, gr, _, hu, hsc, rfl⟩ | ⟨hno, gr, hsc, rfl⟩
        · obtain ⟨⟨c, hc⟩, hty, _⟩ := unknownHdr_ok s hd hu
          obtain ⟨_, hgs⟩ := sampleChecks_ok2 P hd {} gr s c hc hsc
          obtain ⟨hsub, hgts⟩ := groupStep_samples_sub P {} gr c _ s hgs
          refine ⟨?_, (fun h0 => by rw [hc] at h0; cases h0), ?_⟩
          · intro x hx
            rcases hsub x hx with h1 | rfl
            · cases h1
            · exact Or.inl hP
          · intro n _ hh
            exfalso
            have : isHist hd = false := by unfold isHist; rw [hty]; exact unknown_not_hist
            rw [this] at hh; cases hh
        · have hall : st.hdr.allowed.contains s.name = true := by
            cases hc : st.hdr.allowed.contains s.name
            · rw [hc] at hno; simp at hno
            · rfl
          have hname : ∃ n, st.hdr.name = some n := by
            cases hn : st.hdr.name with
            | some n => exact ⟨n, rfl⟩
            | none => rw [hi.nameNone hn] at hall; cases hall
          obtain ⟨n, hn⟩ := hname
          obtain ⟨hpre, hgs⟩ := sampleChecks_ok2 P st.hdr st.grp gr s n hn hsc
          obtain ⟨hsub, hgts⟩ := groupStep_samples_sub P st.grp gr n _ s hgs
          refine ⟨?_, hi.nameNone, ?_⟩
          · intro x hx
            rcases hsub x hx with h1 | rfl
            · exact hi.plain x h1
            · exact Or.inl hP
          · intro n' hn' hh
            have : n' = n := by rw [hn] at hn'; exact (Option.some.inj hn').symm
            subst this
            obtain ⟨hpre', hok⟩ := hi.hist n' hn hh
            refine ⟨hpre', ?_⟩
            intro x hx
            rcases hsub x hx with h1 | rfl
            · exact hok x h1
            · refine Or.inl ⟨hP, fun hdrop => ?_⟩
              obtain ⟨suf, hsuf⟩ := hpre' x.name (by simpa using hall)
              have hsb : suf = sBucket := by rw [hsuf] at hdrop; simpa using hdrop
              rw [hsb] at hsuf
              obtain ⟨l, hl⟩ := Option.isSome_iff_exists.mp hP.1
              obtain ⟨le, hle⟩ := preChecks_le P n' st.hdr.typ x l hl hpre hsuf
              exact ⟨hsuf, l, le, hl, hle⟩

/-- the loop -/
theorem run_safe (P : Params) (hnan : NaNLiteral P) : ∀ (ls : List Line) (st : St), Inv P st → (∀ l ∈ ls, LineOK P l) →
    Safe (run P st ls) ∧ ∀ st', run P st ls = .ok st' → Inv P st' := by
  intro ls
  induction ls with
  | nil => intro st hi _; exact ⟨safe_ok _, fun st' h => by cases h; exact hi⟩
  | cons l ls ih =>
    intro st hi hl
    obtain ⟨hs, hinv⟩ := step_safe P hnan st l hi (hl l (List.mem_cons_self ..))
    unfold run
    cases hst : stepLine P st l with
    | error e => exact ⟨fun e' he' => by cases he'; exact hs e hst, fun st' h => by cases h⟩
    | ok st1 => exact ih st1 (hinv st1 hst) (fun l' hl' => hl l' (List.mem_cons_of_mem _ hl'))

/-- the family state machine raises nothing but ValueError -/
theorem assemble_safe (P : Params) (hnan : NaNLiteral P) (ls : List Line) (hl : ∀ l ∈ ls, LineOK P l) : Safe (assemble P ls) := by
  obtain ⟨hs, hinv⟩ := run_safe P hnan ls {} (inv_init P) hl
  unfold assemble
  cases hr : run P {} ls with
  | error e => intro e' he'; cases he'; exact hs e hr
  | ok st =>
    dsimp only
    have hi := hinv st hr
    unfold finish
    cases hf : flush P st.glob st.hdr st.grp.samples with
    | error e =>
      intro e' he'; cases he'
      exact safe_flush P _ _ _ (fun n hn hh => (hi.hist n hn hh).2) e hf
    | ok g =>
      dsimp only
      split
      · exact safe_valueError
      · exact safe_ok _

end PromVerif.Lemmas.OM
