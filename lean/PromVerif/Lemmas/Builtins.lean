/-
Lemmas about `Model/Builtins.lean`: everything the three built-in collectors return is `Built` (a constructor call that
returned + `add_metric` calls), and the exact family a `build` of one of the three value-style classes produces.
-/
import PromVerif.Model.Builtins
import PromVerif.Lemmas.Families

set_option autoImplicit false

namespace PromVerif.Model.Builtins
open PromVerif.Py PromVerif.Model.Families
open PromVerif.Model.Registry (Name MType dSet)
open PromVerif.Generated.Builtins PromVerif.Generated.Families

variable {α : Type}

/-! ### `mapE`, `pick` -/

theorem mapE_ok_mem {β γ ε : Type} (f : β → Except ε γ) : ∀ (l : List β) (r : List γ), mapE f l = .ok r →
    ∀ c, c ∈ r → ∃ b, b ∈ l ∧ f b = .ok c := by
  intro l
  induction l with
  | nil => intro r h c hc; simp only [mapE, Except.ok.injEq] at h; subst h; simp at hc
  | cons b bs ih =>
    intro r h c hc
    simp only [mapE] at h
    split at h
    · cases h
    · next c0 hc0 =>
      split at h
      · cases h
      · next cs hcs =>
        cases h
        rcases List.mem_cons.1 hc with rfl | h2
        · exact ⟨b, List.mem_cons_self, hc0⟩
        · obtain ⟨b', hb, hf⟩ := ih cs hcs c h2
          exact ⟨b', List.mem_cons_of_mem _ hb, hf⟩

theorem pick_mem (locals : List (Option (Fam α))) (idx : List Nat) (r : List (Fam α)) (h : pick locals idx = .ok r)
    (f : Fam α) (hf : f ∈ r) : some f ∈ locals := by
  obtain ⟨i, _, hi⟩ := mapE_ok_mem _ idx r h f hf
  split at hi
  · next g hg =>
    cases hi
    exact List.mem_of_getElem? hg
  · cases hi

/-! ### `build` returns `Built` objects -/

theorem build_built {env : Env} {s : Site} {pfx : Name} {labels : Option (List Name)} {value : Option α}
    {adds : List (List Name × α)} {f : Fam α} (h : build env s pfx labels value adds = .ok f) : Built env f := by
  unfold build at h
  split at h
  · cases h
  · next c _ =>
    split at h
    · cases h
    · next f0 hr =>
      split at h
      · cases h
      · cases h
        exact ⟨c, f0, _, hr, rfl⟩

/-! ### the three value-style classes: what `add_metric(labels, value)` appends -/

/-- the class is Unknown, Counter or Gauge -/
def Simple (cls : Cls) : Prop := cls = .unknown ∨ cls = .counter ∨ cls = .gauge

/-- the suffix of the one sample `add_metric(labels, value)` appends -/
def simpleSuffix : Cls → List Char
  | .unknown => unknownSample
  | .counter => counterTotal
  | _ => gaugeSample

/-- the sample `add_metric(labels, value)` appends (no `created`, timestamp or exemplar is passed) -/
def simpleSample (f : Fam α) (a : List Name × α) : Sample α :=
  ⟨f.name ++ simpleSuffix f.cls, zipDict f.labelnames a.1, .obj a.2, none, none⟩

theorem newSamples_simple (env : Env) (f : Fam α) (cls : Cls) (hc : f.cls = cls) (hs : Simple cls) (a : List Name × α) :
    newSamples env f (addCall cls a.1 a.2) = ([simpleSample f a], none) := by
  rcases hs with rfl | rfl | rfl
  · simp [addCall, newSamples, hc, UnknownMetricFamily.addMetric, simpleSample, simpleSuffix]
  · simp [addCall, newSamples, hc, CounterMetricFamily.addMetric, simpleSample, simpleSuffix]
  · simp [addCall, newSamples, hc, GaugeMetricFamily.addMetric, simpleSample, simpleSuffix]

theorem runAdds_simple (env : Env) (cls : Cls) (hs : Simple cls) (l : List (List Name × α)) : ∀ (f : Fam α), f.cls = cls →
    runAdds env f (l.map fun a => addCall cls a.1 a.2) =
      (⟨f.cls, f.name, f.documentation, f.typ, f.unit, f.samples ++ l.map (simpleSample f), f.labelnames⟩,
        l.map fun _ => none) := by
  induction l with
  | nil => intro f _; simp [runAdds]
  | cons a l ih =>
    intro f hc
    simp only [List.map_cons, runAdds, addMetric, newSamples_simple env f cls hc hs a, Fam.extend]
    have := ih ⟨f.cls, f.name, f.documentation, f.typ, f.unit, f.samples ++ [simpleSample f a], f.labelnames⟩ hc
    rw [this]
    simp [simpleSample, List.append_assoc]

theorem find_none : ∀ (β : Type) (l : List β),
    (l.map fun _ => (none : Option PyErr)).find? Option.isSome = none := by
  intro β l
  induction l with
  | nil => rfl
  | cons _ _ ih => simp [ih]

/-- `build` for a constructor call that returned an object of one of the three value-style classes: the object, plus one
sample per `add_metric` call -/
theorem build_simple (env : Env) (s : Site) (pfx : Name) (labels : Option (List Name)) (value : Option α)
    (adds : List (List Name × α)) (c : Ctor α) (f0 : Fam α) (hc : siteCtor s pfx labels value = .ok c)
    (hr : c.run env = .ok f0) (hs : Simple f0.cls) :
    build env s pfx labels value adds =
      .ok ⟨f0.cls, f0.name, f0.documentation, f0.typ, f0.unit, f0.samples ++ adds.map (simpleSample f0), f0.labelnames⟩ := by
  unfold build
  simp only [hc, hr, runAdds_simple env f0.cls hs adds f0 rfl, find_none _ adds]

/-! ### the constructor calls the built-in collectors make -/

theorem resolve_gauge : resolveType gaugeType = some MType.gauge := by decide
theorem resolve_counter : resolveType counterType = some MType.counter := by decide

/-- `GaugeMetricFamily(n, d, value=v)` -/
def gaugeValueFam (n d : List Char) (v : α) : Fam α :=
  { cls := .gauge, name := n, documentation := d, typ := .gauge, unit := [],
    samples := [⟨n, [], .obj v, none, none⟩], labelnames := [] }

/-- `CounterMetricFamily(n + '_total', d, value=v)` -/
def counterValueFam (n d : List Char) (v : α) : Fam α :=
  { cls := .counter, name := n, documentation := d, typ := .counter, unit := [],
    samples := [⟨n ++ counterTotal, [], .obj v, none, none⟩], labelnames := [] }

/-- `K(n, d, labels=ls)` without samples -/
def emptyFam (cls : Cls) (t : MType) (n d : List Char) (ls : List Name) : Fam α :=
  { cls := cls, name := n, documentation := d, typ := t, unit := [], samples := [], labelnames := ls }

theorem gauge_value_run (env : Env) (n d : List Char) (v : α) :
    (Ctor.gauge n d (some v) none []).run env =
      (match Validation.validateMetricName env.legacy n with
       | .error e => .error e
       | .ok () => .ok (gaugeValueFam n d v)) := by
  simp only [Ctor.run, GaugeMetricFamily.init, familyInit, Metric.init, resolve_gauge]
  cases hv : Validation.validateMetricName env.legacy n with
  | error e => simp [hv]
  | ok u => simp [hv, gaugeValueFam, Fam.extend, GaugeMetricFamily.addMetric, zipDict, mkDict, gaugeSample]

theorem gauge_labels_run (env : Env) (n d : List Char) (ls : List Name) :
    (Ctor.gauge n d (none : Option α) (some ls) []).run env =
      (match Validation.validateMetricName env.legacy n with
       | .error e => .error e
       | .ok () => .ok (emptyFam .gauge .gauge n d ls)) := by
  simp only [Ctor.run, GaugeMetricFamily.init, familyInit, Metric.init, resolve_gauge]
  cases hv : Validation.validateMetricName env.legacy n with
  | error e => simp [hv]
  | ok u => simp [hv, emptyFam]

/-- `CounterMetricFamily.__init__`'s `if name.endswith('_total'): name = name[:-6]` -/
def counterName (n : List Char) : List Char :=
  if counterStrips && pyEndsWith n counterStrip then pySliceNeg n counterStripLen else n

theorem familyInit_counter_value (env : Env) (m d : List Char) (v : α) :
    familyInit env .counter m d counterType [] false none
        (fun self => some (CounterMetricFamily.addMetric self [] v none none none)) =
      (match Validation.validateMetricName env.legacy m with
       | .error e => .error e
       | .ok () => .ok (counterValueFam m d v)) := by
  cases hv : Validation.validateMetricName env.legacy m with
  | error e => simp [familyInit, Metric.init, hv]
  | ok u =>
    simp [familyInit, Metric.init, hv, resolve_counter, counterValueFam, Fam.extend, CounterMetricFamily.addMetric,
      zipDict, mkDict]

theorem familyInit_counter_labels (env : Env) (m d : List Char) (ls : List Name) :
    familyInit env .counter m d counterType [] false (some ls) (fun _ => (none : Option (List (Sample α) × Option PyErr))) =
      (match Validation.validateMetricName env.legacy m with
       | .error e => .error e
       | .ok () => .ok (emptyFam .counter .counter m d ls)) := by
  cases hv : Validation.validateMetricName env.legacy m with
  | error e => simp [familyInit, Metric.init, hv]
  | ok u => simp [familyInit, Metric.init, hv, resolve_counter, emptyFam]

theorem counter_value_run (env : Env) (n d : List Char) (v : α) :
    (Ctor.counter n d (some v) none none [] none).run env =
      (match Validation.validateMetricName env.legacy (counterName n) with
       | .error e => .error e
       | .ok () => .ok (counterValueFam (counterName n) d v)) :=
  familyInit_counter_value env (counterName n) d v

theorem counter_labels_run (env : Env) (n d : List Char) (ls : List Name) :
    (Ctor.counter n d (none : Option α) (some ls) none [] none).run env =
      (match Validation.validateMetricName env.legacy (counterName n) with
       | .error e => .error e
       | .ok () => .ok (emptyFam .counter .counter (counterName n) d ls)) :=
  familyInit_counter_labels env (counterName n) d ls

/-- a name ending in `_total` loses it -/
theorem counterName_total (n : List Char) : counterName (n ++ counterStrip) = n := by
  have h1 : pyEndsWith (n ++ counterStrip) counterStrip = true := by
    simp [pyEndsWith]
  have h2 : pySliceNeg (n ++ counterStrip) counterStripLen = n := by
    simp [pySliceNeg, counterStrip, counterStripLen]
  simp [counterName, h1, h2, counterStrips]

end PromVerif.Model.Builtins
