/-
C11: prefix states; every cut state of one operation and of a whole history is a represented file of a prefix state.
-/
import PromVerif.Lemmas.MmapCuts
namespace PromVerif.Lemmas.Mmap
open PromVerif.Py PromVerif.Model.MmapDict PromVerif.Generated.Mmap
open PromVerif.Spec.MmapDict (Store PrefixFrom)

/-! ## prefix states (spec level) -/

theorem prefixFrom_here (s : Store) (ops : List Spec.MmapDict.Op) : PrefixFrom s ops s :=
  ⟨0, by omega, Or.inl (by simp [Spec.MmapDict.run])⟩

theorem prefixFrom_inflight (s : Store) (op : Spec.MmapDict.Op) (ops : List Spec.MmapDict.Op) (k : Key)
    (hk : op.key? = some k) (hh : s.has k = false) : PrefixFrom s (op :: ops) (s ++ [(k, 0, 0)]) :=
  ⟨0, by omega, Or.inr ⟨k, by simp [hk], by simpa [Spec.MmapDict.run] using hh, by simp [Spec.MmapDict.run]⟩⟩

theorem prefixFrom_later (s : Store) (op : Spec.MmapDict.Op) (ops : List Spec.MmapDict.Op) (r : Store)
    (h : PrefixFrom (Spec.MmapDict.step s op) ops r) : PrefixFrom s (op :: ops) r := by
  obtain ⟨j, hj, h⟩ := h
  refine ⟨j + 1, by simp; omega, ?_⟩
  simpa [Spec.MmapDict.run] using h

theorem toSpec_key (op : Op) : (toSpec op).key? = opKey? op := by cases op <;> rfl

/-! ## one operation: every cut state is the old state, the new state, or the old state plus the new key at zero -/

theorem op_cuts {d es tail} (h : Rep d es tail) (op : Op) (initSize : Nat)
    (hf : d.used + opNeed (keys es) op < 2147483648) :
    ∃ d' tr es' tail', step initSize d op = .ok (d', tr) ∧ Rep d' es' tail' ∧
      triples es' = Spec.MmapDict.step (triples es) (toSpec op) ∧
      d'.used = d.used + opNeed (keys es) op ∧ keys es' = opSeen (keys es) op ∧
      applyEffects (some d.file) tr = some d'.file ∧
      ∀ s ∈ states (some d.file) tr, ∃ file, s = some file ∧
        (CutRep file es ∨ CutRep file es' ∨
          ∃ k, opKey? op = some k ∧ k ∉ keys es ∧ CutRep file (es ++ [fresh k])) := by
  have hold : CutRep d.file es := ⟨_, _, h.file, h.nodup⟩
  cases op with
  | write k v t =>
    by_cases hk : k ∈ keys es
    · obtain ⟨es1, e, es2, rfl, rfl, hn⟩ := split_first es k hk
      have hw := writeValue_present h hn v t
      have hr := (storeValue_ok h hn v t).2
      refine ⟨_, _, _, tail, hw, hr, ?_, by simp [opNeed, opKey?], by simp [opSeen, opKey?], ?_, ?_⟩
      · simp only [Spec.MmapDict.step, toSpec]; exact (write_triples_present es1 es2 e v t hn).symm
      · simp [applyEffects, applyEffect, valueBytes]
      · intro s hs
        simp only [states, applyEffect, Option.map_some, List.mem_cons, List.not_mem_nil, or_false] at hs
        rcases hs with rfl | rfl
        · exact ⟨_, rfl, Or.inl hold⟩
        · exact ⟨_, rfl, Or.inr (Or.inl ⟨_, _, by simpa [valueBytes] using hr.file, hr.nodup⟩)⟩
    · have hb : d.used + entryLen k < 2147483648 := by simpa [opNeed, opKey?, hk] using hf
      obtain ⟨caps, hpw, hneed, hw, hr⟩ := writeValue_absent h k hk v t hb
      obtain ⟨hfin, hcuts⟩ := initTrace_states h k hk caps hb hpw hneed
      refine ⟨_, _, _, _, hw, hr, ?_, by simp [opNeed, opKey?, hk, afterInit], by simp [opSeen, opKey?, hk], ?_, ?_⟩
      · simp [Spec.MmapDict.step, toSpec, write_triples_fresh es k v t hk]
      · rw [applyEffects_append, hfin]; simp [applyEffects, applyEffect]
      · intro s hs
        rcases mem_states_append.mp hs with hs | hs
        · obtain ⟨file, rfl, hc⟩ := hcuts s hs
          rcases hc with hc | hc
          · exact ⟨file, rfl, Or.inl hc⟩
          · exact ⟨file, rfl, Or.inr (Or.inr ⟨k, rfl, hk, hc⟩)⟩
        · rw [hfin] at hs
          simp only [states, applyEffect, Option.map_some, List.mem_cons, List.not_mem_nil, or_false] at hs
          have hge := le_lastCap _ _ hpw
          have hra := afterInit_rep h k hk (lastCap d.capacity caps) hb hneed hge
          rcases hs with rfl | rfl
          · exact ⟨_, rfl, Or.inr (Or.inr ⟨k, rfl, hk, _, _, hra.file, hra.nodup⟩)⟩
          · exact ⟨_, rfl, Or.inr (Or.inl ⟨_, _, hr.file, hr.nodup⟩)⟩
  | read k =>
    by_cases hk : k ∈ keys es
    · obtain ⟨es1, e, es2, rfl, rfl, hn⟩ := split_first es k hk
      have hrd := readValue_present h hn
      refine ⟨d, [], _, tail, by simp [step, hrd, bind, Except.bind], h, ?_, by simp [opNeed, opKey?],
        by simp [opSeen, opKey?], by simp [applyEffects], ?_⟩
      · have : (triples (es1 ++ e :: es2)).has e.key = true := by rw [has_triples]; simp
        simp only [Spec.MmapDict.step, toSpec, Store.touch, this, if_true]
      · intro s hs
        simp only [states, List.mem_singleton] at hs
        exact ⟨_, hs, Or.inl hold⟩
    · have hb : d.used + entryLen k < 2147483648 := by simpa [opNeed, opKey?, hk] using hf
      obtain ⟨caps, hpw, hneed, hrd, hr⟩ := readValue_absent h k hk hb
      obtain ⟨hfin, hcuts⟩ := initTrace_states h k hk caps hb hpw hneed
      refine ⟨_, initTrace d.used k caps, _, _, by simp [step, hrd, bind, Except.bind], hr, ?_,
        by simp [opNeed, opKey?, hk, afterInit], by simp [opSeen, opKey?, hk, fresh], hfin, ?_⟩
      · have : (triples es).has k = false := by rw [has_triples]; simpa using hk
        simp [Spec.MmapDict.step, toSpec, Store.touch, this, fresh]
      · intro s hs
        obtain ⟨file, rfl, hc⟩ := hcuts s hs
        rcases hc with hc | hc
        · exact ⟨file, rfl, Or.inl hc⟩
        · exact ⟨file, rfl, Or.inr (Or.inl hc)⟩
  | reopen =>
    refine ⟨d, [], es, tail, by simp [step, init_reopen h], h, by simp [Spec.MmapDict.step, toSpec],
      by simp [opNeed, opKey?], by simp [opSeen, opKey?], by simp [applyEffects], ?_⟩
    intro s hs
    simp only [states, List.mem_singleton] at hs
    exact ⟨_, hs, Or.inl hold⟩

/-! ## a whole history from an open store -/

theorem need_append (a b : List Op) (seen : List Key) :
    need seen (a ++ b) = need seen a + need (a.foldl opSeen seen) b := by
  induction a generalizing seen with
  | nil => simp [need]
  | cons op a ih => simp [need, ih, Nat.add_assoc]

theorem runFrom_append (initSize : Nat) (a b : List Op) (d : MmapedDict) :
    runFrom initSize d (a ++ b) = (do
      let (d1, t1) ← runFrom initSize d a
      let (d2, t2) ← runFrom initSize d1 b
      .ok (d2, t1 ++ t2)) := by
  induction a generalizing d with
  | nil =>
    simp only [List.nil_append, runFrom, bind, Except.bind, List.nil_append]
    cases runFrom initSize d b <;> rfl
  | cons op a ih =>
    simp only [List.cons_append, runFrom, bind, Except.bind, ih]
    cases step initSize d op with
    | error e => rfl
    | ok r1 =>
      obtain ⟨d1, t1⟩ := r1
      simp only
      cases runFrom initSize d1 a with
      | error e => rfl
      | ok r2 =>
        obtain ⟨d2, t2⟩ := r2
        simp only
        cases runFrom initSize d2 b with
        | error e => rfl
        | ok r3 => simp [List.append_assoc]

theorem cuts_from (initSize : Nat) : ∀ (ops : List Op) {d es tail}, Rep d es tail →
    d.used + need (keys es) ops < 2147483648 →
    ∃ d' tr es' tail', runFrom initSize d ops = .ok (d', tr) ∧ Rep d' es' tail' ∧
      triples es' = Spec.MmapDict.run (triples es) (ops.map toSpec) ∧
      keys es' = ops.foldl opSeen (keys es) ∧ d'.used = d.used + need (keys es) ops ∧
      applyEffects (some d.file) tr = some d'.file ∧
      ∀ s ∈ states (some d.file) tr, ∃ file esx, s = some file ∧ CutRep file esx ∧
        PrefixFrom (triples es) (ops.map toSpec) (triples esx) := by
  intro ops
  induction ops with
  | nil =>
    intro d es tail h _
    refine ⟨d, [], es, tail, rfl, h, rfl, rfl, by simp [need], rfl, ?_⟩
    intro s hs
    simp only [states, List.mem_singleton] at hs
    exact ⟨d.file, es, hs, ⟨_, _, h.file, h.nodup⟩, prefixFrom_here _ _⟩
  | cons op ops ih =>
    intro d es tail h hf
    simp only [need] at hf
    obtain ⟨d1, tr1, es1, tail1, hs1, hr1, ht1, hu1, hk1, hfin1, hcuts1⟩ := op_cuts h op initSize (by omega)
    obtain ⟨d2, tr2, es2, tail2, hs2, hr2, ht2, hk2, hu2, hfin2, hcuts2⟩ := ih hr1 (by rw [hk1, hu1]; omega)
    refine ⟨d2, tr1 ++ tr2, es2, tail2, by simp [runFrom, hs1, hs2, bind, Except.bind], hr2,
      by rw [ht2, ht1]; simp [Spec.MmapDict.run], by rw [hk2, hk1]; simp, by rw [hu2, hu1, hk1]; simp [need]; omega,
      by rw [applyEffects_append, hfin1, hfin2], ?_⟩
    intro s hs
    rcases mem_states_append.mp hs with hs | hs
    · obtain ⟨file, rfl, hc⟩ := hcuts1 s hs
      rcases hc with hc | hc | ⟨k, hk, hn, hc⟩
      · exact ⟨file, es, rfl, hc, prefixFrom_here _ _⟩
      · refine ⟨file, es1, rfl, hc, ?_⟩
        simp only [List.map_cons]
        apply prefixFrom_later
        rw [← ht1]
        exact prefixFrom_here _ _
      · refine ⟨file, es ++ [fresh k], rfl, hc, ?_⟩
        simp only [List.map_cons, triples_append, triples_cons, triples_nil, fresh]
        exact prefixFrom_inflight _ _ _ k (by rw [toSpec_key, hk]) (by rw [has_triples]; simpa using hn)
    · rw [hfin1] at hs
      obtain ⟨file, esx, rfl, hc, hp⟩ := hcuts2 s hs
      refine ⟨file, esx, rfl, hc, ?_⟩
      simp only [List.map_cons]
      apply prefixFrom_later
      rw [← ht1]
      exact hp

end PromVerif.Lemmas.Mmap
