/-
C12, assembly: both normalised collections are unions over (metric, child) of the per-child sets that
`Lemmas/BackendsChild` proves equal.
-/
import PromVerif.Lemmas.BackendsChild

namespace PromVerif.Lemmas.Backends
open PromVerif.Py PromVerif.Generated.Multiprocess
open PromVerif.Model.Metrics (Val Decl Kind Child Action Sample childSamples metricSamples)
open PromVerif.Model.Multiprocess
open PromVerif.Model.Values
open PromVerif.Model.Backends
open PromVerif.Spec.Metrics (Hist)
open PromVerif.Spec.Multiprocess (SFile Contrib value contribs families allContribs)
open PromVerif.Spec.Backends
open PromVerif.Lemmas.Metrics (childOf metricOf RegAbs)
set_option autoImplicit false
set_option linter.unusedSectionVars false

variable {V : Type} [Val V] {B : Type} [DecidableEq B]

/-! ### the in-process collection, child by child -/

theorem metricSamples_flat (d : MDecl V) (h : Hist V) :
    (metricSamples (metricOf d.decl h)).map (fun s => (⟨d.decl.name, s.name, s.labels, s.value⟩ : Flat V))
      = (childList d h).flatMap (inChild d) := by
  unfold metricSamples metricOf childList inChild
  cases hl : d.decl.labelnames.isEmpty with
  | true =>
    have hln : d.decl.labelnames = [] := by simpa using hl
    simp [hl, hln, List.map_map, Function.comp_def]
  | false =>
    simp only [hl, Bool.not_false, if_true, Bool.false_eq_true, if_false, List.map_map, List.flatMap_map]
    rw [List.map_flatMap]
    apply flatMap_congr_mem
    intro kh _
    simp [List.map_map, Function.comp_def]

theorem forall2_length {α β : Type} (P : α → β → Prop) : ∀ (a : List α) (b : List β), Lemmas.Metrics.Forall2 P a b →
    b.length = a.length
  | [], [], _ => rfl
  | _ :: as, _ :: bs, .cons _ h => by simp [forall2_length P as bs h]

/-- the families of the in-process collection with their declarations -/
theorem mem_flatMutex (ds : List (MDecl V)) (hs : List (Hist V)) (x : Flat V) :
    x ∈ flatMutex ds (Model.Metrics.collect (List.zipWith metricOf (ds.map (·.decl)) hs)) ↔
      ∃ (i : Nat) (d : MDecl V) (h : Hist V), ds[i]? = some d ∧ hs[i]? = some h ∧
        ∃ ka ∈ childList d h, x ∈ inChild d ka := by
  unfold flatMutex Model.Metrics.collect
  rw [List.mem_flatMap]
  constructor
  · rintro ⟨df, hdf, hx⟩
    obtain ⟨i, h1, h2⟩ := zip_mem_index _ _ df.1 df.2 hdf
    rw [List.getElem?_map] at h2
    cases hz : (List.zipWith metricOf (ds.map (·.decl)) hs)[i]? with
    | none => rw [hz] at h2; cases h2
    | some m =>
      rw [hz] at h2
      simp only [Option.map_some, Option.some.injEq] at h2
      -- the i-th metric object
      have hdi : (ds.map (·.decl))[i]? = some df.1.decl := by rw [List.getElem?_map, h1]; rfl
      cases hh : hs[i]? with
      | none =>
        have : (List.zipWith metricOf (ds.map (·.decl)) hs)[i]? = none := by
          rw [List.getElem?_eq_none_iff, List.length_zipWith]
          have := List.getElem?_eq_none_iff.mp hh
          omega
        rw [this] at hz; cases hz
      | some h =>
        have := Lemmas.Metrics.zipWith_getElem? metricOf _ hs i _ h hdi hh
        rw [this] at hz
        cases hz
        refine ⟨i, df.1, h, h1, hh, ?_⟩
        obtain ⟨s, hs', rfl⟩ := List.mem_map.mp hx
        have hm : (⟨df.1.decl.name, s.name, s.labels, s.value⟩ : Flat V)
            ∈ (metricSamples (metricOf df.1.decl h)).map (fun s => (⟨df.1.decl.name, s.name, s.labels, s.value⟩ : Flat V)) :=
          List.mem_map.mpr ⟨s, h2 ▸ hs', rfl⟩
        rw [metricSamples_flat] at hm
        exact List.mem_flatMap.mp hm
  · rintro ⟨i, d, h, hd, hh, ka, hka, hx⟩
    have hdi : (ds.map (·.decl))[i]? = some d.decl := by rw [List.getElem?_map, hd]; rfl
    have hz := Lemmas.Metrics.zipWith_getElem? metricOf _ hs i _ h hdi hh
    refine ⟨(d, metricSamples (metricOf d.decl h)), zip_getElem_mem _ _ i _ _ hd (by rw [List.getElem?_map, hz]; rfl), ?_⟩
    have hm : x ∈ (metricSamples (metricOf d.decl h)).map (fun s => (⟨d.decl.name, s.name, s.labels, s.value⟩ : Flat V)) := by
      rw [metricSamples_flat]; exact List.mem_flatMap.mpr ⟨ka, hka, hx⟩
    exact hm

/-! ### the multiprocess collection, child by child -/

theorem mem_convert (ss : List (SKey × V)) (s : OutSample V) :
    s ∈ convert ss ↔ ∃ kv ∈ ss, s = ⟨kv.1.1, pyDict kv.1.2, kv.2⟩ := by
  unfold convert
  rw [List.mem_map]
  constructor
  · rintro ⟨kv, hkv, rfl⟩; exact ⟨kv, hkv, rfl⟩
  · rintro ⟨kv, hkv, rfl⟩; exact ⟨kv, hkv, rfl⟩

/-- **composition**: for a coupled state (`Core`), the collector model succeeds on the directory and, after
`normalise`, reports exactly what the in-process registry (the replay of the same reference histories) collects -/
theorem compose (bo : BOps B) (ds : List (MDecl V)) (bsOf : MDecl V → List B) (hwf : WFAllB bo ds bsOf)
    (hF14 : ∀ d ∈ ds, ∀ bs, d.decl.kind = Kind.histogram bs → Model.Metrics.sumExposed (bs.map (·.1)) = true)
    (hz : ∀ a : V, Val.add Val.zero a = a) (hlt : Val.lt (Val.zero : V) Val.zero = false)
    (pid : Str) (hpid : '_' ∉ pid) (hs : List (Hist V)) (ps : List Params) (st : St V)
    (hc : Core ds pid hs ps st) (hlen : hs.length = ds.length) :
    ∃ out, mpCollect bo st = .ok out ∧
      ∀ kv, kv ∈ normalise ds (neverSet ds hs) (flatMp out) ↔
        kv ∈ normalise ds (neverSet ds hs)
          (flatMutex ds (Model.Metrics.collect (List.zipWith metricOf (ds.map (·.decl)) hs))) := by
  have hwf' := hwf.toWFAll
  have hfiles := files_eq pid ps st hc.vinv hc.psEq
  obtain ⟨out, hm, hnames, _, hfam⟩ := PromVerif.Props.C08.accumulate_eq_dict (voOf V) bo (sfilesOf ps pid st)
    (wfinput bo ds bsOf hwf pid hpid hs ps st hc hlen) (hk_input bo ds bsOf hwf pid hs ps st hc hlen)
  refine ⟨out, by unfold mpCollect; rw [hfiles]; exact hm, ?_⟩
  -- per (metric, child): the per-child sets
  have hchild : ∀ (i : Nat) (d : MDecl V) (h : Hist V), ds[i]? = some d → hs[i]? = some h → ∀ ka ∈ childList d h, ∀ kv,
      (∃ x ∈ mpChild bo (bsOf d) d pid st.disk ka, normOne ds (neverSet ds hs) (mpFlat d x) = some kv) ↔
        (∃ f ∈ inChild d ka, normOne ds (neverSet ds hs) f = some kv) := by
    intro i d h hd hh ka hka kv
    have hdm : d ∈ ds := List.mem_of_getElem? hd
    have hdecl := declOf_self ds d hwf.names hdm
    have hwd := hwf.decls d hdm
    have key := child_norm bo (bsOf d) d hwd (hwf.noPid d hdm) (hF14 d hdm) hz hlt (neverSet ds hs) pid st.disk ka
      (fun _ => neverSet_eq ds hs hwf.names i d h hd hh hwd.wf.lnNodup (hc.keysNodup i d h hd hh) (hc.keylen i d h hd hh) ka hka)
      (fun pos p v hp hv => hc.cells i d h hd hh ka hka pos p v hp hv)
      (fun hmr p hp => hc.tsok i d h hd hh hmr ka hka p hp) kv
    constructor
    · rintro ⟨x, hx, hn⟩
      rw [normOne_known ds _ d (mpFlat d x) rfl hdecl] at hn
      obtain ⟨f, hf, hn'⟩ := key.mp ⟨x, hx, hn⟩
      have hfam' : f.fam = d.decl.name := by
        unfold inChild at hf
        obtain ⟨s, _, rfl⟩ := List.mem_map.mp hf
        rfl
      exact ⟨f, hf, by rw [normOne_known ds _ d f hfam' hdecl]; exact hn'⟩
    · rintro ⟨f, hf, hn⟩
      have hfam' : f.fam = d.decl.name := by
        unfold inChild at hf
        obtain ⟨s, _, rfl⟩ := List.mem_map.mp hf
        rfl
      rw [normOne_known ds _ d f hfam' hdecl] at hn
      obtain ⟨x, hx, hn'⟩ := key.mpr ⟨f, hf, hn⟩
      exact ⟨x, hx, by rw [normOne_known ds _ d (mpFlat d x) rfl hdecl]; exact hn'⟩
  -- the multiprocess collection as a union over (metric, child)
  have hmp : ∀ x : Flat V, x ∈ flatMp out ↔
      ∃ (i : Nat) (d : MDecl V) (h : Hist V), ds[i]? = some d ∧ hs[i]? = some h ∧
        ∃ ka ∈ childList d h, ∃ y ∈ mpChild bo (bsOf d) d pid st.disk ka, x = mpFlat d y := by
    intro x
    unfold flatMp
    rw [List.mem_flatMap]
    constructor
    · rintro ⟨om, hom, hx⟩
      obtain ⟨s, hs', rfl⟩ := List.mem_map.mp hx
      obtain ⟨_, _, ss, hss, hnd, hval⟩ := hfam om hom
      -- the family has a contribution, hence a declaration
      have hfm : om.name ∈ families (sfilesOf ps pid st) := by rw [← hnames]; exact List.mem_map.mpr ⟨om, hom, rfl⟩
      unfold families at hfm
      rw [mem_distinct] at hfm
      obtain ⟨c, hcm, hcn⟩ := List.mem_map.mp hfm
      obtain ⟨i, d, h, hd, hh, hmet, _⟩ := contrib_origin ds hwf' pid hs ps st hc hlen c hcm
      have hname : om.name = d.decl.name := by rw [← hcn, hmet]
      rw [hss] at hs'
      obtain ⟨kv, hkv, rfl⟩ := (mem_convert ss s).mp hs'
      have hget := AL.get?_of_mem ss hnd kv.1 kv.2 hkv
      rw [hval, hname] at hget
      have hdm : d ∈ ds := List.mem_of_getElem? hd
      obtain ⟨ka, hka, hmem⟩ := (family_value bo (bsOf d) d (hwf.decls d hdm) _ pid st.disk h
        (contribs_eq ds hwf' pid hs ps st hc hlen i d h hd hh) (hc.keysNodup i d h hd hh) (hc.keylen i d h hd hh) kv.1 kv.2).mp hget
      exact ⟨i, d, h, hd, hh, ka, hka, kv, hmem, by simp [mpFlat, hname]⟩
    · rintro ⟨i, d, h, hd, hh, ka, hka, y, hy, rfl⟩
      have hdm : d ∈ ds := List.mem_of_getElem? hd
      have hce := contribs_eq ds hwf' pid hs ps st hc hlen i d h hd hh
      have hv := (family_value bo (bsOf d) d (hwf.decls d hdm) _ pid st.disk h hce (hc.keysNodup i d h hd hh)
        (hc.keylen i d h hd hh) y.1 y.2).mpr ⟨ka, hka, hy⟩
      -- the family is reported
      have hne : contribs (sfilesOf ps pid st) d.decl.name ≠ [] := by
        intro e
        rw [value_of_no_contribs _ bo _ _ _ e] at hv
        cases hv
      have hfm : d.decl.name ∈ families (sfilesOf ps pid st) := by
        unfold families
        rw [mem_distinct]
        cases hcs : contribs (sfilesOf ps pid st) d.decl.name with
        | nil => exact absurd hcs hne
        | cons c cs =>
          have hcm : c ∈ contribs (sfilesOf ps pid st) d.decl.name := by rw [hcs]; exact List.mem_cons_self
          have := PromVerif.Props.C08.mem_contribs hcm
          exact List.mem_map.mpr ⟨c, this.1, this.2⟩
      rw [← hnames] at hfm
      obtain ⟨om, hom, hname⟩ := List.mem_map.mp hfm
      obtain ⟨_, _, ss, hss, hnd, hval⟩ := hfam om hom
      refine ⟨om, hom, List.mem_map.mpr ⟨⟨y.1.1, pyDict y.1.2, y.2⟩, ?_, by simp [mpFlat, hname]⟩⟩
      rw [hss, mem_convert]
      refine ⟨y, ?_, rfl⟩
      apply AL.mem_of_get?
      rw [hval, hname]
      exact hv
  intro kv
  unfold normalise
  rw [List.mem_filterMap, List.mem_filterMap]
  constructor
  · rintro ⟨x, hx, hn⟩
    obtain ⟨i, d, h, hd, hh, ka, hka, y, hy, rfl⟩ := (hmp x).mp hx
    obtain ⟨f, hf, hn'⟩ := (hchild i d h hd hh ka hka kv).mp ⟨y, hy, hn⟩
    exact ⟨f, (mem_flatMutex ds hs f).mpr ⟨i, d, h, hd, hh, ka, hka, hf⟩, hn'⟩
  · rintro ⟨f, hf, hn⟩
    obtain ⟨i, d, h, hd, hh, ka, hka, hf'⟩ := (mem_flatMutex ds hs f).mp hf
    obtain ⟨y, hy, hn'⟩ := (hchild i d h hd hh ka hka kv).mpr ⟨f, hf', hn⟩
    exact ⟨mpFlat d y, (hmp _).mpr ⟨i, d, h, hd, hh, ka, hka, y, hy, rfl⟩, hn'⟩

/-- **family metadata**: the collector reports each family once, under a declared metric's name, with that metric's type
and help text; and every declared metric that has a child (or is unlabelled) is reported -/
theorem families_meta (bo : BOps B) (ds : List (MDecl V)) (bsOf : MDecl V → List B) (hwf : WFAllB bo ds bsOf)
    (pid : Str) (hpid : '_' ∉ pid) (hs : List (Hist V)) (ps : List Params) (st : St V)
    (hc : Core ds pid hs ps st) (hlen : hs.length = ds.length) :
    ∃ out, mpCollect bo st = .ok out ∧ (out.map (·.name)).Nodup ∧
      (∀ om ∈ out, ∃ d ∈ ds, om.name = d.decl.name ∧ om.typ = typStr d.decl.kind ∧ om.doc = d.help) ∧
      (∀ (i : Nat) (d : MDecl V) (h : Hist V), ds[i]? = some d → hs[i]? = some h → childList d h ≠ [] →
        ∃ om ∈ out, om.name = d.decl.name) := by
  have hwf' := hwf.toWFAll
  have hfiles := files_eq pid ps st hc.vinv hc.psEq
  obtain ⟨out, hm, hnames, hnd, hfam⟩ := PromVerif.Props.C08.accumulate_eq_dict (voOf V) bo (sfilesOf ps pid st)
    (wfinput bo ds bsOf hwf pid hpid hs ps st hc hlen) (hk_input bo ds bsOf hwf pid hs ps st hc hlen)
  refine ⟨out, by unfold mpCollect; rw [hfiles]; exact hm, by rw [hnames]; exact hnd, ?_, ?_⟩
  · intro om hom
    obtain ⟨hdoc, htyp, _⟩ := hfam om hom
    have hfm : om.name ∈ families (sfilesOf ps pid st) := by rw [← hnames]; exact List.mem_map.mpr ⟨om, hom, rfl⟩
    unfold families at hfm
    rw [mem_distinct] at hfm
    obtain ⟨c, hcm, hcn⟩ := List.mem_map.mp hfm
    obtain ⟨i, d, h, hd, hh, hmet, hin⟩ := contrib_origin ds hwf' pid hs ps st hc hlen c hcm
    have hname : om.name = d.decl.name := by rw [← hcn, hmet]
    have hce := contribs_eq ds hwf' pid hs ps st hc hlen i d h hd hh
    have hne : expContribs d pid st.disk h ≠ [] := fun e => by rw [e] at hin; cases hin
    refine ⟨d, List.mem_of_getElem? hd, hname, ?_, ?_⟩
    · rw [htyp, hname]; exact (typOf_exp _ d pid st.disk h hce hne).1
    · rw [hdoc, hname]
      unfold Spec.Multiprocess.helpOf
      rw [hce]
      cases he : expContribs d pid st.disk h with
      | nil => exact absurd he hne
      | cons c0 cs =>
        have hc0 : c0 ∈ expContribs d pid st.disk h := by rw [he]; exact List.mem_cons_self
        obtain ⟨ka, _, p, hp, rfl⟩ := (mem_expContribs d pid st.disk h c0).mp hc0
        exact (mmapKey_fields d ka.1 p hp).2
  · intro i d h hd hh hcl
    have hdm : d ∈ ds := List.mem_of_getElem? hd
    have hce := contribs_eq ds hwf' pid hs ps st hc hlen i d h hd hh
    cases hl : childList d h with
    | nil => exact absurd hl hcl
    | cons ka rest =>
      have hka : ka ∈ childList d h := by rw [hl]; exact List.mem_cons_self
      cases hp : cellParams d ka.1 with
      | nil => exact absurd hp (cellParams_ne_nil d (hwf.decls d hdm).wf.sup ka.1)
      | cons p _ =>
        have hin : contribOf d pid st.disk p ∈ expContribs d pid st.disk h :=
          (mem_expContribs d pid st.disk h _).mpr ⟨ka, hka, p, by rw [hp]; exact List.mem_cons_self, rfl⟩
        rw [← hce] at hin
        have := PromVerif.Props.C08.mem_contribs hin
        have hfm : d.decl.name ∈ families (sfilesOf ps pid st) := by
          unfold families
          rw [mem_distinct]
          exact List.mem_map.mpr ⟨_, this.1, this.2⟩
        rw [← hnames] at hfm
        obtain ⟨om, hom, hname⟩ := List.mem_map.mp hfm
        exact ⟨om, hom, hname⟩

end PromVerif.Lemmas.Backends
