/-
One family end to end: the record `_read_metrics` builds from the family's contributions, pushed through the branch of
`_accumulate_metrics` its type selects, equals the spec's value function (`Spec.Multiprocess.value`) as a finite map.
-/
import PromVerif.Lemmas.MultiprocessHist
import PromVerif.Lemmas.MultiprocessRead

namespace PromVerif.Model.Multiprocess
open PromVerif.Py PromVerif.Generated.Multiprocess
open PromVerif.Spec.Multiprocess
set_option autoImplicit false

variable {V B : Type}

/-! ### bridging samples and contributions -/

theorem filter_map_bridge {α β κ γ : Type} [DecidableEq κ] (f : α → β) (kf : β → κ) (kf' : α → κ) (g : β → γ)
    (xs : List α) (k : κ) (h : ∀ x ∈ xs, kf (f x) = kf' x) :
    ((xs.map f).filter (fun y => kf y = k)).map g = (xs.filter (fun x => kf' x = k)).map (fun x => g (f x)) := by
  induction xs with
  | nil => rfl
  | cons x r ih =>
    have hx := h x List.mem_cons_self
    have ih' := ih (fun y hy => h y (List.mem_cons_of_mem _ hy))
    simp only [List.map_cons, List.filter_cons, hx]
    split
    · simp [ih']
    · exact ih'

theorem foldl_congr_mem {α β : Type} (f g : β → α → β) (l : List α) (b : β)
    (h : ∀ b x, x ∈ l → f b x = g b x) : l.foldl f b = l.foldl g b := by
  induction l generalizing b with
  | nil => rfl
  | cons x r ih =>
    simp only [List.foldl_cons]
    rw [h b x List.mem_cons_self]
    exact ih _ (fun b' y hy => h b' y (List.mem_cons_of_mem _ hy))

theorem toRSample_value (c : Contrib V) : (toRSample c).value = c.value := by
  unfold toRSample; split <;> rfl

theorem toRSample_ts_gauge (c : Contrib V) (h : c.typ = gaugeType) : (toRSample c).ts = some c.ts := by
  unfold toRSample; simp [h]

theorem plainKeyOf_gauge (c : Contrib V) (h : c.typ = gaugeType) : plainKeyOf (toRSample c) = pidKey c := by
  unfold toRSample plainKeyOf pidKey; simp [h]; rfl

theorem plainKeyOf_other (c : Contrib V) (h : c.typ ≠ gaugeType) : plainKeyOf (toRSample c) = plainKey c := by
  unfold toRSample plainKeyOf plainKey; simp [h]

theorem filter_ne_all {α : Type} (p : α → Bool) (l : List α) (h : ∀ x ∈ l, p x = true) : l.filter p = l :=
  List.filter_eq_self.mpr h

theorem wkeyOf_gauge (c : Contrib V) (h : c.typ = gaugeType) (hp : ∀ l ∈ c.key.labels, l.1 ≠ pidLabel) :
    wkeyOf (toRSample c) = plainKey c := by
  unfold toRSample wkeyOf plainKey
  simp only [h, if_true, List.filter_append]
  have h1 : c.key.labels.filter (fun l => decide (l.1 ≠ pidLabel)) = c.key.labels :=
    filter_ne_all _ _ (fun l hl => by simp [hp l hl])
  rw [h1]
  simp

theorem tsOf_gauge (vo : VOps V) (c : Contrib V) (h : c.typ = gaugeType) : tsOf vo (toRSample c) = normTs vo c.ts := by
  unfold tsOf
  rw [toRSample_ts_gauge c h]
  simp [tsOrZero, normTs]

/-! ### the chain over the ten modes -/

/-- the branch `_accumulate_metrics` takes for each of the ten modes, against what the property says the mode means -/
theorem rule_kind (mode : Str) (h : mode ∈ gaugeModes) :
    (ruleOf mode = some (.setdefaultCmp .lt) ∧ kindOf gaugeType mode = .gaugeMin) ∨
    (ruleOf mode = some (.setdefaultCmp .gt) ∧ kindOf gaugeType mode = .gaugeMax) ∨
    (ruleOf mode = some .plusEq ∧ kindOf gaugeType mode = .gaugeSum) ∨
    (ruleOf mode = some (.tsCmp .lt) ∧ kindOf gaugeType mode = .gaugeMostRecent) ∨
    (ruleOf mode = none ∧ kindOf gaugeType mode = .gaugeAll) := by
  simp only [gaugeModes, List.mem_cons, List.not_mem_nil, or_false] at h
  rcases h with h | h | h | h | h | h | h | h | h | h <;> subst h <;> decide

/-! ### gauges -/

/-- a gauge family: every series `k` holds the aggregate the mode names, over the contributions in listing order -/
theorem family_gauge (vo : VOps V) (bo : BOps B) [DecidableEq B] (mn doc : Str) (mode : Str) (cs : List (Contrib V))
    (hmode : mode ∈ gaugeModes) (hty : ∀ c ∈ cs, c.typ = gaugeType)
    (hpid : ∀ c ∈ cs, ∀ l ∈ c.key.labels, l.1 ≠ pidLabel) :
    ∃ ss, accumulateSamples vo bo ⟨mn, doc, gaugeType, some mode, cs.map toRSample⟩ = .ok ss ∧
      (AL.keys ss).Nodup ∧ ∀ k, AL.get? ss k = gaugeValue vo (kindOf gaugeType mode) cs k := by
  have hts : ∀ s ∈ cs.map toRSample, s.ts.isSome = true := by
    intro s hs
    obtain ⟨c, hc, rfl⟩ := List.mem_map.mp hs
    rw [toRSample_ts_gauge c (hty c hc)]; rfl
  have hok := accumulate_gauge_ok vo bo ⟨mn, doc, gaugeType, some mode, cs.map toRSample⟩ mode rfl rfl hts
  refine ⟨_, hok, gauge_fold_nodup vo _ _, ?_⟩
  intro k
  simp only
  have hw : ∀ c ∈ cs, wkeyOf (toRSample c) = plainKey c := fun c hc => wkeyOf_gauge c (hty c hc) (hpid c hc)
  have hv : (fun (x : Contrib V) => (toRSample x).value) = (fun x => x.value) := funext toRSample_value
  rcases rule_kind mode hmode with ⟨hr, hk⟩ | ⟨hr, hk⟩ | ⟨hr, hk⟩ | ⟨hr, hk⟩ | ⟨hr, hk⟩ <;> rw [hr, hk]
  · rw [gauge_cmp_get?, filter_map_bridge toRSample wkeyOf plainKey (·.value) cs k hw, hv]
    rfl
  · rw [gauge_cmp_get?, filter_map_bridge toRSample wkeyOf plainKey (·.value) cs k hw, hv]
    rfl
  · rw [gauge_sum_get?, filter_map_bridge toRSample wkeyOf plainKey (·.value) cs k hw, hv]
    simp only [gaugeValue, sumValue, valuesFor]
    cases (cs.filter (fun c => plainKey c = k)).map (·.value) <;> rfl
  · rw [gauge_recent_get?]
    have := filter_map_bridge toRSample wkeyOf plainKey (fun s => s) cs k hw
    simp only [List.map_id'] at this
    rw [this, List.foldl_map]
    simp only [gaugeValue, aggMostRecent, List.foldl_map, cmpWith]
    congr 1
    apply foldl_congr_mem
    intro st c hc
    have hc' : c ∈ cs := (List.mem_filter.mp hc).1
    rw [tsOf_gauge vo c (hty c hc'), toRSample_value]
    rfl
  · have hp : ∀ c ∈ cs, plainKeyOf (toRSample c) = pidKey c := fun c hc => plainKeyOf_gauge c (hty c hc)
    rw [gauge_all_get?, filter_map_bridge toRSample plainKeyOf pidKey (·.value) cs k hp, hv]
    rfl

/-! ### counters, summaries and every other non-gauge, non-histogram type -/

theorem family_plain (vo : VOps V) (bo : BOps B) [DecidableEq B] (mn doc typ : Str) (mode : Option Str)
    (cs : List (Contrib V)) (hg : typ ≠ gaugeType) (hh : typ ≠ histogramType) (hty : ∀ c ∈ cs, c.typ ≠ gaugeType) :
    ∃ ss, accumulateSamples vo bo ⟨mn, doc, typ, mode, cs.map toRSample⟩ = .ok ss ∧
      (AL.keys ss).Nodup ∧ ∀ k, AL.get? ss k = sumValue vo cs k := by
  unfold accumulateSamples
  simp only [if_neg hg, if_neg hh]
  refine ⟨_, rfl, plain_fold_nodup vo _, ?_⟩
  intro k
  have hp : ∀ c ∈ cs, plainKeyOf (toRSample c) = plainKey c := fun c hc => plainKeyOf_other c (hty c hc)
  have hv : (fun (x : Contrib V) => (toRSample x).value) = (fun x => x.value) := funext toRSample_value
  rw [plain_fold_get?, filter_map_bridge toRSample plainKeyOf plainKey (·.value) cs k hp, hv]
  unfold sumValue valuesFor
  cases (cs.filter (fun c => plainKey c = k)).map (·.value) <;> rfl

/-! ### histograms -/

/-- the item a contribution is classified as (bounds that do not parse are excluded by hypothesis) -/
def itemOf (bo : BOps B) (c : Contrib V) : HItem V B :=
  match leText c with
  | some t =>
    match bo.parse t with
    | some b => .bucket (withoutLe c) b c.value
    | none => .plain c.key.name c.key.labels c.value
  | none => .plain c.key.name c.key.labels c.value

theorem leLabel_eq : leLabel = "le".toList := by decide

theorem classify_ok (bo : BOps B) (c : Contrib V) (hg : c.typ ≠ gaugeType)
    (hp : ∀ t, leText c = some t → (bo.parse t).isSome = true) :
    classifyHist bo (toRSample c) = .ok (itemOf bo c) := by
  unfold classifyHist itemOf toRSample leText withoutLe
  simp only [if_neg hg, leLabel_eq]
  cases hf : c.key.labels.find? (fun l => decide (l.1 = "le".toList)) with
  | none => simp
  | some l =>
    have := hp l.2 (by unfold leText; rw [hf]; rfl)
    obtain ⟨b, hb⟩ := Option.isSome_iff_exists.mp this
    simp [hb]

theorem items_triples (bo : BOps B) (cs : List (Contrib V))
    (hp : ∀ c ∈ cs, ∀ t, leText c = some t → (bo.parse t).isSome = true) :
    (cs.map (itemOf bo)).filterMap HItem.triple = bucketContribs bo cs := by
  unfold bucketContribs
  induction cs with
  | nil => rfl
  | cons c r ih =>
    have ih' := ih (fun c' hc' => hp c' (List.mem_cons_of_mem _ hc'))
    simp only [List.map_cons, List.filterMap_cons]
    rw [ih']
    unfold itemOf
    cases hl : leText c with
    | none => simp [HItem.triple]
    | some t =>
      obtain ⟨b, hb⟩ := Option.isSome_iff_exists.mp (hp c List.mem_cons_self t hl)
      simp [hb, HItem.triple]

theorem items_pairs (bo : BOps B) (cs : List (Contrib V))
    (hp : ∀ c ∈ cs, ∀ t, leText c = some t → (bo.parse t).isSome = true) :
    (cs.map (itemOf bo)).filterMap HItem.pair = (plainContribs cs).map (fun c => (plainKey c, c.value)) := by
  unfold plainContribs
  induction cs with
  | nil => rfl
  | cons c r ih =>
    have ih' := ih (fun c' hc' => hp c' (List.mem_cons_of_mem _ hc'))
    simp only [List.map_cons, List.filterMap_cons, List.filter_cons]
    rw [ih']
    unfold itemOf
    cases hl : leText c with
    | none => simp [HItem.pair, plainKey]
    | some t =>
      obtain ⟨b, hb⟩ := Option.isSome_iff_exists.mp (hp c List.mem_cons_self t hl)
      simp [hb, HItem.pair]

theorem suffix_eq : bucketSuffix = "_bucket".toList ∧ countSuffix = "_count".toList := by decide

/-- a histogram family: the plain sums overlaid with the merged, sorted, cumulated buckets and `_count` -/
theorem family_hist (vo : VOps V) (bo : BOps B) [DecidableEq B] (mn doc : Str) (mode : Option Str)
    (cs : List (Contrib V)) (hty : ∀ c ∈ cs, c.typ ≠ gaugeType)
    (hp : ∀ c ∈ cs, ∀ t, leText c = some t → (bo.parse t).isSome = true) :
    accumulateSamples vo bo ⟨mn, doc, histogramType, mode, cs.map toRSample⟩
      = .ok (AL.setAll (addAll vo [] ((plainContribs cs).map (fun c => (plainKey c, c.value))))
              (bucketSeries vo bo mn cs)) := by
  unfold accumulateSamples
  have hne : histogramType ≠ gaugeType := by decide
  simp only [if_neg hne, if_true]
  have hm : (cs.map toRSample).mapM (classifyHist bo) = .ok ((cs.map toRSample).map (fun s =>
      match classifyHist (V := V) bo s with | .ok i => i | .error _ => .plain [] [] s.value)) := by
    apply mapM_ok
    intro s hs
    obtain ⟨c, hc, rfl⟩ := List.mem_map.mp hs
    rw [classify_ok bo c (hty c hc) (hp c hc)]
  rw [hm]
  simp only [bind, Except.bind, pure, Except.pure]
  have hitems : (cs.map toRSample).map (fun s =>
      match classifyHist (V := V) bo s with | .ok i => i | .error _ => .plain [] [] s.value) = cs.map (itemOf bo) := by
    rw [List.map_map]
    apply List.map_congr_left
    intro c hc
    simp only [Function.comp, classify_ok bo c (hty c hc) (hp c hc)]
  rw [hitems, hist_items_eq, items_triples bo cs hp, items_pairs bo cs hp]
  rfl

theorem addAll_sumValue (vo : VOps V) (cs : List (Contrib V)) (k : SKey) :
    AL.get? (addAll vo [] (cs.map (fun c => (plainKey c, c.value)))) k = sumValue vo cs k := by
  rw [addAll_get?]
  unfold sumValue valuesFor
  have : ((cs.map (fun c => (plainKey c, c.value))).filter (fun p => p.1 = k)).map (·.2)
      = (cs.filter (fun c => plainKey c = k)).map (·.value) :=
    filter_map_bridge (fun (c : Contrib V) => (plainKey c, c.value)) (·.1) plainKey (·.2) cs k (fun _ _ => rfl)
  rw [this]
  cases (cs.filter (fun c => plainKey c = k)).map (·.value) <;> rfl

/-- … as a finite map, when the bucket and count series have pairwise different keys -/
theorem family_hist_get? (vo : VOps V) (bo : BOps B) [DecidableEq B] (mn doc : Str) (mode : Option Str)
    (cs : List (Contrib V)) (hty : ∀ c ∈ cs, c.typ ≠ gaugeType)
    (hp : ∀ c ∈ cs, ∀ t, leText c = some t → (bo.parse t).isSome = true)
    (hk : (AL.keys (bucketSeries vo bo mn cs)).Nodup) :
    ∃ ss, accumulateSamples vo bo ⟨mn, doc, histogramType, mode, cs.map toRSample⟩ = .ok ss ∧
      (AL.keys ss).Nodup ∧ ∀ k, AL.get? ss k = histValue vo bo mn cs k := by
  refine ⟨_, family_hist vo bo mn doc mode cs hty hp, ?_, ?_⟩
  · exact AL.nodup_setAll _ _ (addAll_nodup vo _ [] (by simp [AL.keys]))
  · intro k
    rw [AL.get?_setAll _ _ hk, addAll_sumValue]
    rfl

end PromVerif.Model.Multiprocess
