/-
Whole histories of the `MultiProcessValue` closure: invariants along `run`, the cell of every identity as a fold of that
identity's own updates (`run_cell`), and the commutative-monoid algebra behind conservation.
-/
import PromVerif.Lemmas.MultiprocessStep
import PromVerif.Spec.Multiprocess

namespace PromVerif.Model.Values
open PromVerif.Py PromVerif.Generated.Multiprocess PromVerif.Model.Multiprocess
open PromVerif.Spec.Multiprocess (Upd ownCell incTotal aggSum)
set_option autoImplicit false

variable {V : Type}

/-! ### `Bound` needs no uniqueness -/

theorem step_bound (vo : VOps V) (st : St V) (op : Op V) (hb : Bound st) : Bound (step vo st op).1 := by
  have hc := checkPid_post vo st hb
  have h1 := hc.bound
  have hw : ∀ (i : Nat) (v : ValueObj V) (x t : V), (checkPid vo st).values[i]? = some v →
      Bound (⟨(checkPid vo st).pid, (checkPid vo st).files, (checkPid vo st).values.set i ⟨v.params, x, t, v.file, v.key⟩,
        writeValue (checkPid vo st).disk v.file v.key x t, (checkPid vo st).actual⟩ : St V) := by
    intro i v x t hv
    have hmv : v ∈ (checkPid vo st).values := List.mem_iff_getElem?.mpr ⟨i, hv⟩
    have hmem : ∀ w ∈ (checkPid vo st).values.set i ⟨v.params, x, t, v.file, v.key⟩,
        w = ⟨v.params, x, t, v.file, v.key⟩ ∨ w ∈ (checkPid vo st).values := by
      intro w hw
      obtain ⟨j, hj⟩ := List.mem_iff_getElem?.mp hw
      rw [List.getElem?_set] at hj
      by_cases hij : i = j
      · simp only [hij, if_true] at hj
        split at hj
        · left; exact (Option.some.inj hj).symm
        · cases hj
      · simp only [hij, if_false] at hj
        exact Or.inr (List.mem_iff_getElem?.mpr ⟨j, hj⟩)
    refine ⟨h1.files, ?_, ?_⟩
    · intro w hw
      rcases hmem w hw with e | e
      · subst e; exact h1.bound v hmv
      · exact h1.bound w e
    · intro w hw
      show (cellGet (writeValue _ v.file v.key x t) w.file w.key).isSome = true
      rw [cellGet_writeValue]
      split
      · rfl
      · rcases hmem w hw with e | e
        · subst e; exact h1.exist v hmv
        · exact h1.exist w e
  cases op with
  | setPid p => exact ⟨hb.files, hb.bound, hb.exist⟩
  | get i => exact h1
  | inc i a =>
    simp only [step]
    cases hv : (checkPid vo st).values[i]? with
    | none => exact h1
    | some v => exact hw i v _ _ hv
  | set i x t =>
    simp only [step]
    cases hv : (checkPid vo st).values[i]? with
    | none => exact h1
    | some v => exact hw i v _ _ hv
  | construct p =>
    have hr := reset_post vo (checkPid vo st).pid (checkPid vo st).files (checkPid vo st).disk p h1.files
    simp only [step]
    refine ⟨hr.files, ?_, ?_⟩
    · intro w hw
      rcases List.mem_append.mp hw with e | e
      · exact h1.bound w e
      · simp only [List.mem_singleton] at e; subst e
        exact ⟨by rw [hr.key, hr.params], by rw [hr.file, hr.params]⟩
    · intro w hw
      rcases List.mem_append.mp hw with e | e
      · exact hr.persists _ _ (h1.exist w e)
      · simp only [List.mem_singleton] at e; subst e
        rw [hr.cached]; rfl

theorem run_cons (vo : VOps V) (st : St V) (op : Op V) (ops : List (Op V)) :
    run vo st (op :: ops) = run vo (step vo st op).1 ops := rfl

theorem run_bound (vo : VOps V) (ops : List (Op V)) (st : St V) (hb : Bound st) : Bound (run vo st ops) := by
  induction ops generalizing st with
  | nil => exact hb
  | cons op r ih => rw [run_cons]; exact ih _ (step_bound vo st op hb)

theorem run_params (vo : VOps V) (ops : List (Op V)) (st : St V) (hb : Bound st) :
    (run vo st ops).values.map (·.params) = st.values.map (·.params) ++ ops.flatMap newParams := by
  induction ops generalizing st with
  | nil => simp [run]
  | cons op r ih =>
    rw [run_cons, ih _ (step_bound vo st op hb), step_params vo st op hb]
    simp [List.append_assoc]

/-- every update of the history goes through the youngest value object on its (prefix, key); `ids` = the (prefix, key)
    of the value objects constructed so far -/
def OpsOK : List (Str × Key) → List (Op V) → Prop
  | _, [] => True
  | ids, o :: r => OpOK ids o ∧ OpsOK (ids ++ (newParams o).map idOf) r

theorem idsOf_step (vo : VOps V) (st : St V) (op : Op V) (hb : Bound st) :
    idsOf (step vo st op).1 = idsOf st ++ (newParams op).map idOf := by
  have := congrArg (List.map idOf) (step_params vo st op hb)
  rw [List.map_map, List.map_append, List.map_map] at this
  exact this

/-- the invariant holds along every history whose updates go through the youngest object on each key -/
theorem run_inv (vo : VOps V) (ops : List (Op V)) (st : St V) (h : Inv vo st)
    (hok : OpsOK (idsOf st) ops) : Inv vo (run vo st ops) := by
  induction ops generalizing st with
  | nil => exact h
  | cons op r ih =>
    rw [run_cons]
    apply ih _ (step_inv vo st op h hok.1)
    rw [idsOf_step vo st op h.bound]
    exact hok.2

/-! ### the log of updates to one series -/

/-- the updates a history issues to the series owned by `(pre, k)` (file prefix and key), each tagged with the identity
    it ran under.  `cur` = current identity, `ps` = parameters of the value objects constructed so far. -/
def updLog (vo : VOps V) (pre : Str) (k : Key) : Str → List Params → List (Op V) → List (Upd V)
  | _, _, [] => []
  | _, ps, .setPid p :: r => updLog vo pre k p ps r
  | cur, ps, .construct p :: r => updLog vo pre k cur (ps ++ [p]) r
  | cur, ps, .inc i a :: r =>
    (match ps[i]? with
      | some p => if idOf p = (pre, k) then [Upd.inc cur a] else []
      | none => []) ++ updLog vo pre k cur ps r
  | cur, ps, .set i x t :: r =>
    (match ps[i]? with
      | some p => if idOf p = (pre, k) then [Upd.set cur x (tsOr0 vo t)] else []
      | none => []) ++ updLog vo pre k cur ps r
  | cur, ps, .get _ :: r => updLog vo pre k cur ps r

/-- one update seen from identity `p`'s own cell -/
def ownStep (vo : VOps V) (p : Str) (cell : V × V) : Upd V → V × V
  | .inc q a => if q = p then (vo.add cell.1 a, vo.zero) else cell
  | .set q v t => if q = p then (v, t) else cell

theorem ownCell_eq (vo : VOps V) (p : Str) (us : List (Upd V)) :
    ownCell vo p us = us.foldl (ownStep vo p) (vo.zero, vo.zero) := by
  unfold ownCell
  congr 1

/-- identities without `_` (so that `<prefix>_<pid>.db` determines both parts) -/
def IdsOK (pid0 : Str) (ops : List (Op V)) : Prop := '_' ∉ pid0 ∧ ∀ p, Op.setPid p ∈ ops → '_' ∉ p

/-- what `process_identifier()` returns after the op -/
def nextActual (pid0 : Str) : Op V → Str
  | .setPid p => p
  | _ => pid0

theorem step_actual (vo : VOps V) (st : St V) (op : Op V) (hb : Bound st) :
    (step vo st op).1.actual = nextActual st.actual op := by
  have := (step_pid vo st op hb).1
  cases op <;> exact this

theorem idsOK_tail (pid0 : Str) (op : Op V) (ops : List (Op V)) (h : IdsOK pid0 (op :: ops)) :
    IdsOK (nextActual pid0 op) ops := by
  constructor
  · cases op with
    | setPid p => exact h.2 p List.mem_cons_self
    | _ => exact h.1
  · intro p hp; exact h.2 p (List.mem_cons_of_mem _ hp)

/-- **every identity's cell is the fold of that identity's own updates**, continuing from what the cell held -/
theorem run_cell (vo : VOps V) (pre : Str) (k : Key) (p : Str) (hp : '_' ∉ p) (ops : List (Op V)) (st : St V)
    (h : Inv vo st) (hok : OpsOK (idsOf st) ops) (hids : IdsOK st.actual ops) :
    cellVal vo (run vo st ops).disk (fileName pre p) k
      = (updLog vo pre k st.actual (st.values.map (·.params)) ops).foldl (ownStep vo p)
          (cellVal vo st.disk (fileName pre p) k) := by
  induction ops generalizing st with
  | nil => rfl
  | cons op r ih =>
    rw [run_cons]
    have hinv1 : Inv vo (step vo st op).1 := step_inv vo st op h hok.1
    have hok1 : OpsOK (idsOf (step vo st op).1) r := by rw [idsOf_step vo st op h.bound]; exact hok.2
    have hact := step_actual vo st op h.bound
    have hids1 : IdsOK (step vo st op).1.actual r := by rw [hact]; exact idsOK_tail _ op r hids
    rw [ih _ hinv1 hok1 hids1, step_cell vo st op h hok.1, step_params vo st op h.bound, hact]
    have hgi : ∀ i, (st.values.map (fun (v : ValueObj V) => v.params))[i]? = st.values[i]?.map (fun (v : ValueObj V) => v.params) :=
      fun i => List.getElem?_map
    cases op with
    | setPid q => simp [updLog, newParams, nextActual]
    | get i => simp [updLog, newParams, nextActual]
    | construct q => simp [updLog, newParams, nextActual]
    | inc i a =>
      simp only [updLog, newParams, nextActual, List.append_nil, List.foldl_append, hgi]
      cases hs : st.values[i]? with
      | none => simp
      | some v =>
        simp only [Option.map_some]
        by_cases hid : idOf v.params = (pre, k)
        · have e1 : filePrefix v.params = pre := congrArg Prod.fst hid
          have e2 : mmapKey v.params = k := congrArg Prod.snd hid
          simp only [hid, if_true, List.foldl_cons, List.foldl_nil, ownStep, e1, e2, and_true]
          by_cases hq : st.actual = p
          · simp [hq]
          · have : fileName pre st.actual ≠ fileName pre p := fun e => hq (fileName_inj _ _ _ _ hids.1 hp e).2
            simp [hq, this]
        · have : ¬ (fileName (filePrefix v.params) st.actual = fileName pre p ∧ mmapKey v.params = k) := by
            rintro ⟨e1, e2⟩
            apply hid
            have := (fileName_inj _ _ _ _ hids.1 hp e1).1
            unfold idOf; rw [this, e2]
          simp [hid, this]
    | set i x t =>
      simp only [updLog, newParams, nextActual, List.append_nil, List.foldl_append, hgi]
      cases hs : st.values[i]? with
      | none => simp
      | some v =>
        simp only [Option.map_some]
        by_cases hid : idOf v.params = (pre, k)
        · have e1 : filePrefix v.params = pre := congrArg Prod.fst hid
          have e2 : mmapKey v.params = k := congrArg Prod.snd hid
          simp only [hid, if_true, List.foldl_cons, List.foldl_nil, ownStep, e1, e2, and_true]
          by_cases hq : st.actual = p
          · simp [hq]
          · have : fileName pre st.actual ≠ fileName pre p := fun e => hq (fileName_inj _ _ _ _ hids.1 hp e).2
            simp [hq, this]
        · have : ¬ (fileName (filePrefix v.params) st.actual = fileName pre p ∧ mmapKey v.params = k) := by
            rintro ⟨e1, e2⟩
            apply hid
            have := (fileName_inj _ _ _ _ hids.1 hp e1).1
            unfold idOf; rw [this, e2]
          simp [hid, this]

/-! ### commutative-monoid algebra -/

theorem foldl_add_shift (vo : VOps V) (hcomm : ∀ a b, vo.add a b = vo.add b a)
    (hassoc : ∀ a b c, vo.add (vo.add a b) c = vo.add a (vo.add b c)) (l : List V) (y a : V) :
    l.foldl vo.add (vo.add y a) = vo.add (l.foldl vo.add y) a := by
  induction l generalizing y with
  | nil => rfl
  | cons x r ih =>
    simp only [List.foldl_cons]
    rw [← ih (vo.add y x)]
    congr 1
    rw [hassoc, hassoc, hcomm a x]

/-- adding `a` at exactly one index of a duplicate-free list adds `a` to the sum -/
theorem sum_point_update (vo : VOps V) (hcomm : ∀ a b, vo.add a b = vo.add b a)
    (hassoc : ∀ a b c, vo.add (vo.add a b) c = vo.add a (vo.add b c))
    (pids : List Str) (hnd : pids.Nodup) (q : Str) (hq : q ∈ pids) (f : Str → V) (a : V) (z : V) :
    (pids.map (fun p => if q = p then vo.add (f p) a else f p)).foldl vo.add z
      = vo.add ((pids.map f).foldl vo.add z) a := by
  induction pids generalizing z with
  | nil => cases hq
  | cons x r ih =>
    rw [List.nodup_cons] at hnd
    simp only [List.map_cons, List.foldl_cons]
    by_cases hx : q = x
    · subst hx
      simp only [if_true]
      have hsame : r.map (fun p => if q = p then vo.add (f p) a else f p) = r.map f := by
        apply List.map_congr_left
        intro p hp
        have : q ≠ p := fun e => hnd.1 (e ▸ hp)
        simp [this]
      rw [hsame, ← hassoc, foldl_add_shift vo hcomm hassoc]
    · simp only [hx, if_false]
      have hq' : q ∈ r := by
        rcases List.mem_cons.mp hq with e | e
        · exact absurd e hx
        · exact e
      exact ih hnd.2 hq' _

/-- the sum over identities of their own cells is the total of all increments, when the log holds only increments and
    every identity in it is listed -/
theorem sum_ownCells (vo : VOps V) (hcomm : ∀ a b, vo.add a b = vo.add b a)
    (hassoc : ∀ a b c, vo.add (vo.add a b) c = vo.add a (vo.add b c))
    (pids : List Str) (hnd : pids.Nodup) (us : List (Upd V))
    (hinc : ∀ u ∈ us, ∃ q a, u = Upd.inc q a ∧ q ∈ pids) (c0 : Str → V × V) :
    (pids.map (fun p => (us.foldl (ownStep vo p) (c0 p)).1)).foldl vo.add vo.zero
      = us.foldl (fun acc u => match u with | .inc _ a => vo.add acc a | .set _ _ _ => acc)
          ((pids.map (fun p => (c0 p).1)).foldl vo.add vo.zero) := by
  induction us generalizing c0 with
  | nil => rfl
  | cons u r ih =>
    obtain ⟨q, a, hu, hq⟩ := hinc u List.mem_cons_self
    subst hu
    simp only [List.foldl_cons]
    rw [ih (fun u' hu' => hinc u' (List.mem_cons_of_mem _ hu')) (fun p => ownStep vo p (c0 p) (Upd.inc q a))]
    congr 1
    have := sum_point_update vo hcomm hassoc pids hnd q hq (fun p => (c0 p).1) a vo.zero
    rw [← this]
    congr 1
    apply List.map_congr_left
    intro p _
    simp only [ownStep]
    split <;> rfl

end PromVerif.Model.Values
