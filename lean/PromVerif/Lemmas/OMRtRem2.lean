/-
C04: `_parse_remaining_text` on `value[ timestamp][ # {labels} value[ timestamp]]`, token level: which loop state the
machine ends in and what `remFinish` is then applied to.
-/
import PromVerif.Lemmas.OMRtRem

set_option autoImplicit false

namespace PromVerif.Lemmas.OMRt
open PromVerif.Py PromVerif.Model PromVerif.Model.Escape PromVerif.Model.ParseCore PromVerif.Model.Validation
open PromVerif.Model.OMParse PromVerif.Spec.OMRoundtrip PromVerif.Lemmas.Escape PromVerif.Lemmas.Scanner
open PromVerif.Lemmas.TextParse PromVerif.Model.TextExpo

/-- the rendered label block of an (already ordered) item list: items joined by ',' -/
def exBlock : List (Str × Str) → Str
  | [] => []
  | kv :: r => labelItem kv ++ tailStr r

/-- ` token` or nothing -/
def optTok : Option Str → Str
  | none => []
  | some t => ' ' :: t

/-- `# {labels} value[ timestamp]` -/
def exTail (L : List (Str × Str)) (etok : Str) (ets : Option Str) : Str :=
  '#' :: ' ' :: '{' :: (exBlock L ++ '}' :: ' ' :: (etok ++ optTok ets))

/-- what precedes the exemplar in the text the machine runs over: nothing, or `timestamp ` -/
def tsPre : Option Str → Str
  | none => []
  | some t => t ++ [' ']

theorem exPass_block {legacy : Bool} (L : List (Str × Str)) (h : ∀ kv ∈ L, labelNameOK legacy kv.1 = true) : ExPass (exBlock L) := by
  cases L with
  | nil => exact ⟨rfl, rfl⟩
  | cons kv r =>
    exact pass_append (item_pass rbChs_safe (by decide) (h kv (by simp)))
      (tail_pass rbChs_safe (by decide) (by decide) r (fun x hx => h x (by simp [hx])))

theorem parseLabels_block {legacy : Bool} (L : List (Str × Str)) (hok : ∀ x ∈ L, labelNameOK legacy x.1 = true)
    (hnd : (L.map (·.1)).Nodup) : parseLabels legacy (exBlock L) true = .ok L := by
  cases L with
  | nil => rfl
  | cons kv r => exact parseLabels_om_items kv r hok hnd

def lbChs : Char → Bool := (· == '{')

theorem plainFor_tschars {chs : Char → Bool} {t : Str} (h : NumTok t) (hc : ∀ c, Lemmas.TextParse.isNumChar c = true → chs c = false) :
    PlainFor chs t := fun c hm =>
  ⟨numChar_ne (h.2 c hm) (by decide), numChar_ne (h.2 c hm) (by decide), hc c (h.2 c hm)⟩

theorem numChar_ne_lb {c : Char} (h : Lemmas.TextParse.isNumChar c = true) : lbChs c = false := by
  have : c ≠ '{' := numChar_ne h (by decide)
  simpa [lbChs] using this

theorem pass_tsPre (ts : Option Str) (hts : ∀ t, ts = some t → NumTok t) : Pass lbChs (tsPre ts ++ ['#', ' ']) := by
  have h2 : Pass lbChs ['#', ' '] := pass_plain (by
    intro c hc; simp at hc; rcases hc with rfl | rfl <;> exact ⟨by decide, by decide, by decide⟩)
  cases ts with
  | none => simpa [tsPre] using h2
  | some t =>
    have h1 : Pass lbChs t := pass_plain (plainFor_tschars (hts t rfl) (fun c hc => numChar_ne_lb hc))
    have h3 : Pass lbChs [' '] := pass_plain (by intro c hc; simp at hc; subst hc; exact ⟨by decide, by decide, by decide⟩)
    have := pass_append (pass_append h1 h3) h2
    simpa [tsPre] using this

/-- the exemplar's labels are cut out of the WHOLE text: first unquoted '{' … last unquoted '}' -/
theorem exemplarLabels_text (P : Params) (ts : Option Str) (hts : ∀ t, ts = some t → NumTok t) (L : List (Str × Str))
    (etok : Str) (hetok : NumTok etok) (ets : Option Str) (hets : ∀ t, ets = some t → NumTok t) :
    exemplarLabels P (tsPre ts ++ exTail L etok ets) = parseLabels P.legacy (exBlock L) true := by
  have hpre := pass_tsPre ts hts
  have htext : tsPre ts ++ exTail L etok ets = (tsPre ts ++ ['#', ' ']) ++ '{' :: (exBlock L ++ '}' :: ' ' :: (etok ++ optTok ets)) := by
    simp [exTail]
  have hls : nextUnquotedChar (tsPre ts ++ exTail L etok ets) (· == '{') = some (tsPre ts ++ ['#', ' ']).length := by
    rw [htext]; exact scan_pass_hit hpre '{' _ (by decide) (by decide)
  have htext2 : tsPre ts ++ exTail L etok ets = (tsPre ts ++ ['#', ' ', '{'] ++ exBlock L) ++ '}' :: (' ' :: (etok ++ optTok ets)) := by
    simp [exTail]
  have htl : ∀ d ∈ ' ' :: (etok ++ optTok ets), d ≠ '"' ∧ (fun c => c == '}') d = false := by
    intro d hd
    have hnum : ∀ t, NumTok t → ∀ c ∈ t, c ≠ '"' ∧ (c == '}') = false := fun t ht c hc =>
      ⟨numChar_ne (ht.2 c hc) (by decide), by simpa using numChar_ne (ht.2 c hc) (by decide)⟩
    rcases List.mem_cons.mp hd with h | h
    · subst h; exact ⟨by decide, by decide⟩
    · rcases List.mem_append.mp h with h | h
      · exact hnum etok hetok d h
      · cases ets with
        | none => simp [optTok] at h
        | some t =>
          rcases List.mem_cons.mp h with h | h
          · subst h; exact ⟨by decide, by decide⟩
          · exact hnum t (hets t rfl) d h
  have hle : lastUnquotedChar (tsPre ts ++ exTail L etok ets) (· == '}') = some (tsPre ts ++ ['#', ' ', '{'] ++ exBlock L).length := by
    rw [htext2]
    exact lastUnquotedChar_tail _ _ _ '}' (by simp) (by decide) (by decide) htl
  unfold exemplarLabels
  rw [hls, hle]
  simp only [optIdx]
  have hlen : (tsPre ts ++ ['#', ' ', '{'] ++ exBlock L).length ≤ (tsPre ts ++ exTail L etok ets).length := by
    rw [htext2]; simp
  have hsl := pySlice_nat (tsPre ts ++ exTail L etok ets) (tsPre ts ++ ['#', ' ']).length 1
    (tsPre ts ++ ['#', ' ', '{'] ++ exBlock L).length hlen
  simp only [Int.ofNat_eq_natCast, Int.cast_ofNat_Int] at hsl ⊢
  rw [hsl]
  congr 1
  rw [htext2, List.take_left]
  rw [show tsPre ts ++ ['#', ' ', '{'] ++ exBlock L = (tsPre ts ++ ['#', ' '] ++ ['{']) ++ exBlock L by simp]
  rw [show (tsPre ts ++ ['#', ' ']).length + 1 = (tsPre ts ++ ['#', ' '] ++ ['{']).length by simp]
  exact List.drop_left

/-- the reversed text of an optional token (the loop keeps its character lists reversed) -/
def revOpt (o : Option Str) : Str := (o.getD []).reverse

/-- the state the machine ends in: with or without an exemplar timestamp -/
def exState : Option Str → RState
  | none => .exemplarvalue
  | some _ => .exemplartimestamp

theorem remLoop_upto_brace (P : Params) (text : Str) (Lp : List (Str × Str)) (hel : exemplarLabels P text = .ok Lp)
    (ts : Option Str) (hts : ∀ t, ts = some t → NumTok t) :
    remLoop P text {} (tsPre ts ++ ['#', ' ', '{']) = .ok ⟨.exemplarparsedlabels, false, false, revOpt ts, [], [], some Lp⟩ := by
  cases ts with
  | none =>
    simp only [tsPre, List.nil_append, remLoop, remStep, hel, revOpt]
    simp
  | some t =>
    simp only [tsPre]
    rw [List.append_assoc, remLoop_append]
    have := remLoop_timestamp P text t (tsChars_numTok (hts t rfl)) [] [] [] none
    rw [show ({} : RAcc) = ⟨.timestamp, false, false, [], [], [], none⟩ from rfl, this]
    simp only [List.cons_append, List.nil_append, remLoop, remStep, hel, revOpt]
    simp

theorem remLoop_after_brace (P : Params) (text : Str) (Lp : List (Str × Str)) (T : Str) (L : List (Str × Str))
    (hpass : ExPass (exBlock L)) (etok : Str) (hetok : NumTok etok) (ets : Option Str) (hets : ∀ t, ets = some t → NumTok t) :
    remLoop P text ⟨.exemplarparsedlabels, false, false, T, [], [], some Lp⟩ (exBlock L ++ '}' :: ' ' :: (etok ++ optTok ets)) =
      .ok ⟨exState ets, false, false, T, etok.reverse, revOpt ets, some Lp⟩ := by
  rw [remLoop_append, remLoop_parsedlabels P text _ false false hpass.1, hpass.2]
  simp only [remLoop, remStep]
  simp only [Bool.false_eq_true, ↓reduceIte, show ('}' == '"') = false from rfl, show (' ' == '"') = false from rfl,
    beq_self_eq_true, show ('}' == '\\') = false from rfl, show (' ' == '\\') = false from rfl, Bool.false_and]
  rw [remLoop_append, remLoop_exvalue P text etok (tsChars_numTok hetok)]
  cases ets with
  | none => simp [optTok, remLoop, exState, revOpt]
  | some t =>
    simp only [optTok, remLoop, remStep]
    have hne : (etok.reverse ++ []).isEmpty = false := by
      have := hetok.1
      cases etok <;> simp at this ⊢
    simp only [Bool.false_eq_true, ↓reduceIte, show (' ' == '"') = false from rfl, beq_self_eq_true, hne, Bool.and_false,
      show (' ' == '\\') = false from rfl, Bool.false_and]
    rw [remLoop_exts P text t (tsChars_numTok (hets t rfl))]
    simp [exState, revOpt]

/-- the machine over `[timestamp ]# {labels} value[ timestamp]` -/
theorem remLoop_exemplar (P : Params) (ts : Option Str) (hts : ∀ t, ts = some t → NumTok t) (L Lp : List (Str × Str))
    (hpass : ExPass (exBlock L)) (etok : Str) (hetok : NumTok etok) (ets : Option Str) (hets : ∀ t, ets = some t → NumTok t)
    (hlab : parseLabels P.legacy (exBlock L) true = .ok Lp) :
    remLoop P (tsPre ts ++ exTail L etok ets) {} (tsPre ts ++ exTail L etok ets) =
      .ok ⟨exState ets, false, false, revOpt ts, etok.reverse, revOpt ets, some Lp⟩ := by
  have hel := exemplarLabels_text P ts hts L etok hetok ets hets
  rw [hlab] at hel
  have hsplit : tsPre ts ++ exTail L etok ets = (tsPre ts ++ ['#', ' ', '{']) ++ (exBlock L ++ '}' :: ' ' :: (etok ++ optTok ets)) := by
    simp [exTail]
  conv => lhs; arg 4; rw [hsplit]
  rw [remLoop_append, remLoop_upto_brace P _ Lp hel ts hts]
  exact remLoop_after_brace P _ Lp _ L hpass etok hetok ets hets

end PromVerif.Lemmas.OMRt
