/-
C01 helper lemmas, part 1: one method call (`callMethod`) — a raising call returns the state it was given, the
outcome does not depend on the value state, a present state stays present — and the child-table operations.
-/
import PromVerif.Model.Metrics

namespace PromVerif.Lemmas.Metrics
open PromVerif.Py PromVerif.Model.Metrics PromVerif.Generated.Metrics

variable {V : Type} [Val V]

/-- a raising method call hands back the state it was given -/
theorem callMethod_frame (d : Decl V) (obs : Bool) (act : Action V) (st : Option (Child V)) (e : PyErr)
    (h : (callMethod d obs act st).2 = .raised e) : (callMethod d obs act st).1 = st := by
  obtain ⟨name, kind, ln⟩ := d
  cases kind <;> cases act <;> simp only [callMethod] at h ⊢ <;> (repeat' split at h) <;> (repeat' split) <;> simp_all

/-- a method call on an object without value state leaves it without value state -/
theorem callMethod_none (d : Decl V) (obs : Bool) (act : Action V) : (callMethod d obs act none).1 = none := by
  obtain ⟨name, kind, ln⟩ := d
  cases kind <;> cases act <;> simp only [callMethod] <;> (repeat' split) <;> simp_all

/-- the state after a method call on an observable metric -/
def upd (d : Decl V) (act : Action V) (c : Child V) : Child V := ((callMethod d true act (some c)).1).getD c

theorem callMethod_some (d : Decl V) (act : Action V) (c : Child V) :
    (callMethod d true act (some c)).1 = some (upd d act c) := by
  obtain ⟨name, kind, ln⟩ := d
  cases kind <;> cases act <;> simp only [upd, callMethod] <;> (repeat' split) <;> simp_all

/-- whether a method call on an observable metric returns depends on the declaration and the call only -/
theorem callMethod_out_indep (d : Decl V) (act : Action V) (c c' : Child V) :
    (callMethod d true act (some c)).2 = (callMethod d true act (some c')).2 := by
  obtain ⟨name, kind, ln⟩ := d
  cases kind <;> cases act <;> simp only [callMethod] <;> (repeat' split) <;> simp_all

/-- the call is accepted by an observable metric declared `d` -/
def okAct (d : Decl V) (act : Action V) : Prop := (callMethod d true act (some (metricInit d.kind))).2 = .ok

theorem okAct_of_ok (d : Decl V) (act : Action V) (c : Child V) (h : (callMethod d true act (some c)).2 = .ok) :
    okAct d act := by
  unfold okAct; rw [callMethod_out_indep d act _ c]; exact h

theorem ok_of_okAct (d : Decl V) (act : Action V) (c : Child V) (h : okAct d act) :
    (callMethod d true act (some c)).2 = .ok := by
  unfold okAct at h; rw [callMethod_out_indep d act _ (metricInit d.kind)]; exact h

theorem callMethod_touch (d : Decl V) (obs : Bool) (st : Option (Child V)) :
    callMethod d obs .touch st = (st, .ok) := by
  simp [callMethod]

theorem okAct_touch (d : Decl V) : okAct d (.touch : Action V) := by
  simp [okAct, callMethod]

theorem upd_touch (d : Decl V) (c : Child V) : upd d .touch c = c := by
  simp [upd, callMethod]

/-- a rejected call does not change the child -/
theorem upd_of_raised (d : Decl V) (act : Action V) (c : Child V) (e : PyErr)
    (h : (callMethod d true act (some c)).2 = .raised e) : upd d act c = c := by
  have := callMethod_frame d true act (some c) e h
  simp [upd, this]

/-! ### child table -/

theorem treplace_self {β : Type} (k : List Str) (v : β) (t : List (List Str × β)) (h : tlookup k t = some v) :
    treplace k v t = t := by
  induction t with
  | nil => rfl
  | cons kv t ih =>
    simp only [tlookup] at h
    simp only [treplace]
    split
    · next hk => simp [hk] at h; subst h; rfl
    · next hk => simp [hk] at h; rw [ih h]

theorem tlookup_map {α β : Type} (f : α → β) (k : List Str) (t : List (List Str × α)) :
    tlookup k (t.map (fun kv => (kv.1, f kv.2))) = (tlookup k t).map f := by
  induction t with
  | nil => rfl
  | cons kv t ih => simp only [List.map, tlookup]; split <;> simp [ih]

theorem treplace_append_new {β : Type} (k : List Str) (v c0 : β) (t : List (List Str × β)) (h : tlookup k t = none) :
    treplace k v (t ++ [(k, c0)]) = t ++ [(k, v)] := by
  induction t with
  | nil => simp [treplace]
  | cons kv t ih =>
    simp only [tlookup] at h
    split at h
    · simp at h
    · next hk => simp [treplace, hk, ih h]

theorem tlookup_append_new {β : Type} (k : List Str) (c0 : β) (t : List (List Str × β)) (h : tlookup k t = none) :
    tlookup k (t ++ [(k, c0)]) = some c0 := by
  induction t with
  | nil => simp [tlookup]
  | cons kv t ih =>
    simp only [tlookup] at h
    split at h
    · simp at h
    · next hk => simp [tlookup, hk, ih h]

omit [Val V] in
theorem terase_cons {β : Type} (k : List Str) (kv : List Str × β) (t : List (List Str × β)) :
    terase k (kv :: t) = if kv.1 = k then terase k t else kv :: terase k t := by
  unfold terase
  by_cases h : kv.1 = k <;> simp [List.filter, h]

omit [Val V] in
theorem tlookup_terase {β : Type} (k k' : List Str) (t : List (List Str × β)) :
    tlookup k' (terase k t) = if k' = k then none else tlookup k' t := by
  induction t with
  | nil => simp [terase, tlookup]
  | cons kv t ih =>
    rw [terase_cons]
    by_cases hk : kv.1 = k
    · rw [if_pos hk, ih]
      by_cases hk' : k' = k
      · simp [hk']
      · have : ¬ kv.1 = k' := fun e => hk' (e ▸ hk)
        simp [hk', tlookup, this]
    · rw [if_neg hk]
      simp only [tlookup]
      by_cases hk' : kv.1 = k'
      · have : ¬ k' = k := fun e => hk (hk' ▸ e)
        simp [hk', this]
      · simp [hk', ih]

theorem getChild_lookup (m : Metric V) (key : List Str) :
    tlookup key (getChild m key).1.children = some (getChild m key).2 := by
  unfold getChild
  split
  · next c hc => exact hc
  · next hc => exact tlookup_append_new key _ _ hc

theorem getChild_decl (m : Metric V) (key : List Str) : (getChild m key).1.decl = m.decl := by
  unfold getChild; split <;> rfl

theorem getChild_single (m : Metric V) (key : List Str) : (getChild m key).1.single = m.single := by
  unfold getChild; split <;> rfl

end PromVerif.Lemmas.Metrics
