/-
C10/C11: the capacity doubling loop (unbounded: zero, one or several doublings) and chains of zero-extending truncates.
-/
import PromVerif.Lemmas.MmapRep
namespace PromVerif.Lemmas.Mmap
open PromVerif.Py PromVerif.Model.MmapDict PromVerif.Generated.Mmap

/-! ## growth: the doubling loop and its truncates -/

@[simp] theorem zeros_length (n : Nat) : (zeros n).length = n := by simp [zeros]

theorem zeros_append (a b : Nat) : zeros a ++ zeros b = zeros (a + b) := by
  simp [zeros, List.replicate_append_replicate]

/-- the capacity after a chain of truncates -/
def lastCap : Nat → List Nat → Nat
  | c, [] => c
  | _, c :: cs => lastCap c cs

theorem le_lastCap : ∀ (cs : List Nat) (c : Nat), List.Pairwise (· ≤ ·) (c :: cs) → c ≤ lastCap c cs := by
  intro cs
  induction cs with
  | nil => intro c _; simp [lastCap]
  | cons c' cs ih =>
    intro c hp
    rw [List.pairwise_cons] at hp
    exact Nat.le_trans (hp.1 c' (by simp)) (ih c' hp.2)

/-- the loop terminates within `fuel = need` iterations from any capacity ≥ 1, returns an increasing chain of capacities
and ends with room for `need` bytes: zero, one or several doublings -/
theorem growCaps_ok : ∀ (fuel cap need : Nat), 1 ≤ cap → need ≤ fuel + cap →
    ∃ caps, growCaps fuel cap need = .ok caps ∧ List.Pairwise (· ≤ ·) (cap :: caps) ∧ need ≤ lastCap cap caps := by
  intro fuel
  induction fuel with
  | zero =>
    intro cap need h1 h2
    exact ⟨[], by simp [growCaps]; omega, by simp, by simp [lastCap]; omega⟩
  | succ fuel ih =>
    intro cap need h1 h2
    by_cases hn : need > cap
    · obtain ⟨caps, hc, hp, hl⟩ := ih (growFactor * cap) need (by simp [growFactor]; omega) (by simp [growFactor]; omega)
      have hgrow : ¬ (growFactor * cap ≤ cap) := by simp [growFactor]; omega
      refine ⟨growFactor * cap :: caps, by simp [growCaps, hn, hgrow, hc, bind, Except.bind], ?_, by simpa [lastCap] using hl⟩
      have hp' := hp
      rw [List.pairwise_cons] at hp ⊢
      refine ⟨?_, hp'⟩
      intro c hcm
      have : cap ≤ growFactor * cap := by simp [growFactor]; omega
      rcases List.mem_cons.mp hcm with rfl | hcm
      · exact this
      · exact Nat.le_trans this (hp.1 c hcm)
    · exact ⟨[], by simp [growCaps, hn], by simp, by simp [lastCap]; omega⟩

theorem foldl_truncate_chain : ∀ (cs : List Nat) (f : Bytes), List.Pairwise (· ≤ ·) (f.length :: cs) →
    cs.foldl truncate f = f ++ zeros (lastCap f.length cs - f.length) := by
  intro cs
  induction cs with
  | nil => intro f _; simp [zeros, lastCap]
  | cons c cs ih =>
    intro f hp
    have hp0 := hp
    rw [List.pairwise_cons] at hp
    have hc : f.length ≤ c := hp.1 c (by simp)
    have hlen : (truncate f c).length = c := by rw [truncate_ge f c hc]; simp; omega
    have hlast : c ≤ lastCap c cs := le_lastCap cs c hp.2
    rw [List.foldl_cons, ih (truncate f c) (by rw [hlen]; exact hp.2), hlen, truncate_ge f c hc, List.append_assoc,
      zeros_append, lastCap]
    congr 2
    omega

theorem foldl_Fx_truncate (cs : List Nat) (s : Fx) :
    cs.foldl Fx.truncate s = ⟨cs.foldl truncate s.file, lastCap s.cap cs, s.trace ++ cs.map Effect.truncate⟩ := by
  induction cs generalizing s with
  | nil => simp [lastCap]
  | cons c cs ih => simp [ih, Fx.truncate, lastCap]

/-- effects replayed on the file system cell: a chain of truncates -/
theorem applyEffects_truncates (cs : List Nat) (f : Bytes) :
    applyEffects (some f) (cs.map Effect.truncate) = some (cs.foldl truncate f) := by
  induction cs generalizing f with
  | nil => simp [applyEffects]
  | cons c cs ih =>
    simp only [List.map_cons, applyEffects, List.foldl_cons, applyEffect, Option.map_some] at ih ⊢
    exact ih _

end PromVerif.Lemmas.Mmap
