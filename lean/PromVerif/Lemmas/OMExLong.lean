/-
"Exemplars over 128 characters are rejected", on TEXT: the remainder `value[ ts] # {block} evalue[ ets]` whose exemplar
label block is rendered from a label list with Σ(len name + len value) > 128 (lengths of the UNESCAPED names and
values) makes `_parse_remaining_text` — hence `_parse_sample` — raise.  Uses the C04 lemmas that the exemplar state
machine reaches `remFinish` with exactly the rendered labels (Lemmas/OMRtRem*.lean).

Also here: a tokenised line whose plain reading fails and whose native-histogram reading is `None` is rejected by the
family state machine wherever it stands, and the bridge from a line of the text to the tokenised list.
-/
import PromVerif.Lemmas.OMDupLabel
import PromVerif.Lemmas.OMRtRem3
import PromVerif.Lemmas.OMRtSample2
import PromVerif.Lemmas.OMRun

set_option autoImplicit false

namespace PromVerif.Lemmas.OMRt
open PromVerif.Py PromVerif.Model PromVerif.Model.Escape PromVerif.Model.ParseCore PromVerif.Model.Validation
open PromVerif.Model.OMParse PromVerif.Lemmas.Escape PromVerif.Lemmas.Scanner
open PromVerif.Lemmas.TextParse PromVerif.Model.TextExpo PromVerif.Generated.OMParse
open PromVerif.Spec.OMRules (isError)

/-- once the state machine has the exemplar's labels, a total length above the limit raises -/
theorem remFinish_too_long (P : Params) (val : Num) (a : RAcc) (ls : Labels) (hl : a.exLabels = some ls)
    (hlen : 128 < labelsLen ls) : isError (remFinish P val a) = true := by
  unfold remFinish
  cases runChecks _ with
  | error e => rfl
  | ok u =>
    dsimp only
    cases parseTimestamp P a.timestamp.reverse with
    | error e => rfl
    | ok ts =>
      dsimp only
      rw [hl]
      dsimp only
      have : remExemplar P a ls = .error .valueError := by
        unfold remExemplar
        dsimp only
        have hc : natCmp exemplarLenCmp (ls.map (fun kv => kv.1.length + kv.2.length)).sum exemplarMaxLen = true := by
          show decide ((ls.map (fun kv => kv.1.length + kv.2.length)).sum > 128) = true
          exact decide_eq_true hlen
        rw [if_pos hc]
      rw [this]; rfl

/-- **the remainder of a sample line with an over-long exemplar is rejected** -/
theorem parseRemaining_ex_too_long (P : Params) (vtok : Str) (hv : NumTok vtok) (ts : Option Str) (hts : ∀ t, ts = some t → NumTok t)
    (kv : Str × Str) (r : List (Str × Str)) (hok : ∀ x ∈ kv :: r, labelNameOK P.legacy x.1 = true)
    (hnd : ((kv :: r).map (·.1)).Nodup) (etok : Str) (hetok : NumTok etok) (ets : Option Str) (hets : ∀ t, ets = some t → NumTok t)
    (hlen : 128 < labelsLen (kv :: r)) :
    isError (parseRemainingText P (remText vtok ts (some (kv :: r, etok, ets)))) = true := by
  have hlab : parseLabels P.legacy (exBlock (kv :: r)) true = .ok (kv :: r) := parseLabels_om_items kv r hok hnd
  rw [parseRemaining_ex P vtok hv ts hts (kv :: r) (kv :: r) (exPass_block _ hok) etok hetok ets hets hlab]
  cases P.parseValue vtok with
  | error e => rfl
  | ok val => exact remFinish_too_long P val _ (kv :: r) rfl hlen

theorem sampleOf_isError (P : Params) (n : Str) (L : List (Str × Str)) (rem : Str)
    (h : isError (parseRemainingText P rem) = true) : isError (sampleOf P n L rem) = true := by
  unfold sampleOf
  cases hr : parseRemainingText P rem with
  | error e => rfl
  | ok x => rw [hr] at h; cases h

/-! ## from a line of the text to the document -/

/-- a sample line whose plain reading fails and that the native-histogram detector declines fails in every state -/
theorem stepLine_plain_error (P : Params) (st : St) (e : PyErr) : isError (stepLine P st (.sample (.ok none) (.error e))) = true := by
  have hp : pickSample st.hdr.typ (.ok none) (.error e : PyM OSample) = .error e := by
    unfold pickSample
    split <;> rfl
  unfold stepLine
  split
  · rfl
  · dsimp only
    rw [hp]
    rfl

/-- a line of the text that fails in every state makes the document fail -/
theorem omParse_bad_line (P : Params) (text line : Str) (hmem : line ∈ docLines text)
    (h : ∀ st, isError (stepLine P st (parseLine P line)) = true) : isError (omParse P text) = true := by
  unfold omParse
  have : parseLine P line ∈ (docLines text).map (parseLine P) := List.mem_map.mpr ⟨line, hmem, rfl⟩
  obtain ⟨pre, post, hsplit⟩ := List.append_of_mem this
  rw [hsplit]
  apply PromVerif.Lemmas.OM.isError_of_suffix
  intro st
  exact PromVerif.Lemmas.OM.isError_of_bad_line P _ post h st

/-- the tokenised form of a sample line (one that is neither blank, `# EOF`, nor a `#` line) -/
theorem parseLine_sample (P : Params) (line : Str) (c : Char) (t : Str) (hl : line = c :: t) (hc : c ≠ '#') :
    parseLine P line = .sample (parseNhLine P line) (parseSample P line) := by
  subst hl
  unfold parseLine
  have h1 : (c :: t).isEmpty = false := rfl
  have h2 : ((c :: t) == sEOF) = false := by
    have : sEOF = '#' :: cs!" EOF" := rfl
    rw [this]
    simp [hc]
  have h3 : ((c :: t).head? == some '#') = false := by simp [hc]
  simp only [h1, h2, h3, Bool.false_eq_true, if_false]

theorem parseNhLine_none (P : Params) (line : Str) (h : nhDetect line = .ok none) : parseNhLine P line = .ok none := by
  have hs : (lookupTable tHistogram typeSuffixes).isSome = true := by decide
  obtain ⟨suff, hsuff⟩ := Option.isSome_iff_exists.mp hs
  unfold parseNhLine
  rw [hsuff]
  dsimp only
  unfold parseNhSample
  rw [h]

end PromVerif.Lemmas.OMRt
