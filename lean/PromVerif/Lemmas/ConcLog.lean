/-
Lemmas/ConcLog — consequences of a linearisable log (`LogOk`), pure list reasoning:
reads return held values, held values are the prefix folds of the applied updates, and under an inflationary
update family everything logged is monotone in log order.
-/
import PromVerif.Lemmas.ConcData

set_option linter.unusedSectionVars false

namespace PromVerif.Model.Conc

section
variable {U V : Type}

/-- the values a cell goes through when `us` (newest first) are applied to `v0`, newest first -/
def prefixFolds (f : U → V → V) (v0 : V) : List U → List V
  | [] => [v0]
  | u :: us => (u :: us).foldr f v0 :: prefixFolds f v0 us

theorem held_eq_prefixFolds (f : U → V → V) (v0 : V) (l : List (Ev U V)) (h : LogOk f v0 l) :
    heldValues v0 l = prefixFolds f v0 (applied l) := by
  induction l with
  | nil => rfl
  | cons e l ih =>
    cases e with
    | rd i v => simp only [heldValues, applied]; exact ih h.2
    | wr i u v =>
      simp only [heldValues, applied, prefixFolds, List.foldr_cons]
      rw [ih h.2, h.1]; rfl

theorem cur_mem_held (f : U → V → V) (v0 : V) (l : List (Ev U V)) (h : LogOk f v0 l) :
    cur f v0 l ∈ heldValues v0 l := by
  rw [held_eq_prefixFolds f v0 l h]
  unfold cur
  cases applied l with
  | nil => simp [prefixFolds]
  | cons u us => simp [prefixFolds]

/-- every value a read returned is a value the cell held -/
theorem reads_mem_held (f : U → V → V) (v0 : V) (l : List (Ev U V)) (h : LogOk f v0 l) :
    ∀ v ∈ readsOf l, v ∈ heldValues v0 l := by
  induction l with
  | nil => intro v hv; cases hv
  | cons e l ih =>
    cases e with
    | rd i w =>
      intro v hv
      simp only [readsOf, List.mem_cons] at hv
      simp only [heldValues]
      rcases hv with rfl | hv
      · rw [h.1]; exact cur_mem_held f v0 l h.2
      · exact ih h.2 v hv
    | wr i u w =>
      intro v hv
      simp only [readsOf] at hv
      simp only [heldValues]
      exact List.mem_cons_of_mem _ (ih h.2 v hv)

/-- every store wrote its update applied to some earlier value of the cell -/
theorem writes_spec (f : U → V → V) (v0 : V) (l : List (Ev U V)) (h : LogOk f v0 l) :
    ∀ e ∈ writesOf l, ∃ w, e.2.2 = f e.2.1 w := by
  induction l with
  | nil => intro e he; cases he
  | cons e l ih =>
    cases e with
    | rd i w => intro e he; exact ih h.2 e he
    | wr i u w =>
      intro e he
      simp only [writesOf, List.mem_cons] at he
      rcases he with rfl | he
      · exact ⟨_, h.1⟩
      · exact ih h.2 e he

/-! ### monotone update families -/

variable (le : V → V → Prop) (hrefl : ∀ a, le a a) (htrans : ∀ a b c, le a b → le b c → le a c)

include hrefl htrans in
theorem vals_le_cur (f : U → V → V) (hinfl : ∀ u v, le v (f u v)) (v0 : V) (l : List (Ev U V))
    (h : LogOk f v0 l) : ∀ e ∈ l, le e.val (cur f v0 l) := by
  induction l with
  | nil => intro e he; cases he
  | cons e l ih =>
    cases e with
    | rd i w =>
      intro e he
      simp only [List.mem_cons] at he
      have hc : cur f v0 (.rd i w :: l) = cur f v0 l := rfl
      rw [hc]
      rcases he with rfl | he
      · simp only [Ev.val]; rw [h.1]; exact hrefl _
      · exact ih h.2 e he
    | wr i u w =>
      intro e he
      simp only [List.mem_cons] at he
      have hc : cur f v0 (.wr i u w :: l) = f u (cur f v0 l) := rfl
      rw [hc]
      rcases he with rfl | he
      · simp only [Ev.val]; rw [h.1]; exact hrefl _
      · exact htrans _ _ _ (ih h.2 e he) (hinfl _ _)

theorem readsOf_sub (l : List (Ev U V)) : ∀ v ∈ readsOf l, ∃ e ∈ l, e.val = v := by
  induction l with
  | nil => intro v hv; cases hv
  | cons e l ih =>
    cases e with
    | rd i w =>
      intro v hv
      simp only [readsOf, List.mem_cons] at hv
      rcases hv with rfl | hv
      · exact ⟨_, List.mem_cons_self, rfl⟩
      · obtain ⟨e, he, hv'⟩ := ih v hv; exact ⟨e, List.mem_cons_of_mem _ he, hv'⟩
    | wr i u w =>
      intro v hv
      obtain ⟨e, he, hv'⟩ := ih v hv; exact ⟨e, List.mem_cons_of_mem _ he, hv'⟩

theorem writesOf_sub (l : List (Ev U V)) : ∀ e ∈ writesOf l, ∃ e' ∈ l, e'.val = e.2.2 := by
  induction l with
  | nil => intro v hv; cases hv
  | cons e l ih =>
    cases e with
    | rd i w =>
      intro v hv
      obtain ⟨e, he, hv'⟩ := ih v hv; exact ⟨e, List.mem_cons_of_mem _ he, hv'⟩
    | wr i u w =>
      intro v hv
      simp only [writesOf, List.mem_cons] at hv
      rcases hv with rfl | hv
      · exact ⟨_, List.mem_cons_self, rfl⟩
      · obtain ⟨e, he, hv'⟩ := ih v hv; exact ⟨e, List.mem_cons_of_mem _ he, hv'⟩

include hrefl htrans in
/-- successive reads (the list is newest first) never go down -/
theorem reads_monotone (f : U → V → V) (hinfl : ∀ u v, le v (f u v)) (v0 : V) (l : List (Ev U V))
    (h : LogOk f v0 l) : (readsOf l).Pairwise (fun newer older => le older newer) := by
  induction l with
  | nil => exact List.Pairwise.nil
  | cons e l ih =>
    cases e with
    | rd i w =>
      simp only [readsOf]
      refine List.Pairwise.cons ?_ (ih h.2)
      intro v hv
      obtain ⟨e, he, rfl⟩ := readsOf_sub l v hv
      rw [h.1]
      exact vals_le_cur le hrefl htrans f hinfl v0 l h.2 e he
    | wr i u w => exact ih h.2

end
end PromVerif.Model.Conc
