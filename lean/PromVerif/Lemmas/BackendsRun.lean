/-
C12: the coupling invariant `Core` holds after the constructors (`core_init`), is preserved by every call of a history
without remove/clear (`step_core`), hence holds after the whole history (`run_core`) — for the reference histories of
exactly the calls the in-memory run accepted.
-/
import PromVerif.Lemmas.BackendsCore

namespace PromVerif.Lemmas.Backends
open PromVerif.Py PromVerif.Generated.Multiprocess
open PromVerif.Model.Metrics (Val Decl Kind Child Action Addr Reg callMethod tlookup)
open PromVerif.Model.Multiprocess
open PromVerif.Model.Values
open PromVerif.Model.Backends
open PromVerif.Spec.Metrics (Hist appendAt modifyNth recordOn record keyOf)
open PromVerif.Spec.Backends (hasSet)
open PromVerif.Lemmas.Metrics (childOf metricOf RegAbs recAll upd)
set_option autoImplicit false
set_option linter.unusedSectionVars false

variable {V : Type} [Val V]

/-! ### list facts -/

theorem modifyNth_congr {α : Type} (f g : α → α) : ∀ (i : Nat) (l : List α) (x : α), l[i]? = some x → f x = g x →
    modifyNth f i l = modifyNth g i l
  | _, [], _, h, _ => by simp at h
  | 0, y :: ys, x, h, e => by simp at h; subst h; simp [modifyNth, e]
  | i + 1, y :: ys, x, h, e => by
    simp at h
    simp [modifyNth, modifyNth_congr f g i ys x h e]

theorem modifyNth_modifyNth {α : Type} (f g : α → α) : ∀ (i : Nat) (l : List α),
    modifyNth g i (modifyNth f i l) = modifyNth (fun x => g (f x)) i l
  | _, [] => by simp [modifyNth]
  | 0, y :: ys => by simp [modifyNth]
  | i + 1, y :: ys => by simp [modifyNth, modifyNth_modifyNth f g i ys]

theorem modifyNth_id {α : Type} (f : α → α) : ∀ (i : Nat) (l : List α) (x : α), l[i]? = some x → f x = x →
    modifyNth f i l = l
  | _, [], _, h, _ => by simp at h
  | 0, y :: ys, x, h, e => by simp at h; subst h; simp [modifyNth, e]
  | i + 1, y :: ys, x, h, e => by
    simp at h
    simp [modifyNth, modifyNth_id f i ys x h e]

theorem appendAt_fresh_snoc (key : List Str) (a : Action V) (t : List (List Str × List (Action V)))
    (h : key ∉ t.map (·.1)) : appendAt key a (t ++ [(key, [])]) = appendAt key a t := by
  induction t with
  | nil => simp [appendAt]
  | cons x xs ih =>
    simp only [List.map_cons, List.mem_cons, not_or] at h
    have hne : ¬ x.1 = key := fun e => h.1 e.symm
    simp [appendAt, hne, ih h.2]

theorem tlookup_none_iff {β : Type} (k : List Str) (t : List (List Str × β)) : tlookup k t = none ↔ k ∉ t.map (·.1) := by
  induction t with
  | nil => simp [tlookup]
  | cons x xs ih =>
    simp only [tlookup, List.map_cons, List.mem_cons, not_or]
    by_cases e : x.1 = k
    · simp [e]
    · simp only [e, if_false, ih]
      constructor
      · intro h; exact ⟨fun e' => e e'.symm, h⟩
      · intro h; exact h.2

theorem tlookup_some_mem {β : Type} (k : List Str) (t : List (List Str × β)) (v : β) (h : tlookup k t = some v) :
    (k, v) ∈ t := by
  induction t with
  | nil => simp [tlookup] at h
  | cons x xs ih =>
    simp only [tlookup] at h
    by_cases e : x.1 = k
    · simp only [e, if_true, Option.some.injEq] at h
      subst h; subst e
      exact List.mem_cons_self
    · simp only [e, if_false] at h
      exact List.mem_cons_of_mem _ (ih h)

/-! ### `Core` only looks at the children -/

theorem core_of_childList_eq (ds : List (MDecl V)) (pid : Str) (hs hs' : List (Hist V)) (ps : List Params) (st : St V)
    (hc : Core ds pid hs ps st)
    (he : ∀ (i : Nat) (d : MDecl V) (h' : Hist V), ds[i]? = some d → hs'[i]? = some h' →
      ∃ h, hs[i]? = some h ∧ childList d h' = childList d h) : Core ds pid hs' ps st := by
  refine ⟨hc.vinv, hc.psEq, hc.known, ?_, ?_, ?_, ?_, ?_⟩
  · intro i d h' hd hh'
    obtain ⟨h, hh, e⟩ := he i d h' hd hh'
    rw [e]; exact hc.order i d h hd hh
  · intro i d h' hd hh'
    obtain ⟨h, hh, e⟩ := he i d h' hd hh'
    rw [e]; exact hc.keylen i d h hd hh
  · intro i d h' hd hh'
    obtain ⟨h, hh, e⟩ := he i d h' hd hh'
    rw [e]; exact hc.keysNodup i d h hd hh
  · intro i d h' hd hh'
    obtain ⟨h, hh, e⟩ := he i d h' hd hh'
    rw [e]; exact hc.cells i d h hd hh
  · intro i d h' hd hh'
    obtain ⟨h, hh, e⟩ := he i d h' hd hh'
    rw [e]; exact hc.tsok i d h hd hh

/-! ### after the constructors -/

/-- the value objects an unlabelled metric's constructor creates -/
def block (d : MDecl V) : List Params := if d.decl.labelnames.isEmpty then cellParams d [] else []

theorem initParams_eq (ds : List (MDecl V)) : initParams ds = ds.flatMap block := rfl

theorem block_metric (d : MDecl V) (p : Params) (h : p ∈ block d) : p.metric = d.decl.name := by
  unfold block at h
  split at h
  · exact (cellParams_metric d [] p h).1
  · cases h

theorem block_keys_nodup (d : MDecl V) (hw : WFDecl d) : ((block d).map mmapKey).Nodup := by
  unfold block
  split
  · next h => exact cellKeys_nodup d hw [] (by have : d.decl.labelnames = [] := by simpa using h
                                               rw [this])
  · simp

theorem init_keys_nodup : ∀ (ds : List (MDecl V)), (ds.map (fun d => d.decl.name)).Nodup → (∀ d ∈ ds, WFDecl d) →
    ((ds.flatMap block).map mmapKey).Nodup
  | [], _, _ => by simp
  | d :: ds, hn, hw => by
    simp only [List.map_cons, List.nodup_cons] at hn
    simp only [List.flatMap_cons, List.map_append, List.nodup_append]
    refine ⟨block_keys_nodup d (hw d List.mem_cons_self),
      init_keys_nodup ds hn.2 (fun d' hd' => hw d' (List.mem_cons_of_mem _ hd')), ?_⟩
    intro a ha b hb e
    obtain ⟨p, hp, rfl⟩ := List.mem_map.mp ha
    obtain ⟨q, hq, rfl⟩ := List.mem_map.mp hb
    obtain ⟨d', hd', hq'⟩ := List.mem_flatMap.mp hq
    have := congrArg Key.metric e
    simp only [mmapKey] at this
    rw [block_metric d p hp, block_metric d' q hq'] at this
    exact hn.1 (this ▸ List.mem_map.mpr ⟨d', hd', rfl⟩)

theorem filter_init : ∀ (ds : List (MDecl V)) (i : Nat) (d : MDecl V), (ds.map (fun d => d.decl.name)).Nodup →
    ds[i]? = some d → (ds.flatMap block).filter (fun p => decide (p.metric = d.decl.name)) = block d
  | [], _, _, _, h => by simp at h
  | d0 :: ds, 0, d, hn, h => by
    simp at h; subst h
    simp only [List.map_cons, List.nodup_cons] at hn
    rw [List.flatMap_cons, List.filter_append,
      filter_eq_self_of _ _ (fun x hx => by simpa using block_metric d0 x hx),
      filter_eq_nil_of _ _ (fun x hx => by
        obtain ⟨d', hd', hx'⟩ := List.mem_flatMap.mp hx
        simp only [decide_eq_false_iff_not]
        rw [block_metric d' x hx']
        intro e
        exact hn.1 (e ▸ List.mem_map.mpr ⟨d', hd', rfl⟩))]
    simp
  | d0 :: ds, i + 1, d, hn, h => by
    simp at h
    simp only [List.map_cons, List.nodup_cons] at hn
    rw [List.flatMap_cons, List.filter_append, filter_init ds i d hn.2 h,
      filter_eq_nil_of _ _ (fun x hx => by
        simp only [decide_eq_false_iff_not]
        rw [block_metric d0 x hx]
        intro e
        exact hn.1 (e ▸ List.mem_map.mpr ⟨d, List.mem_of_getElem? h, rfl⟩))]
    simp

theorem childList_empty (d : MDecl V) :
    (childList d (Hist.empty : Hist V)).flatMap (fun ka => cellParams d ka.1) = block d := by
  unfold childList block Hist.empty
  cases d.decl.labelnames.isEmpty <;> simp

theorem core_init (ds : List (MDecl V)) (hwf : WFAll ds) (pid : Str) :
    Core ds pid (ds.map (fun _ => (Hist.empty : Hist V))) (initParams ds)
      (run (voOf V) (St.init pid) ((initParams ds).map Op.construct)) := by
  obtain ⟨r1, r2, r3, r4⟩ := run_constructs (voOf V) pid (initParams ds) (St.init pid) (vinv_init _ pid)
    (ids_nodup_of_keys _ (init_keys_nodup ds hwf.names hwf.decls)) (by intro q _ h; simp [St.init] at h)
  have hempty : ∀ (i : Nat) (h : Hist V), (ds.map (fun _ => (Hist.empty : Hist V)))[i]? = some h → h = Hist.empty := by
    intro i h hh
    rw [List.getElem?_map] at hh
    cases hd : ds[i]? <;> simp [hd] at hh
    exact hh.symm
  have hzero : ∀ fn k, cellVal (voOf V) (St.init (V := V) pid).disk fn k = ((voOf V).zero, (voOf V).zero) := by
    intro fn k; rfl
  refine ⟨r1, by rw [r2]; simp [St.init], ?_, ?_, ?_, ?_, ?_, ?_⟩
  · intro p hp
    rw [initParams_eq] at hp
    obtain ⟨d, hd, hp'⟩ := List.mem_flatMap.mp hp
    exact ⟨d, hd, block_metric d p hp'⟩
  · intro i d h hd hh
    rw [hempty i h hh, childList_empty, initParams_eq]
    exact filter_init ds i d hwf.names hd
  · intro i d h hd hh ka hka
    rw [hempty i h hh] at hka
    unfold childList Hist.empty at hka
    cases hl : d.decl.labelnames.isEmpty with
    | true =>
      simp only [hl, if_true, List.mem_singleton] at hka
      subst hka
      have : d.decl.labelnames = [] := by simpa using hl
      rw [this]
    | false => simp [hl] at hka
  · intro i d h hd hh
    rw [hempty i h hh]
    unfold childList Hist.empty
    cases d.decl.labelnames.isEmpty <;> simp
  · intro i d h hd hh ka hka pos p v hp hv
    rw [hempty i h hh] at hka
    have hacts : ka.2 = [] := by
      unfold childList Hist.empty at hka
      cases hl : d.decl.labelnames.isEmpty <;> simp [hl] at hka
      subst hka; rfl
    rw [hacts] at hv
    rw [r3, hzero]
    exact (cellValues_init d pos v hv).symm
  · intro i d h hd hh _ ka hka p hp
    rw [hempty i h hh] at hka
    have hacts : ka.2 = [] := by
      unfold childList Hist.empty at hka
      cases hl : d.decl.labelnames.isEmpty <;> simp [hl] at hka
      subst hka; rfl
    rw [hacts, r3, hzero]
    exact ⟨fun _ => rfl, fun h' => by simp [hasSet] at h'⟩

/-! ### one call -/

/-- the method that reaches the metric object (`Gauge.inc/dec` in a mostrecent mode never does) -/
def frontAct (ds : List (MDecl V)) (i : Nat) (act : Action V) : Action V :=
  if mrBlocked ds (.call i .none act) then .touch else act

theorem front_call (ds : List (MDecl V)) (i : Nat) (addr : Addr) (act : Action V) :
    front ds (.call i addr act) = .call i addr (frontAct ds i act) := by
  unfold front frontAct
  have : mrBlocked ds (.call i addr act) = mrBlocked ds (.call i .none act) := by cases act <;> rfl
  rw [this]
  split <;> rfl

theorem frontAct_mostRecent (ds : List (MDecl V)) (i : Nat) (d : MDecl V) (hd : ds[i]? = some d) (hmr : isMostRecent d = true)
    (act : Action V) : (∀ x, frontAct ds i act ≠ .inc x) ∧ (∀ x, frontAct ds i act ≠ .dec x) := by
  unfold frontAct
  cases act <;> simp [mrBlocked, hd, hmr]

/-- the common tail of a call on an existing child: the method's value-object calls if it returns, nothing if it raises -/
theorem core_method (ds : List (MDecl V)) (hwf : WFAll ds) (pid : Str) (hs : List (Hist V)) (ps : List Params) (st : St V)
    (hc : Core ds pid hs ps st) (i : Nat) (d : MDecl V) (h : Hist V) (hd : ds[i]? = some d) (hh : hs[i]? = some h)
    (key : List Str) (acts : List (Action V)) (hka : (key, acts) ∈ childList d h) (act : Action V) (t : V)
    (ht : (voOf V).truthy t = true ∧ Val.lt (Val.zero : V) t = true)
    (hfa : isMostRecent d = true → (∀ x, act ≠ .inc x) ∧ (∀ x, act ≠ .dec x)) (ok : Bool)
    (hok : ok = true ↔ (callMethod d.decl true act (some (childOf d.decl acts))).2 = .ok) :
    Core ds pid (modifyNth (hsAct d key (if ok then act else .touch)) i hs) ps
      (run (voOf V) st ((if ok then cellUpdates d t act else []).flatMap (toVop ps (cellParams d key)))) := by
  have hwd := hwf.decls d (List.mem_of_getElem? hd)
  cases ok with
  | false =>
    simp only [Bool.false_eq_true, if_false]
    apply core_update ds hwf pid hs ps st hc i d h hd hh key acts hka .touch []
    · rw [Lemmas.Metrics.childOf_snoc, Lemmas.Metrics.upd_touch]; rfl
    · intro _; exact Or.inl ⟨rfl, rfl⟩
  | true =>
    have hout := hok.mp rfl
    simp only [if_true]
    apply core_update ds hwf pid hs ps st hc i d h hd hh key acts hka act (cellUpdates d t act)
    · rw [Lemmas.Metrics.childOf_snoc]
      exact upd_cells d hwd.sup t act _ hout
    · intro hmr
      obtain ⟨n1, n2⟩ := hfa hmr
      have hg : isGauge d = true := by simp only [isMostRecent, Bool.and_eq_true] at hmr; exact hmr.1
      unfold isGauge at hg
      cases hk : d.decl.kind <;> simp only [hk] at hg <;> try cases hg
      cases act with
      | touch => exact Or.inl ⟨by simp [cellUpdates], rfl⟩
      | inc x => exact absurd rfl (n1 x)
      | dec x => exact absurd rfl (n2 x)
      | set x => exact Or.inr ⟨x, t, by simp [cellUpdates, hk, hmr], ht.1, ht.2, rfl⟩
      | observe x => simp [callMethod, hk] at hout
      | reset => simp [callMethod, hk] at hout
      | info v => simp [callMethod, hk] at hout
      | state s => simp [callMethod, hk] at hout

theorem resolve_len (ln : List Str) (args : List Model.Metrics.PyVal) (kw : List (Str × Model.Metrics.PyVal)) (key : List Str)
    (h : Model.Metrics.resolveLabels ln args kw = .ok key) : key.length = ln.length ∧ ln.isEmpty = false := by
  have hb := Lemmas.Metrics.resolve_ok ln args kw key h
  rw [Lemmas.Metrics.resolve_good ln args kw hb] at h
  have hk : key = (if kw = [] then args.map Model.Metrics.pyStr else ln.map (Spec.Metrics.kwValue kw)) := by
    injection h with h; exact h.symm
  unfold Lemmas.Metrics.BadLabels at hb
  have hln : ln ≠ [] := fun e => hb (Or.inl e)
  refine ⟨?_, by cases ln <;> simp_all⟩
  rw [hk]
  by_cases hkw : kw = []
  · simp only [hkw, if_true, List.length_map]
    apply Classical.byContradiction
    intro hne
    exact hb (Or.inr (Or.inr (Or.inr ⟨hkw, hne⟩)))
  · simp [hkw]

theorem getElem?_map_decl (ds : List (MDecl V)) (i : Nat) : (ds.map (·.decl))[i]? = ds[i]?.map (·.decl) :=
  List.getElem?_map ..

/-- **one call preserves the coupling** — for the reference histories extended by exactly what the in-memory step
accepted -/
theorem step_core (ds : List (MDecl V)) (hwf : WFAll ds) (pid : Str) (clock : Nat → V)
    (hclk : ∀ n, (voOf V).truthy (clock n) = true ∧ Val.lt (Val.zero : V) (clock n) = true)
    (s : CSt V) (hs : List (Hist V)) (st : St V)
    (habs : RegAbs (ds.map (·.decl)) s.reg hs) (hc : Core ds pid hs s.ps st)
    (i : Nat) (addr : Addr) (act0 : Action V) :
    Core ds pid (recAll (ds.map (·.decl)) hs (Model.Metrics.acceptedOp s.reg (front ds (.call i addr act0))))
      (s.ps ++ (stepVops ds clock s (.call i addr act0)).2)
      (run (voOf V) st (stepVops ds clock s (.call i addr act0)).1) := by
  have hunch : ∀ (hs' : List (Hist V)), hs' = hs → Core ds pid hs' (s.ps ++ []) (run (voOf V) st []) := by
    intro hs' e; subst e; simpa [run] using hc
  rw [front_call]
  rw [Lemmas.Metrics.acceptedOp_eq]
  simp only [Model.Metrics.Op.metric]
  cases hd : ds[i]? with
  | none =>
    have hr : s.reg[i]? = none := by
      rw [habs.eq]; exact Lemmas.Metrics.zipWith_getElem?_none _ _ _ _ (by rw [getElem?_map_decl, hd]; rfl)
    have hv : stepVops ds clock s (.call i addr act0) = ([], []) := by
      simp only [stepVops, front_call, hd]
    rw [hv, hr]
    exact hunch _ rfl
  | some d =>
    have hd' : (ds.map (·.decl))[i]? = some d.decl := by rw [getElem?_map_decl, hd]; rfl
    obtain ⟨h, hh, hokd⟩ := Lemmas.Metrics.forall2_getElem? Lemmas.Metrics.AllOk _ hs i d.decl habs.ok hd'
    have hr : s.reg[i]? = some (metricOf d.decl h) := by
      rw [habs.eq]; exact Lemmas.Metrics.zipWith_getElem? _ _ _ _ d.decl h hd' hh
    rw [hr]
    simp only
    have hrec : ∀ o : Model.Metrics.Op V, o.metric = i →
        recAll (ds.map (·.decl)) hs (some o) = modifyNth (fun h => recordOn d.decl.labelnames h o) i hs := by
      intro o ho
      simp only [recAll, record, ho, hd']
    have hstepout : (Model.Metrics.step s.reg (.call i addr (frontAct ds i act0))).2
        = (Model.Metrics.stepCall (metricOf d.decl h) addr (frontAct ds i act0)).2 := by
      rw [Lemmas.Metrics.step_eq]
      simp only [Model.Metrics.Op.metric, hr, Model.Metrics.stepM]
    cases addr with
    | none =>
      cases hl : d.decl.labelnames.isEmpty with
      | false =>
        -- a method on the labelled parent: no value object is touched; the histories change at most in `single`
        have hv : stepVops ds clock s (.call i .none act0) = ([], []) := by
          simp only [stepVops, front_call, hd, hr, target, metricOf, hl]
          rfl
        rw [hv]
        apply core_of_childList_eq ds pid hs _ (s.ps ++ []) (run (voOf V) st []) (by simpa [run] using hc)
        intro j d' h' hdj hj
        cases hacc : Lemmas.Metrics.acceptedM (metricOf d.decl h) (.call i .none (frontAct ds i act0)) with
        | none => rw [hacc] at hj; exact ⟨h', hj, rfl⟩
        | some o =>
          rw [hacc] at hj
          have ho : o = .call i .none (frontAct ds i act0) := by
            unfold Lemmas.Metrics.acceptedM at hacc
            split at hacc
            · simpa using hacc.symm
            · simp [Model.Metrics.Op.touchOf] at hacc
          subst ho
          rw [hrec _ rfl, getElem?_modifyNth] at hj
          by_cases e : j = i
          · subst e
            rw [hd] at hdj; cases hdj
            simp only [if_true, hh, Option.map_some, Option.some.injEq] at hj
            subst hj
            refine ⟨h, hh, ?_⟩
            simp [childList, hl, recordOn, keyOf]
          · simp only [e, if_false] at hj
            exact ⟨h', hj, rfl⟩
      | true =>
        have hsingle : (metricOf d.decl h).single = some (childOf d.decl h.single) := by simp [metricOf, hl]
        have hka : (([] : List Str), h.single) ∈ childList d h := by simp [childList, hl]
        have hout : (Model.Metrics.stepCall (metricOf d.decl h) .none (frontAct ds i act0)).2
            = (callMethod d.decl true (frontAct ds i act0) (some (childOf d.decl h.single))).2 := by
          simp [Model.Metrics.stepCall, metricOf, hl]
        have hv : stepVops ds clock s (.call i .none act0)
            = ((if (callMethod d.decl true (frontAct ds i act0) (some (childOf d.decl h.single))).2 = .ok
                then (cellUpdates d (clock s.n) (frontAct ds i act0)).flatMap (toVop (s.ps ++ []) (cellParams d []))
                else []), []) := by
          simp only [stepVops, front_call, hd, hr, target, hsingle, Option.isSome_some, if_true, Bool.false_eq_true,
            if_false, List.map_nil, List.nil_append, hstepout, hout]
        rw [hv]
        cases hcm : (callMethod d.decl true (frontAct ds i act0) (some (childOf d.decl h.single))).2 with
        | raised e =>
          have hacc : Lemmas.Metrics.acceptedM (metricOf d.decl h) (.call i .none (frontAct ds i act0)) = none := by
            simp [Lemmas.Metrics.acceptedM, Model.Metrics.stepM, hout, hcm, Model.Metrics.Op.touchOf]
          rw [hacc]
          simp only [reduceCtorEq, if_false]
          exact hunch _ rfl
        | ok =>
          have hacc : Lemmas.Metrics.acceptedM (metricOf d.decl h) (.call i .none (frontAct ds i act0))
              = some (.call i .none (frontAct ds i act0)) := by
            simp [Lemmas.Metrics.acceptedM, Model.Metrics.stepM, hout, hcm]
          rw [hacc, hrec _ rfl]
          simp only [if_true, List.append_nil]
          have hm := core_method ds hwf pid hs s.ps st hc i d h hd hh [] h.single hka (frontAct ds i act0) (clock s.n)
            (hclk s.n) (fun hmr => frontAct_mostRecent ds i d hd hmr act0) true (by simp [hcm])
          simp only [if_true] at hm
          have hfun : modifyNth (fun h => recordOn d.decl.labelnames h (.call i .none (frontAct ds i act0))) i hs
              = modifyNth (hsAct d [] (frontAct ds i act0)) i hs := by
            apply modifyNth_congr _ _ i hs h hh
            simp [recordOn, keyOf, hsAct, hl]
          rw [hfun]
          exact hm
    | labels args kw =>
      cases hres : Model.Metrics.resolveLabels d.decl.labelnames args kw with
      | error e =>
        have hres' : Model.Metrics.resolveLabels (metricOf d.decl h).decl.labelnames args kw = .error e := hres
        have hv : stepVops ds clock s (.call i (.labels args kw) act0) = ([], []) := by
          simp only [stepVops, front_call, hd, hr, target, hres']
        have hacc : Lemmas.Metrics.acceptedM (metricOf d.decl h) (.call i (.labels args kw) (frontAct ds i act0)) = none := by
          simp [Lemmas.Metrics.acceptedM, Model.Metrics.stepM,
            Lemmas.Metrics.stepCall_labels_err (metricOf d.decl h) args kw e _ hres', Model.Metrics.Op.touchOf]
        rw [hv, hacc]
        exact hunch _ rfl
      | ok key =>
        have hres' : Model.Metrics.resolveLabels (metricOf d.decl h).decl.labelnames args kw = .ok key := hres
        obtain ⟨hklen, hl⟩ := resolve_len _ _ _ _ hres
        have hcl : childList d h = h.table := by simp [childList, hl]
        have hkeyOf := Lemmas.Metrics.resolve_keyOf d.decl.labelnames args kw key hres
        -- outcome of the method, independent of the child's state
        have hout : ∀ c : Child V, (Model.Metrics.stepCall (metricOf d.decl h) (.labels args kw) (frontAct ds i act0)).2
            = (callMethod d.decl true (frontAct ds i act0) (some c)).2 := by
          intro c
          rw [Lemmas.Metrics.stepCall_labels_ok (metricOf d.decl h) args kw key _ hres']
          exact Lemmas.Metrics.callMethod_out_indep _ _ _ _
        have hlook : Model.Metrics.tlookup key (metricOf d.decl h).children
            = (Model.Metrics.tlookup key h.table).map (childOf d.decl) := by
          simp [metricOf, Lemmas.Metrics.tlookup_map]
        -- what the step accepted: the call if the method returned, else `labels()` alone
        have hacc : ∀ c : Child V, Lemmas.Metrics.acceptedM (metricOf d.decl h) (.call i (.labels args kw) (frontAct ds i act0))
            = some (.call i (.labels args kw)
                (if (callMethod d.decl true (frontAct ds i act0) (some c)).2 = .ok then frontAct ds i act0 else .touch)) := by
          intro c
          cases hcm : (callMethod d.decl true (frontAct ds i act0) (some c)).2 with
          | ok =>
            simp [Lemmas.Metrics.acceptedM, Model.Metrics.stepM, hout c, hcm]
          | raised e =>
            have h1 : (Model.Metrics.stepM (metricOf d.decl h) (.call i (.labels args kw) (frontAct ds i act0))).2
                = .raised e := by
              simp only [Model.Metrics.stepM]; rw [hout c]; exact hcm
            have h2 : (Model.Metrics.stepM (metricOf d.decl h) (.call i (.labels args kw) .touch)).2 = .ok := by
              simp only [Model.Metrics.stepM]
              rw [Lemmas.Metrics.stepCall_labels_ok (metricOf d.decl h) args kw key _ hres', Lemmas.Metrics.callMethod_touch]
            simp [Lemmas.Metrics.acceptedM, h1, h2, Model.Metrics.Op.touchOf]
        cases hlk : Model.Metrics.tlookup key h.table with
        | some acts =>
          -- the child exists
          have hka : (key, acts) ∈ childList d h := by rw [hcl]; exact tlookup_some_mem key h.table acts hlk
          have hv : stepVops ds clock s (.call i (.labels args kw) act0)
              = ((if (callMethod d.decl true (frontAct ds i act0) (some (childOf d.decl acts))).2 = .ok
                  then (cellUpdates d (clock s.n) (frontAct ds i act0)).flatMap (toVop (s.ps ++ []) (cellParams d key))
                  else []), []) := by
            simp only [stepVops, front_call, hd, hr, target, hres', hlook, hlk, Option.map_some, Option.isNone_some,
              Bool.false_eq_true, if_false, List.map_nil, List.nil_append, hstepout, hout (childOf d.decl acts)]
          rw [hv, hacc (childOf d.decl acts), hrec _ rfl]
          have hm := core_method ds hwf pid hs s.ps st hc i d h hd hh key acts hka (frontAct ds i act0) (clock s.n)
            (hclk s.n) (fun hmr => frontAct_mostRecent ds i d hd hmr act0)
            (decide ((callMethod d.decl true (frontAct ds i act0) (some (childOf d.decl acts))).2 = .ok)) (by simp)
          have hfun : modifyNth (fun h => recordOn d.decl.labelnames h (.call i (.labels args kw)
                (if (callMethod d.decl true (frontAct ds i act0) (some (childOf d.decl acts))).2 = .ok
                  then frontAct ds i act0 else .touch))) i hs
              = modifyNth (hsAct d key (if decide ((callMethod d.decl true (frontAct ds i act0)
                  (some (childOf d.decl acts))).2 = .ok) = true then frontAct ds i act0 else .touch)) i hs := by
            apply modifyNth_congr _ _ i hs h hh
            simp [recordOn, hkeyOf, hsAct, hl]
          rw [hfun]
          simp only [List.append_nil]
          by_cases hcm : (callMethod d.decl true (frontAct ds i act0) (some (childOf d.decl acts))).2 = .ok
          · simp only [hcm, decide_true, if_true] at hm ⊢; exact hm
          · simp only [hcm, decide_false, Bool.false_eq_true, if_false] at hm ⊢; exact hm
        | none =>
          -- `labels()` creates the child: its value objects are constructed first
          have hknew : key ∉ h.table.map (·.1) := (tlookup_none_iff key h.table).mp hlk
          have hc1 := core_create ds hwf pid hs s.ps st hc i d h hd hh hl key hknew hklen
          have hh1 : (modifyNth (fun h => { h with table := h.table ++ [(key, [])] }) i hs)[i]?
              = some { h with table := h.table ++ [(key, [])] } := by
            rw [getElem?_modifyNth]; simp [hh]
          have hka1 : (key, ([] : List (Action V))) ∈ childList d { h with table := h.table ++ [(key, [])] } := by
            simp [childList, hl]
          have hv : stepVops ds clock s (.call i (.labels args kw) act0)
              = ((cellParams d key).map Op.construct ++
                  (if (callMethod d.decl true (frontAct ds i act0) (some (childOf d.decl []))).2 = .ok
                  then (cellUpdates d (clock s.n) (frontAct ds i act0)).flatMap (toVop (s.ps ++ cellParams d key) (cellParams d key))
                  else []), cellParams d key) := by
            simp only [stepVops, front_call, hd, hr, target, hres', hlook, hlk, Option.map_none, Option.isNone_none,
              if_true, hstepout, hout (childOf d.decl [])]
          rw [hv, hacc (childOf d.decl []), hrec _ rfl, run_append]
          have hm := core_method ds hwf pid _ _ _ hc1 i d _ hd hh1 key [] hka1 (frontAct ds i act0) (clock s.n)
            (hclk s.n) (fun hmr => frontAct_mostRecent ds i d hd hmr act0)
            (decide ((callMethod d.decl true (frontAct ds i act0) (some (childOf d.decl []))).2 = .ok)) (by simp)
          rw [modifyNth_modifyNth] at hm
          have hfun : modifyNth (fun h => recordOn d.decl.labelnames h (.call i (.labels args kw)
                (if (callMethod d.decl true (frontAct ds i act0) (some (childOf d.decl []))).2 = .ok
                  then frontAct ds i act0 else .touch))) i hs
              = modifyNth (fun x => hsAct d key (if decide ((callMethod d.decl true (frontAct ds i act0)
                  (some (childOf d.decl []))).2 = .ok) = true then frontAct ds i act0 else .touch)
                  { x with table := x.table ++ [(key, [])] }) i hs := by
            apply modifyNth_congr _ _ i hs h hh
            simp [recordOn, hkeyOf, hsAct, hl, appendAt_fresh_snoc key _ h.table hknew]
          rw [hfun]
          by_cases hcm : (callMethod d.decl true (frontAct ds i act0) (some (childOf d.decl []))).2 = .ok
          · simp only [hcm, decide_true, if_true] at hm ⊢; exact hm
          · simp only [hcm, decide_false, Bool.false_eq_true, if_false] at hm ⊢; exact hm

/-! ### the whole history -/

/-- a history without `remove()` / `clear()` -/
def NoRemoval (h : List (Model.Metrics.Op V)) : Prop := ∀ op ∈ h, ∃ i addr act, op = Model.Metrics.Op.call i addr act

theorem foldl_record_toList (dd : List (Decl V)) (hs : List (Hist V)) (o : Option (Model.Metrics.Op V)) :
    o.toList.foldl (record dd) hs = recAll dd hs o := by
  cases o <;> rfl

theorem run_core (ds : List (MDecl V)) (hwf : WFAll ds) (pid : Str) (clock : Nat → V)
    (hclk : ∀ n, (voOf V).truthy (clock n) = true ∧ Val.lt (Val.zero : V) (clock n) = true) :
    ∀ (h : List (Model.Metrics.Op V)) (s : CSt V) (hs : List (Hist V)) (st : St V), NoRemoval h →
      RegAbs (ds.map (·.decl)) s.reg hs → Core ds pid hs s.ps st →
      ∃ ps', Core ds pid ((Model.Metrics.accepted s.reg (h.map (front ds))).foldl (record (ds.map (·.decl))) hs) ps'
        (run (voOf V) st (compileFrom ds clock s h))
  | [], s, hs, st, _, _, hc => ⟨s.ps, by simpa [Model.Metrics.accepted, compileFrom, run] using hc⟩
  | op :: ops, s, hs, st, hnr, habs, hc => by
    obtain ⟨i, addr, act, rfl⟩ := hnr _ List.mem_cons_self
    have h1 := step_core ds hwf pid clock hclk s hs st habs hc i addr act
    have habs' := Lemmas.Metrics.step_abs (ds.map (·.decl)) s.reg hs (front ds (.call i addr act)) habs
    have ih := run_core ds hwf pid clock hclk ops (stepC ds clock s (.call i addr act)) _ _
      (fun op hop => hnr op (List.mem_cons_of_mem _ hop)) habs' h1
    obtain ⟨ps', hps'⟩ := ih
    refine ⟨ps', ?_⟩
    simp only [List.map_cons, Model.Metrics.accepted, List.foldl_append, foldl_record_toList, compileFrom, run_append]
    exact hps'

/-- **after any history without remove/clear**, the file-backed state is coupled to the reference histories of the
calls the in-memory run accepted -/
theorem runMmap_core (ds : List (MDecl V)) (hwf : WFAll ds) (pid : Str) (clock : Nat → V)
    (hclk : ∀ n, (voOf V).truthy (clock n) = true ∧ Val.lt (Val.zero : V) (clock n) = true)
    (h : List (Model.Metrics.Op V)) (hnr : NoRemoval h) :
    ∃ ps', Core ds pid
      (Spec.Metrics.history (ds.map (·.decl)) (Model.Metrics.accepted (regFresh ds) (h.map (front ds)))) ps'
      (runMmap ds pid clock h) := by
  have h0 := core_init ds hwf pid
  have habs := Lemmas.Metrics.regAbs_fresh (ds.map (·.decl))
  have e : (ds.map (·.decl)).map (fun _ => (Hist.empty : Hist V)) = ds.map (fun _ => (Hist.empty : Hist V)) := by
    rw [List.map_map]; rfl
  rw [e] at habs
  obtain ⟨ps', hps'⟩ := run_core ds hwf pid clock hclk h (initCSt ds) _ _ hnr habs h0
  refine ⟨ps', ?_⟩
  unfold runMmap compile Spec.Metrics.history
  rw [run_append, e]
  exact hps'

end PromVerif.Lemmas.Backends
