import PromVerif.Py.Str
namespace PromVerif.Py

theorem findChar_append_of_not_mem {c : Char} {a b : List Char} (h : c ∉ a) :
    findChar c (a ++ c :: b) = some a.length := by
  induction a with
  | nil => simp [findChar]
  | cons x xs ih =>
    have hx : x ≠ c := by intro e; exact h (by simp [e])
    have hxs : c ∉ xs := by intro e; exact h (by simp [e])
    simp [findChar, hx, ih hxs]

theorem findChar_none_of_not_mem {c : Char} {a : List Char} (h : c ∉ a) : findChar c a = none := by
  induction a with
  | nil => simp [findChar]
  | cons x xs ih =>
    have hx : x ≠ c := by intro e; exact h (by simp [e])
    have hxs : c ∉ xs := by intro e; exact h (by simp [e])
    simp [findChar, hx, ih hxs]

theorem splitFirst_append_of_not_mem {c : Char} {a b : List Char} (h : c ∉ a) :
    splitFirst c (a ++ c :: b) = (a, some b) := by
  induction a with
  | nil => simp [splitFirst]
  | cons x xs ih =>
    have hx : x ≠ c := by intro e; exact h (by simp [e])
    have hxs : c ∉ xs := by intro e; exact h (by simp [e])
    simp [splitFirst, hx, ih hxs]

theorem splitFirst_of_not_mem {c : Char} {a : List Char} (h : c ∉ a) :
    splitFirst c a = (a, none) := by
  induction a with
  | nil => simp [splitFirst]
  | cons x xs ih =>
    have hx : x ≠ c := by intro e; exact h (by simp [e])
    have hxs : c ∉ xs := by intro e; exact h (by simp [e])
    simp [splitFirst, hx, ih hxs]

theorem rstripSet_append_singleton_of_not (p : Char → Bool) (a : List Char) (c : Char) (h : p c = false) :
    rstripSet p (a ++ [c]) = a ++ [c] := by
  induction a with
  | nil => simp [rstripSet, h]
  | cons x xs ih =>
    simp only [List.cons_append, rstripSet, ih]
    cases hxs : xs ++ [c] with
    | nil => simp at hxs
    | cons y ys => rfl

theorem rstripSet_eq_nil_iff (p : Char → Bool) (a : List Char) :
    rstripSet p a = [] ↔ a.all p = true := by
  induction a with
  | nil => simp [rstripSet]
  | cons x xs ih =>
    simp only [rstripSet, List.all_cons, Bool.and_eq_true]
    cases h : rstripSet p xs with
    | nil =>
      have := ih.mp h
      cases hp : p x <;> simp [this]
    | cons y ys =>
      have : ¬ (xs.all p = true) := fun e => by have := ih.mpr e; simp [h] at this
      simp [this]

theorem rstripSet_cons_of_ne_nil (p : Char → Bool) (x : Char) (xs : List Char) (h : rstripSet p xs ≠ []) :
    rstripSet p (x :: xs) = x :: rstripSet p xs := by
  rw [rstripSet]
  split
  · next h' => exact absurd h' h
  · rfl

theorem rstripSet_cons_of_nil (p : Char → Bool) (x : Char) (xs : List Char) (h : rstripSet p xs = []) :
    rstripSet p (x :: xs) = if p x then [] else [x] := by
  simp only [rstripSet, h]

/-- the last character of a stripped string is not in the strip set -/
theorem rstripSet_getLast (p : Char → Bool) (a : List Char) :
    ∀ c, (rstripSet p a).getLast? = some c → p c = false := by
  induction a with
  | nil => simp [rstripSet]
  | cons x xs ih =>
    intro c
    by_cases h : rstripSet p xs = []
    · rw [rstripSet_cons_of_nil p x xs h]
      cases hp : p x <;> simp
      intro e; subst e; exact hp
    · rw [rstripSet_cons_of_ne_nil p x xs h]
      intro hc
      apply ih c
      rw [List.getLast?_cons_of_ne_nil h] at hc <;> exact hc

/-- stripping is a prefix: `a = rstrip a ++ junk` with all of `junk` in the set -/
theorem rstripSet_prefix (p : Char → Bool) (a : List Char) :
    ∃ j, a = rstripSet p a ++ j ∧ j.all p = true := by
  induction a with
  | nil => exact ⟨[], by simp [rstripSet]⟩
  | cons x xs ih =>
    obtain ⟨j, hj, hp⟩ := ih
    by_cases h : rstripSet p xs = []
    · rw [rstripSet_cons_of_nil p x xs h]
      have hall := (rstripSet_eq_nil_iff p xs).mp h
      cases hpx : p x
      · exact ⟨xs, by simp, hall⟩
      · exact ⟨x :: xs, by simp, by simp [hpx, hall]⟩
    · rw [rstripSet_cons_of_ne_nil p x xs h]
      exact ⟨j, by simp [← hj], hp⟩

theorem rstripSet_all (p q : Char → Bool) (a : List Char) (h : a.all q = true) : (rstripSet p a).all q = true := by
  obtain ⟨j, hj, _⟩ := rstripSet_prefix p a
  rw [hj] at h
  simp only [List.all_append, Bool.and_eq_true] at h
  exact h.1

/-- two strip sets that agree on the characters of `a` strip alike -/
theorem rstripSet_congr (p q : Char → Bool) (a : List Char) (h : ∀ c ∈ a, p c = q c) :
    rstripSet p a = rstripSet q a := by
  induction a with
  | nil => rfl
  | cons x xs ih =>
    have ihx := ih (fun c hc => h c (by simp [hc]))
    simp only [rstripSet, ihx, h x (by simp)]

-- digits ------------------------------------------------------------------------------------

theorem parseDigits_foldl (s : List Char) (acc : Nat) :
    s.foldl (fun acc c => acc * 10 + digitVal c) acc = acc * 10 ^ s.length + parseDigits s := by
  induction s generalizing acc with
  | nil => simp [parseDigits]
  | cons x xs ih =>
    simp only [List.foldl_cons, parseDigits, List.length_cons]
    rw [ih, ih (0 * 10 + digitVal x)]
    simp [Nat.pow_succ, Nat.add_mul, Nat.mul_assoc, Nat.mul_comm 10, Nat.add_assoc]

theorem parseDigits_append (a b : List Char) :
    parseDigits (a ++ b) = parseDigits a * 10 ^ b.length + parseDigits b := by
  simp only [parseDigits, List.foldl_append]
  rw [parseDigits_foldl]
  rfl

theorem parseDigits_replicate_zero (k : Nat) : parseDigits (List.replicate k '0') = 0 := by
  induction k with
  | zero => rfl
  | succ n ih =>
    rw [List.replicate_succ']
    rw [parseDigits_append, ih]
    simp [parseDigits, digitVal]

theorem digitVal_digitChar (d : Nat) (h : d < 10) : digitVal (digitChar d) = d := by
  have : ∀ d : Fin 10, digitVal (digitChar d.val) = d.val := by decide
  exact this ⟨d, h⟩

theorem isDigit_digitChar (d : Nat) (h : d < 10) : isDigit (digitChar d) = true := by
  have : ∀ d : Fin 10, isDigit (digitChar d.val) = true := by decide
  exact this ⟨d, h⟩

theorem parseDigits_decDigits (n : Nat) : parseDigits (decDigits n) = n := by
  induction n using Nat.strongRecOn with
  | _ n ih =>
    unfold decDigits
    split
    · next h => simp [parseDigits, digitVal_digitChar n h]
    · next h =>
      rw [parseDigits_append, ih (n / 10) (by omega)]
      simp [parseDigits, digitVal_digitChar (n % 10) (by omega)]
      omega

theorem allDigits_decDigits (n : Nat) : (decDigits n).all isDigit = true := by
  induction n using Nat.strongRecOn with
  | _ n ih =>
    unfold decDigits
    split
    · next h => simp [isDigit_digitChar n h]
    · next h =>
      simp [ih (n / 10) (by omega), isDigit_digitChar (n % 10) (by omega)]

theorem decDigits_length_pos (n : Nat) : 1 ≤ (decDigits n).length := by
  unfold decDigits
  split <;> simp

theorem decDigits_length_two (n : Nat) (h : 10 ≤ n) : 2 ≤ (decDigits n).length := by
  unfold decDigits
  split
  · omega
  · have := decDigits_length_pos (n / 10)
    simp; omega

theorem decDigits_head_ne_zero (n : Nat) (h : 0 < n) : (decDigits n).head? ≠ some '0' := by
  induction n using Nat.strongRecOn with
  | _ n ih =>
    unfold decDigits
    split
    · next hlt =>
      have : ∀ d : Fin 10, 0 < d.val → digitChar d.val ≠ '0' := by decide
      simpa using this ⟨n, hlt⟩ h
    · next hge =>
      have hpos := decDigits_length_pos (n / 10)
      have := ih (n / 10) (by omega) (by omega)
      cases hd : decDigits (n / 10) with
      | nil => simp [hd] at hpos
      | cons y ys => simpa [hd] using this

end PromVerif.Py
