/-
C01 helper lemmas, part 7: the argument checks of `labels()`.
`sorted(labelkwargs) != sorted(self._labelnames)` is "the keyword names are not a permutation of the label names";
when it passes every `labelkwargs[l]` exists, and the values are taken in declaration order.
-/
import PromVerif.Lemmas.MetricsAbs

namespace PromVerif.Lemmas.Metrics
open PromVerif.Py PromVerif.Model.Metrics PromVerif.Generated.Metrics
open PromVerif.Spec.Metrics (kwValue keyOf)

/-! ### `str` order -/

theorem strLt_irrefl (a : Str) : strLt a a = false := by
  induction a with
  | nil => rfl
  | cons x xs ih => simp [strLt, ih]

theorem strLt_trans : ∀ (a b c : Str), strLt a b = true → strLt b c = true → strLt a c = true
  | [], [], _, h, _ => by simp [strLt] at h
  | [], _ :: _, [], _, h => by simp [strLt] at h
  | [], _ :: _, _ :: _, _, _ => by simp [strLt]
  | _ :: _, [], _, h, _ => by simp [strLt] at h
  | _ :: _, _ :: _, [], _, h => by simp [strLt] at h
  | x :: xs, y :: ys, z :: zs, h1, h2 => by
    have ih := strLt_trans xs ys zs
    simp only [strLt] at h1 h2 ⊢
    by_cases hxy : x.toNat < y.toNat
    · by_cases hyz : y.toNat < z.toNat
      · have : x.toNat < z.toNat := by omega
        simp [this]
      · simp only [hyz, if_false] at h2
        by_cases hzy : z.toNat < y.toNat
        · simp [hzy] at h2
        · have : x.toNat < z.toNat := by omega
          simp [this]
    · simp only [hxy, if_false] at h1
      by_cases hyx : y.toNat < x.toNat
      · simp [hyx] at h1
      · simp only [hyx, if_false] at h1
        by_cases hyz : y.toNat < z.toNat
        · have : x.toNat < z.toNat := by omega
          simp [this]
        · simp only [hyz, if_false] at h2
          by_cases hzy : z.toNat < y.toNat
          · simp [hzy] at h2
          · simp only [hzy, if_false] at h2
            have e1 : ¬ x.toNat < z.toNat := by omega
            have e2 : ¬ z.toNat < x.toNat := by omega
            simp only [e1, e2, if_false]
            exact ih h1 h2

theorem char_eq_of_toNat_eq (x y : Char) (h : x.toNat = y.toNat) : x = y := by
  apply Char.ext
  apply UInt32.toNat_inj.mp
  exact h

theorem strLt_connected : ∀ (a b : Str), strLt a b = false → strLt b a = false → a = b
  | [], [], _, _ => rfl
  | [], _ :: _, h, _ => by simp [strLt] at h
  | _ :: _, [], _, h => by simp [strLt] at h
  | x :: xs, y :: ys, h1, h2 => by
    simp only [strLt] at h1 h2
    by_cases hxy : x.toNat < y.toNat
    · simp [hxy] at h1
    · by_cases hyx : y.toNat < x.toNat
      · simp [hyx] at h2
      · simp only [hxy, hyx, if_false] at h1 h2
        have hc : x = y := char_eq_of_toNat_eq x y (by omega)
        rw [hc, strLt_connected xs ys h1 h2]

theorem strLe_total (a b : Str) : (strLe a b || strLe b a) = true := by
  unfold strLe
  cases h1 : strLt b a with
  | false => simp
  | true =>
    cases h2 : strLt a b with
    | false => simp
    | true =>
      have := strLt_trans a b a h2 h1
      rw [strLt_irrefl] at this
      exact absurd this (by simp)

theorem strLe_trans (a b c : Str) (h1 : strLe a b = true) (h2 : strLe b c = true) : strLe a c = true := by
  unfold strLe at *
  cases hca : strLt c a with
  | false => rfl
  | true =>
    exfalso
    have h1' : strLt b a = false := by simpa using h1
    have h2' : strLt c b = false := by simpa using h2
    cases hbc : strLt b c with
    | true =>
      have := strLt_trans b c a hbc hca
      rw [h1'] at this; exact absurd this (by simp)
    | false =>
      have : c = b := strLt_connected c b h2' hbc
      subst this
      rw [hca] at h1'; exact absurd h1' (by simp)

theorem strLe_antisymm (a b : Str) (h1 : strLe a b = true) (h2 : strLe b a = true) : a = b := by
  unfold strLe at *
  exact strLt_connected a b (by simpa using h2) (by simpa using h1)

/-- `sorted(a) == sorted(b)` exactly when `a` is a permutation of `b` -/
theorem sortedStrs_eq_iff (a b : List Str) : sortedStrs a = sortedStrs b ↔ a.Perm b := by
  unfold sortedStrs
  constructor
  · intro h
    exact ((List.mergeSort_perm a strLe).symm.trans (h ▸ List.Perm.refl _)).trans (List.mergeSort_perm b strLe)
  · intro h
    apply List.Perm.eq_of_pairwise (le := fun x y => strLe x y = true)
    · intro x y _ _ hxy hyx; exact strLe_antisymm x y hxy hyx
    · exact List.pairwise_mergeSort strLe_trans strLe_total a
    · exact List.pairwise_mergeSort strLe_trans strLe_total b
    · exact ((List.mergeSort_perm a strLe).trans h).trans (List.mergeSort_perm b strLe).symm

/-! ### keyword values -/

theorem kwLookup_some_of_mem (l : Str) (kw : List (Str × PyVal)) (h : l ∈ kw.map (·.1)) :
    ∃ v, kwLookup l kw = some v := by
  induction kw with
  | nil => simp at h
  | cons kv t ih =>
    simp only [kwLookup]
    by_cases hk : kv.1 = l
    · exact ⟨kv.2, by simp [hk]⟩
    · simp only [hk, if_false]
      apply ih
      simp only [List.map, List.mem_cons] at h
      rcases h with h | h
      · exact absurd h.symm hk
      · exact h

theorem mapM_kw_of_all (kw : List (Str × PyVal)) (ls : List Str) (h : ∀ l ∈ ls, ∃ v, kwLookup l kw = some v) :
    ls.mapM (fun l => match kwLookup l kw with
      | some v => (Except.ok (pyStr v) : PyM Str)
      | none => .error .keyError) = .ok (ls.map (kwValue kw)) := by
  induction ls with
  | nil => rfl
  | cons l ls ih =>
    obtain ⟨v, hv⟩ := h l (by simp)
    rw [List.mapM_cons, ih (fun l' hl' => h l' (by simp [hl']))]
    have : kwValue kw l = pyStr v := by
      rw [kwLookup_eq_find] at hv
      unfold kwValue
      cases hf : kw.find? (fun kv => kv.1 = l) with
      | none => simp [hf] at hv
      | some kv => simp [hf] at hv; simp [hv]
    simp [hv, bind, Except.bind, pure, Except.pure, this]

/-- the `labels(*args, **kw)` calls that raise: no label names declared, both styles, keyword names that are not a
permutation of the label names, a positional count that differs -/
def BadLabels (ln : List Str) (args : List PyVal) (kw : List (Str × PyVal)) : Prop :=
  ln = [] ∨ (args ≠ [] ∧ kw ≠ []) ∨ (kw ≠ [] ∧ ¬ (kw.map (·.1)).Perm ln) ∨ (kw = [] ∧ args.length ≠ ln.length)

theorem guards_eq (ln : List Str) (args : List PyVal) (kw : List (Str × PyVal)) :
    labelsCheckOrder.any (labelsCheckFails ln args kw) = (ln.isEmpty || (!args.isEmpty && !kw.isEmpty)) := by
  simp [labelsCheckOrder, labelsCheckFails]

theorem resolve_bad (ln : List Str) (args : List PyVal) (kw : List (Str × PyVal)) (h : BadLabels ln args kw) :
    resolveLabels ln args kw = .error .valueError := by
  unfold resolveLabels
  rw [guards_eq]
  rcases h with h | ⟨h1, h2⟩ | ⟨h1, h2⟩ | ⟨h1, h2⟩
  · simp [h]
  · have e1 : args.isEmpty = false := by cases args <;> simp_all
    have e2 : kw.isEmpty = false := by cases kw <;> simp_all
    simp [e1, e2]
  · have e2 : kw.isEmpty = false := by cases kw <;> simp_all
    have hs : (sortedStrs (kw.map (·.1)) == sortedStrs ln) = false := by
      rw [beq_eq_false_iff_ne]
      intro he
      exact h2 ((sortedStrs_eq_iff _ _).mp he)
    split
    · rfl
    · simp [e2, hs, evalCmpEq, kwNamesCmp]
  · subst h1
    split
    · rfl
    · simp [evalCmpNat, posCountCmp, h2]

theorem resolve_good (ln : List Str) (args : List PyVal) (kw : List (Str × PyVal)) (h : ¬ BadLabels ln args kw) :
    resolveLabels ln args kw = .ok (if kw = [] then args.map pyStr else ln.map (kwValue kw)) := by
  unfold BadLabels at h
  have hln : ln ≠ [] := fun e => h (Or.inl e)
  have hboth : ¬ (args ≠ [] ∧ kw ≠ []) := fun e => h (Or.inr (Or.inl e))
  unfold resolveLabels
  rw [guards_eq]
  have e0 : ln.isEmpty = false := by cases ln <;> simp_all
  by_cases hkw : kw = []
  · subst hkw
    have hlen : args.length = ln.length := by
      apply Classical.byContradiction
      intro hne
      exact h (Or.inr (Or.inr (Or.inr ⟨rfl, hne⟩)))
    simp [e0, evalCmpNat, posCountCmp, hlen]
  · have hargs : args = [] := by
      apply Classical.byContradiction
      intro hne
      exact hboth ⟨hne, hkw⟩
    subst hargs
    have hperm : (kw.map (·.1)).Perm ln := by
      apply Classical.byContradiction
      intro hne
      exact h (Or.inr (Or.inr (Or.inl ⟨hkw, hne⟩)))
    have e2 : kw.isEmpty = false := by cases kw <;> simp_all
    have hs : (sortedStrs (kw.map (·.1)) == sortedStrs ln) = true := by
      rw [beq_iff_eq]; exact (sortedStrs_eq_iff _ _).mpr hperm
    have hall : ∀ l ∈ ln, ∃ v, kwLookup l kw = some v :=
      fun l hl => kwLookup_some_of_mem l kw (hperm.symm.subset hl)
    simp only [e0, e2, hs, evalCmpEq, kwNamesCmp, kwValues, kwargsValueOrder, hkw, if_false]
    exact mapM_kw_of_all kw ln hall

/-- `labels()` raises nothing but ValueError -/
theorem resolve_error (ln : List Str) (args : List PyVal) (kw : List (Str × PyVal)) (e : PyErr)
    (h : resolveLabels ln args kw = .error e) : e = .valueError ∧ BadLabels ln args kw := by
  by_cases hb : BadLabels ln args kw
  · rw [resolve_bad ln args kw hb] at h
    exact ⟨by simpa using h.symm, hb⟩
  · rw [resolve_good ln args kw hb] at h
    simp at h

theorem resolve_ok (ln : List Str) (args : List PyVal) (kw : List (Str × PyVal)) (key : List Str)
    (h : resolveLabels ln args kw = .ok key) : ¬ BadLabels ln args kw := by
  intro hb
  rw [resolve_bad ln args kw hb] at h
  simp at h

/-! ### one child for equal stringifications -/

theorem find_of_mem_nodup (l : Str) (v : PyVal) :
    ∀ kw : List (Str × PyVal), (kw.map (·.1)).Nodup → (l, v) ∈ kw → kw.find? (fun kv => kv.1 = l) = some (l, v)
  | [], _, h => by simp at h
  | kv :: t, hnd, hm => by
    simp only [List.map, List.nodup_cons] at hnd
    rcases List.mem_cons.mp hm with hm | hm
    · subst hm; simp
    · have hne : kv.1 ≠ l := by
        intro e
        apply hnd.1
        rw [e]
        exact List.mem_map.mpr ⟨(l, v), hm, rfl⟩
      simp [List.find?, hne, find_of_mem_nodup l v t hnd.2 hm]

theorem map_kwValue_zip (kw : List (Str × PyVal)) :
    ∀ (ln : List Str) (vals : List PyVal), vals.length = ln.length →
      (∀ p ∈ ln.zip vals, kwValue kw p.1 = pyStr p.2) → ln.map (kwValue kw) = vals.map pyStr
  | [], [], _, _ => rfl
  | [], _ :: _, h, _ => by simp at h
  | _ :: _, [], h, _ => by simp at h
  | l :: ln, v :: vals, hlen, hall => by
    simp only [List.map]
    rw [hall (l, v) (by simp), map_kwValue_zip kw ln vals (by simpa using hlen)
      (fun p hp => hall p (by simp [hp]))]

end PromVerif.Lemmas.Metrics
