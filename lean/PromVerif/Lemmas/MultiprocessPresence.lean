/-
Presence of entries: which `(file, key)` cells EXIST after a world history (an `Option`-valued view; `cellVal` reads an
absent entry as zero and cannot tell).  An entry of identity `p`'s file comes into being exactly when a value object
with that key is constructed, or re-bound after an identity change, while `p` is the acting identity — and a live-gauge
file goes away with `mark_process_dead(p)`.
-/
import PromVerif.Lemmas.MultiprocessDisk

namespace PromVerif.Model.Values
open PromVerif.Py PromVerif.Generated.Multiprocess PromVerif.Model.Multiprocess
set_option autoImplicit false

variable {V : Type}

/-- the entry exists -/
def has (disk : List (Str × Store V)) (fn : Str) (k : Key) : Bool := (cellGet disk fn k).isSome

theorem has_openFile (disk : List (Str × Store V)) (fn fn' : Str) (k : Key) : has (openFile disk fn) fn' k = has disk fn' k := by
  unfold has; rw [cellGet_openFile]

theorem has_readValue (vo : VOps V) (disk : List (Str × Store V)) (fn fn' : Str) (k0 k : Key) :
    has (readValue vo disk fn k0).2 fn' k = (has disk fn' k || decide (fn = fn' ∧ k0 = k)) := by
  unfold has
  rw [cellGet_readValue]
  by_cases h : fn = fn' ∧ k0 = k
  · obtain ⟨e1, e2⟩ := h
    subst e1; subst e2
    cases hg : cellGet disk fn k0 <;> simp
  · have : ¬ (fn = fn' ∧ k0 = k ∧ cellGet disk fn k0 = none) := fun h' => h ⟨h'.1, h'.2.1⟩
    simp [this, h]

theorem has_writeValue (disk : List (Str × Store V)) (fn fn' : Str) (k0 k : Key) (v t : V) :
    has (writeValue disk fn k0 v t) fn' k = (has disk fn' k || decide (fn = fn' ∧ k0 = k)) := by
  unfold has
  rw [cellGet_writeValue]
  by_cases h : fn = fn' ∧ k0 = k <;> simp [h]

/-- the cell a value object with parameters `q` owns under identity `pid` -/
def ownsCell (pid : Str) (fn : Str) (k : Key) (q : Params) : Bool :=
  decide (fileName (filePrefix q) pid = fn ∧ mmapKey q = k)

theorem has_reset (vo : VOps V) (pid : Str) (files : List (Str × Str)) (disk : List (Str × Store V)) (q : Params)
    (hf : FilesOK pid files) (fn : Str) (k : Key) :
    has (reset vo pid files disk q).2.2 fn k = (has disk fn k || ownsCell pid fn k q) := by
  unfold ownsCell
  cases hg : AL.get? files (filePrefix q) with
  | some fn0 =>
    rw [reset_some vo pid files disk q fn0 hg, hf _ _ hg]
    exact has_readValue vo disk _ fn _ k
  | none =>
    rw [reset_none vo pid files disk q hg]
    simp only
    rw [has_readValue, has_openFile]

theorem has_resetAll (vo : VOps V) (pid : Str) (vs : List (ValueObj V)) (files : List (Str × Str))
    (disk : List (Str × Store V)) (hf : FilesOK pid files) (fn : Str) (k : Key) :
    has (resetAll vo pid vs files disk).2.2 fn k = (has disk fn k || vs.any (fun v => ownsCell pid fn k v.params)) := by
  induction vs generalizing files disk with
  | nil => simp [resetAll]
  | cons v r ih =>
    simp only [resetAll, List.any_cons]
    rw [ih _ _ (reset_post vo pid files disk v.params hf).files, has_reset vo pid files disk v.params hf, Bool.or_assoc]

theorem has_checkPid (vo : VOps V) (st : St V) (fn : Str) (k : Key) :
    has (checkPid vo st).disk fn k
      = (has st.disk fn k || (decide (st.pid ≠ st.actual) && st.values.any (fun v => ownsCell st.actual fn k v.params))) := by
  unfold checkPid
  by_cases h : st.pid = st.actual
  · simp [h]
  · simp only [ne_eq, h, not_false_eq_true, if_true, decide_true, Bool.true_and]
    exact has_resetAll vo st.actual st.values [] st.disk (filesOK_nil _) fn k

/-- the cells one call brings into being: those of every value object re-bound by the identity check (if the identity
    changed), and that of a newly constructed one — under the CURRENT identity -/
def touch (st : St V) (op : Op V) (fn : Str) (k : Key) : Bool :=
  match op with
  | .setPid _ => false
  | .construct q =>
    (decide (st.pid ≠ st.actual) && st.values.any (fun v => ownsCell st.actual fn k v.params)) || ownsCell st.actual fn k q
  | _ => decide (st.pid ≠ st.actual) && st.values.any (fun v => ownsCell st.actual fn k v.params)

theorem has_step (vo : VOps V) (st : St V) (op : Op V) (hb : Bound st) (fn : Str) (k : Key) :
    has (step vo st op).1.disk fn k = (has st.disk fn k || touch st op fn k) := by
  have hc := checkPid_post vo st hb
  have hw : ∀ (i : Nat) (v : ValueObj V) (x t : V), (checkPid vo st).values[i]? = some v →
      has (writeValue (checkPid vo st).disk v.file v.key x t) fn k = has (checkPid vo st).disk fn k := by
    intro i v x t hv
    rw [has_writeValue]
    by_cases h : v.file = fn ∧ v.key = k
    · have := hc.bound.exist v (List.mem_iff_getElem?.mpr ⟨i, hv⟩)
      rw [h.1, h.2] at this
      unfold has; rw [this]; simp
    · simp [h]
  cases op with
  | setPid p => simp [step, touch]
  | get i => simp only [step, touch]; exact has_checkPid vo st fn k
  | inc i a =>
    simp only [step, touch]
    cases hv : (checkPid vo st).values[i]? with
    | none => exact has_checkPid vo st fn k
    | some v => simp only; rw [hw i v _ _ hv]; exact has_checkPid vo st fn k
  | set i x t =>
    simp only [step, touch]
    cases hv : (checkPid vo st).values[i]? with
    | none => exact has_checkPid vo st fn k
    | some v => simp only; rw [hw i v _ _ hv]; exact has_checkPid vo st fn k
  | construct q =>
    simp only [step, touch]
    rw [has_reset vo _ _ _ q hc.bound.files, has_checkPid, hc.pid, Bool.or_assoc]

theorem has_deadDisk (q : Str) (disk : List (Str × Store V)) (fn : Str) (k : Key) :
    has (deadDisk q disk) fn k = (has disk fn k && !isLiveFileOf q fn) := by
  unfold has
  rw [cellGet_deadDisk]
  cases isLiveFileOf q fn <;> simp

/-! ### the history-level account -/

/-- does a call of the acting worker (remembered identity `rem`, current identity `cur`, value objects with (prefix,
    key) `ids`) bring the entry `(pre, k)` of identity `p` into being? -/
def opTouch (pre : Str) (k : Key) (p : Str) (rem cur : Str) (ids : List (Str × Key)) : Op V → Bool
  | .setPid _ => false
  | .construct q => decide (cur = p) && ((decide (rem ≠ cur) && decide ((pre, k) ∈ ids)) || decide (idOf q = (pre, k)))
  | _ => decide (cur = p) && decide (rem ≠ cur) && decide ((pre, k) ∈ ids)

/-- presence of identity `p`'s entry of series `(pre, k)` along a world history (`live`: the file is a live-gauge file) -/
def wPresent (pre : Str) (k : Key) (p : Str) (live : Bool) : Str → Str → List (Str × Key) → List (Ev V) → Bool → Bool
  | _, _, _, [], b => b
  | rem, cur, ids, .op o :: r, b =>
    wPresent pre k p live (match o with | .setPid _ => rem | _ => cur) (nextActual cur o) (ids ++ (newParams o).map idOf) r
      (b || opTouch pre k p rem cur ids o)
  | _, _, _, .spawn q :: r, b => wPresent pre k p live q q [] r b
  | rem, cur, ids, .dead q :: r, b =>
    wPresent pre k p live rem cur (if q = rem ∨ q = cur then [] else ids) r (b && !(decide (q = p) && live))

theorem ownsCell_eq (cur pre p : Str) (k : Key) (q : Params) (hc : '_' ∉ cur) (hp : '_' ∉ p) :
    ownsCell cur (fileName pre p) k q = (decide (cur = p) && decide ((pre, k) = idOf q)) := by
  unfold ownsCell idOf
  by_cases hcp : cur = p
  · subst hcp
    simp only [decide_true, Bool.true_and]
    apply decide_eq_decide.mpr
    constructor
    · rintro ⟨e1, e2⟩
      rw [(fileName_inj _ _ _ _ hc hc e1).1, e2]
    · intro e
      simp only [Prod.mk.injEq] at e
      rw [← e.1, ← e.2]; exact ⟨rfl, rfl⟩
  · have : ¬ (fileName (filePrefix q) cur = fileName pre p ∧ mmapKey q = k) :=
      fun h => hcp (fileName_inj _ _ _ _ hc hp h.1).2
    simp [this, hcp]

theorem any_ownsCell (vs : List (ValueObj V)) (cur pre p : Str) (k : Key) (hc : '_' ∉ cur) (hp : '_' ∉ p) :
    vs.any (fun v => ownsCell cur (fileName pre p) k v.params)
      = (decide (cur = p) && decide ((pre, k) ∈ vs.map (fun v => idOf v.params))) := by
  induction vs with
  | nil => simp
  | cons v r ih =>
    simp only [List.any_cons, List.map_cons, List.mem_cons, Bool.decide_or, ih, ownsCell_eq cur pre p k v.params hc hp]
    cases decide (cur = p) <;> simp

theorem touch_eq (st : St V) (o : Op V) (pre p : Str) (k : Key) (hid : IdOK st) (hp : '_' ∉ p) :
    touch st o (fileName pre p) k = opTouch pre k p st.pid st.actual (idsOf st) o := by
  have ha := any_ownsCell st.values st.actual pre p k hid.2 hp
  cases o with
  | setPid q => rfl
  | construct q =>
    simp only [touch, opTouch, ha, idsOf, ownsCell_eq st.actual pre p k q hid.2 hp]
    have : decide ((pre, k) = idOf q) = decide (idOf q = (pre, k)) := decide_eq_decide.mpr ⟨Eq.symm, Eq.symm⟩
    rw [this]
    cases decide (st.actual = p) <;> cases decide (st.pid ≠ st.actual) <;> simp
  | inc i a => simp only [touch, opTouch, ha, idsOf]; cases decide (st.actual = p) <;> cases decide (st.pid ≠ st.actual) <;> simp
  | set i x t => simp only [touch, opTouch, ha, idsOf]; cases decide (st.actual = p) <;> cases decide (st.pid ≠ st.actual) <;> simp
  | get i => simp only [touch, opTouch, ha, idsOf]; cases decide (st.actual = p) <;> cases decide (st.pid ≠ st.actual) <;> simp

/-- **which entries exist after a world history** (no uniqueness assumption): identity `p`'s file of prefix `pre` has an
    entry for key `k` iff it had one, or some call made while `p` was the acting identity constructed a value object on
    `(pre, k)` or re-bound one (first call after an identity change) — and, for a live-gauge file, no later
    `mark_process_dead(p)` removed it. -/
theorem wrun_has (vo : VOps V) (pre : Str) (k : Key) (p : Str) (hp : '_' ∉ p) (evs : List (Ev V)) (st : St V)
    (hb : Bound st) (hid : IdOK st) (hev : evsIdOK evs) :
    has (wrun vo st evs).disk (fileName pre p) k
      = wPresent pre k p (isLiveFileOf p (fileName pre p)) st.pid st.actual (idsOf st) evs (has st.disk (fileName pre p) k) := by
  induction evs generalizing st with
  | nil => rfl
  | cons e r ih =>
    rw [wrun_cons]
    have he : evIdOK e := hev e List.mem_cons_self
    rw [ih _ (wstep_bound vo st e hb hid he) (wstep_idOK vo st e hb hid he) (fun x hx => hev x (List.mem_cons_of_mem _ hx))]
    cases e with
    | spawn q => simp [wstep, wPresent, idsOf]
    | op o =>
      simp only [wstep, wPresent]
      rw [has_step vo st o hb, touch_eq st o pre p k hid hp, idsOf_step vo st o hb, step_actual vo st o hb,
        (step_pid vo st o hb).2]
      cases o <;> rfl
    | dead q =>
      simp only [wstep, wPresent]
      have hl : isLiveFileOf q (fileName pre p) = (decide (q = p) && isLiveFileOf p (fileName pre p)) := by
        by_cases e : q = p
        · subst e; simp
        · have : isLiveFileOf q (fileName pre p) = false := by
            cases h : isLiveFileOf q (fileName pre p) with
            | false => rfl
            | true => exact absurd (isLiveFileOf_fileName q pre p he hp h).symm e
          simp [this, e]
      by_cases hq : q = st.pid ∨ q = st.actual
      · simp only [hq, if_true]
        show wPresent pre k p _ st.pid st.actual [] r (has (deadDisk q st.disk) _ _) = _
        rw [has_deadDisk, hl]
      · simp only [hq, if_false]
        show wPresent pre k p _ st.pid st.actual (idsOf st) r (has (deadDisk q st.disk) _ _) = _
        rw [has_deadDisk, hl]

end PromVerif.Model.Values
