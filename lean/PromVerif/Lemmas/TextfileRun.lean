/-
Lemmas about the effect lists the GENERATED skeleton of `write_to_textfile` compiles to (C18): their shape, that every
step is private to the writer's temporary path, where the only completed rename sits, and what the private view is when
it is reached.
-/
import PromVerif.Lemmas.Textfile

namespace PromVerif.Model.Textfile
open PromVerif.Generated.Textfile

/-! ### the pieces of `f.write(data)` concatenate to the exposition -/

def flat (cs : List (Content × Bool)) : Content := (cs.map (·.1)).flatten

theorem flat_chunksOf : ∀ (cuts : List (Nat × Bool)) (fin : Bool) (d : Content), flat (chunksOf cuts fin d) = d := by
  intro cuts
  induction cuts with
  | nil => intro fin d; simp [chunksOf, flat]
  | cons a r ih =>
    intro fin d
    obtain ⟨n, fl⟩ := a
    have := ih fin (d.drop n)
    simp only [flat] at this
    simp [chunksOf, flat, this]

theorem flat_chunks (P : Params) : flat P.chunks = P.new := flat_chunksOf _ _ _

/-! ### shape of the compiled body -/

def collectEffs (P : Params) : List (Eff × Option Path) :=
  (List.range P.collectors.length).map fun i => (Eff.collect i, some P.tmp)

def writeEffs (P : Params) : List (Eff × Option Path) :=
  P.chunks.map fun c => (Eff.write P.tmp c.1 c.2, some P.tmp)

/-- everything before the rename -/
def pre (P : Params) : List (Eff × Option Path) :=
  (Eff.openTrunc P.tmp, none) :: (collectEffs P ++ (Eff.encode, some P.tmp) :: (writeEffs P ++ [(Eff.close P.tmp, none)]))

theorem body_eq (P : Params) : body P = pre P ++ [(Eff.rename P.tmp P.target, none)] := by
  simp [body, tryBody, compile, Params.res, pre, collectEffs, writeEffs]

theorem handlerEffs_eq (P : Params) :
    handlerEffs P = [Eff.pathExists P.tmp, Eff.removeIfSeen P.tmp, Eff.reraise] := by
  simp [handlerEffs, handler, upToReraise, compile, Params.res]

theorem body_length (P : Params) : (body P).length = P.collectors.length + P.chunks.length + 4 := by
  simp [body_eq, pre, collectEffs, writeEffs]; omega

def notRename : Eff → Bool
  | .rename _ _ => false
  | _ => true

def notRemove : Eff → Bool
  | .removeIfSeen _ => false
  | .remove _ => false
  | _ => true

theorem mem_pre {P : Params} {x : Eff × Option Path} (hx : x ∈ pre P) :
    isPrivate P.tmp P.target x.1 = true ∧ notRename x.1 = true ∧ notRemove x.1 = true ∧
      (∀ h, x.2 = some h → h = P.tmp) := by
  simp only [pre, collectEffs, writeEffs, List.mem_cons, List.mem_append, List.mem_map, List.not_mem_nil,
    or_false] at hx
  rcases hx with rfl | ⟨i, _, rfl⟩ | rfl | ⟨a, _, rfl⟩ | rfl <;> simp [isPrivate, notRename, notRemove]

theorem isRen_normal {e : Eff} (h : notRename e = true) : isRen (normal e) = false := by
  cases e <;> simp_all [isRen, normal, notRename]

theorem isRen_faulted (e : Eff) (n : Nat) : isRen (e, some n) = false := by
  cases e <;> rfl

theorem isRemoval_normal {e : Eff} (h1 : notRename e = true) (h2 : notRemove e = true) :
    isRemoval (normal e) = false := by
  cases e <;> simp_all [isRemoval, normal, notRename, notRemove]

theorem isRemoval_faulted (e : Eff) (n : Nat) : isRemoval (e, some n) = false := by
  cases e <;> rfl

theorem normalRun_eq (P : Params) :
    normalRun P = (pre P).map (fun x => normal x.1) ++ [normal (Eff.rename P.tmp P.target)] := by
  simp [normalRun, body_eq]

/-- where the steps of a faulted run come from -/
theorem mem_faultedRun {P : Params} {f : Fault} (h : f.pos < (body P).length) {s : Step}
    (hs : s ∈ faultedRun P f) :
    (∃ x ∈ pre P, s = normal x.1) ∨ (∃ x ∈ body P, s = (x.1, some f.part)) ∨ s = normal (Eff.close P.tmp) ∨
      (catches caughtClass f.exc.cls = true ∧
        (s = normal (Eff.pathExists P.tmp) ∨ s = normal (Eff.removeIfSeen P.tmp) ∨ s = normal Eff.reraise)) := by
  unfold faultedRun at hs
  have hget : (body P)[f.pos]? = some (body P)[f.pos] := List.getElem?_eq_getElem h
  rw [hget] at hs
  simp only [List.mem_append, List.mem_map, List.mem_singleton] at hs
  have hlen : f.pos ≤ (pre P).length := by
    have := h; rw [body_eq] at this; simp at this; omega
  rcases hs with ((⟨x, hx, rfl⟩ | rfl) | hw) | hh
  · left
    rw [body_eq, List.take_append_of_le_length hlen] at hx
    exact ⟨x, List.mem_of_mem_take hx, rfl⟩
  · right; left
    exact ⟨(body P)[f.pos], List.getElem_mem h, rfl⟩
  · right; right; left
    obtain ⟨y, hy⟩ : ∃ y, (body P)[f.pos] = y := ⟨_, rfl⟩
    have hmem : y ∈ body P := hy ▸ List.getElem_mem h
    rw [hy] at hw
    rw [body_eq] at hmem
    rcases List.mem_append.mp hmem with hm | hm
    · have := (mem_pre hm).2.2.2
      cases hw2 : y.2 with
      | none => rw [hw2] at hw; simp at hw
      | some p =>
        rw [hw2] at hw
        have hp := this p hw2
        subst hp
        simpa using hw
    · simp at hm
      rw [hm] at hw
      simp at hw
  · right; right; right
    by_cases hc : catches caughtClass f.exc.cls = true
    · rw [if_pos hc, handlerEffs_eq] at hh
      simp at hh
      exact ⟨hc, hh⟩
    · rw [if_neg hc] at hh
      simp at hh

theorem mem_body_private {P : Params} {x : Eff × Option Path} (hx : x ∈ body P) :
    isPrivate P.tmp P.target x.1 = true := by
  rw [body_eq] at hx
  rcases List.mem_append.mp hx with h | h
  · exact (mem_pre h).1
  · simp at h; subst h; simp [isPrivate]

theorem normalRun_private (P : Params) : AllPrivate P.tmp P.target (normalRun P) := by
  intro s hs
  simp only [normalRun, List.mem_map] at hs
  obtain ⟨x, hx, rfl⟩ := hs
  exact mem_body_private hx

theorem faultedRun_private (P : Params) (f : Fault) : AllPrivate P.tmp P.target (faultedRun P f) := by
  by_cases h : f.pos < (body P).length
  · intro s hs
    rcases mem_faultedRun h hs with ⟨x, hx, rfl⟩ | ⟨x, hx, rfl⟩ | rfl | ⟨_, rfl | rfl | rfl⟩
    · exact (mem_pre hx).1
    · exact mem_body_private hx
    all_goals simp [normal, isPrivate]
  · have : (body P)[f.pos]? = none := List.getElem?_eq_none (by omega)
    simp only [faultedRun, this]
    exact normalRun_private P

/-- a run in which some effect raised contains no completed rename -/
theorem faultedRun_noRen {P : Params} {f : Fault} (h : f.pos < (body P).length) :
    ∀ s ∈ faultedRun P f, isRen s = false := by
  intro s hs
  rcases mem_faultedRun h hs with ⟨x, hx, rfl⟩ | ⟨x, _, rfl⟩ | rfl | ⟨_, rfl | rfl | rfl⟩
  · exact isRen_normal (mem_pre hx).2.1
  · exact isRen_faulted _ _
  all_goals rfl

/-- …and, when the handler does not run, nothing that removes the temporary file -/
theorem faultedRun_noRemoval {P : Params} {f : Fault} (h : f.pos < (body P).length)
    (hc : catches caughtClass f.exc.cls = false) : ∀ s ∈ faultedRun P f, isRemoval s = false := by
  intro s hs
  rcases mem_faultedRun h hs with ⟨x, hx, rfl⟩ | ⟨x, _, rfl⟩ | rfl | ⟨h1, _⟩
  · exact isRemoval_normal (mem_pre hx).2.1 (mem_pre hx).2.2.1
  · exact isRemoval_faulted _ _
  · rfl
  · rw [hc] at h1; cases h1

/-- a run that faults after the open starts with the completed open -/
theorem faultedRun_head {P : Params} {f : Fault} (h0 : 1 ≤ f.pos) (h : f.pos < (body P).length) :
    ∃ tl, faultedRun P f = normal (Eff.openTrunc P.tmp) :: tl := by
  unfold faultedRun
  have hget : (body P)[f.pos]? = some (body P)[f.pos] := List.getElem?_eq_getElem h
  rw [hget]
  obtain ⟨p, hp⟩ : ∃ p, f.pos = p + 1 := ⟨f.pos - 1, by omega⟩
  simp only [hp, body_eq, pre, List.cons_append, List.take_succ_cons, List.map_cons]
  exact ⟨_, rfl⟩

/-- a caught fault ends with the handler -/
theorem faultedRun_caught {P : Params} {f : Fault} (h : f.pos < (body P).length)
    (hc : catches caughtClass f.exc.cls = true) :
    ∃ front, faultedRun P f = front ++ [normal (Eff.pathExists P.tmp), normal (Eff.removeIfSeen P.tmp), normal Eff.reraise] := by
  unfold faultedRun
  have hget : (body P)[f.pos]? = some (body P)[f.pos] := List.getElem?_eq_getElem h
  rw [hget, if_pos hc, handlerEffs_eq]
  exact ⟨_, rfl⟩

/-! ### the private view along the run -/

theorem execV_collects (l : List Nat) (v : View) : execV (l.map fun i => normal (Eff.collect i)) v = v := by
  induction l with
  | nil => rfl
  | cons i r ih =>
    rw [List.map_cons, execV_cons]
    have : stepV (normal (Eff.collect i)) v = v := rfl
    rw [this]; exact ih

theorem execV_writes (p : Path) : ∀ (cs : List (Content × Bool)) (f b : Content) (s : Bool),
    ∃ f' b', execV (cs.map fun c => normal (Eff.write p c.1 c.2)) ⟨some f, ⟨b, s⟩⟩ = ⟨some f', ⟨b', s⟩⟩ ∧
      f' ++ b' = f ++ b ++ flat cs := by
  intro cs
  induction cs with
  | nil => intro f b s; exact ⟨f, b, rfl, by simp [flat]⟩
  | cons c r ih =>
    intro f b s
    obtain ⟨x, fl⟩ := c
    cases fl with
    | true =>
      obtain ⟨f', b', h1, h2⟩ := ih (f ++ (b ++ x)) [] s
      refine ⟨f', b', ?_, ?_⟩
      · simpa [normal, stepV] using h1
      · rw [h2]; simp [flat]
    | false =>
      obtain ⟨f', b', h1, h2⟩ := ih f (b ++ x) s
      refine ⟨f', b', ?_, ?_⟩
      · simpa [normal, stepV] using h1
      · rw [h2]; simp [flat]

/-- when the rename is reached the temporary file holds exactly the complete exposition and nothing is buffered -/
theorem execV_pre (P : Params) (v : View) :
    execV ((pre P).map fun x => normal x.1) v = ⟨some P.new, ⟨[], v.loc.seen⟩⟩ := by
  have e1 : (collectEffs P).map (fun x => normal x.1)
      = (List.range P.collectors.length).map fun i => normal (Eff.collect i) := by simp [collectEffs]
  have e2 : (writeEffs P).map (fun x => normal x.1)
      = P.chunks.map fun c => normal (Eff.write P.tmp c.1 c.2) := by simp [writeEffs]
  simp only [pre, List.map_cons, List.map_append, execV_cons, execV_append, e1, e2, execV_collects]
  obtain ⟨f', b', h1, h2⟩ := execV_writes P.tmp P.chunks [] [] v.loc.seen
  have h0 : stepV (normal (Eff.openTrunc P.tmp)) v = ⟨some [], ⟨[], v.loc.seen⟩⟩ := rfl
  have h3 : ∀ w : View, stepV (normal Eff.encode) w = w := fun _ => rfl
  rw [h0, h3, h1]
  simp [normal, stepV, h2, flat_chunks] at h2 ⊢

theorem normalRun_ready (P : Params) (v : View) : Ready P.new (normalRun P) v := by
  rw [normalRun_eq, Ready_append]
  refine ⟨Ready_of_noRen _ _ _ ?_, ?_⟩
  · intro s hs
    obtain ⟨x, hx, rfl⟩ := List.mem_map.mp hs
    exact isRen_normal (mem_pre hx).2.1
  · rw [execV_pre]
    exact ⟨fun _ => rfl, trivial⟩

theorem execV_normalRun (P : Params) (v : View) : execV (normalRun P) v = ⟨none, ⟨[], v.loc.seen⟩⟩ := by
  rw [normalRun_eq, execV_append, execV_pre]
  simp [normal, stepV]

theorem faultedRun_ready (P : Params) (f : Fault) (v : View) : Ready P.new (faultedRun P f) v := by
  by_cases h : f.pos < (body P).length
  · exact Ready_of_noRen _ _ _ (faultedRun_noRen h)
  · have : (body P)[f.pos]? = none := List.getElem?_eq_none (by omega)
    simp only [faultedRun, this]
    exact normalRun_ready P v

theorem faultedRun_past_end {P : Params} {f : Fault} (h : (body P).length ≤ f.pos) : faultedRun P f = normalRun P := by
  have : (body P)[f.pos]? = none := List.getElem?_eq_none h
  simp only [faultedRun, this]

/-- the temporary file, once there, stays until something removes it -/
theorem execV_keeps_file : ∀ (ss : List Step) (v : View), (∀ s ∈ ss, isRemoval s = false) →
    v.file.isSome = true → (execV ss v).file.isSome = true := by
  intro ss
  induction ss with
  | nil => intro v _ h; exact h
  | cons s r ih =>
    intro v hn hv
    rw [execV_cons]
    apply ih _ (fun x hx => hn x (List.mem_cons_of_mem _ hx))
    have h0 := hn s List.mem_cons_self
    obtain ⟨e, o⟩ := s
    cases o with
    | none =>
      cases e with
      | write p x fl => cases fl <;> simp [stepV, hv]
      | rename a b => simp [isRemoval] at h0
      | removeIfSeen p => simp [isRemoval] at h0
      | remove p => simp [isRemoval] at h0
      | _ => simp [stepV, hv]
    | some n =>
      cases e with
      | openTrunc p => by_cases hz : n = 0 <;> simp [stepV, hz, hv]
      | _ => simp [stepV, hv]

/-- what the handler leaves: no temporary file -/
theorem handler_removes (p : Path) (c : Cfg) :
    (exec [normal (Eff.pathExists p), normal (Eff.removeIfSeen p), normal Eff.reraise] c).fs.get p = none := by
  cases h : c.fs.get p <;> simp [exec, applyStep, applyNormal, normal, h]

end PromVerif.Model.Textfile
