/-
"Duplicate label names are rejected", on TEXT: a rendered label block `k1="v1",k2="v2",…` (names accepted by
`_validate_labelname`, legacy or quoted; arbitrary values, escaped) that names one label twice makes
`parse_labels(…, True)` raise ValueError; so does the sample line carrying it.  Built on the C03/C04 label-block
lemmas (Lemmas/TextParseLabels.lean, Lemmas/OMRtLabels.lean): the loop parses every first occurrence, then hits
`if label_name in labels: raise ValueError`.
-/
import PromVerif.Lemmas.OMRtSample
import PromVerif.Lemmas.OMRtNh

set_option autoImplicit false

namespace PromVerif.Lemmas.OMRt
open PromVerif.Py PromVerif.Model PromVerif.Model.Escape PromVerif.Model.ParseCore PromVerif.Model.Validation
open PromVerif.Model.OMParse PromVerif.Lemmas.Escape PromVerif.Lemmas.Scanner
open PromVerif.Lemmas.TextParse PromVerif.Model.TextExpo
open PromVerif.Lemmas.OM (oneLabelBody parseOneLabel_om_eq omTail nextTerm_om_no_comma nextTerm_om_comma_cons)

/-- the loop body on a rendered item whose name is already present: `raise ValueError` -/
theorem oneLabelBody_item_dup {legacy : Bool} {kv : Str × Str} (h : labelNameOK legacy kv.1 = true) (rest : Str)
    (acc : List (Str × Str)) (hdup : acc.any (fun x => x.1 == kv.1) = true) :
    oneLabelBody legacy acc (labelItem kv) rest = .error .valueError := by
  unfold oneLabelBody
  obtain ⟨q, hq1, hq2⟩ := unquote_nameTok h
  have htake : List.take (escapeLabelName kv.1).length (labelItem kv) = escapeLabelName kv.1 := by
    rw [labelItem_eq]; exact List.take_left
  have hdrop : List.drop ((escapeLabelName kv.1).length + 1) (labelItem kv) = '"' :: (escape kv.2 ++ ['"']) := by
    rw [labelItem_eq, ← List.drop_drop, List.drop_left]; rfl
  have hname : (kv.1 == "__name__".toList) = false := by simpa using labelNameOK_ne_name h
  have hlen : ((escape kv.2).length + 1 + 1 != ('"' :: (escape kv.2 ++ ['"'])).length) = false := by simp
  have htk : List.take ((escape kv.2).length + 1 + 1) ('"' :: (escape kv.2 ++ ['"'])) = '"' :: (escape kv.2 ++ ['"']) := by
    apply List.take_of_length_le; simp
  simp only [bind, Except.bind, pure, Except.pure, item_nonempty, Bool.false_eq_true, ↓reduceIte, scan_item_eq h, htake, hq1,
    hdrop, hq2, strip_quoted, findClosingQuote_quoted, hlen, htk, unquoteUnescape_quoted, hname,
    labelNameOK_validate h, hdup]
  rfl

/-- `,item…` for an item whose name is already present -/
theorem parseOneLabel_om_item_dup {legacy : Bool} {kv : Str × Str} (h : labelNameOK legacy kv.1 = true) (r : List (Str × Str))
    (acc : List (Str × Str)) (hdup : acc.any (fun x => x.1 == kv.1) = true) :
    parseOneLabel legacy true (',' :: (labelItem kv ++ tailStr r)) acc = .error .valueError := by
  have hp := space_item_pass h false
  have hne : (if false then [' '] else []) ++ labelItem kv ≠ [] := by
    have := item_nonempty kv
    cases hh : labelItem kv <;> simp_all
  obtain ⟨a, t, e, hac, _⟩ := item_head h
  have ht := omTail_term hp hne r
  rw [strip_space_item h false] at ht
  simp only [Bool.false_eq_true, ↓reduceIte, List.nil_append] at ht
  have hnt : nextTerm (',' :: (labelItem kv ++ tailStr r)) true = .ok (labelItem kv, tailStr r) := by
    rw [show labelItem kv ++ tailStr r = a :: (t ++ tailStr r) by simp [e]]
    rw [nextTerm_om_comma_cons a _ hac]
    rw [show a :: (t ++ tailStr r) = labelItem kv ++ tailStr r by simp [e]]
    exact ht
  rw [parseOneLabel_om_eq, hnt]
  simp only [bind, Except.bind, item_nonempty, Bool.false_eq_true, ↓reduceIte]
  exact oneLabelBody_item_dup h _ acc hdup

/-- the loop on `,item,item…` rejects as soon as a name repeats -/
theorem loop_tail_om_dup {legacy : Bool} : ∀ (r acc : List (Str × Str)) (fuel : Nat), r.length ≤ fuel →
    (∀ kv ∈ r, labelNameOK legacy kv.1 = true) → (acc.map (·.1)).Nodup → ¬ ((acc ++ r).map (·.1)).Nodup →
    parseLabelsLoop legacy true fuel (tailStr r) acc = .error .valueError := by
  intro r
  induction r with
  | nil => intro acc fuel _ _ hnd hnot; simp at hnot; exact absurd hnd hnot
  | cons kv r ih =>
    intro acc fuel hf hok hnd hnot
    cases fuel with
    | zero => simp at hf
    | succ f =>
      rw [tailStr_cons, parseLabelsLoop]
      simp only [List.isEmpty_cons, Bool.false_eq_true, ↓reduceIte, bind, Except.bind]
      by_cases hin : kv.1 ∈ acc.map (·.1)
      · have hdup : acc.any (fun x => x.1 == kv.1) = true := by
          obtain ⟨x, hx, he⟩ := List.mem_map.mp hin
          exact List.any_eq_true.mpr ⟨x, hx, by simp [he]⟩
        rw [parseOneLabel_om_item_dup (hok kv (by simp)) r acc hdup]
      · have hfresh : acc.any (fun x => x.1 == kv.1) = false := any_key_false hin
        have hstep := parseOneLabel_om_item (hok kv (by simp)) r true false acc hfresh
        simp only [↓reduceIte, List.cons_append, List.nil_append, Bool.false_eq_true] at hstep
        rw [hstep]
        dsimp only
        apply ih (acc ++ [kv]) f (by simp at hf; omega) (fun x hx => hok x (by simp [hx]))
        · rw [List.map_append, List.nodup_append]
          refine ⟨hnd, by simp, ?_⟩
          intro a ha b hb
          simp only [List.map_cons, List.map_nil, List.mem_singleton] at hb
          subst hb
          intro e; subst e; exact hin ha
        · simpa using hnot

/-- **a label block that names a label twice is rejected** (`parse_labels(block, True)` raises ValueError), for any
names accepted by `_validate_labelname` and any values -/
theorem parseLabels_om_dup {legacy : Bool} (kv : Str × Str) (r : List (Str × Str))
    (hok : ∀ x ∈ kv :: r, labelNameOK legacy x.1 = true) (hdup : ¬ ((kv :: r).map (·.1)).Nodup) :
    parseLabels legacy (labelItem kv ++ tailStr r) true = .error .valueError := by
  have hkv := hok kv (by simp)
  obtain ⟨a, t, e, hac, hs⟩ := item_head hkv
  have hlast : (labelItem kv ++ tailStr r).getLast? = some '"' := by
    rw [List.getLast?_append]
    by_cases hr : r = []
    · subst hr; simp [tailStr, item_last]
    · rw [tail_last r hr]; rfl
  have hstrip : strip (labelItem kv ++ tailStr r) = labelItem kv ++ tailStr r :=
    strip_last_quote (a := a) (by rw [e]; rfl) hs hlast
  have hhd : ((labelItem kv ++ tailStr r).head? == some ',') = false := by
    rw [e]; simpa using hac
  unfold parseLabels
  simp only [hstrip, hhd, Bool.and_false, Bool.false_eq_true, ↓reduceIte]
  rw [parseLabelsLoop]
  have hne : (labelItem kv ++ tailStr r).isEmpty = false := by rw [e]; rfl
  have hstep := parseOneLabel_om_item hkv r false false [] rfl
  simp only [Bool.false_eq_true, ↓reduceIte, List.nil_append] at hstep
  simp only [hne, Bool.false_eq_true, ↓reduceIte, bind, Except.bind, hstep]
  exact loop_tail_om_dup r [kv] _ (by have := tailStr_length r; simp; omega) (fun x hx => hok x (by simp [hx])) (by simp)
    (by simpa using hdup)

/-- the sample line `name{block} rest` with such a block is rejected by `_parse_sample` -/
theorem parseSample_labels_dup (P : Params) {n : Str} (hv : isValidLegacyMetricName n = true) (kv : Str × Str) (r : List (Str × Str))
    (hok : ∀ x ∈ kv :: r, labelNameOK P.legacy x.1 = true) (hdup : ¬ ((kv :: r).map (·.1)).Nodup) (rem : Str) :
    parseSample P (n ++ '{' :: (labelItem kv ++ tailStr r ++ '}' :: ' ' :: rem)) = .error .valueError := by
  obtain ⟨hne, hc⟩ := legacyName_chars hv (legacyMetric_no_newline hv)
  have hls : nextUnquotedChar (n ++ '{' :: (labelItem kv ++ tailStr r ++ '}' :: ' ' :: rem)) (· == '{') = some n.length :=
    scan_pass_hit (pass_plain (plainFor_legacy (fun c h => legacyChar_eq_false h (by decide)) hc)) '{' _ (by decide) (by decide)
  have hpre : Pass rbChs (n ++ '{' :: (labelItem kv ++ tailStr r)) := by
    have h1 : Pass rbChs n := pass_plain (plainFor_legacy (fun c h => legacyChar_eq_false h (by decide)) hc)
    have h2 : Pass rbChs ['{'] := pass_plain (by intro c hc; simp at hc; subst hc; exact ⟨by decide, by decide, by decide⟩)
    have h3 : Pass rbChs (labelItem kv) := item_pass rbChs_safe (by decide) (hok kv (by simp))
    have h4 : Pass rbChs (tailStr r) := tail_pass rbChs_safe (by decide) (by decide) r (fun x hx => hok x (by simp [hx]))
    have := pass_append h1 (pass_append h2 (pass_append h3 h4))
    simpa using this
  have hle : nextUnquotedChar (n ++ '{' :: (labelItem kv ++ tailStr r ++ '}' :: ' ' :: rem)) (· == '}') =
      some (n ++ '{' :: (labelItem kv ++ tailStr r)).length := by
    have := scan_pass_hit hpre '}' (' ' :: rem) (by decide) (by decide)
    rw [← this]; congr 1; simp
  have hinf : isInfix OMParse.sepHash n = false :=
    isInfix_of_not_mem (c := ' ') (by decide) (fun hm => legacyChar_ne (hc _ hm) (by decide) rfl)
  have hlen2 : (n ++ '{' :: (labelItem kv ++ tailStr r)).length ≤ (n ++ '{' :: (labelItem kv ++ tailStr r ++ '}' :: ' ' :: rem)).length := by
    simp
  have hblock : pySlice (n ++ '{' :: (labelItem kv ++ tailStr r ++ '}' :: ' ' :: rem)) ((n.length : Int) + 1)
      ((n ++ '{' :: (labelItem kv ++ tailStr r)).length : Int) = labelItem kv ++ tailStr r := by
    have := pySlice_nat (n ++ '{' :: (labelItem kv ++ tailStr r ++ '}' :: ' ' :: rem)) n.length 1 _ hlen2
    simp only [Int.cast_ofNat_Int] at this
    rw [this]
    rw [show n ++ '{' :: (labelItem kv ++ tailStr r ++ '}' :: ' ' :: rem) =
      (n ++ '{' :: (labelItem kv ++ tailStr r)) ++ ('}' :: ' ' :: rem) by simp]
    rw [List.take_left]
    rw [show n ++ '{' :: (labelItem kv ++ tailStr r) = (n ++ ['{']) ++ (labelItem kv ++ tailStr r) by simp]
    rw [show n.length + 1 = (n ++ ['{']).length by simp]
    exact List.drop_left
  unfold parseSample
  simp only [hls, hle, List.take_left, hinf, Bool.false_eq_true, ↓reduceIte, optIdx, Int.ofNat_eq_natCast, hblock,
    parseLabels_om_dup kv r hok hdup, bind, Except.bind]

end PromVerif.Lemmas.OMRt
