/-
C12: ONE child, both collections, after `normalise`: the same set of `((sample name, sorted labels), value)` pairs.
-/
import PromVerif.Lemmas.BackendsNorm

namespace PromVerif.Lemmas.Backends
open PromVerif.Py PromVerif.Generated.Multiprocess
open PromVerif.Model.Metrics (Val Decl Kind Child Action Sample childSamples)
open PromVerif.Model.Multiprocess
open PromVerif.Model.Values
open PromVerif.Model.Backends
open PromVerif.Spec.Metrics (Hist)
open PromVerif.Spec.Multiprocess (SFile Contrib normTs kindOf)
open PromVerif.Spec.Backends
open PromVerif.Lemmas.Metrics (childOf)
set_option autoImplicit false
set_option linter.unusedSectionVars false

variable {V : Type} [Val V] {B : Type} [DecidableEq B]

/-- a plain cell: both sides normalise to `((name + suffix, sorted labels), value)` -/
theorem plain_pair (d : MDecl V) (ns : Str → Labels → Bool) (hln : d.decl.labelnames.Nodup)
    (hpid : pidMode d = true → "pid".toList ∉ d.decl.labelnames) (key : List Str)
    (hmr : (isMostRecent d && ns d.decl.name (plainLabels d key)) = false) (sfx : Str)
    (hsfx : (hasCreated d.decl.kind && decide (d.decl.name ++ sfx = d.decl.name ++ "_created".toList)) = false) (v : V) :
    normD d ns (d.decl.name ++ sfx) (pyDict (plainLabels d key)) v = some ((d.decl.name ++ sfx, plainLabels d key), v) ∧
    normD d ns (d.decl.name ++ sfx) (d.decl.labelnames.zip key ++ []) v = some ((d.decl.name ++ sfx, plainLabels d key), v) := by
  constructor
  · rw [normD_eval d ns _ _ v hsfx (by rw [normLabels_mp_plain d hln hpid key]; exact hmr),
      normLabels_mp_plain d hln hpid key]
  · rw [normD_eval d ns _ _ v hsfx (by rw [normLabels_in_plain d hln hpid key]; exact hmr),
      normLabels_in_plain d hln hpid key]

theorem exists_mem_singleton {α : Type} (a : α) (P : α → Prop) : (∃ x ∈ [a], P x) ↔ P a := by simp

theorem exists_mem_pair {α : Type} (a b : α) (P : α → Prop) : (∃ x ∈ [a, b], P x) ↔ P a ∨ P b := by simp

theorem nongauge_flags (d : MDecl V) (hg : isGauge d = false) : isMostRecent d = false ∧ pidMode d = false := by
  simp [isMostRecent, pidMode, hg]

/-- **counter / summary children** -/
theorem child_norm_sum (d : MDecl V) (hln : d.decl.labelnames.Nodup) (hk : d.decl.kind = .counter ∨ d.decl.kind = .summary)
    (hz : ∀ a : V, Val.add Val.zero a = a) (ns : Str → Labels → Bool) (pid : Str) (disk : List (Str × Store V))
    (ka : List Str × List (Action V))
    (hcells : ∀ (pos : Nat) (p : Params) (v : V), (cellParams d ka.1)[pos]? = some p →
      (cellValues d (childOf d.decl ka.2))[pos]? = some v → (cv pid disk p).1 = v)
    (bo : BOps B) (Bs : List B) (kv : SKey × V) :
    (∃ x ∈ mpChild bo Bs d pid disk ka, normD d ns (mpFlat d x).name (mpFlat d x).labels (mpFlat d x).value = some kv) ↔
      (∃ f ∈ inChild d ka, normD d ns f.name f.labels f.value = some kv) := by
  have hg : isGauge d = false := by rcases hk with hk | hk <;> simp [isGauge, hk]
  obtain ⟨hmr, hpm⟩ := nongauge_flags d hg
  have hpid : pidMode d = true → "pid".toList ∉ d.decl.labelnames := fun h => by rw [hpm] at h; cases h
  have hmr' : (isMostRecent d && ns d.decl.name (plainLabels d ka.1)) = false := by rw [hmr]; rfl
  rcases hk with hk | hk
  · -- counter
    have hp : cellParams d ka.1 = [plainParam d sCounter sTotal [] ka.1] := by rw [cellParams_eq]; simp only [hk]
    have hv : (cv pid disk (plainParam d sCounter sTotal [] ka.1)).1 = (childOf d.decl ka.2).value :=
      hcells 0 _ _ (by rw [hp]; rfl) (by simp [cellValues, hk])
    have hpp := plain_pair d ns hln hpid ka.1 hmr' sTotal (not_created d sTotal (by decide)) (childOf d.decl ka.2).value
    simp only [mpChild, hk, plainSeries, hp, List.map_cons, List.map_nil, inChild, childSamples, exists_mem_singleton,
      mpFlat]
    have e1 : (mmapKey (plainParam d sCounter sTotal [] ka.1)).name = d.decl.name ++ sTotal := rfl
    have e2 : (mmapKey (plainParam d sCounter sTotal [] ka.1)).labels = plainLabels d ka.1 := mmapKey_labels _ hln
    have e3 : ∀ x : V, (voOf V).add (voOf V).zero x = x := hz
    rw [e1, e2, hv, e3, hpp.1]
    show _ ↔ normD d ns (d.decl.name ++ sTotal) _ _ = some kv
    rw [hpp.2]
  · -- summary
    have hp : cellParams d ka.1 = [plainParam d sSummary sCount [] ka.1, plainParam d sSummary sSum [] ka.1] := by
      rw [cellParams_eq]; simp only [hk]
    have hv1 : (cv pid disk (plainParam d sSummary sCount [] ka.1)).1 = (childOf d.decl ka.2).count :=
      hcells 0 _ _ (by rw [hp]; rfl) (by simp [cellValues, hk])
    have hv2 : (cv pid disk (plainParam d sSummary sSum [] ka.1)).1 = (childOf d.decl ka.2).sum :=
      hcells 1 _ _ (by rw [hp]; rfl) (by simp [cellValues, hk])
    have hpp1 := plain_pair d ns hln hpid ka.1 hmr' sCount (not_created d sCount (by decide)) (childOf d.decl ka.2).count
    have hpp2 := plain_pair d ns hln hpid ka.1 hmr' sSum (not_created d sSum (by decide)) (childOf d.decl ka.2).sum
    simp only [mpChild, hk, plainSeries, hp, List.map_cons, List.map_nil, inChild, childSamples, exists_mem_pair, mpFlat]
    have e1 : (mmapKey (plainParam d sSummary sCount [] ka.1)).name = d.decl.name ++ sCount := rfl
    have e1' : (mmapKey (plainParam d sSummary sSum [] ka.1)).name = d.decl.name ++ sSum := rfl
    have e2 : (mmapKey (plainParam d sSummary sCount [] ka.1)).labels = plainLabels d ka.1 := mmapKey_labels _ hln
    have e2' : (mmapKey (plainParam d sSummary sSum [] ka.1)).labels = plainLabels d ka.1 := mmapKey_labels _ hln
    have e3 : ∀ x : V, (voOf V).add (voOf V).zero x = x := hz
    rw [e1, e1', e2, e2', hv1, hv2, e3, e3, hpp1.1, hpp2.1]
    show _ ↔ normD d ns (d.decl.name ++ sCount) _ _ = some kv ∨ normD d ns (d.decl.name ++ sSum) _ _ = some kv
    rw [hpp1.2, hpp2.2]

theorem pidMode_iff : ∀ m ∈ gaugeModes,
    (decide (m = "all".toList) || decide (m = "liveall".toList)) = decide (kindOf gaugeType m = .gaugeAll) := by decide

theorem mostRecent_iff : ∀ m ∈ gaugeModes,
    mostRecentModes.contains m = decide (kindOf gaugeType m = .gaugeMostRecent) := by decide

theorem gauge_not_created (d : MDecl V) (hk : d.decl.kind = .gauge) (x : Bool) : (hasCreated d.decl.kind && x) = false := by
  rw [hk]; rfl

/-- **gauge children**, every mode -/
theorem child_norm_gauge (d : MDecl V) (hln : d.decl.labelnames.Nodup) (hk : d.decl.kind = .gauge)
    (hmode : d.mode ∈ gaugeModes) (hnopid : pidLabel ∉ d.decl.labelnames)
    (hz : ∀ a : V, Val.add Val.zero a = a) (hlt : Val.lt (Val.zero : V) Val.zero = false)
    (ns : Str → Labels → Bool) (pid : Str) (disk : List (Str × Store V)) (ka : List Str × List (Action V))
    (hns : isMostRecent d = true → ns d.decl.name (plainLabels d ka.1) = !hasSet ka.2)
    (hcells : ∀ (pos : Nat) (p : Params) (v : V), (cellParams d ka.1)[pos]? = some p →
      (cellValues d (childOf d.decl ka.2))[pos]? = some v → (cv pid disk p).1 = v)
    (hts : isMostRecent d = true → ∀ p ∈ cellParams d ka.1, TsOK ka.2 (cv pid disk p).2)
    (bo : BOps B) (Bs : List B) (kv : SKey × V) :
    (∃ x ∈ mpChild bo Bs d pid disk ka, normD d ns (mpFlat d x).name (mpFlat d x).labels (mpFlat d x).value = some kv) ↔
      (∃ f ∈ inChild d ka, normD d ns f.name f.labels f.value = some kv) := by
  have hg : isGauge d = true := by simp [isGauge, hk]
  have hpidl : "pid".toList ∉ d.decl.labelnames := by rw [← pidLabel_eq]; exact hnopid
  have hpid : pidMode d = true → "pid".toList ∉ d.decl.labelnames := fun _ => hpidl
  have hp : cellParams d ka.1 = [plainParam d sGauge [] d.mode ka.1] := gauge_params d hk ka.1
  have hv : (cv pid disk (plainParam d sGauge [] d.mode ka.1)).1 = (childOf d.decl ka.2).value :=
    hcells 0 _ _ (by rw [hp]; rfl) (by simp [cellValues, hk])
  have e1 : (mmapKey (plainParam d sGauge [] d.mode ka.1)).name = d.decl.name ++ [] := rfl
  have e2 : (mmapKey (plainParam d sGauge [] d.mode ka.1)).labels = plainLabels d ka.1 := mmapKey_labels _ hln
  have e3 : ∀ x : V, (voOf V).add (voOf V).zero x = x := hz
  have hpm : pidMode d = decide (kindOf gaugeType d.mode = .gaugeAll) := by
    simp only [pidMode, hg, Bool.true_and]; exact pidMode_iff d.mode hmode
  have hmrk : isMostRecent d = decide (kindOf gaugeType d.mode = .gaugeMostRecent) := by
    simp only [isMostRecent, hg, Bool.true_and]; exact mostRecent_iff d.mode hmode
  have hnc := gauge_not_created d hk
  -- the in-process side: one sample
  have hin : (∃ f ∈ inChild d ka, normD d ns f.name f.labels f.value = some kv) ↔
      normD d ns (d.decl.name ++ []) (d.decl.labelnames.zip ka.1 ++ []) (childOf d.decl ka.2).value = some kv := by
    simp only [inChild, childSamples, hk, List.map_cons, List.map_nil, exists_mem_singleton]
  rw [hin]
  rcases rule_kind d.mode hmode with ⟨_, hkd⟩ | ⟨_, hkd⟩ | ⟨_, hkd⟩ | ⟨_, hkd⟩ | ⟨_, hkd⟩
  · -- min
    have hmr : isMostRecent d = false := by rw [hmrk, hkd]; rfl
    have hmr' : (isMostRecent d && ns d.decl.name (plainLabels d ka.1)) = false := by rw [hmr]; rfl
    have hpp := plain_pair d ns hln hpid ka.1 hmr' [] (hnc _) (childOf d.decl ka.2).value
    simp only [mpChild, hk, hkd, plainSeries, hp, List.map_cons, List.map_nil, exists_mem_singleton, mpFlat]
    rw [e1, e2, hv, hpp.1, hpp.2]
  · -- max
    have hmr : isMostRecent d = false := by rw [hmrk, hkd]; rfl
    have hmr' : (isMostRecent d && ns d.decl.name (plainLabels d ka.1)) = false := by rw [hmr]; rfl
    have hpp := plain_pair d ns hln hpid ka.1 hmr' [] (hnc _) (childOf d.decl ka.2).value
    simp only [mpChild, hk, hkd, plainSeries, hp, List.map_cons, List.map_nil, exists_mem_singleton, mpFlat]
    rw [e1, e2, hv, hpp.1, hpp.2]
  · -- sum
    have hmr : isMostRecent d = false := by rw [hmrk, hkd]; rfl
    have hmr' : (isMostRecent d && ns d.decl.name (plainLabels d ka.1)) = false := by rw [hmr]; rfl
    have hpp := plain_pair d ns hln hpid ka.1 hmr' [] (hnc _) (childOf d.decl ka.2).value
    simp only [mpChild, hk, hkd, plainSeries, hp, List.map_cons, List.map_nil, exists_mem_singleton, mpFlat]
    rw [e1, e2, hv, e3, hpp.1, hpp.2]
  · -- mostrecent
    have hmr : isMostRecent d = true := by rw [hmrk, hkd]; rfl
    have hpmf : pidMode d = false := by rw [hpm, hkd]; rfl
    have hnsv := hns hmr
    have htsv := hts hmr _ (by rw [hp]; exact List.mem_cons_self)
    have hnl : normLabels d (d.decl.labelnames.zip ka.1 ++ []) = plainLabels d ka.1 := normLabels_in_plain d hln hpid ka.1
    have hnl' : normLabels d (pyDict (plainLabels d ka.1)) = plainLabels d ka.1 := normLabels_mp_plain d hln hpid ka.1
    simp only [mpChild, hk, hkd, hp, List.filterMap_cons, List.filterMap_nil]
    cases hset : hasSet ka.2 with
    | false =>
      have hzero := htsv.1 hset
      have hnt : (voOf V).lt (voOf V).zero (normTs (voOf V) (cv pid disk (plainParam d sGauge [] d.mode ka.1)).2) = false := by
        rw [hzero]
        have : normTs (voOf V) (Val.zero : V) = Val.zero := by unfold normTs; split <;> rfl
        rw [this]; exact hlt
      rw [hnt]
      simp only [Bool.false_eq_true, if_false, List.not_mem_nil, false_and, exists_false, false_iff]
      unfold normD
      rw [hnc]
      simp only [Bool.false_eq_true, if_false]
      rw [hnl, hmr, hnsv, hset]
      simp
    | true =>
      obtain ⟨ht1, ht2⟩ := htsv.2 hset
      have hnt : (voOf V).lt (voOf V).zero (normTs (voOf V) (cv pid disk (plainParam d sGauge [] d.mode ka.1)).2) = true := by
        have : normTs (voOf V) (cv pid disk (plainParam d sGauge [] d.mode ka.1)).2
            = (cv pid disk (plainParam d sGauge [] d.mode ka.1)).2 := by unfold normTs; rw [if_pos ht1]
        rw [this]; exact ht2
      rw [hnt]
      simp only [if_true, exists_mem_singleton, mpFlat]
      have hmr' : (isMostRecent d && ns d.decl.name (plainLabels d ka.1)) = false := by rw [hnsv, hset]; simp
      have hpp := plain_pair d ns hln hpid ka.1 hmr' [] (hnc _) (childOf d.decl ka.2).value
      rw [e1, e2, hv, hpp.1, hpp.2]
  · -- all / liveall
    have hmr : isMostRecent d = false := by rw [hmrk, hkd]; rfl
    have hpmt : pidMode d = true := by rw [hpm, hkd]; rfl
    simp only [mpChild, hk, hkd, hp, List.map_cons, List.map_nil, exists_mem_singleton, mpFlat]
    rw [e1, e2, hv]
    have h1 : normD d ns (d.decl.name ++ []) (pyDict (plainLabels d ka.1 ++ [("pid".toList, pid)])) (childOf d.decl ka.2).value
        = some ((d.decl.name ++ [], plainLabels d ka.1), (childOf d.decl ka.2).value) := by
      rw [normD_eval d ns _ _ _ (hnc _) (by rw [hmr]; rfl), normLabels_mp_pid d hln hpid ka.1 hpmt pid]
    have h2 : normD d ns (d.decl.name ++ []) (d.decl.labelnames.zip ka.1 ++ []) (childOf d.decl ka.2).value
        = some ((d.decl.name ++ [], plainLabels d ka.1), (childOf d.decl ka.2).value) := by
      rw [normD_eval d ns _ _ _ (hnc _) (by rw [hmr]; rfl), normLabels_in_plain d hln hpid ka.1]
    rw [h1, h2]

/-! ### histogram children -/

theorem leTexts_hist (d : MDecl V) (bs : List (V × Str)) (hk : d.decl.kind = .histogram bs) :
    leTexts d = bs.map (fun b => Model.Utils.floatToGoString b.2) := by
  unfold leTexts; simp only [hk]

/-- the stored bucket cells of a child are the in-memory (non-cumulative) buckets, in bound order -/
theorem bucket_cells (d : MDecl V) (bs : List (V × Str)) (hk : d.decl.kind = .histogram bs) (pid : Str)
    (disk : List (Str × Store V)) (ka : List Str × List (Action V))
    (hcells : ∀ (pos : Nat) (p : Params) (v : V), (cellParams d ka.1)[pos]? = some p →
      (cellValues d (childOf d.decl ka.2))[pos]? = some v → (cv pid disk p).1 = v) :
    (cv pid disk (plainParam d sHistogram sSum [] ka.1)).1 = (childOf d.decl ka.2).sum ∧
    (leTexts d).map (fun t => (cv pid disk (bucketParam d ka.1 t)).1) = (childOf d.decl ka.2).buckets := by
  have hp : cellParams d ka.1 = plainParam d sHistogram sSum [] ka.1 :: (leTexts d).map (bucketParam d ka.1) := by
    rw [cellParams_eq]; simp only [hk]
  have hcv : cellValues d (childOf d.decl ka.2) = (childOf d.decl ka.2).sum :: (childOf d.decl ka.2).buckets := by
    simp [cellValues, hk]
  have hlen := cells_length d ka.1 ka.2
  rw [hp, hcv] at hlen
  simp only [List.length_cons, List.length_map] at hlen
  refine ⟨hcells 0 _ _ (by rw [hp]; rfl) (by rw [hcv]; rfl), ?_⟩
  apply List.ext_getElem?
  intro j
  rw [List.getElem?_map]
  cases ht : (leTexts d)[j]? with
  | none =>
    have := List.getElem?_eq_none_iff.mp ht
    have h2 : (childOf d.decl ka.2).buckets[j]? = none := List.getElem?_eq_none_iff.mpr (by omega)
    rw [h2]; rfl
  | some t =>
    have hj := (List.getElem?_eq_some_iff.mp ht).1
    have hb : j < (childOf d.decl ka.2).buckets.length := by omega
    rw [List.getElem?_eq_getElem hb]
    simp only [Option.map_some, Option.some.injEq]
    apply hcells (j + 1) _ _
    · rw [hp, List.getElem?_cons_succ, List.getElem?_map, ht]; rfl
    · rw [hcv, List.getElem?_cons_succ, List.getElem?_eq_getElem hb]

/-- the multiprocess series of a histogram child, spelled out: `_sum`, the cumulated buckets by `le` text, `_count` -/
theorem mp_hist_list (bo : BOps B) (Bs : List B) (d : MDecl V) (hw : WFDeclB bo Bs d) (bs : List (V × Str))
    (hk : d.decl.kind = .histogram bs) (hz : ∀ a : V, Val.add Val.zero a = a) (pid : Str) (disk : List (Str × Store V))
    (ka : List Str × List (Action V))
    (hcells : ∀ (pos : Nat) (p : Params) (v : V), (cellParams d ka.1)[pos]? = some p →
      (cellValues d (childOf d.decl ka.2))[pos]? = some v → (cv pid disk p).1 = v) :
    mpChild bo Bs d pid disk ka
      = ((d.decl.name ++ sSum, plainLabels d ka.1), (childOf d.decl ka.2).sum) ::
        (((leTexts d).zip (Model.Metrics.cumulate Val.zero (childOf d.decl ka.2).buckets)).map (fun ta =>
            ((d.decl.name ++ "_bucket".toList, plainLabels d ka.1 ++ [("le".toList, ta.1)]), ta.2))
          ++ [((d.decl.name ++ "_count".toList, plainLabels d ka.1),
              (childOf d.decl ka.2).buckets.foldl Val.add Val.zero)]) := by
  obtain ⟨hsum, hbuckets⟩ := bucket_cells d bs hk pid disk ka hcells
  have hbv : bucketVals bo d pid disk Bs ka = (childOf d.decl ka.2).buckets := by
    unfold bucketVals
    rw [← hbuckets, hw.bounds.texts, List.map_map]
    rfl
  have hlenB : (childOf d.decl ka.2).buckets.length = Bs.length := by
    rw [← hbv]; simp [bucketVals]
  have e3 : ∀ x : V, (voOf V).add (voOf V).zero x = x := hz
  simp only [mpChild, hk]
  rw [hsum, e3]
  congr 1
  unfold Lemmas.Backends.childSeries
  simp only [hbv]
  rw [map_zero_add hz, cumulate_zip, hw.bounds.texts, List.zip_map_left, List.map_map]
  congr 1
  unfold Spec.Multiprocess.aggSum
  rw [List.map_snd_zip (by omega)]
  rfl

/-- the in-process samples of a histogram child whose `_sum` is exposed -/
theorem in_hist_list (d : MDecl V) (bs : List (V × Str)) (hk : d.decl.kind = .histogram bs)
    (hsum : Model.Metrics.sumExposed (bs.map (·.1)) = true) (ka : List Str × List (Action V)) :
    inChild d ka
      = ((leTexts d).zip (Model.Metrics.cumulate Val.zero (childOf d.decl ka.2).buckets)).map (fun ta =>
            (⟨d.decl.name, d.decl.name ++ "_bucket".toList, d.decl.labelnames.zip ka.1 ++ [("le".toList, ta.1)], ta.2⟩ : Flat V))
        ++ [⟨d.decl.name, d.decl.name ++ "_count".toList, d.decl.labelnames.zip ka.1 ++ [],
              ((Model.Metrics.cumulate Val.zero (childOf d.decl ka.2).buckets).getLast?).getD Val.zero⟩,
            ⟨d.decl.name, d.decl.name ++ "_sum".toList, d.decl.labelnames.zip ka.1 ++ [], (childOf d.decl ka.2).sum⟩] := by
  unfold inChild
  simp only [childSamples, hk, hsum, if_true, List.map_append, List.map_cons, List.map_nil, List.map_map,
    List.append_assoc, List.cons_append, List.nil_append]
  congr 1
  rw [leTexts_hist d bs hk, List.zip_map_left, List.map_map]
  rfl

/-- **histogram children** (whose `_sum` is exposed in-process) -/
theorem child_norm_hist (bo : BOps B) (Bs : List B) (d : MDecl V) (hw : WFDeclB bo Bs d) (bs : List (V × Str))
    (hk : d.decl.kind = .histogram bs) (hsum : Model.Metrics.sumExposed (bs.map (·.1)) = true)
    (hz : ∀ a : V, Val.add Val.zero a = a) (ns : Str → Labels → Bool) (pid : Str) (disk : List (Str × Store V))
    (ka : List Str × List (Action V))
    (hcells : ∀ (pos : Nat) (p : Params) (v : V), (cellParams d ka.1)[pos]? = some p →
      (cellValues d (childOf d.decl ka.2))[pos]? = some v → (cv pid disk p).1 = v)
    (kv : SKey × V) :
    (∃ x ∈ mpChild bo Bs d pid disk ka, normD d ns (mpFlat d x).name (mpFlat d x).labels (mpFlat d x).value = some kv) ↔
      (∃ f ∈ inChild d ka, normD d ns f.name f.labels f.value = some kv) := by
  have hln := hw.wf.lnNodup
  have hg : isGauge d = false := by simp [isGauge, hk]
  obtain ⟨hmr, hpm⟩ := nongauge_flags d hg
  have hpid : pidMode d = true → "pid".toList ∉ d.decl.labelnames := fun h => by rw [hpm] at h; cases h
  have hmr' : ∀ x, (isMostRecent d && x) = false := fun x => by rw [hmr]; rfl
  rw [mp_hist_list bo Bs d hw bs hk hz pid disk ka hcells, in_hist_list d bs hk hsum ka]
  -- the three kinds of sample, normalised
  have hS := plain_pair d ns hln hpid ka.1 (hmr' _) sSum (not_created d sSum (by decide)) (childOf d.decl ka.2).sum
  have hC1 := plain_pair d ns hln hpid ka.1 (hmr' _) sCount (not_created d sCount (by decide))
    ((childOf d.decl ka.2).buckets.foldl Val.add Val.zero)
  have hC2 := plain_pair d ns hln hpid ka.1 (hmr' _) sCount (not_created d sCount (by decide))
    (((Model.Metrics.cumulate Val.zero (childOf d.decl ka.2).buckets).getLast?).getD Val.zero)
  rw [cumulate_last_fold] at hC2
  have hBk : ∀ (t : Str) (a : V),
      normD d ns (d.decl.name ++ sBucket) (pyDict (plainLabels d ka.1 ++ [(leName, t)])) a
        = normD d ns (d.decl.name ++ sBucket) (d.decl.labelnames.zip ka.1 ++ [(leName, t)]) a := by
    intro t a
    rw [normD_eval d ns _ _ a (not_created d sBucket (by decide)) (hmr' _),
      normD_eval d ns _ _ a (not_created d sBucket (by decide)) (hmr' _),
      normLabels_bucket d hln hpid ka.1 hpm hw.wf.noLe t]
  simp only [List.mem_cons, List.mem_append, List.mem_map, List.mem_singleton, List.not_mem_nil, or_false, mpFlat]
  constructor
  · rintro ⟨x, (rfl | ⟨ta, hta, rfl⟩ | rfl), hx⟩
    · refine ⟨_, Or.inr (Or.inr rfl), ?_⟩
      simp only at hx ⊢
      rw [hS.1] at hx
      show normD d ns (d.decl.name ++ sSum) _ _ = some kv
      rw [hS.2]; exact hx
    · refine ⟨_, Or.inl ⟨ta, hta, rfl⟩, ?_⟩
      simp only at hx ⊢
      have := hBk ta.1 ta.2
      exact this ▸ hx
    · refine ⟨_, Or.inr (Or.inl rfl), ?_⟩
      simp only at hx ⊢
      have hx' : normD d ns (d.decl.name ++ sCount) (pyDict (plainLabels d ka.1))
          ((childOf d.decl ka.2).buckets.foldl Val.add Val.zero) = some kv := hx
      rw [hC1.1] at hx'
      show normD d ns (d.decl.name ++ sCount) _ _ = some kv
      rw [cumulate_last_fold, hC2.2]; exact hx'
  · rintro ⟨f, (⟨ta, hta, rfl⟩ | rfl | rfl), hf⟩
    · refine ⟨_, Or.inr (Or.inl ⟨ta, hta, rfl⟩), ?_⟩
      simp only at hf ⊢
      have := hBk ta.1 ta.2
      exact this ▸ hf
    · refine ⟨_, Or.inr (Or.inr rfl), ?_⟩
      simp only at hf ⊢
      have hf' : normD d ns (d.decl.name ++ sCount) (d.decl.labelnames.zip ka.1 ++ [])
          (((Model.Metrics.cumulate Val.zero (childOf d.decl ka.2).buckets).getLast?).getD Val.zero) = some kv := hf
      rw [cumulate_last_fold, hC2.2] at hf'
      show normD d ns (d.decl.name ++ sCount) (pyDict (plainLabels d ka.1)) _ = some kv
      rw [hC1.1]; exact hf'
    · refine ⟨_, Or.inl rfl, ?_⟩
      simp only at hf ⊢
      have hf' : normD d ns (d.decl.name ++ sSum) (d.decl.labelnames.zip ka.1 ++ []) (childOf d.decl ka.2).sum = some kv := hf
      rw [hS.2] at hf'
      rw [hS.1]; exact hf'

/-- **one child, any of the four types**: after `normalise`, the multiprocess series of the child and its in-process
samples are the same set -/
theorem child_norm (bo : BOps B) (Bs : List B) (d : MDecl V) (hw : WFDeclB bo Bs d)
    (hnopid : isGauge d = true → pidLabel ∉ d.decl.labelnames)
    (hsum : ∀ bs, d.decl.kind = Kind.histogram bs → Model.Metrics.sumExposed (bs.map (·.1)) = true)
    (hz : ∀ a : V, Val.add Val.zero a = a) (hlt : Val.lt (Val.zero : V) Val.zero = false)
    (ns : Str → Labels → Bool) (pid : Str) (disk : List (Str × Store V)) (ka : List Str × List (Action V))
    (hns : isMostRecent d = true → ns d.decl.name (plainLabels d ka.1) = !hasSet ka.2)
    (hcells : ∀ (pos : Nat) (p : Params) (v : V), (cellParams d ka.1)[pos]? = some p →
      (cellValues d (childOf d.decl ka.2))[pos]? = some v → (cv pid disk p).1 = v)
    (hts : isMostRecent d = true → ∀ p ∈ cellParams d ka.1, TsOK ka.2 (cv pid disk p).2)
    (kv : SKey × V) :
    (∃ x ∈ mpChild bo Bs d pid disk ka, normD d ns (mpFlat d x).name (mpFlat d x).labels (mpFlat d x).value = some kv) ↔
      (∃ f ∈ inChild d ka, normD d ns f.name f.labels f.value = some kv) := by
  cases hk : d.decl.kind with
  | counter => exact child_norm_sum d hw.wf.lnNodup (Or.inl hk) hz ns pid disk ka hcells bo Bs kv
  | summary => exact child_norm_sum d hw.wf.lnNodup (Or.inr hk) hz ns pid disk ka hcells bo Bs kv
  | gauge =>
    have hg : isGauge d = true := by simp [isGauge, hk]
    exact child_norm_gauge d hw.wf.lnNodup hk (hw.mode hg) (hnopid hg) hz hlt ns pid disk ka hns hcells hts bo Bs kv
  | histogram bs => exact child_norm_hist bo Bs d hw bs hk (hsum bs hk) hz ns pid disk ka hcells kv
  | info => exact absurd hw.wf.sup (by simp [Supported, hk])
  | enum s => exact absurd hw.wf.sup (by simp [Supported, hk])

end PromVerif.Lemmas.Backends
