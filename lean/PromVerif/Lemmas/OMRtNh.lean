/-
C04: the native-histogram detector `_parse_nh_sample` declines every line the exposition writes for a float-valued
sample — also a bucket line with an exemplar, whose tail ` # {…} v` has a '{' after the value: the detector looks for an
unquoted '{' after the metric's own label block and returns `None` when an unquoted '#' comes before it.
-/
import PromVerif.Lemmas.OMRtSample2

set_option autoImplicit false

namespace PromVerif.Lemmas.OMRt
open PromVerif.Py PromVerif.Model PromVerif.Model.Escape PromVerif.Model.ParseCore PromVerif.Model.Validation
open PromVerif.Model.OMParse PromVerif.Spec.OMRoundtrip PromVerif.Lemmas.Escape PromVerif.Lemmas.Scanner
open PromVerif.Lemmas.TextParse PromVerif.Model.TextExpo

theorem run_snd (s : Str) : ∀ (q o : Bool), (Scanner.run s q o).2 = s.foldl bsStep o := by
  induction s with
  | nil => intro q o; rfl
  | cons c cs ih => intro q o; simp only [Scanner.run, List.foldl_cons]; exact ih _ _

theorem trailOdd_of_pass {chs : Char → Bool} {s : Str} (h : Pass chs s) : trailOdd s = false := by
  have := run_snd s false false
  rw [h.2] at this
  exact this.symm

theorem trailOdd_snoc_ne (x : Str) (c : Char) (hc : c ≠ '\\') : trailOdd (x ++ [c]) = false := by
  rw [trailOdd_append_singleton]
  have : (c == '\\') = false := by simpa using hc
  simp [bsStep, this]

/-- scanning from a start index: only the text from there on matters (given even backslash parity before it) -/
theorem nextUnquoted_from_even (pre t : Str) (chs : Char → Bool) (h : trailOdd pre = false) :
    nextUnquotedChar (pre ++ t) chs pre.length = (scan chs t false false).map (· + pre.length) := by
  rw [nextUnquotedChar_from, foldl_bsStep_eq, h]

/-- the tail of the detector, once the end `i` of the metric definition is known: the text after it is `[ ]remainder` -/
theorem nh_tail (sp : Bool) (pre : Str) (hpre : trailOdd pre = false) {vtok : Str} {ts : Option Str}
    {ex : Option (List (Str × Str) × Str × Option Str)} (ht : RemTok vtok ts ex) :
    (match nextUnquotedChar (pre ++ ((if sp then [' '] else []) ++ remText vtok ts ex)) (· == '{') pre.length with
     | none => true
     | some vs =>
       match nextUnquotedChar (pre ++ ((if sp then [' '] else []) ++ remText vtok ts ex)) (· == '#') pre.length with
       | some hx => decide (hx < vs)
       | none => false) = true := by
  rw [nextUnquoted_from_even _ _ _ hpre, nextUnquoted_from_even _ _ _ hpre]
  cases ex with
  | none =>
    have := scan_rem_none sp ht.v ts ht.ts
    unfold lbChs at this
    rw [this]; rfl
  | some x =>
    obtain ⟨L, etok, ets⟩ := x
    have := scan_rem_some sp ht.v ts ht.ts L etok ets
    unfold lbChs hashChs at this
    rw [this.1, this.2]
    simp

def spLbChs : Char → Bool := fun c => c == ' ' || c == '{'

/-- a bare name followed by the remainder: not a native histogram -/
theorem nhDetect_bare {n : Str} (hv : isValidLegacyMetricName n = true) {vtok : Str} {ts : Option Str}
    {ex : Option (List (Str × Str) × Str × Option Str)} (ht : RemTok vtok ts ex) :
    nhDetect (n ++ ' ' :: remText vtok ts ex) = .ok none := by
  obtain ⟨hne, hc⟩ := legacyName_chars hv (legacyMetric_no_newline hv)
  have hn : Pass spLbChs n := pass_plain (plainFor_legacy (fun c h => by
    simp [spLbChs, legacyChar_eq_false h (show isLegacyChar ' ' = false by decide),
      legacyChar_eq_false h (show isLegacyChar '{' = false by decide)]) hc)
  have h0 : nextUnquotedChar (n ++ ' ' :: remText vtok ts ex) (fun c => c == ' ' || c == '{') = some n.length :=
    scan_pass_hit hn ' ' _ (by decide) (by decide)
  have hget : (n ++ ' ' :: remText vtok ts ex)[n.length]? = some ' ' := by simp
  have htail := nh_tail false (n ++ [' ']) (trailOdd_snoc_ne n ' ' (by decide)) ht
  simp only [Bool.false_eq_true, ↓reduceIte, List.nil_append, List.append_assoc, List.singleton_append, List.length_append,
    List.length_cons, List.length_nil, Nat.zero_add] at htail
  unfold nhDetect
  simp only [h0, hget, show (some ' ' == some '{') = false from rfl, Bool.false_eq_true, ↓reduceIte]
  cases h1 : nextUnquotedChar (n ++ ' ' :: remText vtok ts ex) (fun x => x == '{') (n.length + 1) with
  | none => rfl
  | some vs =>
    rw [h1] at htail
    simp only [] at htail ⊢
    cases h2 : nextUnquotedChar (n ++ ' ' :: remText vtok ts ex) (fun x => x == '#') (n.length + 1) with
    | none => rw [h2] at htail; cases htail
    | some hx =>
      rw [h2] at htail
      simp only [] at htail ⊢
      simp only [htail, ↓reduceIte]

/-- a head with a label block `H{B}` followed by the remainder: not a native histogram -/
theorem nhDetect_braced (H0 B : Str) (hH : Pass spLbChs H0) (hB : Pass rbChs ('{' :: B)) {vtok : Str} {ts : Option Str}
    {ex : Option (List (Str × Str) × Str × Option Str)} (ht : RemTok vtok ts ex) :
    nhDetect (H0 ++ '{' :: (B ++ '}' :: ' ' :: remText vtok ts ex)) = .ok none := by
  have h0 : nextUnquotedChar (H0 ++ '{' :: (B ++ '}' :: ' ' :: remText vtok ts ex)) (fun c => c == ' ' || c == '{') = some H0.length :=
    scan_pass_hit hH '{' _ (by decide) (by decide)
  have hget : (H0 ++ '{' :: (B ++ '}' :: ' ' :: remText vtok ts ex))[H0.length]? = some '{' := by simp
  have he : nextUnquotedChar (H0 ++ '{' :: (B ++ '}' :: ' ' :: remText vtok ts ex)) (· == '}') H0.length =
      some (H0 ++ '{' :: B).length := by
    rw [nextUnquoted_from_even _ _ _ (trailOdd_of_pass hH)]
    rw [show '{' :: (B ++ '}' :: ' ' :: remText vtok ts ex) = ('{' :: B) ++ '}' :: (' ' :: remText vtok ts ex) by simp]
    show (scan rbChs _ false false).map _ = _
    rw [scan_append_of_noHit _ _ _ _ _ hB.1, hB.2, scan_hit rbChs '}' _ false (by decide) (by decide)]
    simp; omega
  have htail := nh_tail true (H0 ++ '{' :: B ++ ['}']) (trailOdd_snoc_ne _ '}' (by decide)) ht
  simp only [↓reduceIte, List.cons_append, List.nil_append, List.append_assoc, List.singleton_append] at htail
  have hlen : (H0 ++ '{' :: (B ++ ['}'])).length = (H0 ++ '{' :: B).length + 1 := by simp; omega
  rw [hlen] at htail
  unfold nhDetect
  simp only [h0, hget, beq_self_eq_true, ↓reduceIte, he]
  cases h1 : nextUnquotedChar (H0 ++ '{' :: (B ++ '}' :: ' ' :: remText vtok ts ex)) (fun x => x == '{') ((H0 ++ '{' :: B).length + 1) with
  | none => rfl
  | some vs =>
    rw [h1] at htail
    simp only [] at htail ⊢
    cases h2 : nextUnquotedChar (H0 ++ '{' :: (B ++ '}' :: ' ' :: remText vtok ts ex)) (fun x => x == '#') ((H0 ++ '{' :: B).length + 1) with
    | none => rw [h2] at htail; cases htail
    | some hx =>
      rw [h2] at htail
      simp only [] at htail ⊢
      simp only [htail, ↓reduceIte]

theorem parseNhSample_of_detect (P : Params) (text : Str) (suff : List Str) (h : nhDetect text = .ok none) :
    parseNhSample P text suff = .ok none := by
  unfold parseNhSample; rw [h]

theorem parseNhLine_of_detect (P : Params) (text : Str) (h : nhDetect text = .ok none) : parseNhLine P text = .ok none := by
  unfold parseNhLine
  have : lookupTable tHistogram Generated.OMParse.typeSuffixes ≠ none := by decide
  cases hl : lookupTable tHistogram Generated.OMParse.typeSuffixes with
  | none => exact absurd hl this
  | some suff => exact parseNhSample_of_detect P text suff h

end PromVerif.Lemmas.OMRt
