/-
C01 helper lemmas, part 10: what the constructors guarantee.  `Histogram._prepare_buckets` returns bounds that are
sorted by `<=`, end in `+Inf` and are at least two — for bounds WITHOUT NaN.  (With a NaN bound the real check
`buckets != sorted(buckets)` is blind: `sorted` cannot order around a NaN and list equality compares identical objects
by identity, so `Histogram(buckets=[2.0, nan, 1.0])` is accepted by the library; NaN bounds are outside the property's
"sorted bucket layouts" and outside this model, whose `sortedAdjacent` is the check for NaN-free lists.)
-/
import PromVerif.Lemmas.MetricsCollect

namespace PromVerif.Lemmas.Metrics
open PromVerif.Py PromVerif.Model.Metrics PromVerif.Generated.Metrics

variable {V : Type} [Val V]

/-- the IEEE facts about `+Inf` the constructor theorem uses: every value that is `<=` itself (not NaN) is `<= +Inf`;
only `+Inf` is `== +Inf` -/
structure InfLaws (V : Type) [Val V] : Prop where
  le_inf : ∀ x : V, Val.le x x = true → Val.le x Val.inf = true
  beq_inf : ∀ x : V, Val.beq x Val.inf = true → x = Val.inf

theorem sortedAdjacent_pairwise (htr : LeTrans V) :
    ∀ l : List V, sortedAdjacent l = true → l.Pairwise (fun x y => Val.le x y = true)
  | [], _ => List.Pairwise.nil
  | [a], _ => by simp
  | a :: b :: rest, h => by
    simp only [sortedAdjacent, Bool.and_eq_true] at h
    have ih := sortedAdjacent_pairwise htr (b :: rest) h.2
    refine List.Pairwise.cons ?_ ih
    intro x hx
    rcases List.mem_cons.mp hx with hx | hx
    · subst hx; exact h.1
    · exact htr a b x h.1 ((List.pairwise_cons.mp ih).1 x hx)

/-- **`_prepare_buckets`**: when it returns, the bounds are sorted by `<=`, the last one is `+Inf`, and there are at
least two -/
theorem prepareBuckets_ok (htr : LeTrans V) (hl : InfLaws V) (bs bounds : List (V × Str))
    (hnn : ∀ b ∈ bs, Val.le b.1 b.1 = true) (h : prepareBuckets bs = .ok bounds) :
    (bounds.map (·.1)).Pairwise (fun x y => Val.le x y = true) ∧ (bounds.map (·.1)).getLast? = some Val.inf ∧
      2 ≤ bounds.length := by
  unfold prepareBuckets at h
  split at h
  · simp at h
  · next hs =>
    have hsorted : sortedAdjacent (bs.map (·.1)) = true := by simpa using hs
    have hp := sortedAdjacent_pairwise htr _ hsorted
    cases hlast : bs.getLast? with
    | none =>
      have : bs = [] := List.getLast?_eq_none_iff.mp hlast
      subst this
      simp at h
    | some l =>
      simp only [hlast] at h
      by_cases hb : Val.beq l.1 Val.inf = true
      · simp only [hb, Bool.not_true, Bool.false_eq_true, if_false] at h
        split at h
        · simp at h
        · next hlen =>
          simp only [Except.ok.injEq] at h
          subst h
          refine ⟨hp, ?_, by omega⟩
          rw [List.getLast?_map, hlast]
          simp [hl.beq_inf l.1 hb]
      · have hb' : Val.beq l.1 Val.inf = false := by simpa using hb
        simp only [hb', Bool.not_false, if_true] at h
        split at h
        · simp at h
        · next hlen =>
          simp only [Except.ok.injEq] at h
          subst h
          refine ⟨?_, by simp, by omega⟩
          rw [List.map_append, List.pairwise_append]
          refine ⟨hp, by simp, ?_⟩
          intro x hx y hy
          simp at hy
          subst hy
          obtain ⟨b, hb1, hb2⟩ := List.mem_map.mp hx
          subst hb2
          exact hl.le_inf _ (hnn b hb1)

/-- what the caller must supply beyond what the constructors check: no NaN among the histogram bounds, pairwise
distinct enum states (the library accepts a repeated state and exposes it twice) -/
def InputsOK (d : Decl V) : Prop :=
  match d.kind with
  | .histogram bs => ∀ b ∈ bs, Val.le b.1 b.1 = true
  | .enum states => states.Nodup
  | _ => True

/-- the declaration a constructor returns: same name and label names; the histogram bounds prepared -/
theorem construct_shape (legacy : Bool) (d d' : Decl V) (h : construct legacy d = .ok d') :
    d'.name = d.name ∧ d'.labelnames = d.labelnames ∧
      (match d.kind with
        | .histogram bs => ∃ bounds, prepareBuckets bs = .ok bounds ∧ d'.kind = .histogram bounds
        | k => d'.kind = k) := by
  obtain ⟨name, kind, ln⟩ := d
  unfold construct at h
  cases kind with
  | histogram bs =>
    cases hp : prepareBuckets bs with
    | error e => simp [hp, bind, Except.bind, Except.map] at h
    | ok bounds =>
      simp only [hp, Except.map, bind, Except.bind] at h
      repeat' split at h
      all_goals first
        | (simp at h; done)
        | (simp only [pure, Except.pure, Except.ok.injEq] at h; subst h; exact ⟨rfl, rfl, bounds, hp, rfl⟩)
  | _ =>
    simp only [bind, Except.bind, pure, Except.pure] at h
    repeat' split at h
    all_goals first
      | (simp at h; done)
      | (simp only [Except.ok.injEq] at h; subst h; exact ⟨rfl, rfl, rfl⟩)

/-- **Every metric the constructors accept satisfies `GoodDecl`** (given NaN-free bounds / distinct states) -/
theorem construct_good (htr : LeTrans V) (hl : InfLaws V) (legacy : Bool) (d d' : Decl V)
    (hin : InputsOK d) (h : construct legacy d = .ok d') : GoodDecl d' := by
  obtain ⟨_, _, hk⟩ := construct_shape legacy d d' h
  unfold InputsOK at hin
  unfold GoodDecl
  cases hkind : d.kind with
  | histogram bs =>
    rw [hkind] at hk hin
    obtain ⟨bounds, hp, hk'⟩ := hk
    rw [hk']
    exact (prepareBuckets_ok htr hl bs bounds hin hp).1
  | enum states =>
    rw [hkind] at hk hin
    simp only at hk
    rw [hk]; exact hin
  | counter => rw [hkind] at hk; simp only at hk; rw [hk]; trivial
  | gauge => rw [hkind] at hk; simp only at hk; rw [hk]; trivial
  | summary => rw [hkind] at hk; simp only at hk; rw [hk]; trivial
  | info => rw [hkind] at hk; simp only at hk; rw [hk]; trivial

end PromVerif.Lemmas.Metrics
