/-
The writers of C18 as instances of the N-writer invariant: calls of `write_to_textfile` on one target, each with its own
temporary name, each fault-free or with one fault.
-/
import PromVerif.Lemmas.TextfileMany
import PromVerif.Lemmas.TextfileRun

namespace PromVerif.Model.Textfile
open PromVerif.Generated.Textfile

/-- what makes the writers independent: one target, and temporary names that differ from it and from each other
(`tmp_names_distinct`: the names are injective in (pid, thread ident)) -/
structure Independent (T : Path) (ws : List Writer) : Prop where
  same_target : ∀ i (h : i < ws.length), ws[i].1.target = T
  tmp_ne_target : ∀ i (h : i < ws.length), ws[i].1.tmp ≠ T
  tmp_distinct : ∀ i j (hi : i < ws.length) (hj : j < ws.length), i ≠ j → ws[i].1.tmp ≠ ws[j].1.tmp

def dataOf (fs0 : Fs) (ws : List Writer) : List WData :=
  ws.map fun w => ⟨w.1.tmp, w.1.new, execV (runOf w) ⟨fs0.get w.1.tmp, {}⟩⟩

@[simp] theorem dataOf_length (fs0 : Fs) (ws : List Writer) : (dataOf fs0 ws).length = ws.length := by simp [dataOf]

theorem dataOf_get (fs0 : Fs) (ws : List Writer) (j : Nat) (h : j < ws.length) :
    (dataOf fs0 ws)[j]'(by simp [h]) = ⟨ws[j].1.tmp, ws[j].1.new, execV (runOf ws[j]) ⟨fs0.get ws[j].1.tmp, {}⟩⟩ := by
  simp [dataOf]

theorem Independent.distinctN {T : Path} {ws : List Writer} (ind : Independent T ws) (fs0 : Fs) :
    DistinctN T (dataOf fs0 ws) := by
  constructor
  · intro j h
    have hj : j < ws.length := by simpa using h
    rw [dataOf_get fs0 ws j hj]; exact ind.tmp_ne_target j hj
  · intro i j hi hj e
    have hi' : i < ws.length := by simpa using hi
    have hj' : j < ws.length := by simpa using hj
    rw [dataOf_get fs0 ws i hi', dataOf_get fs0 ws j hj']; exact ind.tmp_distinct i j hi' hj' e

theorem initN_rem (fs0 : Fs) (ws : List Writer) (j : Nat) (h : j < ws.length) : remOf (initN fs0 ws) j = runOf ws[j] := by
  simp [remOf, initN, h]

theorem initN_loc (fs0 : Fs) (ws : List Writer) (j : Nat) (h : j < ws.length) : locOf (initN fs0 ws) j = {} := by
  simp [locOf, initN, h]

/-- the invariant holds before anybody has moved -/
theorem initN_inv {T : Path} {ws : List Writer} (ind : Independent T ws) (fs0 : Fs) :
    InvN T (dataOf fs0 ws) (initN fs0 ws) := by
  constructor
  · simp [initN]
  · simp [initN]
  · intro j h
    have hj : j < ws.length := by simpa using h
    rw [dataOf_get fs0 ws j hj, initN_rem fs0 ws j hj]
    have := faultedRun_private ws[j].1 ws[j].2
    rw [ind.same_target j hj] at this
    exact this
  · intro j h
    have hj : j < ws.length := by simpa using h
    rw [dataOf_get fs0 ws j hj, initN_rem fs0 ws j hj]
    exact faultedRun_ready _ _ _
  · intro j h
    have hj : j < ws.length := by simpa using h
    rw [dataOf_get fs0 ws j hj, initN_rem fs0 ws j hj]
    have hv : viewOf (initN fs0 ws) ws[j].1.tmp j = ⟨fs0.get ws[j].1.tmp, {}⟩ := by
      simp only [viewOf, view, initN_loc fs0 ws j hj]; rfl
    rw [hv]

/-- the handler, on the private view: no temporary file afterwards -/
theorem execV_handler_removes (p : Path) (v : View) :
    (execV [normal (Eff.pathExists p), normal (Eff.removeIfSeen p), normal Eff.reraise] v).file = none := by
  cases h : v.file <;> simp [execV, stepV, normal, h]

/-- a call that returned, or raised an exception the handler catches, ends without its temporary file -/
theorem execV_run_no_tmp (P : Params) (f : Fault) (v : View)
    (h : f.pos < (body P).length → catches caughtClass f.exc.cls = true) : (execV (faultedRun P f) v).file = none := by
  by_cases hp : f.pos < (body P).length
  · obtain ⟨front, hfr⟩ := faultedRun_caught hp (h hp)
    rw [hfr, execV_append]
    exact execV_handler_removes _ _
  · rw [faultedRun_past_end (by omega), execV_normalRun]

end PromVerif.Model.Textfile
