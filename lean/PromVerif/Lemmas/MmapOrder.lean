/-
C11: cuts are ordered — along the effects of a history every later state of the file represents an extension (`Ext`) of
every earlier one: entries are only ever appended, published entries keep their place.
-/
import PromVerif.Lemmas.MmapMixed
namespace PromVerif.Lemmas.Mmap
open PromVerif.Py PromVerif.Model.MmapDict PromVerif.Generated.Mmap

/-- from file `f` (representing `es`) the effects `tr` lead to `f'` (representing `es'`), every step extending -/
inductive Mono : Bytes → List Entry → List Effect → Bytes → List Entry → Prop
  | nil {f es} : CutRep f es → Mono f es [] f es
  | cons {f es e f1 es1 tr f' es'} : CutRep f es → applyEffect (some f) e = some f1 → Ext es es1 →
      Mono f1 es1 tr f' es' → Mono f es (e :: tr) f' es'

theorem Mono.start {f es tr f' es'} (h : Mono f es tr f' es') : CutRep f es := by
  cases h <;> assumption

theorem Mono.append {f es a f1 es1 b f2 es2} (h1 : Mono f es a f1 es1) (h2 : Mono f1 es1 b f2 es2) :
    Mono f es (a ++ b) f2 es2 := by
  induction h1 with
  | nil _ => exact h2
  | cons hc he hx _ ih => exact Mono.cons hc he hx (ih h2)

/-- the state after the first `j` effects: represented, an extension of the start, and the rest of the chain goes on from it -/
theorem Mono.at {f es tr f' es'} (h : Mono f es tr f' es') : ∀ j, ∃ g e,
    applyEffects (some f) (tr.take j) = some g ∧ CutRep g e ∧ Ext es e ∧ Mono g e (tr.drop j) f' es' := by
  induction h with
  | nil hc => intro j; exact ⟨_, _, by simp [applyEffects], hc, Ext.refl _, by simpa using Mono.nil hc⟩
  | @cons f es e f1 es1 tr f' es' hc he hx hm ih =>
    intro j
    cases j with
    | zero => exact ⟨f, es, by simp [applyEffects], hc, Ext.refl _, Mono.cons hc he hx hm⟩
    | succ j =>
      obtain ⟨g, e', h1, h2, h3, h4⟩ := ih j
      refine ⟨g, e', ?_, h2, hx.trans h3, by simpa using h4⟩
      simp only [List.take_succ_cons, applyEffects, List.foldl_cons, he]
      exact h1

/-- two cuts, the first not later than the second: the second represents an extension of the first -/
theorem Mono.pair {f es tr f' es'} (h : Mono f es tr f' es') (j1 j2 : Nat) (hj : j1 ≤ j2) : ∃ g1 e1 g2 e2,
    applyEffects (some f) (tr.take j1) = some g1 ∧ CutRep g1 e1 ∧
    applyEffects (some f) (tr.take j2) = some g2 ∧ CutRep g2 e2 ∧ Ext e1 e2 := by
  obtain ⟨g1, e1, h1, hc1, _, hrest⟩ := h.at j1
  obtain ⟨g2, e2, h2, hc2, hx, _⟩ := hrest.at (j2 - j1)
  refine ⟨g1, e1, g2, e2, h1, hc1, ?_, hc2, hx⟩
  have : tr.take j2 = tr.take j1 ++ (tr.drop j1).take (j2 - j1) := by
    rw [← List.take_add]; congr 1; omega
  rw [this, applyEffects_append, h1, h2]

theorem mono_truncs : ∀ (cs : List Nat) (f : Bytes) (u : Nat) (es : List Entry) (tl : Bytes), FileRep f u es tl →
    (keys es).Nodup → List.Pairwise (· ≤ ·) (f.length :: cs) →
    Mono f es (cs.map Effect.truncate) (f ++ zeros (lastCap f.length cs - f.length)) es := by
  intro cs
  induction cs with
  | nil => intro f u es tl h hn _; simpa [lastCap, zeros] using Mono.nil ⟨u, tl, h, hn⟩
  | cons c cs ih =>
    intro f u es tl h hn hp
    rw [List.pairwise_cons] at hp
    have hc : f.length ≤ c := hp.1 c (by simp)
    have hlast := le_lastCap cs c hp.2
    have := ih (f ++ zeros (c - f.length)) u es _ (h.append_zeros _) hn
      (by rw [List.length_append, zeros_length, show f.length + (c - f.length) = c by omega]; exact hp.2)
    rw [List.length_append, zeros_length, show f.length + (c - f.length) = c by omega, List.append_assoc, zeros_append,
      show c - f.length + (lastCap c cs - c) = lastCap c cs - f.length by omega] at this
    exact Mono.cons (f1 := f ++ zeros (c - f.length)) ⟨u, tl, h, hn⟩ (by simp [applyEffect, truncate_ge f c hc]) (Ext.refl _)
      (by simpa [lastCap] using this)

theorem initTrace_mono {d es tail} (h : Rep d es tail) (k : Key) (hk : k ∉ keys es) (caps : List Nat)
    (hb : d.used + entryLen k < 2147483648) (hpw : List.Pairwise (· ≤ ·) (d.capacity :: caps))
    (hneed : d.used + entryLen k ≤ lastCap d.capacity caps) :
    Mono d.file es (initTrace d.used k caps) (afterInit d es tail k (lastCap d.capacity caps)).file (es ++ [fresh k]) := by
  have hcap := h.cap
  have hpw' : List.Pairwise (· ≤ ·) (d.file.length :: caps) := by rw [← hcap]; exact hpw
  have hge := le_lastCap _ _ hpw
  have hce := h.cap_eq
  have hst := init_value_stages h.file k (lastCap d.capacity caps - d.capacity) (by omega)
  have hra := afterInit_rep h k hk (lastCap d.capacity caps) hb hneed hge
  have h1 := mono_truncs caps d.file d.used es tail h.file h.nodup hpw'
  rw [← hcap] at h1
  unfold initTrace
  refine h1.append ?_
  have hz := h.file.append_zeros (lastCap d.capacity caps - d.capacity)
  have m3 : Mono (afterInit d es tail k (lastCap d.capacity caps)).file (es ++ [fresh k]) []
      (afterInit d es tail k (lastCap d.capacity caps)).file (es ++ [fresh k]) := Mono.nil ⟨_, _, hra.file, hra.nodup⟩
  have m2 : Mono (hdr d.used ++ (encEntries es ++ (encEntry (fresh k) ++
        (tail ++ zeros (lastCap d.capacity caps - d.capacity)).drop (entryLen k)))) es
      [.sliceWrite 0 (le 4 (d.used + entryLen k))]
      (afterInit d es tail k (lastCap d.capacity caps)).file (es ++ [fresh k]) :=
    Mono.cons ⟨d.used, _, ⟨rfl, h.file.used_eq, h.file.used_lt⟩, h.nodup⟩
      (by simp only [applyEffect, Option.map_some, hst.2]; rfl) (Ext.snoc es _) m3
  exact Mono.cons ⟨_, _, hz, h.nodup⟩ (by simp only [applyEffect, Option.map_some, hst.1]) (Ext.refl es) m2

/-- one operation, as a chain -/
theorem op_mono {d es tail} (h : Rep d es tail) (op : Op) (initSize : Nat)
    (hf : d.used + opNeed (keys es) op < 2147483648) :
    ∃ d' tr es' tail', step initSize d op = .ok (d', tr) ∧ Rep d' es' tail' ∧
      d'.used = d.used + opNeed (keys es) op ∧ keys es' = opSeen (keys es) op ∧ Mono d.file es tr d'.file es' := by
  have hold : CutRep d.file es := ⟨_, _, h.file, h.nodup⟩
  cases op with
  | write k v t =>
    by_cases hk : k ∈ keys es
    · obtain ⟨es1, e, es2, rfl, rfl, hn⟩ := split_first es k hk
      have hw := writeValue_present h hn v t
      have hr := (storeValue_ok h hn v t).2
      refine ⟨_, _, _, tail, hw, hr, by simp [opNeed, opKey?], by simp [opSeen, opKey?], ?_⟩
      exact Mono.cons hold (by simp [applyEffect, valueBytes]) (Ext.of_keys (by simp))
        (Mono.nil ⟨_, _, hr.file, hr.nodup⟩)
    · have hb : d.used + entryLen k < 2147483648 := by simpa [opNeed, opKey?, hk] using hf
      obtain ⟨caps, hpw, hneed, hw, hr⟩ := writeValue_absent h k hk v t hb
      have hm := initTrace_mono h k hk caps hb hpw hneed
      have hge := le_lastCap _ _ hpw
      have hra := afterInit_rep h k hk (lastCap d.capacity caps) hb hneed hge
      refine ⟨_, _, _, _, hw, hr, by simp [opNeed, opKey?, hk, afterInit], by simp [opSeen, opKey?, hk], ?_⟩
      exact hm.append (Mono.cons ⟨_, _, hra.file, hra.nodup⟩ (by simp [applyEffect]) (Ext.of_keys (by simp [fresh]))
        (Mono.nil ⟨_, _, hr.file, hr.nodup⟩))
  | read k =>
    by_cases hk : k ∈ keys es
    · obtain ⟨es1, e, es2, rfl, rfl, hn⟩ := split_first es k hk
      have hrd := readValue_present h hn
      exact ⟨d, [], _, tail, by simp [step, hrd, bind, Except.bind], h, by simp [opNeed, opKey?],
        by simp [opSeen, opKey?], Mono.nil hold⟩
    · have hb : d.used + entryLen k < 2147483648 := by simpa [opNeed, opKey?, hk] using hf
      obtain ⟨caps, hpw, hneed, hrd, hr⟩ := readValue_absent h k hk hb
      exact ⟨_, initTrace d.used k caps, _, _, by simp [step, hrd, bind, Except.bind], hr,
        by simp [opNeed, opKey?, hk, afterInit], by simp [opSeen, opKey?, hk, fresh],
        initTrace_mono h k hk caps hb hpw hneed⟩
  | reopen =>
    exact ⟨d, [], es, tail, by simp [step, init_reopen h], h, by simp [opNeed, opKey?], by simp [opSeen, opKey?],
      Mono.nil hold⟩

/-- a whole history from an open store, as a chain -/
theorem mono_from (initSize : Nat) : ∀ (ops : List Op) {d es tail}, Rep d es tail →
    d.used + need (keys es) ops < 2147483648 →
    ∃ d' tr es', runFrom initSize d ops = .ok (d', tr) ∧ Mono d.file es tr d'.file es' := by
  intro ops
  induction ops with
  | nil => intro d es tail h _; exact ⟨d, [], es, rfl, Mono.nil ⟨_, _, h.file, h.nodup⟩⟩
  | cons op ops ih =>
    intro d es tail h hf
    simp only [need] at hf
    obtain ⟨d1, tr1, es1, tail1, hs1, hr1, hu1, hk1, hm1⟩ := op_mono h op initSize (by omega)
    obtain ⟨d2, tr2, es2, hs2, hm2⟩ := ih hr1 (by rw [hk1, hu1]; omega)
    exact ⟨d2, tr1 ++ tr2, es2, by simp [runFrom, hs1, hs2, bind, Except.bind], hm1.append hm2⟩

end PromVerif.Lemmas.Mmap
