/-
Association-list dictionary lemmas and fold principles shared by the C08 / C09 proofs.
-/
import PromVerif.Model.Multiprocess

namespace PromVerif.Model.Multiprocess
set_option autoImplicit false

namespace AL
variable {κ β : Type} [DecidableEq κ]

@[simp] theorem get?_nil (k : κ) : get? ([] : List (κ × β)) k = none := rfl

theorem get?_cons (k' : κ) (v : β) (r : List (κ × β)) (k : κ) :
    get? ((k', v) :: r) k = if k' = k then some v else get? r k := rfl

theorem get?_set_self (d : List (κ × β)) (k : κ) (v : β) : get? (set d k v) k = some v := by
  induction d with
  | nil => simp [set, get?_cons]
  | cons x r ih =>
    obtain ⟨k', v'⟩ := x
    by_cases h : k' = k
    · simp [set, h, get?_cons]
    · simp [set, h, get?_cons, ih]

theorem get?_set_ne (d : List (κ × β)) (k k2 : κ) (v : β) (h : k ≠ k2) : get? (set d k v) k2 = get? d k2 := by
  induction d with
  | nil => simp [set, get?_cons, h]
  | cons x r ih =>
    obtain ⟨k', v'⟩ := x
    by_cases h1 : k' = k
    · subst h1; simp [set, get?_cons, h]
    · by_cases h2 : k' = k2
      · subst h2; simp [set, h1, get?_cons]
      · simp [set, h1, get?_cons, h2, ih]

theorem get?_set (d : List (κ × β)) (k k2 : κ) (v : β) :
    get? (set d k v) k2 = if k = k2 then some v else get? d k2 := by
  by_cases h : k = k2
  · subst h; simp [get?_set_self]
  · simp [h, get?_set_ne]

theorem get?_eq_none_iff (d : List (κ × β)) (k : κ) : get? d k = none ↔ k ∉ keys d := by
  induction d with
  | nil => simp [keys]
  | cons x r ih =>
    obtain ⟨k', v'⟩ := x
    by_cases h : k' = k
    · subst h; simp [get?_cons, keys]
    · have h' : ¬ k = k' := fun e => h e.symm
      simp [get?_cons, h, keys, h'] at ih ⊢
      exact ih

theorem get?_isSome_iff (d : List (κ × β)) (k : κ) : (get? d k).isSome ↔ k ∈ keys d := by
  have := get?_eq_none_iff d k
  cases h : get? d k <;> simp_all

theorem mem_of_get? (d : List (κ × β)) (k : κ) (v : β) (h : get? d k = some v) : (k, v) ∈ d := by
  induction d with
  | nil => simp at h
  | cons x r ih =>
    obtain ⟨k', v'⟩ := x
    by_cases h1 : k' = k
    · subst h1; simp [get?_cons] at h; subst h; simp
    · simp [get?_cons, h1] at h; exact List.mem_cons_of_mem _ (ih h)

theorem get?_of_mem (d : List (κ × β)) (hnd : (keys d).Nodup) (k : κ) (v : β) (h : (k, v) ∈ d) : get? d k = some v := by
  induction d with
  | nil => simp at h
  | cons x r ih =>
    obtain ⟨k', v'⟩ := x
    simp only [keys, List.map_cons, List.nodup_cons] at hnd
    rcases List.mem_cons.mp h with h1 | h1
    · cases h1; simp [get?_cons]
    · have : k' ≠ k := by
        intro e; subst e
        exact hnd.1 (List.mem_map.mpr ⟨(k', v), h1, rfl⟩)
      simp [get?_cons, this]
      exact ih hnd.2 h1

theorem keys_set (d : List (κ × β)) (k : κ) (v : β) :
    keys (set d k v) = if k ∈ keys d then keys d else keys d ++ [k] := by
  induction d with
  | nil => simp [set, keys]
  | cons x r ih =>
    obtain ⟨k', v'⟩ := x
    by_cases h : k' = k
    · subst h; simp [set, keys]
    · have h' : ¬ k = k' := fun e => h e.symm
      simp only [set, h, if_false, keys, List.map_cons, List.mem_cons, h', false_or] at ih ⊢
      rw [ih]
      split <;> simp [*]

theorem mem_keys_set (d : List (κ × β)) (k k2 : κ) (v : β) : k2 ∈ keys (set d k v) ↔ k2 = k ∨ k2 ∈ keys d := by
  rw [keys_set]
  split
  · next h => constructor
              · intro h2; exact Or.inr h2
              · rintro (h2 | h2)
                · subst h2; exact h
                · exact h2
  · simp [or_comm]

theorem nodup_set (d : List (κ × β)) (k : κ) (v : β) (h : (keys d).Nodup) : (keys (set d k v)).Nodup := by
  rw [keys_set]
  split
  · exact h
  · next hk =>
    rw [List.nodup_append]
    refine ⟨h, by simp, ?_⟩
    intro a ha b hb
    simp at hb; subst hb
    intro e; subst e; exact hk ha

theorem getD_eq (d : List (κ × β)) (k : κ) (x : β) : getD d k x = (get? d k).getD x := rfl

/-- `d[k] = v` for each pair in order -/
def setAll (d : List (κ × β)) (e : List (κ × β)) : List (κ × β) := e.foldl (fun s kv => set s kv.1 kv.2) d

theorem nodup_setAll (e d : List (κ × β)) (h : (keys d).Nodup) : (keys (setAll d e)).Nodup := by
  induction e generalizing d with
  | nil => exact h
  | cons x r ih => exact ih _ (nodup_set d x.1 x.2 h)

theorem setAll_append (d e1 e2 : List (κ × β)) : setAll d (e1 ++ e2) = setAll (setAll d e1) e2 := by
  simp [setAll, List.foldl_append]

/-- with distinct keys in `e`, `setAll` is override-union -/
theorem get?_setAll (e d : List (κ × β)) (hnd : (keys e).Nodup) (k : κ) :
    get? (setAll d e) k = match get? e k with | some v => some v | none => get? d k := by
  induction e generalizing d with
  | nil => simp [setAll]
  | cons x r ih =>
    obtain ⟨k', v'⟩ := x
    simp only [keys, List.map_cons, List.nodup_cons] at hnd
    have := ih (set d k' v') hnd.2
    simp only [setAll, List.foldl_cons] at this ⊢
    rw [this]
    by_cases h : k' = k
    · subst h
      have hn : get? r k' = none := (get?_eq_none_iff r k').mpr hnd.1
      simp [hn, get?_cons, get?_set_self]
    · simp [get?_cons, h, get?_set_ne _ _ _ _ h]

theorem mem_keys_setAll (e d : List (κ × β)) (k : κ) : k ∈ keys (setAll d e) ↔ k ∈ keys e ∨ k ∈ keys d := by
  induction e generalizing d with
  | nil => simp [setAll, keys]
  | cons x r ih =>
    have := ih (set d x.1 x.2)
    simp only [setAll, List.foldl_cons] at this ⊢
    rw [this, mem_keys_set]
    simp only [keys, List.map_cons, List.mem_cons]
    constructor
    · rintro (h | h | h)
      · exact Or.inl (Or.inr h)
      · exact Or.inl (Or.inl h)
      · exact Or.inr h
    · rintro ((h | h) | h)
      · exact Or.inr (Or.inl h)
      · exact Or.inl h
      · exact Or.inr (Or.inr h)

end AL

/-! ### fold principles -/

/-- a fold whose step touches only the projection at the key of the element it consumes acts, on every projection,
    as the fold over the elements with that key -/
theorem foldl_proj {σ α κ π : Type} [DecidableEq κ] (step : σ → α → σ) (key : α → κ) (proj : σ → κ → π)
    (h : π → α → π)
    (hstep : ∀ s x k, proj (step s x) k = if key x = k then h (proj s k) x else proj s k) :
    ∀ (xs : List α) (s : σ) (k : κ),
      proj (xs.foldl step s) k = (xs.filter (fun x => key x = k)).foldl h (proj s k) := by
  intro xs
  induction xs with
  | nil => intro s k; rfl
  | cons x r ih =>
    intro s k
    simp only [List.foldl_cons]
    rw [ih, hstep]
    by_cases hk : key x = k
    · simp [hk]
    · simp [hk]

/-- the same with an arbitrary selection predicate (elements may have no key at all) -/
theorem foldl_proj' {σ α κ π : Type} (step : σ → α → σ) (sel : α → κ → Bool) (proj : σ → κ → π)
    (h : π → α → π)
    (hstep : ∀ s x k, proj (step s x) k = if sel x k = true then h (proj s k) x else proj s k) :
    ∀ (xs : List α) (s : σ) (k : κ),
      proj (xs.foldl step s) k = (xs.filter (fun x => sel x k)).foldl h (proj s k) := by
  intro xs
  induction xs with
  | nil => intro s k; rfl
  | cons x r ih =>
    intro s k
    simp only [List.foldl_cons]
    rw [ih, hstep]
    by_cases hk : sel x k = true
    · simp [hk]
    · simp [hk]

/-- keys appear in first-touch order -/
theorem keys_foldl_set' {κ β α : Type} [DecidableEq κ] (key : α → κ) (val : List (κ × β) → α → β) (xs : List α)
    (d : List (κ × β)) :
    AL.keys (xs.foldl (fun d x => AL.set d (key x) (val d x)) d)
      = (xs.map key).foldl (fun acc a => if a ∈ acc then acc else acc ++ [a]) (AL.keys d) := by
  induction xs generalizing d with
  | nil => rfl
  | cons x r ih =>
    simp only [List.foldl_cons, List.map_cons]
    rw [ih, AL.keys_set]

/-- an invariant of every step is an invariant of the fold -/
theorem foldl_inv {σ α : Type} (step : σ → α → σ) (P : σ → Prop) (hstep : ∀ s x, P s → P (step s x)) :
    ∀ (xs : List α) (s : σ), P s → P (xs.foldl step s) := by
  intro xs
  induction xs with
  | nil => intro s h; exact h
  | cons x r ih => intro s h; exact ih _ (hstep s x h)

/-- a monadic fold all of whose steps succeed is the pure fold -/
theorem foldlM_ok {σ α : Type} (stepE : σ → α → PromVerif.Py.PyM σ) (step : σ → α → σ) :
    ∀ (xs : List α) (s : σ), (∀ s' x, x ∈ xs → stepE s' x = .ok (step s' x)) →
      xs.foldlM stepE s = .ok (xs.foldl step s) := by
  intro xs
  induction xs with
  | nil => intro s _; rfl
  | cons x r ih =>
    intro s h
    rw [List.foldlM_cons, h s x (List.mem_cons_self)]
    exact ih (step s x) (fun s' y hy => h s' y (List.mem_cons_of_mem _ hy))

theorem mapM_ok {α β : Type} (fE : α → PromVerif.Py.PyM β) (f : α → β) :
    ∀ (xs : List α), (∀ x, x ∈ xs → fE x = .ok (f x)) → xs.mapM fE = .ok (xs.map f) := by
  intro xs
  induction xs with
  | nil => intro _; rfl
  | cons x r ih =>
    intro h
    rw [List.mapM_cons, h x (List.mem_cons_self), ih (fun y hy => h y (List.mem_cons_of_mem _ hy))]
    rfl

/-- a failing element makes `mapM` fail -/
theorem mapM_error {α β : Type} (fE : α → PromVerif.Py.PyM β) (xs : List α)
    (h : ∃ x ∈ xs, ∃ e, fE x = .error e) : ∃ e, xs.mapM fE = .error e := by
  induction xs with
  | nil => obtain ⟨x, hx, _⟩ := h; cases hx
  | cons x r ih =>
    rw [List.mapM_cons]
    cases hx : fE x with
    | error e => exact ⟨e, rfl⟩
    | ok b =>
      obtain ⟨y, hy, e, he⟩ := h
      rcases List.mem_cons.mp hy with h1 | h1
      · subst h1; rw [hx] at he; cases he
      · obtain ⟨e', he'⟩ := ih ⟨y, h1, e, he⟩
        exact ⟨e', by rw [he']; rfl⟩

end PromVerif.Model.Multiprocess
