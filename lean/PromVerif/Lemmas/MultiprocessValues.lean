/-
Invariants of the `MultiProcessValue` closure (Model/Values.lean) and the cell-level frame lemma: what one public call
does to every cell `(file, key)` of the directory.
-/
import PromVerif.Lemmas.MultiprocessDict
import PromVerif.Model.Values

namespace PromVerif.Model.Values
open PromVerif.Py PromVerif.Generated.Multiprocess PromVerif.Model.Multiprocess
set_option autoImplicit false

variable {V : Type}

/-! ### cells -/

/-- the entry of `key` in file `fn` (absent file = empty store) -/
def cellGet (disk : List (Str × Store V)) (fn : Str) (k : Key) : Option (V × V) := AL.get? (AL.getD disk fn []) k

/-- … with an absent entry read as zero (an entry is created at zero before it is ever used) -/
def cellVal (vo : VOps V) (disk : List (Str × Store V)) (fn : Str) (k : Key) : V × V :=
  (cellGet disk fn k).getD (vo.zero, vo.zero)

theorem cellGet_set (disk : List (Str × Store V)) (fn fn' : Str) (s : Store V) (k : Key) :
    cellGet (AL.set disk fn s) fn' k = if fn = fn' then AL.get? s k else cellGet disk fn' k := by
  unfold cellGet
  simp only [AL.getD_eq, AL.get?_set]
  split <;> rfl

theorem cellGet_openFile (disk : List (Str × Store V)) (fn fn' : Str) (k : Key) :
    cellGet (openFile disk fn) fn' k = cellGet disk fn' k := by
  unfold openFile
  cases h : AL.get? disk fn with
  | some s => rfl
  | none =>
    simp only [cellGet_set]
    split
    · next e => subst e; simp [cellGet, AL.getD_eq, h]
    · rfl

theorem file_openFile (disk : List (Str × Store V)) (fn fn' : Str) (h : fn ≠ fn') :
    AL.get? (openFile disk fn) fn' = AL.get? disk fn' := by
  unfold openFile
  cases AL.get? disk fn with
  | some s => rfl
  | none => exact AL.get?_set_ne _ _ _ _ h

theorem readValue_some (vo : VOps V) (disk : List (Str × Store V)) (fn : Str) (k : Key) (vt : V × V)
    (h : AL.get? (AL.getD disk fn []) k = some vt) : readValue vo disk fn k = (vt, disk) := by
  unfold readValue; simp only [h]

theorem readValue_none (vo : VOps V) (disk : List (Str × Store V)) (fn : Str) (k : Key)
    (h : AL.get? (AL.getD disk fn []) k = none) :
    readValue vo disk fn k
      = ((vo.zero, vo.zero), AL.set disk fn (AL.set (AL.getD disk fn []) k (vo.zero, vo.zero))) := by
  unfold readValue; simp only [h]

theorem readValue_fst (vo : VOps V) (disk : List (Str × Store V)) (fn : Str) (k : Key) :
    (readValue vo disk fn k).1 = cellVal vo disk fn k := by
  unfold cellVal cellGet
  cases h : AL.get? (AL.getD disk fn []) k with
  | some vt => rw [readValue_some vo disk fn k vt h]; rfl
  | none => rw [readValue_none vo disk fn k h]; rfl

theorem cellGet_readValue (vo : VOps V) (disk : List (Str × Store V)) (fn fn' : Str) (k0 k : Key) :
    cellGet (readValue vo disk fn k0).2 fn' k
      = if fn = fn' ∧ k0 = k ∧ cellGet disk fn k0 = none then some (vo.zero, vo.zero) else cellGet disk fn' k := by
  cases h : AL.get? (AL.getD disk fn []) k0 with
  | some vt =>
    have : cellGet disk fn k0 = some vt := h
    rw [readValue_some vo disk fn k0 vt h]
    simp [this]
  | none =>
    have hn : cellGet disk fn k0 = none := h
    rw [readValue_none vo disk fn k0 h]
    simp only [cellGet_set, hn, and_true]
    by_cases e : fn = fn'
    · subst e
      simp only [if_true, true_and, AL.get?_set]
      split <;> rfl
    · simp [e]

theorem file_readValue (vo : VOps V) (disk : List (Str × Store V)) (fn fn' : Str) (k : Key) (h : fn ≠ fn') :
    AL.get? (readValue vo disk fn k).2 fn' = AL.get? disk fn' := by
  cases hh : AL.get? (AL.getD disk fn []) k with
  | some vt => rw [readValue_some vo disk fn k vt hh]
  | none => rw [readValue_none vo disk fn k hh]; exact AL.get?_set_ne _ _ _ _ h

theorem cellVal_readValue (vo : VOps V) (disk : List (Str × Store V)) (fn fn' : Str) (k0 k : Key) :
    cellVal vo (readValue vo disk fn k0).2 fn' k = cellVal vo disk fn' k := by
  unfold cellVal
  rw [cellGet_readValue]
  split
  · next h => obtain ⟨e1, e2, e3⟩ := h; subst e1; subst e2; simp [e3]
  · rfl

theorem cellGet_readValue_self (vo : VOps V) (disk : List (Str × Store V)) (fn : Str) (k : Key) :
    cellGet (readValue vo disk fn k).2 fn k = some (cellVal vo disk fn k) := by
  rw [cellGet_readValue]
  unfold cellVal
  cases h : cellGet disk fn k <;> simp

theorem cellGet_writeValue (disk : List (Str × Store V)) (fn fn' : Str) (k0 k : Key) (v t : V) :
    cellGet (writeValue disk fn k0 v t) fn' k = if fn = fn' ∧ k0 = k then some (v, t) else cellGet disk fn' k := by
  unfold writeValue
  rw [cellGet_set]
  by_cases e : fn = fn'
  · subst e
    simp only [if_true, true_and, AL.get?_set]
    split <;> rfl
  · simp [e]

theorem file_writeValue (disk : List (Str × Store V)) (fn fn' : Str) (k : Key) (v t : V) (h : fn ≠ fn') :
    AL.get? (writeValue disk fn k v t) fn' = AL.get? disk fn' := AL.get?_set_ne _ _ _ _ h

/-! ### file names -/

theorem fileName_eq (pre pid : Str) : fileName pre pid = pre ++ '_' :: (pid ++ ['.', 'd', 'b']) := by
  simp [fileName, fileNameParts]

theorem split_last_sep (a b x y : Str) (hx : '_' ∉ x) (hy : '_' ∉ y) (h : a ++ '_' :: x = b ++ '_' :: y) :
    a = b ∧ x = y := by
  induction a generalizing b with
  | nil =>
    cases b with
    | nil => simp at h; exact ⟨rfl, h⟩
    | cons d b' =>
      simp at h
      exact absurd (h.2 ▸ (by simp : '_' ∈ b' ++ '_' :: y)) hx
  | cons c a' ih =>
    cases b with
    | nil =>
      simp at h
      exact absurd (h.2 ▸ (by simp : '_' ∈ a' ++ '_' :: x)) hy
    | cons d b' =>
      simp at h
      obtain ⟨e1, e2⟩ := ih b' h.2
      exact ⟨by rw [h.1, e1], e2⟩

/-- distinct (prefix, pid) pairs name distinct files, for pids without `_` -/
theorem fileName_inj (pre pre' pid pid' : Str) (h1 : '_' ∉ pid) (h2 : '_' ∉ pid')
    (h : fileName pre pid = fileName pre' pid') : pre = pre' ∧ pid = pid' := by
  rw [fileName_eq, fileName_eq] at h
  have hd : '_' ∉ ['.', 'd', 'b'] := by decide
  have hx : '_' ∉ pid ++ ['.', 'd', 'b'] := fun e => by
    rcases List.mem_append.mp e with e | e
    · exact h1 e
    · exact hd e
  have hy : '_' ∉ pid' ++ ['.', 'd', 'b'] := fun e => by
    rcases List.mem_append.mp e with e | e
    · exact h2 e
    · exact hd e
  obtain ⟨e1, e2⟩ := split_last_sep _ _ _ _ hx hy h
  exact ⟨e1, List.append_cancel_right e2⟩

/-! ### `__reset` -/

/-- every open store belongs to the remembered identity -/
def FilesOK (pid : Str) (files : List (Str × Str)) : Prop := ∀ p fn, AL.get? files p = some fn → fn = fileName p pid

theorem filesOK_nil (pid : Str) : FilesOK pid [] := by intro p fn h; simp at h

/-- what `__reset` guarantees -/
structure ResetPost (vo : VOps V) (pid : Str) (disk : List (Str × Store V)) (p : Params)
    (r : ValueObj V × List (Str × Str) × List (Str × Store V)) : Prop where
  params : r.1.params = p
  key : r.1.key = mmapKey p
  file : r.1.file = fileName (filePrefix p) pid
  files : FilesOK pid r.2.1
  cellval : ∀ fn k, cellVal vo r.2.2 fn k = cellVal vo disk fn k
  persists : ∀ fn k, (cellGet disk fn k).isSome = true → (cellGet r.2.2 fn k).isSome = true
  cached : cellGet r.2.2 r.1.file r.1.key = some (r.1.value, r.1.ts)
  continues : (r.1.value, r.1.ts) = cellVal vo disk r.1.file r.1.key
  foreign : ∀ fn, fn ≠ fileName (filePrefix p) pid → AL.get? r.2.2 fn = AL.get? disk fn

theorem isSome_readValue (vo : VOps V) (disk : List (Str × Store V)) (fn fn' : Str) (k0 k : Key)
    (h : (cellGet disk fn' k).isSome = true) : (cellGet (readValue vo disk fn k0).2 fn' k).isSome = true := by
  rw [cellGet_readValue]
  split
  · rfl
  · exact h

theorem reset_some (vo : VOps V) (pid : Str) (files : List (Str × Str)) (disk : List (Str × Store V)) (p : Params)
    (fn0 : Str) (hg : AL.get? files (filePrefix p) = some fn0) :
    reset vo pid files disk p
      = (⟨p, (readValue vo disk fn0 (mmapKey p)).1.1, (readValue vo disk fn0 (mmapKey p)).1.2, fn0, mmapKey p⟩,
          files, (readValue vo disk fn0 (mmapKey p)).2) := by
  unfold reset
  simp only [hg, AL.getD_eq, Option.getD_some]

theorem reset_none (vo : VOps V) (pid : Str) (files : List (Str × Str)) (disk : List (Str × Store V)) (p : Params)
    (hg : AL.get? files (filePrefix p) = none) :
    reset vo pid files disk p
      = (⟨p, (readValue vo (openFile disk (fileName (filePrefix p) pid)) (fileName (filePrefix p) pid) (mmapKey p)).1.1,
            (readValue vo (openFile disk (fileName (filePrefix p) pid)) (fileName (filePrefix p) pid) (mmapKey p)).1.2,
            fileName (filePrefix p) pid, mmapKey p⟩,
          AL.set files (filePrefix p) (fileName (filePrefix p) pid),
          (readValue vo (openFile disk (fileName (filePrefix p) pid)) (fileName (filePrefix p) pid) (mmapKey p)).2) := by
  unfold reset
  simp only [hg, AL.getD_eq, Option.getD_some, AL.get?_set_self]

theorem reset_post (vo : VOps V) (pid : Str) (files : List (Str × Str)) (disk : List (Str × Store V)) (p : Params)
    (hf : FilesOK pid files) : ResetPost vo pid disk p (reset vo pid files disk p) := by
  cases hg : AL.get? files (filePrefix p) with
  | some fn0 =>
    have hfn : fn0 = fileName (filePrefix p) pid := hf _ _ hg
    rw [reset_some vo pid files disk p fn0 hg]
    subst hfn
    refine ⟨rfl, rfl, rfl, hf, ?_, ?_, ?_, ?_, ?_⟩
    · intro fn k; exact cellVal_readValue vo disk _ fn _ k
    · intro fn k h; exact isSome_readValue vo disk _ fn _ k h
    · simp only [Prod.eta, readValue_fst]; exact cellGet_readValue_self vo disk _ _
    · simp only [Prod.eta, readValue_fst]
    · intro fn hne; exact file_readValue vo disk _ fn _ (Ne.symm hne)
  | none =>
    rw [reset_none vo pid files disk p hg]
    refine ⟨rfl, rfl, rfl, ?_, ?_, ?_, ?_, ?_, ?_⟩
    · intro q fn h
      simp only at h
      rw [AL.get?_set] at h
      split at h
      · next e => subst e; exact (Option.some.inj h).symm
      · exact hf q fn h
    · intro fn k
      simp only
      rw [cellVal_readValue]
      unfold cellVal
      rw [cellGet_openFile]
    · intro fn k h
      apply isSome_readValue
      rw [cellGet_openFile]; exact h
    · simp only [Prod.eta, readValue_fst]; exact cellGet_readValue_self vo _ _ _
    · simp only [Prod.eta, readValue_fst]
      unfold cellVal
      rw [cellGet_openFile]
    · intro fn hne
      simp only
      rw [file_readValue vo _ _ fn _ (Ne.symm hne), file_openFile _ _ fn (Ne.symm hne)]

/-! ### `for value in values: value.__reset()` -/

structure ResetAllPost (vo : VOps V) (pid : Str) (disk : List (Str × Store V)) (vs : List (ValueObj V))
    (r : List (ValueObj V) × List (Str × Str) × List (Str × Store V)) : Prop where
  params : r.1.map (·.params) = vs.map (·.params)
  bound : ∀ v ∈ r.1, v.key = mmapKey v.params ∧ v.file = fileName (filePrefix v.params) pid
  files : FilesOK pid r.2.1
  cellval : ∀ fn k, cellVal vo r.2.2 fn k = cellVal vo disk fn k
  persists : ∀ fn k, (cellGet disk fn k).isSome = true → (cellGet r.2.2 fn k).isSome = true
  cached : ∀ v ∈ r.1, (cellGet r.2.2 v.file v.key).isSome = true ∧ cellVal vo r.2.2 v.file v.key = (v.value, v.ts)
  foreign : ∀ fn, (∀ pre, fn ≠ fileName pre pid) → AL.get? r.2.2 fn = AL.get? disk fn

theorem resetAll_post (vo : VOps V) (pid : Str) (vs : List (ValueObj V)) (files : List (Str × Str))
    (disk : List (Str × Store V)) (hf : FilesOK pid files) :
    ResetAllPost vo pid disk vs (resetAll vo pid vs files disk) := by
  induction vs generalizing files disk with
  | nil =>
    exact ⟨rfl, (fun v hv => by cases hv), hf, (fun _ _ => rfl), (fun _ _ h => h), (fun v hv => by cases hv), (fun _ _ => rfl)⟩
  | cons v r ih =>
    have h1 := reset_post vo pid files disk v.params hf
    have h2 := ih (reset vo pid files disk v.params).2.1 (reset vo pid files disk v.params).2.2 h1.files
    simp only [resetAll]
    refine ⟨?_, ?_, h2.files, ?_, ?_, ?_, ?_⟩
    · simp only [List.map_cons, h1.params, h2.params]
    · intro w hw
      rcases List.mem_cons.mp hw with e | e
      · subst e; exact ⟨by rw [h1.key, h1.params], by rw [h1.file, h1.params]⟩
      · exact h2.bound w e
    · intro fn k; rw [h2.cellval, h1.cellval]
    · intro fn k h; exact h2.persists fn k (h1.persists fn k h)
    · intro w hw
      rcases List.mem_cons.mp hw with e | e
      · subst e
        have hc := h1.cached
        refine ⟨h2.persists _ _ (by rw [hc]; rfl), ?_⟩
        rw [h2.cellval]
        unfold cellVal
        rw [hc]; rfl
      · exact h2.cached w e
    · intro fn hne
      rw [h2.foreign fn hne, h1.foreign fn (hne _)]

/-! ### state invariants -/

/-- identity of a value object: which cell of each identity's directory it owns -/
def idOf (p : Params) : Str × Key := (filePrefix p, mmapKey p)

/-- every live value is bound to the remembered identity's file of its prefix, and its entry exists there -/
structure Bound (st : St V) : Prop where
  files : FilesOK st.pid st.files
  bound : ∀ v ∈ st.values, v.key = mmapKey v.params ∧ v.file = fileName (filePrefix v.params) st.pid
  exist : ∀ v ∈ st.values, (cellGet st.disk v.file v.key).isSome = true

/-- every live value's cached pair is what its file holds -/
def Cached (vo : VOps V) (st : St V) : Prop :=
  ∀ v ∈ st.values, cellVal vo st.disk v.file v.key = (v.value, v.ts)

theorem bound_init (actual : Str) : Bound (St.init (V := V) actual) :=
  ⟨filesOK_nil _, (fun v hv => by cases hv), (fun v hv => by cases hv)⟩

theorem cached_init (vo : VOps V) (actual : Str) : Cached vo (St.init (V := V) actual) := fun v hv => by cases hv

/-- `__check_for_pid_change` -/
structure CheckPost (vo : VOps V) (st st1 : St V) : Prop where
  pid : st1.pid = st.actual
  actual : st1.actual = st.actual
  params : st1.values.map (·.params) = st.values.map (·.params)
  bound : Bound st1
  cellval : ∀ fn k, cellVal vo st1.disk fn k = cellVal vo st.disk fn k
  persists : ∀ fn k, (cellGet st.disk fn k).isSome = true → (cellGet st1.disk fn k).isSome = true
  foreign : ∀ fn, (∀ pre, fn ≠ fileName pre st.actual) → AL.get? st1.disk fn = AL.get? st.disk fn
  /-- after an identity change every cache was re-read; otherwise nothing moved -/
  cached : (st.pid ≠ st.actual ∨ Cached vo st) → Cached vo st1

theorem checkPid_post (vo : VOps V) (st : St V) (hb : Bound st) : CheckPost vo st (checkPid vo st) := by
  unfold checkPid
  by_cases h : st.pid = st.actual
  · simp only [ne_eq, h, not_true_eq_false, if_false]
    refine ⟨h, rfl, rfl, hb, fun _ _ => rfl, fun _ _ x => x, fun _ _ => rfl, ?_⟩
    intro hc
    rcases hc with hc | hc
    · exact absurd h hc
    · exact hc
  · simp only [ne_eq, h, not_false_eq_true, if_true]
    have hp := resetAll_post vo st.actual st.values [] st.disk (filesOK_nil _)
    refine ⟨rfl, rfl, hp.params, ⟨hp.files, hp.bound, fun v hv => (hp.cached v hv).1⟩, hp.cellval, hp.persists,
      hp.foreign, ?_⟩
    intro _ v hv
    exact (hp.cached v hv).2

end PromVerif.Model.Values
