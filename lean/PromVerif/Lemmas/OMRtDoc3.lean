/-
C04, document level (3): `omParse (generateLatest fs)` for a list of expressible families equals the parser's rule layer
(`sampleChecks` per sample, `build_metric` per family) run on the EXPOSED values — tokenisation, metadata handling and the
family state machine are inverse to the exposition; what remains is exactly the set of checks C15 obliges the parser to
make.
-/
import PromVerif.Lemmas.OMRtDoc2

set_option autoImplicit false

namespace PromVerif.Lemmas.OMRt
open PromVerif.Py PromVerif.Model PromVerif.Model.Escape PromVerif.Model.ParseCore PromVerif.Model.Validation
open PromVerif.Model.OMParse PromVerif.Spec.OMRoundtrip PromVerif.Lemmas.Escape PromVerif.Lemmas.Scanner
open PromVerif.Lemmas.TextParse PromVerif.Model.TextExpo PromVerif.Generated.OMParse

/-- what a rendered sample line parses to -/
def parsedOf (P : Params) (s : Sample) : OSample :=
  match parseSample P (lineBody s) with
  | .ok o => o
  | .error _ => ⟨[], none, none, none, none, none⟩

theorem parsedOf_spec (P : Params) (hI : IntLaw P.pyInt) (s : Sample) (h : SampleOKom P s) :
    parseSample P (lineBody s) = .ok (parsedOf P s) ∧ SampleMatches P s (parsedOf P s) := by
  obtain ⟨o, h1, h2⟩ := line_roundtrip P hI s h
  unfold parsedOf
  rw [h1]
  exact ⟨rfl, h2⟩

/-- the families the document-level theorem is stated for -/
structure FamOK (P : Params) (fam : Family) : Prop where
  /-- the name `Metric()` accepts under the active validation -/
  name : metricNameOK P.legacy fam.name = true
  /-- one of `METRIC_TYPES` (what `Metric()` accepts) -/
  typ : fam.typ ∈ metricTypes
  /-- the unit is written raw: no line feed in it (C05's finding F4 is about that) -/
  unit : '\n' ∉ fam.unit
  /-- every sample: the line-level conditions, an exemplar only where the exposition accepts one, and a name within the
  suffix set of the family's type (another name starts another family) -/
  samples : ∀ s ∈ fam.samples, SampleOKom P s ∧
    (s.exemplar.isSome = true → OMExpo.isValidExemplarMetric fam.typ fam.name s.name = true) ∧
    (allowedNames fam.name fam.typ).contains s.name = true

/-- consecutive families carry different names (a repeated name continues the same family) -/
def AdjDiffer : List Family → Prop
  | [] => True
  | [_] => True
  | a :: b :: r => a.name ≠ b.name ∧ AdjDiffer (b :: r)

-- the text ---------------------------------------------------------------------------------------------------------------------

/-- the lines of one family, without line feeds -/
def textLines (fam : Family) : List Str :=
  [metaLine Generated.OMParse.kwHelp (escapeMetricName fam.name) (escape fam.doc),
   metaLine Generated.OMParse.kwType (escapeMetricName fam.name) fam.typ] ++
  (if fam.unit.isEmpty then [] else [metaLine Generated.OMParse.kwUnit (escapeMetricName fam.name) fam.unit]) ++
  fam.samples.map lineBody

theorem help_lit : "# HELP ".toList = ['#', ' ', 'H', 'E', 'L', 'P', ' '] := by decide
theorem type_lit : "# TYPE ".toList = ['#', ' ', 'T', 'Y', 'P', 'E', ' '] := by decide
theorem unit_lit : "# UNIT ".toList = ['#', ' ', 'U', 'N', 'I', 'T', ' '] := by decide
theorem eof_lit : "# EOF\n".toList = sEOF ++ ['\n'] := by decide

theorem familyLines_eq (P : Params) (fam : Family) (h : FamOK P fam) :
    OMExpo.familyLines fam = .ok ((textLines fam).map (· ++ ['\n'])) := by
  unfold OMExpo.familyLines
  have hm : fam.samples.mapM (OMExpo.sampleLine fam) = .ok (fam.samples.map (fun s => lineBody s ++ ['\n'])) :=
    mapM_ok _ _ _ (fun s hs => sampleLine_eq fam s (h.samples s hs).2.1)
  simp only [hm, bind, Except.bind, pure, Except.pure, help_lit, type_lit, unit_lit]
  unfold textLines metaLine Generated.OMParse.kwHelp Generated.OMParse.kwType Generated.OMParse.kwUnit
  by_cases hu : fam.unit.isEmpty = true
  · simp [hu]
  · simp [hu]

theorem generateLatest_eq (P : Params) (fs : List Family) (h : ∀ fam ∈ fs, FamOK P fam) :
    OMExpo.generateLatest fs = .ok (((fs.flatMap textLines ++ [sEOF]).map (· ++ ['\n'])).flatten) := by
  unfold OMExpo.generateLatest
  have hm : fs.mapM OMExpo.familyLines = .ok (fs.map (fun fam => (textLines fam).map (· ++ ['\n']))) :=
    mapM_ok _ _ _ (fun fam hf => familyLines_eq P fam (h fam hf))
  simp only [hm, bind, Except.bind, pure, Except.pure, eof_lit]
  congr 1
  simp [List.flatMap, List.map_flatten]
  rfl

-- no line feed inside a line ---------------------------------------------------------------------------------------------------

theorem nl_optTok (o : Option Str) (h : ∀ t, o = some t → NumTok t) : '\n' ∉ optTok o := by
  cases o with
  | none => simp [optTok]
  | some t => exact not_mem_cons (by decide) (newline_not_mem_numTok (h t rfl))

theorem nl_exBlock {legacy : Bool} (L : List (Str × Str)) (h : ∀ kv ∈ L, labelNameOK legacy kv.1 = true) : '\n' ∉ exBlock L := by
  cases L with
  | nil => simp [exBlock]
  | cons kv r =>
    exact not_mem_append (newline_not_mem_item (h kv (by simp))) (newline_not_mem_tail r (fun x hx => h x (by simp [hx])))

theorem nl_spTail {legacy : Bool} (L : List (Str × Str)) (h : ∀ kv ∈ L, labelNameOK legacy kv.1 = true) : '\n' ∉ spTail L := by
  cases L with
  | nil => simp [spTail]
  | cons kv r =>
    exact not_mem_cons (by decide) (not_mem_cons (by decide)
      (not_mem_append (newline_not_mem_item (h kv (by simp))) (newline_not_mem_tail r (fun x hx => h x (by simp [hx])))))

theorem nl_lineRem (P : Params) (s : Sample) (h : SampleOKom P s) : '\n' ∉ lineRem s := by
  have htok := remTok_of_ok h
  unfold lineRem remText
  refine not_mem_append (not_mem_append (newline_not_mem_numTok htok.v) (nl_optTok _ htok.ts)) ?_
  cases he : s.exemplar with
  | none => simp
  | some e =>
    have hex := h.exemplar e he
    obtain ⟨hok, _⟩ := labelsOK_sorted hex.labels
    have hev := htok.ev _ (by rw [he]; rfl)
    have hets := htok.ets _ (by rw [he]; rfl)
    simp only [Option.map_some]
    unfold exTail
    refine not_mem_cons (by decide) (not_mem_cons (by decide) (not_mem_cons (by decide) (not_mem_cons (by decide)
      (not_mem_append (nl_exBlock _ hok) (not_mem_cons (by decide) (not_mem_cons (by decide)
        (not_mem_append (newline_not_mem_numTok hev) (nl_optTok _ hets))))))))

theorem nl_lineBody (P : Params) (s : Sample) (h : SampleOKom P s) : '\n' ∉ lineBody s := by
  obtain ⟨hok, _⟩ := labelsOK_sorted h.labels
  have hrem := nl_lineRem P s h
  rcases lineBody_cases s with ⟨hv, _, hb⟩ | ⟨hv, kv, r, hL, hb⟩ | ⟨_, hb⟩
  · obtain ⟨_, hc⟩ := legacyName_chars hv (legacyMetric_no_newline hv)
    rw [hb]
    exact not_mem_append (newline_not_mem_legacy hc) (not_mem_cons (by decide) hrem)
  · obtain ⟨_, hc⟩ := legacyName_chars hv (legacyMetric_no_newline hv)
    rw [hL] at hok
    rw [hb]
    exact not_mem_append (newline_not_mem_legacy hc) (not_mem_cons (by decide)
      (not_mem_append (not_mem_append (newline_not_mem_item (hok kv (by simp)))
        (newline_not_mem_tail r (fun x hx => hok x (by simp [hx])))) (not_mem_cons (by decide) (not_mem_cons (by decide) hrem))))
  · rw [hb]
    exact not_mem_cons (by decide) (not_mem_append (not_mem_append (newline_not_mem_quoted s.name) (nl_spTail _ hok))
      (not_mem_cons (by decide) (not_mem_cons (by decide) hrem)))

theorem nl_metaLine {kw tok R : Str} (h1 : '\n' ∉ kw) (h2 : '\n' ∉ tok) (h3 : '\n' ∉ R) : '\n' ∉ metaLine kw tok R := by
  unfold metaLine
  exact not_mem_cons (by decide) (not_mem_cons (by decide) (not_mem_append h1 (not_mem_cons (by decide)
    (not_mem_append h2 (not_mem_cons (by decide) h3)))))

theorem typ_facts {t : Str} (h : t ∈ metricTypes) : '\n' ∉ t ∧ t ≠ untypedName := by
  simp only [metricTypes, List.mem_cons, List.not_mem_nil, or_false] at h
  rcases h with rfl | rfl | rfl | rfl | rfl | rfl | rfl | rfl <;> exact ⟨by decide, by decide⟩

theorem nl_textLines (P : Params) (fam : Family) (h : FamOK P fam) : ∀ c ∈ textLines fam, '\n' ∉ c := by
  intro c hc
  have hn := metricTok_no_newline h.name
  unfold textLines at hc
  simp only [List.mem_append, List.mem_cons, List.not_mem_nil, or_false, List.mem_map] at hc
  rcases hc with ((rfl | rfl) | hc) | ⟨s, hs, rfl⟩
  · exact nl_metaLine (by decide) hn (newline_not_mem_escape fam.doc)
  · exact nl_metaLine (by decide) hn (typ_facts h.typ).1
  · by_cases hu : fam.unit.isEmpty = true
    · simp [hu] at hc
    · simp only [hu, Bool.false_eq_true, ↓reduceIte, List.mem_cons, List.not_mem_nil, or_false] at hc
      subst hc
      exact nl_metaLine (by decide) hn h.unit
  · exact nl_lineBody P s (h.samples s hs).1

-- tokenisation of the whole document ---------------------------------------------------------------------------------------------

/-- the tokenised lines of one family -/
def tokLines (P : Params) (fam : Family) : List Line :=
  metaLines fam ++ (fam.samples.map (parsedOf P)).map (fun o => Line.sample (.ok none) (.ok o))

theorem metaLine_ne_eof {kw tok R : Str} (h : kw.head? ≠ some 'E') : metaLine kw tok R ≠ sEOF := by
  intro e
  unfold metaLine sEOF at e
  cases kw with
  | nil =>
    simp only [List.nil_append] at e
    have := (List.cons.inj (List.cons.inj e).2).2
    exact absurd (List.cons.inj this).1 (by decide)
  | cons c cs =>
    have := (List.cons.inj (List.cons.inj e).2).2
    simp only [List.cons_append] at this
    exact h (by rw [(List.cons.inj this).1]; rfl)

theorem kwLegacy : (∀ c ∈ Generated.OMParse.kwHelp, isLegacyChar c = true) ∧ (∀ c ∈ Generated.OMParse.kwType, isLegacyChar c = true) ∧
    (∀ c ∈ Generated.OMParse.kwUnit, isLegacyChar c = true) := by decide

theorem parseLine_textLines (P : Params) (hI : IntLaw P.pyInt) (fam : Family) (h : FamOK P fam) :
    (textLines fam).map (parseLine P) = tokLines P fam := by
  unfold textLines tokLines metaLines
  simp only [List.map_append, List.map_cons, List.map_nil, List.map_map]
  have h1 := parseLine_meta P Generated.OMParse.kwHelp kwLegacy.1 h.name (escape fam.doc) (metaLine_ne_eof (by decide))
  have h2 := parseLine_meta P Generated.OMParse.kwType kwLegacy.2.1 h.name fam.typ (metaLine_ne_eof (by decide))
  have h3 := parseLine_meta P Generated.OMParse.kwUnit kwLegacy.2.2 h.name fam.unit (metaLine_ne_eof (by decide))
  rw [h1, h2]
  congr 1
  congr 1
  · by_cases hu : fam.unit.isEmpty = true
    · simp [hu]
    · simp [hu, h3]
  · apply List.map_congr_left
    intro s hs
    simp only [Function.comp]
    rw [parseLine_renderedSample P s (h.samples s hs).1, (parsedOf_spec P hI s (h.samples s hs).1).1]

theorem parseLine_eof (P : Params) : parseLine P sEOF = .eof := by
  unfold parseLine; rfl

-- the family state machine on the document ------------------------------------------------------------------------------------------

/-- the parser's rule layer over a list of families: flush the previous family, then the per-sample checks -/
def runFams (P : Params) : St → List (Family × List OSample) → PyM St
  | st, [] => .ok st
  | st, (fam, os) :: rest =>
    match flush P st.glob st.hdr st.grp.samples with
    | .error e => .error e
    | .ok g =>
      match foldChecks P (famHdr fam) {} os with
      | .error e => .error e
      | .ok gr => runFams P ⟨famHdr fam, gr, g, false⟩ rest

/-- what the parser computes on the exposed VALUES: per family the rule layer, then `build_metric` -/
def rulesOnly (P : Params) (fs : List (Family × List OSample)) : PyM (List OFamily) :=
  match runFams P {} fs with
  | .error e => .error e
  | .ok st =>
    match flush P st.glob st.hdr st.grp.samples with
    | .ok g => .ok g.out
    | .error e => .error e

theorem runFams_state (P : Params) : ∀ (fs : List (Family × List OSample)) (st st' : St), st.eof = false →
    runFams P st fs = .ok st' → st'.eof = false ∧ (fs ≠ [] → ∃ fam os, (fam, os) ∈ fs ∧ st'.hdr = famHdr fam) := by
  intro fs
  induction fs with
  | nil => intro st st' he h; cases h; exact ⟨he, fun c => absurd rfl c⟩
  | cons x xs ih => intro st st' he h; exact ⟨by
      obtain ⟨fam, os⟩ := x
      simp only [runFams] at h
      cases hf : flush P st.glob st.hdr st.grp.samples with
      | error e => rw [hf] at h; cases h
      | ok g =>
        rw [hf] at h
        cases hc : foldChecks P (famHdr fam) {} os with
        | error e => rw [hc] at h; cases h
        | ok gr => rw [hc] at h; exact (ih _ st' rfl h).1, fun _ => by
      obtain ⟨fam, os⟩ := x
      simp only [runFams] at h
      cases hf : flush P st.glob st.hdr st.grp.samples with
      | error e => rw [hf] at h; cases h
      | ok g =>
        rw [hf] at h
        cases hc : foldChecks P (famHdr fam) {} os with
        | error e => rw [hc] at h; cases h
        | ok gr =>
          rw [hc] at h
          by_cases hx : xs = []
          · subst hx; cases h; exact ⟨fam, os, by simp, rfl⟩
          · obtain ⟨f2, o2, hm, he2⟩ := (ih _ st' rfl h).2 hx
            exact ⟨f2, o2, by simp [hm], he2⟩⟩

/-- the run over the tokenised lines of a list of families whose consecutive names differ -/
theorem run_tokLines (P : Params) (hI : IntLaw P.pyInt) : ∀ (fs : List Family) (st : St) (rest : List Line), st.eof = false →
    (∀ fam ∈ fs, FamOK P fam) → (∀ fam, fs.head? = some fam → st.hdr.name ≠ some fam.name) → AdjDiffer fs →
    OMParse.run P st (fs.flatMap (tokLines P) ++ rest) =
      (match runFams P st (fs.map (fun fam => (fam, fam.samples.map (parsedOf P)))) with
       | .ok st' => OMParse.run P st' rest
       | .error e => .error e) := by
  intro fs
  induction fs with
  | nil => intro st rest _ _ _ _; rfl
  | cons fam fs ih =>
    intro st rest heof hok hhead hadj
    have hf := hok fam (by simp)
    have hty := (typ_facts hf.typ).2
    simp only [List.flatMap_cons, List.map_cons, runFams, tokLines, List.append_assoc]
    rw [run_metaLines P st fam heof (hhead fam rfl) hty]
    cases flush P st.glob st.hdr st.grp.samples with
    | error e => rfl
    | ok g =>
      simp only []
      have hallow : ∀ o ∈ fam.samples.map (parsedOf P), (famHdr fam).allowed.contains o.name = true := by
        intro o ho
        obtain ⟨s, hs, rfl⟩ := List.mem_map.mp ho
        have hsm := (parsedOf_spec P hI s (hf.samples s hs).1).2
        rw [hsm.name]
        exact (hf.samples s hs).2.2
      rw [run_sampleLines P (famHdr fam) g _ {} _ (by simp [famHdr]) hallow]
      cases foldChecks P (famHdr fam) {} (fam.samples.map (parsedOf P)) with
      | error e => rfl
      | ok gr =>
        simp only []
        refine ih ⟨famHdr fam, gr, g, false⟩ rest rfl (fun f hf' => hok f (by simp [hf'])) ?_ ?_
        · intro f2 h2
          cases fs with
          | nil => cases h2
          | cons b r =>
            simp only [List.head?_cons, Option.some.injEq] at h2
            subst h2
            simp only [famHdr, ne_eq, Option.some.injEq]
            exact hadj.1
        · cases fs with
          | nil => trivial
          | cons b r => exact hadj.2

theorem flatMap_congr' {α β : Type} {f g : α → List β} : ∀ (l : List α), (∀ a ∈ l, f a = g a) → l.flatMap f = l.flatMap g := by
  intro l
  induction l with
  | nil => intro _; rfl
  | cons a as ih => intro h; simp only [List.flatMap_cons, h a (by simp), ih (fun b hb => h b (by simp [hb]))]

/-- the tokenised lines of the whole exposition -/
def docTokens (P : Params) (fs : List Family) : List Line := fs.flatMap (tokLines P) ++ [Line.eof]

/-- the family state machine on the tokenised exposition = the rule layer on the exposed values -/
theorem assemble_docTokens (P : Params) (hI : IntLaw P.pyInt) (fs : List Family) (hok : ∀ fam ∈ fs, FamOK P fam) (hadj : AdjDiffer fs) :
    assemble P (docTokens P fs) = rulesOnly P (fs.map (fun fam => (fam, fam.samples.map (parsedOf P)))) := by
  unfold assemble rulesOnly docTokens
  rw [run_tokLines P hI fs {} [Line.eof] rfl hok (by intro fam _; simp) hadj]
  cases hr : runFams P {} (fs.map (fun fam => (fam, fam.samples.map (parsedOf P)))) with
  | error e => rfl
  | ok st' =>
    have he := (runFams_state P _ {} st' rfl hr).1
    obtain ⟨h, gr, g, e⟩ := st'
    simp only at he
    subst he
    exact run_eof P h gr g

/-- **`omParse ∘ generateLatest` = the rule layer on the exposed values**, for every list of expressible families whose
consecutive names differ; the tokenised lines of the exposition are `docTokens` -/
theorem doc_parse (P : Params) (hI : IntLaw P.pyInt) (fs : List Family) (hok : ∀ fam ∈ fs, FamOK P fam) (hadj : AdjDiffer fs) :
    ∃ text, OMExpo.generateLatest fs = .ok text ∧ (docLines text).map (parseLine P) = docTokens P fs ∧
      omParse P text = rulesOnly P (fs.map (fun fam => (fam, fam.samples.map (parsedOf P)))) := by
  have hnl : ∀ c ∈ fs.flatMap textLines ++ [sEOF], '\n' ∉ c := by
    intro c hc
    rcases List.mem_append.mp hc with h | h
    · obtain ⟨fam, hf, hc'⟩ := List.mem_flatMap.mp h
      exact nl_textLines P fam (hok fam hf) c hc'
    · simp only [List.mem_cons, List.not_mem_nil, or_false] at h
      subst h; decide
  have htok : (fs.flatMap textLines ++ [sEOF]).map (parseLine P) = docTokens P fs := by
    unfold docTokens
    rw [List.map_append, List.map_flatMap]
    simp only [List.map_cons, List.map_nil, parseLine_eof]
    congr 1
    exact flatMap_congr' fs (fun fam hf => parseLine_textLines P hI fam (hok fam hf))
  have hlines : (docLines (((fs.flatMap textLines ++ [sEOF]).map (· ++ ['\n'])).flatten)).map (parseLine P) = docTokens P fs := by
    rw [docLines_render _ hnl, htok]
  refine ⟨_, generateLatest_eq P fs hok, hlines, ?_⟩
  unfold omParse
  rw [hlines]
  exact assemble_docTokens P hI fs hok hadj

end PromVerif.Lemmas.OMRt
