/-
C12, the writer side without identity changes: one process, `process_identifier()` constant.  Then
`__check_for_pid_change` does nothing and the directory is a simple function of the value objects constructed so far:
file `<prefix>_<pid>.db` holds exactly the keys of the objects of that prefix, in construction order (`VInv.keys`),
no other file exists (`VInv.origin`), and — by C09's coherence invariant `Values.Inv`, which `VInv` carries — every
entry is what the owning object's cache holds.
-/
import PromVerif.Lemmas.MultiprocessHistory
import PromVerif.Lemmas.MultiprocessHist
import PromVerif.Lemmas.BackendsSort

namespace PromVerif.Lemmas.Backends
open PromVerif.Py PromVerif.Generated.Multiprocess
open PromVerif.Model.Multiprocess PromVerif.Model.Values
set_option autoImplicit false

variable {V : Type}

/-- the file a value object with parameters `p` is bound to under identity `pid` -/
def fileOf (pid : Str) (p : Params) : Str := fileName (filePrefix p) pid

def storeOf (disk : List (Str × Store V)) (fn : Str) : Store V := AL.getD disk fn []

theorem storeOf_set (disk : List (Str × Store V)) (fn fn' : Str) (s : Store V) :
    storeOf (AL.set disk fn s) fn' = if fn = fn' then s else storeOf disk fn' := by
  unfold storeOf
  simp only [AL.getD_eq, AL.get?_set]
  split <;> rfl

theorem storeOf_openFile (disk : List (Str × Store V)) (fn fn' : Str) : storeOf (openFile disk fn) fn' = storeOf disk fn' := by
  unfold openFile
  cases h : AL.get? disk fn with
  | some s => rfl
  | none =>
    simp only [storeOf_set]
    split
    · next e => subst e; simp [storeOf, AL.getD_eq, h]
    · rfl

theorem mem_keys_openFile (disk : List (Str × Store V)) (fn fn' : Str) :
    fn' ∈ AL.keys (openFile disk fn) ↔ fn' = fn ∨ fn' ∈ AL.keys disk := by
  unfold openFile
  cases h : AL.get? disk fn with
  | some s =>
    simp only
    constructor
    · exact Or.inr
    · rintro (e | e)
      · subst e
        exact (AL.get?_isSome_iff disk fn').mp (by rw [h]; rfl)
      · exact e
  | none => exact AL.mem_keys_set _ _ _ _

theorem nodup_keys_openFile (disk : List (Str × Store V)) (fn : Str) (h : (AL.keys disk).Nodup) :
    (AL.keys (openFile disk fn)).Nodup := by
  unfold openFile
  cases AL.get? disk fn with
  | some s => exact h
  | none => exact AL.nodup_set _ _ _ h

theorem isLast_of_nodup (ids : List (Str × Key)) (h : ids.Nodup) (i : Nat) : IsLast ids i := by
  intro j a hij hj hi
  exact nodup_getElem?_ne ids h i j a a hi hj (Nat.ne_of_lt hij) rfl

theorem opOK_of_nodup (ids : List (Str × Key)) (h : ids.Nodup) (op : Op V) : OpOK ids op := by
  cases op <;> first | trivial | exact isLast_of_nodup ids h _

/-- the invariant of a single-identity run -/
structure VInv (vo : VOps V) (pid : Str) (st : St V) : Prop where
  hpid : st.pid = pid
  hactual : st.actual = pid
  inv : Inv vo st
  /-- one value object per (prefix, key): every object is the youngest on its key (what C09's coherence asks of updates) -/
  uniq : (idsOf st).Nodup
  /-- file contents, as key lists: the keys of the objects bound to the file, in construction order -/
  keys : ∀ fn, AL.keys (storeOf st.disk fn)
    = ((st.values.map (·.params)).filter (fun p => decide (fileOf pid p = fn))).map mmapKey
  /-- every file belongs to some constructed object -/
  origin : ∀ fn ∈ AL.keys st.disk, ∃ p ∈ st.values.map (·.params), fileOf pid p = fn
  nodupFiles : (AL.keys st.disk).Nodup

theorem vinv_init (vo : VOps V) (pid : Str) : VInv vo pid (St.init (V := V) pid) :=
  ⟨rfl, rfl, inv_init vo pid, by simp [idsOf, St.init], by intro fn; simp [St.init, storeOf, AL.getD_eq, AL.keys],
    by intro fn h; simp [St.init, AL.keys] at h, by simp [St.init, AL.keys]⟩

theorem checkPid_same (vo : VOps V) (st : St V) (h : st.pid = st.actual) : checkPid vo st = st := by
  unfold checkPid
  simp [h]

/-- the disk after `__reset` of a NEW (prefix, key) -/
theorem reset_disk (vo : VOps V) (pid : Str) (files : List (Str × Str)) (disk : List (Str × Store V)) (p : Params)
    (hf : FilesOK pid files) (hnew : cellGet disk (fileOf pid p) (mmapKey p) = none) :
    ∃ disk0, (reset vo pid files disk p).2.2
        = AL.set disk0 (fileOf pid p) (AL.set (storeOf disk0 (fileOf pid p)) (mmapKey p) (vo.zero, vo.zero)) ∧
      (∀ fn, storeOf disk0 fn = storeOf disk fn) ∧
      (∀ fn, fn ∈ AL.keys disk0 → fn = fileOf pid p ∨ fn ∈ AL.keys disk) ∧
      ((AL.keys disk).Nodup → (AL.keys disk0).Nodup) := by
  cases hg : AL.get? files (filePrefix p) with
  | some fn0 =>
    have hfn : fn0 = fileOf pid p := hf _ _ hg
    subst hfn
    refine ⟨disk, ?_, fun _ => rfl, fun fn h => Or.inr h, id⟩
    rw [reset_some vo pid files disk p _ hg]
    simp only
    rw [readValue_none vo disk _ _ hnew]
    rfl
  | none =>
    refine ⟨openFile disk (fileOf pid p), ?_, fun fn => storeOf_openFile disk _ fn,
      fun fn h => (mem_keys_openFile disk _ fn).mp h, nodup_keys_openFile disk _⟩
    rw [reset_none vo pid files disk p hg]
    simp only
    have : cellGet (openFile disk (fileName (filePrefix p) pid)) (fileName (filePrefix p) pid) (mmapKey p) = none := by
      rw [cellGet_openFile]; exact hnew
    rw [readValue_none vo _ _ _ this]
    rfl

theorem filter_append_singleton {α : Type} (q : α → Bool) (l : List α) (a : α) :
    (l ++ [a]).filter q = if q a then l.filter q ++ [a] else l.filter q := by
  rw [List.filter_append]
  by_cases h : q a = true <;> simp [List.filter, h]

/-- constructing an object on a NEW (prefix, key): the object is appended, its key is appended to its file -/
theorem vinv_construct (vo : VOps V) (pid : Str) (st : St V) (h : VInv vo pid st) (p : Params)
    (hnew : idOf p ∉ st.values.map (fun v => idOf v.params)) :
    VInv vo pid (step vo st (.construct p)).1 ∧
      (step vo st (.construct p)).1.values.map (·.params) = st.values.map (·.params) ++ [p] ∧
      (∀ fn k, cellVal vo (step vo st (.construct p)).1.disk fn k = cellVal vo st.disk fn k) := by
  have hpa : st.pid = st.actual := by rw [h.hpid, h.hactual]
  have hb := h.inv.bound
  have hparams := step_params vo st (.construct p) hb
  have hu : ((step vo st (.construct p)).1.values.map (fun v => idOf v.params)).Nodup := by
    have e : (step vo st (.construct p)).1.values.map (fun v => idOf v.params)
        = st.values.map (fun v => idOf v.params) ++ [idOf p] := by
      have := congrArg (List.map idOf) hparams
      simpa [List.map_map, newParams, Function.comp_def] using this
    rw [e, List.nodup_append]
    exact ⟨h.uniq, by simp, by intro a ha b hb'; simp at hb'; subst hb'; intro e'; subst e'; exact hnew ha⟩
  have hinv := step_inv vo st (.construct p) h.inv trivial
  have hpid := step_pid vo st (.construct p) hb
  have hcell : ∀ fn k, cellVal vo (step vo st (.construct p)).1.disk fn k = cellVal vo st.disk fn k := by
    intro fn k
    have := step_cell vo st (.construct p) h.inv trivial fn k
    simpa using this
  -- the key is new in its file
  have hnone : cellGet st.disk (fileOf pid p) (mmapKey p) = none := by
    unfold cellGet
    rw [AL.get?_eq_none_iff]
    have hk := h.keys (fileOf pid p)
    unfold storeOf at hk
    rw [hk]
    intro hm
    obtain ⟨q, hq, e⟩ := List.mem_map.mp hm
    have hq' := List.mem_filter.mp hq
    obtain ⟨v, hv, e2⟩ := List.mem_map.mp hq'.1
    apply hnew
    refine List.mem_map.mpr ⟨v, hv, ?_⟩
    rw [e2]
    unfold idOf
    have e3 : fileOf pid q = fileOf pid p := by simpa using hq'.2
    rw [fileName_inj_prefix _ _ _ e3, e]
  -- the new disk
  have hstep : (step vo st (.construct p)).1.disk = (reset vo st.pid st.files st.disk p).2.2 := by
    simp only [step, checkPid_same vo st hpa]
  obtain ⟨disk0, hd, hs0, hk0, hn0⟩ := reset_disk vo pid st.files st.disk p (h.hpid ▸ hb.files) hnone
  rw [h.hpid] at hstep
  refine ⟨⟨by rw [hpid.2, h.hactual], by rw [hpid.1, h.hactual], hinv, hu, ?_, ?_, ?_⟩, by simpa [newParams] using hparams, hcell⟩
  · intro fn
    rw [hstep, hd, storeOf_set, hparams]
    simp only [newParams, filter_append_singleton, decide_eq_true_eq]
    by_cases e : fileOf pid p = fn
    · subst e
      simp only [if_true, List.map_append, List.map_cons, List.map_nil]
      rw [AL.keys_set, hs0, h.keys]
      have : mmapKey p ∉ AL.keys (storeOf st.disk (fileOf pid p)) := by
        have := (AL.get?_eq_none_iff (storeOf st.disk (fileOf pid p)) (mmapKey p)).mp hnone
        exact this
      rw [h.keys] at this
      rw [if_neg this]
    · simp only [e, if_false]
      rw [hs0, h.keys]
  · intro fn hfn
    rw [hstep, hd] at hfn
    rw [hparams]
    rcases (AL.mem_keys_set _ _ _ _).mp hfn with e | e
    · exact ⟨p, by simp [newParams], e.symm⟩
    · rcases hk0 fn e with e' | e'
      · exact ⟨p, by simp [newParams], e'.symm⟩
      · obtain ⟨q, hq, hqe⟩ := h.origin fn e'
        exact ⟨q, List.mem_append_left _ hq, hqe⟩
  · rw [hstep, hd]
    exact AL.nodup_set _ _ _ (hn0 h.nodupFiles)

/-- `inc` / `set` through a live object: nothing but the one cell moves; the key lists stay -/
theorem vinv_write (vo : VOps V) (pid : Str) (st : St V) (h : VInv vo pid st) (op : Op V)
    (hop : (∃ i a, op = .inc i a) ∨ (∃ i x t, op = .set i x t)) :
    VInv vo pid (step vo st op).1 ∧ (step vo st op).1.values.map (·.params) = st.values.map (·.params) := by
  have hpa : st.pid = st.actual := by rw [h.hpid, h.hactual]
  have hb := h.inv.bound
  have hparams : (step vo st op).1.values.map (·.params) = st.values.map (·.params) := by
    have := step_params vo st op hb
    rcases hop with ⟨i, a, e⟩ | ⟨i, x, t, e⟩ <;> subst e <;> simpa [newParams] using this
  have hu : ((step vo st op).1.values.map (fun v => idOf v.params)).Nodup := by
    have := congrArg (List.map idOf) hparams
    rw [List.map_map, List.map_map] at this
    have e : (fun v : ValueObj V => idOf v.params) = idOf ∘ (fun v : ValueObj V => v.params) := rfl
    rw [e, this, ← e]
    exact h.uniq
  have hinv := step_inv vo st op h.inv (opOK_of_nodup _ h.uniq op)
  have hpid := step_pid vo st op hb
  have hpid2 : (step vo st op).1.pid = pid ∧ (step vo st op).1.actual = pid := by
    rcases hop with ⟨i, a, e⟩ | ⟨i, x, t, e⟩ <;> subst e <;> exact ⟨by rw [hpid.2, h.hactual], by rw [hpid.1, h.hactual]⟩
  -- the disk: a write through a live object, or nothing
  have hdisk : (step vo st op).1.disk = st.disk ∨
      ∃ v ∈ st.values, ∃ x t, (step vo st op).1.disk = writeValue st.disk v.file v.key x t := by
    rcases hop with ⟨i, a, e⟩ | ⟨i, x, t, e⟩ <;> subst e <;> simp only [step, checkPid_same vo st hpa]
    · cases hv : st.values[i]? with
      | none => left; rfl
      | some v => right; exact ⟨v, List.mem_iff_getElem?.mpr ⟨i, hv⟩, _, _, rfl⟩
    · cases hv : st.values[i]? with
      | none => left; rfl
      | some v => right; exact ⟨v, List.mem_iff_getElem?.mpr ⟨i, hv⟩, _, _, rfl⟩
  refine ⟨⟨hpid2.1, hpid2.2, hinv, hu, ?_, ?_, ?_⟩, hparams⟩
  · intro fn
    rw [hparams]
    rcases hdisk with e | ⟨v, hv, x, t, e⟩
    · rw [e]; exact h.keys fn
    · rw [e]
      unfold writeValue
      rw [storeOf_set]
      split
      · next efn =>
        subst efn
        rw [AL.keys_set]
        have hex := hb.exist v hv
        have : v.key ∈ AL.keys (AL.getD st.disk v.file []) := (AL.get?_isSome_iff _ _).mp hex
        rw [if_pos this]
        exact h.keys _
      · exact h.keys fn
  · intro fn hfn
    rw [hparams]
    rcases hdisk with e | ⟨v, hv, x, t, e⟩
    · rw [e] at hfn; exact h.origin fn hfn
    · rw [e] at hfn
      unfold writeValue at hfn
      rcases (AL.mem_keys_set _ _ _ _).mp hfn with e' | e'
      · refine ⟨v.params, List.mem_map.mpr ⟨v, hv, rfl⟩, ?_⟩
        rw [e', (hb.bound v hv).2, h.hpid]
        rfl
      · exact h.origin fn e'
  · rcases hdisk with e | ⟨v, hv, x, t, e⟩
    · rw [e]; exact h.nodupFiles
    · rw [e]; exact AL.nodup_set _ _ _ h.nodupFiles

/-- the entries of a file are its keys decorated with the cell values -/
theorem store_eq (vo : VOps V) (pid : Str) (st : St V) (h : VInv vo pid st) (fn : Str) :
    storeOf st.disk fn = (AL.keys (storeOf st.disk fn)).map (fun k => (k, cellVal vo st.disk fn k)) := by
  have hnd : (AL.keys (storeOf st.disk fn)).Nodup := by
    rw [h.keys]
    have hu : (st.values.map (fun v => idOf v.params)).Nodup := h.uniq
    -- keys of one file: injective image of a sublist of the (prefix, key) identities
    have e : ((st.values.map (·.params)).filter (fun p => decide (fileOf pid p = fn))).map mmapKey
        = (((st.values.map (·.params)).filter (fun p => decide (fileOf pid p = fn))).map idOf).map (·.2) := by
      rw [List.map_map]; rfl
    rw [e]
    have hsub : (((st.values.map (·.params)).filter (fun p => decide (fileOf pid p = fn))).map idOf).Nodup := by
      have : (st.values.map (fun v => idOf v.params)) = (st.values.map (·.params)).map idOf := by
        rw [List.map_map]; rfl
      rw [this] at hu
      exact (List.filter_sublist.map idOf).nodup hu
    apply nodup_map_of_injOn _ _ hsub
    intro a ha b hb' hab
    obtain ⟨pa, hpa, ea⟩ := List.mem_map.mp ha
    obtain ⟨pb, hpb, eb⟩ := List.mem_map.mp hb'
    have fa : fileOf pid pa = fn := by simpa using (List.mem_filter.mp hpa).2
    have fb : fileOf pid pb = fn := by simpa using (List.mem_filter.mp hpb).2
    have hpre : filePrefix pa = filePrefix pb := fileName_inj_prefix _ _ _ (fa.trans fb.symm)
    rw [← ea, ← eb] at hab ⊢
    unfold idOf at hab ⊢
    simp only at hab
    rw [hpre, hab]
  exact AL.eq_map_keys _ _ (fun kv hkv => by
    unfold cellVal cellGet
    have := AL.get?_of_mem _ hnd kv.1 kv.2 hkv
    unfold storeOf at this
    rw [this]; rfl)

end PromVerif.Lemmas.Backends
