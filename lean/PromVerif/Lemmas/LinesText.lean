/-
C05 lemmas, part 6: every line of the text exposition model is `body ++ LF` with `body` classified by the grammar.
-/
import PromVerif.Lemmas.LinesNum
import PromVerif.Generated.Ctor

namespace PromVerif.Lemmas.Lines
open PromVerif.Py PromVerif.Model PromVerif.Model.Escape PromVerif.Model.Validation
open PromVerif.Generated.Expo PromVerif.Generated.Validation
open PromVerif.Spec.LineGrammar hiding Str

/-- hypothesis on one sample for the text format: its value is a number token (it is `repr(float(v))`).
Nothing is assumed about names, label names or label values. -/
def sampleOKText (s : Sample) : Bool := floatTok s.value

/-- a non-empty, sorted, comma-joined label list (sample labels `ex = false`, exemplar labels `ex = true`) -/
theorem run_sortedLabels (om ex : Bool) (item : Str × Str → Str)
    (hitem : ∀ f kv, run om (.lb ex f) (item kv) = .qe (if ex then .exval else .lval))
    (ls : List (Str × Str)) (hne : ls ≠ []) (f : Bool) :
    run om (.lb ex f) (joinStr [','] ((sortByKey ls).map item)) = .qe (if ex then .exval else .lval) := by
  have hs := sortByKey_ne_nil ls hne
  cases hsl : sortByKey ls with
  | nil => exact absurd hsl hs
  | cons kv l => exact run_labelList om ex f item hitem kv l

theorem text_labelItem (om f : Bool) (kv : Str × Str) :
    run om (.lb false f) (TextExpo.labelItem kv) = .qe .lval := run_labelItem om false f kv.1 kv.2

theorem text_labelStr_run (om f : Bool) (ls : List (Str × Str)) (hne : ls ≠ []) :
    run om (.lb false f) (TextExpo.labelStr ls) = .qe .lval :=
  run_sortedLabels om false TextExpo.labelItem (text_labelItem om) ls hne f

theorem labelItem_ne_nil (kv : Str × Str) : TextExpo.labelItem kv ≠ [] := by
  simp [TextExpo.labelItem]

theorem joinStr_ne_nil (sep : Str) (x : Str) (xs : List Str) (hx : x ≠ []) : joinStr sep (x :: xs) ≠ [] := by
  cases xs with
  | nil => simpa [joinStr] using hx
  | cons y ys => simp [joinStr, hx]

theorem text_labelStr_ne_nil (ls : List (Str × Str)) (hne : ls ≠ []) : TextExpo.labelStr ls ≠ [] := by
  unfold TextExpo.labelStr
  cases hsl : sortByKey ls with
  | nil => exact absurd hsl (sortByKey_ne_nil ls hne)
  | cons kv l => exact joinStr_ne_nil _ _ _ (labelItem_ne_nil kv)

theorem isEmpty_false_of_ne_nil (x : Str) (h : x ≠ []) : x.isEmpty = false := by
  cases x with
  | nil => exact absurd rfl h
  | cons a as => rfl

-- single edges of the automaton, as rewriting rules ------------------------------------------------------------
theorem e_name_brace (om : Bool) (r : Str) : run om .name ('{' :: r) = run om (.lb false true) r := by
  have : nameRest '{' = false := by decide
  simp [run_cons, step, this]
theorem e_name_sp (om : Bool) (r : Str) : run om .name (' ' :: r) = run om .v0 r := by
  have : nameRest ' ' = false := by decide
  simp [run_cons, step, this]
theorem e_lval_close (om : Bool) (r : Str) : run om (.qe .lval) ('}' :: r) = run om .al r := by
  simp [run_cons, step]
theorem e_al_sp (om : Bool) (r : Str) : run om .al (' ' :: r) = run om .v0 r := by simp [run_cons, step]
theorem e_mname_close (om : Bool) (r : Str) : run om (.qe .mname) ('}' :: r) = run om .al r := by
  simp [run_cons, step]
theorem e_mname_comma_text (r : Str) : run false (.qe .mname) (',' :: r) = run false (.lb false false) r := by
  simp [run_cons, step]
theorem e_mname_comma_om (r : Str) : run true (.qe .mname) (',' :: ' ' :: r) = run true (.lb false false) r := by
  simp [run_cons, step]
theorem e_s0_qname (om : Bool) (n r : Str) :
    run om .s0 ('{' :: '"' :: (escape n ++ '"' :: r)) = run om (.qe .mname) r := by
  have h1 : nameFirst '{' = false := by decide
  simp [run_cons, run_append, step, h1, run_escape]

theorem text_sampleLine_ok (s : Sample) (h : sampleOKText s = true) :
    ∃ b, TextExpo.sampleLine s = b ++ ['\n'] ∧ sampleLine false b = true := by
  have hv : floatTok s.value = true := h
  have hgo := run_value false _ (go_numTok _ hv)
  unfold TextExpo.sampleLine
  dsimp only
  split
  · next hleg =>
    refine ⟨_, rfl, ?_⟩
    have hname := run_bareMetric false s.name (legacy_metric_bare s.name hleg)
    unfold sampleLine
    cases hls : s.labels with
    | nil =>
      cases hts : s.ts <;>
        simp only [List.isEmpty_nil, if_true, List.append_assoc, List.cons_append, List.nil_append, List.append_nil,
          run_append, hname, hgo, e_name_sp, run_text_ts, accepting]
    | cons kv l =>
      have he := isEmpty_false_of_ne_nil _ (text_labelStr_ne_nil (kv :: l) (by simp))
      have hlab := text_labelStr_run false true (kv :: l) (by simp)
      cases hts : s.ts <;>
        simp only [List.isEmpty_cons, he, Bool.false_eq_true, if_false, List.append_assoc, List.cons_append,
          List.nil_append, List.append_nil, run_append, hname, hgo, hlab, e_name_brace, e_lval_close, e_al_sp,
          run_text_ts, accepting]
  · next hleg =>
    refine ⟨_, rfl, ?_⟩
    have hq : escapeMetricName s.name = ['"'] ++ escape s.name ++ ['"'] := by
      unfold escapeMetricName; simp [hleg]
    unfold sampleLine
    cases hls : s.labels with
    | nil =>
      cases hts : s.ts <;>
        simp only [hq, List.isEmpty_nil, if_true, List.append_assoc, List.cons_append, List.nil_append,
          List.append_nil, run_append, hgo, e_s0_qname, e_mname_close, e_al_sp, run_text_ts, accepting]
    | cons kv l =>
      have he := isEmpty_false_of_ne_nil _ (text_labelStr_ne_nil (kv :: l) (by simp))
      have hlab := text_labelStr_run false false (kv :: l) (by simp)
      cases hts : s.ts <;>
        simp only [hq, List.isEmpty_cons, he, Bool.false_eq_true, if_false, List.append_assoc, List.cons_append,
          List.nil_append, List.append_nil, run_append, hgo, hlab, e_s0_qname, e_mname_comma_text,
          e_lval_close, e_al_sp, run_text_ts, accepting]

-- metadata lines ----------------------------------------------------------------------------------------------
theorem classify_help (om : Bool) (n t : Str) (ht : helpText om t = true) :
    classify om ("# HELP ".toList ++ (escapeMetricName n ++ ' ' :: t)) = some .help := by
  unfold classify
  rw [stripPrefix_append]
  simp only [metaName_escapeMetricName n t]
  simp [ht]

theorem stripPrefix_help_type (x : Str) : stripPrefix "# HELP ".toList ("# TYPE ".toList ++ x) = none := by
  simp [stripPrefix]

theorem stripPrefix_help_unit (x : Str) : stripPrefix "# HELP ".toList ("# UNIT ".toList ++ x) = none := by
  simp [stripPrefix]

theorem stripPrefix_type_unit (x : Str) : stripPrefix "# TYPE ".toList ("# UNIT ".toList ++ x) = none := by
  simp [stripPrefix]

theorem classify_type (om : Bool) (n t : Str)
    (ht : (if om then typesOM else typesText).contains t = true) :
    classify om ("# TYPE ".toList ++ (escapeMetricName n ++ ' ' :: t)) = some .type := by
  unfold classify
  rw [stripPrefix_help_type, stripPrefix_append]
  simp only [metaName_escapeMetricName n t]
  rw [if_pos ht]

theorem classify_unit (n u : Str) (hu : unitTok u = true) :
    classify true ("# UNIT ".toList ++ (escapeMetricName n ++ ' ' :: u)) = some .unit := by
  unfold classify
  rw [stripPrefix_help_unit, stripPrefix_type_unit]
  simp only [if_true, stripPrefix_append, metaName_escapeMetricName n u]
  simp [hu]

theorem classify_eof : classify true "# EOF".toList = some .eof := by decide

/-- a line of the model together with its kind: LF-terminated, body classified -/
def LineOf (om : Bool) (k : Kind) (l : Str) : Prop := ∃ b, l = b ++ ['\n'] ∧ classify om b = some k

theorem LineOf.isLine {om : Bool} {k : Kind} {l : Str} (h : LineOf om k l) : IsLine l := by
  obtain ⟨b, rfl, hb⟩ := h
  exact isLine_mk b (classify_noLF om b k hb)

theorem LineOf.kind {om : Bool} {k : Kind} {l : Str} (h : LineOf om k l) : classify om l.dropLast = some k := by
  obtain ⟨b, rfl, hb⟩ := h
  simpa using hb

theorem text_helpLine_ok (n doc : Str) (tr : Bool) :
    LineOf false .help (TextExpo.helpLine n doc tr) := by
  refine ⟨_, rfl, ?_⟩
  simp only [List.append_assoc, List.cons_append, List.nil_append]
  apply classify_help false n _
  have := hscan_escapeHelp doc
  cases tr
  · simpa [helpText] using this
  · simpa [helpText, escapeHelpTrailing_eq] using this

theorem text_typeLine_ok (n t : Str) (ht : typesText.contains t = true) :
    LineOf false .type (TextExpo.typeLine n t) := by
  refine ⟨_, rfl, ?_⟩
  simp only [List.append_assoc, List.cons_append, List.nil_append]
  exact classify_type false n t (by simpa using ht)

theorem text_sampleLine_lineOf (s : Sample) (h : sampleOKText s = true) :
    LineOf false .sample (TextExpo.sampleLine s) := by
  obtain ⟨b, hb, hs⟩ := text_sampleLine_ok s h
  exact ⟨b, hb, classify_sample false b hs⟩

/-- every type in `METRIC_TYPES` is written as one of the text format's five type words, and is an OpenMetrics type -/
theorem munge_type_ok : ∀ t ∈ PromVerif.Generated.Ctor.metricTypes,
    typesText.contains (TextExpo.munge [] t).2 = true ∧ typesOM.contains t = true := by decide

theorem munge_snd (n t : Str) : (TextExpo.munge n t).2 = (TextExpo.munge [] t).2 := by
  unfold TextExpo.munge; split <;> rfl

end PromVerif.Lemmas.Lines
