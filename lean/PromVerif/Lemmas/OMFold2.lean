/-
Totality of the line/family fold of the OpenMetrics parser model, part 2: `_check_histogram` / `build_metric` on the
sample lists the fold builds, the invariant of the fold, and the composition.
-/
import PromVerif.Lemmas.OMFold
import PromVerif.Lemmas.OMDoom
import PromVerif.Lemmas.OMHist

namespace PromVerif.Lemmas.OM
open PromVerif.Py PromVerif.Model.ParseCore PromVerif.Model.Validation PromVerif.Model.OMParse PromVerif.Generated.OMParse

/-- what `_check_histogram` needs of a sample list of family `n`: native-histogram samples (skipped, 2c736ec) and
plain samples — one whose name continues `n` with `_bucket` is exactly `n_bucket` and carries an `le` label -/
def HistOK (n : Str) (samples : List OSample) : Prop :=
  ∀ s ∈ samples,
    (Plain s ∧ (s.name.drop n.length = sBucket → s.name = n ++ sBucket ∧ ∃ l le, s.labels = some l ∧ dictGet l sLe = some le))
    ∨ s.nh.isSome = true

theorem safe_doChecks (P : Params) (h : HSt) (hv : h.value.isSome = true) : Safe (doChecks P h) := by
  unfold doChecks
  apply safe_runChecks
  intro c hc
  simp only [List.mem_cons, List.not_mem_nil, or_false] at hc
  rcases hc with rfl | rfl | rfl | rfl | rfl | rfl | rfl
  · exact safe_raiseIf _
  · split
    · rename_i hc
      obtain ⟨c, hc⟩ := Option.isSome_iff_exists.mp hc
      obtain ⟨v, hv⟩ := Option.isSome_iff_exists.mp hv
      rw [hc, hv]
      exact safe_raiseIfM _ (safe_cmpOpt_some P _ _ _)
    · exact safe_ok _
  all_goals exact safe_raiseIf _

theorem safe_histReset (P : Params) (h : HSt) (g : Option Labels) (ts : Option OTs) (hv : h.value.isSome = true) :
    Safe (histReset P h g ts) ∧ ∀ h', histReset P h g ts = .ok h' → h'.value.isSome = true := by
  unfold histReset
  split
  · cases hd : (if h.group.isSome then doChecks P h else .ok ()) with
    | error e =>
      refine ⟨?_, fun h' hh => by cases hh⟩
      intro e' he'; cases he'
      split at hd
      · exact safe_doChecks P h hv e hd
      · cases hd
    | ok u => exact ⟨safe_ok _, fun h' hh => by cases hh; rfl⟩
  · exact ⟨safe_ok _, fun h' hh => by cases hh; exact hv⟩

theorem groupForSample_hist_safe (n : Str) (s : OSample) (hp : Plain s)
    (hb : s.name = n ++ sBucket → ∃ l le, s.labels = some l ∧ dictGet l sLe = some le) :
    ∃ g, groupForSample s n tHistogram = .ok g := by
  obtain ⟨l, hl⟩ := Option.isSome_iff_exists.mp hp.1
  unfold groupForSample
  rw [if_neg not_info, not_summary]
  simp only [Bool.false_and, Bool.false_eq_true, if_false, if_neg not_stateset]
  by_cases c : ((tHistogram == tHistogram || tHistogram == tGaugeHistogram) && s.name == n ++ sBucket) = true
  · rw [if_pos c]
    have hname : s.name = n ++ sBucket := by
      have := (Bool.and_eq_true _ _ ▸ c : _ ∧ _).2
      simpa using this
    obtain ⟨l', le, hl', hle⟩ := hb hname
    obtain ⟨d', hd'⟩ := dictDel_ok_of_has l' sLe (dictHas_of_get l' _ le hle)
    exact ⟨some d', by simp [labelsCopy, hl', hd', bind, Except.bind]; rfl⟩
  · rw [if_neg c]; exact ⟨_, rfl⟩

theorem safe_histStep (P : Params) (n : Str) (h : HSt) (s : OSample) (hp : Plain s)
    (hb : s.name.drop n.length = sBucket → s.name = n ++ sBucket ∧ ∃ l le, s.labels = some l ∧ dictGet l sLe = some le)
    (hv : h.value.isSome = true) :
    Safe (histStep P n h s) ∧ ∀ h', histStep P n h s = .ok h' → h'.value.isSome = true := by
  obtain ⟨sv, hsv⟩ := Option.isSome_iff_exists.mp hp.2
  obtain ⟨g, hg⟩ := groupForSample_hist_safe n s hp (fun e => (hb (by rw [e]; simp)).2)
  unfold histStep
  split
  · exact ⟨safe_ok _, fun h' hh => by cases hh; exact hv⟩
  unfold histStepBody
  rw [hg]
  dsimp only
  by_cases c0 : (s.name.drop n.length).isEmpty = true
  · rw [if_pos c0]; exact ⟨safe_ok _, fun h' hh => by cases hh; exact hv⟩
  · rw [if_neg c0]
    obtain ⟨hrs, hrv⟩ := safe_histReset P h g s.ts hv
    cases hr : histReset P h g s.ts with
    | error e => exact ⟨fun e' he' => by cases he'; exact hrs e hr, fun h' hh => by cases hh⟩
    | ok h1 =>
      dsimp only
      have hv1 := hrv h1 hr
      obtain ⟨v1, hv1'⟩ := Option.isSome_iff_exists.mp hv1
      by_cases c1 : (s.name.drop n.length == sBucket) = true
      · rw [if_pos c1]
        obtain ⟨_, l, le, hl, hle⟩ := hb (by simpa using c1)
        unfold histBucket
        have : leOf s = .ok le := by simp only [leOf, hl, hle]
        rw [this]
        dsimp only
        cases hf : P.floatE le with
        | error e => exact ⟨fun e' he' => by cases he'; exact safe_floatE P le e hf, fun h' hh => by cases hh⟩
        | ok b =>
          dsimp only
          cases h3 : raiseIf (match h1.bucket with
              | some prev => P.cmp bucketOrderCmp (.flt b) (.flt prev)
              | none => false) with
          | error e => exact ⟨fun e' he' => by cases he'; exact safe_raiseIf _ e h3, fun h' hh => by cases hh⟩
          | ok u =>
            dsimp only
            rw [hsv, hv1']
            cases h4 : raiseIfM (P.cmpOpt bucketValueCmp (some sv) (some v1)) with
            | error e =>
              exact ⟨fun e' he' => by cases he'; exact safe_raiseIfM _ (safe_cmpOpt_some P _ _ _) e h4, fun h' hh => by cases hh⟩
            | ok u4 => exact ⟨safe_ok _, fun h' hh => by cases hh; rfl⟩
      · rw [if_neg c1]
        split
        · exact ⟨safe_ok _, fun h' hh => by cases hh; exact hv1⟩
        · split
          · exact ⟨safe_ok _, fun h' hh => by cases hh; exact hv1⟩
          · split
            · rw [hsv]
              exact ⟨safe_ok _, fun h' hh => by cases hh; exact hv1⟩
            · exact ⟨safe_ok _, fun h' hh => by cases hh; exact hv1⟩

theorem safe_histStep_nh (P : Params) (n : Str) (h : HSt) (s : OSample) (hs : s.nh.isSome = true) (hv : h.value.isSome = true) :
    Safe (histStep P n h s) ∧ ∀ h', histStep P n h s = .ok h' → h'.value.isSome = true := by
  have hflag : histSkipsNh = true := by decide
  unfold histStep
  rw [hflag, hs]
  exact ⟨safe_ok _, fun h' hh => by cases hh; exact hv⟩

theorem safe_histLoop (P : Params) (n : Str) : ∀ (samples : List OSample) (h : HSt), HistOK n samples → h.value.isSome = true →
    Safe (histLoop P n h samples) ∧ ∀ h', histLoop P n h samples = .ok h' → h'.value.isSome = true := by
  intro samples
  induction samples with
  | nil => intro h _ hv; exact ⟨safe_ok _, fun h' hh => by cases hh; exact hv⟩
  | cons s ss ih =>
    intro h hok hv
    have hstep : Safe (histStep P n h s) ∧ ∀ h', histStep P n h s = .ok h' → h'.value.isSome = true := by
      rcases hok s (List.mem_cons_self ..) with ⟨hp, hb⟩ | hnh
      · exact safe_histStep P n h s hp hb hv
      · exact safe_histStep_nh P n h s hnh hv
    obtain ⟨hs, hsv⟩ := hstep
    unfold histLoop
    cases hst : histStep P n h s with
    | error e => exact ⟨fun e' he' => by cases he'; exact hs e hst, fun h' hh => by cases hh⟩
    | ok h1 => exact ih h1 (fun s' hs' => hok s' (List.mem_cons_of_mem _ hs')) (hsv h1 hst)

/-- `_check_histogram` raises nothing but ValueError on such a list -/
theorem safe_checkHistogram (P : Params) (n : Str) (samples : List OSample) (hok : HistOK n samples) :
    Safe (checkHistogram P samples n) := by
  unfold checkHistogram
  obtain ⟨hs, hv⟩ := safe_histLoop P n samples {} hok rfl
  cases hl : histLoop P n {} samples with
  | error e => intro e' he'; cases he'; exact hs e hl
  | ok h =>
    dsimp only
    split
    · exact safe_doChecks P h (hv h hl)
    · exact safe_ok _

/-- `build_metric` -/
theorem safe_flush (P : Params) (g : Glob) (h : Hdr) (samples : List OSample)
    (hok : ∀ n, h.name = some n → histTypes.contains (h.typ.getD tUnknown) = true → HistOK n samples) :
    Safe (flush P g h samples) := by
  unfold flush
  cases hn : h.name with
  | none => exact safe_ok _
  | some n =>
    dsimp only
    unfold buildMetric
    dsimp only
    cases hr : runChecks (buildChecks P g.seenNames n (h.typ.getD tUnknown) (h.unit.getD []) samples) with
    | ok u => exact safe_ok _
    | error e =>
      intro e' he'; cases he'
      refine safe_runChecks _ ?_ e hr
      intro c hc
      simp only [buildChecks, List.mem_cons, List.not_mem_nil, or_false] at hc
      rcases hc with rfl | rfl | rfl | rfl | rfl | rfl
      · exact safe_raiseIf _
      · exact safe_raiseIf _
      · exact safe_raiseIf _
      · split
        · rename_i hc
          exact safe_checkHistogram P n samples (hok n hn hc)
        · exact safe_ok _
      · exact safe_validateMetricName _ _
      · exact safe_raiseIf _

end PromVerif.Lemmas.OM
