/-
C11: the zero-length and the all-zero file, reopening a cut state, "never written, never read" at spec level, and the
collector loop over several files.
-/
import PromVerif.Lemmas.MmapHistory
namespace PromVerif.Lemmas.Mmap
open PromVerif.Py PromVerif.Model.MmapDict PromVerif.Generated.Mmap
open PromVerif.Spec.MmapDict (Store PrefixFrom PrefixState Written)

/-! ## the two special files of a fresh writer: zero length, and sized but without header -/

/-- a file shorter than the 4-byte counter (created, not yet sized) reads as empty — the repaired behaviour (F11) -/
theorem fromFile_short (page : Nat) (f : Bytes) (h : f.length < 4) : readAllValuesFromFile page f = .ok [] := by
  have : shortFile (f.take page) = true := shortFile_true (by rw [List.length_take]; omega)
  simp [readAllValuesFromFile, this]

theorem fromFile_empty (page : Nat) : readAllValuesFromFile page [] = .ok [] :=
  fromFile_short page [] (by simp)

theorem take_zeros (m n : Nat) : (zeros n).take m = zeros (min m n) := by simp [zeros, List.take_replicate]

theorem fromFile_zeros (page n : Nat) (hn : 4 ≤ n) (hp : 4 ≤ page) : readAllValuesFromFile page (zeros n) = .ok [] := by
  have h0 := unpackInt_zeros (min page n) (by omega)
  unfold readAllValuesFromFile
  have hsf : shortFile (zeros (min page n)) = false := shortFile_false (by simp; omega)
  simp only [take_zeros, hsf, Bool.false_eq_true, if_false, h0, bind, Except.bind]
  have : ¬ ((0 : Int) > ((zeros (min page n)).length : Int)) := by omega
  simp only [this, if_false]
  unfold readAllValuesRaw
  simp [h0, bind, Except.bind]

/-- a cut state opens: the constructor rebuilds the index of exactly its entries, with no file effect -/
theorem init_cutrep {file es} (h : CutRep file es) (initSize : Nat) :
    ∃ d, init initSize file = .ok (d, []) ∧ (∃ tl, Rep d es tl) := by
  obtain ⟨u, tl, hf, hn⟩ := h
  have hr : Rep ⟨file, file.length, u, posOf 8 es⟩ es tl := ⟨hf, rfl, rfl, hn⟩
  exact ⟨_, init_reopen hr initSize, tl, hr⟩

/-! ## nothing that was never written is ever read (spec level) -/

theorem mem_write (s : Store) (k : Key) (v t : UInt64) (x : Key × UInt64 × UInt64) (h : x ∈ s.write k v t) :
    x ∈ s ∨ x = (k, v, t) := by
  induction s with
  | nil => simp [Store.write] at h; exact Or.inr h
  | cons e s ih =>
    by_cases he : e.1 = k
    · simp only [Store.write, he, if_true, List.mem_cons] at h
      rcases h with h | h
      · exact Or.inr h
      · exact Or.inl (List.mem_cons_of_mem _ h)
    · simp only [Store.write, he, if_false, List.mem_cons] at h
      rcases h with h | h
      · exact Or.inl (by simp [h])
      · rcases ih h with h | h
        · exact Or.inl (List.mem_cons_of_mem _ h)
        · exact Or.inr h

theorem written_mono {ops ops' : List Spec.MmapDict.Op} (hsub : ∀ o ∈ ops, o ∈ ops') {k v t} (h : Written ops k v t) :
    Written ops' k v t := by
  obtain ⟨⟨op, ho, hk⟩, hv⟩ := h
  refine ⟨⟨op, hsub op ho, hk⟩, ?_⟩
  rcases hv with hv | hv
  · exact Or.inl hv
  · exact Or.inr (hsub _ hv)

theorem mem_step (s : Store) (op : Spec.MmapDict.Op) (x : Key × UInt64 × UInt64) (h : x ∈ Spec.MmapDict.step s op) :
    x ∈ s ∨ Written [op] x.1 x.2.1 x.2.2 := by
  cases op with
  | write k v t =>
    rcases mem_write s k v t x h with h | h
    · exact Or.inl h
    · subst h; exact Or.inr ⟨⟨.write k v t, by simp, rfl⟩, Or.inr (by simp)⟩
  | read k =>
    simp only [Spec.MmapDict.step, Store.touch] at h
    split at h
    · exact Or.inl h
    · rcases List.mem_append.mp h with h | h
      · exact Or.inl h
      · simp at h; subst h; exact Or.inr ⟨⟨.read k, by simp, rfl⟩, Or.inl ⟨rfl, rfl⟩⟩
  | reopen => exact Or.inl h

theorem mem_run : ∀ (ops : List Spec.MmapDict.Op) (s : Store) (x : Key × UInt64 × UInt64),
    x ∈ Spec.MmapDict.run s ops → x ∈ s ∨ Written ops x.1 x.2.1 x.2.2 := by
  intro ops
  induction ops with
  | nil => intro s x h; exact Or.inl h
  | cons op ops ih =>
    intro s x h
    simp only [Spec.MmapDict.run, List.foldl_cons] at h
    rcases ih (Spec.MmapDict.step s op) x h with h | h
    · rcases mem_step s op x h with h | h
      · exact Or.inl h
      · exact Or.inr (written_mono (by simp) h)
    · exact Or.inr (written_mono (by intro o ho; exact List.mem_cons_of_mem _ ho) h)

theorem prefixFrom_written (s : Store) (ops : List Spec.MmapDict.Op) (r : Store) (h : PrefixFrom s ops r)
    (x : Key × UInt64 × UInt64) (hx : x ∈ r) : x ∈ s ∨ Written ops x.1 x.2.1 x.2.2 := by
  obtain ⟨j, _, h⟩ := h
  have sub : ∀ o ∈ ops.take j, o ∈ ops := fun o ho => List.mem_of_mem_take ho
  rcases h with rfl | ⟨k, hk, _, rfl⟩
  · rcases mem_run _ s x hx with h | h
    · exact Or.inl h
    · exact Or.inr (written_mono sub h)
  · rcases List.mem_append.mp hx with hx | hx
    · rcases mem_run _ s x hx with h | h
      · exact Or.inl h
      · exact Or.inr (written_mono sub h)
    · simp at hx; subst hx
      cases hd : (ops.drop j).head? with
      | none => simp [hd] at hk
      | some op =>
        simp [hd] at hk
        have : op ∈ ops := List.mem_of_mem_drop (List.mem_of_mem_head? hd)
        exact Or.inr ⟨⟨op, this, hk⟩, Or.inl ⟨rfl, rfl⟩⟩

/-! ## the collector's loop over several files -/

theorem readMetrics_ok (page : Nat) : ∀ (files : List Bytes),
    (∀ f ∈ files, ∃ items, readAllValuesFromFile page f = .ok items) → ∃ r, readMetrics page files = .ok r := by
  intro files
  induction files with
  | nil => intro _; exact ⟨[], rfl⟩
  | cons f files ih =>
    intro h
    obtain ⟨items, hi⟩ := h f (by simp)
    obtain ⟨r, hr⟩ := ih (fun g hg => h g (List.mem_cons_of_mem _ hg))
    unfold readMetrics at hr ⊢
    exact ⟨items :: r, by simp [List.mapM_cons, hi, hr, bind, Except.bind, pure, Except.pure]⟩

theorem readMetrics_fail (page : Nat) (healthy : Bytes) (items : List Item) (bad : Bytes) (rest : List Bytes) (e : PyErr)
    (h1 : readAllValuesFromFile page healthy = .ok items) (h2 : readAllValuesFromFile page bad = .error e) :
    readMetrics page (healthy :: bad :: rest) = .error e := by
  unfold readMetrics
  simp [List.mapM_cons, h1, h2, bind, Except.bind]

/-! ## readers on an open represented store; the tail of a crashed writer's file -/

theorem Rep.readers {d es tail} (h : Rep d es tail) (page : Nat) (hp : 4 ≤ page) :
    readAllValues d = .ok (absOf d) ∧
    (readAllValuesFromFile page (close d)).map (fun items => items.map fun (x : Item) => (x.1, x.2.1, x.2.2.1))
      = .ok (absOf d) := by
  constructor
  · unfold readAllValues
    simp only [h.file.raw_ok, bind, Except.bind, h.absOf_eq]
    exact congrArg _ (scanOut_triples es 8)
  · simp only [close, h.file.fromFile_ok page hp, Except.map, h.absOf_eq]
    exact congrArg _ (scanOut_triples es 8)

/-- an entry that was written but not yet published leaves NON-zero bytes beyond `used` (its padding is spaces): the
zero-tail clause of C10's `WF` does not hold at such a cut, and nothing below needs it -/
theorem orphan_tail_not_zero (e : Entry) (rest : Bytes) : ¬ ZeroTail (encEntry e ++ rest) := by
  intro h
  have hp := (layout (klen e.key)).2.1
  have hm : (32 : UInt8) ∈ encEntry e ++ rest := by
    obtain ⟨m, hm⟩ : ∃ m, padLen (klen e.key) = m + 1 := ⟨padLen (klen e.key) - 1, by omega⟩
    simp [encEntry, hm, List.replicate_succ]
  exact absurd (h 32 hm) (by decide)

end PromVerif.Lemmas.Mmap
