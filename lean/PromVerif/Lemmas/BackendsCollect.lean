/-
C12, the collector on ONE process's files, non-histogram families: every series has exactly one contribution, so
  * a counter / summary cell is returned as `0.0 + value` (the `samples[k] += value` of a `defaultdict(float)`),
  * a gauge in mode min / max is returned unchanged (`setdefault`), in mode sum as `0.0 + value`, in mode all / liveall
    unchanged under the key with the `pid` label, in a mostrecent mode unchanged if its set-time is positive and NOT AT
    ALL otherwise.
-/
import PromVerif.Lemmas.BackendsFiles

namespace PromVerif.Lemmas.Backends
open PromVerif.Py PromVerif.Generated.Multiprocess
open PromVerif.Model.Multiprocess
open PromVerif.Spec.Multiprocess
set_option autoImplicit false

variable {V : Type}

theorem filter_key_of_nodup (kf : Contrib V → SKey) : ∀ (cs : List (Contrib V)), (cs.map kf).Nodup → ∀ (c : Contrib V), c ∈ cs →
    cs.filter (fun x => decide (kf x = kf c)) = [c]
  | [], _, _, h => by cases h
  | x :: xs, hnd, c, hc => by
    simp only [List.map_cons, List.nodup_cons] at hnd
    rcases List.mem_cons.mp hc with e | e
    · subst e
      rw [List.filter_cons_of_pos (by simp)]
      congr 1
      apply filter_eq_nil_of
      intro y hy
      simp only [decide_eq_false_iff_not]
      intro e'
      exact hnd.1 (e' ▸ List.mem_map.mpr ⟨y, hy, rfl⟩)
    · have hne : kf x ≠ kf c := fun e' => hnd.1 (e' ▸ List.mem_map.mpr ⟨c, e, rfl⟩)
      rw [List.filter_cons_of_neg (by simpa using hne)]
      exact filter_key_of_nodup kf xs hnd.2 c e

theorem filter_key_none (kf : Contrib V → SKey) (cs : List (Contrib V)) (k : SKey) (h : ∀ c ∈ cs, kf c ≠ k) :
    cs.filter (fun x => decide (kf x = k)) = [] :=
  filter_eq_nil_of _ _ (fun c hc => by simpa using h c hc)

/-- one contribution per series: the values contributed to `k` -/
theorem valuesFor_single (kf : Contrib V → SKey) (cs : List (Contrib V)) (hnd : (cs.map kf).Nodup) (k : SKey) :
    (∃ c ∈ cs, kf c = k ∧ valuesFor kf cs k = [c.value]) ∨ ((∀ c ∈ cs, kf c ≠ k) ∧ valuesFor kf cs k = []) := by
  by_cases h : ∃ c ∈ cs, kf c = k
  · obtain ⟨c, hc, e⟩ := h
    left
    refine ⟨c, hc, e, ?_⟩
    unfold valuesFor
    rw [← e, filter_key_of_nodup kf cs hnd c hc]
    rfl
  · right
    have h' : ∀ c ∈ cs, kf c ≠ k := fun c hc e => h ⟨c, hc, e⟩
    refine ⟨h', ?_⟩
    unfold valuesFor
    rw [filter_key_none kf cs k h']
    rfl

/-- counter / summary / `_sum` cells, gauges in mode sum: `0.0 + value` -/
theorem sumValue_single (vo : VOps V) (cs : List (Contrib V)) (hnd : (cs.map plainKey).Nodup) (k : SKey) (v : V) :
    sumValue vo cs k = some v ↔ ∃ c ∈ cs, plainKey c = k ∧ v = vo.add vo.zero c.value := by
  unfold sumValue
  rcases valuesFor_single plainKey cs hnd k with ⟨c, hc, e, hv⟩ | ⟨hno, hv⟩
  · rw [hv]
    simp only [aggSum, List.foldl_cons, List.foldl_nil, Option.some.injEq]
    constructor
    · intro h; exact ⟨c, hc, e, h.symm⟩
    · rintro ⟨c', hc', e', rfl⟩
      have := filter_key_of_nodup plainKey cs hnd c hc
      have hm : c' ∈ cs.filter (fun x => decide (plainKey x = plainKey c)) :=
        List.mem_filter.mpr ⟨hc', by simp [e', e]⟩
      rw [this] at hm
      simp only [List.mem_singleton] at hm
      rw [hm]
  · rw [hv]
    simp only [reduceCtorEq, false_iff]
    rintro ⟨c, hc, e, _⟩
    exact hno c hc e

/-- min / max of one value is that value -/
theorem pick_single (better : V → V → Bool) (cs : List (Contrib V)) (hnd : (cs.map plainKey).Nodup) (k : SKey) (v : V) :
    aggPick better (valuesFor plainKey cs k) = some v ↔ ∃ c ∈ cs, plainKey c = k ∧ v = c.value := by
  rcases valuesFor_single plainKey cs hnd k with ⟨c, hc, e, hv⟩ | ⟨hno, hv⟩
  · rw [hv]
    simp only [aggPick, List.foldl_nil, Option.some.injEq]
    constructor
    · intro h; exact ⟨c, hc, e, h.symm⟩
    · rintro ⟨c', hc', e', rfl⟩
      have := filter_key_of_nodup plainKey cs hnd c hc
      have hm : c' ∈ cs.filter (fun x => decide (plainKey x = plainKey c)) :=
        List.mem_filter.mpr ⟨hc', by simp [e', e]⟩
      rw [this] at hm
      simp only [List.mem_singleton] at hm
      rw [hm]
  · rw [hv]
    simp only [aggPick, reduceCtorEq, false_iff]
    rintro ⟨c, hc, e, _⟩
    exact hno c hc e

/-- all / liveall: the value, under the key with the `pid` label -/
theorem all_single (vo : VOps V) (cs : List (Contrib V)) (hnd : (cs.map pidKey).Nodup) (k : SKey) (v : V) :
    gaugeValue vo .gaugeAll cs k = some v ↔ ∃ c ∈ cs, pidKey c = k ∧ v = c.value := by
  simp only [gaugeValue, aggLast]
  rcases valuesFor_single pidKey cs hnd k with ⟨c, hc, e, hv⟩ | ⟨hno, hv⟩
  · rw [hv]
    simp only [List.getLast?_singleton, Option.some.injEq]
    constructor
    · intro h; exact ⟨c, hc, e, h.symm⟩
    · rintro ⟨c', hc', e', rfl⟩
      have := filter_key_of_nodup pidKey cs hnd c hc
      have hm : c' ∈ cs.filter (fun x => decide (pidKey x = pidKey c)) :=
        List.mem_filter.mpr ⟨hc', by simp [e', e]⟩
      rw [this] at hm
      simp only [List.mem_singleton] at hm
      rw [hm]
  · rw [hv]
    simp only [List.getLast?_nil, reduceCtorEq, false_iff]
    rintro ⟨c, hc, e, _⟩
    exact hno c hc e

/-- mostrecent: the value if it was ever set (positive set-time), otherwise no series at all -/
theorem mostRecent_single (vo : VOps V) (cs : List (Contrib V)) (hnd : (cs.map plainKey).Nodup) (k : SKey) (v : V) :
    gaugeValue vo .gaugeMostRecent cs k = some v ↔
      ∃ c ∈ cs, plainKey c = k ∧ v = c.value ∧ vo.lt vo.zero (normTs vo c.ts) = true := by
  simp only [gaugeValue]
  by_cases h : ∃ c ∈ cs, plainKey c = k
  · obtain ⟨c, hc, e⟩ := h
    have hf : cs.filter (fun x => decide (plainKey x = k)) = [c] := by
      rw [← e]; exact filter_key_of_nodup plainKey cs hnd c hc
    rw [hf]
    simp only [aggMostRecent, List.map_cons, List.map_nil, List.foldl_cons, List.foldl_nil]
    constructor
    · intro hv
      by_cases hl : vo.lt vo.zero (normTs vo c.ts) = true
      · simp only [hl, if_true, Option.some.injEq] at hv
        exact ⟨c, hc, e, hv.symm, hl⟩
      · simp [hl] at hv
    · rintro ⟨c', hc', e', rfl, hl⟩
      have hm : c' ∈ cs.filter (fun x => decide (plainKey x = k)) := List.mem_filter.mpr ⟨hc', by simp [e']⟩
      rw [hf] at hm
      simp only [List.mem_singleton] at hm
      subst hm
      simp [hl]
  · have hno : ∀ c ∈ cs, plainKey c ≠ k := fun c hc e => h ⟨c, hc, e⟩
    rw [filter_key_none plainKey cs k hno]
    simp only [aggMostRecent, List.map_nil, List.foldl_nil, reduceCtorEq, false_iff]
    rintro ⟨c, hc, e, _⟩
    exact hno c hc e

end PromVerif.Lemmas.Backends
