/-
C01 helper lemmas, part 8: a raising step leaves the registry alone (up to the child an ACCEPTED `labels()` call
created), and which calls raise ValueError.
-/
import PromVerif.Lemmas.MetricsRun
import PromVerif.Lemmas.MetricsLabels
import PromVerif.Lemmas.MetricsValues

namespace PromVerif.Lemmas.Metrics
open PromVerif.Py PromVerif.Model.Metrics PromVerif.Generated.Metrics

variable {V : Type} [Val V]

theorem stepM_touch_labels (m : Metric V) (i : Nat) (args : List PyVal) (kw : List (Str × PyVal)) (key : List Str)
    (hres : resolveLabels m.decl.labelnames args kw = .ok key) :
    stepM m (.call i (.labels args kw) .touch) = ((getChild m key).1, .ok) := by
  simp only [stepM, stepCall_labels_ok m args kw key _ hres, upd_touch, callMethod_touch]
  rw [treplace_self key _ _ (getChild_lookup m key)]

/-- a raising call on a metric object changes nothing, except that the child created by an accepted `labels()` call
stays -/
theorem stepM_frame (m : Metric V) (op : Op V) (e : PyErr) (h : (stepM m op).2 = .raised e) :
    (stepM m op).1 = m ∨
      ∃ t, op.touchOf = some t ∧ (stepM m t).2 = .ok ∧ (stepM m op).1 = (stepM m t).1 := by
  cases op with
  | call i addr act =>
    cases addr with
    | none =>
      left
      simp only [stepM, stepCall] at h ⊢
      rw [callMethod_frame _ _ _ _ e h]
    | labels args kw =>
      cases hres : resolveLabels m.decl.labelnames args kw with
      | error e' => left; simp [stepM, stepCall_labels_err m args kw e' _ hres]
      | ok key =>
        right
        refine ⟨_, rfl, ?_, ?_⟩
        · rw [stepM_touch_labels m i args kw key hres]
        · rw [stepM_touch_labels m i args kw key hres]
          simp only [stepM, stepCall_labels_ok m args kw key _ hres] at h ⊢
          rw [upd_of_raised _ _ _ e h, treplace_self key _ _ (getChild_lookup m key)]
  | remove i vs =>
    left
    simp only [stepM, stepRemove] at h ⊢
    split
    · rfl
    · split
      · rfl
      · next h1 h2 => simp [h1, h2] at h
  | clear i =>
    left
    simp only [stepM, stepClear] at h ⊢
    split
    · next h1 => simp [h1] at h
    · rfl

theorem step_frame (r : Reg V) (op : Op V) (e : PyErr) (h : (step r op).2 = .raised e) :
    (step r op).1 = r ∨
      ∃ t, op.touchOf = some t ∧ (step r t).2 = .ok ∧ (step r op).1 = (step r t).1 := by
  rw [step_eq] at h ⊢
  cases hr : r[op.metric]? with
  | none => left; rfl
  | some m =>
    simp only [hr] at h ⊢
    rcases stepM_frame m op e h with h1 | ⟨t, ht, hok, heq⟩
    · left; rw [h1]; exact set_getElem?_self r _ _ hr
    · right
      refine ⟨t, ht, ?_, ?_⟩
      · rw [step_eq, touchOf_metric op t ht, hr]; exact hok
      · rw [step_eq, touchOf_metric op t ht, hr, heq]

/-! ### which method calls raise ValueError -/

theorem indexOf_none_iff (s : Str) : ∀ states : List Str, indexOf s states = none ↔ s ∉ states
  | [] => by simp [indexOf]
  | x :: xs => by
    simp only [indexOf]
    by_cases hx : x = s
    · simp [hx]
    · have := indexOf_none_iff s xs
      simp only [hx, if_false, Option.map_eq_none_iff, this, List.mem_cons]
      constructor
      · intro h1 h2
        rcases h2 with h2 | h2
        · exact hx h2.symm
        · exact h1 h2
      · intro h1 h2; exact h1 (Or.inr h2)

/-- the method calls on an observable metric that the statement rejects (negative counter increment, unknown enum
state) and the one further ValueError of the code (Info labels overlapping the label names, or None) -/
def RejectedMethod (d : Decl V) : Action V → Prop
  | .inc a => (match d.kind with
    | .counter => Val.lt a Val.zero = true
    | _ => False)
  | .state s => (match d.kind with
    | .enum states => s ∉ states
    | _ => False)
  | .info val => (match d.kind with
    | .info => (∃ kv ∈ val, kv.1 ∈ d.labelnames) ∨ (∃ kv ∈ val, kv.2 = none)
    | _ => False)
  | _ => False

theorem callMethod_valueError_iff (d : Decl V) (act : Action V) (c : Child V) :
    (callMethod d true act (some c)).2 = .raised .valueError ↔ RejectedMethod d act := by
  obtain ⟨name, kind, ln⟩ := d
  cases kind with
  | info =>
    cases act with
    | info val =>
      simp only [callMethod, RejectedMethod, Bool.not_true, Bool.and_false, Bool.false_eq_true, if_false]
      by_cases h1 : (val.any fun kv => ln.contains kv.1) = true
      · rw [if_pos h1]
        simp only [true_iff]
        left
        simpa using h1
      · rw [if_neg h1]
        by_cases h2 : (val.any fun kv => kv.2.isNone) = true
        · rw [if_pos h2]
          simp only [true_iff]
          right
          simpa using h2
        · rw [if_neg h2]
          simp only [reduceCtorEq, false_iff, not_or]
          exact ⟨by simpa using h1, by simpa using h2⟩
    | _ => simp [callMethod, RejectedMethod]
  | enum states =>
    cases act with
    | state s =>
      simp only [callMethod, RejectedMethod]
      cases hi : indexOf s states with
      | none => simpa using (indexOf_none_iff s states).mp hi
      | some i =>
        simp
        apply Classical.byContradiction
        intro hn
        rw [(indexOf_none_iff s states).mpr hn] at hi
        simp at hi
    | _ => simp [callMethod, RejectedMethod]
  | counter =>
    cases act with
    | inc a =>
      simp only [callMethod, RejectedMethod, counterRejects_eq]
      by_cases h : Val.lt a Val.zero = true <;> simp [h]
    | _ => simp [callMethod, RejectedMethod]
  | _ => cases act <;> simp [callMethod, RejectedMethod]

/-- the class has the method -/
def isMethod : Kind V → Action V → Bool
  | .counter, .inc _ => true
  | .counter, .reset => true
  | .gauge, .inc _ => true
  | .gauge, .dec _ => true
  | .gauge, .set _ => true
  | .summary, .observe _ => true
  | .histogram _, .observe _ => true
  | .info, .info _ => true
  | .enum _, .state _ => true
  | _, _ => false

/-- F7: the two methods that touch their value state before (instead of) `_raise_if_not_observable()` — as long as
the source does not start them with that call (`Generated.Metrics.counterResetChecksObservable`,
`infoChecksObservable`; both `false` on the tree the finding was made on) -/
def skipsObservableCheck : Kind V → Action V → Bool
  | .counter, .reset => !counterResetChecksObservable
  | .info, .info _ => !infoChecksObservable
  | _, _ => false

/-- an update method on a labelled parent without labels raises ValueError — except the two of F7 -/
theorem parentCall_valueError_iff (d : Decl V) (act : Action V) :
    (callMethod d false act none).2 = .raised .valueError ↔
      (isMethod d.kind act = true ∧ skipsObservableCheck d.kind act = false) := by
  obtain ⟨name, kind, ln⟩ := d
  cases kind <;> cases act <;> simp [callMethod, isMethod, skipsObservableCheck]
  · cases counterResetChecksObservable <;> simp
  · cases infoChecksObservable <;> simp

/-- F7 in the model: on a labelled parent `Counter.reset()` and `Info.info()` raise AttributeError -/
theorem parentCall_attributeError (d : Decl V) (act : Action V) (h : skipsObservableCheck d.kind act = true) :
    (callMethod d false act none).2 = .raised .attributeError := by
  obtain ⟨name, kind, ln⟩ := d
  cases kind <;> cases act <;> simp [callMethod, skipsObservableCheck] at h ⊢
  · simp [h]
  · simp [h]

end PromVerif.Lemmas.Metrics
