/-
C10/C11 helper lemmas: little-endian packing round trips, slices and slice writes on `List UInt8`.
-/
import PromVerif.Model.MmapDict
namespace PromVerif.Lemmas.Mmap
open PromVerif.Py PromVerif.Model.MmapDict PromVerif.Generated.Mmap

@[simp] theorem le_length (w n : Nat) : (le w n).length = w := by
  induction w generalizing n <;> simp [le, *]

theorem unle_le (w n : Nat) : unle (le w n) = n % 256 ^ w := by
  induction w generalizing n with
  | zero => simp [le, unle, Nat.mod_one]
  | succ w ih =>
    simp only [le, unle, ih]
    have : (UInt8.ofNat n).toNat = n % 256 := by simp
    rw [this, Nat.pow_succ', Nat.mod_mul]

theorem unle_le_of_lt (w n : Nat) (h : n < 256 ^ w) : unle (le w n) = n := by
  rw [unle_le, Nat.mod_eq_of_lt h]

@[simp] theorem le64_length (v : UInt64) : (le64 v).length = 8 := by simp [le64]

theorem unle64_le64 (v : UInt64) : unle64 (le64 v) = v := by
  unfold unle64 le64
  rw [unle_le_of_lt _ _ (by have := v.toNat_lt; omega)]
  simp

/-- the slice lemma everything else uses: `data = a ++ (b ++ c)`, read `b` at `|a|` -/
theorem slice_of_eq {data a b c : Bytes} {pos n : Nat} (h : data = a ++ (b ++ c)) (hp : pos = a.length)
    (hn : n = b.length) : slice data pos n = b := by
  subst h hp hn
  simp [slice]

theorem sliceWrite_of_eq {data a b c b' : Bytes} {pos : Nat} (h : data = a ++ (b ++ c)) (hp : pos = a.length)
    (hn : b'.length = b.length) : sliceWrite data pos b' = a ++ (b' ++ c) := by
  subst h hp
  simp [sliceWrite, hn]

theorem truncate_ge (f : Bytes) (n : Nat) (h : f.length ≤ n) : truncate f n = f ++ zeros (n - f.length) := by
  simp [truncate, List.take_of_length_le h]

end PromVerif.Lemmas.Mmap
