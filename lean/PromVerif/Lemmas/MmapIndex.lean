/-
C10/C11: the in-memory index (`_positions`): what a scan builds, lookups, insertion of a fresh key, rebuild on reopen.
-/
import PromVerif.Lemmas.MmapGrow
namespace PromVerif.Lemmas.Mmap
open PromVerif.Py PromVerif.Model.MmapDict PromVerif.Generated.Mmap

/-! ## the in-memory index -/

/-- offset of the value field of an entry that starts at `pos` -/
def valuePos (pos : Nat) (k : Key) : Nat := pos + 4 + klen k + padLen (klen k)

/-- the index a scan from `pos` builds -/
def posOf : Nat → List Entry → List (Key × Nat)
  | _, [] => []
  | pos, e :: es => (e.key, valuePos pos e.key) :: posOf (pos + entryLen e.key) es

def keys (es : List Entry) : List Key := es.map (·.key)

@[simp] theorem keys_nil : keys [] = [] := rfl
@[simp] theorem keys_cons (e : Entry) (es : List Entry) : keys (e :: es) = e.key :: keys es := rfl
@[simp] theorem keys_append (a b : List Entry) : keys (a ++ b) = keys a ++ keys b := by simp [keys]

theorem encEntries_length_congr : ∀ (a b : List Entry), keys a = keys b → (encEntries a).length = (encEntries b).length := by
  intro a
  induction a with
  | nil => intro b h; cases b <;> simp_all
  | cons x a ih =>
    intro b h
    cases b with
    | nil => simp at h
    | cons y b =>
      simp at h
      simp [ih b h.2, h.1]

theorem posOf_congr : ∀ (a b : List Entry) (p : Nat), keys a = keys b → posOf p a = posOf p b := by
  intro a
  induction a with
  | nil => intro b p h; cases b <;> simp_all [posOf]
  | cons x a ih =>
    intro b p h
    cases b with
    | nil => simp at h
    | cons y b =>
      simp at h
      simp [posOf, ih b _ h.2, h.1]

theorem posOf_append (a b : List Entry) (p : Nat) :
    posOf p (a ++ b) = posOf p a ++ posOf (p + (encEntries a).length) b := by
  induction a generalizing p with
  | nil => simp [posOf]
  | cons x a ih => simp [posOf, ih, Nat.add_assoc]

theorem lookup_posOf_none : ∀ (es : List Entry) (p : Nat) (k : Key), (posOf p es).lookup k = none ↔ k ∉ keys es := by
  intro es
  induction es with
  | nil => intro p k; simp [posOf]
  | cons e es ih =>
    intro p k
    simp only [posOf, List.lookup_cons, keys_cons, List.mem_cons, not_or]
    by_cases h : k = e.key
    · subst h; simp
    · have : (k == e.key) = false := by simpa using h
      simp [this, ih, h]

/-- a successful lookup finds the first entry with that key, at the offset of its value field -/
theorem lookup_posOf_some : ∀ (es : List Entry) (p : Nat) (k : Key) (q : Nat), (posOf p es).lookup k = some q →
    ∃ es1 e es2, es = es1 ++ e :: es2 ∧ e.key = k ∧ k ∉ keys es1 ∧ q = valuePos (p + (encEntries es1).length) k := by
  intro es
  induction es with
  | nil => intro p k q h; simp [posOf] at h
  | cons e es ih =>
    intro p k q h
    simp only [posOf, List.lookup_cons] at h
    by_cases hk : k = e.key
    · subst hk
      simp at h
      exact ⟨[], e, es, rfl, rfl, by simp, by simp [h.symm]⟩
    · have : (k == e.key) = false := by simpa using hk
      simp only [this] at h
      obtain ⟨es1, e', es2, he, hk', hn, hq⟩ := ih _ k q h
      refine ⟨e :: es1, e', es2, by simp [he], hk', by simp [hn, hk], ?_⟩
      simp [hq, Nat.add_assoc]

theorem setPos_fresh : ∀ (ps : List (Key × Nat)) (k : Key) (q : Nat), ps.lookup k = none → setPos ps k q = ps ++ [(k, q)] := by
  intro ps
  induction ps with
  | nil => intro k q _; simp [setPos]
  | cons a ps ih =>
    intro k q h
    obtain ⟨k', p'⟩ := a
    simp only [List.lookup_cons] at h
    by_cases hk : k = k'
    · subst hk; simp at h
    · have hb : (k == k') = false := by simpa using hk
      simp only [hb] at h
      have : ¬ k' = k := fun e => hk e.symm
      simp [setPos, this, ih k q h]

/-- the index rebuilt on reopen (`self._positions[key] = pos` over the scan) is the scan's index, keys being distinct -/
theorem rebuild_positions : ∀ (es : List Entry) (p : Nat) (acc : List (Key × Nat)),
    (keys es).Nodup → (∀ k ∈ keys es, acc.lookup k = none) →
    (scanOut p es).foldl (fun ps (x : Item) => setPos ps x.1 x.2.2.2) acc = acc ++ posOf p es := by
  intro es
  induction es with
  | nil => intro p acc _ _; simp [scanOut, posOf]
  | cons e es ih =>
    intro p acc hn hacc
    simp only [keys_cons, List.nodup_cons] at hn
    simp only [scanOut, List.foldl_cons, posOf]
    rw [setPos_fresh acc e.key _ (hacc e.key (by simp))]
    rw [ih (p + entryLen e.key) _ hn.2]
    · simp [valuePos]
    · intro k hk
      have hne : k ≠ e.key := fun h => hn.1 (h ▸ hk)
      rw [List.lookup_append]
      simp [hacc k (by simp [hk]), hne]

end PromVerif.Lemmas.Mmap
