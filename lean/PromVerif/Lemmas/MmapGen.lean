/-
C11: generations — a file left behind by a crashed writer is taken over by a new writer that crashes again, any number of
times.  `Good` is the closed class of files this produces; every member is readable and reopenable.
-/
import PromVerif.Lemmas.MmapSpecial
namespace PromVerif.Lemmas.Mmap
open PromVerif.Py PromVerif.Model.MmapDict PromVerif.Generated.Mmap
open PromVerif.Spec.MmapDict (Store PrefixFrom)

/-- absent, zero-length, sized but without header, or header + entries with distinct keys + anything -/
def Good (f : Option Bytes) : Prop :=
  f = none ∨ f = some [] ∨ (∃ n, 8 ≤ n ∧ f = some (zeros n)) ∨ ∃ file es, f = some file ∧ CutRep file es

def tr3 (items : List Item) : Store := items.map fun x => (x.1, x.2.1, x.2.2.1)

/-- what the collector's reader returns on the file (nothing for an absent file) -/
def contentOf (page : Nat) : Option Bytes → Store
  | none => []
  | some b => match readAllValuesFromFile page b with
    | .ok items => tr3 items
    | .error _ => []

/-- the generation's history fits below 2^31 bytes on top of what the new writer found -/
def GenFits (initSize : Nat) (f : Option Bytes) (ops : List Op) : Prop :=
  ∃ d0 tr0, init initSize (f.getD []) = .ok (d0, tr0) ∧ d0.used + need (d0.positions.map (·.1)) ops < 2147483648

/-- what every state of a generation satisfies: it is `Good`, and if the file exists the reader returns a prefix state of
the generation's history started from `c0` -/
def CutOK (page : Nat) (c0 : Store) (sops : List Spec.MmapDict.Op) (s : Option Bytes) : Prop :=
  Good s ∧ ∀ file, s = some file → ∃ items, readAllValuesFromFile page file = .ok items ∧ PrefixFrom c0 sops (tr3 items)

theorem cutOK_of_cutrep {page c0 sops file esx} (hp : 4 ≤ page) (hc : CutRep file esx)
    (hpre : PrefixFrom c0 sops (triples esx)) : CutOK page c0 sops (some file) := by
  refine ⟨Or.inr (Or.inr (Or.inr ⟨file, esx, rfl, hc⟩)), ?_⟩
  intro file' h; cases h
  obtain ⟨u, tl, hfr, _⟩ := hc
  exact ⟨_, hfr.fromFile_ok page hp, by simp only [tr3]; rw [scanOut_triples]; exact hpre⟩

theorem cutOK_empty {page sops} : CutOK page [] sops (some []) :=
  ⟨Or.inr (Or.inl rfl), by intro file h; cases h; exact ⟨[], fromFile_empty page, prefixFrom_here _ _⟩⟩

theorem cutOK_zeros {page sops n} (hn : 8 ≤ n) (hp : 4 ≤ page) : CutOK page [] sops (some (zeros n)) :=
  ⟨Or.inr (Or.inr (Or.inl ⟨n, hn, rfl⟩)),
   by intro file h; cases h; exact ⟨[], fromFile_zeros page n (by omega) hp, prefixFrom_here _ _⟩⟩

theorem cutOK_none {page c0 sops} : CutOK page c0 sops none := ⟨Or.inl rfl, by intro file h; cases h⟩

theorem contentOf_cutrep {page file es} (hp : 4 ≤ page) (hc : CutRep file es) : contentOf page (some file) = triples es := by
  obtain ⟨u, tl, hfr, _⟩ := hc
  simp only [contentOf, hfr.fromFile_ok page hp, tr3]
  exact scanOut_triples es 8

/-- ONE GENERATION.  From any `Good` file, a new writer that runs any history that fits: the run succeeds, and every state
the file goes through — every cut — is `Good` again and reads as a prefix state of this generation's history started from
what the new writer found. -/
theorem gen_step (initSize page : Nat) (hi : 8 ≤ initSize) (hp : 4 ≤ page) {f : Option Bytes} (hg : Good f)
    (ops : List Op) (hfit : GenFits initSize f ops) :
    ∃ d effs, genRun initSize f ops = .ok (d, effs) ∧
      ∀ s ∈ states f effs, CutOK page (contentOf page f) (ops.map toSpec) s := by
  obtain ⟨d0, tr0, hinit0, hfit⟩ := hfit
  -- the part after the constructor, from a represented store
  have tail_part : ∀ {d0 es0 tail0}, Rep d0 es0 tail0 → d0.used + need (d0.positions.map (·.1)) ops < 2147483648 →
      ∃ d tr, runFrom initSize d0 ops = .ok (d, tr) ∧
        ∀ s ∈ states (some d0.file) tr, CutOK page (triples es0) (ops.map toSpec) s := by
    intro d0 es0 tail0 hr hf
    rw [hr.keys_eq] at hf
    obtain ⟨d, tr, _, _, hrun, _, _, _, _, _, hcuts⟩ := cuts_from initSize ops hr hf
    refine ⟨d, tr, hrun, ?_⟩
    intro s hs
    obtain ⟨file, esx, rfl, hc, hpre⟩ := hcuts s hs
    exact cutOK_of_cutrep hp hc hpre
  rcases hg with rfl | rfl | ⟨n, hn, rfl⟩ | ⟨file, es, rfl, hc⟩
  · -- absent: created, sized, header, then the history
    have h0 := init_fresh initSize hi
    simp only [Option.getD_none] at hinit0
    rw [h0] at hinit0; cases hinit0
    obtain ⟨d, tr, hrun, hcuts⟩ := tail_part (freshStore_rep initSize hi) hfit
    refine ⟨d, Effect.createEmpty :: .truncate initSize :: .sliceWrite 0 (le 4 8) :: tr, by simp [genRun, h0, hrun, bind, Except.bind], ?_⟩
    intro s hs
    simp only [states, applyEffect, Option.getD_none,
      Option.map_some, truncate, List.take_nil, List.length_nil, Nat.sub_zero, List.nil_append,
      sliceWrite_header_zeros initSize hi, List.mem_cons, contentOf] at hs ⊢
    rcases hs with rfl | rfl | rfl | hs
    · exact cutOK_none
    · exact cutOK_empty
    · exact cutOK_zeros hi hp
    · exact hcuts s hs
  · -- zero length: sized, header, then the history
    have h0 := init_fresh initSize hi
    simp only [Option.getD_some] at hinit0
    rw [h0] at hinit0; cases hinit0
    obtain ⟨d, tr, hrun, hcuts⟩ := tail_part (freshStore_rep initSize hi) hfit
    refine ⟨d, Effect.truncate initSize :: .sliceWrite 0 (le 4 8) :: tr, by simp [genRun, h0, hrun, bind, Except.bind], ?_⟩
    intro s hs
    have hc0 : contentOf page (some []) = [] := by simp [contentOf, fromFile_empty, tr3]
    rw [hc0]
    simp only [List.nil_append, states, applyEffect,
      Option.map_some, truncate, List.take_nil, List.length_nil, Nat.sub_zero,
      sliceWrite_header_zeros initSize hi, List.mem_cons] at hs
    rcases hs with rfl | rfl | hs
    · exact cutOK_empty
    · exact cutOK_zeros hi hp
    · exact hcuts s hs
  · -- sized, all zero: header, then the history
    have h0 := init_zeros initSize n hn
    simp only [Option.getD_some] at hinit0
    rw [h0] at hinit0; cases hinit0
    obtain ⟨d, tr, hrun, hcuts⟩ := tail_part (freshStore_rep n hn) hfit
    refine ⟨d, Effect.sliceWrite 0 (le 4 8) :: tr, by simp [genRun, h0, hrun, bind, Except.bind], ?_⟩
    intro s hs
    have hc0 : contentOf page (some (zeros n)) = [] := by simp [contentOf, fromFile_zeros page n (by omega) hp, tr3]
    rw [hc0]
    simp only [states, applyEffect, Option.map_some, sliceWrite_header_zeros n hn, List.mem_cons] at hs
    rcases hs with rfl | hs
    · exact cutOK_zeros hn hp
    · exact hcuts s hs
  · -- a represented file (possibly with an orphaned entry in its tail): no constructor effect, then the history
    obtain ⟨d0', h0, tl, hr⟩ := init_cutrep hc initSize
    simp only [Option.getD_some] at hinit0
    rw [h0] at hinit0; cases hinit0
    obtain ⟨d, tr, hrun, hcuts⟩ := tail_part hr hfit
    refine ⟨d, tr, by simp [genRun, h0, hrun, bind, Except.bind], ?_⟩
    intro s hs
    rw [contentOf_cutrep hp hc]
    have hfile : d0.file = file := by
      obtain ⟨u, tl', hfr, hn'⟩ := hc
      have := init_reopen (d := ⟨file, file.length, u, posOf 8 es⟩) ⟨hfr, rfl, rfl, hn'⟩ initSize
      simp only [close] at this
      rw [this] at h0; cases h0; rfl
    rw [← hfile] at hs
    exact hcuts s hs

/-- files reachable by any number of generations: writers that open what is there, run a history that fits, and stop dead
after an arbitrary number of file effects -/
inductive Reach : Option Bytes → Prop
  | start : Reach none
  | crash {f : Option Bytes} (initSize : Nat) (hi : 8 ≤ initSize) (ops : List Op) (k : Nat) :
      Reach f → GenFits initSize f ops → Reach (genCut initSize f ops k)

theorem genCut_ok (initSize page : Nat) (hi : 8 ≤ initSize) (hp : 4 ≤ page) {f : Option Bytes} (hg : Good f)
    (ops : List Op) (hfit : GenFits initSize f ops) (k : Nat) :
    CutOK page (contentOf page f) (ops.map toSpec) (genCut initSize f ops k) := by
  obtain ⟨d, effs, hrun, hall⟩ := gen_step initSize page hi hp hg ops hfit
  simp only [genCut, hrun]
  exact hall _ (cut_mem_states f effs k)

theorem reach_good {f : Option Bytes} (h : Reach f) : Good f := by
  induction h with
  | start => exact Or.inl rfl
  | crash initSize hi ops k _ hfit ih => exact (genCut_ok initSize 4 hi (by omega) ih ops hfit k).1

/-- a `Good` file that exists is readable and reopenable -/
theorem good_usable (initSize page : Nat) (hi : 8 ≤ initSize) (hp : 4 ≤ page) {file : Bytes} (hg : Good (some file)) :
    (∃ items, readAllValuesFromFile page file = .ok items) ∧
    ∃ d' tr' es tl, init initSize file = .ok (d', tr') ∧ Rep d' es tl := by
  rcases hg with h | h | ⟨n, hn, h⟩ | ⟨file', es, h, hc⟩
  · cases h
  · cases h
    exact ⟨⟨_, fromFile_empty page⟩, _, _, [], _, init_fresh initSize hi, freshStore_rep initSize hi⟩
  · cases h
    exact ⟨⟨_, fromFile_zeros page n (by omega) hp⟩, _, _, [], _, init_zeros initSize n hn, freshStore_rep n hn⟩
  · cases h
    obtain ⟨d', hinit, tl, hr⟩ := init_cutrep hc initSize
    obtain ⟨u, tl', hfr, _⟩ := hc
    exact ⟨⟨_, hfr.fromFile_ok page hp⟩, d', [], es, tl, hinit, hr⟩

end PromVerif.Lemmas.Mmap
