/-
Document level of the C03 round trip: metadata lines (`# HELP`, `# TYPE`) through `_split_quoted`, the family state
machine on a rendered document, line splitting.
-/
import PromVerif.Lemmas.TextParseSample
namespace PromVerif.Lemmas.TextParse
open PromVerif.Py PromVerif.Model PromVerif.Model.Escape PromVerif.Model.ParseCore PromVerif.Model.Validation PromVerif.Model.TextExpo
open PromVerif.Model.TextParse
open PromVerif.Generated.Validation PromVerif.Lemmas.Escape PromVerif.Lemmas.Scanner

-- _split_quoted on a metadata line -------------------------------------------------------------------------------------

theorem splitQuotedAux_hit (sep : Char → Bool) (ms fuel : Nat) (pre seg rest : Str) (c : Char) (done : List Str)
    (hodd : trailOdd pre = false) (hseg : Pass sep seg) (hc : sep c = true) (hcq : c ≠ '"')
    (hms : ¬ (ms > 0 ∧ done.length + 1 > ms)) :
    splitQuotedAux (pre ++ (seg ++ c :: rest)) sep ms (fuel + 1) pre.length done =
      splitQuotedAux (pre ++ (seg ++ c :: rest)) sep ms fuel ((pre ++ seg ++ [c]).length) (done ++ [seg]) := by
  rw [splitQuotedAux]
  have hlt : pre.length < (pre ++ (seg ++ c :: rest)).length := by simp; omega
  have hscan : nextUnquotedChar (pre ++ (seg ++ c :: rest)) sep pre.length = some (pre.length + seg.length) := by
    rw [nextUnquotedChar_from, foldl_bsStep_eq, hodd, scan_append_of_noHit _ _ _ _ _ hseg.1, hseg.2, scan_hit sep c rest false hcq hc]
    simp; omega
  simp only [hlt, ↓reduceIte, hscan]
  have hms' : (decide (ms > 0) && decide (done.length + 1 > ms)) = false := by
    apply Bool.eq_false_iff.mpr
    intro h; simp only [Bool.and_eq_true, decide_eq_true_eq] at h; exact hms h
  simp only [hms', Bool.false_eq_true, ↓reduceIte, List.drop_left]
  congr 1
  · simp; omega
  · simp

theorem splitQuotedAux_last (sep : Char → Bool) (ms fuel : Nat) (pre t : Str) (done : List Str)
    (hodd : trailOdd pre = false) (hne : t ≠ []) (h : scan sep t false false = none ∨ (ms > 0 ∧ done.length + 1 > ms)) :
    splitQuotedAux (pre ++ t) sep ms (fuel + 1) pre.length done = done ++ [t] := by
  rw [splitQuotedAux]
  have hlt : pre.length < (pre ++ t).length := by
    have := List.length_pos_iff.mpr hne; simp; omega
  simp only [hlt, ↓reduceIte, nextUnquotedChar_from, foldl_bsStep_eq, hodd, List.drop_left]
  cases hs : scan sep t false false with
  | none => rfl
  | some p =>
    rcases h with h | h
    · rw [hs] at h; cases h
    · have : (decide (ms > 0) && decide (done.length + 1 > ms)) = true := by simp [h.1, h.2]
      simp only [Option.map_some, this, ↓reduceIte]

theorem splitQuotedAux_end (sep : Char → Bool) (ms fuel : Nat) (text : Str) (done : List Str) :
    splitQuotedAux text sep ms (fuel + 1) text.length done = done ++ [[]] := by
  rw [splitQuotedAux]; simp

theorem trailOdd_space (x : Str) : trailOdd (x ++ [' ']) = false := by
  rw [trailOdd_append_singleton]; rfl

theorem space_sep : isAsciiSpace ' ' = true := by decide

/-- `_split_quoted(line, None, 3)` on `# KW name` -/
theorem splitQuoted_meta3 (kw nm : Str) (hkw : Pass isAsciiSpace kw) (hnm : Pass isAsciiSpace nm) (hne : nm ≠ []) :
    splitQuoted ('#' :: ' ' :: (kw ++ ' ' :: nm)) isAsciiSpace 3 = [['#'], kw, nm] := by
  unfold splitQuoted
  have hhash : Pass isAsciiSpace ['#'] := pass_plain (by intro c hc; simp at hc; subst hc; exact ⟨by decide, by decide, by decide⟩)
  have e0 : '#' :: ' ' :: (kw ++ ' ' :: nm) = [] ++ (['#'] ++ ' ' :: (kw ++ ' ' :: nm)) := by simp
  have h1 := splitQuotedAux_hit isAsciiSpace 3 (('#' :: ' ' :: (kw ++ ' ' :: nm)).length) [] ['#'] (kw ++ ' ' :: nm) ' ' []
    rfl hhash space_sep (by decide) (by simp)
  rw [← e0] at h1
  simp only [List.length_nil] at h1
  rw [h1]
  have e1 : '#' :: ' ' :: (kw ++ ' ' :: nm) = ['#', ' '] ++ (kw ++ ' ' :: nm) := by simp
  cases hf : ('#' :: ' ' :: (kw ++ ' ' :: nm)).length with
  | zero => simp at hf
  | succ f =>
    have h2 := splitQuotedAux_hit isAsciiSpace 3 f ['#', ' '] kw nm ' ' ([] ++ [['#']])
      (trailOdd_space ['#']) hkw space_sep (by decide) (by simp)
    rw [← e1] at h2
    simp only [List.nil_append, List.length_append, List.length_cons, List.length_nil] at h2 ⊢
    rw [h2]
    cases f with
    | zero => simp at hf
    | succ f' =>
      have e2 : '#' :: ' ' :: (kw ++ ' ' :: nm) = (['#', ' '] ++ kw ++ [' ']) ++ nm := by simp
      have h3 := splitQuotedAux_last isAsciiSpace 3 f' (['#', ' '] ++ kw ++ [' ']) nm ([['#']] ++ [kw])
        (trailOdd_space _) hne (Or.inl (scan_none_of_noHit _ _ _ _ hnm.1))
      rw [← e2] at h3
      simp only [List.length_append, List.length_cons, List.length_nil] at h3
      rw [h3]; rfl


/-- `_split_quoted(line, None, 3)` on `# KW name rest`: the fourth token is the whole remainder -/
theorem splitQuoted_meta4 (kw nm R : Str) (hkw : Pass isAsciiSpace kw) (hnm : Pass isAsciiSpace nm) (hR : R ≠ []) :
    splitQuoted ('#' :: ' ' :: (kw ++ ' ' :: (nm ++ ' ' :: R))) isAsciiSpace 3 = [['#'], kw, nm, R] := by
  unfold splitQuoted
  have hhash : Pass isAsciiSpace ['#'] := pass_plain (by intro c hc; simp at hc; subst hc; exact ⟨by decide, by decide, by decide⟩)
  have e0 : '#' :: ' ' :: (kw ++ ' ' :: (nm ++ ' ' :: R)) = [] ++ (['#'] ++ ' ' :: (kw ++ ' ' :: (nm ++ ' ' :: R))) := by simp
  have h1 := splitQuotedAux_hit isAsciiSpace 3 (('#' :: ' ' :: (kw ++ ' ' :: (nm ++ ' ' :: R))).length) [] ['#']
    (kw ++ ' ' :: (nm ++ ' ' :: R)) ' ' [] rfl hhash space_sep (by decide) (by simp)
  rw [← e0] at h1
  simp only [List.length_nil] at h1
  rw [h1]
  have e1 : '#' :: ' ' :: (kw ++ ' ' :: (nm ++ ' ' :: R)) = ['#', ' '] ++ (kw ++ ' ' :: (nm ++ ' ' :: R)) := by simp
  cases hf : ('#' :: ' ' :: (kw ++ ' ' :: (nm ++ ' ' :: R))).length with
  | zero => simp at hf
  | succ f =>
    have h2 := splitQuotedAux_hit isAsciiSpace 3 f ['#', ' '] kw (nm ++ ' ' :: R) ' ' ([] ++ [['#']])
      (trailOdd_space ['#']) hkw space_sep (by decide) (by simp)
    rw [← e1] at h2
    simp only [List.nil_append, List.length_append, List.length_cons, List.length_nil] at h2 ⊢
    rw [h2]
    cases f with
    | zero => simp at hf
    | succ f' =>
      have e2 : '#' :: ' ' :: (kw ++ ' ' :: (nm ++ ' ' :: R)) = (['#', ' '] ++ kw ++ [' ']) ++ (nm ++ ' ' :: R) := by simp
      have h3 := splitQuotedAux_hit isAsciiSpace 3 f' (['#', ' '] ++ kw ++ [' ']) nm R ' ' ([['#']] ++ [kw])
        (trailOdd_space _) hnm space_sep (by decide) (by simp)
      rw [← e2] at h3
      simp only [List.length_append, List.length_cons, List.length_nil] at h3
      rw [h3]
      cases f' with
      | zero => simp at hf
      | succ f'' =>
        have e3 : '#' :: ' ' :: (kw ++ ' ' :: (nm ++ ' ' :: R)) = (['#', ' '] ++ kw ++ [' '] ++ nm ++ [' ']) ++ R := by simp
        have h4 := splitQuotedAux_last isAsciiSpace 3 f'' (['#', ' '] ++ kw ++ [' '] ++ nm ++ [' ']) R ([['#']] ++ [kw] ++ [nm])
          (trailOdd_space _) hR (Or.inr (by simp))
        rw [← e3] at h4
        simp only [List.length_append, List.length_cons, List.length_nil] at h4
        rw [h4]; rfl

-- metric names on metadata lines ------------------------------------------------------------------------------------------

/-- a family name as written on a HELP/TYPE line: accepted by `_validate_metric_name` -/
def metricNameOK (legacy : Bool) (n : Str) : Bool := isOk (validateMetricName legacy n)

theorem metricNameOK_validate {legacy : Bool} {n : Str} (h : metricNameOK legacy n = true) :
    validateMetricName legacy n = .ok () := by
  exact isOk_unit h

theorem asciiSpace_safe : NameSafe isAsciiSpace :=
  ⟨by decide, fun c hc => by
    have := legacyChar_range hc
    unfold isAsciiSpace
    simp only [Bool.or_eq_false_iff, Bool.and_eq_false_iff, decide_eq_false_iff_not]
    omega⟩

/-- the two shapes of a rendered metric name -/
theorem metricTok_cases {legacy : Bool} {n : Str} (h : metricNameOK legacy n = true) :
    (escapeMetricName n = n ∧ n ≠ [] ∧ (∀ c ∈ n, isLegacyChar c = true) ∧ isValidLegacyMetricName n = true) ∨
    (escapeMetricName n = qname n ∧ isValidLegacyMetricName n = false) := by
  unfold escapeMetricName
  by_cases hv : isValidLegacyMetricName n = true
  · left
    have hn : n.getLast? ≠ some '\n' := legacyMetric_no_newline hv
    have := legacyName_chars hv hn
    simp only [hv, ↓reduceIte, true_and]
    exact ⟨this.1, this.2, trivial⟩
  · right
    simp [hv, qname]

theorem metricTok_pass {chs : Char → Bool} (hs : NameSafe chs) {legacy : Bool} {n : Str} (h : metricNameOK legacy n = true) :
    Pass chs (escapeMetricName n) := by
  rcases metricTok_cases h with ⟨e, _, hc, _⟩ | ⟨e, _⟩
  · rw [e]; exact pass_plain (plainFor_legacy hs.legacy hc)
  · rw [e]; exact quoted_pass chs hs.quote n

theorem metricTok_unquote {legacy : Bool} {n : Str} (h : metricNameOK legacy n = true) :
    ∃ q, unquoteUnescape (escapeMetricName n) = .ok (n, q) ∧ (!q && !isValidLegacyMetricName n) = false := by
  rcases metricTok_cases h with ⟨e, hne, hc, hv⟩ | ⟨e, _⟩
  · exact ⟨false, by rw [e]; exact unquoteUnescape_bare hne hc, by simp [hv]⟩
  · exact ⟨true, by rw [e]; exact unquoteUnescape_quoted n, rfl⟩

theorem metricTok_ne_nil {legacy : Bool} {n : Str} (h : metricNameOK legacy n = true) : escapeMetricName n ≠ [] := by
  rcases metricTok_cases h with ⟨e, hne, _, _⟩ | ⟨e, _⟩
  · rw [e]; exact hne
  · rw [e]; simp [qname]

theorem metricTok_last {legacy : Bool} {n : Str} (h : metricNameOK legacy n = true) :
    ∃ b, (escapeMetricName n).getLast? = some b ∧ isPySpace b = false := by
  rcases metricTok_cases h with ⟨e, hne, hc, _⟩ | ⟨e, _⟩
  · rw [e]
    cases hl : n.getLast? with
    | none => exact absurd (List.getLast?_eq_none_iff.mp hl) hne
    | some b => exact ⟨b, rfl, legacyChar_not_space (hc b (List.mem_of_getLast? hl))⟩
  · rw [e]; exact ⟨'"', getLast?_cons_concat _ _ _, by decide⟩

theorem metricTok_no_newline {legacy : Bool} {n : Str} (h : metricNameOK legacy n = true) : '\n' ∉ escapeMetricName n := by
  rcases metricTok_cases h with ⟨e, _, hc, _⟩ | ⟨e, _⟩
  · rw [e]; intro hm; exact legacyChar_ne (hc _ hm) (by decide) rfl
  · rw [e]; unfold qname
    intro hm
    simp only [List.mem_cons, List.mem_append, List.mem_nil_iff, or_false] at hm
    rcases hm with hm | hm | hm
    · exact absurd hm (by decide)
    · exact newline_not_mem_escape n hm
    · exact absurd hm (by decide)

-- rstrip of a concatenation ------------------------------------------------------------------------------------------------

theorem rstripSet_append (p : Char → Bool) (a b : Str) :
    rstripSet p (a ++ b) = if rstripSet p b = [] then rstripSet p a else a ++ rstripSet p b := by
  induction a with
  | nil => by_cases h : rstripSet p b = [] <;> simp [h, rstripSet]
  | cons x xs ih =>
    rw [List.cons_append]
    by_cases h : rstripSet p b = []
    · simp only [h, ↓reduceIte] at ih ⊢
      simp only [rstripSet, ih]
    · simp only [h, ↓reduceIte] at ih ⊢
      have hne : xs ++ rstripSet p b ≠ [] := by simp [h]
      rw [rstripSet_cons_of_ne_nil p x _ (by rw [ih]; exact hne), ih]
      rfl

theorem rstrip_space_cons (d : Str) : rstrip (' ' :: d) = if rstrip d = [] then [] else ' ' :: rstrip d := by
  unfold rstrip
  by_cases h : rstripSet isPySpace d = []
  · rw [rstripSet_cons_of_nil _ _ _ h]; simp [h]; decide
  · rw [rstripSet_cons_of_ne_nil _ _ _ h]; simp [h]

/-- the stripped form of `prefix token` / `prefix token rest` when the token ends with a non-blank character -/
theorem strip_meta (hd tokn d : Str) (a b : Char) (hh : hd.head? = some a) (ha : isPySpace a = false)
    (hl : tokn.getLast? = some b) (hb : isPySpace b = false) :
    strip (hd ++ tokn ++ ' ' :: d) = if rstrip d = [] then hd ++ tokn else hd ++ tokn ++ ' ' :: rstrip d := by
  have hhead : (hd ++ tokn ++ ' ' :: d).head? = some a := by
    cases hd with
    | nil => simp at hh
    | cons x xs => simpa using hh
  rw [strip_of_head hhead ha]
  have hlast : (hd ++ tokn).getLast? = some b := by
    rw [List.getLast?_append, hl]; rfl
  unfold rstrip
  rw [rstripSet_append]
  have := rstrip_space_cons d
  unfold rstrip at this
  rw [this]
  by_cases h : rstripSet isPySpace d = []
  · simp only [h, ↓reduceIte]
    exact rstrip_of_last hlast hb
  · simp [h]


-- the HELP and TYPE lines -----------------------------------------------------------------------------------------------------

def kwHelp : Str := "HELP".toList
def kwType : Str := "TYPE".toList

/-- a HELP line without its line feed -/
def helpContent (n doc : Str) : Str := '#' :: ' ' :: (kwHelp ++ ' ' :: (escapeMetricName n ++ ' ' :: escapeHelp doc))
/-- a TYPE line without its line feed -/
def typeContent (n typ : Str) : Str := '#' :: ' ' :: (kwType ++ ' ' :: (escapeMetricName n ++ ' ' :: typ))

theorem helpLine_eq (n doc : Str) (tr : Bool) : helpLine n doc tr = helpContent n doc ++ ['\n'] := by
  unfold helpLine helpContent kwHelp
  cases tr <;> simp [escapeHelpTrailing_eq]

theorem typeLine_eq (n typ : Str) : typeLine n typ = typeContent n typ ++ ['\n'] := by
  unfold typeLine typeContent kwType; simp

/-- the documentation the parser recovers from a HELP line: the help text without trailing blanks -/
def helpDoc (doc : Str) : Str := replaceHelpEscaping (rstrip (escapeHelp doc))

theorem pass_kwHelp : Pass isAsciiSpace kwHelp := by unfold Pass; decide
theorem pass_kwType : Pass isAsciiSpace kwType := by unfold Pass; decide

theorem strip_helpContent {legacy : Bool} {n : Str} (h : metricNameOK legacy n = true) (doc : Str) :
    strip (helpContent n doc) =
      if rstrip (escapeHelp doc) = [] then '#' :: ' ' :: (kwHelp ++ ' ' :: escapeMetricName n)
      else '#' :: ' ' :: (kwHelp ++ ' ' :: (escapeMetricName n ++ ' ' :: rstrip (escapeHelp doc))) := by
  obtain ⟨b, hb, hbs⟩ := metricTok_last h
  have := strip_meta ('#' :: ' ' :: (kwHelp ++ [' '])) (escapeMetricName n) (escapeHelp doc) '#' b rfl (by decide) hb hbs
  have e : helpContent n doc = '#' :: ' ' :: (kwHelp ++ [' ']) ++ escapeMetricName n ++ ' ' :: escapeHelp doc := by
    simp [helpContent]
  rw [e, this]
  by_cases hr : rstrip (escapeHelp doc) = [] <;> simp [hr]

/-- `stepLine` on a rendered HELP line -/
theorem stepLine_help (legacy : Bool) (pyInt : Str → Option Int) (pyFloat : Str → Option Nat) (st : St) {n : Str}
    (h : metricNameOK legacy n = true) (doc : Str) :
    stepLine legacy pyInt pyFloat st (helpContent n doc) =
      (do let (st1, out) ← (
            if n != st.name then do
              let out ← flush legacy st
              pure ({ st with name := n, typ := "untyped".toList, samples := [], allowed := [n] }, out)
            else (pure (st, []) : PyM (St × List PFamily)))
          pure ({ st1 with doc := helpDoc doc }, out)) := by
  obtain ⟨q, hq1, hq2⟩ := metricTok_unquote h
  have hnm := metricTok_pass asciiSpace_safe h
  have hne := metricTok_ne_nil h
  unfold stepLine
  simp only [strip_helpContent h]
  by_cases hr : rstrip (escapeHelp doc) = []
  · have hd : helpDoc doc = [] := by unfold helpDoc; rw [hr]; rfl
    simp only [hr, ↓reduceIte, List.head?_cons, beq_self_eq_true, splitQuoted_meta3 kwHelp _ pass_kwHelp hnm hne]
    simp only [List.length_cons, List.length_nil, show ¬ (0 + 1 + 1 + 1 < 2) by omega, ↓reduceIte,
      List.getElem?_cons_succ, List.getElem?_cons_zero, hq1, bind, Except.bind, hq2, Bool.false_eq_true, pure, Except.pure,
      Option.getD_some, hd]
    have : (kwHelp == "HELP".toList) = true := by decide
    simp only [this, ↓reduceIte]
  · have hsplit := splitQuoted_meta4 kwHelp (escapeMetricName n) (rstrip (escapeHelp doc)) pass_kwHelp hnm hr
    simp only [hr, ↓reduceIte, List.head?_cons, beq_self_eq_true, hsplit]
    simp only [List.length_cons, List.length_nil, show ¬ (0 + 1 + 1 + 1 + 1 < 2) by omega, ↓reduceIte,
      List.getElem?_cons_succ, List.getElem?_cons_zero, hq1, bind, Except.bind, hq2, Bool.false_eq_true, pure, Except.pure,
      Option.getD_some]
    have : (kwHelp == "HELP".toList) = true := by decide
    simp only [this, ↓reduceIte]
    rfl


/-- a type word as written by the exposition: non-empty, letters only -/
def TypWord (typ : Str) : Prop := typ ≠ [] ∧ ∀ c ∈ typ, isLegacyChar c = true

instance (typ : Str) : Decidable (TypWord typ) := by unfold TypWord; infer_instance

theorem rstrip_typWord {typ : Str} (h : TypWord typ) : rstrip typ = typ := by
  cases hl : typ.getLast? with
  | none => exact absurd (List.getLast?_eq_none_iff.mp hl) h.1
  | some b => exact rstrip_of_last hl (legacyChar_not_space (h.2 b (List.mem_of_getLast? hl)))

/-- `stepLine` on a rendered TYPE line -/
theorem stepLine_type (legacy : Bool) (pyInt : Str → Option Int) (pyFloat : Str → Option Nat) (st : St) {n : Str}
    (h : metricNameOK legacy n = true) {typ : Str} (ht : TypWord typ) :
    stepLine legacy pyInt pyFloat st (typeContent n typ) =
      (do let (st1, out) ← (
            if n != st.name then do
              let out ← flush legacy st
              pure ({ st with name := n, doc := [], samples := [] }, out)
            else (pure (st, []) : PyM (St × List PFamily)))
          pure ({ st1 with typ := typ, allowed := (allowedSuffixes typ).map (st1.name ++ ·) }, out)) := by
  obtain ⟨q, hq1, hq2⟩ := metricTok_unquote h
  have hnm := metricTok_pass asciiSpace_safe h
  obtain ⟨b, hb, hbs⟩ := metricTok_last h
  have hstrip : strip (typeContent n typ) = typeContent n typ := by
    have := strip_meta ('#' :: ' ' :: (kwType ++ [' '])) (escapeMetricName n) typ '#' b rfl (by decide) hb hbs
    have e : typeContent n typ = '#' :: ' ' :: (kwType ++ [' ']) ++ escapeMetricName n ++ ' ' :: typ := by
      simp [typeContent]
    rw [e, this, rstrip_typWord ht]
    simp [ht.1]
  have hsplit := splitQuoted_meta4 kwType (escapeMetricName n) typ pass_kwType hnm ht.1
  unfold stepLine
  rw [hstrip]
  unfold typeContent at hsplit ⊢
  simp only [List.head?_cons, beq_self_eq_true, ↓reduceIte, hsplit]
  simp only [List.length_cons, List.length_nil, show ¬ (0 + 1 + 1 + 1 + 1 < 2) by omega, show ¬ (0 + 1 + 1 + 1 + 1 < 4) by omega,
    ↓reduceIte, List.getElem?_cons_succ, List.getElem?_cons_zero, hq1, bind, Except.bind, hq2, Bool.false_eq_true, pure, Except.pure,
    Option.getD_some]
  have h1 : (kwType == "HELP".toList) = false := by decide
  have h2 : (kwType == "TYPE".toList) = true := by decide
  simp only [h1, h2, Bool.false_eq_true, ↓reduceIte]

-- the recovered help text ------------------------------------------------------------------------------------------------

theorem escHelpChar_last (c : Char) (hc : (isPySpace c && c != '\n') = false) :
    ∃ b, (escHelpChar c).getLast? = some b ∧ isPySpace b = false := by
  unfold escHelpChar
  by_cases h1 : c = '\\'
  · subst h1; exact ⟨'\\', rfl, by decide⟩
  · by_cases h2 : c = '\n'
    · subst h2; exact ⟨'n', rfl, by decide⟩
    · simp only [h1, h2, ↓reduceIte]
      refine ⟨c, rfl, ?_⟩
      have : (c != '\n') = true := by simpa using h2
      simpa [this] using hc

theorem escapeHelp_of_spaces (j : Str) (h : j.all (fun c => isPySpace c && c != '\n') = true) : escapeHelp j = j := by
  induction j with
  | nil => exact escapeHelp_nil
  | cons c cs ih =>
    simp only [List.all_cons, Bool.and_eq_true] at h
    rw [escapeHelp_cons, ih h.2]
    have h1 : c ≠ '\\' := by intro e; subst e; exact absurd h.1.1 (by decide)
    have h2 : c ≠ '\n' := by simpa using h.1.2
    simp [escHelpChar, h1, h2]

/-- **the parser recovers the help text up to trailing blanks**: `doc = helpDoc doc ++ j` with `j` all blanks -/
theorem helpDoc_spec (doc : Str) : ∃ j, doc = helpDoc doc ++ j ∧ j.all isPySpace = true := by
  obtain ⟨j, hj, hp⟩ := rstripSet_prefix (fun c => isPySpace c && c != '\n') doc
  have hjs : j.all isPySpace = true := by
    simp only [List.all_eq_true, Bool.and_eq_true] at hp ⊢
    exact fun c hc => (hp c hc).1
  refine ⟨j, ?_, hjs⟩
  suffices h : helpDoc doc = rstripSet (fun c => isPySpace c && c != '\n') doc by rw [h]; exact hj
  generalize hd : rstripSet (fun c => isPySpace c && c != '\n') doc = d' at hj
  have hlast := rstripSet_getLast (fun c => isPySpace c && c != '\n') doc
  rw [hd] at hlast
  unfold helpDoc
  rw [hj, escapeHelp_append, escapeHelp_of_spaces j hp]
  unfold rstrip
  rw [rstripSet_append, (rstripSet_eq_nil_iff isPySpace j).mpr hjs]
  simp only [↓reduceIte]
  have hr : rstripSet isPySpace (escapeHelp d') = escapeHelp d' := by
    cases hl : d'.getLast? with
    | none => rw [List.getLast?_eq_none_iff.mp hl, escapeHelp_nil]; rfl
    | some c =>
      obtain ⟨ys, hys⟩ := List.getLast?_eq_some_iff.mp hl
      obtain ⟨b, hb, hbs⟩ := escHelpChar_last c (hlast c hl)
      rw [hys, escapeHelp_append, escapeHelp_cons, escapeHelp_nil, List.append_nil]
      apply rstrip_of_last (b := b) _ hbs
      rw [List.getLast?_append, hb]; rfl
  rw [hr]
  exact helpUnescape_helpEscape d'

-- sample line content ---------------------------------------------------------------------------------------------------------

/-- the part of a sample line before the value -/
def sampleHead (s : Sample) : Str :=
  if isValidLegacyMetricName s.name then
    match sortByKey s.labels with
    | [] => s.name
    | kv :: r => s.name ++ '{' :: (labelItem kv ++ tailStr r ++ ['}'])
  else '{' :: (qname s.name ++ tailStr (sortByKey s.labels) ++ ['}'])

/-- a sample line without its line feed -/
def sampleContent (s : Sample) : Str := sampleHead s ++ ' ' :: valTs (Utils.floatToGoString s.value) (millisOf s)

theorem sampleLine_eq (s : Sample) : sampleLine s = sampleContent s ++ ['\n'] := by
  rw [sampleLine_shape]; unfold sampleContent sampleHead
  by_cases hv : isValidLegacyMetricName s.name = true
  · cases hs : sortByKey s.labels <;> simp [hv]
  · simp [hv]

theorem sampleHead_head {legacy : Bool} {s : Sample} (h : SampleOK legacy s) :
    ∃ a, (sampleHead s).head? = some a ∧ isPySpace a = false ∧ a ≠ '#' := by
  unfold sampleHead
  by_cases hv : isValidLegacyMetricName s.name = true
  · obtain ⟨hne, hc⟩ := legacyName_chars hv (legacyMetric_no_newline hv)
    cases hn : s.name with
    | nil => exact absurd hn hne
    | cons a t =>
      have hl := hc a (by rw [hn]; simp)
      refine ⟨a, ?_, legacyChar_not_space hl, legacyChar_ne hl (by decide)⟩
      rw [← hn]; simp only [hv, ↓reduceIte]
      cases sortByKey s.labels <;> simp [hn]
  · simp only [hv, Bool.false_eq_true, ↓reduceIte]
    exact ⟨'{', rfl, by decide, by decide⟩

theorem strip_sampleContent {legacy : Bool} {s : Sample} (h : SampleOK legacy s) :
    strip (sampleLine s) = sampleContent s ∧ strip (sampleContent s) = sampleContent s := by
  obtain ⟨a, ha, has, _⟩ := sampleHead_head h
  have h1 : strip (sampleLine s) = sampleContent s := by
    rw [sampleLine_eq]; exact strip_line ha has h.tok _
  refine ⟨h1, ?_⟩
  obtain ⟨b, hb, hbs⟩ := valTs_last h.tok (millisOf s)
  have hhead : (sampleContent s).head? = some a := by
    unfold sampleContent
    cases hh : sampleHead s with
    | nil => rw [hh] at ha; simp at ha
    | cons x xs => rw [hh] at ha; simpa using ha
  apply strip_eq_self hhead has (b := b) _ hbs
  unfold sampleContent
  rw [List.getLast?_append, List.getLast?_cons, hb]; rfl


-- the family state machine on rendered lines -----------------------------------------------------------------------------------

/-- what the parser is expected to return for an exposed sample -/
def expSample (pyFloat : Str → Option Nat) (s : Sample) : PSample :=
  ⟨s.name, sortByKey s.labels, .flt ((pyFloat (Utils.floatToGoString s.value)).getD 0), (millisOf s).map (fun m => ⟨.int m⟩)⟩

/-- an exposed sample for which the document-level round trip is stated: `SampleOK`, the number laws, and a name
`Metric()` accepts (needed when the parser yields the sample as a family of its own) -/
structure SampleGood (legacy : Bool) (pyInt : Str → Option Int) (pyFloat : Str → Option Nat) (s : Sample) : Prop where
  ok : SampleOK legacy s
  notInt : pyInt (Utils.floatToGoString s.value) = none
  isFloat : (pyFloat (Utils.floatToGoString s.value)).isSome = true
  millis : ∀ m, millisOf s = some m → pyInt (intStr m) = some m ∧ intDivOverflows m = false
  nameValid : validateMetricName legacy s.name = .ok ()

/-- `build_metric(name, doc, typ, samples)` succeeds for every doc and sample list and leaves the samples alone -/
def HeadOK (legacy : Bool) (name typ : Str) : Prop :=
  ∃ name' typ', ∀ doc samples, buildMetric legacy name doc typ samples = .ok ⟨name', doc, typ', samples⟩

/-- state invariant: an anonymous state holds nothing; a named state can be flushed -/
def StInv (legacy : Bool) (st : St) : Prop :=
  (st.name = [] ∧ st.samples = [] ∧ st.allowed = []) ∨ (st.name ≠ [] ∧ HeadOK legacy st.name st.typ)

theorem stInv_init (legacy : Bool) : StInv legacy St.init := Or.inl ⟨rfl, rfl, rfl⟩

theorem flush_of_inv {legacy : Bool} {st : St} (h : StInv legacy st) :
    ∃ out, flush legacy st = .ok out ∧ flatten out = st.samples := by
  rcases h with ⟨h1, h2, _⟩ | ⟨h1, n', t', h2⟩
  · refine ⟨[], ?_, by rw [h2]; rfl⟩
    unfold flush; simp [h1]; rfl
  · refine ⟨[⟨n', st.doc, t', st.samples⟩], ?_, by simp [flatten]⟩
    unfold flush
    have : st.name.isEmpty = false := by cases hn : st.name <;> simp_all
    simp only [this, Bool.false_eq_true, ↓reduceIte, h2, bind, Except.bind]; rfl

theorem headOK_untyped {legacy : Bool} {n : Str} (h : validateMetricName legacy n = .ok ()) : HeadOK legacy n "untyped".toList := by
  refine ⟨n, "unknown".toList, fun doc samples => ?_⟩
  unfold buildMetric
  have h1 : ("untyped".toList == "counter".toList) = false := by decide
  simp only [h1, Bool.false_eq_true, ↓reduceIte, h, bind, Except.bind]
  rfl

/-- `stepLine` on a rendered sample line -/
theorem stepLine_sample (legacy : Bool) (pyInt : Str → Option Int) (pyFloat : Str → Option Nat) (st : St) {s : Sample}
    (h : SampleGood legacy pyInt pyFloat s) :
    stepLine legacy pyInt pyFloat st (sampleContent s) =
      (if !st.allowed.contains s.name then do
          let out ← flush legacy st
          let single ← buildMetric legacy s.name [] "untyped".toList [expSample pyFloat s]
          pure (St.init, out ++ [single])
        else pure ({ st with samples := st.samples ++ [expSample pyFloat s] }, [])) := by
  obtain ⟨a, ha, _, hne⟩ := sampleHead_head h.ok
  have hstrip := strip_sampleContent h.ok
  have hhead : (sampleContent s).head? = some a := by
    unfold sampleContent
    cases hh : sampleHead s with
    | nil => rw [hh] at ha; simp at ha
    | cons x xs => rw [hh] at ha; simpa using ha
  obtain ⟨b, hb⟩ := Option.isSome_iff_exists.mp h.isFloat
  have hps : parseSample legacy pyInt pyFloat (sampleContent s) = .ok (expSample pyFloat s) := by
    have := sample_line_roundtrip legacy pyInt pyFloat s b h.ok h.notInt hb h.millis
    rw [hstrip.1] at this
    rw [this]; unfold expSample; rw [hb]; rfl
  unfold stepLine
  have h1 : ((sampleContent s).head? == some '#') = false := by
    rw [hhead]; simpa using hne
  have h2 : (sampleContent s).isEmpty = false := by
    cases hc : sampleContent s with
    | nil => rw [hc] at hhead; simp at hhead
    | cons _ _ => rfl
  simp only [hstrip.2, h1, h2, Bool.false_eq_true, ↓reduceIte, hps, bind, Except.bind]
  rfl

/-- a rendered line of the document -/
inductive DocLine
  | help (n doc : Str)
  | type (n typ : Str)
  | sample (s : Sample)

def DocLine.content : DocLine → Str
  | .help n doc => helpContent n doc
  | .type n typ => typeContent n typ
  | .sample s => sampleContent s

def DocLine.samples : DocLine → List Sample
  | .sample s => [s]
  | _ => []

/-- what each rendered line must satisfy -/
def LineOK (legacy : Bool) (pyInt : Str → Option Int) (pyFloat : Str → Option Nat) : DocLine → Prop
  | .help n _ => metricNameOK legacy n = true
  | .type n typ => metricNameOK legacy n = true ∧ TypWord typ ∧ HeadOK legacy n typ
  | .sample s => SampleGood legacy pyInt pyFloat s

theorem metricNameOK_ne_nil {legacy : Bool} {n : Str} (h : metricNameOK legacy n = true) : n ≠ [] := by
  intro e; subst e
  have := metricNameOK_validate h
  simp [validateMetricName] at this

/-- **the state machine on rendered lines**: it never raises, keeps the invariant, and the samples yielded so far plus
those pending are exactly the exposed samples, in order -/
theorem run_docLines (legacy : Bool) (pyInt : Str → Option Int) (pyFloat : Str → Option Nat) :
    ∀ (ls : List DocLine) (st : St) (acc : List PFamily), (∀ l ∈ ls, LineOK legacy pyInt pyFloat l) → StInv legacy st →
    ∃ st' acc', runLines legacy pyInt pyFloat (ls.map DocLine.content) st acc = .ok (st', acc') ∧ StInv legacy st' ∧
      flatten acc' ++ st'.samples = flatten acc ++ st.samples ++ (ls.flatMap DocLine.samples).map (expSample pyFloat) := by
  intro ls
  induction ls with
  | nil => intro st acc _ hinv; exact ⟨st, acc, rfl, hinv, by simp⟩
  | cons l ls ih =>
    intro st acc hok hinv
    have hl := hok l (by simp)
    have hrest : ∀ l' ∈ ls, LineOK legacy pyInt pyFloat l' := fun l' h' => hok l' (by simp [h'])
    obtain ⟨out0, hflush, hflat⟩ := flush_of_inv hinv
    -- one step
    have step : ∃ st1 out, stepLine legacy pyInt pyFloat st l.content = .ok (st1, out) ∧ StInv legacy st1 ∧
        flatten out ++ st1.samples = st.samples ++ (l.samples).map (expSample pyFloat) := by
      cases l with
      | help n doc =>
        have hn : metricNameOK legacy n = true := hl
        simp only [DocLine.content, DocLine.samples, List.map_nil, List.append_nil]
        rw [stepLine_help legacy pyInt pyFloat st hn doc]
        by_cases hc : (n != st.name) = true
        · simp only [hc, ↓reduceIte, hflush, bind, Except.bind, pure, Except.pure]
          refine ⟨_, _, rfl, Or.inr ⟨metricNameOK_ne_nil hn, headOK_untyped (metricNameOK_validate hn)⟩, ?_⟩
          simp [hflat]
        · simp only [hc, Bool.false_eq_true, ↓reduceIte, bind, Except.bind, pure, Except.pure]
          refine ⟨_, _, rfl, ?_, by simp [flatten]⟩
          have hname : n = st.name := by simpa using hc
          rcases hinv with ⟨h1, _⟩ | ⟨h1, h2⟩
          · exact absurd (hname ▸ h1) (metricNameOK_ne_nil hn)
          · exact Or.inr ⟨h1, h2⟩
      | type n typ =>
        obtain ⟨hn, htw, hhead⟩ : metricNameOK legacy n = true ∧ TypWord typ ∧ HeadOK legacy n typ := hl
        simp only [DocLine.content, DocLine.samples, List.map_nil, List.append_nil]
        rw [stepLine_type legacy pyInt pyFloat st hn htw]
        by_cases hc : (n != st.name) = true
        · simp only [hc, ↓reduceIte, hflush, bind, Except.bind, pure, Except.pure]
          refine ⟨_, _, rfl, Or.inr ⟨metricNameOK_ne_nil hn, hhead⟩, ?_⟩
          simp [hflat]
        · simp only [hc, Bool.false_eq_true, ↓reduceIte, bind, Except.bind, pure, Except.pure]
          have hname : n = st.name := by simpa using hc
          refine ⟨_, _, rfl, Or.inr ⟨hname ▸ metricNameOK_ne_nil hn, hname ▸ hhead⟩, by simp [flatten]⟩
      | sample s =>
        have hs : SampleGood legacy pyInt pyFloat s := hl
        simp only [DocLine.content, DocLine.samples, List.map_cons, List.map_nil]
        rw [stepLine_sample legacy pyInt pyFloat st hs]
        by_cases hc : (!st.allowed.contains s.name) = true
        · obtain ⟨n', t', hb⟩ := headOK_untyped hs.nameValid
          simp only [hc, ↓reduceIte, hflush, bind, Except.bind, hb, pure, Except.pure]
          refine ⟨_, _, rfl, stInv_init legacy, ?_⟩
          simp [flatten, St.init, hflat] 
          simpa [flatten] using hflat
        · simp only [hc, Bool.false_eq_true, ↓reduceIte, pure, Except.pure]
          refine ⟨_, _, rfl, ?_, by simp [flatten]⟩
          rcases hinv with ⟨_, _, h3⟩ | ⟨h1, h2⟩
          · rw [h3] at hc; simp at hc
          · exact Or.inr ⟨h1, h2⟩
    obtain ⟨st1, out, hstep, hinv1, hflat1⟩ := step
    obtain ⟨st', acc', hrun, hinv', hfl⟩ := ih st1 (acc ++ out) hrest hinv1
    refine ⟨st', acc', ?_, hinv', ?_⟩
    · rw [List.map_cons, runLines]
      simp only [hstep, bind, Except.bind]
      exact hrun
    · rw [hfl]
      simp only [flatten, List.flatMap_append, List.flatMap_cons, List.map_append, List.append_assoc] at hflat1 ⊢
      rw [← List.append_assoc (List.flatMap _ out), hflat1]
      simp


-- line splitting ----------------------------------------------------------------------------------------------------------------

theorem splitLines_append {c : Str} (rest : Str) (h : '\n' ∉ c) : splitLines (c ++ '\n' :: rest) = c :: splitLines rest := by
  induction c with
  | nil => simp [splitLines]
  | cons x xs ih =>
    have hx : x ≠ '\n' := fun e => h (by simp [e])
    have hxs : '\n' ∉ xs := fun e => h (by simp [e])
    rw [List.cons_append, splitLines]
    simp only [hx, ↓reduceIte, ih hxs]

theorem splitLines_flatten (cs : List Str) (h : ∀ c ∈ cs, '\n' ∉ c) :
    splitLines ((cs.map (· ++ ['\n'])).flatten) = cs := by
  induction cs with
  | nil => rfl
  | cons c cs ih =>
    simp only [List.map_cons, List.flatten_cons, List.append_assoc, List.singleton_append]
    rw [splitLines_append _ (h c (by simp)), ih (fun c' hc' => h c' (by simp [hc']))]

theorem not_mem_append {c : Char} {a b : Str} (ha : c ∉ a) (hb : c ∉ b) : c ∉ a ++ b := by
  intro h; rcases List.mem_append.mp h with h | h
  · exact ha h
  · exact hb h

theorem not_mem_cons {c d : Char} {a : Str} (hd : c ≠ d) (ha : c ∉ a) : c ∉ d :: a := by
  intro h; rcases List.mem_cons.mp h with h | h
  · exact hd h
  · exact ha h

theorem newline_not_mem_legacy {n : Str} (hc : ∀ c ∈ n, isLegacyChar c = true) : '\n' ∉ n :=
  fun hm => legacyChar_ne (hc _ hm) (by decide) rfl

theorem newline_not_mem_numTok {t : Str} (h : NumTok t) : '\n' ∉ t := numTok_not_mem h (d := '\n') (by decide)

theorem newline_not_mem_quoted (v : Str) : '\n' ∉ '"' :: (escape v ++ ['"']) :=
  not_mem_cons (by decide) (not_mem_append (newline_not_mem_escape v) (by simp))

theorem newline_not_mem_item {legacy : Bool} {kv : Str × Str} (h : labelNameOK legacy kv.1 = true) : '\n' ∉ labelItem kv := by
  rw [labelItem_eq]
  apply not_mem_append
  · rcases nameTok_cases h with ⟨e, _, hc, _⟩ | e
    · rw [e]; exact newline_not_mem_legacy hc
    · rw [e]; exact newline_not_mem_quoted _
  · exact not_mem_cons (by decide) (newline_not_mem_quoted _)

theorem newline_not_mem_tail {legacy : Bool} (l : List (Str × Str)) (h : ∀ kv ∈ l, labelNameOK legacy kv.1 = true) :
    '\n' ∉ tailStr l := by
  induction l with
  | nil => simp [tailStr]
  | cons kv r ih =>
    rw [tailStr_cons]
    exact not_mem_cons (by decide) (not_mem_append (newline_not_mem_item (h kv (by simp))) (ih (fun x hx => h x (by simp [hx]))))

theorem newline_not_mem_valTs {tok : Str} (h : NumTok tok) (ms : Option Int) : '\n' ∉ valTs tok ms := by
  unfold valTs
  apply not_mem_append (newline_not_mem_numTok h)
  cases ms with
  | none => simp
  | some m => exact not_mem_cons (by decide) (newline_not_mem_numTok (intStr_numTok m))

theorem newline_not_mem_sampleContent {legacy : Bool} {s : Sample} (h : SampleOK legacy s) : '\n' ∉ sampleContent s := by
  have hp := sortByKey_perm s.labels
  have hok : ∀ x ∈ sortByKey s.labels, labelNameOK legacy x.1 = true := fun x hx => h.labels.1 x (hp.mem_iff.mp hx)
  unfold sampleContent
  apply not_mem_append _ (not_mem_cons (by decide) (newline_not_mem_valTs h.tok _))
  unfold sampleHead
  by_cases hv : isValidLegacyMetricName s.name = true
  · obtain ⟨_, hc⟩ := legacyName_chars hv (legacyMetric_no_newline hv)
    simp only [hv, ↓reduceIte]
    cases hs : sortByKey s.labels with
    | nil => exact newline_not_mem_legacy hc
    | cons kv r =>
      rw [hs] at hok
      simp only []
      exact not_mem_append (newline_not_mem_legacy hc) (not_mem_cons (by decide) (not_mem_append
        (not_mem_append (newline_not_mem_item (hok kv (by simp))) (newline_not_mem_tail r (fun x hx => hok x (by simp [hx]))))
        (by simp)))
  · simp only [hv, Bool.false_eq_true, ↓reduceIte]
    exact not_mem_cons (by decide) (not_mem_append (not_mem_append (newline_not_mem_quoted _) (newline_not_mem_tail _ hok)) (by simp))

theorem newline_not_mem_content {legacy : Bool} {pyInt : Str → Option Int} {pyFloat : Str → Option Nat} {l : DocLine}
    (h : LineOK legacy pyInt pyFloat l) : '\n' ∉ l.content := by
  cases l with
  | help n doc =>
    have hn : metricNameOK legacy n = true := h
    unfold DocLine.content helpContent
    exact not_mem_cons (by decide) (not_mem_cons (by decide) (not_mem_append (by decide) (not_mem_cons (by decide)
      (not_mem_append (metricTok_no_newline hn) (not_mem_cons (by decide) (newline_not_mem_escapeHelp doc))))))
  | type n typ =>
    obtain ⟨hn, htw, _⟩ : metricNameOK legacy n = true ∧ TypWord typ ∧ HeadOK legacy n typ := h
    unfold DocLine.content typeContent
    exact not_mem_cons (by decide) (not_mem_cons (by decide) (not_mem_append (by decide) (not_mem_cons (by decide)
      (not_mem_append (metricTok_no_newline hn) (not_mem_cons (by decide) (newline_not_mem_legacy htw.2))))))
  | sample s =>
    have hs : SampleGood legacy pyInt pyFloat s := h
    exact newline_not_mem_sampleContent hs.ok

/-- the rendered text of a list of lines -/
def renderLines (ls : List DocLine) : Str := ((ls.map DocLine.content).map (· ++ ['\n'])).flatten

/-- **a rendered document parses to families whose samples are exactly the exposed samples, in order** -/
theorem textParse_docLines (legacy : Bool) (pyInt : Str → Option Int) (pyFloat : Str → Option Nat) (ls : List DocLine)
    (hok : ∀ l ∈ ls, LineOK legacy pyInt pyFloat l) :
    ∃ fams, textParse legacy pyInt pyFloat (renderLines ls) = .ok fams ∧
      flatten fams = (ls.flatMap DocLine.samples).map (expSample pyFloat) := by
  have hsplit : splitLines (renderLines ls) = ls.map DocLine.content := by
    unfold renderLines
    apply splitLines_flatten
    intro c hc
    obtain ⟨l, hl, e⟩ := List.mem_map.mp hc
    rw [← e]; exact newline_not_mem_content (hok l hl)
  obtain ⟨st', acc', hrun, hinv, hfl⟩ := run_docLines legacy pyInt pyFloat ls St.init [] hok (stInv_init legacy)
  obtain ⟨out, hflush, hflat⟩ := flush_of_inv hinv
  refine ⟨acc' ++ out, ?_, ?_⟩
  · unfold textParse
    rw [hsplit]
    simp only [hrun, hflush, bind, Except.bind]; rfl
  · have : flatten (acc' ++ out) = flatten acc' ++ flatten out := by simp [flatten]
    rw [this, hflat, hfl]
    simp [flatten, St.init]

end PromVerif.Lemmas.TextParse
