/-
Document level of the C03 round trip: metadata lines (`# HELP`, `# TYPE`) through `_split_quoted`, the family state
machine on a rendered document, line splitting.
-/
import PromVerif.Lemmas.TextParseSample
namespace PromVerif.Lemmas.TextParse
open PromVerif.Py PromVerif.Model PromVerif.Model.Escape PromVerif.Model.ParseCore PromVerif.Model.Validation PromVerif.Model.TextExpo
open PromVerif.Model.TextParse
open PromVerif.Generated.Validation PromVerif.Lemmas.Escape PromVerif.Lemmas.Scanner

-- _split_quoted on a metadata line -------------------------------------------------------------------------------------

theorem splitQuotedAux_hit (sep : Char → Bool) (ms fuel : Nat) (pre seg rest : Str) (c : Char) (done : List Str)
    (hodd : trailOdd pre = false) (hseg : Pass sep seg) (hc : sep c = true) (hcq : c ≠ '"')
    (hms : ¬ (ms > 0 ∧ done.length + 1 > ms)) :
    splitQuotedAux (pre ++ (seg ++ c :: rest)) sep ms (fuel + 1) pre.length done =
      splitQuotedAux (pre ++ (seg ++ c :: rest)) sep ms fuel ((pre ++ seg ++ [c]).length) (done ++ [seg]) := by
  rw [splitQuotedAux]
  have hlt : pre.length < (pre ++ (seg ++ c :: rest)).length := by simp; omega
  have hscan : nextUnquotedChar (pre ++ (seg ++ c :: rest)) sep pre.length = some (pre.length + seg.length) := by
    rw [nextUnquotedChar_from, foldl_bsStep_eq, hodd, scan_append_of_noHit _ _ _ _ _ hseg.1, hseg.2, scan_hit sep c rest false hcq hc]
    simp; omega
  simp only [hlt, ↓reduceIte, hscan]
  have hms' : (decide (ms > 0) && decide (done.length + 1 > ms)) = false := by
    apply Bool.eq_false_iff.mpr
    intro h; simp only [Bool.and_eq_true, decide_eq_true_eq] at h; exact hms h
  simp only [hms', Bool.false_eq_true, ↓reduceIte, List.drop_left]
  congr 1
  · simp; omega
  · simp

theorem splitQuotedAux_last (sep : Char → Bool) (ms fuel : Nat) (pre t : Str) (done : List Str)
    (hodd : trailOdd pre = false) (hne : t ≠ []) (h : scan sep t false false = none ∨ (ms > 0 ∧ done.length + 1 > ms)) :
    splitQuotedAux (pre ++ t) sep ms (fuel + 1) pre.length done = done ++ [t] := by
  rw [splitQuotedAux]
  have hlt : pre.length < (pre ++ t).length := by
    have := List.length_pos_iff.mpr hne; simp; omega
  simp only [hlt, ↓reduceIte, nextUnquotedChar_from, foldl_bsStep_eq, hodd, List.drop_left]
  cases hs : scan sep t false false with
  | none => rfl
  | some p =>
    rcases h with h | h
    · rw [hs] at h; cases h
    · have : (decide (ms > 0) && decide (done.length + 1 > ms)) = true := by simp [h.1, h.2]
      simp only [Option.map_some, this, ↓reduceIte]

theorem splitQuotedAux_end (sep : Char → Bool) (ms fuel : Nat) (text : Str) (done : List Str) :
    splitQuotedAux text sep ms (fuel + 1) text.length done = done ++ [[]] := by
  rw [splitQuotedAux]; simp

theorem trailOdd_space (x : Str) : trailOdd (x ++ [' ']) = false := by
  rw [trailOdd_append_singleton]; rfl

theorem space_sep : isAsciiSpace ' ' = true := by decide

/-- `_split_quoted(line, None, 3)` on `# KW name` -/
theorem splitQuoted_meta3 (kw nm : Str) (hkw : Pass isAsciiSpace kw) (hnm : Pass isAsciiSpace nm) (hne : nm ≠ []) :
    splitQuoted ('#' :: ' ' :: (kw ++ ' ' :: nm)) isAsciiSpace 3 = [['#'], kw, nm] := by
  unfold splitQuoted
  have hhash : Pass isAsciiSpace ['#'] := pass_plain (by intro c hc; simp at hc; subst hc; exact ⟨by decide, by decide, by decide⟩)
  have e0 : '#' :: ' ' :: (kw ++ ' ' :: nm) = [] ++ (['#'] ++ ' ' :: (kw ++ ' ' :: nm)) := by simp
  have h1 := splitQuotedAux_hit isAsciiSpace 3 (('#' :: ' ' :: (kw ++ ' ' :: nm)).length) [] ['#'] (kw ++ ' ' :: nm) ' ' []
    rfl hhash space_sep (by decide) (by simp)
  rw [← e0] at h1
  simp only [List.length_nil] at h1
  rw [h1]
  have e1 : '#' :: ' ' :: (kw ++ ' ' :: nm) = ['#', ' '] ++ (kw ++ ' ' :: nm) := by simp
  cases hf : ('#' :: ' ' :: (kw ++ ' ' :: nm)).length with
  | zero => simp at hf
  | succ f =>
    have h2 := splitQuotedAux_hit isAsciiSpace 3 f ['#', ' '] kw nm ' ' ([] ++ [['#']])
      (trailOdd_space ['#']) hkw space_sep (by decide) (by simp)
    rw [← e1] at h2
    simp only [List.nil_append, List.length_append, List.length_cons, List.length_nil] at h2 ⊢
    rw [h2]
    cases f with
    | zero => simp at hf
    | succ f' =>
      have e2 : '#' :: ' ' :: (kw ++ ' ' :: nm) = (['#', ' '] ++ kw ++ [' ']) ++ nm := by simp
      have h3 := splitQuotedAux_last isAsciiSpace 3 f' (['#', ' '] ++ kw ++ [' ']) nm ([['#']] ++ [kw])
        (trailOdd_space _) hne (Or.inl (scan_none_of_noHit _ _ _ _ hnm.1))
      rw [← e2] at h3
      simp only [List.length_append, List.length_cons, List.length_nil] at h3
      rw [h3]; rfl


/-- `_split_quoted(line, None, 3)` on `# KW name rest`: the fourth token is the whole remainder -/
theorem splitQuoted_meta4 (kw nm R : Str) (hkw : Pass isAsciiSpace kw) (hnm : Pass isAsciiSpace nm) (hR : R ≠ []) :
    splitQuoted ('#' :: ' ' :: (kw ++ ' ' :: (nm ++ ' ' :: R))) isAsciiSpace 3 = [['#'], kw, nm, R] := by
  unfold splitQuoted
  have hhash : Pass isAsciiSpace ['#'] := pass_plain (by intro c hc; simp at hc; subst hc; exact ⟨by decide, by decide, by decide⟩)
  have e0 : '#' :: ' ' :: (kw ++ ' ' :: (nm ++ ' ' :: R)) = [] ++ (['#'] ++ ' ' :: (kw ++ ' ' :: (nm ++ ' ' :: R))) := by simp
  have h1 := splitQuotedAux_hit isAsciiSpace 3 (('#' :: ' ' :: (kw ++ ' ' :: (nm ++ ' ' :: R))).length) [] ['#']
    (kw ++ ' ' :: (nm ++ ' ' :: R)) ' ' [] rfl hhash space_sep (by decide) (by simp)
  rw [← e0] at h1
  simp only [List.length_nil] at h1
  rw [h1]
  have e1 : '#' :: ' ' :: (kw ++ ' ' :: (nm ++ ' ' :: R)) = ['#', ' '] ++ (kw ++ ' ' :: (nm ++ ' ' :: R)) := by simp
  cases hf : ('#' :: ' ' :: (kw ++ ' ' :: (nm ++ ' ' :: R))).length with
  | zero => simp at hf
  | succ f =>
    have h2 := splitQuotedAux_hit isAsciiSpace 3 f ['#', ' '] kw (nm ++ ' ' :: R) ' ' ([] ++ [['#']])
      (trailOdd_space ['#']) hkw space_sep (by decide) (by simp)
    rw [← e1] at h2
    simp only [List.nil_append, List.length_append, List.length_cons, List.length_nil] at h2 ⊢
    rw [h2]
    cases f with
    | zero => simp at hf
    | succ f' =>
      have e2 : '#' :: ' ' :: (kw ++ ' ' :: (nm ++ ' ' :: R)) = (['#', ' '] ++ kw ++ [' ']) ++ (nm ++ ' ' :: R) := by simp
      have h3 := splitQuotedAux_hit isAsciiSpace 3 f' (['#', ' '] ++ kw ++ [' ']) nm R ' ' ([['#']] ++ [kw])
        (trailOdd_space _) hnm space_sep (by decide) (by simp)
      rw [← e2] at h3
      simp only [List.length_append, List.length_cons, List.length_nil] at h3
      rw [h3]
      cases f' with
      | zero => simp at hf
      | succ f'' =>
        have e3 : '#' :: ' ' :: (kw ++ ' ' :: (nm ++ ' ' :: R)) = (['#', ' '] ++ kw ++ [' '] ++ nm ++ [' ']) ++ R := by simp
        have h4 := splitQuotedAux_last isAsciiSpace 3 f'' (['#', ' '] ++ kw ++ [' '] ++ nm ++ [' ']) R ([['#']] ++ [kw] ++ [nm])
          (trailOdd_space _) hR (Or.inr (by simp))
        rw [← e3] at h4
        simp only [List.length_append, List.length_cons, List.length_nil] at h4
        rw [h4]; rfl

-- metric names on metadata lines ------------------------------------------------------------------------------------------

/-- a family name as written on a HELP/TYPE line: accepted by `_validate_metric_name`, and not an F2 name -/
def metricNameOK (legacy : Bool) (n : Str) : Bool :=
  isOk (validateMetricName legacy n) && !(isValidLegacyMetricName n && n.getLast? == some '\n')

theorem metricNameOK_validate {legacy : Bool} {n : Str} (h : metricNameOK legacy n = true) :
    validateMetricName legacy n = .ok () := by
  unfold metricNameOK at h; simp only [Bool.and_eq_true] at h; exact isOk_unit h.1

theorem asciiSpace_safe : NameSafe isAsciiSpace :=
  ⟨by decide, fun c hc => by
    have := legacyChar_range hc
    unfold isAsciiSpace
    simp only [Bool.or_eq_false_iff, Bool.and_eq_false_iff, decide_eq_false_iff_not]
    omega⟩

/-- the two shapes of a rendered metric name -/
theorem metricTok_cases {legacy : Bool} {n : Str} (h : metricNameOK legacy n = true) :
    (escapeMetricName n = n ∧ n ≠ [] ∧ (∀ c ∈ n, isLegacyChar c = true) ∧ isValidLegacyMetricName n = true) ∨
    (escapeMetricName n = qname n ∧ isValidLegacyMetricName n = false) := by
  unfold metricNameOK at h
  simp only [Bool.and_eq_true, Bool.not_eq_true', Bool.and_eq_false_iff] at h
  unfold escapeMetricName
  by_cases hv : isValidLegacyMetricName n = true
  · left
    have hn : n.getLast? ≠ some '\n' := by
      rcases h.2 with h2 | h2
      · rw [hv] at h2; exact absurd h2 (by decide)
      · simpa using h2
    have := legacyName_chars hv hn
    simp only [hv, ↓reduceIte, true_and]
    exact ⟨this.1, this.2, trivial⟩
  · right
    simp [hv, qname]

theorem metricTok_pass {chs : Char → Bool} (hs : NameSafe chs) {legacy : Bool} {n : Str} (h : metricNameOK legacy n = true) :
    Pass chs (escapeMetricName n) := by
  rcases metricTok_cases h with ⟨e, _, hc, _⟩ | ⟨e, _⟩
  · rw [e]; exact pass_plain (plainFor_legacy hs.legacy hc)
  · rw [e]; exact quoted_pass chs hs.quote n

theorem metricTok_unquote {legacy : Bool} {n : Str} (h : metricNameOK legacy n = true) :
    ∃ q, unquoteUnescape (escapeMetricName n) = .ok (n, q) ∧ (!q && !isValidLegacyMetricName n) = false := by
  rcases metricTok_cases h with ⟨e, hne, hc, hv⟩ | ⟨e, _⟩
  · exact ⟨false, by rw [e]; exact unquoteUnescape_bare hne hc, by simp [hv]⟩
  · exact ⟨true, by rw [e]; exact unquoteUnescape_quoted n, rfl⟩

theorem metricTok_ne_nil {legacy : Bool} {n : Str} (h : metricNameOK legacy n = true) : escapeMetricName n ≠ [] := by
  rcases metricTok_cases h with ⟨e, hne, _, _⟩ | ⟨e, _⟩
  · rw [e]; exact hne
  · rw [e]; simp [qname]

theorem metricTok_last {legacy : Bool} {n : Str} (h : metricNameOK legacy n = true) :
    ∃ b, (escapeMetricName n).getLast? = some b ∧ isPySpace b = false := by
  rcases metricTok_cases h with ⟨e, hne, hc, _⟩ | ⟨e, _⟩
  · rw [e]
    cases hl : n.getLast? with
    | none => exact absurd (List.getLast?_eq_none_iff.mp hl) hne
    | some b => exact ⟨b, rfl, legacyChar_not_space (hc b (List.mem_of_getLast? hl))⟩
  · rw [e]; exact ⟨'"', getLast?_cons_concat _ _ _, by decide⟩

theorem metricTok_no_newline {legacy : Bool} {n : Str} (h : metricNameOK legacy n = true) : '\n' ∉ escapeMetricName n := by
  rcases metricTok_cases h with ⟨e, _, hc, _⟩ | ⟨e, _⟩
  · rw [e]; intro hm; exact legacyChar_ne (hc _ hm) (by decide) rfl
  · rw [e]; unfold qname
    intro hm
    simp only [List.mem_cons, List.mem_append, List.mem_nil_iff, or_false] at hm
    rcases hm with hm | hm | hm
    · exact absurd hm (by decide)
    · exact newline_not_mem_escape n hm
    · exact absurd hm (by decide)

-- rstrip of a concatenation ------------------------------------------------------------------------------------------------

theorem rstripSet_append (p : Char → Bool) (a b : Str) :
    rstripSet p (a ++ b) = if rstripSet p b = [] then rstripSet p a else a ++ rstripSet p b := by
  induction a with
  | nil => by_cases h : rstripSet p b = [] <;> simp [h, rstripSet]
  | cons x xs ih =>
    rw [List.cons_append]
    by_cases h : rstripSet p b = []
    · simp only [h, ↓reduceIte] at ih ⊢
      simp only [rstripSet, ih]
    · simp only [h, ↓reduceIte] at ih ⊢
      have hne : xs ++ rstripSet p b ≠ [] := by simp [h]
      rw [rstripSet_cons_of_ne_nil p x _ (by rw [ih]; exact hne), ih]
      rfl

theorem rstrip_space_cons (d : Str) : rstrip (' ' :: d) = if rstrip d = [] then [] else ' ' :: rstrip d := by
  unfold rstrip
  by_cases h : rstripSet isPySpace d = []
  · rw [rstripSet_cons_of_nil _ _ _ h]; simp [h]; decide
  · rw [rstripSet_cons_of_ne_nil _ _ _ h]; simp [h]

/-- the stripped form of `prefix token` / `prefix token rest` when the token ends with a non-blank character -/
theorem strip_meta (hd tokn d : Str) (a b : Char) (hh : hd.head? = some a) (ha : isPySpace a = false)
    (hl : tokn.getLast? = some b) (hb : isPySpace b = false) :
    strip (hd ++ tokn ++ ' ' :: d) = if rstrip d = [] then hd ++ tokn else hd ++ tokn ++ ' ' :: rstrip d := by
  have hhead : (hd ++ tokn ++ ' ' :: d).head? = some a := by
    cases hd with
    | nil => simp at hh
    | cons x xs => simpa using hh
  rw [strip_of_head hhead ha]
  have hlast : (hd ++ tokn).getLast? = some b := by
    rw [List.getLast?_append, hl]; rfl
  unfold rstrip
  rw [rstripSet_append]
  have := rstrip_space_cons d
  unfold rstrip at this
  rw [this]
  by_cases h : rstripSet isPySpace d = []
  · simp only [h, ↓reduceIte]
    exact rstrip_of_last hlast hb
  · simp [h]


-- the HELP and TYPE lines -----------------------------------------------------------------------------------------------------

def kwHelp : Str := "HELP".toList
def kwType : Str := "TYPE".toList

/-- a HELP line without its line feed -/
def helpContent (n doc : Str) : Str := '#' :: ' ' :: (kwHelp ++ ' ' :: (escapeMetricName n ++ ' ' :: escapeHelp doc))
/-- a TYPE line without its line feed -/
def typeContent (n typ : Str) : Str := '#' :: ' ' :: (kwType ++ ' ' :: (escapeMetricName n ++ ' ' :: typ))

theorem helpLine_eq (n doc : Str) (tr : Bool) : helpLine n doc tr = helpContent n doc ++ ['\n'] := by
  unfold helpLine helpContent kwHelp
  cases tr <;> simp [escapeHelpTrailing_eq]

theorem typeLine_eq (n typ : Str) : typeLine n typ = typeContent n typ ++ ['\n'] := by
  unfold typeLine typeContent kwType; simp

/-- the documentation the parser recovers from a HELP line: the help text without trailing blanks -/
def helpDoc (doc : Str) : Str := replaceHelpEscaping (rstrip (escapeHelp doc))

theorem pass_kwHelp : Pass isAsciiSpace kwHelp := by unfold Pass; decide
theorem pass_kwType : Pass isAsciiSpace kwType := by unfold Pass; decide

theorem strip_helpContent {legacy : Bool} {n : Str} (h : metricNameOK legacy n = true) (doc : Str) :
    strip (helpContent n doc) =
      if rstrip (escapeHelp doc) = [] then '#' :: ' ' :: (kwHelp ++ ' ' :: escapeMetricName n)
      else '#' :: ' ' :: (kwHelp ++ ' ' :: (escapeMetricName n ++ ' ' :: rstrip (escapeHelp doc))) := by
  obtain ⟨b, hb, hbs⟩ := metricTok_last h
  have := strip_meta ('#' :: ' ' :: (kwHelp ++ [' '])) (escapeMetricName n) (escapeHelp doc) '#' b rfl (by decide) hb hbs
  have e : helpContent n doc = '#' :: ' ' :: (kwHelp ++ [' ']) ++ escapeMetricName n ++ ' ' :: escapeHelp doc := by
    simp [helpContent]
  rw [e, this]
  by_cases hr : rstrip (escapeHelp doc) = [] <;> simp [hr]

/-- `stepLine` on a rendered HELP line -/
theorem stepLine_help (legacy : Bool) (pyInt : Str → Option Int) (pyFloat : Str → Option Nat) (st : St) {n : Str}
    (h : metricNameOK legacy n = true) (doc : Str) :
    stepLine legacy pyInt pyFloat st (helpContent n doc) =
      (do let (st1, out) ← (
            if n != st.name then do
              let out ← flush legacy st
              pure ({ st with name := n, typ := "untyped".toList, samples := [], allowed := [n] }, out)
            else (pure (st, []) : PyM (St × List PFamily)))
          pure ({ st1 with doc := helpDoc doc }, out)) := by
  obtain ⟨q, hq1, hq2⟩ := metricTok_unquote h
  have hnm := metricTok_pass asciiSpace_safe h
  have hne := metricTok_ne_nil h
  unfold stepLine
  simp only [strip_helpContent h]
  by_cases hr : rstrip (escapeHelp doc) = []
  · have hd : helpDoc doc = [] := by unfold helpDoc; rw [hr]; rfl
    simp only [hr, ↓reduceIte, List.head?_cons, beq_self_eq_true, splitQuoted_meta3 kwHelp _ pass_kwHelp hnm hne]
    simp only [List.length_cons, List.length_nil, show ¬ (0 + 1 + 1 + 1 < 2) by omega, ↓reduceIte,
      List.getElem?_cons_succ, List.getElem?_cons_zero, hq1, bind, Except.bind, hq2, Bool.false_eq_true, pure, Except.pure,
      Option.getD_some, hd]
    have : (kwHelp == "HELP".toList) = true := by decide
    simp only [this, ↓reduceIte]
  · have hsplit := splitQuoted_meta4 kwHelp (escapeMetricName n) (rstrip (escapeHelp doc)) pass_kwHelp hnm hr
    simp only [hr, ↓reduceIte, List.head?_cons, beq_self_eq_true, hsplit]
    simp only [List.length_cons, List.length_nil, show ¬ (0 + 1 + 1 + 1 + 1 < 2) by omega, ↓reduceIte,
      List.getElem?_cons_succ, List.getElem?_cons_zero, hq1, bind, Except.bind, hq2, Bool.false_eq_true, pure, Except.pure,
      Option.getD_some]
    have : (kwHelp == "HELP".toList) = true := by decide
    simp only [this, ↓reduceIte]
    rfl


/-- a type word as written by the exposition: non-empty, letters only -/
def TypWord (typ : Str) : Prop := typ ≠ [] ∧ ∀ c ∈ typ, isLegacyChar c = true

instance (typ : Str) : Decidable (TypWord typ) := by unfold TypWord; infer_instance

theorem rstrip_typWord {typ : Str} (h : TypWord typ) : rstrip typ = typ := by
  cases hl : typ.getLast? with
  | none => exact absurd (List.getLast?_eq_none_iff.mp hl) h.1
  | some b => exact rstrip_of_last hl (legacyChar_not_space (h.2 b (List.mem_of_getLast? hl)))

/-- `stepLine` on a rendered TYPE line -/
theorem stepLine_type (legacy : Bool) (pyInt : Str → Option Int) (pyFloat : Str → Option Nat) (st : St) {n : Str}
    (h : metricNameOK legacy n = true) {typ : Str} (ht : TypWord typ) :
    stepLine legacy pyInt pyFloat st (typeContent n typ) =
      (do let (st1, out) ← (
            if n != st.name then do
              let out ← flush legacy st
              pure ({ st with name := n, doc := [], samples := [] }, out)
            else (pure (st, []) : PyM (St × List PFamily)))
          pure ({ st1 with typ := typ, allowed := (allowedSuffixes typ).map (st1.name ++ ·) }, out)) := by
  obtain ⟨q, hq1, hq2⟩ := metricTok_unquote h
  have hnm := metricTok_pass asciiSpace_safe h
  obtain ⟨b, hb, hbs⟩ := metricTok_last h
  have hstrip : strip (typeContent n typ) = typeContent n typ := by
    have := strip_meta ('#' :: ' ' :: (kwType ++ [' '])) (escapeMetricName n) typ '#' b rfl (by decide) hb hbs
    have e : typeContent n typ = '#' :: ' ' :: (kwType ++ [' ']) ++ escapeMetricName n ++ ' ' :: typ := by
      simp [typeContent]
    rw [e, this, rstrip_typWord ht]
    simp [ht.1]
  have hsplit := splitQuoted_meta4 kwType (escapeMetricName n) typ pass_kwType hnm ht.1
  unfold stepLine
  rw [hstrip]
  unfold typeContent at hsplit ⊢
  simp only [List.head?_cons, beq_self_eq_true, ↓reduceIte, hsplit]
  simp only [List.length_cons, List.length_nil, show ¬ (0 + 1 + 1 + 1 + 1 < 2) by omega, show ¬ (0 + 1 + 1 + 1 + 1 < 4) by omega,
    ↓reduceIte, List.getElem?_cons_succ, List.getElem?_cons_zero, hq1, bind, Except.bind, hq2, Bool.false_eq_true, pure, Except.pure,
    Option.getD_some]
  have h1 : (kwType == "HELP".toList) = false := by decide
  have h2 : (kwType == "TYPE".toList) = true := by decide
  simp only [h1, h2, Bool.false_eq_true, ↓reduceIte]

end PromVerif.Lemmas.TextParse
