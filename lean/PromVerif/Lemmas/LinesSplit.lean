/-
C05 lemmas, part 2: splitting on a separator; a concatenation of LF-terminated, LF-free lines splits back into
exactly those lines.
-/
import PromVerif.Py.Str
import PromVerif.Spec.LineGrammar

namespace PromVerif.Lemmas.Lines
open PromVerif.Py
open PromVerif.Spec.LineGrammar hiding Str

theorem splitOn_of_not_mem (sep : Char) (a : Str) (h : sep ∉ a) : splitOn sep a = [a] := by
  induction a with
  | nil => rfl
  | cons x xs ih =>
    have hx : x ≠ sep := by intro e; exact h (by simp [e])
    have hxs : sep ∉ xs := by intro e; exact h (by simp [e])
    simp [splitOn, hx, ih hxs]

theorem splitOn_append_sep (sep : Char) (a b : Str) (h : sep ∉ a) :
    splitOn sep (a ++ sep :: b) = a :: splitOn sep b := by
  induction a with
  | nil => simp [splitOn]
  | cons x xs ih =>
    have hx : x ≠ sep := by intro e; exact h (by simp [e])
    have hxs : sep ∉ xs := by intro e; exact h (by simp [e])
    simp [splitOn, hx, ih hxs]

/-- an LF-terminated line without an inner LF -/
def IsLine (l : Str) : Prop := ∃ b, l = b ++ ['\n'] ∧ '\n' ∉ b

theorem isLine_mk (b : Str) (h : '\n' ∉ b) : IsLine (b ++ ['\n']) := ⟨b, rfl, h⟩

theorem IsLine.dropLast {l : Str} (h : IsLine l) : l = l.dropLast ++ ['\n'] ∧ '\n' ∉ l.dropLast := by
  obtain ⟨b, rfl, hb⟩ := h
  simp [hb]

/-- splitting the concatenation of lines on LF gives back exactly the lines (and the empty piece after the last LF) -/
theorem splitOn_lines (L : List Str) (h : ∀ l ∈ L, IsLine l) :
    splitOn '\n' L.flatten = L.map List.dropLast ++ [[]] := by
  induction L with
  | nil => rfl
  | cons l ls ih =>
    obtain ⟨b, rfl, hb⟩ := h l (by simp)
    have := ih (fun l hl => h l (by simp [hl]))
    simp only [List.flatten_cons, List.map_cons, List.dropLast_concat, List.append_assoc, List.cons_append]
    rw [splitOn_append_sep _ _ _ hb, List.nil_append, this]

/-- number of separators -/
theorem count_sep_splitOn (sep : Char) (s : Str) : (splitOn sep s).length = s.count sep + 1 := by
  induction s with
  | nil => rfl
  | cons x xs ih =>
    by_cases hx : x = sep
    · subst hx; simp [splitOn, ih]
    · have hne : (x == sep) = false := by simpa using hx
      simp only [splitOn, hx, if_false, List.count_cons, hne]
      cases hs : splitOn sep xs with
      | nil => simp [hs] at ih
      | cons a as => simp [hs] at ih ⊢; omega

end PromVerif.Lemmas.Lines
