/-
C12: the directory of a single-process run meets the input conditions of C08's main theorem (`WFInput`, distinct
rendered bucket keys), so the collector model returns, family by family, exactly the spec's values.
-/
import PromVerif.Lemmas.BackendsValue
import PromVerif.Lemmas.MultiprocessOutput

namespace PromVerif.Lemmas.Backends
open PromVerif.Py PromVerif.Generated.Multiprocess
open PromVerif.Model.Metrics (Val Decl Kind Child Action)
open PromVerif.Model.Multiprocess
open PromVerif.Model.Values
open PromVerif.Model.Backends
open PromVerif.Spec.Metrics (Hist)
open PromVerif.Spec.Multiprocess
open PromVerif.Props.C08 (WFInput)
set_option autoImplicit false
set_option linter.unusedSectionVars false

variable {V : Type} [Val V] {B : Type} [DecidableEq B]

/-- the declarations of a history: names pairwise different, each well formed (collector side included), no gauge
label named `pid` (C08's known finding is excluded, not repaired) -/
structure WFAllB (bo : BOps B) (ds : List (MDecl V)) (bsOf : MDecl V → List B) : Prop where
  names : (ds.map (fun d => d.decl.name)).Nodup
  decls : ∀ d ∈ ds, WFDeclB bo (bsOf d) d
  noPid : ∀ d ∈ ds, isGauge d = true → pidLabel ∉ d.decl.labelnames

theorem WFAllB.toWFAll {bo : BOps B} {ds : List (MDecl V)} {bsOf : MDecl V → List B} (h : WFAllB bo ds bsOf) : WFAll ds :=
  ⟨h.names, fun d hd => (h.decls d hd).wf⟩

theorem hist_index (ds : List (MDecl V)) (hs : List (Hist V)) (hlen : hs.length = ds.length) (d : MDecl V) (hd : d ∈ ds) :
    ∃ (i : Nat) (h : Hist V), ds[i]? = some d ∧ hs[i]? = some h := by
  obtain ⟨i, hi⟩ := List.mem_iff_getElem?.mp hd
  have hi' := (List.getElem?_eq_some_iff.mp hi).1
  exact ⟨i, hs[i]'(by omega), hi, List.getElem?_eq_getElem (by omega)⟩

/-- every contribution in the directory is an entry of a declared metric's value object -/
theorem contrib_origin (ds : List (MDecl V)) (hwf : WFAll ds) (pid : Str) (hs : List (Hist V)) (ps : List Params) (st : St V)
    (hc : Core ds pid hs ps st) (hlen : hs.length = ds.length) (c : Contrib V)
    (hcm : c ∈ allContribs (sfilesOf ps pid st)) :
    ∃ (i : Nat) (d : MDecl V) (h : Hist V), ds[i]? = some d ∧ hs[i]? = some h ∧ c.key.metric = d.decl.name ∧
      c ∈ expContribs d pid st.disk h := by
  have hcm0 := hcm
  unfold allContribs sfilesOf at hcm
  rw [List.flatMap_map] at hcm
  obtain ⟨f, hf, hcf⟩ := List.mem_flatMap.mp hcm
  unfold contribsOf at hcf
  obtain ⟨e, he, rfl⟩ := List.mem_map.mp hcf
  -- the entry's key is the key of a constructed object
  have hv := hc.vinv
  have hstore : f.2 = storeOf st.disk f.1 := by
    unfold storeOf
    rw [AL.getD_eq, AL.get?_of_mem _ hv.nodupFiles f.1 f.2 hf]
    rfl
  have hent : e ∈ storeOf st.disk f.1 := by
    rw [← hstore]
    unfold sfileOf at he
    split at he <;> exact he
  have hkey : e.1 ∈ AL.keys (storeOf st.disk f.1) := List.mem_map.mpr ⟨e, hent, rfl⟩
  rw [hv.keys f.1, hc.psEq] at hkey
  obtain ⟨p, hp, ep⟩ := List.mem_map.mp hkey
  have hpps := (List.mem_filter.mp hp).1
  obtain ⟨d, hd, hpm⟩ := hc.known p hpps
  obtain ⟨i, h, hi, hh⟩ := hist_index ds hs hlen d hd
  have hmetric : e.1.metric = d.decl.name := by rw [← ep]; exact hpm
  refine ⟨i, d, h, hi, hh, hmetric, ?_⟩
  rw [← contribs_eq ds hwf pid hs ps st hc hlen i d h hi hh]
  unfold contribs
  exact List.mem_filter.mpr ⟨hcm0, by simpa using hmetric⟩

/-- one of the four types of the property -/
def FourKinds (k : Kind V) : Prop :=
  match k with
  | .counter => True
  | .gauge => True
  | .summary => True
  | .histogram _ => True
  | _ => False

theorem typStr_gauge (k : Kind V) (hs : FourKinds k) (h : typStr k = gaugeType) : k = .gauge := by
  cases k with
  | gauge => rfl
  | counter => exact absurd h typ_counter_ne.1
  | summary => exact absurd h typ_summary_ne.1
  | histogram bs => exact absurd h (by show "histogram".toList ≠ gaugeType; decide)
  | info => exact absurd hs id
  | enum s => exact absurd hs id

theorem typStr_histogram (k : Kind V) (hs : FourKinds k) (h : typStr k = histogramType) : ∃ bs, k = .histogram bs := by
  cases k with
  | histogram bs => exact ⟨bs, rfl⟩
  | counter => exact absurd h typ_counter_ne.2
  | summary => exact absurd h typ_summary_ne.2
  | gauge => exact absurd h (by show "gauge".toList ≠ histogramType; decide)
  | info => exact absurd hs id
  | enum s => exact absurd hs id

theorem typStr_known (k : Kind V) (hs : FourKinds k) : metricTypes.contains (typStr k) = true ∧ '_' ∉ typStr k := by
  cases k with
  | counter => exact ⟨by rfl, by show '_' ∉ "counter".toList; decide⟩
  | gauge => exact ⟨by rfl, by show '_' ∉ "gauge".toList; decide⟩
  | summary => exact ⟨by rfl, by show '_' ∉ "summary".toList; decide⟩
  | histogram bs => exact ⟨by rfl, by show '_' ∉ "histogram".toList; decide⟩
  | info => exact absurd hs id
  | enum s => exact absurd hs id

theorem gaugeModes_no_sep : ∀ m ∈ gaugeModes, '_' ∉ m := by decide

theorem supported_match (d : MDecl V) (h : Supported d) : FourKinds d.decl.kind := h

/-- **the directory of a single-process run is a well-formed collector input** -/
theorem wfinput (bo : BOps B) (ds : List (MDecl V)) (bsOf : MDecl V → List B) (hwf : WFAllB bo ds bsOf) (pid : Str)
    (hpid : '_' ∉ pid) (hs : List (Hist V)) (ps : List Params) (st : St V) (hc : Core ds pid hs ps st)
    (hlen : hs.length = ds.length) : WFInput bo (sfilesOf ps pid st) := by
  have hwf' := hwf.toWFAll
  have horigin := contrib_origin ds hwf' pid hs ps st hc hlen
  -- facts about a contribution of metric `d`
  have hfacts : ∀ (d : MDecl V) (h : Hist V) (c : Contrib V), c ∈ expContribs d pid st.disk h →
      c.typ = typStr d.decl.kind ∧ c.mode = modeOfDecl d := by
    intro d h c hc'
    obtain ⟨ka, _, p, _, rfl⟩ := (mem_expContribs d pid st.disk h c).mp hc'
    exact ⟨rfl, rfl⟩
  have hsame : ∀ (i j : Nat) (d d' : MDecl V), ds[i]? = some d → ds[j]? = some d' → d.decl.name = d'.decl.name → d = d' := by
    intro i j d d' hi hj e
    by_cases hij : i = j
    · subst hij; rw [hi] at hj; exact Option.some.inj hj
    · exact absurd e (names_ne hwf.names i j d d' hi hj hij)
  refine ⟨?_, ?_, ?_, ?_, ?_, ?_, ?_⟩
  · -- files
    intro sf hsf
    unfold sfilesOf at hsf
    obtain ⟨f, hf, rfl⟩ := List.mem_map.mp hsf
    have hk : f.1 ∈ AL.keys st.disk := List.mem_map.mpr ⟨f, hf, rfl⟩
    obtain ⟨p0, hp0, e0⟩ := hc.vinv.origin f.1 hk
    obtain ⟨q, hq, e1, e2⟩ := sfileOf_found ps pid f ⟨p0, hc.psEq ▸ hp0, e0⟩
    obtain ⟨d, hd, hqm⟩ := hc.known q hq
    obtain ⟨i, h, hi, hh⟩ := hist_index ds hs hlen d hd
    have hq2 : q ∈ ps.filter (fun p => decide (p.metric = d.decl.name)) := List.mem_filter.mpr ⟨hq, by simpa using hqm⟩
    rw [hc.order i d h hi hh] at hq2
    obtain ⟨ka, _, hqc⟩ := List.mem_flatMap.mp hq2
    have g2 := cellParams_typ d ka.1 q hqc
    have hsup := supported_match d (hwf.decls d hd).wf.sup
    rw [e2]
    refine ⟨?_, ?_, ?_, hpid⟩
    · simp only; rw [g2.1]; exact (typStr_known d.decl.kind hsup).1
    · simp only; rw [g2.1]; exact (typStr_known d.decl.kind hsup).2
    · simp only; rw [g2.2]
      unfold modeOfDecl
      split
      · next hg => exact gaugeModes_no_sep _ ((hwf.decls d hd).mode hg)
      · simp
  · -- one type per metric name
    intro c hc1 c' hc2 e
    obtain ⟨i, d, h, hi, hh, hm, hin⟩ := horigin c hc1
    obtain ⟨j, d', h', hj, hh', hm', hin'⟩ := horigin c' hc2
    have : d = d' := hsame i j d d' hi hj (by rw [← hm, ← hm', e])
    subst this
    rw [(hfacts d h c hin).1, (hfacts d h' c' hin').1]
  · -- one mode per gauge name
    intro c hc1 c' hc2 e _
    obtain ⟨i, d, h, hi, hh, hm, hin⟩ := horigin c hc1
    obtain ⟨j, d', h', hj, hh', hm', hin'⟩ := horigin c' hc2
    have : d = d' := hsame i j d d' hi hj (by rw [← hm, ← hm', e])
    subst this
    rw [(hfacts d h c hin).2, (hfacts d h' c' hin').2]
  · -- gauge modes
    intro c hc1 hg
    obtain ⟨i, d, h, hi, hh, hm, hin⟩ := horigin c hc1
    have hd : d ∈ ds := List.mem_of_getElem? hi
    have hf := hfacts d h c hin
    have hk := typStr_gauge d.decl.kind (supported_match d (hwf.decls d hd).wf.sup) (hf.1 ▸ hg)
    have hgd : isGauge d = true := by simp [isGauge, hk]
    rw [hf.2]
    simp only [modeOfDecl, hgd, if_true]
    exact (hwf.decls d hd).mode hgd
  · -- no gauge label named pid
    intro c hc1 hg l hl
    obtain ⟨i, d, h, hi, hh, hm, hin⟩ := horigin c hc1
    have hd : d ∈ ds := List.mem_of_getElem? hi
    have hf := hfacts d h c hin
    have hk := typStr_gauge d.decl.kind (supported_match d (hwf.decls d hd).wf.sup) (hf.1 ▸ hg)
    have hgd : isGauge d = true := by simp [isGauge, hk]
    obtain ⟨ka, _, p, hp, rfl⟩ := (mem_expContribs d pid st.disk h c).mp hin
    rw [gauge_params d hk] at hp
    simp only [List.mem_singleton] at hp
    subst hp
    simp only [contribOf] at hl
    rw [plain_labels d (hwf.decls d hd).wf] at hl
    have := (PromVerif.Lemmas.GatewaySort.mem_sortByKey _ l).mp hl
    intro e
    exact hwf.noPid d hd hgd (e ▸ zip_keys_mem _ _ l this)
  · -- histogram le texts parse
    intro c hc1 hh t ht
    obtain ⟨i, d, h, hi, hh', hm, hin⟩ := horigin c hc1
    have hd : d ∈ ds := List.mem_of_getElem? hi
    have hwd := hwf.decls d hd
    have hf := hfacts d h c hin
    obtain ⟨bs, hk⟩ := typStr_histogram d.decl.kind (supported_match d hwd.wf.sup) (hf.1 ▸ hh)
    obtain ⟨ka, hka, p, hp, rfl⟩ := (mem_expContribs d pid st.disk h c).mp hin
    have hkl := hc.keylen i d h hi hh' ka hka
    rw [cellParams_eq] at hp
    simp only [hk, List.mem_cons, List.mem_map] at hp
    rcases hp with rfl | ⟨t', ht', rfl⟩
    · rw [leText_plain d hwd.wf] at ht; cases ht
    · rw [leText_bucket d hwd.wf pid st.disk ka.1 hkl t'] at ht
      cases ht
      rw [hwd.bounds.texts] at ht'
      obtain ⟨b, hb, rfl⟩ := List.mem_map.mp ht'
      rw [hwd.bounds.parse b hb]; rfl
  · -- label names inside one key are pairwise different
    intro c hc1
    obtain ⟨i, d, h, hi, hh', hm, hin⟩ := horigin c hc1
    have hd : d ∈ ds := List.mem_of_getElem? hi
    have hwd := hwf.decls d hd
    obtain ⟨ka, hka, p, hp, rfl⟩ := (mem_expContribs d pid st.disk h c).mp hin
    have hkl := hc.keylen i d h hi hh' ka hka
    simp only [contribOf]
    rcases cell_shape d ka.1 p hp with ⟨a1, a2, _⟩ | ⟨t, rfl⟩
    · rw [mmapKey_labels p (a1 ▸ hwd.wf.lnNodup)]
      exact sortByKey_nodupKeys _ (zip_nodupKeys _ _ (a1 ▸ hwd.wf.lnNodup))
    · rw [bucket_labels d hwd.wf ka.1 hkl t]
      exact sortByKey_nodupKeys _ (bucket_pairs_nodup d hwd.wf ka.1 t)

/-- … whose rendered bucket keys are pairwise different -/
theorem hk_input (bo : BOps B) (ds : List (MDecl V)) (bsOf : MDecl V → List B) (hwf : WFAllB bo ds bsOf) (pid : Str)
    (hs : List (Hist V)) (ps : List Params) (st : St V) (hc : Core ds pid hs ps st) (hlen : hs.length = ds.length) :
    ∀ mn, typOf (sfilesOf ps pid st) mn = histogramType →
      (AL.keys (bucketSeries (voOf V) bo mn (contribs (sfilesOf ps pid st) mn))).Nodup := by
  intro mn hty
  have hwf' := hwf.toWFAll
  -- the family has a contribution, hence a declaration
  cases hcs : contribs (sfilesOf ps pid st) mn with
  | nil =>
    unfold typOf at hty
    rw [hcs] at hty
    simp only [List.head?_nil, Option.map_none, Option.getD_none] at hty
    exact absurd hty (by decide)
  | cons c cs =>
    have hcm : c ∈ contribs (sfilesOf ps pid st) mn := by rw [hcs]; exact List.mem_cons_self
    have hc2 := PromVerif.Props.C08.mem_contribs hcm
    obtain ⟨i, d, h, hi, hh, hm, hin⟩ := contrib_origin ds hwf' pid hs ps st hc hlen c hc2.1
    have hmn : mn = d.decl.name := by rw [← hc2.2, hm]
    subst hmn
    have hd : d ∈ ds := List.mem_of_getElem? hi
    have hwd := hwf.decls d hd
    have hce := contribs_eq ds hwf' pid hs ps st hc hlen i d h hi hh
    have hne : expContribs d pid st.disk h ≠ [] := by rw [← hce, hcs]; simp
    have htyp := (typOf_exp _ d pid st.disk h hce hne).1
    obtain ⟨bs, hk⟩ := typStr_histogram d.decl.kind (supported_match d hwd.wf.sup) (htyp ▸ hty)
    rw [← hcs, hce]
    unfold bucketSeries
    simp only
    have hlenk := hc.keylen i d h hi hh
    have hnd := hc.keysNodup i d h hi hh
    rw [bucketContribs_hist bo d hwd.wf pid st.disk h bs hk (bsOf d) hwd.bounds hlenk]
    have hin' : HistIn bo (bsOf d) (childList d h) (fun ka => plainLabels d ka.1) (bucketVals bo d pid st.disk (bsOf d)) := by
      refine ⟨?_, hwd.bounds.nodup, hwd.bounds.sorted, fun ka _ => by simp [bucketVals], hwd.bne ⟨bs, hk⟩⟩
      apply nodup_map_of_injOn _ _ (nodup_of_nodup_map _ _ hnd)
      intro a ha b hb e
      have := sorted_zip_inj _ _ _ hwd.wf.lnNodup (hlenk a ha) (hlenk b hb) e
      exact mem_of_key_nodup _ hnd a b ha hb this
    exact bucketSeries_keys_nodup (voOf V) bo (bsOf d) _ _ _ hin' (by rw [← hwd.bounds.texts]; exact hwd.wf.leNodup) d.decl.name

end PromVerif.Lemmas.Backends
