/-
C10/C11: single operations on a represented store: ensure / store / load, the constructor on an empty, an all-zero and
a represented file.
-/
import PromVerif.Lemmas.MmapValue
namespace PromVerif.Lemmas.Mmap
open PromVerif.Py PromVerif.Model.MmapDict PromVerif.Generated.Mmap
open PromVerif.Spec.MmapDict (Store)

/-! ## operations on a represented store -/

theorem lookup_posOf_split (es1 es2 : List Entry) (e : Entry) (p : Nat) (h : e.key ∉ keys es1) :
    (posOf p (es1 ++ e :: es2)).lookup e.key = some (valuePos (p + (encEntries es1).length) e.key) := by
  induction es1 generalizing p with
  | nil => simp [posOf]
  | cons x es1 ih =>
    simp only [keys_cons, List.mem_cons, not_or] at h
    have hb : (e.key == x.key) = false := by simpa using h.1
    simp only [List.cons_append, posOf, List.lookup_cons, hb, encEntries_cons, List.length_append, encEntry_length]
    rw [ih _ h.2, Nat.add_assoc]

/-- a key that is present occurs first somewhere -/
theorem split_first (es : List Entry) (k : Key) (h : k ∈ keys es) :
    ∃ es1 e es2, es = es1 ++ e :: es2 ∧ e.key = k ∧ k ∉ keys es1 := by
  cases hq : (posOf 8 es).lookup k with
  | none => exact absurd h ((lookup_posOf_none es 8 k).mp hq)
  | some q =>
    obtain ⟨es1, e, es2, h1, h2, h3, _⟩ := lookup_posOf_some es 8 k q hq
    exact ⟨es1, e, es2, h1, h2, h3⟩

theorem ensure_present {d es tail} (h : Rep d es tail) (k : Key) (hk : k ∈ keys es) : ensure d k = .ok (d, []) := by
  unfold ensure
  cases hq : d.positions.lookup k with
  | none => rw [h.pos] at hq; exact absurd hk ((lookup_posOf_none es 8 k).mp hq)
  | some q => simp

theorem ensure_absent {d es tail} (h : Rep d es tail) (k : Key) (hk : k ∉ keys es) : ensure d k = initValue d k := by
  unfold ensure
  rw [h.pos, (lookup_posOf_none es 8 k).mpr hk]
  simp

/-- the state after `_init_value(k)` with `z` bytes of growth -/
def afterInit (d : MmapedDict) (es : List Entry) (tail : Bytes) (k : Key) (cap : Nat) : MmapedDict :=
  ⟨initFile d.used es tail k (cap - d.capacity), cap, d.used + entryLen k, posOf 8 (es ++ [fresh k])⟩

def ZeroTail (tail : Bytes) : Prop := ∀ b ∈ tail, b = 0

theorem zeroTail_grow {tail : Bytes} (h : ZeroTail tail) (z n : Nat) : ZeroTail ((tail ++ zeros z).drop n) := by
  intro b hb
  have := List.mem_of_mem_drop hb
  rcases List.mem_append.mp this with h1 | h1
  · exact h b h1
  · simp [zeros] at h1; exact h1.2

theorem afterInit_rep {d es tail} (h : Rep d es tail) (k : Key) (hk : k ∉ keys es) (cap : Nat)
    (hb : d.used + entryLen k < 2147483648) (hcap : d.used + entryLen k ≤ cap) (hge : d.capacity ≤ cap) :
    Rep (afterInit d es tail k cap) (es ++ [fresh k]) ((tail ++ zeros (cap - d.capacity)).drop (entryLen k)) := by
  have hc := h.cap_eq
  refine ⟨initFile_rep h.file k _ hb, ?_, rfl, ?_⟩
  · have := (initFile_rep h.file k (cap - d.capacity) hb).length
    simp only [afterInit]
    rw [this]; simp; omega
  · simp only [keys_append, keys_cons, keys_nil, fresh]
    rw [List.nodup_append]
    exact ⟨h.nodup, by simp, by intro a ha b hb'; simp at hb'; subst hb'; exact fun e => hk (e ▸ ha)⟩

theorem storeValue_ok {d es1 e es2 tail} (h : Rep d (es1 ++ e :: es2) tail) (hk : e.key ∉ keys es1) (v t : UInt64) :
    storeValue d e.key v t = .ok
      ({ d with file := sliceWrite d.file (valuePos (8 + (encEntries es1).length) e.key) (le64 v ++ le64 t) },
       [.sliceWrite (valuePos (8 + (encEntries es1).length) e.key) (le64 v ++ le64 t)]) ∧
    Rep { d with file := sliceWrite d.file (valuePos (8 + (encEntries es1).length) e.key) (le64 v ++ le64 t) }
      (es1 ++ ⟨e.key, v, t⟩ :: es2) tail := by
  have hb := value_pos_bound h.file
  have hc := h.cap_eq
  constructor
  · unfold storeValue
    rw [h.pos, lookup_posOf_split es1 es2 e 8 hk]
    have : valuePos (8 + (encEntries es1).length) e.key + (le64 v ++ le64 t).length ≤ d.capacity := by simp; omega
    simp only [this, if_true]
  · have hr := value_write_rep h.file v t
    refine ⟨hr, ?_, ?_, ?_⟩
    · show d.capacity = _
      rw [hr.length, hc]
    · show d.positions = _
      rw [h.pos]; exact posOf_congr _ _ _ (by simp)
    · have := h.nodup; simpa using this

theorem loadValue_ok {d es1 e es2 tail} (h : Rep d (es1 ++ e :: es2) tail) (hk : e.key ∉ keys es1) :
    loadValue d e.key = .ok (e.v, e.t) := by
  unfold loadValue
  rw [h.pos, lookup_posOf_split es1 es2 e 8 hk]
  exact value_read h.file

/-- reopening the file of an open store gives back the same object, with no file effect -/
theorem init_reopen {d es tail} (h : Rep d es tail) (initSize : Nat) : init initSize (close d) = .ok (d, []) := by
  have hl := h.file.length
  have hu := h.file.used_eq
  have hne : ¬ d.file.length = 0 := by omega
  have h0 : ¬ ((d.used : Int) = 0) := by omega
  have hle : ¬ ((d.used : Int) ≤ 0) := by omega
  unfold init close
  simp only [ctorEffects, List.foldlM_cons, List.foldlM_nil, ctorStep, bind, Except.bind, hne, if_false,
    h.file.unpack_header, h0, pure, Except.pure, hle, h.file.raw_ok, Int.toNat_natCast]
  have := rebuild_positions es 8 [] h.nodup (by simp)
  simp only [List.nil_append] at this
  rw [this, ← h.pos, ← h.cap]

theorem zeros_split (n : Nat) (h : 4 ≤ n) : zeros n = le 4 0 ++ zeros (n - 4) := by
  have : le 4 0 = zeros 4 := by simp [le, zeros]
  rw [this, zeros_append]; congr 1; omega

theorem unpackInt_zeros (n : Nat) (h : 4 ≤ n) : unpackInt (zeros n) headerPos = .ok 0 :=
  unpackInt_le (a := []) (c := zeros (n - 4)) (n := 0) (by simpa using zeros_split n h) rfl (by omega)

/-- the constructor on an all-zero file (the state after the initial truncate): header written, empty store -/
def freshStore (n : Nat) : MmapedDict := ⟨hdr 8 ++ zeros (n - 8), n, 8, []⟩

theorem freshStore_rep (n : Nat) (h : 8 ≤ n) : Rep (freshStore n) [] (zeros (n - 8)) :=
  ⟨⟨by simp [freshStore], by simp [freshStore], by simp [freshStore]⟩, by simp [freshStore]; omega, rfl, by simp⟩

theorem sliceWrite_header_zeros (n : Nat) (h : 8 ≤ n) : sliceWrite (zeros n) 0 (le 4 8) = hdr 8 ++ zeros (n - 8) := by
  have := sliceWrite_of_eq (data := zeros n) (a := []) (b := le 4 0) (b' := le 4 8) (c := zeros (n - 4)) (pos := 0)
    (by simpa using zeros_split n (by omega)) (by simp) (by simp)
  rw [this]
  obtain ⟨m, rfl⟩ : ∃ m, n = m + 8 := ⟨n - 8, by omega⟩
  have h4 : m + 8 - 4 = m + 4 := by omega
  simp [hdr, zeros, h4, List.replicate_succ]

theorem init_zeros (initSize n : Nat) (h : 8 ≤ n) :
    init initSize (zeros n) = .ok (freshStore n, [.sliceWrite 0 (le 4 8)]) := by
  have hne : ¬ n = 0 := by omega
  have hr := freshStore_rep n h
  have hfit : 4 ≤ n := by omega
  have hz : unpackInt (zeros n) 0 = .ok 0 := unpackInt_zeros n (by omega)
  have hle : ¬ ((8 : Int) ≤ 0) := by omega
  have hraw := hr.file.raw_ok
  have hhd := hr.file.unpack_header
  simp only [freshStore, headerPos] at hraw hhd
  unfold init
  simp only [ctorEffects, List.foldlM_cons, List.foldlM_nil, ctorStep, bind, Except.bind, zeros_length, hne, if_false,
    if_true, packInt, freshUsed, intWidth, headerPos, Fx.sliceWrite, le_length, Nat.zero_add, hz, hfit,
    sliceWrite_header_zeros n h, pure, Except.pure, show (8 : Nat) < 2147483648 from by omega, hhd, hraw,
    scanOut, Int.toNat_natCast, List.foldl_nil, freshStore]
  rfl

theorem init_fresh (initSize : Nat) (h : 8 ≤ initSize) :
    init initSize [] = .ok (freshStore initSize, [.truncate initSize, .sliceWrite 0 (le 4 8)]) := by
  have hne : ¬ initSize = 0 := by omega
  have hr := freshStore_rep initSize h
  have hfit : 4 ≤ initSize := by omega
  have hz : unpackInt (zeros initSize) 0 = .ok 0 := unpackInt_zeros initSize (by omega)
  have hle : ¬ ((8 : Int) ≤ 0) := by omega
  have hraw := hr.file.raw_ok
  have hhd := hr.file.unpack_header
  simp only [freshStore, headerPos] at hraw hhd
  have htr : truncate [] initSize = zeros initSize := by simp [truncate]
  unfold init
  simp only [ctorEffects, List.foldlM_cons, List.foldlM_nil, ctorStep, bind, Except.bind, List.length_nil, if_true,
    Fx.truncate, htr, hne, if_false, packInt, freshUsed, intWidth, headerPos, hz, le_length, Nat.zero_add,
    Fx.sliceWrite, hfit, sliceWrite_header_zeros initSize h, pure, Except.pure,
    show (8 : Nat) < 2147483648 from by omega, hhd, hraw, scanOut, Int.toNat_natCast, List.foldl_nil, freshStore]
  rfl

end PromVerif.Lemmas.Mmap
