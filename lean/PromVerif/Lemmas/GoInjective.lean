/-
`floatToGoString` across the classes of `repr` texts: from the per-class theorems of `Props/C13.lean` (`go_small`,
`go_exp`, `go_negative`, `go_special`, `go_big`, `go_big_has_exponent`, `go_injective_big`) to one statement about two
texts of ANY of the five classes.  Nothing here mentions multiprocess definitions.
-/
import PromVerif.Props.C13

namespace PromVerif.Lemmas.GoInjective
open PromVerif.Py PromVerif.Spec PromVerif.Model.Utils PromVerif.Props.C13
set_option autoImplicit false

/-- the five classes of `repr` texts: plain with at most six integer digits, plain with more than six, exponent form,
    `inf`, negative finite (a `-` followed by a digit) -/
inductive ReprText : Str → Prop
  | small (I F : Str) (h : PlainRepr I F) (hs : I.length ≤ 6) : ReprText (I ++ '.' :: F)
  | big (i0 : Char) (I' F : Str) (h : PlainRepr (i0 :: I') F) (hb : 6 ≤ I'.length) : ReprText (i0 :: I' ++ '.' :: F)
  | exp (s : Str) (h : ExpRepr s) : ReprText s
  | inf : ReprText ['i', 'n', 'f']
  | neg (c : Char) (r : Str) (hc : isDigit c = true) : ReprText ('-' :: c :: r)


/-- the text starts with a decimal digit -/
def DigitHead (l : Str) : Prop := ∃ c r, l = c :: r ∧ isDigit c = true

theorem digitHead_ne_plus (l : Str) (h : DigitHead l) : l.head? ≠ some '+' ∧ l.head? ≠ some '-' := by
  obtain ⟨c, r, rfl, hc⟩ := h
  simp only [List.head?_cons, ne_eq, Option.some.injEq]
  exact ⟨isDigit_ne hc (by decide), isDigit_ne hc (by decide)⟩

theorem plain_head (I F : Str) (h : PlainRepr I F) : DigitHead (I ++ '.' :: F) := by
  cases hI : I with
  | nil => exact absurd hI h.ine
  | cons c r =>
    have := h.idig; rw [hI] at this; simp [allDigits] at this
    exact ⟨c, r ++ '.' :: F, rfl, this.1⟩

theorem plain_no_e (I F : Str) (h : PlainRepr I F) : 'e' ∉ I ++ '.' :: F := by
  intro hm
  rcases List.mem_append.mp hm with hm | hm
  · exact not_mem_of_allDigits h.idig (by decide) hm
  · rcases List.mem_cons.mp hm with e | hm
    · revert e; decide
    · exact not_mem_of_allDigits h.fdig (by decide) hm

theorem exp_head (s : Str) (h : ExpRepr s) : DigitHead s := by
  obtain ⟨d, F, ex, hd, _, _, hs⟩ := h.shape
  rcases hs with hs | hs <;> exact ⟨d, _, hs, hd⟩

theorem big_render_head (i0 : Char) (I' F : Str) (h : PlainRepr (i0 :: I') F) (hb : 6 ≤ I'.length) :
    DigitHead (floatToGoString (i0 :: I' ++ '.' :: F)) := by
  rw [go_big i0 I' F h hb]
  have hi0 : isDigit i0 = true := by have := h.idig; simp [allDigits] at this; exact this.1
  unfold goFormat
  simp only
  split
  · exact ⟨i0, _, rfl, hi0⟩
  · exact ⟨i0, _, rfl, hi0⟩

/-- how the rendering of a bound's `repr` looks, per shape -/
theorem render_shape (s : Str) (h : ReprText s) :
    (DigitHead (floatToGoString s)) ∨ floatToGoString s = ['+', 'I', 'n', 'f'] ∨
    (∃ c r, isDigit c = true ∧ s = '-' :: c :: r ∧ floatToGoString s = s) := by
  cases h with
  | small I F h hs => left; rw [go_small I F h hs]; exact plain_head I F h
  | big i0 I' F h hb => left; exact big_render_head i0 I' F h hb
  | exp s h => left; rw [go_exp s h]; exact exp_head s h
  | inf => right; left; exact go_special.1
  | neg c r hc =>
    right; right
    refine ⟨c, r, hc, rfl, go_negative (c :: r) ?_⟩
    intro e
    have : c = 'i' := by simpa using congrArg List.head? e
    rw [this] at hc; revert hc; decide

/-- **C13 ⇒ the renderings of two bound texts coincide only if the texts do**, except in two situations the text
    formulation cannot exclude and CPython's `repr` does (see `Props.C13Injective.ReprFacts`):
    (a) two plain texts with more than six integer digits denoting the same number (`go_injective_big`) — `repr` prints
        one shortest text per double;
    (b) a plain text with more than six integer digits whose rendering IS an exponent-form text — `repr` uses the
        exponent form only from `1e16` on, where it does not use the plain form. -/
theorem render_injective (s t : Str) (hs : ReprText s) (ht : ReprText t)
    (heq : floatToGoString s = floatToGoString t) :
    s = t ∨
    (∃ a b c, denote s = some a ∧ denote t = some b ∧ a.eqv c ∧ b.eqv c) ∨
    (ExpRepr t ∧ floatToGoString s = t) ∨ (ExpRepr s ∧ floatToGoString t = s) := by
  have shape_s := render_shape s hs
  have shape_t := render_shape t ht
  -- different kinds of first character: impossible
  have hplus : (['+', 'I', 'n', 'f'] : Str).head? = some '+' := rfl
  cases hs with
  | inf =>
    cases ht with
    | inf => exact Or.inl rfl
    | small I F h hs' =>
      rw [go_special.1, go_small I F h hs'] at heq
      exact absurd (heq ▸ hplus) (digitHead_ne_plus _ (plain_head I F h)).1
    | big i0 I' F h hb =>
      rw [go_special.1] at heq
      exact absurd (heq ▸ hplus) (digitHead_ne_plus _ (big_render_head i0 I' F h hb)).1
    | exp t h =>
      rw [go_special.1, go_exp t h] at heq
      exact absurd (heq ▸ hplus) (digitHead_ne_plus _ (exp_head t h)).1
    | neg c r hc =>
      have hn : floatToGoString ('-' :: c :: r) = '-' :: c :: r := go_negative (c :: r) (by
        intro e; have : c = 'i' := by simpa using congrArg List.head? e
        rw [this] at hc; revert hc; decide)
      rw [go_special.1, hn] at heq
      revert heq; simp
  | neg c r hc =>
    have hn : floatToGoString ('-' :: c :: r) = '-' :: c :: r := go_negative (c :: r) (by
      intro e; have : c = 'i' := by simpa using congrArg List.head? e
      rw [this] at hc; revert hc; decide)
    have hminus : (floatToGoString ('-' :: c :: r)).head? = some '-' := by rw [hn]; rfl
    rcases shape_t with h | h | ⟨c', r', _, e1, e2⟩
    · rw [← heq] at h; exact absurd hminus (digitHead_ne_plus _ h).2
    · rw [← heq] at h; rw [h] at hminus; revert hminus; simp
    · rw [hn, e2] at heq; exact Or.inl heq
  | small I F h hs' =>
    rw [go_small I F h hs'] at heq
    cases ht with
    | small J G h2 ht' => rw [go_small J G h2 ht'] at heq; exact Or.inl heq
    | exp t h2 => rw [go_exp t h2] at heq; exact Or.inl heq
    | big j0 J' G h2 hb =>
      have := (go_big_has_exponent j0 J' G h2 hb).1
      rw [← heq] at this
      exact absurd this (plain_no_e I F h)
    | inf =>
      rw [go_special.1] at heq
      exact absurd (heq.symm ▸ hplus) (digitHead_ne_plus _ (plain_head I F h)).1
    | neg c r hc =>
      have hn : floatToGoString ('-' :: c :: r) = '-' :: c :: r := go_negative (c :: r) (by
        intro e; have : c = 'i' := by simpa using congrArg List.head? e
        rw [this] at hc; revert hc; decide)
      rw [hn] at heq
      have := (digitHead_ne_plus _ (plain_head I F h)).2
      rw [heq] at this; exact absurd rfl this
  | exp s h =>
    rw [go_exp s h] at heq
    cases ht with
    | small J G h2 ht' => rw [go_small J G h2 ht'] at heq; exact Or.inl heq
    | exp t h2 => rw [go_exp t h2] at heq; exact Or.inl heq
    | big j0 J' G h2 hb => exact Or.inr (Or.inr (Or.inr ⟨h, heq.symm⟩))
    | inf =>
      rw [go_special.1] at heq
      exact absurd (heq.symm ▸ hplus) (digitHead_ne_plus _ (exp_head s h)).1
    | neg c r hc =>
      have hn : floatToGoString ('-' :: c :: r) = '-' :: c :: r := go_negative (c :: r) (by
        intro e; have : c = 'i' := by simpa using congrArg List.head? e
        rw [this] at hc; revert hc; decide)
      rw [hn] at heq
      have := (digitHead_ne_plus _ (exp_head s h)).2
      rw [heq] at this; exact absurd rfl this
  | big i0 I' F h hb =>
    cases ht with
    | big j0 J' G h2 hb2 => exact Or.inr (Or.inl (go_injective_big i0 j0 I' J' F G h h2 hb hb2 heq))
    | exp t h2 => rw [go_exp t h2] at heq; exact Or.inr (Or.inr (Or.inl ⟨h2, heq⟩))
    | small J G h2 ht' =>
      rw [go_small J G h2 ht'] at heq
      have := (go_big_has_exponent i0 I' F h hb).1
      rw [heq] at this
      exact absurd this (plain_no_e J G h2)
    | inf =>
      rw [go_special.1] at heq
      exact absurd (heq.symm ▸ hplus) (digitHead_ne_plus _ (big_render_head i0 I' F h hb)).1
    | neg c r hc =>
      have hn : floatToGoString ('-' :: c :: r) = '-' :: c :: r := go_negative (c :: r) (by
        intro e; have : c = 'i' := by simpa using congrArg List.head? e
        rw [this] at hc; revert hc; decide)
      rw [hn] at heq
      have := (digitHead_ne_plus _ (big_render_head i0 I' F h hb)).2
      rw [heq] at this; exact absurd rfl this

end PromVerif.Lemmas.GoInjective
