/-
Helper lemmas for C17: `split`, `split(sep)[0]`, `strip` and `lower` on rendered header values.
-/
import PromVerif.Model.Http
import PromVerif.Spec.Http
import PromVerif.Lemmas.Str

namespace PromVerif.Lemmas.Http
open PromVerif.Py (stripSet lstripSet rstripSet rstripSet_eq_nil_iff rstripSet_append_singleton_of_not rstripSet_prefix rstripSet_getLast)
open PromVerif.Model.Http PromVerif.Spec.Http

/-! ### split -/

theorem splitOn_ne_nil (c : Char) (s : Str) : splitOn c s ≠ [] := by
  induction s with
  | nil => simp [splitOn]
  | cons x xs ih =>
    unfold splitOn
    split
    · simp
    · split <;> simp

theorem splitOn_of_not_mem {c : Char} {s : Str} (h : c ∉ s) : splitOn c s = [s] := by
  induction s with
  | nil => simp [splitOn]
  | cons x xs ih =>
    have hx : x ≠ c := by intro e; exact h (by simp [e])
    have hxs : c ∉ xs := by intro e; exact h (by simp [e])
    simp [splitOn, hx, ih hxs]

theorem splitOn_append_sep {c : Char} {a : Str} (b : Str) (h : c ∉ a) :
    splitOn c (a ++ c :: b) = a :: splitOn c b := by
  induction a with
  | nil => simp [splitOn]
  | cons x xs ih =>
    have hx : x ≠ c := by intro e; exact h (by simp [e])
    have hxs : c ∉ xs := by intro e; exact h (by simp [e])
    simp [splitOn, hx, ih hxs]

/-- `','.join(parts).split(',') == parts` when no part contains the separator -/
theorem splitOn_joinComma (parts : List Str) (hne : parts ≠ []) (h : ∀ p ∈ parts, ',' ∉ p) :
    splitOn ',' (joinComma parts) = parts := by
  induction parts with
  | nil => exact absurd rfl hne
  | cons p rest ih =>
    cases rest with
    | nil => simpa [joinComma] using splitOn_of_not_mem (h p (by simp))
    | cons q r =>
      have hp : ',' ∉ p := h p (by simp)
      have := ih (by simp) (fun x hx => h x (by simp [hx]))
      simp only [joinComma] at this ⊢
      rw [splitOn_append_sep _ hp, this]

/-- `(a + rest).split(c)[0] == a` when `a` has no `c` and `rest` is empty or starts with `c` -/
theorem firstOf_splitOn {c : Char} {a : Str} (rest : Str) (h : c ∉ a) (hr : rest = [] ∨ ∃ t, rest = c :: t) :
    firstOf (splitOn c (a ++ rest)) = a := by
  rcases hr with hr | ⟨t, hr⟩
  · subst hr; simp [splitOn_of_not_mem h, firstOf]
  · subst hr; simp [splitOn_append_sep _ h, firstOf]

theorem renderParams_shape (ps : List Str) : renderParams ps = [] ∨ ∃ t, renderParams ps = ';' :: t := by
  cases ps with
  | nil => left; rfl
  | cons p r => right; exact ⟨p ++ renderParams r, by simp [renderParams]⟩

/-! ### whitespace and strip -/

theorem isWs_eq (c : Char) : isPyWhitespace c = isWs c := rfl

theorem isWs_comma : isWs ',' = false := by decide
theorem isWs_semi : isWs ';' = false := by decide

theorem not_mem_of_all_ws {c : Char} (hc : isWs c = false) {s : Str} (h : ∀ x ∈ s, isWs x = true) : c ∉ s := by
  intro hm
  have := h c hm
  simp [hc] at this

theorem dropWhile_ws_append (pre rest : Str) (h : ∀ x ∈ pre, isWs x = true) :
    (pre ++ rest).dropWhile isPyWhitespace = rest.dropWhile isPyWhitespace := by
  induction pre with
  | nil => rfl
  | cons x xs ih =>
    have hx : isPyWhitespace x = true := by rw [isWs_eq]; exact h x (by simp)
    simp [hx, ih (fun y hy => h y (by simp [hy]))]

theorem dropWhile_all_ws (s : Str) (h : ∀ x ∈ s, isWs x = true) : s.dropWhile isPyWhitespace = [] := by
  have := dropWhile_ws_append s [] h
  simpa using this

theorem rstrip_append_ws (m post : Str) (h : ∀ x ∈ post, isWs x = true) :
    rstripSet isPyWhitespace (m ++ post) = rstripSet isPyWhitespace m := by
  have hpost : rstripSet isPyWhitespace post = [] := by
    rw [rstripSet_eq_nil_iff]
    simp only [List.all_eq_true]
    intro x hx; rw [isWs_eq]; exact h x hx
  induction m with
  | nil => simp [hpost, rstripSet]
  | cons x xs ih =>
    simp only [List.cons_append, rstripSet, ih]

theorem rstrip_of_last (m : Str) (h : ∀ c, m.getLast? = some c → isWs c = false) :
    rstripSet isPyWhitespace m = m := by
  rcases List.eq_nil_or_concat m with hm | ⟨init, last, hm⟩
  · subst hm; rfl
  · subst hm
    have : isWs last = false := h last (by simp)
    simpa using rstripSet_append_singleton_of_not isPyWhitespace init last (by rw [isWs_eq]; exact this)

/-- `(pre + media + post).strip() == media` -/
theorem strip_padded (pre m post : Str) (hpre : ∀ x ∈ pre, isWs x = true) (hpost : ∀ x ∈ post, isWs x = true)
    (hhead : ∀ c, m.head? = some c → isWs c = false) (hlast : ∀ c, m.getLast? = some c → isWs c = false) :
    strip (pre ++ m ++ post) = m := by
  unfold strip stripSet lstripSet
  rw [List.append_assoc, dropWhile_ws_append pre _ hpre]
  cases m with
  | nil =>
    simp [dropWhile_all_ws post hpost, rstripSet]
  | cons c t =>
    have hc : isPyWhitespace c = false := by rw [isWs_eq]; exact hhead c rfl
    have : ((c :: t) ++ post).dropWhile isPyWhitespace = (c :: t) ++ post := by
      simp [hc]
    rw [this, rstrip_append_ws _ _ hpost, rstrip_of_last _ hlast]

theorem mem_takeWhile_true (p : Char → Bool) (s : Str) : ∀ x ∈ s.takeWhile p, p x = true := by
  induction s with
  | nil => simp
  | cons y ys ih =>
    intro x hx
    rw [List.takeWhile_cons] at hx
    split at hx
    · next hy =>
      simp only [List.mem_cons] at hx
      rcases hx with rfl | hx
      · exact hy
      · exact ih x hx
    · simp at hx

theorem head_dropWhile_false (p : Char → Bool) (s : Str) : ∀ c, (s.dropWhile p).head? = some c → p c = false := by
  induction s with
  | nil => simp
  | cons y ys ih =>
    intro c hc
    rw [List.dropWhile_cons] at hc
    split at hc
    · exact ih c hc
    · next hy => simp at hc; subst hc; simpa using hy

/-- every string is whitespace, a stripped core, whitespace -/
theorem strip_decompose (s : Str) :
    ∃ pre post, s = pre ++ strip s ++ post ∧ (∀ x ∈ pre, isWs x = true) ∧ (∀ x ∈ post, isWs x = true) ∧
      (∀ c, (strip s).head? = some c → isWs c = false) ∧ (∀ c, (strip s).getLast? = some c → isWs c = false) := by
  obtain ⟨j, hj, hjall⟩ := rstripSet_prefix isPyWhitespace (s.dropWhile isPyWhitespace)
  refine ⟨s.takeWhile isPyWhitespace, j, ?_, ?_, ?_, ?_, ?_⟩
  · unfold strip stripSet lstripSet
    rw [List.append_assoc, ← hj, List.takeWhile_append_dropWhile]
  · intro x hx
    have := mem_takeWhile_true isPyWhitespace s x hx
    rw [← isWs_eq]; exact this
  · intro x hx
    have := (List.all_eq_true.mp hjall) x hx
    rw [← isWs_eq]; exact this
  · intro c hc
    unfold strip stripSet lstripSet at hc
    -- the head of the stripped string is the head of the dropWhile
    have hd : (s.dropWhile isPyWhitespace).head? = some c := by
      rw [hj]
      cases hr : rstripSet isPyWhitespace (s.dropWhile isPyWhitespace) with
      | nil => rw [hr] at hc; simp at hc
      | cons y ys => rw [hr] at hc; simpa using hc
    rw [← isWs_eq]
    exact head_dropWhile_false isPyWhitespace s c hd
  · intro c hc
    unfold strip stripSet lstripSet at hc
    rw [← isWs_eq]
    exact rstripSet_getLast isPyWhitespace _ c hc

theorem strip_no_sep (s : Str) {c : Char} (h : c ∉ s) : c ∉ strip s := by
  obtain ⟨pre, post, hs, _⟩ := strip_decompose s
  intro hm
  apply h
  rw [hs]
  simp [hm]

/-! ### tokens of a rendered header -/

/-- what the two matching loops compare (before `.lower()`): `item.split(';')[0].strip()` for each `item` -/
def tokensOf (hdr : Str) : List Str := (splitOn ',' hdr).map fun a => strip (firstOf (splitOn ';' a))

theorem Item.render_no_comma (it : Item) (h : it.WF) : ',' ∉ it.render := by
  have h1 := not_mem_of_all_ws isWs_comma h.pre_ws
  have h2 := not_mem_of_all_ws isWs_comma h.post_ws
  have h3 := h.media_comma
  have h4 : ',' ∉ renderParams it.params := by
    unfold renderParams
    simp only [List.mem_flatMap, not_exists, not_and]
    intro p hp hm
    have := h.params_comma p hp
    simp at hm
    exact this hm
  simp [Item.render, h1, h2, h3, h4]

theorem Item.token_render (it : Item) (h : it.WF) : strip (firstOf (splitOn ';' it.render)) = it.media := by
  have h1 := not_mem_of_all_ws isWs_semi h.pre_ws
  have h2 := not_mem_of_all_ws isWs_semi h.post_ws
  have hno : ';' ∉ it.pre ++ it.media ++ it.post := by simp [h1, h2, h.media_semi]
  unfold Item.render
  rw [firstOf_splitOn _ hno (renderParams_shape it.params)]
  exact strip_padded _ _ _ h.pre_ws h.post_ws h.media_head h.media_last

/-- the tokens of a rendered non-empty item list are the items' tokens, in order -/
theorem tokensOf_render (items : List Item) (hne : items ≠ []) (h : ∀ it ∈ items, it.WF) :
    tokensOf (render items) = items.map Item.media := by
  unfold tokensOf render
  rw [splitOn_joinComma _ (by simpa using hne)]
  · rw [List.map_map]
    apply List.map_congr_left
    intro it hit
    exact Item.token_render it (h it hit)
  · intro p hp
    obtain ⟨it, hit, rfl⟩ := List.mem_map.mp hp
    exact Item.render_no_comma it (h it hit)

theorem tokensOf_nil : tokensOf [] = [[]] := by
  simp [tokensOf, splitOn, firstOf, strip, stripSet, lstripSet, rstripSet]

/-- any token-level test that fails on the empty token sees a rendered header exactly as its item list -/
theorem any_tokens_render (p : Str → Bool) (hp : p [] = false) (items : List Item) (h : ∀ it ∈ items, it.WF) :
    (tokensOf (render items)).any p = (items.map Item.media).any p := by
  cases items with
  | nil => simp [render, joinComma, tokensOf_nil, hp]
  | cons a r => rw [tokensOf_render _ (by simp) h]

/-! ### the grammar is total: every string is the rendering of a well-formed item list -/

def itemOfPiece (a : Str) (pre post : Str) : Item :=
  { pre := pre, media := strip (firstOf (splitOn ';' a)), post := post, params := (splitOn ';' a).drop 1 }

theorem splitOn_parts_no_sep (c : Char) (s : Str) : ∀ p ∈ splitOn c s, c ∉ p := by
  induction s with
  | nil => simp [splitOn]
  | cons x xs ih =>
    unfold splitOn
    split
    · intro p hp
      simp only [List.mem_cons] at hp
      rcases hp with rfl | hp
      · simp
      · exact ih p hp
    · next hx =>
      split
      · intro p hp; simp at hp; subst hp; simp; exact fun e => hx e.symm
      · next hd tl heq =>
        intro p hp
        simp only [List.mem_cons] at hp
        rcases hp with rfl | hp
        · have := ih hd (by rw [heq]; simp)
          simp [this]; exact fun e => hx e.symm
        · exact ih p (by rw [heq]; simp [hp])

theorem joinSep_splitOn (c : Char) (s : Str) :
    ∃ h t, splitOn c s = h :: t ∧ s = h ++ t.flatMap (fun p => c :: p) := by
  induction s with
  | nil => exact ⟨[], [], by simp [splitOn], by simp⟩
  | cons x xs ih =>
    obtain ⟨h, t, hs, hx⟩ := ih
    unfold splitOn
    split
    · next e => exact ⟨[], h :: t, by rw [hs], by simp [e, ← hx]⟩
    · rw [hs]
      exact ⟨x :: h, t, rfl, by simp [← hx]⟩

theorem mem_of_mem_part {c x : Char} {s p : Str} (hp : p ∈ splitOn c s) (hx : x ∈ p) : x ∈ s := by
  obtain ⟨h, t, hs, he⟩ := joinSep_splitOn c s
  rw [hs] at hp
  rw [he]
  simp only [List.mem_cons] at hp
  rcases hp with rfl | hp
  · simp [hx]
  · simp only [List.mem_append, List.mem_flatMap, List.mem_cons]
    right; exact ⟨p, hp, Or.inr hx⟩

/-- a comma-free piece is the rendering of a well-formed item -/
theorem piece_is_item (a : Str) (ha : ',' ∉ a) : ∃ it : Item, it.WF ∧ it.render = a := by
  obtain ⟨h, t, hs, he⟩ := joinSep_splitOn ';' a
  obtain ⟨pre, post, hdec, hpre, hpost, hhead, hlast⟩ := strip_decompose h
  have hparts := splitOn_parts_no_sep ';' a
  have hh : ';' ∉ h := hparts h (by rw [hs]; simp)
  refine ⟨{ pre := pre, media := strip h, post := post, params := t }, ?_, ?_⟩
  · refine ⟨hpre, hpost, ?_, ?_, hhead, hlast, ?_, ?_⟩
    · apply strip_no_sep
      intro hm; exact ha (mem_of_mem_part (c := ';') (p := h) (by rw [hs]; simp) hm)
    · exact strip_no_sep h hh
    · intro p hp hm
      exact ha (mem_of_mem_part (c := ';') (p := p) (by rw [hs]; simp [hp]) hm)
    · intro p hp
      exact hparts p (by rw [hs]; simp [hp])
  · simp only [Item.render, renderParams]
    rw [← hdec]
    exact he.symm

theorem joinComma_splitOn (s : Str) : joinComma (splitOn ',' s) = s := by
  induction s with
  | nil => simp [splitOn, joinComma]
  | cons x xs ih =>
    unfold splitOn
    split
    · next e =>
      cases hsp : splitOn ',' xs with
      | nil => exact absurd hsp (splitOn_ne_nil _ _)
      | cons q r => rw [hsp] at ih; simp [joinComma, ih, e]
    · cases hsp : splitOn ',' xs with
      | nil => exact absurd hsp (splitOn_ne_nil _ _)
      | cons q r =>
        rw [hsp] at ih
        cases r with
        | nil => simp [joinComma] at ih ⊢; exact ih
        | cons q2 r2 => simp [joinComma] at ih ⊢; exact ih

theorem pieces_are_items (ps : List Str) (h : ∀ p ∈ ps, ',' ∉ p) :
    ∃ items : List Item, (∀ it ∈ items, it.WF) ∧ items.map Item.render = ps := by
  induction ps with
  | nil => exact ⟨[], by simp, rfl⟩
  | cons p r ih =>
    obtain ⟨items, hwf, hr⟩ := ih (fun x hx => h x (by simp [hx]))
    obtain ⟨it, hit, hrend⟩ := piece_is_item p (h p (by simp))
    refine ⟨it :: items, ?_, by simp [hrend, hr]⟩
    intro x hx
    simp only [List.mem_cons] at hx
    rcases hx with rfl | hx
    · exact hit
    · exact hwf x hx

/-- **The grammar excludes nothing**: every string is the rendering of a well-formed item list. -/
theorem grammar_total (hdr : Str) : ∃ items : List Item, (∀ it ∈ items, it.WF) ∧ render items = hdr := by
  obtain ⟨items, hwf, hr⟩ := pieces_are_items (splitOn ',' hdr) (splitOn_parts_no_sep ',' hdr)
  exact ⟨items, hwf, by unfold render; rw [hr, joinComma_splitOn]⟩

/-! ### `urlparse(target).query` on a request target without a raw '#' -/

theorem takeWhile_ne_of_not_mem (c : Char) (s : Str) (h : c ∉ s) : s.takeWhile (· ≠ c) = s := by
  induction s with
  | nil => rfl
  | cons x xs ih =>
    have hx : x ≠ c := by intro e; exact h (by simp [e])
    have hxs : c ∉ xs := by intro e; exact h (by simp [e])
    simpa [hx] using ih hxs

theorem dropWhile_ne_append (c : Char) (a b : Str) (h : c ∉ a) : (a ++ c :: b).dropWhile (· ≠ c) = c :: b := by
  induction a with
  | nil => simp
  | cons x xs ih =>
    have hx : x ≠ c := by intro e; exact h (by simp [e])
    have hxs : c ∉ xs := by intro e; exact h (by simp [e])
    simpa [hx] using ih hxs

/-- `urlparse(path + '?' + q).query == q` PROVIDED the target has no raw '#' (and `path` is the part before the first
'?').  With a raw '#' it is false: `urlparse` cuts the fragment off, wsgiref does not. -/
theorem urlQuery_target (path q : Str) (hp : '?' ∉ path) (hph : '#' ∉ path) (hq : '#' ∉ q) :
    urlQuery (path ++ '?' :: q) = q := by
  unfold urlQuery
  have hall : '#' ∉ path ++ '?' :: q := by
    simp only [List.mem_append, List.mem_cons, not_or]
    exact ⟨hph, by decide, hq⟩
  rw [takeWhile_ne_of_not_mem _ _ hall, dropWhile_ne_append _ _ _ hp]
  rfl

/-! ### lower -/

theorem lowerChar_of_not_special (c : Char) (h1 : c ≠ Char.ofNat 0x130) (h2 : c ≠ Char.ofNat 0x212A) :
    lowerChar c = [foldAscii c] := by
  unfold lowerChar foldAscii
  split
  · rfl
  · rfl

theorem foldAscii_special1 : foldAscii (Char.ofNat 0x130) = Char.ofNat 0x130 := by decide
theorem foldAscii_special2 : foldAscii (Char.ofNat 0x212A) = Char.ofNat 0x212A := by decide

/-- `tok.lower() == lit` ⇔ `tok` equals `lit` up to ASCII case, for every literal made of ASCII characters other than
`k` — over ALL Unicode `tok` (U+212A KELVIN SIGN lower-cases to `k`, U+0130 to `i` + U+0307; neither can produce such a
literal). -/
theorem lower_eq_iff (lit : Str) (hlit : ∀ x ∈ lit, x.toNat < 128 ∧ x ≠ 'k') (tok : Str) :
    lower tok = lit ↔ tok.map foldAscii = lit := by
  induction tok generalizing lit with
  | nil => simp [lower]
  | cons c t ih =>
    by_cases h1 : c = Char.ofNat 0x130
    · subst h1
      constructor
      · intro h
        have hmem : Char.ofNat 0x307 ∈ lit := by rw [← h]; simp [lower, lowerChar]
        have := (hlit _ hmem).1
        exact absurd this (by decide)
      · intro h
        have hmem : Char.ofNat 0x130 ∈ lit := by rw [← h]; simp [foldAscii_special1]
        have := (hlit _ hmem).1
        exact absurd this (by decide)
    · by_cases h2 : c = Char.ofNat 0x212A
      · subst h2
        constructor
        · intro h
          have hmem : 'k' ∈ lit := by rw [← h]; simp [lower, lowerChar]
          exact absurd rfl (hlit _ hmem).2
        · intro h
          have hmem : Char.ofNat 0x212A ∈ lit := by rw [← h]; simp [foldAscii_special2]
          have := (hlit _ hmem).1
          exact absurd this (by decide)
      · have hl : lower (c :: t) = foldAscii c :: lower t := by
          simp [lower, lowerChar_of_not_special c h1 h2]
        rw [hl, List.map_cons]
        cases lit with
        | nil => simp
        | cons y ys =>
          have := ih ys (fun x hx => hlit x (by simp [hx]))
          simp only [List.cons.injEq, lower] at this ⊢
          rw [this]

end PromVerif.Lemmas.Http
