/-
Lemmas/ConcIter — "dictionary changed size during iteration" is unreachable when every write to `x` and every iteration
over `x` happens inside the guard `g` (iterations over a private copy are not iterations over `x` at all).
-/
import PromVerif.Lemmas.ConcStep

set_option linter.unusedSectionVars false

namespace PromVerif.Model.Conc
open PromVerif.Generated.Locks

section
variable {L X U V : Type} [DecidableEq L] [DecidableEq X]

/-- along `pc`, started with `g` held iff `h` and an iteration over `x` open iff `o`: `store x`, `iterBegin x` only with `g`
held, the iteration is closed before `g` is released, `g` is not re-acquired while held -/
def discIt (g : L) (x : X) : List (Micro L X U) → Bool → Bool → Bool
  | [], _, _ => true
  | .acquire l :: r, h, o => if l = g then !h && discIt g x r true o else discIt g x r h o
  | .release l :: r, h, o => if l = g then h && !o && discIt g x r false false else discIt g x r h o
  | .load _ :: r, h, o => discIt g x r h o
  | .store y _ :: r, h, o => if y = x then h && discIt g x r h o else discIt g x r h o
  | .iterBegin y :: r, h, o => if y = x then h && !o && discIt g x r h true else discIt g x r h o
  | .iterEnd y :: r, h, o => if y = x then o && discIt g x r h false else discIt g x r h o
  | .call _ _ :: r, h, o => discIt g x r h o
  | .yield :: r, h, o => discIt g x r h o

structure IterInv (g : L) (x : X) (s : St L X U V) : Prop where
  thr : ∀ i t, s.threads[i]? = some t →
    discIt g x t.pc (decide (s.owner g = some i)) (decide (i ∈ s.iters x)) = true
  its : ∀ j ∈ s.iters x, s.owner g = some j
  nd : (s.iters x).Nodup
  noerr : s.err x = false

theorem iterInv_init {g : L} {x : X} (c0 : X → V) (progs : List (List (Micro L X U)))
    (h : ∀ p ∈ progs, discIt g x p false false = true) : IterInv g x (init c0 progs) := by
  constructor
  · intro i t ht
    simp only [init, List.getElem?_map] at ht
    cases hp : progs[i]? with
    | none => simp [hp] at ht
    | some p =>
      simp [hp] at ht
      subst ht
      simpa [init] using h p (List.mem_of_getElem? hp)
  · intro j hj; simp [init] at hj
  · simp [init]
  · simp [init]

/-- a step that leaves `owner g`, `iters x`, `err x` alone -/
theorem iterInv_local {g : L} {x : X} {s s' : St L X U V} {i : Tid} {t t' : Thread L X U V}
    (inv : IterInv g x s) (ht : s.threads[i]? = some t)
    (ho : s'.owner g = s.owner g) (hi : s'.iters x = s.iters x) (he : s'.err x = s.err x)
    (hthr : s'.threads = s.threads.set i t')
    (hd : ∀ h o, discIt g x t.pc h o = true → discIt g x t'.pc h o = true) : IterInv g x s' := by
  constructor
  · intro j tj hj
    rw [hthr] at hj
    rw [ho, hi]
    rcases getElem?_set_cases hj with ⟨rfl, rfl, _⟩ | ⟨hne, hj'⟩
    · exact hd _ _ (inv.thr _ _ ht)
    · exact inv.thr j tj hj'
  · rw [ho, hi]; exact inv.its
  · rw [hi]; exact inv.nd
  · rw [he]; exact inv.noerr

theorem iterInv_step {g : L} {x : X} {ap : U → V → V → V} {s s' : St L X U V} {i : Tid}
    (inv : IterInv g x s) (h : step ap s i = some s') : IterInv g x s' := by
  obtain ⟨t, m, r, ht, hpc, he⟩ := step_some h
  have hti := inv.thr i t ht
  rw [hpc] at hti
  cases he with
  | acquire l r ho =>
    by_cases hlg : l = g
    · subst hlg
      have hempty : ∀ j, j ∉ s.iters x := fun j hj => by have := inv.its j hj; rw [ho] at this; cases this
      simp [discIt, ho] at hti
      constructor
      · intro j tj hj
        simp only at hj
        simp only [upd_same]
        rcases getElem?_set_cases hj with ⟨rfl, rfl, _⟩ | ⟨hne, hj'⟩
        · simpa using hti
        · have := inv.thr j tj hj'
          rw [ho] at this
          have hne' : ¬ (i = j) := fun e => hne e.symm
          simpa [hne'] using this
      · intro j hj; exact absurd hj (hempty j)
      · exact inv.nd
      · exact inv.noerr
    · refine iterInv_local inv ht (by simp [upd_ne _ _ (Ne.symm hlg)]) rfl rfl rfl ?_
      intro h o d; rw [hpc] at d; simpa [discIt, hlg] using d
  | release l r ho =>
    by_cases hlg : l = g
    · subst hlg
      simp [discIt, ho] at hti
      have hempty : ∀ j, j ∉ s.iters x := fun j hj => by
        have := inv.its j hj; rw [ho] at this
        have e : i = j := Option.some.inj this
        subst e; exact hti.1 hj
      constructor
      · intro j tj hj
        simp only at hj
        simp only [upd_same]
        rcases getElem?_set_cases hj with ⟨rfl, rfl, _⟩ | ⟨hne, hj'⟩
        · simpa [hempty j] using hti.2
        · have := inv.thr j tj hj'
          rw [ho] at this
          have hne' : ¬ (i = j) := fun e => hne e.symm
          simpa [hne'] using this
      · intro j hj; exact absurd hj (hempty j)
      · exact inv.nd
      · exact inv.noerr
    · refine iterInv_local inv ht (by simp [upd_ne _ _ (Ne.symm hlg)]) rfl rfl rfl ?_
      intro h o d; rw [hpc] at d; simpa [discIt, hlg] using d
  | load y r =>
    refine iterInv_local inv ht rfl rfl rfl rfl ?_
    intro h o d; rw [hpc] at d; simpa [discIt] using d
  | store y u r =>
    by_cases hyx : y = x
    · subst hyx
      simp [discIt] at hti
      constructor
      · intro j tj hj
        simp only at hj
        rcases getElem?_set_cases hj with ⟨rfl, rfl, _⟩ | ⟨hne, hj'⟩
        · simpa [hti.1] using hti.2
        · exact inv.thr j tj hj'
      · exact inv.its
      · exact inv.nd
      · simp only [upd_same, inv.noerr, Bool.false_or, List.any_eq_false, decide_eq_true_eq, Decidable.not_not]
        intro j hj
        have := inv.its j hj
        rw [hti.1] at this
        exact (Option.some.inj this).symm
    · refine iterInv_local inv ht rfl rfl (by simp [upd_ne _ _ (Ne.symm hyx)]) rfl ?_
      intro h o d; rw [hpc] at d; simpa [discIt, hyx] using d
  | iterBegin y r =>
    by_cases hyx : y = x
    · subst hyx
      simp [discIt] at hti
      obtain ⟨⟨h1, h2⟩, h3⟩ := hti
      constructor
      · intro j tj hj
        simp only at hj
        simp only [upd_same]
        rcases getElem?_set_cases hj with ⟨rfl, rfl, _⟩ | ⟨hne, hj'⟩
        · simpa [h1] using h3
        · have := inv.thr j tj hj'
          simpa [hne] using this
      · intro j hj
        simp only [upd_same, List.mem_cons] at hj
        rcases hj with rfl | hj
        · exact h1
        · exact inv.its j hj
      · simp only [upd_same]; exact List.nodup_cons.mpr ⟨h2, inv.nd⟩
      · exact inv.noerr
    · refine iterInv_local inv ht rfl (by simp [upd_ne _ _ (Ne.symm hyx)]) rfl rfl ?_
      intro h o d; rw [hpc] at d; simpa [discIt, hyx] using d
  | iterEnd y r =>
    by_cases hyx : y = x
    · subst hyx
      simp [discIt] at hti
      constructor
      · intro j tj hj
        simp only at hj
        simp only [upd_same]
        rcases getElem?_set_cases hj with ⟨rfl, rfl, _⟩ | ⟨hne, hj'⟩
        · simpa [inv.nd.mem_erase_iff] using hti.2
        · have := inv.thr j tj hj'
          simpa [inv.nd.mem_erase_iff, hne] using this
      · intro j hj
        simp only [upd_same] at hj
        exact inv.its j (List.mem_of_mem_erase hj)
      · simp only [upd_same]; exact inv.nd.erase _
      · exact inv.noerr
    · refine iterInv_local inv ht rfl (by simp [upd_ne _ _ (Ne.symm hyx)]) rfl rfl ?_
      intro h o d; rw [hpc] at d; simpa [discIt, hyx] using d
  | call b c r =>
    refine iterInv_local inv ht rfl rfl rfl rfl ?_
    intro h o d; rw [hpc] at d; simpa [discIt] using d
  | yield r =>
    refine iterInv_local inv ht rfl rfl rfl rfl ?_
    intro h o d; rw [hpc] at d; simpa [discIt] using d

theorem iterInv_run {g : L} {x : X} {ap : U → V → V → V} (c0 : X → V) (progs : List (List (Micro L X U)))
    (h : ∀ p ∈ progs, discIt g x p false false = true) (sched : List Tid) :
    IterInv g x (run ap (init c0 progs) sched) :=
  run_induction _ (fun _ _ _ inv hs => iterInv_step inv hs) sched _ (iterInv_init c0 progs h)

end
end PromVerif.Model.Conc
