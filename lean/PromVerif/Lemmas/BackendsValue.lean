/-
C12: what the collector's spec (`Spec.Multiprocess.value`, which C08 proves the collector model computes) reports for
the family of ONE metric of a single-process directory: child by child, the series `mpChild` lists —
  counter / summary cells and the histogram `_sum` cell as `0.0 + value`, gauges per mode, histogram buckets cumulated
  from the stored non-cumulative counts with `_count` their total.
-/
import PromVerif.Lemmas.BackendsFamily

namespace PromVerif.Lemmas.Backends
open PromVerif.Py PromVerif.Generated.Multiprocess
open PromVerif.Model.Metrics (Val Decl Kind Child Action)
open PromVerif.Model.Multiprocess
open PromVerif.Model.Values
open PromVerif.Model.Backends
open PromVerif.Spec.Metrics (Hist)
open PromVerif.Spec.Multiprocess
set_option autoImplicit false
set_option linter.unusedSectionVars false

variable {V : Type} [Val V] {B : Type} [DecidableEq B]

/-- the series of the cells of one child with their `(sample name, labels)` key, values through `f` -/
def plainSeries (f : V × V → V) (d : MDecl V) (pid : Str) (disk : List (Str × Store V)) (key : List Str) : List (SKey × V) :=
  (cellParams d key).map (fun p => (((mmapKey p).name, (mmapKey p).labels), f (cv pid disk p)))

/-- what the collector must report for one child of metric `d`, from the entries of the child's value objects -/
def mpChild (bo : BOps B) (Bs : List B) (d : MDecl V) (pid : Str) (disk : List (Str × Store V))
    (ka : List Str × List (Action V)) : List (SKey × V) :=
  match d.decl.kind with
  | .histogram _ =>
    ((d.decl.name ++ sSum, plainLabels d ka.1),
        (voOf V).add (voOf V).zero (cv pid disk (plainParam d sHistogram sSum [] ka.1)).1) ::
      childSeries (voOf V) bo Bs (fun ka => plainLabels d ka.1) (bucketVals bo d pid disk Bs) d.decl.name ka
  | .gauge =>
    match kindOf gaugeType d.mode with
    | .gaugeAll => (cellParams d ka.1).map (fun p =>
        (((mmapKey p).name, (mmapKey p).labels ++ [("pid".toList, pid)]), (cv pid disk p).1))
    | .gaugeSum => plainSeries (fun x => (voOf V).add (voOf V).zero x.1) d pid disk ka.1
    | .gaugeMostRecent => (cellParams d ka.1).filterMap (fun p =>
        if (voOf V).lt (voOf V).zero (normTs (voOf V) (cv pid disk p).2) = true
        then some (((mmapKey p).name, (mmapKey p).labels), (cv pid disk p).1) else none)
    | _ => plainSeries (fun x => x.1) d pid disk ka.1
  | _ => plainSeries (fun x => (voOf V).add (voOf V).zero x.1) d pid disk ka.1

theorem mem_expContribs (d : MDecl V) (pid : Str) (disk : List (Str × Store V)) (h : Hist V) (c : Contrib V) :
    c ∈ expContribs d pid disk h ↔ ∃ ka ∈ childList d h, ∃ p ∈ cellParams d ka.1, c = contribOf d pid disk p := by
  rw [expContribs_eq, List.mem_flatMap]
  constructor
  · rintro ⟨ka, hka, hc⟩
    obtain ⟨p, hp, rfl⟩ := List.mem_map.mp hc
    exact ⟨ka, hka, p, hp, rfl⟩
  · rintro ⟨ka, hka, p, hp, rfl⟩
    exact ⟨ka, hka, List.mem_map.mpr ⟨p, hp, rfl⟩⟩

theorem cellParams_ne_nil (d : MDecl V) (hs : Supported d) (key : List Str) : cellParams d key ≠ [] := by
  rw [cellParams_eq]
  unfold Supported at hs
  cases hk : d.decl.kind <;> simp only [hk] at hs ⊢ <;> simp

theorem value_of_no_contribs (vo : VOps V) (bo : BOps B) (fs : List (SFile V)) (mn : Str) (k : SKey)
    (h : contribs fs mn = []) : value vo bo fs mn k = none := by
  have h1 : typOf fs mn = [] := by simp [typOf, h]
  have h2 : kindOf (typOf fs mn) (modeOf fs mn) = .plainSum := by
    rw [h1]; exact PromVerif.Props.C08.kind_plain [] _ (by decide) (by decide)
  simp only [value, h2, h, sumValue, valuesFor, List.filter_nil, List.map_nil]

/-- type and mode the spec reads off the contributions -/
theorem typOf_exp (fs : List (SFile V)) (d : MDecl V) (pid : Str) (disk : List (Str × Store V)) (h : Hist V)
    (hcs : contribs fs d.decl.name = expContribs d pid disk h) (hne : expContribs d pid disk h ≠ []) :
    typOf fs d.decl.name = typStr d.decl.kind ∧ modeOf fs d.decl.name = modeOfDecl d := by
  unfold typOf modeOf
  rw [hcs]
  cases he : expContribs d pid disk h with
  | nil => exact absurd he hne
  | cons c cs =>
    have hc : c ∈ expContribs d pid disk h := by rw [he]; exact List.mem_cons_self
    obtain ⟨ka, _, p, _, rfl⟩ := (mem_expContribs d pid disk h c).mp hc
    exact ⟨rfl, rfl⟩

/-- the generic step: a `plainKey`-keyed aggregate with one contribution per series -/
theorem plain_family (f : V × V → V) (d : MDecl V) (pid : Str) (disk : List (Str × Store V)) (h : Hist V) (k : SKey) (v : V) :
    (∃ c ∈ expContribs d pid disk h, plainKey c = k ∧ v = f (c.value, c.ts)) ↔
      ∃ ka ∈ childList d h, (k, v) ∈ plainSeries f d pid disk ka.1 := by
  constructor
  · rintro ⟨c, hc, e, rfl⟩
    obtain ⟨ka, hka, p, hp, rfl⟩ := (mem_expContribs d pid disk h c).mp hc
    exact ⟨ka, hka, List.mem_map.mpr ⟨p, hp, by rw [← e]; rfl⟩⟩
  · rintro ⟨ka, hka, hm⟩
    obtain ⟨p, hp, e⟩ := List.mem_map.mp hm
    refine ⟨contribOf d pid disk p, (mem_expContribs d pid disk h _).mpr ⟨ka, hka, p, hp, rfl⟩, ?_, ?_⟩
    · exact (congrArg Prod.fst e)
    · exact (congrArg Prod.snd e).symm

/-! ### histogram families: the keys of the bucket series -/

theorem nodup_flatMap_of {α β : Type} (f : α → List β) : ∀ (l : List α), l.Nodup → (∀ x ∈ l, (f x).Nodup) →
    (∀ x ∈ l, ∀ y ∈ l, x ≠ y → ∀ a ∈ f x, a ∉ f y) → (l.flatMap f).Nodup
  | [], _, _, _ => by simp
  | x :: xs, hnd, hin, hdis => by
    have hx := List.nodup_cons.mp hnd
    rw [List.flatMap_cons, List.nodup_append]
    refine ⟨hin x List.mem_cons_self,
      nodup_flatMap_of f xs hx.2 (fun y hy => hin y (List.mem_cons_of_mem _ hy))
        (fun y hy z hz => hdis y (List.mem_cons_of_mem _ hy) z (List.mem_cons_of_mem _ hz)), ?_⟩
    intro a ha b hb e
    subst e
    obtain ⟨y, hy, hay⟩ := List.mem_flatMap.mp hb
    exact hdis x List.mem_cons_self y (List.mem_cons_of_mem _ hy) (fun e' => hx.1 (e' ▸ hy)) a ha hay

theorem childSeries_keys (vo : VOps V) (bo : BOps B) (Bs : List B) {X : Type} (L : X → Labels) (bv : X → List V)
    (mn : Str) (x : X) (hlen : (bv x).length = Bs.length) :
    (childSeries vo bo Bs L bv mn x).map (·.1)
      = Bs.map (fun b => (mn ++ "_bucket".toList, L x ++ [("le".toList, bo.fmt b)])) ++ [(mn ++ "_count".toList, L x)] := by
  unfold childSeries
  rw [List.map_append]
  congr 1
  have h1 := cumulate_fst vo vo.zero ((Bs.zip (bv x)).map (fun p => (p.1, vo.add vo.zero p.2)))
  rw [List.map_map] at h1
  have h2 : ((fun x : B × V => x.1) ∘ fun p : B × V => (p.1, vo.add vo.zero p.2)) = (·.1) := rfl
  rw [h2, zip_map_fst_of_length Bs (bv x) hlen] at h1
  have h3 : ∀ l : List (B × V), (l.map (fun bvv => ((mn ++ "_bucket".toList, L x ++ [("le".toList, bo.fmt bvv.1)]), bvv.2))).map (·.1)
      = (l.map (·.1)).map (fun b => (mn ++ "_bucket".toList, L x ++ [("le".toList, bo.fmt b)])) := by
    intro l; rw [List.map_map, List.map_map]; rfl
  rw [h3, h1]

theorem snoc_inj {α : Type} (a b : List α) (x y : α) (h : a ++ [x] = b ++ [y]) : a = b ∧ x = y := by
  have hl : a.length = b.length := by
    have := congrArg List.length h
    simp at this; exact this
  have h1 := List.append_inj_left h hl
  subst h1
  exact ⟨rfl, List.singleton_inj.mp (List.append_cancel_left h)⟩

theorem sfx_ne (mn : Str) : mn ++ "_bucket".toList ≠ mn ++ "_count".toList :=
  fun e => absurd (List.append_cancel_left e) (by decide)

/-- no bucket / `_count` series is reported twice -/
theorem bucketSeries_keys_nodup (vo : VOps V) (bo : BOps B) (Bs : List B) {X : Type} (ch : List X) (L : X → Labels)
    (bv : X → List V) (h : HistIn bo Bs ch L bv) (hfmt : (Bs.map bo.fmt).Nodup) (mn : Str) :
    (AL.keys ((groups (ch.flatMap (bblock Bs L bv))).flatMap
      (groupSeries vo bo mn (ch.flatMap (bblock Bs L bv))))).Nodup := by
  unfold AL.keys
  rw [List.map_flatMap]
  have hgs : ∀ L' ∈ groups (ch.flatMap (bblock Bs L bv)),
      (groupSeries vo bo mn (ch.flatMap (bblock Bs L bv)) L').map (·.1)
        = Bs.map (fun b => (mn ++ "_bucket".toList, L' ++ [("le".toList, bo.fmt b)])) ++ [(mn ++ "_count".toList, L')] := by
    intro L' hL'
    obtain ⟨x, hx, rfl⟩ := (mem_groups_blocks bo Bs ch L bv h L').mp hL'
    rw [groupSeries_block vo bo Bs ch L bv h mn x hx]
    exact childSeries_keys vo bo Bs L bv mn x (h.hlen x hx)
  apply nodup_flatMap_of _ _ (nodup_distinct _)
  · intro L' hL'
    rw [hgs L' hL', List.nodup_append]
    refine ⟨?_, by simp, ?_⟩
    · apply nodup_map_of_injOn _ _ h.hB
      intro a ha b hb e
      simp only [Prod.mk.injEq, true_and] at e
      have := (snoc_inj _ _ _ _ e).2
      simp only [Prod.mk.injEq, true_and] at this
      -- `fmt` is injective on the declared bounds
      have hinj : ∀ (l : List B), (l.map bo.fmt).Nodup → ∀ a ∈ l, ∀ b ∈ l, bo.fmt a = bo.fmt b → a = b := by
        intro l hl
        induction l with
        | nil => intro a ha; cases ha
        | cons z zs ih =>
          simp only [List.map_cons, List.nodup_cons] at hl
          intro a ha b hb e
          rcases List.mem_cons.mp ha with ha1 | ha1 <;> rcases List.mem_cons.mp hb with hb1 | hb1
          · rw [ha1, hb1]
          · subst ha1; exact absurd (e ▸ List.mem_map.mpr ⟨b, hb1, rfl⟩) hl.1
          · subst hb1; exact absurd (e ▸ List.mem_map.mpr ⟨a, ha1, rfl⟩) hl.1
          · exact ih hl.2 a ha1 b hb1 e
      exact hinj Bs hfmt a ha b hb this
    · intro a ha b hb e
      simp only [List.mem_singleton] at hb
      subst hb; subst e
      obtain ⟨b', _, e'⟩ := List.mem_map.mp ha
      exact sfx_ne mn (congrArg Prod.fst e')
  · intro L1 h1 L2 h2 hne a ha ha2
    rw [hgs L1 h1] at ha
    rw [hgs L2 h2] at ha2
    rcases List.mem_append.mp ha with ha | ha <;> rcases List.mem_append.mp ha2 with ha2 | ha2
    · obtain ⟨b1, _, rfl⟩ := List.mem_map.mp ha
      obtain ⟨b2, _, e⟩ := List.mem_map.mp ha2
      simp only [Prod.mk.injEq, true_and] at e
      exact hne (snoc_inj _ _ _ _ e).1.symm
    · obtain ⟨b1, _, rfl⟩ := List.mem_map.mp ha
      simp only [List.mem_singleton, Prod.mk.injEq] at ha2
      exact sfx_ne mn ha2.1
    · obtain ⟨b2, _, e⟩ := List.mem_map.mp ha2
      simp only [List.mem_singleton] at ha
      subst ha
      simp only [Prod.mk.injEq] at e
      exact sfx_ne mn e.1
    · simp only [List.mem_singleton] at ha ha2
      subst ha
      simp only [Prod.mk.injEq, true_and] at ha2
      exact hne ha2

/-! ### the family of one metric -/

/-- what the constructors and the property's preconditions guarantee about one declaration, collector side included -/
structure WFDeclB (bo : BOps B) (Bs : List B) (d : MDecl V) : Prop where
  wf : WFDecl d
  mode : isGauge d = true → d.mode ∈ gaugeModes
  bounds : BoundsOK bo d Bs
  bne : (∃ bs, d.decl.kind = Kind.histogram bs) → Bs ≠ []

theorem gauge_params (d : MDecl V) (hk : d.decl.kind = Kind.gauge) (key : List Str) :
    cellParams d key = [plainParam d sGauge [] d.mode key] := by
  rw [cellParams_eq]; simp only [hk]

theorem typ_counter_ne : (typStr (Kind.counter : Kind V)) ≠ gaugeType ∧ (typStr (Kind.counter : Kind V)) ≠ histogramType := by
  show "counter".toList ≠ gaugeType ∧ "counter".toList ≠ histogramType
  exact ⟨by decide, by decide⟩

theorem typ_summary_ne : (typStr (Kind.summary : Kind V)) ≠ gaugeType ∧ (typStr (Kind.summary : Kind V)) ≠ histogramType := by
  show "summary".toList ≠ gaugeType ∧ "summary".toList ≠ histogramType
  exact ⟨by decide, by decide⟩

theorem value_plain (vo : VOps V) (bo : BOps B) (fs : List (SFile V)) (mn : Str) (k : SKey)
    (h : kindOf (typOf fs mn) (modeOf fs mn) = .plainSum) : value vo bo fs mn k = sumValue vo (contribs fs mn) k := by
  unfold value; simp only [h]

theorem value_hist (vo : VOps V) (bo : BOps B) (fs : List (SFile V)) (mn : Str) (k : SKey)
    (h : kindOf (typOf fs mn) (modeOf fs mn) = .histogram) : value vo bo fs mn k = histValue vo bo mn (contribs fs mn) k := by
  unfold value; simp only [h]

theorem value_gauge (vo : VOps V) (bo : BOps B) (fs : List (SFile V)) (mn : Str) (k : SKey) (kd : Spec.Multiprocess.Kind)
    (h : kindOf (typOf fs mn) (modeOf fs mn) = kd) (h1 : kd ≠ .plainSum) (h2 : kd ≠ .histogram) :
    value vo bo fs mn k = gaugeValue vo kd (contribs fs mn) k := by
  subst h
  unfold value
  cases hk : kindOf (typOf fs mn) (modeOf fs mn) <;> simp_all

theorem histValue_iff (vo : VOps V) (bo : BOps B) (mn : Str) (cs : List (Contrib V)) (k : SKey) (v : V)
    (hnd : (AL.keys (bucketSeries vo bo mn cs)).Nodup) :
    histValue vo bo mn cs k = some v ↔
      (k, v) ∈ bucketSeries vo bo mn cs ∨ (k ∉ AL.keys (bucketSeries vo bo mn cs) ∧ sumValue vo (plainContribs cs) k = some v) := by
  unfold histValue
  cases hg : AL.get? (bucketSeries vo bo mn cs) k with
  | some w =>
    simp only [Option.some.injEq]
    constructor
    · intro e; subst e; exact Or.inl (AL.mem_of_get? _ k w hg)
    · rintro (hm | ⟨hn, _⟩)
      · have := AL.get?_of_mem _ hnd k v hm
        rw [hg] at this; exact Option.some.inj this
      · exact absurd ((AL.get?_isSome_iff _ k).mp (by rw [hg]; rfl)) hn
  | none =>
    have hn := (AL.get?_eq_none_iff _ k).mp hg
    simp only
    constructor
    · intro e; exact Or.inr ⟨hn, e⟩
    · rintro (hm | ⟨_, e⟩)
      · exact absurd (List.mem_map.mpr ⟨(k, v), hm, rfl⟩) hn
      · exact e

theorem sum_name_ne (mn : Str) : mn ++ sSum ≠ mn ++ "_bucket".toList ∧ mn ++ sSum ≠ mn ++ "_count".toList :=
  ⟨fun e => absurd (List.append_cancel_left e) (by decide), fun e => absurd (List.append_cancel_left e) (by decide)⟩

/-- **the collector on one process's files, one family**: its series are, child by child, `mpChild` -/
theorem family_value (bo : BOps B) (Bs : List B) (d : MDecl V) (hw : WFDeclB bo Bs d) (fs : List (SFile V)) (pid : Str)
    (disk : List (Str × Store V)) (h : Hist V) (hcs : contribs fs d.decl.name = expContribs d pid disk h)
    (hnd : ((childList d h).map (·.1)).Nodup) (hlen : ∀ ka ∈ childList d h, ka.1.length = d.decl.labelnames.length)
    (k : SKey) (v : V) :
    value (voOf V) bo fs d.decl.name k = some v ↔ ∃ ka ∈ childList d h, (k, v) ∈ mpChild bo Bs d pid disk ka := by
  by_cases hne : expContribs d pid disk h = []
  · rw [value_of_no_contribs _ bo fs _ k (hcs.trans hne)]
    simp only [reduceCtorEq, false_iff]
    rintro ⟨ka, hka, _⟩
    cases hp : cellParams d ka.1 with
    | nil => exact cellParams_ne_nil d hw.wf.sup ka.1 hp
    | cons p ps =>
      have : contribOf d pid disk p ∈ expContribs d pid disk h :=
        (mem_expContribs d pid disk h _).mpr ⟨ka, hka, p, by rw [hp]; exact List.mem_cons_self, rfl⟩
      rw [hne] at this; cases this
  · obtain ⟨htyp, hmod⟩ := typOf_exp fs d pid disk h hcs hne
    have hpk := plainKeys_nodup d hw.wf pid disk h hnd hlen
    cases hk : d.decl.kind with
    | info => exact absurd hw.wf.sup (by simp [Supported, hk])
    | enum s => exact absurd hw.wf.sup (by simp [Supported, hk])
    | counter =>
      rw [value_plain _ _ _ _ _ (by rw [htyp, hk]; exact PromVerif.Props.C08.kind_plain _ _ typ_counter_ne.1 typ_counter_ne.2),
        hcs, sumValue_single _ _ hpk]
      have := plain_family (fun x => (voOf V).add (voOf V).zero x.1) d pid disk h k v
      simp only [mpChild, hk]
      exact this
    | summary =>
      rw [value_plain _ _ _ _ _ (by rw [htyp, hk]; exact PromVerif.Props.C08.kind_plain _ _ typ_summary_ne.1 typ_summary_ne.2),
        hcs, sumValue_single _ _ hpk]
      have := plain_family (fun x => (voOf V).add (voOf V).zero x.1) d pid disk h k v
      simp only [mpChild, hk]
      exact this
    | gauge =>
      have hg : isGauge d = true := by simp [isGauge, hk]
      have hmd : modeOfDecl d = d.mode := by simp [modeOfDecl, hg]
      have htg : typStr (Kind.gauge : Kind V) = gaugeType := rfl
      have hkind : kindOf (typOf fs d.decl.name) (modeOf fs d.decl.name) = kindOf gaugeType d.mode := by
        rw [htyp, hmod, hmd, hk, htg]
      have hmp : ∀ ka : List Str × List (Action V), mpChild bo Bs d pid disk ka
          = (match kindOf gaugeType d.mode with
            | .gaugeAll => (cellParams d ka.1).map (fun p =>
                (((mmapKey p).name, (mmapKey p).labels ++ [("pid".toList, pid)]), (cv pid disk p).1))
            | .gaugeSum => plainSeries (fun x => (voOf V).add (voOf V).zero x.1) d pid disk ka.1
            | .gaugeMostRecent => (cellParams d ka.1).filterMap (fun p =>
                if (voOf V).lt (voOf V).zero (normTs (voOf V) (cv pid disk p).2) = true
                then some (((mmapKey p).name, (mmapKey p).labels), (cv pid disk p).1) else none)
            | _ => plainSeries (fun x => x.1) d pid disk ka.1) := by
        intro ka; simp only [mpChild, hk]
      simp only [hmp]
      rcases rule_kind d.mode (hw.mode hg) with ⟨_, hkd⟩ | ⟨_, hkd⟩ | ⟨_, hkd⟩ | ⟨_, hkd⟩ | ⟨_, hkd⟩ <;>
        rw [value_gauge _ bo fs _ k _ (hkind.trans hkd) (by simp) (by simp), hcs, hkd] <;> simp only
      · show aggPick _ (valuesFor plainKey _ k) = some v ↔ _
        rw [pick_single _ _ hpk]
        exact plain_family (fun x => x.1) d pid disk h k v
      · show aggPick _ (valuesFor plainKey _ k) = some v ↔ _
        rw [pick_single _ _ hpk]
        exact plain_family (fun x => x.1) d pid disk h k v
      · show sumValue _ _ k = some v ↔ _
        rw [sumValue_single _ _ hpk]
        exact plain_family (fun x => (voOf V).add (voOf V).zero x.1) d pid disk h k v
      · rw [mostRecent_single _ _ hpk]
        constructor
        · rintro ⟨c, hc, e, rfl, hl⟩
          obtain ⟨ka, hka, p, hp, rfl⟩ := (mem_expContribs d pid disk h c).mp hc
          refine ⟨ka, hka, List.mem_filterMap.mpr ⟨p, hp, ?_⟩⟩
          have hl' : (voOf V).lt (voOf V).zero (normTs (voOf V) (cv pid disk p).2) = true := hl
          rw [if_pos hl', ← e]
          rfl
        · rintro ⟨ka, hka, hm⟩
          obtain ⟨p, hp, e⟩ := List.mem_filterMap.mp hm
          by_cases hl : (voOf V).lt (voOf V).zero (normTs (voOf V) (cv pid disk p).2) = true
          · rw [if_pos hl] at e
            simp only [Option.some.injEq, Prod.mk.injEq] at e
            exact ⟨contribOf d pid disk p, (mem_expContribs d pid disk h _).mpr ⟨ka, hka, p, hp, rfl⟩, e.1, e.2.symm, hl⟩
          · rw [if_neg hl] at e; cases e
      · rw [all_single _ _ (pidKeys_nodup d hw.wf pid disk h hnd hlen)]
        constructor
        · rintro ⟨c, hc, e, rfl⟩
          obtain ⟨ka, hka, p, hp, rfl⟩ := (mem_expContribs d pid disk h c).mp hc
          exact ⟨ka, hka, List.mem_map.mpr ⟨p, hp, by rw [← e]; rfl⟩⟩
        · rintro ⟨ka, hka, hm⟩
          obtain ⟨p, hp, e⟩ := List.mem_map.mp hm
          simp only [Prod.mk.injEq] at e
          exact ⟨contribOf d pid disk p, (mem_expContribs d pid disk h _).mpr ⟨ka, hka, p, hp, rfl⟩, e.1, e.2.symm⟩
    | histogram bs =>
      have hth : typStr (Kind.histogram bs : Kind V) = histogramType := rfl
      rw [value_hist _ _ _ _ _ (by rw [htyp, hk, hth]; exact PromVerif.Props.C08.kind_hist _), hcs]
      have hbs : bucketSeries (voOf V) bo d.decl.name (expContribs d pid disk h)
          = (groups ((childList d h).flatMap (bblock Bs (fun ka => plainLabels d ka.1) (bucketVals bo d pid disk Bs)))).flatMap
              (groupSeries (voOf V) bo d.decl.name
                ((childList d h).flatMap (bblock Bs (fun ka => plainLabels d ka.1) (bucketVals bo d pid disk Bs)))) := by
        unfold bucketSeries
        simp only
        rw [bucketContribs_hist bo d hw.wf pid disk h bs hk Bs hw.bounds hlen]
      -- the blocks
      have hin : HistIn bo Bs (childList d h) (fun ka => plainLabels d ka.1) (bucketVals bo d pid disk Bs) := by
        refine ⟨?_, hw.bounds.nodup, hw.bounds.sorted, fun ka _ => by simp [bucketVals], hw.bne ⟨bs, hk⟩⟩
        apply nodup_map_of_injOn _ _ (nodup_of_nodup_map _ _ hnd)
        intro a ha b hb e
        have := sorted_zip_inj _ _ _ hw.wf.lnNodup (hlen a ha) (hlen b hb) e
        exact mem_of_key_nodup _ hnd a b ha hb this
      have hfmt : (Bs.map bo.fmt).Nodup := by rw [← hw.bounds.texts]; exact hw.wf.leNodup
      rw [histValue_iff _ _ _ _ _ _ (by rw [hbs]; exact bucketSeries_keys_nodup (voOf V) bo Bs _ _ _ hin hfmt d.decl.name),
        hbs, mem_bucketSeries_blocks (voOf V) bo Bs _ _ _ hin d.decl.name]
      have hpc := plainContribs_hist d hw.wf pid disk h bs hk hlen
      have hpk' : ((plainContribs (expContribs d pid disk h)).map plainKey).Nodup := by
        unfold plainContribs
        exact (List.filter_sublist.map plainKey).nodup hpk
      rw [sumValue_single _ _ hpk', hpc]
      simp only [mpChild, hk, List.mem_cons]
      constructor
      · rintro (⟨ka, hka, hm⟩ | ⟨_, c, hc, e, rfl⟩)
        · exact ⟨ka, hka, Or.inr hm⟩
        · obtain ⟨ka, hka, rfl⟩ := List.mem_map.mp hc
          refine ⟨ka, hka, Or.inl ?_⟩
          rw [← e]
          simp only [plainKey, contribOf, Prod.mk.injEq, and_true]
          exact ⟨rfl, plain_labels d hw.wf _ _ _ _⟩
      · rintro ⟨ka, hka, hm | hm⟩
        · right
          simp only [Prod.mk.injEq] at hm
          refine ⟨?_, contribOf d pid disk (plainParam d sHistogram sSum [] ka.1), List.mem_map.mpr ⟨ka, hka, rfl⟩, ?_, hm.2⟩
          · intro hkeys
            obtain ⟨kv, hkv, e⟩ := List.mem_map.mp hkeys
            obtain ⟨ka', hka', hkv'⟩ := (mem_bucketSeries_blocks (voOf V) bo Bs _ _ _ hin d.decl.name kv).mp hkv
            have : kv.1 ∈ (childSeries (voOf V) bo Bs (fun ka => plainLabels d ka.1) (bucketVals bo d pid disk Bs)
                d.decl.name ka').map (·.1) := List.mem_map.mpr ⟨kv, hkv', rfl⟩
            rw [childSeries_keys _ _ _ _ _ _ _ (hin.hlen ka' hka'), e, hm.1] at this
            rcases List.mem_append.mp this with hx | hx
            · obtain ⟨b, _, eb⟩ := List.mem_map.mp hx
              exact (sum_name_ne d.decl.name).1 (congrArg Prod.fst eb).symm
            · simp only [List.mem_singleton, Prod.mk.injEq] at hx
              exact (sum_name_ne d.decl.name).2 hx.1
          · rw [hm.1]
            simp only [plainKey, contribOf, Prod.mk.injEq]
            exact ⟨rfl, plain_labels d hw.wf _ _ _ _⟩
        · exact Or.inl ⟨ka, hka, hm⟩

end PromVerif.Lemmas.Backends
