/-
C10/C11: the entry-list view of a store file (header + encoded entries + tail), layout arithmetic for every key length,
and the ties of the natural-number padding to the two generated source expressions.
-/
import PromVerif.Lemmas.MmapBytes
namespace PromVerif.Lemmas.Mmap
open PromVerif.Py PromVerif.Model.MmapDict PromVerif.Generated.Mmap

/-! ## the entry-list view of a file -/

structure Entry where
  key : Key
  v : UInt64
  t : UInt64

/-- encoded key length -/
def klen (k : Key) : Nat := (encodeKey k).length

/-- pad bytes after a key of `n` encoded bytes (natural-number form of both source expressions) -/
def padLen (n : Nat) : Nat := 8 - (n + 4) % 8

def encEntry (e : Entry) : Bytes :=
  le 4 (klen e.key) ++ (encodeKey e.key ++ (List.replicate (padLen (klen e.key)) 32 ++ (le64 e.v ++ le64 e.t)))

def entryLen (k : Key) : Nat := 4 + klen k + padLen (klen k) + 16

def encEntries (es : List Entry) : Bytes := es.flatMap encEntry

/-- what the scan yields from offset `pos` -/
def scanOut (pos : Nat) : List Entry → List Item
  | [] => []
  | e :: es => (e.key, e.v, e.t, pos + 4 + klen e.key + padLen (klen e.key)) :: scanOut (pos + entryLen e.key) es

/-! ### ties to the generated arithmetic (re-proved against the source on every run) -/

theorem paddedLenReader_eq (n : Nat) : paddedLenReader n = n + padLen n := by
  unfold paddedLenReader padLen; omega

theorem padCountWriter_eq (n : Nat) : padCountWriter n = padLen n := by
  unfold padCountWriter padLen; omega

/-- every residue of the key length: an entry is a multiple of 8 bytes long, the key field is strictly padded -/
theorem layout (n : Nat) : (4 + n + padLen n) % 8 = 0 ∧ 1 ≤ padLen n ∧ padLen n ≤ 8 := by
  unfold padLen; omega

theorem entryLen_mod (k : Key) : entryLen k % 8 = 0 := by
  unfold entryLen; have := layout (klen k); omega

@[simp] theorem encEntry_length (e : Entry) : (encEntry e).length = entryLen e.key := by
  simp [encEntry, entryLen, klen]; omega

@[simp] theorem encEntries_nil : encEntries [] = [] := rfl
@[simp] theorem encEntries_cons (e : Entry) (es : List Entry) : encEntries (e :: es) = encEntry e ++ encEntries es := by
  simp [encEntries]
@[simp] theorem encEntries_append (a b : List Entry) : encEntries (a ++ b) = encEntries a ++ encEntries b := by
  simp [encEntries]

theorem entryLen_pos (k : Key) : 24 ≤ entryLen k := by
  unfold entryLen; have := layout (klen k); omega

theorem length_le_encEntries (es : List Entry) : 24 * es.length ≤ (encEntries es).length := by
  induction es with
  | nil => simp
  | cons e es ih => simp; have := entryLen_pos e.key; omega

theorem decode_encode (k : Key) : decodeKey (encodeKey k) = .ok k := by
  unfold decodeKey encodeKey
  have e : ∀ b : ByteArray, ByteArray.mk b.data = b := fun _ => rfl
  simp only [String.toByteArray_ofList, Array.toArray_toList, e, List.utf8Decode?_utf8Encode]

/-- `struct.pack('i{n}sdd', …)` of a fresh key is the encoded entry at (0, 0) -/
theorem entryBytes_eq (k : Key) (h : klen k < 2147483648) : entryBytes k = .ok (encEntry ⟨k, 0, 0⟩) := by
  unfold entryBytes
  have h' : (encodeKey k).length < 2147483648 := h
  have hz : (8 - (4 + ((encodeKey k).length + padLen (encodeKey k).length)) % 8) % 8 = 0 := by
    have := layout (encodeKey k).length
    omega
  simp [h', padCountWriter_eq, hz, encEntry, klen, zeros, intWidth, padByte, le64, entryPacksDoubles]

end PromVerif.Lemmas.Mmap
