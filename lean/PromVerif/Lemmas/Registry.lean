/-
Lemmas about the registry operations: what each does to the two maps, and preservation of `Inv`.
-/
import PromVerif.Spec.Registry
import PromVerif.Lemmas.RegistryDict

namespace PromVerif.Model.Registry
open PromVerif.Py PromVerif.Spec.Registry

/-! ### the code has the reference shape

`Model/Registry.lean` consults the decision structure extracted from registry.py (`Generated/Registry.lean`).  Each lemma
below states that, with the flags as extracted, a model function IS its reference body; the flags enter by `decide`, so
on a tree whose `register` / `set_target_info` / … has another (recognised) shape the lemma — and with it every theorem of
C06/C07 about that function, all of which go through these lemmas — stops checking. -/

open PromVerif.Generated.Registry in
/-- all decision-structure flags have the reference value -/
theorem registry_shape_ok :
    registerChecksAllBeforeStore = true ∧ setTargetInfoStoresAfterCheck = true ∧
    setTargetInfoClashNegatesPrevious = true ∧ setTargetInfoClashIsConjunction = true ∧
    setTargetInfoClearsOnlyWhenPreviouslySet = true ∧ unregisterTakesRecordedNames = true ∧
    unregisterDeletesEachName = true ∧ collectSnapshotsUnderLock = true ∧ collectTargetInfoFirst = true ∧
    getNamesAutoDescribeFallback = true ∧ restrictedResolvesUnderLock = true ∧ restrictedCollectorsIsSet = true ∧
    restrictedTargetInfoNeedsRequested = true ∧ restrictedTargetInfoNeedsConfigured = true ∧
    restrictedFiltersAndDropsEmpty = true := by decide

/-- `_get_names` chooses `describe`, else `collect` under auto-describe (T1 `getNamesAutoDescribeFallback`) -/
theorem getNames_eq (ad : Bool) (c : Collector) :
    getNames ad c = namesOfDescribed (described ad c) := by
  have hf : PromVerif.Generated.Registry.getNamesAutoDescribeFallback = true := by decide
  unfold getNames
  simp only [hf, Bool.and_true]

/-- `register` tests ALL names, raises before any store, then stores (T1 `registerChecksAllBeforeStore`) -/
theorem register_eq (s : State) (c : Collector) : register s c = registerAtomic s c := by
  have hf : PromVerif.Generated.Registry.registerChecksAllBeforeStore = true := by decide
  simp only [register, hf, if_true]

/-- `unregister` releases the names recorded for the collector (T1 `unregisterTakesRecordedNames`,
`unregisterDeletesEachName`) -/
theorem unregister_eq (s : State) (c : Collector) :
    unregister s c = unregisterOf (dGet c s.collectorToNames) s c := by
  have hf : PromVerif.Generated.Registry.unregisterTakesRecordedNames = true := by decide
  have _hd : PromVerif.Generated.Registry.unregisterDeletesEachName = true := by decide
  simp only [unregister, releasedNames, hf, if_true]

/-- `set_target_info`: clash test `not previous and claimed`, raise BEFORE `_target_info` is assigned, pop only when
target info was configured (T1 `setTargetInfoStoresAfterCheck`, `…ClashNegatesPrevious`, `…ClashIsConjunction`,
`…ClearsOnlyWhenPreviouslySet`) -/
theorem setTargetInfo_eq (s : State) (labels : Option Labels) :
    setTargetInfo s labels =
      if truthy labels then
        if !truthy s.targetInfo && dHas tiName s.namesToCollectors then (s, some .valueError)
        else ({ s with namesToCollectors := dSet tiName .empty s.namesToCollectors, targetInfo := labels }, none)
      else if truthy s.targetInfo then
        ({ s with namesToCollectors := dDel tiName s.namesToCollectors, targetInfo := labels }, none)
      else ({ s with targetInfo := labels }, none) := by
  have h1 : PromVerif.Generated.Registry.setTargetInfoStoresAfterCheck = true := by decide
  have h2 : PromVerif.Generated.Registry.setTargetInfoClashNegatesPrevious = true := by decide
  have h3 : PromVerif.Generated.Registry.setTargetInfoClashIsConjunction = true := by decide
  have h4 : PromVerif.Generated.Registry.setTargetInfoClearsOnlyWhenPreviouslySet = true := by decide
  simp only [setTargetInfo, setTargetInfoWith, tiClashTest, h1, h2, h3, h4, if_true, Bool.not_true, Bool.or_false]

/-- `collect`: target info first, then the collectors in dict order (T1 `collectTargetInfoFirst`) -/
theorem collect_eq (s : State) :
    collect s = { families := tiFamily s.targetInfo ++ s.collectorToNames.flatMap (fun e => e.1.families)
                  calls := s.collectorToNames.map (fun e => Owner.coll e.1) } := by
  have hf : PromVerif.Generated.Registry.collectTargetInfoFirst = true := by decide
  have _hl : PromVerif.Generated.Registry.collectSnapshotsUnderLock = true := by decide
  simp only [collect, hf, if_true]

/-- `RestrictedRegistry.collect` gathers the resolved collectors in a SET (T1 `restrictedCollectorsIsSet`) -/
theorem collAdd_eq (o : Owner) (acc : List Owner) : collAdd o acc = setAdd o acc := by
  have hf : PromVerif.Generated.Registry.restrictedCollectorsIsSet = true := by decide
  simp only [collAdd, hf, if_true]

/-- `RestrictedRegistry.collect`: target info only when requested AND configured (T1
`restrictedTargetInfoNeedsRequested`, `…NeedsConfigured`), names resolved under the lock, every family through
`_restricted_metric`, empty results dropped -/
theorem restrictedCollect_eq (names : List Name) (s : State) :
    restrictedCollect names s =
      { families := (if decide (tiName ∈ names) && truthy s.targetInfo then tiFamily s.targetInfo else []) ++
          (selectCollectors s.namesToCollectors names []).flatMap (fun o => o.families.filterMap (restrictedMetric names))
        calls := selectCollectors s.namesToCollectors names [] } := by
  have h1 : PromVerif.Generated.Registry.restrictedTargetInfoNeedsRequested = true := by decide
  have h2 : PromVerif.Generated.Registry.restrictedTargetInfoNeedsConfigured = true := by decide
  have _h3 : PromVerif.Generated.Registry.restrictedResolvesUnderLock = true := by decide
  have _h4 : PromVerif.Generated.Registry.restrictedFiltersAndDropsEmpty = true := by decide
  simp only [restrictedCollect, h1, h2, Bool.not_true, Bool.or_false]

/-! ### `_get_names` records exactly the claims of the statement, each once -/

theorem suffixesOf_eq (t : MType) : suffixesOf t = suffixes t := by
  cases t <;> decide

theorem mem_appendNew (a n : Name) (r : List Name) : a ∈ appendNew r n ↔ a ∈ r ∨ a = n := by
  unfold appendNew
  split
  · next h =>
    constructor
    · exact Or.inl
    · rintro (h' | rfl) <;> assumption
  · simp

theorem nodup_appendNew {r : List Name} (h : r.Nodup) (n : Name) : (appendNew r n).Nodup := by
  unfold appendNew
  split
  · exact h
  · next hc =>
    rw [List.nodup_append]
    refine ⟨h, by simp, ?_⟩
    intro a ha x hx
    simp at hx; subst hx
    intro e; subst e; exact hc ha

theorem mem_addAll (a : Name) (ns : List Name) : ∀ r : List Name, a ∈ addAll r ns ↔ a ∈ r ∨ a ∈ ns := by
  induction ns with
  | nil => intro r; simp [addAll]
  | cons n ns ih =>
    intro r
    have : addAll r (n :: ns) = addAll (appendNew r n) ns := rfl
    rw [this, ih, mem_appendNew]
    simp only [List.mem_cons]
    constructor
    · rintro ((h | h) | h)
      · exact Or.inl h
      · exact Or.inr (Or.inl h)
      · exact Or.inr (Or.inr h)
    · rintro (h | h | h)
      · exact Or.inl (Or.inl h)
      · exact Or.inl (Or.inr h)
      · exact Or.inr h

theorem nodup_addAll (ns : List Name) : ∀ {r : List Name}, r.Nodup → (addAll r ns).Nodup := by
  induction ns with
  | nil => intro r h; exact h
  | cons n ns ih =>
    intro r h
    have : addAll r (n :: ns) = addAll (appendNew r n) ns := rfl
    rw [this]
    exact ih (nodup_appendNew h n)

theorem familyNames_eq (m : Name × MType) : familyNames m = familyClaims m.1 m.2 := by
  simp [familyNames, familyClaims, suffixesOf_eq]

private theorem mem_foldFamilies (a : Name) (ms : List (Name × MType)) : ∀ r : List Name,
    a ∈ ms.foldl (fun result m => addAll result (familyNames m)) r ↔ a ∈ r ∨ ∃ m, m ∈ ms ∧ a ∈ familyNames m := by
  induction ms with
  | nil => intro r; simp
  | cons m ms ih =>
    intro r
    simp only [List.foldl_cons]
    rw [ih, mem_addAll]
    simp only [List.mem_cons]
    constructor
    · rintro ((h | h) | ⟨m', h1, h2⟩)
      · exact Or.inl h
      · exact Or.inr ⟨m, Or.inl rfl, h⟩
      · exact Or.inr ⟨m', Or.inr h1, h2⟩
    · rintro (h | ⟨m', rfl | h1, h2⟩)
      · exact Or.inl (Or.inl h)
      · exact Or.inl (Or.inr h2)
      · exact Or.inr ⟨m', h1, h2⟩

private theorem nodup_foldFamilies (ms : List (Name × MType)) : ∀ {r : List Name}, r.Nodup →
    (ms.foldl (fun result m => addAll result (familyNames m)) r).Nodup := by
  induction ms with
  | nil => intro r h; exact h
  | cons m ms ih =>
    intro r h
    simp only [List.foldl_cons]
    exact ih (nodup_addAll _ h)

/-- `_get_names` yields exactly the names the statement says the collector claims -/
theorem mem_getNames_iff (ad : Bool) (c : Collector) (n : Name) : n ∈ getNames ad c ↔ n ∈ claims ad c := by
  rw [getNames_eq]
  unfold claims
  cases described ad c with
  | none => simp [namesOfDescribed]
  | some ms =>
    simp only [namesOfDescribed, mem_foldFamilies, List.not_mem_nil, false_or, List.mem_flatMap]
    constructor
    · rintro ⟨m, h1, h2⟩; exact ⟨m, h1, by rw [← familyNames_eq]; exact h2⟩
    · rintro ⟨m, h1, h2⟩; exact ⟨m, h1, by rw [familyNames_eq]; exact h2⟩

/-- … each of them once -/
theorem getNames_nodup (ad : Bool) (c : Collector) : (getNames ad c).Nodup := by
  rw [getNames_eq]
  cases described ad c with
  | none => exact List.nodup_nil
  | some ms => exact nodup_foldFamilies ms List.nodup_nil

/-! ### `setAll` (the insertion loop of `register`) -/

theorem mem_setAll (o : Owner) (names : List Name) (d : List (Name × Owner)) (a : Name) (b : Owner) :
    (a, b) ∈ setAll o names d ↔ (a ∈ names ∧ b = o) ∨ (a ∉ names ∧ (a, b) ∈ d) := by
  induction names generalizing d with
  | nil => simp [setAll]
  | cons n ns ih =>
    have : setAll o (n :: ns) d = setAll o ns (dSet n o d) := rfl
    rw [this, ih, mem_dSet]
    simp only [List.mem_cons, not_or]
    constructor
    · rintro (⟨h1, h2⟩ | ⟨h1, ⟨h2, h3⟩ | ⟨h2, h3⟩⟩)
      · exact Or.inl ⟨Or.inr h1, h2⟩
      · exact Or.inl ⟨Or.inl h2, h3⟩
      · exact Or.inr ⟨⟨h2, h1⟩, h3⟩
    · rintro (⟨h1 | h1, h2⟩ | ⟨⟨h1, h2⟩, h3⟩)
      · by_cases hm : a ∈ ns
        · exact Or.inl ⟨hm, h2⟩
        · exact Or.inr ⟨hm, Or.inl ⟨h1, h2⟩⟩
      · exact Or.inl ⟨h1, h2⟩
      · exact Or.inr ⟨h2, Or.inr ⟨h1, h3⟩⟩

theorem nodup_setAll (o : Owner) (names : List Name) {d : List (Name × Owner)}
    (hn : (d.map Prod.fst).Nodup) : ((setAll o names d).map Prod.fst).Nodup := by
  induction names generalizing d with
  | nil => simpa [setAll] using hn
  | cons n ns ih =>
    have : setAll o (n :: ns) d = setAll o ns (dSet n o d) := rfl
    rw [this]
    exact ih (nodup_dSet n o hn)

theorem mem_keys_setAll (o : Owner) (names : List Name) (d : List (Name × Owner)) (a : Name) :
    a ∈ (setAll o names d).map Prod.fst ↔ a ∈ names ∨ a ∈ d.map Prod.fst := by
  induction names generalizing d with
  | nil => simp [setAll]
  | cons n ns ih =>
    have : setAll o (n :: ns) d = setAll o ns (dSet n o d) := rfl
    rw [this, ih, mem_keys_dSet]
    simp only [List.mem_cons]
    constructor
    · rintro (h | h | h)
      · exact Or.inl (Or.inr h)
      · exact Or.inl (Or.inl h)
      · exact Or.inr h
    · rintro ((h | h) | h)
      · exact Or.inr (Or.inl h)
      · exact Or.inl h
      · exact Or.inr (Or.inr h)

/-! ### `register` -/

/-- the test `if duplicates:` -/
def clashes (s : State) (c : Collector) : Bool :=
  (getNames s.autoDescribe c).any (fun n => dHas n s.namesToCollectors)

theorem register_raise {s : State} {c : Collector} (h : clashes s c = true) :
    register s c = (s, some .valueError) := by
  rw [register_eq]; unfold registerAtomic
  simp only [clashes] at h
  simp [h]

theorem register_ok {s : State} {c : Collector} (h : clashes s c = false) :
    register s c = ({ s with namesToCollectors := setAll (.coll c) (getNames s.autoDescribe c) s.namesToCollectors
                             collectorToNames := dSet c (getNames s.autoDescribe c) s.collectorToNames }, none) := by
  rw [register_eq]; unfold registerAtomic
  simp only [clashes] at h
  simp [h]

theorem clashes_false_iff (s : State) (c : Collector) :
    clashes s c = false ↔ ∀ n ∈ getNames s.autoDescribe c, n ∉ s.namesToCollectors.map Prod.fst := by
  simp only [clashes, List.any_eq_false]
  constructor
  · intro h n hn
    have := h n hn
    exact (dHas_false_iff n _).1 (by simpa using this)
  · intro h n hn
    have := (dHas_false_iff n s.namesToCollectors).2 (h n hn)
    simp [this]

theorem inv_register_ok {s : State} (hi : Inv s) (c : Collector) (h : clashes s c = false) :
    Inv (register s c).1 := by
  rw [register_ok h]
  have hfresh := (clashes_false_iff s c).1 h
  refine ⟨?_, ?_, ?_, ?_⟩
  · exact nodup_dSet _ _ hi.c2nNodup
  · exact nodup_setAll _ _ hi.n2cNodup
  · intro c' ns hm
    rcases (mem_dSet c' c ns _ _).1 hm with ⟨_, h2⟩ | ⟨_, h2⟩
    · subst h2; simp_all
    · exact hi.stored c' ns h2
  · intro n o
    simp only
    rw [mem_setAll]
    constructor
    · rintro (⟨h1, h2⟩ | ⟨h1, h2⟩)
      · exact Or.inl ⟨c, _, h2, (mem_dSet _ _ _ _ _).2 (Or.inl ⟨rfl, rfl⟩), h1⟩
      · rcases (hi.graph n o).1 h2 with ⟨c', ns, ho, hm, hn⟩ | h3
        · by_cases hc : c' = c
          · subst hc
            have := hi.stored c' ns hm
            subst this
            exact absurd hn h1
          · exact Or.inl ⟨c', ns, ho, (mem_dSet _ _ _ _ _).2 (Or.inr ⟨hc, hm⟩), hn⟩
        · exact Or.inr h3
    · rintro (⟨c', ns, ho, hm, hn⟩ | ⟨ho, hn, ht⟩)
      · rcases (mem_dSet c' c ns _ _).1 hm with ⟨h1, h2⟩ | ⟨h1, h2⟩
        · subst h1 h2
          exact Or.inl ⟨hn, ho⟩
        · have hmem : (n, o) ∈ s.namesToCollectors := (hi.graph n o).2 (Or.inl ⟨c', ns, ho, h2, hn⟩)
          refine Or.inr ⟨?_, hmem⟩
          intro hnn
          exact hfresh n hnn (List.mem_map.2 ⟨(n, o), hmem, rfl⟩)
      · have hmem : (n, o) ∈ s.namesToCollectors := (hi.graph n o).2 (Or.inr ⟨ho, hn, ht⟩)
        refine Or.inr ⟨?_, hmem⟩
        intro hnn
        exact hfresh n hnn (List.mem_map.2 ⟨(n, o), hmem, rfl⟩)

theorem inv_register {s : State} (hi : Inv s) (c : Collector) : Inv (register s c).1 := by
  cases h : clashes s c
  · exact inv_register_ok hi c h
  · rw [register_raise h]; exact hi

/-! ### `unregister` -/

theorem delNames_all {names : List Name} (hn : names.Nodup) :
    ∀ {d : List (Name × Owner)}, (∀ n ∈ names, n ∈ d.map Prod.fst) →
      delNames d names = (d.filter (fun p => decide (p.1 ∉ names)), true) := by
  induction names with
  | nil =>
    intro d _
    simp only [delNames, List.not_mem_nil, not_false_eq_true, decide_true]
    rw [List.filter_eq_self.2 (by simp)]
  | cons n ns ih =>
    intro d hall
    have hnd := List.nodup_cons.1 hn
    unfold delNames
    have hhas : dHas n d = true := (dHas_iff n d).2 (hall n (by simp))
    simp only [hhas, if_true]
    rw [ih hnd.2]
    · simp only [dDel, List.filter_filter, Prod.mk.injEq, and_true]
      apply List.filter_congr
      intro p _
      simp only [List.mem_cons, not_or]
      by_cases h1 : p.1 = n <;> by_cases h2 : p.1 ∈ ns <;> simp [h1, h2]
    · intro m hm
      rw [mem_keys_dDel]
      refine ⟨?_, hall m (by simp [hm])⟩
      intro e; subst e; exact hnd.1 hm

theorem unregister_unknown {s : State} {c : Collector} (h : c ∉ s.collectorToNames.map Prod.fst) :
    unregister s c = (s, some .keyError) := by
  rw [unregister_eq]
  rw [(dGet_none_iff c _).2 h]; rfl

/-- a registered collector with duplicate-free recorded names is removed completely -/
theorem unregister_ok {s : State} (hi : Inv s) {c : Collector} {names : List Name}
    (hm : (c, names) ∈ s.collectorToNames) (hnd : names.Nodup) :
    unregister s c = ({ s with namesToCollectors := s.namesToCollectors.filter (fun p => decide (p.1 ∉ names))
                               collectorToNames := dDel c s.collectorToNames }, none) := by
  rw [unregister_eq]
  rw [dGet_of_mem hi.c2nNodup hm]
  simp only [unregisterOf]
  rw [delNames_all hnd]
  intro n hn
  have : (n, Owner.coll c) ∈ s.namesToCollectors := (hi.graph n _).2 (Or.inl ⟨c, names, rfl, hm, hn⟩)
  exact List.mem_map.2 ⟨_, this, rfl⟩

theorem inv_unregister_ok {s : State} (hi : Inv s) {c : Collector} {names : List Name}
    (hm : (c, names) ∈ s.collectorToNames) (hnd : names.Nodup) : Inv (unregister s c).1 := by
  rw [unregister_ok hi hm hnd]
  refine ⟨nodup_dDel _ hi.c2nNodup, ?_, ?_, ?_⟩
  · exact hi.n2cNodup.sublist (List.filter_sublist.map Prod.fst)
  · intro c' ns h
    exact hi.stored c' ns ((mem_dDel _ _ _ _).1 h).2
  · intro n o
    simp only [List.mem_filter, decide_eq_true_eq]
    constructor
    · rintro ⟨hmem, hnot⟩
      rcases (hi.graph n o).1 hmem with ⟨c', ns, ho, hm', hn⟩ | h3
      · refine Or.inl ⟨c', ns, ho, (mem_dDel _ _ _ _).2 ⟨?_, hm'⟩, hn⟩
        intro e; subst e
        have := val_unique hi.c2nNodup hm hm'
        subst this
        exact hnot hn
      · exact Or.inr h3
    · rintro (⟨c', ns, ho, hm', hn⟩ | ⟨ho, hn, ht⟩)
      · have ⟨hne, hm''⟩ := (mem_dDel _ _ _ _).1 hm'
        have hmem : (n, o) ∈ s.namesToCollectors := (hi.graph n o).2 (Or.inl ⟨c', ns, ho, hm'', hn⟩)
        refine ⟨hmem, ?_⟩
        intro hnn
        have h2 : (n, Owner.coll c) ∈ s.namesToCollectors := (hi.graph n _).2 (Or.inl ⟨c, names, rfl, hm, hnn⟩)
        have := val_unique hi.n2cNodup hmem h2
        subst ho
        exact hne (Owner.coll.inj this)
      · have hmem : (n, o) ∈ s.namesToCollectors := (hi.graph n o).2 (Or.inr ⟨ho, hn, ht⟩)
        refine ⟨hmem, ?_⟩
        intro hnn
        have h2 : (n, Owner.coll c) ∈ s.namesToCollectors := (hi.graph n _).2 (Or.inl ⟨c, names, rfl, hm, hnn⟩)
        have := val_unique hi.n2cNodup hmem h2
        subst ho
        exact Owner.noConfusion this

/-- the recorded names of a registered collector are pairwise distinct (`_get_names` records each once) -/
theorem stored_nodup {s : State} (hi : Inv s) {c : Collector} {names : List Name}
    (hm : (c, names) ∈ s.collectorToNames) : names.Nodup := by
  rw [hi.stored c names hm]; exact getNames_nodup _ _

theorem inv_unregister {s : State} (hi : Inv s) (c : Collector) : Inv (unregister s c).1 := by
  by_cases hk : c ∈ s.collectorToNames.map Prod.fst
  · obtain ⟨⟨c', ns⟩, hm, rfl⟩ := List.mem_map.1 hk
    exact inv_unregister_ok hi hm (stored_nodup hi hm)
  · rw [unregister_unknown hk]; exact hi

/-! ### `set_target_info` -/

theorem inv_setTargetInfo {s : State} (hi : Inv s) (labels : Option Labels) :
    Inv (setTargetInfo s labels).1 := by
  rw [setTargetInfo_eq]
  by_cases hl : truthy labels = true
  · simp only [hl, if_true]
    by_cases hc : (!truthy s.targetInfo && dHas tiName s.namesToCollectors) = true
    · simp only [hc, if_true]; exact hi
    · rw [if_neg hc]
      refine ⟨hi.c2nNodup, nodup_dSet _ _ hi.n2cNodup, hi.stored, ?_⟩
      intro n o
      simp only [hl, and_true]
      rw [mem_dSet]
      have hnoc : ∀ c, (tiName, Owner.coll c) ∉ s.namesToCollectors := by
        intro c hmem
        by_cases ht : truthy s.targetInfo = true
        · have h2 : (tiName, Owner.empty) ∈ s.namesToCollectors := (hi.graph _ _).2 (Or.inr ⟨rfl, rfl, ht⟩)
          exact Owner.noConfusion (val_unique hi.n2cNodup hmem h2)
        · have := dHas_of_mem hmem
          simp [ht, this] at hc
      constructor
      · rintro (⟨h1, h2⟩ | ⟨h1, h2⟩)
        · exact Or.inr ⟨h2, h1⟩
        · rcases (hi.graph n o).1 h2 with h3 | ⟨_, h4, _⟩
          · exact Or.inl h3
          · exact absurd h4 h1
      · rintro (⟨c, ns, ho, hm, hn⟩ | ⟨ho, hn⟩)
        · have hmem : (n, o) ∈ s.namesToCollectors := (hi.graph n o).2 (Or.inl ⟨c, ns, ho, hm, hn⟩)
          refine Or.inr ⟨?_, hmem⟩
          intro e; subst e; subst ho
          exact hnoc c hmem
        · exact Or.inl ⟨hn, ho⟩
  · rw [if_neg hl]
    by_cases ht : truthy s.targetInfo = true
    · simp only [ht, if_true]
      refine ⟨hi.c2nNodup, nodup_dDel _ hi.n2cNodup, hi.stored, ?_⟩
      intro n o
      simp only [hl, Bool.false_eq_true, and_false, or_false]
      rw [mem_dDel]
      have h2 : (tiName, Owner.empty) ∈ s.namesToCollectors := (hi.graph _ _).2 (Or.inr ⟨rfl, rfl, ht⟩)
      constructor
      · rintro ⟨h1, hmem⟩
        rcases (hi.graph n o).1 hmem with h3 | ⟨_, h4, _⟩
        · exact h3
        · exact absurd h4 h1
      · rintro ⟨c, ns, ho, hm, hn⟩
        have hmem : (n, o) ∈ s.namesToCollectors := (hi.graph n o).2 (Or.inl ⟨c, ns, ho, hm, hn⟩)
        refine ⟨?_, hmem⟩
        intro e; subst e; subst ho
        exact Owner.noConfusion (val_unique hi.n2cNodup hmem h2)
    · rw [if_neg ht]
      refine ⟨hi.c2nNodup, hi.n2cNodup, hi.stored, ?_⟩
      intro n o
      simp only [hl, Bool.false_eq_true, and_false, or_false]
      rw [hi.graph n o]
      simp [ht]

theorem inv_base (ad : Bool) : Inv ⟨[], [], ad, some []⟩ := by
  refine ⟨by simp, by simp, by simp, ?_⟩
  intro n o
  simp [truthy]

end PromVerif.Model.Registry
