/-
Structure of the directory a world history leaves: every file is `<prefix of a constructed value>_<identity>.db`, file
names are pairwise different, every entry's key is the `mmap_key` of a constructed value of the same prefix, keys are
pairwise different inside a file (`DiskOK`).  This is what lets the collector's reader (`_read_metrics`, which knows
only names and entries) be composed with the writer's bookkeeping.
-/
import PromVerif.Lemmas.MultiprocessWorld

namespace PromVerif.Model.Values
open PromVerif.Py PromVerif.Generated.Multiprocess PromVerif.Model.Multiprocess
set_option autoImplicit false

variable {V : Type}

theorem AL.mem_set {κ β : Type} [DecidableEq κ] (d : List (κ × β)) (k : κ) (v : β) (x : κ × β)
    (h : x ∈ AL.set d k v) : x ∈ d ∨ x = (k, v) := by
  induction d with
  | nil => simp [AL.set] at h; exact Or.inr h
  | cons y r ih =>
    obtain ⟨k', v'⟩ := y
    by_cases hk : k' = k
    · simp only [AL.set, hk, if_true, List.mem_cons] at h
      rcases h with h | h
      · exact Or.inr (hk ▸ h)
      · exact Or.inl (List.mem_cons_of_mem _ h)
    · simp only [AL.set, hk, if_false, List.mem_cons] at h
      rcases h with h | h
      · exact Or.inl (h ▸ List.mem_cons_self)
      · rcases ih h with h' | h'
        · exact Or.inl (List.mem_cons_of_mem _ h')
        · exact Or.inr h'

/-- what one store of prefix `pre` may hold -/
def StoreOK (PS : List Params) (pre : Str) (s : Store V) : Prop :=
  (AL.keys s).Nodup ∧ ∀ e ∈ s, ∃ q' ∈ PS, e.1 = mmapKey q' ∧ filePrefix q' = pre

structure DiskOK (PS : List Params) (disk : List (Str × Store V)) : Prop where
  names : (AL.keys disk).Nodup
  files : ∀ f ∈ disk, ∃ q ∈ PS, ∃ pid, '_' ∉ pid ∧ f.1 = fileName (filePrefix q) pid ∧ StoreOK PS (filePrefix q) f.2

theorem diskOK_nil (PS : List Params) : DiskOK (V := V) PS [] := ⟨by simp [AL.keys], fun f hf => by cases hf⟩

theorem storeOK_nil (PS : List Params) (pre : Str) : StoreOK (V := V) PS pre [] :=
  ⟨by simp [AL.keys], fun e he => by cases he⟩

theorem storeOK_set (PS : List Params) (q : Params) (hq : q ∈ PS) (s : Store V) (h : StoreOK PS (filePrefix q) s)
    (x : V × V) : StoreOK PS (filePrefix q) (AL.set s (mmapKey q) x) := by
  refine ⟨AL.nodup_set _ _ _ h.1, ?_⟩
  intro e he
  rcases AL.mem_set _ _ _ _ he with h' | h'
  · exact h.2 e h'
  · exact ⟨q, hq, by rw [h'], rfl⟩

/-- the store found under a well-formed name has the right shape -/
theorem diskOK_getD (PS : List Params) (disk : List (Str × Store V)) (h : DiskOK PS disk) (q : Params) (pid : Str)
    (hpid : '_' ∉ pid) : StoreOK PS (filePrefix q) (AL.getD disk (fileName (filePrefix q) pid) []) := by
  rw [AL.getD_eq]
  cases hg : AL.get? disk (fileName (filePrefix q) pid) with
  | none => exact storeOK_nil PS _
  | some s =>
    have hm := AL.mem_of_get? _ _ _ hg
    obtain ⟨q0, _, pid0, hp0, hn, hs⟩ := h.files _ hm
    have := (fileName_inj _ _ _ _ hpid hp0 hn).1
    simp only [Option.getD_some]
    rw [this]; exact hs

theorem diskOK_set (PS : List Params) (disk : List (Str × Store V)) (h : DiskOK PS disk) (q : Params) (hq : q ∈ PS)
    (pid : Str) (hpid : '_' ∉ pid) (s : Store V) (hs : StoreOK PS (filePrefix q) s) :
    DiskOK PS (AL.set disk (fileName (filePrefix q) pid) s) := by
  refine ⟨AL.nodup_set _ _ _ h.names, ?_⟩
  intro f hf
  rcases AL.mem_set _ _ _ _ hf with h' | h'
  · exact h.files f h'
  · exact ⟨q, hq, pid, hpid, by rw [h'], by rw [h']; exact hs⟩

theorem diskOK_openFile (PS : List Params) (disk : List (Str × Store V)) (h : DiskOK PS disk) (q : Params) (hq : q ∈ PS)
    (pid : Str) (hpid : '_' ∉ pid) : DiskOK PS (openFile disk (fileName (filePrefix q) pid)) := by
  unfold openFile
  cases AL.get? disk (fileName (filePrefix q) pid) with
  | some s => exact h
  | none => exact diskOK_set PS disk h q hq pid hpid [] (storeOK_nil PS _)

theorem diskOK_readValue (vo : VOps V) (PS : List Params) (disk : List (Str × Store V)) (h : DiskOK PS disk) (q : Params)
    (hq : q ∈ PS) (pid : Str) (hpid : '_' ∉ pid) :
    DiskOK PS (readValue vo disk (fileName (filePrefix q) pid) (mmapKey q)).2 := by
  cases hg : AL.get? (AL.getD disk (fileName (filePrefix q) pid) []) (mmapKey q) with
  | some vt => rw [readValue_some vo disk _ _ vt hg]; exact h
  | none =>
    rw [readValue_none vo disk _ _ hg]
    exact diskOK_set PS disk h q hq pid hpid _ (storeOK_set PS q hq _ (diskOK_getD PS disk h q pid hpid) _)

theorem diskOK_writeValue (PS : List Params) (disk : List (Str × Store V)) (h : DiskOK PS disk) (q : Params)
    (hq : q ∈ PS) (pid : Str) (hpid : '_' ∉ pid) (v t : V) :
    DiskOK PS (writeValue disk (fileName (filePrefix q) pid) (mmapKey q) v t) := by
  unfold writeValue
  exact diskOK_set PS disk h q hq pid hpid _ (storeOK_set PS q hq _ (diskOK_getD PS disk h q pid hpid) _)

theorem diskOK_reset (vo : VOps V) (PS : List Params) (pid : Str) (hpid : '_' ∉ pid) (files : List (Str × Str))
    (disk : List (Str × Store V)) (hf : FilesOK pid files) (h : DiskOK PS disk) (q : Params) (hq : q ∈ PS) :
    DiskOK PS (reset vo pid files disk q).2.2 := by
  cases hg : AL.get? files (filePrefix q) with
  | some fn0 =>
    rw [reset_some vo pid files disk q fn0 hg, hf _ _ hg]
    exact diskOK_readValue vo PS disk h q hq pid hpid
  | none =>
    rw [reset_none vo pid files disk q hg]
    exact diskOK_readValue vo PS _ (diskOK_openFile PS disk h q hq pid hpid) q hq pid hpid

theorem diskOK_resetAll (vo : VOps V) (PS : List Params) (pid : Str) (hpid : '_' ∉ pid) (vs : List (ValueObj V))
    (hvs : ∀ v ∈ vs, v.params ∈ PS) (files : List (Str × Str)) (disk : List (Str × Store V)) (hf : FilesOK pid files)
    (h : DiskOK PS disk) : DiskOK PS (resetAll vo pid vs files disk).2.2 := by
  induction vs generalizing files disk with
  | nil => exact h
  | cons v r ih =>
    simp only [resetAll]
    exact ih (fun w hw => hvs w (List.mem_cons_of_mem _ hw)) _ _
      (reset_post vo pid files disk v.params hf).files
      (diskOK_reset vo PS pid hpid files disk hf h v.params (hvs v List.mem_cons_self))

/-- the part of the state invariant about the directory's shape -/
structure WInv (PS : List Params) (st : St V) : Prop where
  disk : DiskOK PS st.disk
  known : ∀ v ∈ st.values, v.params ∈ PS

theorem winv_check (vo : VOps V) (PS : List Params) (st : St V) (hb : Bound st) (hid : IdOK st) (h : WInv PS st) :
    WInv PS (checkPid vo st) := by
  have hc := checkPid_post vo st hb
  unfold checkPid
  by_cases hp : st.pid = st.actual
  · simp only [ne_eq, hp, not_true_eq_false, if_false]; exact h
  · simp only [ne_eq, hp, not_false_eq_true, if_true]
    refine ⟨diskOK_resetAll vo PS st.actual hid.2 st.values h.known [] st.disk (filesOK_nil _) h.disk, ?_⟩
    intro v hv
    have hpar := (resetAll_post vo st.actual st.values [] st.disk (filesOK_nil _)).params
    have : v.params ∈ (resetAll vo st.actual st.values [] st.disk).1.map (·.params) := List.mem_map.mpr ⟨v, hv, rfl⟩
    rw [hpar] at this
    obtain ⟨w, hw, e⟩ := List.mem_map.mp this
    rw [← e]; exact h.known w hw

def evKnown (PS : List Params) : Ev V → Prop
  | .op (.construct p) => p ∈ PS
  | _ => True

theorem mem_set_list {α : Type} (l : List α) (i : Nat) (a x : α) (h : x ∈ l.set i a) : x = a ∨ x ∈ l := by
  obtain ⟨j, hj⟩ := List.mem_iff_getElem?.mp h
  rw [List.getElem?_set] at hj
  by_cases hij : i = j
  · simp only [hij, if_true] at hj
    split at hj
    · exact Or.inl (Option.some.inj hj).symm
    · cases hj
  · simp only [hij, if_false] at hj
    exact Or.inr (List.mem_iff_getElem?.mpr ⟨j, hj⟩)

theorem winv_wstep (vo : VOps V) (PS : List Params) (st : St V) (e : Ev V) (hb : Bound st) (hid : IdOK st)
    (he : evIdOK e) (hk : evKnown PS e) (h : WInv PS st) : WInv PS (wstep vo st e).1 := by
  cases e with
  | spawn p => exact ⟨h.disk, fun v hv => by cases hv⟩
  | dead q =>
    have hd : DiskOK PS (deadDisk q st.disk) := by
      unfold deadDisk
      refine ⟨?_, fun f hf => h.disk.files f (List.mem_filter.mp hf).1⟩
      exact List.Nodup.sublist ((List.filter_sublist).map _) h.disk.names
    simp only [wstep]
    split
    · exact ⟨hd, fun v hv => by cases hv⟩
    · exact ⟨hd, h.known⟩
  | op o =>
    have hc := checkPid_post vo st hb
    have h1 := winv_check vo PS st hb hid h
    have hpid1 : '_' ∉ (checkPid vo st).pid := by rw [hc.pid]; exact hid.2
    have hw : ∀ (i : Nat) (v : ValueObj V) (x t : V), (checkPid vo st).values[i]? = some v →
        WInv PS (⟨(checkPid vo st).pid, (checkPid vo st).files,
          (checkPid vo st).values.set i ⟨v.params, x, t, v.file, v.key⟩,
          writeValue (checkPid vo st).disk v.file v.key x t, (checkPid vo st).actual⟩ : St V) := by
      intro i v x t hv
      have hmv : v ∈ (checkPid vo st).values := List.mem_iff_getElem?.mpr ⟨i, hv⟩
      have hbv := hc.bound.bound v hmv
      refine ⟨?_, ?_⟩
      · show DiskOK PS (writeValue _ v.file v.key x t)
        rw [hbv.1, hbv.2]
        exact diskOK_writeValue PS _ h1.disk v.params (h1.known v hmv) _ hpid1 x t
      · intro w hw
        rcases mem_set_list _ _ _ _ hw with e | e
        · rw [e]; exact h1.known v hmv
        · exact h1.known w e
    cases o with
    | setPid p => exact ⟨h.disk, h.known⟩
    | get i => exact h1
    | inc i a =>
      simp only [wstep, step]
      cases hv : (checkPid vo st).values[i]? with
      | none => exact h1
      | some v => exact hw i v _ _ hv
    | set i x t =>
      simp only [wstep, step]
      cases hv : (checkPid vo st).values[i]? with
      | none => exact h1
      | some v => exact hw i v _ _ hv
    | construct p =>
      have hr := reset_post vo (checkPid vo st).pid (checkPid vo st).files (checkPid vo st).disk p hc.bound.files
      simp only [wstep, step]
      refine ⟨diskOK_reset vo PS _ hpid1 _ _ hc.bound.files h1.disk p hk, ?_⟩
      intro w hw
      rcases List.mem_append.mp hw with e | e
      · exact h1.known w e
      · simp only [List.mem_singleton] at e; rw [e, hr.params]; exact hk

theorem wstep_bound (vo : VOps V) (st : St V) (e : Ev V) (hb : Bound st) (hid : IdOK st) (he : evIdOK e) :
    Bound (wstep vo st e).1 := by
  cases e with
  | op o => exact step_bound vo st o hb
  | spawn p => exact ⟨filesOK_nil _, (fun v hv => by cases hv), (fun v hv => by cases hv)⟩
  | dead q =>
    simp only [wstep]
    split
    · exact ⟨filesOK_nil _, (fun v hv => by cases hv), (fun v hv => by cases hv)⟩
    · next hne =>
      have hq : q ≠ st.pid := fun e => hne (Or.inl e)
      refine ⟨hb.files, hb.bound, ?_⟩
      intro v hv
      show (cellGet (deadDisk q st.disk) v.file v.key).isSome = true
      rw [cellGet_deadDisk]
      cases hl : isLiveFileOf q v.file with
      | false => exact hb.exist v hv
      | true =>
        rw [(hb.bound v hv).2] at hl
        exact absurd (isLiveFileOf_fileName q _ st.pid he hid.1 hl).symm hq

/-- **shape of the directory after any world history** from an empty directory -/
theorem wrun_diskOK (vo : VOps V) (PS : List Params) (evs : List (Ev V)) (st : St V) (hb : Bound st) (hid : IdOK st)
    (h : WInv PS st) (hev : evsIdOK evs) (hk : ∀ e ∈ evs, evKnown PS e) :
    WInv PS (wrun vo st evs) ∧ Bound (wrun vo st evs) := by
  induction evs generalizing st with
  | nil => exact ⟨h, hb⟩
  | cons e r ih =>
    rw [wrun_cons]
    have he := hev e List.mem_cons_self
    exact ih _ (wstep_bound vo st e hb hid he) (wstep_idOK vo st e hb hid he)
      (winv_wstep vo PS st e hb hid he (hk e List.mem_cons_self) h)
      (fun x hx => hev x (List.mem_cons_of_mem _ hx)) (fun x hx => hk x (List.mem_cons_of_mem _ hx))

end PromVerif.Model.Values
