/-
C11: a reader whose two `read()` calls see the file at two different moments.  Splicing the first `p` bytes of one
encoding with the rest of another encoding of the same keys gives an encoding of those keys again; with 8-aligned `p`
every value and every timestamp comes whole from one of the two.
-/
import PromVerif.Lemmas.MmapGen
namespace PromVerif.Lemmas.Mmap
open PromVerif.Py PromVerif.Model.MmapDict PromVerif.Generated.Mmap

/-- the part of an entry that depends on the key only -/
def entryHead (k : Key) : Bytes := le 4 (klen k) ++ (encodeKey k ++ List.replicate (padLen (klen k)) 32)

theorem encEntry_eq (e : Entry) : encEntry e = entryHead e.key ++ (le64 e.v ++ le64 e.t) := by
  simp [encEntry, entryHead]

theorem entryHead_length (k : Key) : (entryHead k).length + 16 = entryLen k := by
  simp [entryHead, entryLen, klen]; omega

/-- `e` takes its value from `a` or `b` and its timestamp from `a` or `b` (same key) -/
def MixOf (a b e : Entry) : Prop :=
  e.key = a.key ∧ (e.v = a.v ∨ e.v = b.v) ∧ (e.t = a.t ∨ e.t = b.t)

theorem splice_entry (k : Key) (v1 t1 v2 t2 : UInt64) (p : Nat) (hp : p % 8 = 0) :
    ∃ e, MixOf ⟨k, v1, t1⟩ ⟨k, v2, t2⟩ e ∧
      (encEntry ⟨k, v1, t1⟩).take p ++ (encEntry ⟨k, v2, t2⟩).drop p = encEntry e := by
  have hl := entryHead_length k
  have hm := entryLen_mod k
  have hh : (entryHead k).length % 8 = 0 := by omega
  simp only [encEntry_eq]
  by_cases h1 : p ≤ (entryHead k).length
  · refine ⟨⟨k, v2, t2⟩, ⟨rfl, Or.inr rfl, Or.inr rfl⟩, ?_⟩
    rw [List.take_append_of_le_length h1, List.drop_append_of_le_length h1, ← List.append_assoc, List.take_append_drop]
  · by_cases h2 : p = (entryHead k).length + 8
    · refine ⟨⟨k, v1, t2⟩, ⟨rfl, Or.inl rfl, Or.inr rfl⟩, ?_⟩
      rw [List.take_append, List.drop_append, List.take_of_length_le (by omega), List.drop_of_length_le (by omega)]
      have : p - (entryHead k).length = 8 := by omega
      simp [this]
    · refine ⟨⟨k, v1, t1⟩, ⟨rfl, Or.inl rfl, Or.inl rfl⟩, ?_⟩
      have h3 : (entryHead k).length + 16 ≤ p := by omega
      rw [List.take_of_length_le (by simp; omega), List.drop_of_length_le (by simp; omega)]
      simp

/-- entry-wise: same keys, each entry a mix of the two entries at its position -/
inductive MixList : List Entry → List Entry → List Entry → Prop
  | nil : MixList [] [] []
  | cons {a b e : Entry} {as bs es : List Entry} : a.key = b.key → MixOf a b e → MixList as bs es →
      MixList (a :: as) (b :: bs) (e :: es)

theorem MixList.keys_eq {as bs es} (h : MixList as bs es) : keys es = keys as := by
  induction h with
  | nil => rfl
  | cons _ hm _ ih => simp [ih, hm.1]

theorem MixList.refl_left : ∀ (as bs : List Entry), keys as = keys bs → MixList as bs as := by
  intro as
  induction as with
  | nil => intro bs h; cases bs <;> simp_all; exact MixList.nil
  | cons a as ih =>
    intro bs h
    cases bs with
    | nil => simp at h
    | cons b bs => simp at h; exact MixList.cons h.1 ⟨rfl, Or.inl rfl, Or.inl rfl⟩ (ih bs h.2)

theorem MixList.refl_right : ∀ (as bs : List Entry), keys as = keys bs → MixList as bs bs := by
  intro as
  induction as with
  | nil => intro bs h; cases bs <;> simp_all; exact MixList.nil
  | cons a as ih =>
    intro bs h
    cases bs with
    | nil => simp at h
    | cons b bs => simp at h; exact MixList.cons h.1 ⟨h.1.symm, Or.inr rfl, Or.inr rfl⟩ (ih bs h.2)

theorem splice_entries : ∀ (as bs : List Entry) (p : Nat), keys as = keys bs → p % 8 = 0 →
    ∃ es, MixList as bs es ∧ (encEntries as).take p ++ (encEntries bs).drop p = encEntries es := by
  intro as
  induction as with
  | nil =>
    intro bs p h _
    cases bs with
    | nil => exact ⟨[], MixList.nil, by simp⟩
    | cons b bs => simp at h
  | cons a as ih =>
    intro bs p h hp
    cases bs with
    | nil => simp at h
    | cons b bs =>
      simp only [keys_cons, List.cons.injEq] at h
      have hla : (encEntry a).length = entryLen a.key := encEntry_length a
      have hlb : (encEntry b).length = entryLen a.key := by rw [encEntry_length, h.1]
      have hm := entryLen_mod a.key
      by_cases hc : entryLen a.key ≤ p
      · obtain ⟨es, hmix, heq⟩ := ih bs (p - entryLen a.key) h.2 (by omega)
        refine ⟨a :: es, MixList.cons h.1 ⟨rfl, Or.inl rfl, Or.inl rfl⟩ hmix, ?_⟩
        simp only [encEntries_cons]
        rw [List.take_append, List.drop_append, List.take_of_length_le (by omega), List.drop_of_length_le (by omega),
          hla, hlb, List.nil_append, List.append_assoc, heq]
      · obtain ⟨e, hmix, heq⟩ := splice_entry a.key a.v a.t b.v b.t p hp
        have hb : b = ⟨a.key, b.v, b.t⟩ := by cases b; simp at h ⊢; exact h.1.symm
        refine ⟨e :: bs, MixList.cons h.1 (by rw [hb]; exact hmix) (MixList.refl_right as bs h.2), ?_⟩
        simp only [encEntries_cons]
        rw [List.take_append_of_le_length (by omega), List.drop_append_of_le_length (by omega), ← List.append_assoc]
        rw [hb]; rw [← heq]

/-- `es2` extends `es1`: the same keys in the same order first (values may differ), then possibly more entries -/
def Ext (es1 es2 : List Entry) : Prop := ∃ a b, es2 = a ++ b ∧ keys a = keys es1

theorem Ext.refl (es : List Entry) : Ext es es := ⟨es, [], by simp, rfl⟩

theorem Ext.of_keys {es1 es2 : List Entry} (h : keys es2 = keys es1) : Ext es1 es2 := ⟨es2, [], by simp, h⟩

theorem Ext.snoc (es : List Entry) (e : Entry) : Ext es (es ++ [e]) := ⟨es, [e], rfl, rfl⟩

theorem Ext.trans {e1 e2 e3 : List Entry} (h12 : Ext e1 e2) (h23 : Ext e2 e3) : Ext e1 e3 := by
  obtain ⟨a, b, rfl, ha⟩ := h12
  obtain ⟨c, d, rfl, hc⟩ := h23
  refine ⟨c.take a.length, c.drop a.length ++ d, by rw [← List.append_assoc, List.take_append_drop], ?_⟩
  have : keys (c.take a.length) = (keys c).take a.length := by simp [keys, List.map_take]
  rw [this, hc, keys_append, ← ha]
  have hl : a.length = (keys a).length := by simp [keys]
  rw [hl, List.take_left']
  rfl

/-- THE TWO-SNAPSHOT READ.  First block (and header) from a file representing `es1`, the rest from a file representing an
extension `es2` of it (8-aligned page size): the reader succeeds and returns exactly the keys of `es1` — the entries the
header it read covers, never an unpublished one — each with a value and a timestamp that one of the two snapshots holds
for that key (for the one entry that crosses the page boundary they may come from different snapshots). -/
theorem two_snapshot_read {f1 f2 : Bytes} {u1 u2 : Nat} {es1 es2 : List Entry} {tl1 tl2 : Bytes} (page : Nat)
    (h1 : FileRep f1 u1 es1 tl1) (h2 : FileRep f2 u2 es2 tl2) (hext : Ext es1 es2) (hp8 : 8 ≤ page) (hpm : page % 8 = 0) :
    ∃ a esM, Ext es1 es2 ∧ es2.take es1.length = a ∧ MixList es1 a esM ∧
      readAllValuesFromFile2 page f1 f2 = .ok (scanOut 8 esM) := by
  obtain ⟨a, b, rfl, hk⟩ := hext
  have hla : a.length = es1.length := by
    have := congrArg List.length hk; simpa [keys] using this
  have hta : (a ++ b).take es1.length = a := by rw [← hla]; simp
  have hu1 := h1.used_eq
  have hl1 := h1.length
  have hlen : (encEntries a).length = (encEntries es1).length := encEntries_length_congr _ _ hk
  unfold readAllValuesFromFile2
  have hsf : shortFile (f1.take page) = false := shortFile_false (by rw [List.length_take]; omega)
  have hhead : unpackInt (f1.take page) headerPos = .ok (u1 : Int) := by
    refine unpackInt_le (a := []) (c := ([0, 0, 0, 0] ++ (encEntries es1 ++ tl1)).take (page - 4)) ?_ rfl h1.used_lt
    rw [h1.file_eq, hdr, List.append_assoc, List.take_append, List.take_of_length_le (by simp; omega)]
    simp
  simp only [hsf, Bool.false_eq_true, if_false, hhead, bind, Except.bind, Int.toNat_natCast, List.length_take]
  by_cases hc : (u1 : Int) > ((min page f1.length : Nat) : Int)
  · -- the entries do not fit into the first block: the rest comes from the second snapshot
    have hpg : min page f1.length = page := by omega
    have hlt : page < u1 := by omega
    have hc2 : (u1 : Int) > (page : Int) := by omega
    simp only [hpg, if_pos hc2]
    obtain ⟨esM, hmix, hsp⟩ := splice_entries es1 a (page - 8) hk.symm (by omega)
    have hdata : f1.take page ++ (f2.drop page).take (u1 - page) = hdr u1 ++ (encEntries esM ++ []) := by
      have e1 : f1.take page = hdr u1 ++ (encEntries es1).take (page - 8) := by
        rw [h1.file_eq, List.take_append, List.take_of_length_le (by simp; omega), hdr_length, List.take_append]
        have : page - 8 - (encEntries es1).length = 0 := by omega
        rw [this]; simp
      have e2 : (f2.drop page).take (u1 - page) = (encEntries a).drop (page - 8) := by
        rw [h2.file_eq, List.drop_append, List.drop_of_length_le (by simp; omega), hdr_length, List.nil_append,
          encEntries_append, List.append_assoc, List.drop_append]
        have : page - 8 - (encEntries a).length = 0 := by omega
        rw [this, List.drop_zero, List.take_append]
        have : u1 - page = ((encEntries a).drop (page - 8)).length := by simp; omega
        rw [this, List.take_length]
        simp
      rw [e1, e2, List.append_assoc, hsp]; simp
    have hrep : FileRep (f1.take page ++ (f2.drop page).take (u1 - page)) u1 esM [] :=
      ⟨hdata, by rw [hu1, ← encEntries_length_congr esM es1 hmix.keys_eq], h1.used_lt⟩
    exact ⟨a, esM, ⟨a, b, rfl, hk⟩, hta, hmix, hrep.raw_ok⟩
  · -- everything the header covers is in the first block: one snapshot
    have hc' : u1 ≤ min page f1.length := by omega
    simp only [hc, if_false]
    exact ⟨a, es1, ⟨a, b, rfl, hk⟩, hta, MixList.refl_left es1 a hk.symm, (h1.take page (by omega)).raw_ok⟩

theorem MixList.prov {as bs es} (h : MixList as bs es) : ∀ e ∈ es,
    (∃ x, (x ∈ as ∨ x ∈ bs) ∧ x.key = e.key ∧ x.v = e.v) ∧ (∃ y, (y ∈ as ∨ y ∈ bs) ∧ y.key = e.key ∧ y.t = e.t) := by
  induction h with
  | nil => intro e he; cases he
  | @cons a b e as bs es hk hm _ ih =>
    intro x hx
    rcases List.mem_cons.mp hx with rfl | hx
    · obtain ⟨h1, h2, h3⟩ := hm
      constructor
      · rcases h2 with h2 | h2
        · exact ⟨a, Or.inl (by simp), h1.symm, h2.symm⟩
        · exact ⟨b, Or.inr (by simp), by rw [← hk, h1], h2.symm⟩
      · rcases h3 with h3 | h3
        · exact ⟨a, Or.inl (by simp), h1.symm, h3.symm⟩
        · exact ⟨b, Or.inr (by simp), by rw [← hk, h1], h3.symm⟩
    · obtain ⟨⟨y, hy, hy2⟩, ⟨z, hz, hz2⟩⟩ := ih x hx
      exact ⟨⟨y, by rcases hy with h | h <;> simp [h], hy2⟩, ⟨z, by rcases hz with h | h <;> simp [h], hz2⟩⟩

end PromVerif.Lemmas.Mmap
