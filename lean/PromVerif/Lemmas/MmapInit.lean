/-
C10/C11: the representation invariant `Rep` of an open store and `_init_value` on it, with its explicit effect list.
-/
import PromVerif.Lemmas.MmapIndex
namespace PromVerif.Lemmas.Mmap
open PromVerif.Py PromVerif.Model.MmapDict PromVerif.Generated.Mmap

/-! ## the representation invariant of an open store -/

structure Rep (d : MmapedDict) (es : List Entry) (tail : Bytes) : Prop where
  file : FileRep d.file d.used es tail
  cap : d.capacity = d.file.length
  pos : d.positions = posOf 8 es
  nodup : (keys es).Nodup

theorem Rep.cap_eq {d es tail} (h : Rep d es tail) : d.capacity = d.used + tail.length := by
  rw [h.cap, h.file.length]

/-- the entry of a fresh key -/
def fresh (k : Key) : Entry := ⟨k, 0, 0⟩

/-- the file after `_init_value(k)`: `z` zero bytes appended by growth, entry written at `used`, header published -/
def initFile (used : Nat) (es : List Entry) (tail : Bytes) (k : Key) (z : Nat) : Bytes :=
  hdr (used + entryLen k) ++ (encEntries (es ++ [fresh k]) ++ (tail ++ zeros z).drop (entryLen k))

/-- the three stages of the file during `_init_value`, for C11 -/
theorem init_value_stages {file used es tail} (h : FileRep file used es tail) (k : Key) (z : Nat)
    (hroom : entryLen k ≤ tail.length + z) :
    sliceWrite (file ++ zeros z) used (encEntry (fresh k))
        = hdr used ++ (encEntries es ++ (encEntry (fresh k) ++ (tail ++ zeros z).drop (entryLen k))) ∧
    sliceWrite (hdr used ++ (encEntries es ++ (encEntry (fresh k) ++ (tail ++ zeros z).drop (entryLen k)))) 0
        (le 4 (used + entryLen k)) = initFile used es tail k z := by
  constructor
  · refine sliceWrite_of_eq (a := hdr used ++ encEntries es) (b := (tail ++ zeros z).take (entryLen k))
      (c := (tail ++ zeros z).drop (entryLen k)) ?_ ?_ ?_
    · rw [h.file_eq]; simp
    · have := h.used_eq; simp; omega
    · simp [fresh]; omega
  · have := sliceWrite_of_eq (data := hdr used ++ (encEntries es ++ (encEntry (fresh k) ++ (tail ++ zeros z).drop (entryLen k))))
      (a := []) (b := le 4 used) (b' := le 4 (used + entryLen k)) (pos := 0)
      (c := [0, 0, 0, 0] ++ (encEntries es ++ (encEntry (fresh k) ++ (tail ++ zeros z).drop (entryLen k))))
      (by simp [hdr]) (by simp) (by simp)
    rw [this]
    simp [initFile, hdr]

theorem initFile_rep {file used es tail} (h : FileRep file used es tail) (k : Key) (z : Nat)
    (hb : used + entryLen k < 2147483648) :
    FileRep (initFile used es tail k z) (used + entryLen k) (es ++ [fresh k]) ((tail ++ zeros z).drop (entryLen k)) :=
  ⟨rfl, by have := h.used_eq; simp [fresh]; omega, hb⟩

theorem initValue_ok {d es tail} (h : Rep d es tail) (k : Key) (hk : k ∉ keys es)
    (hb : d.used + entryLen k < 2147483648) :
    ∃ caps, List.Pairwise (· ≤ ·) (d.capacity :: caps) ∧ d.used + entryLen k ≤ lastCap d.capacity caps ∧
      initValue d k = .ok
        (⟨initFile d.used es tail k (lastCap d.capacity caps - d.capacity), lastCap d.capacity caps,
          d.used + entryLen k, posOf 8 (es ++ [fresh k])⟩,
         caps.map Effect.truncate ++
          [.sliceWrite d.used (encEntry (fresh k)), .sliceWrite 0 (le 4 (d.used + entryLen k))]) := by
  have hu := h.file.used_eq
  have hcap := h.cap_eq
  have hklen : klen k < 2147483648 := by unfold entryLen at hb; omega
  obtain ⟨caps, hg, hpw, hneed⟩ := growCaps_ok (d.used + entryLen k) d.capacity (d.used + entryLen k) (by omega) (by omega)
  refine ⟨caps, hpw, hneed, ?_⟩
  have hge : d.capacity ≤ lastCap d.capacity caps := le_lastCap _ _ hpw
  have hfold : caps.foldl truncate d.file = d.file ++ zeros (lastCap d.capacity caps - d.capacity) := by
    have := foldl_truncate_chain caps d.file (by rw [← h.cap]; exact hpw)
    rw [← h.cap] at this; exact this
  have hst := init_value_stages h.file k (lastCap d.capacity caps - d.capacity) (by omega)
  have hpack : packInt (d.used + entryLen k) = .ok (le 4 (d.used + entryLen k)) := by simp [packInt, hb, intWidth]
  have hpos : setPos (posOf 8 es) k (d.used + entryLen k - positionBack) = posOf 8 (es ++ [fresh k]) := by
    rw [setPos_fresh _ _ _ ((lookup_posOf_none es 8 k).mpr hk), posOf_append]
    simp [posOf, fresh, valuePos, positionBack, entryLen]; omega
  unfold initValue
  simp only [entryBytes_eq k hklen, bind, Except.bind, initValueEffects, List.foldlM_cons, List.foldlM_nil,
    initValueStep, growKind, encEntry_length, fresh, entryReserve, Nat.add_zero, hg, foldl_Fx_truncate, hfold, Fx.sliceWrite, pure, Except.pure]
  have c1 : d.used + entryLen k ≤ lastCap d.capacity caps := hneed
  have c2 : 0 + (le 4 (d.used + entryLen k)).length ≤ lastCap d.capacity caps := by simp; omega
  simp only [fresh] at hst
  simp only [c1, if_true, hpack, hst.1, headerPos, hst.2, h.pos, hpos, List.nil_append, fresh, c2,
    List.append_assoc, List.cons_append]

end PromVerif.Lemmas.Mmap
