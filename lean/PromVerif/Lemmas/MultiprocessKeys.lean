/-
The bucket and `_count` series of one histogram family have pairwise different keys as soon as the bound formatter is
injective on the bounds that occur under one label set — and that injectivity is what C13 proves about
`floatToGoString` on the `repr` texts of the bounds, up to the CPython facts named below.
-/
import PromVerif.Lemmas.MultiprocessCompose
import PromVerif.Props.C13Injective

namespace PromVerif.Props.C08
open PromVerif.Py PromVerif.Generated.Multiprocess
open PromVerif.Model.Multiprocess PromVerif.Spec.Multiprocess
set_option autoImplicit false

variable {V B : Type}

/-! ### list facts -/

theorem nodup_flatMap {α β : Type} (l : List α) (f : α → List β) (hl : l.Nodup) (hin : ∀ x ∈ l, (f x).Nodup)
    (hdis : ∀ x ∈ l, ∀ y ∈ l, x ≠ y → ∀ b ∈ f x, b ∉ f y) : (l.flatMap f).Nodup := by
  induction l with
  | nil => simp
  | cons x r ih =>
    rw [List.nodup_cons] at hl
    simp only [List.flatMap_cons]
    rw [List.nodup_append]
    refine ⟨hin x List.mem_cons_self, ih hl.2 (fun y hy => hin y (List.mem_cons_of_mem _ hy))
      (fun y hy z hz => hdis y (List.mem_cons_of_mem _ hy) z (List.mem_cons_of_mem _ hz)), ?_⟩
    intro a ha b hb e
    obtain ⟨y, hy, hby⟩ := List.mem_flatMap.mp hb
    have hxy : x ≠ y := fun e' => hl.1 (e' ▸ hy)
    exact hdis x List.mem_cons_self y (List.mem_cons_of_mem _ hy) hxy a ha (e ▸ hby)

theorem nodup_map_on {α β : Type} (l : List α) (f : α → β) (hl : l.Nodup)
    (hinj : ∀ x ∈ l, ∀ y ∈ l, f x = f y → x = y) : (l.map f).Nodup := by
  induction l with
  | nil => simp
  | cons x r ih =>
    rw [List.nodup_cons] at hl
    simp only [List.map_cons, List.nodup_cons]
    refine ⟨?_, ih hl.2 (fun a ha b hb => hinj a (List.mem_cons_of_mem _ ha) b (List.mem_cons_of_mem _ hb))⟩
    intro hm
    obtain ⟨y, hy, e⟩ := List.mem_map.mp hm
    have := hinj x List.mem_cons_self y (List.mem_cons_of_mem _ hy) e.symm
    exact hl.1 (this ▸ hy)

theorem insertBound_perm (lt : B → B → Bool) (x : B) (l : List B) : (insertBound lt x l).Perm (x :: l) := by
  induction l with
  | nil => exact List.Perm.refl _
  | cons y r ih =>
    simp only [insertBound]
    split
    · exact ((List.Perm.cons y ih).trans (List.Perm.swap x y r))
    · exact List.Perm.refl _

theorem sortBounds_perm (lt : B → B → Bool) (l : List B) : (sortBounds lt l).Perm l := by
  unfold sortBounds
  induction l with
  | nil => exact List.Perm.refl _
  | cons x r ih =>
    simp only [List.foldr_cons]
    exact (insertBound_perm lt x _).trans (List.Perm.cons x ih)

/-! ### keys of the bucket series -/

theorem groupSeries_keys (vo : VOps V) (bo : BOps B) [DecidableEq B] (mn : Str) (bcs : List (Labels × B × V)) (L : Labels) :
    AL.keys (groupSeries vo bo mn bcs L)
      = (sortBounds bo.lt (boundsOf bcs L)).map (fun b => (mn ++ "_bucket".toList, L ++ [("le".toList, bo.fmt b)]))
        ++ [(mn ++ "_count".toList, L)] := by
  unfold groupSeries AL.keys
  simp only [List.map_append, List.map_map, List.map_cons, List.map_nil]
  congr 1
  have h := cumulate_fst vo vo.zero (mergedSorted vo bo bcs L)
  have : (cumulate vo vo.zero (mergedSorted vo bo bcs L)).map
      ((fun (x : SKey × V) => x.1) ∘ fun bv => ((mn ++ "_bucket".toList, L ++ [("le".toList, bo.fmt bv.1)]), bv.2))
      = ((cumulate vo vo.zero (mergedSorted vo bo bcs L)).map (·.1)).map
          (fun b => (mn ++ "_bucket".toList, L ++ [("le".toList, bo.fmt b)])) := by
    rw [List.map_map]; rfl
  rw [this, h]
  unfold mergedSorted
  rw [List.map_map, List.map_map]
  rfl

theorem bucket_ne_count (mn : Str) : mn ++ "_bucket".toList ≠ mn ++ "_count".toList := by
  intro h
  have := List.append_cancel_left h
  revert this; decide

/-- **the `hk` hypothesis of `accumulate_eq_spec_partial`, derived**: if, under every label set, the bound formatter is
    injective on the bounds that occur, the bucket and `_count` series of the family have pairwise different keys -/
theorem bucketSeries_keys_nodup (vo : VOps V) (bo : BOps B) [DecidableEq B] (mn : Str) (cs : List (Contrib V))
    (hinj : ∀ L ∈ groups (bucketContribs bo cs), ∀ b ∈ boundsOf (bucketContribs bo cs) L,
      ∀ b' ∈ boundsOf (bucketContribs bo cs) L, bo.fmt b = bo.fmt b' → b = b') :
    (AL.keys (bucketSeries vo bo mn cs)).Nodup := by
  unfold bucketSeries
  simp only
  have hk : AL.keys ((groups (bucketContribs bo cs)).flatMap (groupSeries vo bo mn (bucketContribs bo cs)))
      = (groups (bucketContribs bo cs)).flatMap (fun L => AL.keys (groupSeries vo bo mn (bucketContribs bo cs) L)) := by
    unfold AL.keys
    rw [List.map_flatMap]
  rw [hk]
  apply nodup_flatMap _ _ (nodup_distinct _)
  · intro L hL
    rw [groupSeries_keys, List.nodup_append]
    refine ⟨?_, by simp, ?_⟩
    · apply nodup_map_on
      · exact (sortBounds_perm bo.lt _).symm.nodup (nodup_distinct _)
      · intro b hb b' hb' e
        simp only [Prod.mk.injEq, true_and] at e
        have e' := List.append_cancel_left e
        simp only [List.cons.injEq, Prod.mk.injEq, true_and, and_true] at e'
        exact hinj L hL b ((mem_sortBounds _ _ _).mp hb) b' ((mem_sortBounds _ _ _).mp hb') e'
    · intro a ha b hb e
      obtain ⟨x, _, rfl⟩ := List.mem_map.mp ha
      simp only [List.mem_singleton] at hb
      rw [hb] at e
      exact bucket_ne_count mn (congrArg Prod.fst e)
  · intro L hL L' hL' hne k hk hk'
    rw [groupSeries_keys] at hk hk'
    rcases List.mem_append.mp hk with h1 | h1
    · obtain ⟨b, _, rfl⟩ := List.mem_map.mp h1
      rcases List.mem_append.mp hk' with h2 | h2
      · obtain ⟨b', _, e⟩ := List.mem_map.mp h2
        simp only [Prod.mk.injEq, true_and] at e
        exact hne (List.append_inj_left' e (by simp)).symm
      · simp only [List.mem_singleton, Prod.mk.injEq] at h2
        exact bucket_ne_count mn h2.1
    · simp only [List.mem_singleton] at h1
      rw [h1] at hk'
      rcases List.mem_append.mp hk' with h2 | h2
      · obtain ⟨b', _, e⟩ := List.mem_map.mp h2
        exact bucket_ne_count mn (congrArg Prod.fst e)
      · simp only [List.mem_singleton, Prod.mk.injEq, true_and] at h2
        exact hne h2

/-! ### connection with C13: `floatToGoString` on the `repr` texts of bounds

C13 is stated on `repr` TEXTS (Lean has no theory of doubles).  A bound `b` is rendered as
`floatToGoString (repr b)`; cross-class injectivity of `floatToGoString` is `Props.C13Injective.go_injective_texts`. -/

section C13
open PromVerif.Spec PromVerif.Model.Utils PromVerif.Props.C13 PromVerif.Lemmas.GoInjective PromVerif.Props.C13Injective

/-- **injectivity of the bound formatter from C13.**  Let bounds be rendered as `floatToGoString (repr b)`.  If the
    `repr` texts of the occurring bounds belong to the five classes of `ReprText`, `repr` is injective on them, and the
    two CPython facts of `C13Injective.ReprFacts` hold for them, the formatter is injective on the occurring bounds —
    which is hypothesis `hinj` of `bucketSeries_keys_nodup`.  What stays assumed, and why: injectivity and shortestness
    of `repr` and its exponent-form range are facts about IEEE doubles and CPython, which have no Lean theory here; the
    harness re-validates them on every bound it generates (C13's `REPR_RE` / range check). -/
theorem fmt_injective_of_repr (repr : B → Str) (bounds : List B)
    (hshape : ∀ b ∈ bounds, ReprText (repr b))
    (hrepr : ∀ b ∈ bounds, ∀ b' ∈ bounds, repr b = repr b' → b = b')
    (hfacts : ReprFacts (fun s => ∃ b ∈ bounds, repr b = s)) :
    ∀ b ∈ bounds, ∀ b' ∈ bounds,
      floatToGoString (repr b) = floatToGoString (repr b') → b = b' := by
  intro b hb b' hb' heq
  apply hrepr b hb b' hb'
  exact go_injective_texts _ hfacts _ _ (hshape b hb) (hshape b' hb') ⟨b, hb, rfl⟩ ⟨b', hb', rfl⟩ heq

end C13

end PromVerif.Props.C08
