/-
The bucket and `_count` series of one histogram family have pairwise different keys as soon as the bound formatter is
injective on the bounds that occur under one label set — and that injectivity is what C13 proves about
`floatToGoString` on the `repr` texts of the bounds, up to the CPython facts named below.
-/
import PromVerif.Lemmas.MultiprocessCompose
import PromVerif.Props.C13

namespace PromVerif.Props.C08
open PromVerif.Py PromVerif.Generated.Multiprocess
open PromVerif.Model.Multiprocess PromVerif.Spec.Multiprocess
set_option autoImplicit false

variable {V B : Type}

/-! ### list facts -/

theorem nodup_flatMap {α β : Type} (l : List α) (f : α → List β) (hl : l.Nodup) (hin : ∀ x ∈ l, (f x).Nodup)
    (hdis : ∀ x ∈ l, ∀ y ∈ l, x ≠ y → ∀ b ∈ f x, b ∉ f y) : (l.flatMap f).Nodup := by
  induction l with
  | nil => simp
  | cons x r ih =>
    rw [List.nodup_cons] at hl
    simp only [List.flatMap_cons]
    rw [List.nodup_append]
    refine ⟨hin x List.mem_cons_self, ih hl.2 (fun y hy => hin y (List.mem_cons_of_mem _ hy))
      (fun y hy z hz => hdis y (List.mem_cons_of_mem _ hy) z (List.mem_cons_of_mem _ hz)), ?_⟩
    intro a ha b hb e
    obtain ⟨y, hy, hby⟩ := List.mem_flatMap.mp hb
    have hxy : x ≠ y := fun e' => hl.1 (e' ▸ hy)
    exact hdis x List.mem_cons_self y (List.mem_cons_of_mem _ hy) hxy a ha (e ▸ hby)

theorem nodup_map_on {α β : Type} (l : List α) (f : α → β) (hl : l.Nodup)
    (hinj : ∀ x ∈ l, ∀ y ∈ l, f x = f y → x = y) : (l.map f).Nodup := by
  induction l with
  | nil => simp
  | cons x r ih =>
    rw [List.nodup_cons] at hl
    simp only [List.map_cons, List.nodup_cons]
    refine ⟨?_, ih hl.2 (fun a ha b hb => hinj a (List.mem_cons_of_mem _ ha) b (List.mem_cons_of_mem _ hb))⟩
    intro hm
    obtain ⟨y, hy, e⟩ := List.mem_map.mp hm
    have := hinj x List.mem_cons_self y (List.mem_cons_of_mem _ hy) e.symm
    exact hl.1 (this ▸ hy)

theorem insertBound_perm (lt : B → B → Bool) (x : B) (l : List B) : (insertBound lt x l).Perm (x :: l) := by
  induction l with
  | nil => exact List.Perm.refl _
  | cons y r ih =>
    simp only [insertBound]
    split
    · exact ((List.Perm.cons y ih).trans (List.Perm.swap x y r))
    · exact List.Perm.refl _

theorem sortBounds_perm (lt : B → B → Bool) (l : List B) : (sortBounds lt l).Perm l := by
  unfold sortBounds
  induction l with
  | nil => exact List.Perm.refl _
  | cons x r ih =>
    simp only [List.foldr_cons]
    exact (insertBound_perm lt x _).trans (List.Perm.cons x ih)

/-! ### keys of the bucket series -/

theorem groupSeries_keys (vo : VOps V) (bo : BOps B) [DecidableEq B] (mn : Str) (bcs : List (Labels × B × V)) (L : Labels) :
    AL.keys (groupSeries vo bo mn bcs L)
      = (sortBounds bo.lt (boundsOf bcs L)).map (fun b => (mn ++ "_bucket".toList, L ++ [("le".toList, bo.fmt b)]))
        ++ [(mn ++ "_count".toList, L)] := by
  unfold groupSeries AL.keys
  simp only [List.map_append, List.map_map, List.map_cons, List.map_nil]
  congr 1
  have h := cumulate_fst vo vo.zero (mergedSorted vo bo bcs L)
  have : (cumulate vo vo.zero (mergedSorted vo bo bcs L)).map
      ((fun (x : SKey × V) => x.1) ∘ fun bv => ((mn ++ "_bucket".toList, L ++ [("le".toList, bo.fmt bv.1)]), bv.2))
      = ((cumulate vo vo.zero (mergedSorted vo bo bcs L)).map (·.1)).map
          (fun b => (mn ++ "_bucket".toList, L ++ [("le".toList, bo.fmt b)])) := by
    rw [List.map_map]; rfl
  rw [this, h]
  unfold mergedSorted
  rw [List.map_map, List.map_map]
  rfl

theorem bucket_ne_count (mn : Str) : mn ++ "_bucket".toList ≠ mn ++ "_count".toList := by
  intro h
  have := List.append_cancel_left h
  revert this; decide

/-- **the `hk` hypothesis of `accumulate_eq_spec_partial`, derived**: if, under every label set, the bound formatter is
    injective on the bounds that occur, the bucket and `_count` series of the family have pairwise different keys -/
theorem bucketSeries_keys_nodup (vo : VOps V) (bo : BOps B) [DecidableEq B] (mn : Str) (cs : List (Contrib V))
    (hinj : ∀ L ∈ groups (bucketContribs bo cs), ∀ b ∈ boundsOf (bucketContribs bo cs) L,
      ∀ b' ∈ boundsOf (bucketContribs bo cs) L, bo.fmt b = bo.fmt b' → b = b') :
    (AL.keys (bucketSeries vo bo mn cs)).Nodup := by
  unfold bucketSeries
  simp only
  have hk : AL.keys ((groups (bucketContribs bo cs)).flatMap (groupSeries vo bo mn (bucketContribs bo cs)))
      = (groups (bucketContribs bo cs)).flatMap (fun L => AL.keys (groupSeries vo bo mn (bucketContribs bo cs) L)) := by
    unfold AL.keys
    rw [List.map_flatMap]
  rw [hk]
  apply nodup_flatMap _ _ (nodup_distinct _)
  · intro L hL
    rw [groupSeries_keys, List.nodup_append]
    refine ⟨?_, by simp, ?_⟩
    · apply nodup_map_on
      · exact (sortBounds_perm bo.lt _).symm.nodup (nodup_distinct _)
      · intro b hb b' hb' e
        simp only [Prod.mk.injEq, true_and] at e
        have e' := List.append_cancel_left e
        simp only [List.cons.injEq, Prod.mk.injEq, true_and, and_true] at e'
        exact hinj L hL b ((mem_sortBounds _ _ _).mp hb) b' ((mem_sortBounds _ _ _).mp hb') e'
    · intro a ha b hb e
      obtain ⟨x, _, rfl⟩ := List.mem_map.mp ha
      simp only [List.mem_singleton] at hb
      rw [hb] at e
      exact bucket_ne_count mn (congrArg Prod.fst e)
  · intro L hL L' hL' hne k hk hk'
    rw [groupSeries_keys] at hk hk'
    rcases List.mem_append.mp hk with h1 | h1
    · obtain ⟨b, _, rfl⟩ := List.mem_map.mp h1
      rcases List.mem_append.mp hk' with h2 | h2
      · obtain ⟨b', _, e⟩ := List.mem_map.mp h2
        simp only [Prod.mk.injEq, true_and] at e
        exact hne (List.append_inj_left' e (by simp)).symm
      · simp only [List.mem_singleton, Prod.mk.injEq] at h2
        exact bucket_ne_count mn h2.1
    · simp only [List.mem_singleton] at h1
      rw [h1] at hk'
      rcases List.mem_append.mp hk' with h2 | h2
      · obtain ⟨b', _, e⟩ := List.mem_map.mp h2
        exact bucket_ne_count mn (congrArg Prod.fst e)
      · simp only [List.mem_singleton, Prod.mk.injEq, true_and] at h2
        exact hne h2

/-! ### connection with C13: `floatToGoString` on the `repr` texts of bounds

C13 is stated on `repr` TEXTS (Lean has no theory of doubles).  A bound `b` is rendered as
`floatToGoString (repr b)`.  The shapes `repr` produces for histogram bounds are listed in `BoundRepr`. -/

open PromVerif.Spec PromVerif.Model.Utils PromVerif.Props.C13 in
/-- `repr` texts of bounds: plain with at most / more than six integer digits, exponent form, `inf`, negative finite -/
inductive BoundRepr : Str → Prop
  | small (I F : Str) (h : PlainRepr I F) (hs : I.length ≤ 6) : BoundRepr (I ++ '.' :: F)
  | big (i0 : Char) (I' F : Str) (h : PlainRepr (i0 :: I') F) (hb : 6 ≤ I'.length) : BoundRepr (i0 :: I' ++ '.' :: F)
  | exp (s : Str) (h : ExpRepr s) : BoundRepr s
  | inf : BoundRepr ['i', 'n', 'f']
  | neg (c : Char) (r : Str) (hc : isDigit c = true) : BoundRepr ('-' :: c :: r)

section C13
open PromVerif.Spec PromVerif.Model.Utils PromVerif.Props.C13

/-- the text starts with a decimal digit -/
def DigitHead (l : Str) : Prop := ∃ c r, l = c :: r ∧ isDigit c = true

theorem digitHead_ne_plus (l : Str) (h : DigitHead l) : l.head? ≠ some '+' ∧ l.head? ≠ some '-' := by
  obtain ⟨c, r, rfl, hc⟩ := h
  simp only [List.head?_cons, ne_eq, Option.some.injEq]
  exact ⟨isDigit_ne hc (by decide), isDigit_ne hc (by decide)⟩

theorem plain_head (I F : Str) (h : PlainRepr I F) : DigitHead (I ++ '.' :: F) := by
  cases hI : I with
  | nil => exact absurd hI h.ine
  | cons c r =>
    have := h.idig; rw [hI] at this; simp [allDigits] at this
    exact ⟨c, r ++ '.' :: F, rfl, this.1⟩

theorem plain_no_e (I F : Str) (h : PlainRepr I F) : 'e' ∉ I ++ '.' :: F := by
  intro hm
  rcases List.mem_append.mp hm with hm | hm
  · exact not_mem_of_allDigits h.idig (by decide) hm
  · rcases List.mem_cons.mp hm with e | hm
    · revert e; decide
    · exact not_mem_of_allDigits h.fdig (by decide) hm

theorem exp_head (s : Str) (h : ExpRepr s) : DigitHead s := by
  obtain ⟨d, F, ex, hd, _, _, hs⟩ := h.shape
  rcases hs with hs | hs <;> exact ⟨d, _, hs, hd⟩

theorem big_render_head (i0 : Char) (I' F : Str) (h : PlainRepr (i0 :: I') F) (hb : 6 ≤ I'.length) :
    DigitHead (floatToGoString (i0 :: I' ++ '.' :: F)) := by
  rw [go_big i0 I' F h hb]
  have hi0 : isDigit i0 = true := by have := h.idig; simp [allDigits] at this; exact this.1
  unfold goFormat
  simp only
  split
  · exact ⟨i0, _, rfl, hi0⟩
  · exact ⟨i0, _, rfl, hi0⟩

/-- how the rendering of a bound's `repr` looks, per shape -/
theorem render_shape (s : Str) (h : BoundRepr s) :
    (DigitHead (floatToGoString s)) ∨ floatToGoString s = ['+', 'I', 'n', 'f'] ∨
    (∃ c r, isDigit c = true ∧ s = '-' :: c :: r ∧ floatToGoString s = s) := by
  cases h with
  | small I F h hs => left; rw [go_small I F h hs]; exact plain_head I F h
  | big i0 I' F h hb => left; exact big_render_head i0 I' F h hb
  | exp s h => left; rw [go_exp s h]; exact exp_head s h
  | inf => right; left; exact go_special.1
  | neg c r hc =>
    right; right
    refine ⟨c, r, hc, rfl, go_negative (c :: r) ?_⟩
    intro e
    have : c = 'i' := by simpa using congrArg List.head? e
    rw [this] at hc; revert hc; decide

/-- **C13 ⇒ the renderings of two bound texts coincide only if the texts do**, except in two situations the text
    formulation cannot exclude and CPython's `repr` does (see `fmt_injective_of_repr`):
    (a) two plain texts with more than six integer digits denoting the same number (`go_injective_big`) — `repr` prints
        one shortest text per double;
    (b) a plain text with more than six integer digits whose rendering IS an exponent-form text — `repr` uses the
        exponent form only from `1e16` on, where it does not use the plain form. -/
theorem render_injective (s t : Str) (hs : BoundRepr s) (ht : BoundRepr t)
    (heq : floatToGoString s = floatToGoString t) :
    s = t ∨
    (∃ a b c, denote s = some a ∧ denote t = some b ∧ a.eqv c ∧ b.eqv c) ∨
    (ExpRepr t ∧ floatToGoString s = t) ∨ (ExpRepr s ∧ floatToGoString t = s) := by
  have shape_s := render_shape s hs
  have shape_t := render_shape t ht
  -- different kinds of first character: impossible
  have hplus : (['+', 'I', 'n', 'f'] : Str).head? = some '+' := rfl
  cases hs with
  | inf =>
    cases ht with
    | inf => exact Or.inl rfl
    | small I F h hs' =>
      rw [go_special.1, go_small I F h hs'] at heq
      exact absurd (heq ▸ hplus) (digitHead_ne_plus _ (plain_head I F h)).1
    | big i0 I' F h hb =>
      rw [go_special.1] at heq
      exact absurd (heq ▸ hplus) (digitHead_ne_plus _ (big_render_head i0 I' F h hb)).1
    | exp t h =>
      rw [go_special.1, go_exp t h] at heq
      exact absurd (heq ▸ hplus) (digitHead_ne_plus _ (exp_head t h)).1
    | neg c r hc =>
      have hn : floatToGoString ('-' :: c :: r) = '-' :: c :: r := go_negative (c :: r) (by
        intro e; have : c = 'i' := by simpa using congrArg List.head? e
        rw [this] at hc; revert hc; decide)
      rw [go_special.1, hn] at heq
      revert heq; simp
  | neg c r hc =>
    have hn : floatToGoString ('-' :: c :: r) = '-' :: c :: r := go_negative (c :: r) (by
      intro e; have : c = 'i' := by simpa using congrArg List.head? e
      rw [this] at hc; revert hc; decide)
    have hminus : (floatToGoString ('-' :: c :: r)).head? = some '-' := by rw [hn]; rfl
    rcases shape_t with h | h | ⟨c', r', _, e1, e2⟩
    · rw [← heq] at h; exact absurd hminus (digitHead_ne_plus _ h).2
    · rw [← heq] at h; rw [h] at hminus; revert hminus; simp
    · rw [hn, e2] at heq; exact Or.inl heq
  | small I F h hs' =>
    rw [go_small I F h hs'] at heq
    cases ht with
    | small J G h2 ht' => rw [go_small J G h2 ht'] at heq; exact Or.inl heq
    | exp t h2 => rw [go_exp t h2] at heq; exact Or.inl heq
    | big j0 J' G h2 hb =>
      have := (go_big_has_exponent j0 J' G h2 hb).1
      rw [← heq] at this
      exact absurd this (plain_no_e I F h)
    | inf =>
      rw [go_special.1] at heq
      exact absurd (heq.symm ▸ hplus) (digitHead_ne_plus _ (plain_head I F h)).1
    | neg c r hc =>
      have hn : floatToGoString ('-' :: c :: r) = '-' :: c :: r := go_negative (c :: r) (by
        intro e; have : c = 'i' := by simpa using congrArg List.head? e
        rw [this] at hc; revert hc; decide)
      rw [hn] at heq
      have := (digitHead_ne_plus _ (plain_head I F h)).2
      rw [heq] at this; exact absurd rfl this
  | exp s h =>
    rw [go_exp s h] at heq
    cases ht with
    | small J G h2 ht' => rw [go_small J G h2 ht'] at heq; exact Or.inl heq
    | exp t h2 => rw [go_exp t h2] at heq; exact Or.inl heq
    | big j0 J' G h2 hb => exact Or.inr (Or.inr (Or.inr ⟨h, heq.symm⟩))
    | inf =>
      rw [go_special.1] at heq
      exact absurd (heq.symm ▸ hplus) (digitHead_ne_plus _ (exp_head s h)).1
    | neg c r hc =>
      have hn : floatToGoString ('-' :: c :: r) = '-' :: c :: r := go_negative (c :: r) (by
        intro e; have : c = 'i' := by simpa using congrArg List.head? e
        rw [this] at hc; revert hc; decide)
      rw [hn] at heq
      have := (digitHead_ne_plus _ (exp_head s h)).2
      rw [heq] at this; exact absurd rfl this
  | big i0 I' F h hb =>
    cases ht with
    | big j0 J' G h2 hb2 => exact Or.inr (Or.inl (go_injective_big i0 j0 I' J' F G h h2 hb hb2 heq))
    | exp t h2 => rw [go_exp t h2] at heq; exact Or.inr (Or.inr (Or.inl ⟨h2, heq⟩))
    | small J G h2 ht' =>
      rw [go_small J G h2 ht'] at heq
      have := (go_big_has_exponent i0 I' F h hb).1
      rw [heq] at this
      exact absurd this (plain_no_e J G h2)
    | inf =>
      rw [go_special.1] at heq
      exact absurd (heq.symm ▸ hplus) (digitHead_ne_plus _ (big_render_head i0 I' F h hb)).1
    | neg c r hc =>
      have hn : floatToGoString ('-' :: c :: r) = '-' :: c :: r := go_negative (c :: r) (by
        intro e; have : c = 'i' := by simpa using congrArg List.head? e
        rw [this] at hc; revert hc; decide)
      rw [hn] at heq
      have := (digitHead_ne_plus _ (big_render_head i0 I' F h hb)).2
      rw [heq] at this; exact absurd rfl this

/-- **injectivity of the bound formatter from C13.**  Let bounds be rendered as `floatToGoString (repr b)`.  If the
    `repr` texts of the occurring bounds have the shapes of `BoundRepr`, `repr` is injective on them, and the two
    CPython facts (a), (b) of `render_injective` hold for them, the formatter is injective on the occurring bounds —
    which is hypothesis `hinj` of `bucketSeries_keys_nodup`.  What stays assumed, and why: injectivity and shortestness
    of `repr` (a) and its exponent-form range (b) are facts about IEEE doubles and CPython, which have no Lean theory
    here; the harness re-validates them on every bound it generates (C13's `REPR_RE` / range check). -/
theorem fmt_injective_of_repr (repr : B → Str) (bounds : List B)
    (hshape : ∀ b ∈ bounds, BoundRepr (repr b))
    (hrepr : ∀ b ∈ bounds, ∀ b' ∈ bounds, repr b = repr b' → b = b')
    (hshortest : ∀ b ∈ bounds, ∀ b' ∈ bounds, (∃ a a' c, denote (repr b) = some a ∧ denote (repr b') = some a' ∧
      a.eqv c ∧ a'.eqv c) → repr b = repr b')
    (hrange : ∀ b ∈ bounds, ∀ b' ∈ bounds, ExpRepr (repr b') → floatToGoString (repr b) = repr b' → repr b = repr b') :
    ∀ b ∈ bounds, ∀ b' ∈ bounds,
      floatToGoString (repr b) = floatToGoString (repr b') → b = b' := by
  intro b hb b' hb' heq
  apply hrepr b hb b' hb'
  rcases render_injective _ _ (hshape b hb) (hshape b' hb') heq with h | h | ⟨h1, h2⟩ | ⟨h1, h2⟩
  · exact h
  · exact hshortest b hb b' hb' h
  · exact hrange b hb b' hb' h1 h2
  · exact (hrange b' hb' b hb h1 h2).symm

end C13

end PromVerif.Props.C08
